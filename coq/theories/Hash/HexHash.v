(** The hasher of the correspondence run, [hexhash] (hex of the UTF-8 encoding),
    satisfies the hypotheses of C07 on strings of code points below 0x110000:
    separator-free, non-empty on non-empty input, injective.  A total hasher
    [hexhash_total] that agrees with it on such strings and satisfies the
    hypotheses everywhere lets the C07 theorems be instantiated with no
    hypothesis on the hasher. *)
From Coq Require Import List ZArith NArith Bool Lia Permutation Arith String.
Import ListNotations.
From DD Require Import Base.PyStr Base.Value Hash.HashModel Hash.Equiv Hash.HashProofsBase
  Hash.HashProofsC06 Hash.HashProofsC07.

Ltac Zify.zify_post_hook ::= Z.to_euclidean_division_equations.

Definition cp_ok (c : N) : Prop := (c < 1114112)%N.
Definition str_ok (s : pystr) : Prop := Forall cp_ok s.
Definition byte_ok (b : N) : Prop := (b < 256)%N.
Definition is_hex (c : N) : Prop := (48 <= c <= 57)%N \/ (97 <= c <= 102)%N.

(* ---- hex layer ---- *)
Lemma hexdigit_hex : forall n, (n < 16)%N -> is_hex (hexdigit n).
Proof. intros n Hn. unfold hexdigit, is_hex. destruct (N.ltb_spec n 10); lia. Qed.

Lemma hexdigit_inj : forall n m, (n < 16)%N -> (m < 16)%N -> hexdigit n = hexdigit m -> n = m.
Proof. intros n m Hn Hm. unfold hexdigit. destruct (N.ltb_spec n 10), (N.ltb_spec m 10); lia. Qed.

Lemma hexbyte_inj : forall a b, byte_ok a -> byte_ok b -> hexbyte a = hexbyte b -> a = b.
Proof.
  unfold byte_ok, hexbyte. intros a b Ha Hb He. inversion He as [[E1 E2]].
  apply hexdigit_inj in E1; try lia. apply hexdigit_inj in E2; try lia.
Qed.

Lemma hex_layer_inj : forall l1 l2, Forall byte_ok l1 -> Forall byte_ok l2 ->
  flat_map hexbyte l1 = flat_map hexbyte l2 -> l1 = l2.
Proof.
  induction l1 as [|a l1 IH]; intros [|b l2] F1 F2 He; cbn in He; try discriminate; auto.
  inversion F1; inversion F2; subst. inversion He as [[E1 E2 E3]].
  assert (a = b) by (apply hexbyte_inj; auto; unfold hexbyte; congruence).
  subst. f_equal. auto.
Qed.

Lemma hex_layer_hex : forall l, Forall byte_ok l -> Forall is_hex (flat_map hexbyte l).
Proof.
  induction l as [|a l IH]; intro F; cbn; [constructor|]. inversion F; subst. unfold byte_ok in *.
  constructor; [apply hexdigit_hex; lia|]. constructor; [apply hexdigit_hex; lia|]. auto.
Qed.

(* ---- UTF-8 layer ---- *)
Lemma utf8_bytes : forall c, cp_ok c -> Forall byte_ok (utf8 c).
Proof.
  unfold cp_ok, utf8, byte_ok. intros c Hc.
  destruct (N.ltb_spec c 128); [|destruct (N.ltb_spec c 2048); [|destruct (N.ltb_spec c 65536)]];
    repeat constructor; lia.
Qed.

Lemma utf8_nonempty : forall c, utf8 c <> [].
Proof.
  intro c. unfold utf8.
  destruct (N.ltb c 128); [|destruct (N.ltb c 2048); [|destruct (N.ltb c 65536)]]; discriminate.
Qed.

(* prefix code: the first byte determines the length, the bytes determine the code point *)
Local Opaque N.add N.div N.modulo.
Lemma utf8_prefix_inj : forall c d r1 r2, cp_ok c -> cp_ok d ->
  utf8 c ++ r1 = utf8 d ++ r2 -> c = d /\ r1 = r2.
Proof.
  unfold cp_ok, utf8. intros c d r1 r2 Hc Hd He.
  destruct (N.ltb_spec c 128); [|destruct (N.ltb_spec c 2048); [|destruct (N.ltb_spec c 65536)]];
  (destruct (N.ltb_spec d 128); [|destruct (N.ltb_spec d 2048); [|destruct (N.ltb_spec d 65536)]]);
    cbn [app] in He; inversion He; subst; split; auto; try lia.
Qed.

Local Transparent N.add N.div N.modulo.

Lemma utf8_layer_inj : forall s t, str_ok s -> str_ok t ->
  flat_map utf8 s = flat_map utf8 t -> s = t.
Proof.
  induction s as [|c s IH]; intros [|d t] F1 F2 He; cbn in He; auto.
  - exfalso. destruct (utf8 d) eqn:E; [eapply utf8_nonempty; eauto|discriminate].
  - exfalso. destruct (utf8 c) eqn:E; [eapply utf8_nonempty; eauto|discriminate].
  - inversion F1; inversion F2; subst.
    destruct (utf8_prefix_inj c d _ _ H1 H5 He) as [-> Hr]. f_equal. auto.
Qed.

Lemma utf8_layer_bytes : forall s, str_ok s -> Forall byte_ok (flat_map utf8 s).
Proof.
  induction s as [|c s IH]; intro F; cbn; [constructor|]. inversion F; subst.
  apply Forall_app. split; auto using utf8_bytes.
Qed.

Lemma hexhash_layers : forall s, hexhash s = flat_map hexbyte (flat_map utf8 s).
Proof.
  unfold hexhash. induction s as [|c s IH]; cbn; auto. rewrite flat_map_app, IH. reflexivity.
Qed.

(* ---- the three properties ---- *)
Lemma hexhash_inj : forall s t, str_ok s -> str_ok t -> hexhash s = hexhash t -> s = t.
Proof.
  intros s t Fs Ft He. rewrite !hexhash_layers in He.
  apply hex_layer_inj in He; auto using utf8_layer_bytes. apply utf8_layer_inj; auto.
Qed.

Lemma hexhash_hex : forall s, str_ok s -> Forall is_hex (hexhash s).
Proof. intros s F. rewrite hexhash_layers. apply hex_layer_hex, utf8_layer_bytes, F. Qed.

Lemma hex_free : forall c l, Forall is_hex l -> ~ is_hex c -> free c l.
Proof. intros c l F Hn Hi. rewrite Forall_forall in F. apply Hn. auto. Qed.

Lemma hexhash_tok : forall s, str_ok s -> s <> [] -> sepfree (hexhash s).
Proof.
  intros s F Hne. pose proof (hexhash_hex s F) as Hh. split.
  - destruct s as [|c s]; [congruence|]. unfold hexhash. cbn.
    destruct (utf8 c) eqn:E; [exfalso; eapply utf8_nonempty; eauto|]. cbn. discriminate.
  - repeat split; apply (hex_free _ _ Hh); unfold is_hex; lia.
Qed.

(* ------------------------------------------------------------------ *)
(** * A total hasher that agrees with hexhash on valid strings *)

Definition str_okb (s : pystr) : bool := forallb (fun c => N.ltb c 1114112) s.

Lemma str_okb_spec : forall s, str_okb s = true <-> str_ok s.
Proof.
  intro s. unfold str_okb, str_ok, cp_ok. rewrite forallb_forall, Forall_forall.
  split; intros Hs c Hc; specialize (Hs c Hc); [apply N.ltb_lt|apply N.ltb_lt]; auto.
Qed.

Definition hexhash_total (s : pystr) : pystr :=
  if str_okb s then hexhash s else 122%N :: unary_hash s.

Lemma hexhash_total_ok : forall s, str_ok s -> hexhash_total s = hexhash s.
Proof. intros s Hs. unfold hexhash_total. apply str_okb_spec in Hs. rewrite Hs. reflexivity. Qed.

Lemma hexhash_total_tok : forall s, s <> [] -> sepfree (hexhash_total s).
Proof.
  intros s Hne. unfold hexhash_total. destruct (str_okb s) eqn:E.
  - apply hexhash_tok; auto. apply str_okb_spec; auto.
  - destruct (unary_hash_tok s Hne) as (_ & F1 & F2 & F3 & F4 & F5 & F6).
    split; [discriminate|].
    repeat split; intros [Hi|Hi]; try discriminate Hi;
      [apply F1|apply F2|apply F3|apply F4|apply F5|apply F6]; exact Hi.
Qed.

Lemma hexhash_total_inj : forall s t, hexhash_total s = hexhash_total t -> s = t.
Proof.
  intros s t He. unfold hexhash_total in He.
  assert (Hmix : forall a b, str_ok a -> hexhash a = 122%N :: b -> False).
  { intros a b Ha E. pose proof (hexhash_hex a Ha) as Hh. rewrite E in Hh.
    inversion Hh as [|? ? Hz _]. unfold is_hex in Hz. lia. }
  destruct (str_okb s) eqn:Es, (str_okb t) eqn:Et.
  - apply hexhash_inj; auto; apply str_okb_spec; auto.
  - exfalso. eapply Hmix; [apply str_okb_spec; exact Es|exact He].
  - exfalso. eapply Hmix; [apply str_okb_spec; exact Et|symmetry; exact He].
  - inversion He as [He']. apply unary_hash_inj; auto.
Qed.

(* ------------------------------------------------------------------ *)
(** * Every string DeepHash hands to the hasher is valid when the value's strings are *)

Definition atom_okb (a : atom) : bool :=
  match a with AStr s | ABytes s => str_okb s | _ => true end.
Definition val_okb (v : value) : bool := forallb atom_okb (atoms_of v).

Lemma str_ok_app : forall a b, str_ok (a ++ b) <-> str_ok a /\ str_ok b.
Proof. intros. unfold str_ok. apply Forall_app. Qed.

Lemma hex_ok : forall s, Forall is_hex s -> str_ok s.
Proof. intros s F. eapply Forall_impl; [|exact F]. unfold is_hex, cp_ok. intros; lia. Qed.

Lemma digits_ok : forall s, Forall is_digit s -> str_ok s.
Proof. intros s F. eapply Forall_impl; [|exact F]. unfold is_digit, cp_ok. intros; lia. Qed.

Lemma lower_ok : forall s, str_ok s -> str_ok (lower s).
Proof.
  unfold lower, str_ok. intros s F. apply Forall_map. eapply Forall_impl; [|exact F].
  unfold lower_char, cp_ok. intros c Hc. destruct (N.leb 65 c && N.leb c 90)%bool eqn:E; auto.
  apply andb_true_iff in E. destruct E as [_ E]. apply N.leb_le in E. lia.
Qed.

Lemma lit_ok : forall s, str_okb s = true -> str_ok s.
Proof. intros; apply str_okb_spec; auto. Qed.

Lemma dec_Z_ok : forall z, str_ok (dec_Z z).
Proof.
  intro z. unfold dec_Z. destruct (Z.to_int z).
  - apply digits_ok, uint_str_digits.
  - constructor; [unfold cp_ok; lia|apply digits_ok, uint_str_digits].
Qed.

Lemma zeros_ok : forall n, str_ok (zeros n).
Proof. intro n. unfold zeros, str_ok. apply Forall_forall. intros x Hx. apply repeat_spec in Hx. subst. unfold cp_ok; lia. Qed.

Lemma prep_string_ok : forall o ty s, str_ok ty -> str_ok s -> str_ok (prep_string o ty s).
Proof.
  intros o ty s Ht Hs. unfold prep_string.
  assert (str_ok (if ignore_string_type_changes o then s else ty ++ c_colon ++ s)).
  { destruct (ignore_string_type_changes o); auto. rewrite !str_ok_app. repeat split; auto. apply lit_ok; reflexivity. }
  destruct (ignore_string_case o); auto using lower_ok.
Qed.

Lemma retag_ok : forall o r, str_ok r -> str_ok (retag o r).
Proof. intros. unfold retag. apply prep_string_ok; auto. apply lit_ok; reflexivity. Qed.

Lemma atom_result_ok : forall o a, atom_okb a = true -> str_ok (atom_result o a).
Proof.
  intros o a Ha. destruct a as [| b | z | t | s | s]; cbn [atom_result].
  - apply lit_ok; reflexivity.
  - destruct b; apply lit_ok; reflexivity.
  - rewrite !str_ok_app. repeat split.
    + unfold num_type. destruct (ignore_numeric_type_changes o); apply lit_ok; reflexivity.
    + apply lit_ok; reflexivity.
    + destruct (eff_digits o) as [[|n]|]; cbn [fmt_int]; auto using dec_Z_ok.
      rewrite !str_ok_app. repeat split; auto using dec_Z_ok, zeros_ok. apply lit_ok; reflexivity.
  - rewrite !str_ok_app. repeat split.
    + unfold num_type. destruct (ignore_numeric_type_changes o); apply lit_ok; reflexivity.
    + apply lit_ok; reflexivity.
    + destruct (eff_digits o) as [[|n]|]; cbn [fmt_half]; unfold half_repr; auto using dec_Z_ok;
        rewrite !str_ok_app; repeat split; auto using zeros_ok;
        try (apply digits_ok, dec_N_digits);
        try (destruct (Z.ltb t 0); apply lit_ok; reflexivity);
        try (destruct (Z.odd t); apply lit_ok; reflexivity);
        apply lit_ok; reflexivity.
  - cbn in Ha. apply str_okb_spec; auto.
  - cbn in Ha. apply str_okb_spec; auto.
Qed.

Lemma ser_atom_ok : forall o a, atom_okb a = true -> str_ok (ser_atom o a).
Proof.
  intros o a Ha. destruct a as [| b | z | t | s | s]; cbn [ser_atom];
    try (apply retag_ok, atom_result_ok; auto);
    apply prep_string_ok; try (apply lit_ok; reflexivity); apply str_okb_spec; auto.
Qed.

Lemma join_ok : forall sep l, str_ok sep -> Forall str_ok l -> str_ok (join sep l).
Proof.
  intros sep l Hs F. induction F as [|x l Hx F IH]; [constructor|].
  destruct l as [|y l]; [exact Hx|]. rewrite join_cons2, !str_ok_app. auto.
Qed.

Lemma arrange_ok : forall o hs, Forall str_ok hs -> Forall str_ok (arrange o hs).
Proof.
  intros o hs F. unfold arrange.
  assert (F1 : Forall str_ok (if ignore_repetition o then dedup hs else map fmt_count (counts hs))).
  { destruct (ignore_repetition o).
    - apply Forall_dedup; auto.
    - apply Forall_forall. intros t Hi. apply in_map_iff in Hi. destruct Hi as [[h c] [<- Hi]].
      apply counts_In in Hi. destruct Hi as [Hi _]. rewrite Forall_forall in F.
      unfold fmt_count. cbn [fst snd]. rewrite !str_ok_app. repeat split; auto.
      + apply lit_ok; reflexivity.
      + apply digits_ok, dec_nat_digits. }
  destruct (ignore_iterable_order o); auto. apply Forall_isort; auto.
Qed.

Lemma seq_result_ok : forall name toks, str_ok name -> Forall str_ok toks -> str_ok (seq_result name toks).
Proof.
  intros. unfold seq_result. rewrite !str_ok_app. repeat split; auto.
  - apply lit_ok; reflexivity.
  - apply join_ok; auto. apply lit_ok; reflexivity.
Qed.

Lemma dict_result_ok : forall items, Forall str_ok items -> str_ok (dict_result items).
Proof.
  intros. unfold dict_result. rewrite !str_ok_app. repeat split.
  - apply lit_ok; reflexivity.
  - apply join_ok; [apply lit_ok; reflexivity|apply Forall_isort; auto].
  - apply lit_ok; reflexivity.
Qed.

Lemma val_ok_items : forall xs x, val_okb (VList xs) = true -> In x xs -> val_okb x = true.
Proof.
  unfold val_okb. cbn [atoms_of]. intros xs x Hv Hi. rewrite forallb_forall in *.
  intros a Ha. apply Hv. apply in_flat_map. eauto.
Qed.

Lemma val_ok_dict : forall kvs kv, val_okb (VDict kvs) = true -> In kv kvs ->
  atom_okb (fst kv) = true /\ val_okb (snd kv) = true.
Proof.
  unfold val_okb. cbn [atoms_of]. intros kvs kv Hv Hi. rewrite forallb_forall in Hv. split.
  - apply Hv. apply in_flat_map. exists kv. split; auto. left; auto.
  - rewrite forallb_forall. intros a Ha. apply Hv. apply in_flat_map. exists kv. split; auto. right; auto.
Qed.

Lemma hash_atom_agree : forall o a, atom_okb a = true ->
  hash_atom hexhash_total o a = hash_atom hexhash o a /\ str_ok (hash_atom hexhash o a).
Proof.
  intros o a Ha. unfold hash_atom. pose proof (ser_atom_ok o a Ha) as Hs. split.
  - apply hexhash_total_ok; auto.
  - apply hex_ok, hexhash_hex; auto.
Qed.

(* the total hasher and hexhash give the same hashes on values whose strings are valid *)
Theorem hexhash_total_agrees : forall o v, val_okb v = true ->
  hash_pure hexhash_total o v = hash_pure hexhash o v /\ str_ok (ser hexhash o v).
Proof.
  intros o v. induction v as [a|xs IH|xs IH|kvs IH|xs|xs] using value_ind'; intro Hv.
  - assert (Ha : atom_okb a = true) by (unfold val_okb in Hv; cbn in Hv; apply andb_true_iff in Hv; tauto).
    split; [apply (hash_atom_agree o a Ha)|apply ser_atom_ok; auto].
  - assert (Hm : map (hash_pure hexhash_total o) xs = map (hash_pure hexhash o) xs).
    { apply map_ext_in. intros x Hi. rewrite Forall_forall in IH. apply IH; auto. eapply val_ok_items; eauto. }
    assert (Hok : str_ok (ser hexhash o (VList xs))).
    { cbn [ser]. apply retag_ok, seq_result_ok; [apply lit_ok; reflexivity|]. apply arrange_ok.
      apply Forall_forall. intros t Hi. apply in_map_iff in Hi. destruct Hi as [x [<- Hx]].
      rewrite hash_pure_ser. apply hex_ok, hexhash_hex. rewrite Forall_forall in IH. apply IH; auto. eapply val_ok_items; eauto. }
    split; auto. rewrite !hash_pure_ser. cbn [ser] in *. rewrite Hm. apply hexhash_total_ok; auto.
  - assert (Hm : map (hash_pure hexhash_total o) xs = map (hash_pure hexhash o) xs).
    { apply map_ext_in. intros x Hi. rewrite Forall_forall in IH. apply IH; auto. eapply val_ok_items; eauto. }
    assert (Hok : str_ok (ser hexhash o (VTuple xs))).
    { cbn [ser]. apply retag_ok, seq_result_ok; [apply lit_ok; reflexivity|]. apply arrange_ok.
      apply Forall_forall. intros t Hi. apply in_map_iff in Hi. destruct Hi as [x [<- Hx]].
      rewrite hash_pure_ser. apply hex_ok, hexhash_hex. rewrite Forall_forall in IH. apply IH; auto. eapply val_ok_items; eauto. }
    split; auto. rewrite !hash_pure_ser. cbn [ser] in *. rewrite Hm. apply hexhash_total_ok; auto.
  - assert (Hin : forall kv, In kv (vis o kvs) -> In kv kvs) by (intros kv Hi; unfold vis in Hi; apply filter_In in Hi; tauto).
    assert (Hm : map (fun kv => dict_item (hash_atom hexhash_total o (fst kv)) (hash_pure hexhash_total o (snd kv))) (vis o kvs) =
                 map (fun kv => dict_item (hash_atom hexhash o (fst kv)) (hash_pure hexhash o (snd kv))) (vis o kvs)).
    { apply map_ext_in. intros kv Hi. destruct (val_ok_dict kvs kv Hv (Hin kv Hi)) as [Hk Hx].
      rewrite Forall_forall in IH. destruct (IH kv (Hin kv Hi) Hx) as [E _].
      destruct (hash_atom_agree o (fst kv) Hk) as [E2 _]. rewrite E, E2. reflexivity. }
    assert (Hok : str_ok (ser hexhash o (VDict kvs))).
    { cbn [ser]. apply retag_ok, dict_result_ok. apply Forall_forall. intros t Hi.
      apply in_map_iff in Hi. destruct Hi as [kv [<- Hkv]].
      destruct (val_ok_dict kvs kv Hv (Hin kv Hkv)) as [Hk Hx].
      unfold dict_item. rewrite !str_ok_app. repeat split.
      - apply (hash_atom_agree o (fst kv) Hk).
      - apply lit_ok; reflexivity.
      - rewrite hash_pure_ser. apply hex_ok, hexhash_hex. rewrite Forall_forall in IH. apply (IH kv); auto. }
    split; auto. rewrite !hash_pure_ser. cbn [ser] in *. rewrite Hm. apply hexhash_total_ok; auto.
  - assert (Ha : forall a, In a xs -> atom_okb a = true) by (unfold val_okb in Hv; cbn [atoms_of] in Hv; rewrite forallb_forall in Hv; auto).
    assert (Hm : map (hash_atom hexhash_total o) xs = map (hash_atom hexhash o) xs)
      by (apply map_ext_in; intros a Hi; apply (hash_atom_agree o a (Ha a Hi))).
    assert (Hok : str_ok (ser hexhash o (VSet xs))).
    { cbn [ser]. apply retag_ok, seq_result_ok; [apply lit_ok; reflexivity|]. apply arrange_ok.
      apply Forall_forall. intros t Hi. apply in_map_iff in Hi. destruct Hi as [a [<- Hx]].
      apply (hash_atom_agree o a (Ha a Hx)). }
    split; auto. rewrite !hash_pure_ser. cbn [ser] in *. rewrite Hm. apply hexhash_total_ok; auto.
  - assert (Ha : forall a, In a xs -> atom_okb a = true) by (unfold val_okb in Hv; cbn [atoms_of] in Hv; rewrite forallb_forall in Hv; auto).
    assert (Hm : map (hash_atom hexhash_total o) xs = map (hash_atom hexhash o) xs)
      by (apply map_ext_in; intros a Hi; apply (hash_atom_agree o a (Ha a Hi))).
    assert (Hok : str_ok (ser hexhash o (VFrozen xs))).
    { cbn [ser]. apply retag_ok, seq_result_ok; [apply lit_ok; reflexivity|]. apply arrange_ok.
      apply Forall_forall. intros t Hi. apply in_map_iff in Hi. destruct Hi as [a [<- Hx]].
      apply (hash_atom_agree o a (Ha a Hx)). }
    split; auto. rewrite !hash_pure_ser. cbn [ser] in *. rewrite Hm. apply hexhash_total_ok; auto.
Qed.

Lemma forallb_ext_in : forall (A : Type) (f g : A -> bool) l,
  (forall x, In x l -> f x = g x) -> forallb f l = forallb g l.
Proof.
  intros A f g l. induction l as [|x l IH]; intro He; [reflexivity|]. cbn.
  rewrite (He x (or_introl eq_refl)), IH; auto. intros; apply He; right; auto.
Qed.

Lemma distinct_items_agree : forall o v, val_okb v = true ->
  distinct_items hexhash_total o v = distinct_items hexhash o v.
Proof.
  intros o v. induction v as [a|xs IH|xs IH|kvs IH|xs|xs] using value_ind'; intro Hv; try reflexivity.
  - cbn [distinct_items]. rewrite Forall_forall in IH. f_equal.
    + f_equal. apply map_ext_in. intros x Hi. apply hexhash_total_agrees. eapply val_ok_items; eauto.
    + apply forallb_ext_in. intros x Hi. apply IH; auto. eapply val_ok_items; eauto.
  - cbn [distinct_items]. rewrite Forall_forall in IH. f_equal.
    + f_equal. apply map_ext_in. intros x Hi. apply hexhash_total_agrees. eapply val_ok_items; eauto.
    + apply forallb_ext_in. intros x Hi. apply IH; auto. eapply val_ok_items; eauto.
  - cbn [distinct_items]. rewrite Forall_forall in IH. apply forallb_ext_in. intros kv Hi.
    apply IH; auto. apply (val_ok_dict kvs kv Hv Hi).
Qed.

(* ------------------------------------------------------------------ *)
(** * C07 for the hasher the correspondence runs, with no hypothesis on the hasher *)

Theorem hash_inj_hexhash : forall o a b,
  plain o = true -> std_mode o = true ->
  tag_safe a = true -> tag_safe b = true -> wf a = true -> wf b = true ->
  val_okb a = true -> val_okb b = true ->
  mode_guard hexhash o a = true -> mode_guard hexhash o b = true ->
  hash_pure hexhash o a = hash_pure hexhash o b -> eqv o a b.
Proof.
  intros o a b Hp Hm Ta Tb Wa Wb Va Vb Ga Gb He.
  destruct (hexhash_total_agrees o a Va) as [Ea _]. destruct (hexhash_total_agrees o b Vb) as [Eb _].
  apply (hash_inj hexhash_total hexhash_total_tok hexhash_total_inj o Hp Hm a b); auto.
  - unfold mode_guard in *. rewrite distinct_items_agree; auto.
  - unfold mode_guard in *. rewrite distinct_items_agree; auto.
  - congruence.
Qed.

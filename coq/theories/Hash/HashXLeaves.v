(** The texts of the leaves of the extended universe are injective on the leaves' normal forms: dates (year, month,
    day), datetimes (the UTC instant after truncation - [civil_from_days] has a left inverse), times (truncated
    seconds), paths; leaves of different kinds never share a text.  Together with HashXProofsInj.xhash_alike this
    is the exact characterisation of hash equality on the extended universe (timedelta and Decimal texts: not proved
    injective here). *)
From Coq Require Import List ZArith NArith Bool Lia Arith String Decimal DecimalZ DecimalPos DecimalN.
Import ListNotations.
From DD Require Import Base.PyStr Base.Value Hash.HashModel Hash.HashProofsBase Hash.HashXModel.
Local Open Scope Z_scope.

(* ------------------------------------------------------------------ *)
(** * reading a decimal numeral back *)

Fixpoint undec_acc (s : pystr) (acc : Z) : Z :=
  match s with [] => acc | c :: r => undec_acc r (10 * acc + (Z.of_N c - 48)) end.
Definition undec (s : pystr) : Z := undec_acc s 0.

Lemma undec_acc_pos : forall u acc, undec_acc (uint_str u) (Zpos acc) = Zpos (Pos.of_uint_acc u acc).
Proof.
  induction u; intro acc; cbn [uint_str undec_acc Pos.of_uint_acc]; try reflexivity;
    (etransitivity; [|apply IHu]); f_equal; lia.
Qed.

Lemma undec_uint : forall u, undec_acc (uint_str u) 0 = Z.of_N (Pos.of_uint u).
Proof.
  induction u; cbn [uint_str undec_acc Pos.of_uint]; try reflexivity; try exact IHu;
    (etransitivity; [|apply undec_acc_pos]); f_equal.
Qed.

Lemma undec_dec_Z : forall n, 0 <= n -> undec (dec_Z n) = n.
Proof.
  intros n Hn. unfold undec, dec_Z. pose proof (DecimalZ.of_to n) as R.
  destruct n as [|p|p]; [| |lia]; cbn [Z.to_int] in *; rewrite undec_uint; exact R.
Qed.

Lemma dec_Z_digits : forall n, 0 <= n -> Forall is_digit (dec_Z n).
Proof. intros n Hn. unfold dec_Z. destruct n as [|p|p]; [| |lia]; cbn [Z.to_int]; apply uint_str_digits. Qed.

Lemma zeros_digits : forall k, Forall is_digit (zeros k).
Proof. intro k. unfold zeros. apply Forall_forall. intros x Hx. apply repeat_spec in Hx. subst. unfold is_digit. lia. Qed.

Lemma undec_zeros : forall k s, undec (zeros k ++ s) = undec s.
Proof. unfold undec, zeros. induction k as [|k IH]; intro s; [reflexivity|]. cbn [repeat app undec_acc]. apply IH. Qed.

Lemma undec_pad : forall w n, 0 <= n -> undec (pad w (dec_Z n)) = n.
Proof. intros w n Hn. unfold pad. rewrite undec_zeros. apply undec_dec_Z; auto. Qed.

Lemma pad_digits : forall w n, 0 <= n -> Forall is_digit (pad w (dec_Z n)).
Proof. intros w n Hn. unfold pad. apply Forall_app. split; [apply zeros_digits|apply dec_Z_digits; auto]. Qed.

Lemma pad_inj : forall w n n', 0 <= n -> 0 <= n' -> pad w (dec_Z n) = pad w (dec_Z n') -> n = n'.
Proof. intros w n n' Hn Hn' He. apply (f_equal undec) in He. rewrite !undec_pad in He; auto. Qed.

Lemma pad_free : forall c w n, 0 <= n -> ~ is_digit c -> free c (pad w (dec_Z n)).
Proof. intros c w n Hn Hc. apply digits_free; auto. apply pad_digits; auto. Qed.

Ltac nd := unfold is_digit; lia.

(* ------------------------------------------------------------------ *)
(** * dates *)

Lemma date_text_inj : forall y m d y' m' d',
  0 <= y -> 0 <= m -> 0 <= d -> 0 <= y' -> 0 <= m' -> 0 <= d' ->
  date_text y m d = date_text y' m' d' -> y = y' /\ m = m' /\ d = d'.
Proof.
  intros y m d y' m' d' Hy Hm Hd Hy' Hm' Hd' He. unfold date_text, pad4, pad2 in He. cbn [app] in He.
  apply (split_sep 45%N) in He; try (apply pad_free; auto; nd). destruct He as [E1 He].
  apply (split_sep 45%N) in He; try (apply pad_free; auto; nd). destruct He as [E2 E3].
  repeat split; eapply pad_inj; eauto.
Qed.

Lemma date_text_free : forall c y m d, 0 <= y -> 0 <= m -> 0 <= d -> ~ is_digit c -> c <> 45%N -> free c (date_text y m d).
Proof.
  intros c y m d Hy Hm Hd Hc Hc'. unfold date_text, pad4, pad2. rewrite !free_app.
  repeat split; try (apply pad_free; auto); intros [E|[]]; congruence.
Qed.

(* ------------------------------------------------------------------ *)
(** * civil_from_days has a left inverse *)

Definition days_from_civil (y m d : Z) : Z :=
  let y := if Z.leb m 2 then y - 1 else y in
  let era := y / 400 in
  let yoe := y - era * 400 in
  let mp := if Z.ltb 2 m then m - 3 else m + 9 in
  let doy := (153 * mp + 2) / 5 + d - 1 in
  let doe := yoe * 365 + yoe / 4 - yoe / 100 + doy in
  era * 146097 + doe - 719468.

Lemma civil_roundtrip : forall z,
  let '(y, m, d) := civil_from_days z in days_from_civil y m d = z /\ 1 <= m <= 12 /\ 1 <= d <= 31.
Proof.
  intro z. unfold civil_from_days, days_from_civil.
  set (z1 := z + 719468).
  set (era := z1 / 146097). set (doe := z1 - era * 146097).
  assert (Hdoe : 0 <= doe < 146097) by (unfold doe, era; Z.div_mod_to_equations; lia).
  set (yoe := (doe - doe / 1460 + doe / 36524 - doe / 146096) / 365).
  assert (Hyoe : 0 <= yoe <= 399) by (unfold yoe; Z.div_mod_to_equations; lia).
  set (doy := doe - (365 * yoe + yoe / 4 - yoe / 100)).
  assert (Hdoy : 0 <= doy <= 365) by (unfold doy, yoe; Z.div_mod_to_equations; lia).
  set (mp := (5 * doy + 2) / 153).
  assert (Hmp : 0 <= mp <= 11) by (unfold mp; Z.div_mod_to_equations; lia).
  assert (Hd : 1 <= doy - (153 * mp + 2) / 5 + 1 <= 31) by (unfold mp; Z.div_mod_to_equations; lia).
  assert (Hz : z = era * 146097 + doe - 719468) by (unfold doe, z1 in *; lia).
  destruct (Z.ltb_spec mp 10) as [Hlt|Hge].
  - destruct (Z.leb_spec (mp + 3) 2) as [Hc|Hc]; [lia|].
    destruct (Z.leb_spec (mp + 3) 2) as [Hc'|Hc']; [lia|].
    destruct (Z.ltb_spec 2 (mp + 3)) as [Hd'|Hd']; [|lia].
    replace ((yoe + era * 400) / 400) with era by (Z.div_mod_to_equations; lia).
    replace (mp + 3 - 3) with mp by lia.
    replace (yoe + era * 400 - era * 400) with yoe by lia.
    split; [unfold doy in *; lia|split; lia].
  - destruct (Z.leb_spec (mp - 9) 2) as [Hc|Hc]; [|lia].
    destruct (Z.leb_spec (mp - 9) 2) as [Hc'|Hc']; [|lia].
    destruct (Z.ltb_spec 2 (mp - 9)) as [Hd'|Hd']; [lia|].
    replace (yoe + era * 400 + 1 - 1) with (yoe + era * 400) by lia.
    replace ((yoe + era * 400) / 400) with era by (Z.div_mod_to_equations; lia).
    replace (mp - 9 + 9) with mp by lia.
    replace (yoe + era * 400 - era * 400) with yoe by lia.
    split; [unfold doy in *; lia|split; lia].
Qed.

Lemma civil_inj : forall z z', civil_from_days z = civil_from_days z' -> z = z'.
Proof.
  intros z z' He. pose proof (civil_roundtrip z) as R. pose proof (civil_roundtrip z') as R'.
  rewrite He in R. destruct (civil_from_days z') as [[y m] d]. destruct R as [R _]. destruct R' as [R' _]. congruence.
Qed.

(* ------------------------------------------------------------------ *)
(** * datetimes: the text determines the UTC instant *)

Definition utc_us (t : option tunit) (us : Z) (off : option Z) : Z :=
  trunc_us t us - 60000000 * match off with Some o => o | None => 0 end.
(* Python's datetime has years 1 .. 9999 *)
Definition dt_ok (t : option tunit) (us : Z) (off : option Z) : bool :=
  Z.leb 0 (fst (fst (civil_from_days (utc_us t us off / 86400000000)))).

Definition clock_text (r : Z) : pystr :=
  let micro := r mod 1000000 in
  let s := r / 1000000 in
  pad2 (s / 3600) ++ [58%N] ++ pad2 ((s / 60) mod 60) ++ [58%N] ++ pad2 (s mod 60) ++
  (if Z.eqb micro 0 then [] else [46%N] ++ pad6 micro) ++ s2p "+00:00".

Lemma datetime_text_eq : forall t us off,
  datetime_text t us off =
  (let '(y, m, d) := civil_from_days (utc_us t us off / 86400000000) in date_text y m d) ++ [32%N] ++
  clock_text (utc_us t us off mod 86400000000).
Proof.
  intros t us off. unfold datetime_text, clock_text. fold (utc_us t us off).
  destruct (civil_from_days (utc_us t us off / 86400000000)) as [[y m] d]. cbv zeta.
  rewrite <- ?app_assoc. reflexivity.
Qed.

Lemma clock_text_inj : forall r r', 0 <= r < 86400000000 -> 0 <= r' < 86400000000 ->
  clock_text r = clock_text r' -> r = r'.
Proof.
  intros r r' Hr Hr' He. unfold clock_text in He.
  set (s := r / 1000000) in *. set (s' := r' / 1000000) in *.
  set (mi := r mod 1000000) in *. set (mi' := r' mod 1000000) in *.
  assert (Hs : 0 <= s < 86400) by (unfold s; Z.div_mod_to_equations; lia).
  assert (Hs' : 0 <= s' < 86400) by (unfold s'; Z.div_mod_to_equations; lia).
  assert (Hm : 0 <= mi < 1000000) by (unfold mi; Z.div_mod_to_equations; lia).
  assert (Hm' : 0 <= mi' < 1000000) by (unfold mi'; Z.div_mod_to_equations; lia).
  assert (A1 : 0 <= s / 3600) by (Z.div_mod_to_equations; lia).
  assert (A2 : 0 <= (s / 60) mod 60) by (Z.div_mod_to_equations; lia).
  assert (A3 : 0 <= s mod 60) by (Z.div_mod_to_equations; lia).
  assert (B1 : 0 <= s' / 3600) by (Z.div_mod_to_equations; lia).
  assert (B2 : 0 <= (s' / 60) mod 60) by (Z.div_mod_to_equations; lia).
  assert (B3 : 0 <= s' mod 60) by (Z.div_mod_to_equations; lia).
  unfold pad2, pad6 in He. cbn [app] in He.
  apply (split_sep 58%N) in He; try (apply pad_free; auto; nd). destruct He as [E1 He].
  apply (split_sep 58%N) in He; try (apply pad_free; auto; nd). destruct He as [E2 He].
  apply pad_inj in E1; auto. apply pad_inj in E2; auto.
  assert (E3 : s mod 60 = s' mod 60 /\ mi = mi').
  { change (s2p "+00:00") with (43%N :: s2p "00:00") in He. rewrite !app_assoc in He.
    apply (split_sep 43%N) in He.
    - destruct He as [He _].
      destruct (Z.eqb_spec mi 0) as [Z1|N1]; destruct (Z.eqb_spec mi' 0) as [Z2|N2]; rewrite ?app_nil_r in He.
      + split; [eapply pad_inj; eauto|congruence].
      + exfalso. cbn [app] in He. eapply (free_end 46%N); [| |exact He]; apply pad_free; auto; nd.
      + exfalso. cbn [app] in He. symmetry in He. eapply (free_end 46%N); [| |exact He]; apply pad_free; auto; nd.
      + cbn [app] in He. apply (split_sep 46%N) in He; try (apply pad_free; auto; nd). destruct He as [E3 E4].
        split; eapply pad_inj; eauto; lia.
    - destruct (Z.eqb mi 0); rewrite ?app_nil_r; [apply pad_free; auto; nd|].
      rewrite free_app. split; [apply pad_free; auto; nd|]. cbn [app]. intros [E|Hi]; [discriminate|].
      revert Hi. apply pad_free; [lia|nd].
    - destruct (Z.eqb mi' 0); rewrite ?app_nil_r; [apply pad_free; auto; nd|].
      rewrite free_app. split; [apply pad_free; auto; nd|]. cbn [app]. intros [E|Hi]; [discriminate|].
      revert Hi. apply pad_free; [lia|nd]. }
  destruct E3 as [E3 E4].
  assert (s = s') by (Z.div_mod_to_equations; lia).
  unfold s, s', mi, mi' in *. Z.div_mod_to_equations. lia.
Qed.

Theorem datetime_text_inj : forall t us off us' off',
  dt_ok t us off = true -> dt_ok t us' off' = true ->
  datetime_text t us off = datetime_text t us' off' -> utc_us t us off = utc_us t us' off'.
Proof.
  intros t us off us' off' Ok Ok' He. rewrite !datetime_text_eq in He. unfold dt_ok in Ok, Ok'.
  set (u := utc_us t us off) in *. set (u' := utc_us t us' off') in *.
  pose proof (civil_roundtrip (u / 86400000000)) as R. pose proof (civil_roundtrip (u' / 86400000000)) as R'.
  destruct (civil_from_days (u / 86400000000)) as [[y m] d] eqn:C.
  destruct (civil_from_days (u' / 86400000000)) as [[y' m'] d'] eqn:C'.
  cbn [fst] in Ok, Ok'. apply Z.leb_le in Ok, Ok'. destruct R as (R & Rm & Rd). destruct R' as (R' & Rm' & Rd').
  cbn [app] in He.
  apply (split_sep 32%N) in He; try (apply date_text_free; first [lia | nd | discriminate]).
  destruct He as [E1 E2].
  apply date_text_inj in E1; try lia. destruct E1 as (-> & -> & ->).
  apply clock_text_inj in E2; try (Z.div_mod_to_equations; lia).
Qed.

(* ------------------------------------------------------------------ *)
(** * the leaves *)

(* what the text of a leaf determines *)
Inductive lnorm :=
| NDate (y m d : Z) | NInstant (utc : Z) | NSeconds (s : Z) | NPath (s : pystr)
| NOther (text : pystr).      (* timedelta, Decimal: the text itself (injectivity of str() not proved here) *)
Definition time_norm (t : option tunit) (s : Z) : Z :=
  match t with
  | None | Some USecond => s
  | Some UMinute => s - s mod 60
  | Some UHour => s - s mod 3600
  | Some UDay => 0
  end.
Definition leaf_norm (xo : xopts) (l : xleaf) : lnorm :=
  match l with
  | LDate y m d => NDate y m d
  | LDateTime us off => NInstant (utc_us (truncate xo) us off)
  | LTime s => NSeconds (time_norm (truncate xo) s)
  | LPath s => NPath s
  | _ => NOther (xleaf_result xo l)
  end.
(* the domain: what Python's date / datetime / time can hold *)
Definition leaf_ok (xo : xopts) (l : xleaf) : bool :=
  match l with
  | LDate y m d => Z.leb 0 y && Z.leb 0 m && Z.leb 0 d
  | LDateTime us off => dt_ok (truncate xo) us off
  | LTime s => Z.leb 0 s
  | _ => true
  end.

Lemma time_text_eq : forall t s, time_text t s = dec_Z (time_norm t s).
Proof. intros [[| | |]|] s; reflexivity. Qed.

Lemma time_norm_nonneg : forall t s, 0 <= s -> 0 <= time_norm t s.
Proof. intros [[| | |]|] s Hs; cbn [time_norm]; try lia; Z.div_mod_to_equations; lia. Qed.

Lemma In_datetime_text_32 : forall t us off, In 32%N (datetime_text t us off).
Proof. intros. rewrite datetime_text_eq. apply in_or_app. right. left. reflexivity. Qed.

Theorem xleaf_result_inj : forall xo l l', plain (xbase xo) = true ->
  leaf_ok xo l = true -> leaf_ok xo l' = true ->
  (xleaf_result xo l = xleaf_result xo l' <-> leaf_norm xo l = leaf_norm xo l').
Proof.
  intros xo l l' Hp Ok Ok'.
  assert (Hnt : forall name, num_type (xbase xo) name = name).
  { intro name. unfold plain in Hp. unfold num_type. destruct (ignore_numeric_type_changes (xbase xo)); [|reflexivity].
    rewrite !andb_false_r in Hp. cbn in Hp. discriminate Hp. }
  assert (Hed : eff_digits (xbase xo) = None).
  { unfold plain in Hp. unfold eff_digits. destruct (significant_digits (xbase xo)); [rewrite andb_false_r in Hp; discriminate Hp|].
    destruct (ignore_numeric_type_changes (xbase xo)); [rewrite !andb_false_r in Hp; cbn in Hp; discriminate Hp|reflexivity]. }
  split.
  - intro He.
    destruct l as [y m d|us off|s|us|n c e|s]; destruct l' as [y' m' d'|us' off'|s'|us'|n' c' e'|s'];
      cbn [xleaf_result leaf_norm leaf_ok] in *; rewrite ?Hnt, ?Hed in *;
      try (cbn in He; discriminate He);
      try (f_equal; exact He).
    + (* date / date *)
      apply app_inv_head in He. apply andb_true_iff in Ok, Ok'. destruct Ok as [Ok Od]. destruct Ok' as [Ok' Od'].
      apply andb_true_iff in Ok, Ok'. destruct Ok as [Oy Om]. destruct Ok' as [Oy' Om'].
      apply Z.leb_le in Oy, Om, Od, Oy', Om', Od'.
      apply date_text_inj in He; auto. destruct He as (-> & -> & ->). reflexivity.
    + (* date / datetime *)
      exfalso. apply app_inv_head in He. apply andb_true_iff in Ok. destruct Ok as [Ok Od].
      apply andb_true_iff in Ok. destruct Ok as [Oy Om]. apply Z.leb_le in Oy, Om, Od.
      apply (date_text_free 32%N y m d Oy Om Od); [nd|discriminate|]. rewrite He. apply In_datetime_text_32.
    + (* date / time *)
      exfalso. apply app_inv_head in He. apply Z.leb_le in Ok'. rewrite time_text_eq in He.
      assert (Hi : In 45%N (date_text y m d)) by (unfold date_text; apply in_or_app; right; left; reflexivity).
      rewrite He in Hi. revert Hi. apply digits_free; [apply dec_Z_digits, time_norm_nonneg; auto|nd].
    + (* datetime / date *)
      exfalso. apply app_inv_head in He. apply andb_true_iff in Ok'. destruct Ok' as [Ok' Od].
      apply andb_true_iff in Ok'. destruct Ok' as [Oy Om]. apply Z.leb_le in Oy, Om, Od.
      apply (date_text_free 32%N y' m' d' Oy Om Od); [nd|discriminate|]. rewrite <- He. apply In_datetime_text_32.
    + (* datetime / datetime *)
      apply app_inv_head in He. f_equal. apply datetime_text_inj; auto.
    + (* datetime / time *)
      exfalso. apply app_inv_head in He. apply Z.leb_le in Ok'. rewrite time_text_eq in He.
      pose proof (In_datetime_text_32 (truncate xo) us off) as Hi. rewrite He in Hi. revert Hi.
      apply digits_free; [apply dec_Z_digits, time_norm_nonneg; auto|nd].
    + (* time / date *)
      exfalso. apply app_inv_head in He. apply Z.leb_le in Ok. rewrite time_text_eq in He.
      assert (Hi : In 45%N (date_text y' m' d')) by (unfold date_text; apply in_or_app; right; left; reflexivity).
      rewrite <- He in Hi. revert Hi. apply digits_free; [apply dec_Z_digits, time_norm_nonneg; auto|nd].
    + (* time / datetime *)
      exfalso. apply app_inv_head in He. apply Z.leb_le in Ok. rewrite time_text_eq in He.
      pose proof (In_datetime_text_32 (truncate xo) us' off') as Hi. rewrite <- He in Hi. revert Hi.
      apply digits_free; [apply dec_Z_digits, time_norm_nonneg; auto|nd].
    + (* time / time *)
      apply app_inv_head in He. rewrite !time_text_eq in He. apply dec_Z_inj in He. congruence.
    + (* path / path *)
      apply app_inv_head in He. congruence.
  - intro He.
    destruct l as [y m d|us off|s|us|n c e|s]; destruct l' as [y' m' d'|us' off'|s'|us'|n' c' e'|s'];
      cbn [leaf_norm] in He; try discriminate He; try (inversion He; subst; first [reflexivity | assumption | congruence]).
    + inversion He as [E]. cbn [xleaf_result]. f_equal. rewrite !datetime_text_eq. unfold utc_us in *. rewrite E. reflexivity.
    + inversion He as [E]. cbn [xleaf_result]. f_equal. rewrite !time_text_eq. rewrite E. reflexivity.
Qed.

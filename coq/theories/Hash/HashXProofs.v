(** The extended model (HashXModel.v) against the base model (HashModel.v), and C06 on the extended universe.

    [xhash_conservative]: on embedded base values, with the extended options at their defaults, no exclusion, a
    hasher that never returns the empty string, and no int beyond 2^53 under number formatting, the extended model
    returns exactly [hash_pure]: every theorem about [hash_pure] (C06, C07, the exact relation [heqb]) is a
    theorem about the extended model on that fragment. *)
From Coq Require Import List ZArith NArith Bool Lia Permutation Arith String.
Import ListNotations.
From DD Require Import Base.PyStr Base.Value Base.ValueFacts Hash.HashModel Hash.Equiv Hash.HashProofsBase
  Hash.HashProofsC06 Hash.HashXModel.

Fixpoint emb (v : value) : xvalue :=
  match v with
  | VAtom a => XAtom (XA a)
  | VList xs => XList (map emb xs)
  | VTuple xs => XTuple (map emb xs)
  | VDict kvs => XDict (map (fun kv => (XA (fst kv), emb (snd kv))) kvs)
  | VSet xs => XSet (map XA xs)
  | VFrozen xs => XFrozen (map XA xs)
  end.

(* the base model prints an int under number formatting as the int itself: right below 2^53 *)
Definition int_ok (o : hopts) (a : atom) : bool :=
  match a, eff_digits o with
  | AInt z, Some _ => Z.eqb (round53 z) z
  | _, _ => true
  end.
Definition ints_ok (o : hopts) (v : value) : bool := forallb (int_ok o) (atoms_of v).

Section Conservative.
Variable H : pystr -> pystr.
Hypothesis H_nonempty : forall s, H s <> [].
Variable o : hopts.

Lemma xatom_hash_emb : forall a, int_ok o a = true ->
  xatom_hash H (xmode o) (XA a) = hash_atom H o a.
Proof.
  intros a Hk. unfold xatom_hash, fin, hash_atom. cbn [apply_hash xmode xbase].
  destruct a as [| b | z | t | s | s]; cbn [is_text xatom_result ser_atom atom_result xbase xmode]; try reflexivity.
  unfold xnum_int. cbn [xbase xmode notation_e]. unfold int_ok in Hk.
  destruct (eff_digits o) as [n|]; [|reflexivity].
  apply Z.eqb_eq in Hk. unfold xfmt_int, fmt_int. rewrite Hk. destruct n; [rewrite app_nil_r|]; reflexivity.
Qed.

Lemma is_empty_H : forall s, is_empty (H s) = false.
Proof. intro s. destruct (H s) eqn:E; auto. exfalso. eapply H_nonempty; eauto. Qed.

Lemma xmembers_emb : forall xs p i, forallb (int_ok o) xs = true ->
  xmembers H no_skip (xmode o) p i (map XA xs) = (map (hash_atom H o) xs, List.length xs).
Proof.
  induction xs as [|a xs IH]; intros p i Hk; [reflexivity|]. cbn [forallb] in Hk. apply andb_true_iff in Hk.
  destruct Hk as [Ha Hk]. cbn [map xmembers]. rewrite IH; auto. unfold no_skip. rewrite xatom_hash_emb; auto.
Qed.

Lemma ints_ok_list : forall xs, ints_ok o (VList xs) = true -> forall x, In x xs -> ints_ok o x = true.
Proof.
  unfold ints_ok. cbn [atoms_of]. intros xs Hk x Hi. rewrite forallb_forall in *. intros a Ha. apply Hk.
  apply in_flat_map. eauto.
Qed.

Lemma ints_ok_dict : forall kvs, ints_ok o (VDict kvs) = true ->
  forall kv, In kv kvs -> int_ok o (fst kv) = true /\ ints_ok o (snd kv) = true.
Proof.
  unfold ints_ok. cbn [atoms_of]. intros kvs Hk kv Hi. rewrite forallb_forall in Hk. split.
  - apply Hk. apply in_flat_map. exists kv. split; auto. left; auto.
  - rewrite forallb_forall. intros a Ha. apply Hk. apply in_flat_map. exists kv. split; auto. right; auto.
Qed.

Theorem xhash_emb : forall v, ints_ok o v = true -> forall p,
  exists n, xhash H no_skip (xmode o) p (emb v) = Some (hash_pure H o v, n).
Proof.
  induction v as [a|xs IH|xs IH|kvs IH|xs|xs] using value_ind'; intros Hk p.
  - exists 1%nat. cbn [emb xhash hview]. unfold no_skip.
    assert (Ha : int_ok o a = true) by (unfold ints_ok in Hk; cbn in Hk; apply andb_true_iff in Hk; tauto).
    destruct a as [| b | z | t | s | s]; cbn [hview no_skip]; rewrite xatom_hash_emb; auto.
  - assert (E : forall l i, (forall x, In x l -> ints_ok o x = true) -> Forall (fun v => ints_ok o v = true -> forall p,
                 exists n, xhash H no_skip (xmode o) p (emb v) = Some (hash_pure H o v, n)) l ->
               exists c,
               (fix items (i : nat) (xs : list xvalue) {struct xs} : list pystr * nat :=
                  match xs with
                  | [] => ([], 0%nat)
                  | x :: r => let '(hs, c) := items (S i) r in
                              if no_skip (p ++ [KIdx i]) x then (hs, c)
                              else match xhash H no_skip (xmode o) (p ++ [KIdx i]) x with
                                   | Some (h, n) => (h :: hs, (n + c)%nat)
                                   | None => (none_token :: hs, c)
                                   end
                  end) i (map emb l) = (map (hash_pure H o) l, c)).
    { induction l as [|x l IHl]; intros i Hok HF; [exists 0%nat; reflexivity|].
      inversion HF as [|? ? Hx HF']; subst. cbn [map].
      destruct (IHl (S i) (fun y Hy => Hok y (or_intror Hy)) HF') as [c Ec]. rewrite Ec.
      destruct (Hx (Hok x (or_introl eq_refl)) (p ++ [KIdx i])) as [n En]. rewrite En. unfold no_skip. eauto. }
    destruct (E xs 0%nat (ints_ok_list xs Hk) IH) as [c Ec].
    exists (S c). cbn [emb xhash hview]. unfold no_skip at 1. cbn beta iota. rewrite Ec. reflexivity.
  - assert (E : forall l i, (forall x, In x l -> ints_ok o x = true) -> Forall (fun v => ints_ok o v = true -> forall p,
                 exists n, xhash H no_skip (xmode o) p (emb v) = Some (hash_pure H o v, n)) l ->
               exists c,
               (fix items (i : nat) (xs : list xvalue) {struct xs} : list pystr * nat :=
                  match xs with
                  | [] => ([], 0%nat)
                  | x :: r => let '(hs, c) := items (S i) r in
                              if no_skip (p ++ [KIdx i]) x then (hs, c)
                              else match xhash H no_skip (xmode o) (p ++ [KIdx i]) x with
                                   | Some (h, n) => (h :: hs, (n + c)%nat)
                                   | None => (none_token :: hs, c)
                                   end
                  end) i (map emb l) = (map (hash_pure H o) l, c)).
    { induction l as [|x l IHl]; intros i Hok HF; [exists 0%nat; reflexivity|].
      inversion HF as [|? ? Hx HF']; subst. cbn [map].
      destruct (IHl (S i) (fun y Hy => Hok y (or_intror Hy)) HF') as [c Ec]. rewrite Ec.
      destruct (Hx (Hok x (or_introl eq_refl)) (p ++ [KIdx i])) as [n En]. rewrite En. unfold no_skip. eauto. }
    destruct (E xs 0%nat (ints_ok_list xs Hk) IH) as [c Ec].
    exists (S c). cbn [emb xhash hview]. unfold no_skip at 1. cbn beta iota. rewrite Ec. reflexivity.
  - assert (E : forall l, (forall kv, In kv l -> int_ok o (fst kv) = true /\ ints_ok o (snd kv) = true) ->
               Forall (fun kv => ints_ok o (snd kv) = true -> forall p,
                 exists n, xhash H no_skip (xmode o) p (emb (snd kv)) = Some (hash_pure H o (snd kv), n)) l ->
               exists c,
               (fix go (kvs : list (xatom * xvalue)) : list pystr * nat :=
                  match kvs with
                  | [] => ([], 0%nat)
                  | (k, x) :: r =>
                      let '(its, c) := go r in
                      if ignore_private (xbase (xmode o)) && xis_private k then (its, S c)
                      else match xkey_hash H no_skip (xmode o) (p ++ [KKey k]) k with
                           | Some kh =>
                               if is_empty kh || no_skip (p ++ [KKey k]) x then (its, S c)
                               else match xhash H no_skip (xmode o) (p ++ [KKey k]) x with
                                    | Some (vh, n) => (dict_item kh vh :: its, S (n + c))
                                    | None => (dict_item kh none_token :: its, S c)
                                    end
                           | None => (its, S c)
                           end
                  end) (map (fun kv => (XA (fst kv), emb (snd kv))) l)
               = (map (fun kv => dict_item (hash_atom H o (fst kv)) (hash_pure H o (snd kv))) (vis o l), c)).
    { induction l as [|[k x] l IHl]; intros Hok HF; [exists 0%nat; reflexivity|].
      inversion HF as [|? ? Hx HF']; subst. cbn [map fst snd].
      destruct (IHl (fun y Hy => Hok y (or_intror Hy)) HF') as [c Ec]. rewrite Ec.
      destruct (Hok (k, x) (or_introl eq_refl)) as [Hk1 Hk2]. cbn [fst snd] in Hk1, Hk2.
      unfold vis. cbn [filter fst]. unfold hidden. cbn [xbase xmode xis_private].
      destruct (ignore_private o && is_private k); cbn [negb]; [eauto|].
      unfold xkey_hash. unfold no_skip at 1. rewrite xatom_hash_emb; auto.
      unfold hash_atom at 1. rewrite is_empty_H. unfold no_skip at 1. cbn [orb].
      destruct (Hx Hk2 (p ++ [KKey (XA k)])) as [n En]. cbn [snd] in En. rewrite En. cbn [map fst snd]. eauto. }
    destruct (E kvs (ints_ok_dict kvs Hk) IH) as [c Ec].
    exists (S c). cbn [emb xhash hview]. unfold no_skip at 1. cbn beta iota. rewrite Ec.
    rewrite hash_pure_dict. reflexivity.
  - exists (S (List.length xs)). cbn [emb xhash hview]. unfold no_skip at 1. cbn beta iota.
    rewrite xmembers_emb; auto.
  - exists (S (List.length xs)). cbn [emb xhash hview]. unfold no_skip at 1. cbn beta iota.
    rewrite xmembers_emb; auto.
Qed.

Corollary xhash_conservative : forall v, ints_ok o v = true ->
  xdeephash H no_skip (xmode o) (emb v) = Some (hash_pure H o v).
Proof. intros v Hk. unfold xdeephash. destruct (xhash_emb v Hk []) as [n ->]. reflexivity. Qed.

End Conservative.

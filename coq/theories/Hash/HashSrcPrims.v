(** C06 / C07 source tie - the typed embedding of Python into Gallina that the translator
    harness/translate/deephashprep.py targets (DESIGN.md section 4.5).  Definitions only.

    The translator regenerates the serialiser of deepdiff/deephash.py ([_hash], [_prep_dict], [_prep_iterable],
    [_prep_tuple], the leaf preps, [prepare_string_for_hashing]) statement by statement; what a Python expression
    MEANS on the model's value types is fixed here, once, by hand: the objects that occur ([pobj]), [isinstance] on
    the classes the dispatcher tests, [str()], [str.format], [join], [sorted], the [defaultdict(int)] counter, the
    [hashes] table, [self].  These definitions are the trusted base of the tie (together with the translator's
    rules, NOTES_SRCTIE.md).  They contain none of the functions the translator re-derives: no serialisation of a
    container, no dispatch order, no separator, no type tag. *)
From Coq Require Import List ZArith NArith Bool String.
Import ListNotations.
From DD Require Import Base.Sx Base.PyStr Base.Value Hash.HashModel Hash.HashXModel.

(* ------------------------------------------------------------------ *)
(** * Objects *)

Inductive pobj :=
| OV (v : value)        (* a value of the model's universe Base/Value.v: None, bool, int, float, str, bytes, list, tuple,
                           dict, set, frozenset *)
| OLeaf (l : xleaf)     (* a date / datetime / time / timedelta / Decimal / PosixPath of the extended universe
                           (Hash/HashXModel.v); only the leaf preps are stated on these *)
| OUtc (us : Z)         (* an aware datetime in UTC: what datetime_normalize returns for a datetime *)
| OBoolObj (b : bool)   (* the Enum members BoolObj.TRUE / BoolObj.FALSE *)
| OText (s : pystr)     (* a str built by the code itself (results of format / join / number_to_string / the hasher) *)
| ONotHashed            (* helper.not_hashed *)
| OUnprocessed.         (* helper.unprocessed *)

Definition ONone : pobj := OV (VAtom ANone).

(* [x is None] *)
Definition is_None (x : pobj) : bool := match x with OV (VAtom ANone) => true | _ => false end.
Definition is_not_hashed (x : pobj) : bool := match x with ONotHashed => true | _ => false end.
Definition is_unprocessed (x : pobj) : bool := match x with OUnprocessed => true | _ => false end.
(* [x == BoolObj.TRUE] / [x is BoolObj.TRUE] (Enum members compare by identity) *)
Definition eq_BoolObj (x : pobj) (b : bool) : bool :=
  match x with OBoolObj c => Bool.eqb c b | _ => false end.

(* [type(x).__name__] = [x.__class__.__name__] *)
Definition class_name (x : pobj) : pystr :=
  match x with
  | OV (VAtom ANone) => s2p "NoneType"
  | OV (VAtom (ABool _)) => s2p "bool"
  | OV (VAtom (AInt _)) => s2p "int"
  | OV (VAtom (AHalf _)) => s2p "float"
  | OV (VAtom (AStr _)) => s2p "str"
  | OV (VAtom (ABytes _)) => s2p "bytes"
  | OV (VList _) => s2p "list"
  | OV (VTuple _) => s2p "tuple"
  | OV (VDict _) => s2p "dict"
  | OV (VSet _) => s2p "set"
  | OV (VFrozen _) => s2p "frozenset"
  | OLeaf (LDate _ _ _) => s2p "date"
  | OLeaf (LDateTime _ _) => s2p "datetime"
  | OLeaf (LTime _) => s2p "time"
  | OLeaf (LTimedelta _) => s2p "timedelta"
  | OLeaf (LDecimal _ _ _) => s2p "Decimal"
  | OLeaf (LPath _) => s2p "PosixPath"
  | OUtc _ => s2p "datetime"
  | OBoolObj _ => s2p "BoolObj"
  | OText _ => s2p "str"
  | ONotHashed => s2p "NotHashed"
  | OUnprocessed => s2p "Unprocessed"
  end.

(** ** isinstance, for the class tuples the dispatcher names.  Python's class hierarchy on this universe: a bool is
    an int; helper.numbers = (int, float, complex, Decimal) + numpy numbers + (datetime, date, timedelta, time);
    helper.times = (datetime, time); a datetime is a date; str and bytes are Iterable; an Enum member is neither a
    number nor Iterable.  numpy / pandas / polars / pydantic / ipaddress objects are not in the universe. *)
Definition isinstance_booleanTypes (x : pobj) : bool :=
  match x with OV (VAtom (ABool _)) => true | _ => false end.
Definition isinstance_str (x : pobj) : bool :=
  match x with OV (VAtom (AStr _)) | OText _ => true | _ => false end.
Definition isinstance_bytes (x : pobj) : bool :=
  match x with OV (VAtom (ABytes _)) => true | _ => false end.
Definition isinstance_strings (x : pobj) : bool := isinstance_str x || isinstance_bytes x.
Definition isinstance_Path (x : pobj) : bool :=
  match x with OLeaf (LPath _) => true | _ => false end.
Definition isinstance_times (x : pobj) : bool :=
  match x with OLeaf (LDateTime _ _) | OLeaf (LTime _) | OUtc _ => true | _ => false end.
Definition isinstance_date (x : pobj) : bool :=
  match x with OLeaf (LDate _ _ _) | OLeaf (LDateTime _ _) | OUtc _ => true | _ => false end.
Definition isinstance_numbers (x : pobj) : bool :=
  match x with
  | OV (VAtom (ABool _)) | OV (VAtom (AInt _)) | OV (VAtom (AHalf _)) => true
  | OLeaf (LDate _ _ _) | OLeaf (LDateTime _ _) | OLeaf (LTime _) | OLeaf (LTimedelta _) | OLeaf (LDecimal _ _ _) => true
  | OUtc _ => true
  | _ => false
  end.
Definition isinstance_ipranges (x : pobj) : bool := false.
Definition isinstance_MutableMapping (x : pobj) : bool :=
  match x with OV (VDict _) => true | _ => false end.
Definition isinstance_tuple (x : pobj) : bool :=
  match x with OV (VTuple _) => true | _ => false end.
Definition isinstance_Iterable (x : pobj) : bool :=
  match x with
  | OV (VList _) | OV (VTuple _) | OV (VDict _) | OV (VSet _) | OV (VFrozen _) => true
  | OV (VAtom (AStr _)) | OV (VAtom (ABytes _)) | OText _ => true
  | _ => false
  end.
(* [pandas and isinstance(x, pandas.DataFrame)], [polars and isinstance(x, polars.DataFrame)] *)
Definition isinstance_DataFrame (x : pobj) : bool := false.
Definition isinstance_PydanticBaseModel (x : pobj) : bool := false.
(* [x._asdict] does not raise AttributeError (namedtuples: none in Base/Value.v) *)
Definition has_asdict (x : pobj) : bool := false.

(** ** str(x) - what [format], [map(str, ...)] and [join] make of an object.  Stated for the objects the fragment
    formats: str, None, numbers, the extended leaves in the form the leaf preps hand them over.  (str() of bytes, of
    a container, of a non-normalised datetime is never taken by the translated code on this universe: [].) *)
Definition py_str (x : pobj) : pystr :=
  match x with
  | OText s => s
  | OV (VAtom (AStr s)) => s
  | OV (VAtom ANone) => s2p "None"
  | OV (VAtom (ABool b)) => if b then s2p "True" else s2p "False"
  | OV (VAtom (AInt z)) => dec_Z z
  | OV (VAtom (AHalf t)) => half_repr t
  | OLeaf (LDate y m d) => date_text y m d
  | OLeaf (LTimedelta us) => timedelta_text us
  | OLeaf (LDecimal neg coef e) => decimal_text neg coef e
  | OLeaf (LPath s) => s
  | OUtc us => datetime_text None us (Some 0%Z)
  | OBoolObj b => if b then s2p "BoolObj.TRUE" else s2p "BoolObj.FALSE"
  | _ => []
  end.

(* bool(x): None, '' and empty containers are falsy *)
Definition py_truthy (x : pobj) : bool :=
  match x with
  | OV (VAtom ANone) => false
  | OV (VAtom (ABool b)) => b
  | OV (VAtom (AInt z)) => negb (Z.eqb z 0)
  | OV (VAtom (AHalf t)) => negb (Z.eqb t 0)
  | OV (VAtom (AStr s)) | OV (VAtom (ABytes s)) | OText s => match s with [] => false | _ => true end
  | OV (VList xs) | OV (VTuple xs) => match xs with [] => false | _ => true end
  | OV (VDict kvs) => match kvs with [] => false | _ => true end
  | OV (VSet xs) | OV (VFrozen xs) => match xs with [] => false | _ => true end
  | OLeaf (LTimedelta us) => negb (Z.eqb us 0)
  | OLeaf (LDecimal _ coef _) => negb (N.eqb coef 0)
  | _ => true
  end.

(* [x.startswith(p)], [x.lower()] for a str x *)
Definition py_startswith (x : pobj) (p : pystr) : bool := is_prefix p (py_str x).
Definition py_lower (x : pobj) : pystr := lower (py_str x).

(** ** str.format with automatic numbering: "{}" takes the next argument, "{{" and "}}" are literal braces.
    (Arguments are already texts: the translator applies [py_str].) *)
Fixpoint py_format (fmt : pystr) (args : list pystr) {struct fmt} : pystr :=
  match fmt with
  | [] => []
  | c :: r =>
      if N.eqb c 123 then
        match r with
        | d :: r' =>
            if N.eqb d 123 then 123%N :: py_format r' args
            else if N.eqb d 125 then
              match args with
              | a :: args' => match r' with [] => a | _ => a ++ py_format r' args' end
              | [] => py_format r' []
              end
            else c :: py_format r args
        | [] => [c]
        end
      else if N.eqb c 125 then
        match r with
        | d :: r' => if N.eqb d 125 then 125%N :: py_format r' args else c :: py_format r args
        | [] => [c]
        end
      else c :: py_format r args
  end.

(** ** lists of str: [sep.join(l)], [sorted(l)] / [l.sort()], [l.append(x)] *)
Definition py_join (sep : pystr) (l : list pobj) : pystr := join sep (map py_str l).
Definition py_sorted (l : list pobj) : list pobj := map OText (isort (map py_str l)).
Definition py_append (l : list pobj) (x : pobj) : list pobj := l ++ [x].

(** ** collections.defaultdict(int) keyed by the results of [_hash] (a str, or None for a skipped item):
    insertion order = first-occurrence order *)
Definition ddict := list (pobj * nat).
Definition dd_key_eqb (a b : pobj) : bool :=
  match is_None a, is_None b with
  | true, true => true
  | false, false => pystr_eqb (py_str a) (py_str b)
  | _, _ => false
  end.
Definition dd_new : ddict := [].
(* d[k] += 1 *)
Fixpoint dd_incr (d : ddict) (k : pobj) : ddict :=
  match d with
  | [] => [(k, 1%nat)]
  | (k', c) :: r => if dd_key_eqb k' k then (k', S c) :: r else (k', c) :: dd_incr r k
  end.
Definition dd_keys (d : ddict) : list pobj := map fst d.
Definition dd_items (d : ddict) : list (pobj * nat) := d.

(** ** iteration *)
(* [enumerate(x)] for a list / tuple / set / frozenset x (members in iteration order) *)
Fixpoint enum_from {A} (i : nat) (l : list A) : list (nat * A) :=
  match l with [] => [] | x :: r => (i, x) :: enum_from (S i) r end.
Definition py_iter (x : pobj) : list pobj :=
  match x with
  | OV (VList xs) | OV (VTuple xs) => map OV xs
  | OV (VSet xs) | OV (VFrozen xs) => map (fun a => OV (VAtom a)) xs
  | _ => []
  end.
Definition py_enumerate (x : pobj) : list (nat * pobj) := enum_from 0 (py_iter x).
(* [x.items()] for a dict x (insertion order) *)
Definition py_dict_items (x : pobj) : list (pobj * pobj) :=
  match x with
  | OV (VDict kvs) => map (fun kv => (OV (VAtom (fst kv)), OV (snd kv))) kvs
  | _ => []
  end.

(** ** object identity.  The universe is tree-shaped (no object is its own ancestor), so the cycle guard
    [item_id in parents_ids] never fires: ids carry no information here. *)
Definition pids := unit.
Definition get_id (x : pobj) : unit := tt.
Definition pids_truthy (p : pids) : bool := true.
Definition pids_in (i : unit) (p : pids) : bool := false.
Definition add_to_frozen_set (p : pids) (i : unit) : pids := tt.

(** ** [self]: the attributes the fragment reads, as __init__ leaves them.  Options outside the hand model are at
    their defaults (rule F of the translator): custom_operators=None, use_enum_value=False, apply_hash=True,
    encodings=None, ignore_encoding_errors=False, number_format_notation='f', no exclude / include option. *)
Record hself := mk_hself { self_opts : hopts; self_hasher : pystr -> pystr; self_truncate_datetime : option tunit }.
Definition self_ignore_repetition (s : hself) : bool := ignore_repetition (self_opts s).
Definition self_ignore_iterable_order (s : hself) : bool := ignore_iterable_order (self_opts s).
Definition self_ignore_private_variables (s : hself) : bool := ignore_private (self_opts s).
Definition self_ignore_string_case (s : hself) : bool := ignore_string_case (self_opts s).
Definition self_ignore_string_type_changes (s : hself) : bool := ignore_string_type_changes (self_opts s).
Definition self_ignore_numeric_type_changes (s : hself) : bool := ignore_numeric_type_changes (self_opts s).
(* self.significant_digits = self.get_significant_digits(significant_digits, ignore_numeric_type_changes) *)
Definition self_significant_digits (s : hself) : option nat := eff_digits (self_opts s).
Definition self_apply_hash (s : hself) : bool := true.
Definition is_Some {A} (x : option A) : bool := match x with Some _ => true | None => false end.
(* _skip_this with no exclude_* / include_* option *)
Definition prim_skip_this (s : hself) (x : pobj) : bool := false.

(* helper.number_to_string(x, significant_digits=sd, number_format_notation='f') *)
Definition prim_number_to_string (x : pobj) (sd : option nat) : pobj :=
  match sd, x with
  | Some n, OV (VAtom (AInt z)) => OText (fmt_int n z)
  | Some n, OV (VAtom (AHalf t)) => OText (fmt_half n t)
  | Some n, OLeaf (LDecimal neg coef e) => OText (decimal_fmt n neg coef e)
  | _, _ => x
  end.

(* helper.datetime_normalize(truncate_datetime, x, default_timezone=utc): a datetime becomes an aware datetime in UTC
   (truncated in its own zone first), a time becomes its seconds since midnight (truncated) *)
Definition prim_datetime_normalize (t : option tunit) (x : pobj) : pobj :=
  match x with
  | OLeaf (LDateTime us off) => OUtc (trunc_us t us - 60000000 * match off with Some o => o | None => 0 end)%Z
  | OLeaf (LTime s) => OText (time_text t s)
  | _ => x
  end.

(* the bytes branch of prepare_string_for_hashing (encodings=None, ignore_encoding_errors=False): utf-8 decoding,
   the identity on ASCII bytes (the modelled range) *)
Definition prim_decode_bytes (x : pobj) : pobj :=
  match x with OV (VAtom (ABytes s)) => OText s | _ => x end.

(** ** the [hashes] table: [memo] of Hash/HashModel.v.  A hashable object is keyed by itself (Python ==; a BoolObj
    member by identity), an unhashable one by its id. *)
Definition pobj_key (x : pobj) : option value :=
  match x with
  | OV (VAtom (ABool b)) => Some (VAtom (AInt (if b then 1 else 0)%Z))   (* a raw bool hashes and compares as 1 / 0 *)
  | OV v => Some v
  | OBoolObj b => Some (VAtom (ABool b))      (* HashModel.key_eq: a top-level ABool key IS the BoolObj member *)
  | OText s => Some (VAtom (AStr s))
  | _ => None
  end.
(* [self.hashes[x]] inside try / except (TypeError, KeyError): None = either exception *)
Definition hashes_get (m : memo) (x : pobj) : option pobj :=
  match pobj_key x with
  | Some k => option_map OText (mfind k m)
  | None => None
  end.
(* try: self.hashes[x] = (r, counts)  except TypeError: self.hashes[get_id(x)] = (r, counts) *)
Definition hashes_set (m : memo) (x r : pobj) : memo :=
  match pobj_key x with
  | Some k => minsert k (py_str r) m
  | None => m
  end.
(* self.hashes[UNPROCESSED_KEY].append(x): the list of unprocessed objects is not part of [memo] *)
Definition hashes_unprocessed_append (m : memo) (x : pobj) : memo := m.

(* calls into code outside the fragment (_prep_obj, the DataFrame generators): never reached on this universe *)
Definition outside_fragment (m : memo) : pobj * memo := (OUnprocessed, m).

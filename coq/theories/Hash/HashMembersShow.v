(** sx rendering of [diff_sets_memo] for the correspondence check (no theorem depends on it). *)
From Coq Require Import List ZArith NArith Bool String.
Import ListNotations.
From DD Require Import Base.Sx Base.PyStr Base.Value Hash.HashModel Hash.HashMembers.

Definition run_diff_sets (o : hopts) (pairs : list (value * value)) : sx :=
  SL (map (fun ra => SL [SL (map sx_value (fst ra)); SL (map sx_value (snd ra))])
          (fst (diff_sets_memo hexhash o [] pairs))).

(** Bool keys / members / items and the == -keyed table (added after seeded C07-10: a dict key taken straight from
    the table, without the bool -> BoolObj substitution, takes the hash of the 1 / 1.0 / 0 / 0.0 visited before it).

    [_hash] replaces a bool by its [BoolObj] member BEFORE it consults the table, at EVERY position - list / tuple
    item, dict key, set member ([hash_memo] / [hash_atom_memo]: [mlookup] with [key_eq], which equates a bool with
    the same bool only).  Proved here, for every hasher, every option record and every table the model can reach
    ([atoms_ok]: each == -keyed scalar entry holds the hash of the scalar it is keyed by - an invariant of
    [hash_memo], [hash_memo_atoms_ok], whatever aliasing went on before):

    - [bool_own_hash]     a bool key / member / item is hashed as itself, whatever was visited before;
    - [num_twin_hash]     an int / float key gets the hash of SOME int / float (K2: possibly its == twin), never
                          that of a bool;
    - [bool_num_keys_differ], [bool_key_dict_separate], [bool_key_dict_separate_after]
                          (hasher injective, outputs separator-free, plain options): a dict with a bool key and a dict
                          with an int / float key never share a hash, whatever values they hold and whatever
                          sequence of values was hashed on the same table before;
    - [bool_key_witness]  the seeded pair at the root, three modes, hex hasher. *)
From Coq Require Import List ZArith NArith Bool String Lia.
Import ListNotations.
From DD Require Import Base.Sx Base.PyStr Base.Value Hash.HashModel Hash.HashProofsBase Hash.HashProofsC06
  Hash.HashProofsC07 Hash.HashProofsMemo.

Definition numeric (a : atom) : bool :=
  match a with AInt _ | AHalf _ => true | _ => false end.

(* the strings handed to the hasher for a bool and for an int / float differ under EVERY option record *)
Lemma ser_bool_num : forall o b a, numeric a = true -> ser_atom o (ABool b) <> ser_atom o a.
Proof.
  intros [ir io ip isc ists inum sd] b a Hn E.
  destruct a as [| |z|t| |]; try discriminate Hn;
    unfold ser_atom, retag, prep_string, atom_result, num_type in E; cbn [ignore_string_case
      ignore_string_type_changes ignore_numeric_type_changes] in E;
    destruct b, isc, ists, inum; cbn in E; discriminate E.
Qed.

Section BoolKeys.
Variable H : pystr -> pystr.
Variable o : hopts.

Definition atoms_ok (m : memo) : Prop :=
  forall a h, In (MK (VAtom a), h) m -> h = hash_atom H o a.

Lemma atoms_ok_nil : atoms_ok [].
Proof. intros a h []. Qed.

Lemma atoms_ok_insert : forall v h m,
  atoms_ok m -> (forall a, v = VAtom a -> h = hash_atom H o a) -> atoms_ok (minsert v h m).
Proof.
  intros v h m Hm Hv a h' Hi. unfold minsert in Hi. apply in_app_or in Hi. destruct Hi as [Hi|[Hi|[]]].
  - apply Hm; exact Hi.
  - unfold mkey_of in Hi. destruct (hashable v); inversion Hi; subst. apply Hv; reflexivity.
Qed.

Lemma atom_memo_ok : forall a m, atoms_ok m -> atoms_ok (snd (hash_atom_memo H o a m)).
Proof.
  intros a m Hm. unfold hash_atom_memo. destruct (mlookup (VAtom a) m) as [h|]; cbn [snd]; [exact Hm|].
  apply atoms_ok_insert; [exact Hm|]. intros a' Ea. inversion Ea; subst. reflexivity.
Qed.

Lemma atoms_memo_ok : forall xs m, atoms_ok m -> atoms_ok (snd (atoms_memo H o xs m)).
Proof.
  induction xs as [|a r IH]; intros m Hm; cbn [atoms_memo]; [exact Hm|].
  pose proof (atom_memo_ok a m Hm) as H1. destruct (hash_atom_memo H o a m) as [h m1]. cbn [snd] in H1.
  specialize (IH m1 H1). destruct (atoms_memo H o r m1) as [hs m2]. exact IH.
Qed.

Definition keeps (v : value) : Prop := forall m, atoms_ok m -> atoms_ok (snd (hash_memo H o v m)).

Lemma items_memo_ok : forall xs, Forall keeps xs -> forall m, atoms_ok m -> atoms_ok (snd (items_memo H o xs m)).
Proof.
  induction xs as [|x r IH]; intros Hf m Hm; cbn [items_memo]; [exact Hm|].
  inversion Hf as [|? ? Hx Hr]; subst.
  pose proof (Hx m Hm) as H1. destruct (hash_memo H o x m) as [h m1]. cbn [snd] in H1.
  specialize (IH Hr m1 H1). destruct (items_memo H o r m1) as [hs m2]. exact IH.
Qed.

Lemma dict_memo_ok : forall kvs, Forall (fun kv => keeps (snd kv)) kvs ->
  forall m, atoms_ok m -> atoms_ok (snd (dict_memo H o kvs m)).
Proof.
  induction kvs as [|[k x] r IH]; intros Hf m Hm; cbn [dict_memo]; [exact Hm|].
  inversion Hf as [|? ? Hx Hr]; subst. cbn [snd] in Hx.
  destruct (hidden o k); [apply IH; assumption|].
  pose proof (atom_memo_ok k m Hm) as H1. destruct (hash_atom_memo H o k m) as [kh m1]. cbn [snd] in H1.
  pose proof (Hx m1 H1) as H2. destruct (hash_memo H o x m1) as [vh m2]. cbn [snd] in H2.
  specialize (IH Hr m2 H2). destruct (dict_memo H o r m2) as [its m3]. exact IH.
Qed.

(* the invariant is kept by every call of [_hash], aliasing or not *)
Theorem hash_memo_atoms_ok : forall v, keeps v.
Proof.
  induction v as [a|xs IH|xs IH|kvs IH|xs|xs] using value_ind'; intros m Hm; rewrite hash_memo_eq;
    destruct (mfind _ m) as [h|]; try exact Hm; cbn [memo_body].
  - cbn [snd]. apply atoms_ok_insert; [exact Hm|]. intros a' Ea. inversion Ea; subst. reflexivity.
  - pose proof (items_memo_ok xs IH m Hm) as H1. destruct (items_memo H o xs m) as [hs m1]. cbn [snd] in *.
    apply atoms_ok_insert; [exact H1|]. intros a' Ea; discriminate Ea.
  - pose proof (items_memo_ok xs IH m Hm) as H1. destruct (items_memo H o xs m) as [hs m1]. cbn [snd] in *.
    apply atoms_ok_insert; [exact H1|]. intros a' Ea; discriminate Ea.
  - pose proof (dict_memo_ok kvs IH m Hm) as H1. destruct (dict_memo H o kvs m) as [its m1]. cbn [snd] in *.
    apply atoms_ok_insert; [exact H1|]. intros a' Ea; discriminate Ea.
  - pose proof (atoms_memo_ok xs m Hm) as H1. destruct (atoms_memo H o xs m) as [hs m1]. cbn [snd] in *.
    apply atoms_ok_insert; [exact H1|]. intros a' Ea; discriminate Ea.
  - pose proof (atoms_memo_ok xs m Hm) as H1. destruct (atoms_memo H o xs m) as [hs m1]. cbn [snd] in *.
    apply atoms_ok_insert; [exact H1|]. intros a' Ea; discriminate Ea.
Qed.

(* the table after hashing the values [vs] one after the other, starting from an empty table *)
Definition table_after (vs : list value) : memo := fold_left (fun m v => snd (hash_memo H o v m)) vs [].

Lemma fold_atoms_ok : forall vs m, atoms_ok m -> atoms_ok (fold_left (fun m v => snd (hash_memo H o v m)) vs m).
Proof.
  induction vs as [|v r IH]; intros m Hm; cbn [fold_left]; [exact Hm|]. apply IH. apply hash_memo_atoms_ok; exact Hm.
Qed.

Lemma table_after_ok : forall vs, atoms_ok (table_after vs).
Proof. intros vs. apply fold_atoms_ok, atoms_ok_nil. Qed.

(** ** what a bool / an int / a float finds in the table *)

Lemma bool_lookup : forall m b h, atoms_ok m -> mlookup (VAtom (ABool b)) m = Some h -> h = hash_atom H o (ABool b).
Proof.
  intros m b h Hm Hl. apply mlookup_Some in Hl. destruct Hl as [k [Hi Hk]].
  destruct k as [[| b' | | | |]| | | | |]; cbn in Hk; try discriminate Hk.
  apply eqb_prop in Hk. subst b'. apply Hm; exact Hi.
Qed.

Theorem bool_own_hash : forall m b, atoms_ok m -> fst (hash_atom_memo H o (ABool b) m) = hash_atom H o (ABool b).
Proof.
  intros m b Hm. unfold hash_atom_memo. destruct (mlookup (VAtom (ABool b)) m) as [h|] eqn:Hl; cbn [fst]; [|reflexivity].
  eapply bool_lookup; eassumption.
Qed.

Lemma num_lookup : forall m a h, atoms_ok m -> numeric a = true -> mlookup (VAtom a) m = Some h ->
  exists a', numeric a' = true /\ py_eq a' a = true /\ h = hash_atom H o a'.
Proof.
  intros m a h Hm Hn Hl. apply mlookup_Some in Hl. destruct Hl as [k [Hi Hk]].
  destruct k as [a'| | | | |]; try (destruct a; cbn in Hk; discriminate Hk).
  exists a'. split; [|split; [|apply Hm; exact Hi]].
  - destruct a; try discriminate Hn; destruct a'; cbn in Hk; try discriminate Hk; reflexivity.
  - destruct a; try discriminate Hn; destruct a'; cbn in Hk |- *; try discriminate Hk; exact Hk.
Qed.

Theorem num_twin_hash : forall m a, atoms_ok m -> numeric a = true ->
  exists a', numeric a' = true /\ py_eq a' a = true /\ fst (hash_atom_memo H o a m) = hash_atom H o a'.
Proof.
  intros m a Hm Hn. unfold hash_atom_memo. destruct (mlookup (VAtom a) m) as [h|] eqn:Hl; cbn [fst].
  - eapply num_lookup; eassumption.
  - exists a. split; [exact Hn|]. split; [|reflexivity].
    destruct a as [| |z|t| |]; try discriminate Hn; cbn; apply Z.eqb_refl.
Qed.

(* a bool ITEM likewise ([hash_memo] on an atom is [hash_atom_memo]); and on the table left by any history *)
Corollary bool_item_own_hash : forall m b, atoms_ok m -> fst (hash_memo H o (VAtom (ABool b)) m) = hash_atom H o (ABool b).
Proof. intros m b Hm. rewrite <- hash_atom_memo_eq. apply bool_own_hash; exact Hm. Qed.

Corollary bool_own_hash_after : forall vs b,
  fst (hash_atom_memo H o (ABool b) (table_after vs)) = hash_atom H o (ABool b) /\
  fst (hash_memo H o (VAtom (ABool b)) (table_after vs)) = hash_atom H o (ABool b).
Proof. intros vs b. split; [apply bool_own_hash|apply bool_item_own_hash]; apply table_after_ok. Qed.

Hypothesis H_inj : forall s t, H s = H t -> s = t.

(* key level: every option record *)
Theorem bool_num_keys_differ : forall m b a, atoms_ok m -> numeric a = true ->
  fst (hash_atom_memo H o (ABool b) m) <> fst (hash_atom_memo H o a m).
Proof.
  intros m b a Hm Hn E. rewrite bool_own_hash in E by exact Hm.
  destruct (num_twin_hash m a Hm Hn) as [a' [Hn' [_ E']]]. rewrite E' in E.
  unfold hash_atom in E. apply H_inj in E. exact (ser_bool_num o b a' Hn' E).
Qed.

Corollary bool_num_keys_differ_after : forall vs b a, numeric a = true ->
  fst (hash_atom_memo H o (ABool b) (table_after vs)) <> fst (hash_atom_memo H o a (table_after vs)).
Proof. intros vs b a Hn. apply bool_num_keys_differ; [apply table_after_ok|exact Hn]. Qed.

Hypothesis H_tok : forall s, s <> [] -> sepfree (H s).
Hypothesis o_plain : plain o = true.

Lemma dict1_hash : forall k x m, hidden o k = false ->
  fst (hash_memo H o (VDict [(k, x)]) m) =
  H (retag o (dict_result [dict_item (fst (hash_atom_memo H o k m))
                                     (fst (hash_memo H o x (snd (hash_atom_memo H o k m))))])).
Proof.
  intros k x m Hh. rewrite hash_memo_eq. unfold mfind. cbn [hashable memo_body dict_memo]. rewrite Hh.
  destruct (hash_atom_memo H o k m) as [kh m1]. cbn [fst snd]. destruct (hash_memo H o x m1) as [vh m2].
  reflexivity.
Qed.

Lemma retag_plain : forall s, retag o s = s2p "str" ++ c_colon ++ s.
Proof.
  intros s. unfold retag, prep_string. unfold plain in o_plain.
  destruct (ignore_string_case o), (ignore_string_type_changes o); cbn in o_plain; try discriminate o_plain. reflexivity.
Qed.

Lemma ser_atom_nonempty : forall a, numeric a = true \/ (exists b, a = ABool b) -> ser_atom o a <> [].
Proof.
  intros a Ha E. assert (E' : exists s, ser_atom o a = s2p "str" ++ c_colon ++ s).
  { destruct Ha as [Hn|[b ->]]; [destruct a; try discriminate Hn|]; unfold ser_atom; rewrite retag_plain; eexists; reflexivity. }
  destruct E' as [s Es]. rewrite Es in E. discriminate E.
Qed.

(* dict level: one-entry dicts, whatever the values, on one and the same table *)
Theorem bool_key_dict_separate : forall m b a x y, atoms_ok m -> numeric a = true ->
  fst (hash_memo H o (VDict [(ABool b, x)]) m) <> fst (hash_memo H o (VDict [(a, y)]) m).
Proof.
  intros m b a x y Hm Hn E.
  assert (Hb : hidden o (ABool b) = false) by (unfold hidden; cbn; apply andb_false_r).
  assert (Ha : hidden o a = false) by (unfold hidden; destruct a; try discriminate Hn; cbn; apply andb_false_r).
  rewrite (dict1_hash _ _ _ Hb), (dict1_hash _ _ _ Ha) in E. apply H_inj in E. rewrite !retag_plain in E.
  apply app_inv_head in E. apply app_inv_head in E. unfold dict_result in E. cbn [isort insert join] in E.
  apply app_inv_head in E. apply app_inv_tail in E. unfold dict_item, c_colon in E. cbn [app] in E.
  pose proof (bool_num_keys_differ m b a Hm Hn) as Hd.
  assert (F1 : free 58%N (fst (hash_atom_memo H o (ABool b) m))).
  { rewrite bool_own_hash by exact Hm. unfold hash_atom.
    destruct (H_tok (ser_atom o (ABool b))) as (_ & _ & _ & F & _); [apply ser_atom_nonempty; right; eexists; reflexivity|exact F]. }
  assert (F2 : free 58%N (fst (hash_atom_memo H o a m))).
  { destruct (num_twin_hash m a Hm Hn) as [a' [Hn' [_ E']]]. rewrite E'. unfold hash_atom.
    destruct (H_tok (ser_atom o a')) as (_ & _ & _ & F & _); [apply ser_atom_nonempty; left; exact Hn'|exact F]. }
  destruct (split_sep _ _ _ _ _ F1 F2 E) as [Ek _]. exact (Hd Ek).
Qed.

(* ... whatever was visited before on that table *)
Corollary bool_key_dict_separate_after : forall vs b a x y, numeric a = true ->
  deephash_with H o (table_after vs) (VDict [(ABool b, x)]) <> deephash_with H o (table_after vs) (VDict [(a, y)]).
Proof. intros vs b a x y Hn. unfold deephash_with. apply bool_key_dict_separate; [apply table_after_ok|exact Hn]. Qed.

End BoolKeys.

(* the seeded pair at the root: [1, {True: 'x'}] / [1, {1: 'x'}], [1.0, {True: None}] / [1.0, {1.0: None}], and the
   same with 0 / False one level deeper, three modes, the hasher of the correspondence run *)
Example bool_key_witness : forall o, In o [set_mode; multiset_mode; ordered_mode] ->
  deephash hexhash o (VList [VAtom (AInt 1); VDict [(ABool true, VAtom (AStr (s2p "x")))]]) <>
  deephash hexhash o (VList [VAtom (AInt 1); VDict [(AInt 1, VAtom (AStr (s2p "x")))]]) /\
  deephash hexhash o (VList [VAtom (AHalf 2); VDict [(ABool true, VAtom ANone)]]) <>
  deephash hexhash o (VList [VAtom (AHalf 2); VDict [(AHalf 2, VAtom ANone)]]) /\
  deephash hexhash o (VDict [(AStr (s2p "a"), VAtom (AInt 0)); (AStr (s2p "b"), VList [VDict [(ABool false, VList [])]])]) <>
  deephash hexhash o (VDict [(AStr (s2p "a"), VAtom (AInt 0)); (AStr (s2p "b"), VList [VDict [(AInt 0, VList [])]])]).
Proof.
  intros o [<-|[<-|[<-|[]]]]; (split; [|split]); intro E; vm_compute in E; discriminate E.
Qed.

(** C06, the [hashes] table: sharing or pre-seeding the table changes nothing
    as long as no two atoms that are == in Python but not identical co-occur
    (K2); and the refutation without that guard. *)
From Coq Require Import List ZArith NArith Bool Lia Permutation Arith String.
Import ListNotations.
From DD Require Import Base.PyStr Base.Value Hash.HashModel Hash.Equiv Hash.HashProofsBase Hash.HashProofsC06 Hash.HashProofsC07.

(* ------------------------------------------------------------------ *)
(** * No aliasing, as a proposition *)

Definition NA (l : list atom) : Prop :=
  forall a b, In a l -> In b l -> py_eq a b = true -> a = b.

Lemma atom_eqb_eq : forall a b, atom_eqb a b = true -> a = b.
Proof.
  intros [| x | x | x | x | x] [| y | y | y | y | y]; cbn; intro He; try discriminate; auto.
  - apply Bool.eqb_prop in He. congruence.
  - apply Z.eqb_eq in He. congruence.
  - apply Z.eqb_eq in He. congruence.
  - apply pystr_eqb_eq in He. congruence.
  - apply pystr_eqb_eq in He. congruence.
Qed.

Lemma no_alias_NA : forall l, no_alias l = true -> NA l.
Proof.
  unfold no_alias, NA. intros l Hn a b Ha Hb He.
  rewrite forallb_forall in Hn. specialize (Hn a Ha). rewrite forallb_forall in Hn.
  specialize (Hn b Hb). rewrite He in Hn. cbn in Hn. apply atom_eqb_eq; auto.
Qed.

Lemma NA_incl : forall l l', NA l -> incl l' l -> NA l'.
Proof. unfold NA. intros l l' Hn Hi a b Ha Hb. apply Hn; auto. Qed.

(* ------------------------------------------------------------------ *)
(** * Python == on hashable keys without aliasing is the equivalence *)

Lemma py_eqv_eqv : forall o k v,
  hashable k = true -> hashable v = true -> wf k = true ->
  py_eqv k v = true ->
  (forall a b, In a (atoms_of k) -> In b (atoms_of v) -> py_eq a b = true -> a = b) ->
  eqv o k v.
Proof.
  intros o k. induction k as [a|xs IH|xs IH|kvs IH|xs|xs] using value_ind'; intros v Hk Hv Wk He Hna;
    try discriminate Hk.
  - destruct v; cbn in He; try discriminate He.
    assert (a = a0) by (apply Hna; cbn; auto). subst. constructor.
  - destruct v as [|ys|ys| | |]; cbn [py_eqv] in He; try discriminate He.
    constructor. apply seq_rel_of_Forall2.
    cbn [hashable] in Hk, Hv. cbn [wf] in Wk. cbn [atoms_of] in Hna.
    revert ys He Hv Hna. induction xs as [|x xs IHxs]; intros [|y ys] He Hv Hna; try discriminate He.
    + constructor.
    + apply andb_true_iff in He. destruct He as [He1 He2].
      cbn [forallb] in Hk, Hv, Wk. apply andb_true_iff in Hk, Hv, Wk.
      destruct Hk as [Hk1 Hk2]. destruct Hv as [Hv1 Hv2]. destruct Wk as [Wk1 Wk2].
      inversion IH as [|? ? IH1 IH2]; subst.
      constructor.
      * apply IH1; auto. intros a b Ha Hb. apply Hna; cbn [flat_map]; apply in_or_app; auto.
      * apply IHxs; auto. intros a b Ha Hb. apply Hna; cbn [flat_map]; apply in_or_app; auto.
  - destruct v as [| | | |ys|ys]; cbn [py_eqv] in He; try discriminate He; try discriminate Hv.
    apply andb_true_iff in He. destruct He as [Hl Hm]. apply Nat.eqb_eq in Hl.
    constructor. cbn [wf] in Wk. apply nodup_atoms_NoDup in Wk.
    apply NoDup_Permutation_bis; auto; [lia|].
    intros a Ha. rewrite forallb_forall in Hm. specialize (Hm a Ha).
    unfold mem_atom in Hm. apply existsb_exists in Hm. destruct Hm as [b [Hb Hab]].
    cbn [atoms_of] in Hna. rewrite (Hna a b Ha Hb Hab). auto.
Qed.

Lemma key_eq_eqv : forall o k v,
  hashable k = true -> hashable v = true -> wf k = true ->
  key_eq k v = true ->
  (forall a b, In a (atoms_of k) -> In b (atoms_of v) -> py_eq a b = true -> a = b) ->
  eqv o k v.
Proof.
  intros o k v Hk Hv Wk He Hna.
  assert (Hpy : py_eqv k v = true -> eqv o k v) by (intro; apply py_eqv_eqv; auto).
  destruct k as [[| x | | | |]| | | | |]; try (apply Hpy; exact He);
    destruct v as [[| y | | | |]| | | | |]; try (apply Hpy; exact He); try discriminate He.
  cbn in He. apply Bool.eqb_prop in He. subst. constructor.
Qed.

(* ------------------------------------------------------------------ *)
(** * Equations of hash_memo *)

Section Memo.
Variable H : pystr -> pystr.

Definition items_memo (o : hopts) :=
  fix go (xs : list value) (m : memo) : list pystr * memo :=
    match xs with
    | [] => ([], m)
    | x :: r => let '(h, m1) := hash_memo H o x m in
                let '(hs, m2) := go r m1 in (h :: hs, m2)
    end.

Definition dict_memo (o : hopts) :=
  fix go (kvs : list (atom * value)) (m : memo) : list pystr * memo :=
    match kvs with
    | [] => ([], m)
    | (k, x) :: r =>
        if hidden o k then go r m
        else let '(kh, m1) := hash_atom_memo H o k m in
             let '(vh, m2) := hash_memo H o x m1 in
             let '(its, m3) := go r m2 in
             (dict_item kh vh :: its, m3)
    end.

Definition memo_body (o : hopts) (v : value) (m : memo) : pystr * memo :=
  match v with
  | VAtom a => (hash_atom H o a, m)
  | VList xs => let '(hs, m1) := items_memo o xs m in
                (H (retag o (seq_result (s2p "list") (arrange o hs))), m1)
  | VTuple xs => let '(hs, m1) := items_memo o xs m in
                 (H (retag o (seq_result (s2p "tuple") (arrange o hs))), m1)
  | VDict kvs => let '(its, m1) := dict_memo o kvs m in
                 (H (retag o (dict_result its)), m1)
  | VSet xs => let '(hs, m1) := atoms_memo H o xs m in
               (H (retag o (seq_result (s2p "set") (arrange o hs))), m1)
  | VFrozen xs => let '(hs, m1) := atoms_memo H o xs m in
                  (H (retag o (seq_result (s2p "frozenset") (arrange o hs))), m1)
  end.

Lemma hash_memo_eq : forall o v m,
  hash_memo H o v m =
  match mfind v m with
  | Some h => (h, m)
  | None => let '(h, m') := memo_body o v m in (h, minsert v h m')
  end.
Proof. intros o v m. destruct v; reflexivity. Qed.

Lemma hash_atom_memo_eq : forall o a m, hash_atom_memo H o a m = hash_memo H o (VAtom a) m.
Proof. intros. reflexivity. Qed.

(* ------------------------------------------------------------------ *)
(** * Soundness of the table *)

Definition memo_ok (o : hopts) (m : memo) : Prop :=
  forall k h, In (MK k, h) m ->
    hashable k = true /\ wf k = true /\ order_ok o k = true /\ h = hash_pure H o k.

Lemma mlookup_Some : forall v m h, mlookup v m = Some h ->
  exists k, In (MK k, h) m /\ key_eq k v = true.
Proof.
  intros v m h. induction m as [|[[k|k] h'] m IH]; cbn; intro He; try discriminate.
  - destruct (key_eq k v) eqn:Ek.
    + inversion He; subst. exists k. auto.
    + destruct (IH He) as [k' [Hi Hk]]. exists k'. auto.
  - destruct (IH He) as [k' [Hi Hk]]. exists k'. auto.
Qed.

Lemma matoms_app : forall m1 m2, matoms (m1 ++ m2) = matoms m1 ++ matoms m2.
Proof. intros. unfold matoms. apply flat_map_app. Qed.

Lemma matoms_insert : forall v h m, matoms (minsert v h m) = matoms m ++ atoms_of v.
Proof.
  intros. unfold minsert. rewrite matoms_app. f_equal. unfold matoms, mkey_of. cbn.
  destruct (hashable v); cbn; apply app_nil_r.
Qed.

Lemma matoms_key : forall k h m, In (MK k, h) m -> incl (atoms_of k) (matoms m).
Proof.
  intros k h m Hi a Ha. unfold matoms. apply in_flat_map. exists (MK k, h). split; auto.
Qed.

Section Sound.
Variable o : hopts.
Variable L : list atom.
Hypothesis L_na : NA L.

Definition post (v : value) (r : pystr * memo) : Prop :=
  fst r = hash_pure H o v /\ memo_ok o (snd r) /\ incl (matoms (snd r)) L.

Lemma finish : forall v (m m' : memo) h,
  wf v = true -> order_ok o v = true -> incl (atoms_of v) L ->
  h = hash_pure H o v -> memo_ok o m' -> incl (matoms m') L ->
  post v (h, minsert v h m').
Proof.
  intros v m m' h Wv Ov Lv -> Hok Hin. unfold post. cbn [fst snd]. split; [reflexivity|split].
  - intros k h' Hi. unfold minsert in Hi. apply in_app_or in Hi. destruct Hi as [Hi|[Hi|[]]]; auto.
    unfold mkey_of in Hi. destruct (hashable v) eqn:Hh; inversion Hi; subst. auto.
  - rewrite matoms_insert. apply incl_app; auto.
Qed.

Lemma hit_sound : forall v m h,
  memo_ok o m -> incl (matoms m) L -> incl (atoms_of v) L ->
  mfind v m = Some h -> h = hash_pure H o v.
Proof.
  intros v m h Hok Hm Hv Hf. unfold mfind in Hf. destruct (hashable v) eqn:Hh; try discriminate.
  apply mlookup_Some in Hf. destruct Hf as [k [Hi Hk]].
  destruct (Hok k h Hi) as (Hhk & Wk & Ok & ->).
  apply eqv_hash; auto. apply key_eq_eqv; auto.
  intros a b Ha Hb. apply L_na; auto. apply Hm. eapply matoms_key; eauto.
Qed.

Lemma atom_sound : forall a m,
  memo_ok o m -> incl (matoms m) L -> In a L ->
  post (VAtom a) (hash_atom_memo H o a m).
Proof.
  intros a m Hok Hm Ha. rewrite hash_atom_memo_eq, hash_memo_eq.
  assert (Hv : incl (atoms_of (VAtom a)) L) by (intros x [<-|[]]; auto).
  destruct (mfind (VAtom a) m) as [h|] eqn:Hf.
  - unfold post. cbn [fst snd]. split; [eapply hit_sound; eauto|auto].
  - cbn [memo_body]. apply (finish (VAtom a) m); auto.
    unfold order_ok. cbn. apply orb_true_r.
Qed.

Lemma atoms_sound : forall xs m,
  memo_ok o m -> incl (matoms m) L -> incl xs L ->
  let r := atoms_memo H o xs m in
  fst r = map (hash_atom H o) xs /\ memo_ok o (snd r) /\ incl (matoms (snd r)) L.
Proof.
  induction xs as [|a xs IH]; intros m Hok Hm Hx; cbn [atoms_memo]; [cbn; auto|].
  destruct (atom_sound a m Hok Hm (Hx a (or_introl eq_refl))) as (E1 & Ok1 & In1).
  destruct (hash_atom_memo H o a m) as [h m1]. cbn [fst snd] in *.
  specialize (IH m1 Ok1 In1 (fun x Hi => Hx x (or_intror Hi))). cbn zeta in IH.
  destruct (atoms_memo H o xs m1) as [hs m2]. cbn [fst snd] in *.
  destruct IH as (E2 & Ok2 & In2). cbn [map]. rewrite E1, E2. auto.
Qed.

Lemma order_ok_item : forall xs x, order_ok o (VList xs) = true -> In x xs -> order_ok o x = true.
Proof.
  intros xs x Hok Hi. apply order_ok_split in Hok. unfold order_ok. destruct Hok as [->|Hs]; auto.
  cbn [small_sets] in Hs. rewrite forallb_forall in Hs. rewrite (Hs x Hi). apply orb_true_r.
Qed.

Lemma order_ok_value : forall kvs kv, order_ok o (VDict kvs) = true -> In kv kvs -> order_ok o (snd kv) = true.
Proof.
  intros kvs kv Hok Hi. apply order_ok_split in Hok. unfold order_ok. destruct Hok as [->|Hs]; auto.
  cbn [small_sets] in Hs. rewrite forallb_forall in Hs. rewrite (Hs kv Hi). apply orb_true_r.
Qed.

Definition sound_at (v : value) : Prop :=
  forall m, memo_ok o m -> incl (matoms m) L ->
    wf v = true -> order_ok o v = true -> incl (atoms_of v) L ->
    post v (hash_memo H o v m).

Lemma items_sound : forall xs, Forall sound_at xs -> forall m,
  memo_ok o m -> incl (matoms m) L ->
  (forall x, In x xs -> wf x = true /\ order_ok o x = true /\ incl (atoms_of x) L) ->
  let r := items_memo o xs m in
  fst r = map (hash_pure H o) xs /\ memo_ok o (snd r) /\ incl (matoms (snd r)) L.
Proof.
  induction xs as [|x xs IHxs]; intros IH m Hok Hm Hx; cbn [items_memo]; [cbn; auto|].
  inversion IH as [|? ? IH1 IH2]; subst.
  destruct (Hx x (or_introl eq_refl)) as (W & O & A).
  destruct (IH1 m Hok Hm W O A) as (E1 & Ok1 & In1).
  destruct (hash_memo H o x m) as [h m1]. cbn [fst snd] in *.
  specialize (IHxs IH2 m1 Ok1 In1 (fun y Hi => Hx y (or_intror Hi))). cbn zeta in IHxs.
  fold (items_memo o) in *.
  destruct (items_memo o xs m1) as [hs m2]. cbn [fst snd] in *.
  destruct IHxs as (E2 & Ok2 & In2). cbn [map]. rewrite E1, E2. auto.
Qed.

Lemma dict_sound : forall kvs, Forall (fun kv => sound_at (snd kv)) kvs -> forall m,
  memo_ok o m -> incl (matoms m) L ->
  (forall kv, In kv kvs -> In (fst kv) L /\ wf (snd kv) = true /\ order_ok o (snd kv) = true /\ incl (atoms_of (snd kv)) L) ->
  let r := dict_memo o kvs m in
  fst r = map (fun kv => dict_item (hash_atom H o (fst kv)) (hash_pure H o (snd kv))) (vis o kvs)
  /\ memo_ok o (snd r) /\ incl (matoms (snd r)) L.
Proof.
  induction kvs as [|[k x] kvs IHk]; intros IH m Hok Hm Hx; cbn [dict_memo]; [cbn; auto|].
  inversion IH as [|? ? IH1 IH2]; subst. cbn [snd] in IH1.
  fold (dict_memo o) in *.
  unfold vis. cbn [filter fst]. fold (vis o kvs).
  destruct (hidden o k) eqn:Hh; cbn [negb].
  - apply IHk; auto. intros kv Hi. apply Hx. right; auto.
  - destruct (Hx (k, x) (or_introl eq_refl)) as (Kl & W & O & A). cbn [fst snd] in *.
    destruct (atom_sound k m Hok Hm Kl) as (E1 & Ok1 & In1).
    destruct (hash_atom_memo H o k m) as [kh m1]. cbn [fst snd] in *.
    destruct (IH1 m1 Ok1 In1 W O A) as (E2 & Ok2 & In2).
    destruct (hash_memo H o x m1) as [vh m2]. cbn [fst snd] in *.
    specialize (IHk IH2 m2 Ok2 In2 (fun kv Hi => Hx kv (or_intror Hi))). cbn zeta in IHk.
    destruct (dict_memo o kvs m2) as [its m3]. cbn [fst snd] in *.
    destruct IHk as (E3 & Ok3 & In3). cbn [map fst snd]. rewrite E1, E2, E3. auto.
Qed.

Theorem memo_sound : forall v, sound_at v.
Proof.
  induction v as [a|xs IH|xs IH|kvs IH|xs|xs] using value_ind'; intros m Hok Hm Wv Ov Av;
    rewrite hash_memo_eq; destruct (mfind _ m) as [h|] eqn:Hf;
    try (unfold post; cbn [fst snd]; split; [eapply hit_sound; eauto|auto]; fail).
  - cbn [memo_body]. apply (finish (VAtom a) m); auto.
  - cbn [memo_body].
    assert (Hx : forall x, In x xs -> wf x = true /\ order_ok o x = true /\ incl (atoms_of x) L).
    { intros x Hi. cbn [wf] in Wv. rewrite forallb_forall in Wv. repeat split; auto.
      - eapply order_ok_item; eauto.
      - intros a Ha. apply Av. cbn [atoms_of]. apply in_flat_map. eauto. }
    destruct (items_sound xs IH m Hok Hm Hx) as (E & Ok1 & In1).
    destruct (items_memo o xs m) as [hs m1]. cbn [fst snd] in *.
    apply (finish (VList xs) m); auto. subst hs. reflexivity.
  - cbn [memo_body].
    assert (Hx : forall x, In x xs -> wf x = true /\ order_ok o x = true /\ incl (atoms_of x) L).
    { intros x Hi. cbn [wf] in Wv. rewrite forallb_forall in Wv. repeat split; auto.
      - eapply order_ok_item; eauto.
      - intros a Ha. apply Av. cbn [atoms_of]. apply in_flat_map. eauto. }
    destruct (items_sound xs IH m Hok Hm Hx) as (E & Ok1 & In1).
    destruct (items_memo o xs m) as [hs m1]. cbn [fst snd] in *.
    apply (finish (VTuple xs) m); auto. subst hs. reflexivity.
  - cbn [memo_body].
    assert (Hx : forall kv, In kv kvs -> In (fst kv) L /\ wf (snd kv) = true /\ order_ok o (snd kv) = true /\ incl (atoms_of (snd kv)) L).
    { intros kv Hi. cbn [wf] in Wv. apply andb_true_iff in Wv. destruct Wv as [_ Wv].
      rewrite forallb_forall in Wv. repeat split; auto.
      - apply Av. cbn [atoms_of]. apply in_flat_map. exists kv. split; auto. left; auto.
      - eapply order_ok_value; eauto.
      - intros a Ha. apply Av. cbn [atoms_of]. apply in_flat_map. exists kv. split; auto. right; auto. }
    destruct (dict_sound kvs IH m Hok Hm Hx) as (E & Ok1 & In1).
    destruct (dict_memo o kvs m) as [its m1]. cbn [fst snd] in *.
    apply (finish (VDict kvs) m); auto. subst its. rewrite hash_pure_dict. reflexivity.
  - cbn [memo_body].
    destruct (atoms_sound xs m Hok Hm Av) as (E & Ok1 & In1).
    destruct (atoms_memo H o xs m) as [hs m1]. cbn [fst snd] in *.
    apply (finish (VSet xs) m); auto. subst hs. reflexivity.
  - cbn [memo_body].
    destruct (atoms_sound xs m Hok Hm Av) as (E & Ok1 & In1).
    destruct (atoms_memo H o xs m) as [hs m1]. cbn [fst snd] in *.
    apply (finish (VFrozen xs) m); auto. subst hs. reflexivity.
Qed.

End Sound.
End Memo.

(* ------------------------------------------------------------------ *)
(** * Final forms *)

Section Final.
Variable H : pystr -> pystr.

Theorem memo_transparent : forall o m v,
  memo_ok H o m -> wf v = true -> order_ok o v = true -> alias_free_with m v = true ->
  fst (hash_memo H o v m) = hash_pure H o v /\ memo_ok H o (snd (hash_memo H o v m)).
Proof.
  intros o m v Hok Wv Ov Ha. unfold alias_free_with in Ha. apply no_alias_NA in Ha.
  destruct (memo_sound H o _ Ha v m Hok) as (E & Ok & _); auto.
  - apply incl_appl, incl_refl.
  - apply incl_appr, incl_refl.
Qed.

Lemma memo_ok_nil : forall o, memo_ok H o [].
Proof. intros o k h []. Qed.

Corollary deephash_pure : forall o v,
  wf v = true -> order_ok o v = true -> alias_free v = true ->
  deephash H o v = hash_pure H o v.
Proof.
  intros o v Wv Ov Ha. unfold deephash.
  destruct (memo_transparent o [] v (memo_ok_nil o) Wv Ov Ha) as [E _]. exact E.
Qed.

(* hashing v on the table left by hashing w (sharing / pre-seeding) *)
Corollary shared_table_pure : forall o w v,
  wf w = true -> wf v = true -> order_ok o w = true -> order_ok o v = true ->
  no_alias (atoms_of w ++ atoms_of v) = true ->
  deephash_with H o (snd (hash_memo H o w [])) v = hash_pure H o v.
Proof.
  intros o w v Ww Wv Ow Ov Ha. apply no_alias_NA in Ha. unfold deephash_with.
  destruct (memo_sound H o _ Ha w [] (memo_ok_nil o)) as (_ & Ok1 & In1); auto.
  - intros a [].
  - apply incl_appl, incl_refl.
  - destruct (memo_sound H o _ Ha v _ Ok1 In1) as (E & _ & _); auto.
    apply incl_appr, incl_refl.
Qed.

(* C06 on the observable hash (fresh table) *)
Corollary eqv_deephash : forall o a b,
  wf a = true -> wf b = true -> order_ok o a = true -> order_ok o b = true ->
  alias_free a = true -> alias_free b = true ->
  eqv o a b -> deephash H o a = deephash H o b.
Proof.
  intros o a b Wa Wb Oa Ob Aa Ab He. rewrite !deephash_pure; auto. apply eqv_hash; auto.
Qed.

End Final.

(* K2: without the guard the table makes the hash depend on insertion order ... *)
Lemma memo_refuted :
  let a := VDict [(AStr (s2p "a"), VAtom (AHalf 0)); (AInt 0, VAtom (AHalf 1))] in
  let b := VDict [(AInt 0, VAtom (AHalf 1)); (AStr (s2p "a"), VAtom (AHalf 0))] in
  eqv default_opts a b /\ wf a = true /\ wf b = true /\
  deephash hexhash default_opts a <> deephash hexhash default_opts b.
Proof.
  cbv zeta. split; [|split; [reflexivity|split; [reflexivity|]]].
  - apply eqv_dict_perm. apply perm_swap.
  - vm_compute. intro E. discriminate E.
Qed.

(* ... and lets two different values share a hash (C07) *)
Lemma memo_collision_refuted :
  let a := VList [VAtom (AInt 1); VAtom (AHalf 2)] in
  let b := VList [VAtom (AInt 1)] in
  deephash hexhash default_opts a = deephash hexhash default_opts b /\ ~ eqv default_opts a b.
Proof.
  cbv zeta. split; [vm_compute; reflexivity|].
  intro He. inversion He; subst.
  match goal with Hs : seq_rel _ _ _ _ |- _ => inversion Hs; subst end; try discriminate.
  match goal with H1 : forall x, In x (_ :: _ :: _) -> _ |- _ =>
    destruct (H1 (VAtom (AHalf 2))) as [y [Hy Hxy]]; [right; left; reflexivity|] end.
  destruct Hy as [<-|[]]. inversion Hxy.
Qed.

Example alias_free_example :
  let v := VList [VDict [(AStr (s2p "a"), VTuple [VAtom (AInt 1); VAtom (AHalf 3)]); (AInt 2, VFrozen [ANone; ABool false])];
                  VTuple [VAtom (AInt 1)]; VTuple [VAtom (AInt 1)]] in
  alias_free v = true /\ wf v = true /\ alias_free_with (snd (hash_memo hexhash default_opts v [])) v = true.
Proof. vm_compute. auto. Qed.

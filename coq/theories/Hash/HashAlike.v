(** When do two values hash alike?  A decidable relation [heqb o a b], written
    without reference to the hash model, that the proofs (HashProofsAlike.v)
    show to be EXACTLY hash equality in every one of the four
    (ignore_repetition, ignore_iterable_order) combinations - in particular in
    the mode ignore_iterable_order=False, where it is strictly coarser than
    ordered equality on lists (K4: only the first-occurrence count table of the
    items is kept) and strictly finer than set equality on sets (K3: the
    iteration order of a set is kept).

    Also [eqvi o]: equal content in the sense of Equiv.eqv, except that with
    ignore_iterable_order=False two sets / frozensets must be given in the same
    iteration order.  It is the weakest "same content" condition under which
    the hashes agree in that mode (C06).

    Definitions only. *)
From Coq Require Import List Bool Arith Permutation.
Import ListNotations.
From DD Require Import Base.PyStr Base.Value Hash.HashModel Hash.Equiv.

(* ------------------------------------------------------------------ *)
(** * Comparing two sequences of class indices, per mode *)

Fixpoint ndedup (l : list nat) : list nat :=
  match l with
  | [] => []
  | x :: r => x :: filter (fun y => negb (Nat.eqb x y)) (ndedup r)
  end.
Definition ncount (x : nat) (l : list nat) : nat := List.length (filter (Nat.eqb x) l).
(* first-occurrence count table *)
Definition ncounts (l : list nat) : list (nat * nat) := map (fun i => (i, ncount i l)) (ndedup l).

Fixpoint nlist_eqb (a b : list nat) : bool :=
  match a, b with
  | [], [] => true
  | x :: a', y :: b' => Nat.eqb x y && nlist_eqb a' b'
  | _, _ => false
  end.
Fixpoint ntab_eqb (a b : list (nat * nat)) : bool :=
  match a, b with
  | [], [] => true
  | (x, c) :: a', (y, d) :: b' => Nat.eqb x y && Nat.eqb c d && ntab_eqb a' b'
  | _, _ => false
  end.
Definition nmem (x : nat) (l : list nat) : bool := existsb (Nat.eqb x) l.

(* the same set of classes *)
Definition set_cmp (l1 l2 : list nat) : bool :=
  forallb (fun x => nmem x l2) l1 && forallb (fun y => nmem y l1) l2.
(* the same multiset of classes *)
Definition mset_cmp (l1 l2 : list nat) : bool :=
  forallb (fun x => Nat.eqb (ncount x l1) (ncount x l2)) (l1 ++ l2).
(* the same classes in the same order of first occurrence *)
Definition dord_cmp (l1 l2 : list nat) : bool := nlist_eqb (ndedup l1) (ndedup l2).
(* the same classes in the same order of first occurrence, each the same number of times *)
Definition tab_cmp (l1 l2 : list nat) : bool := ntab_eqb (ncounts l1) (ncounts l2).

Definition seq_cmp (o : hopts) (l1 l2 : list nat) : bool :=
  if ignore_iterable_order o then (if ignore_repetition o then set_cmp l1 l2 else mset_cmp l1 l2)
  else (if ignore_repetition o then dord_cmp l1 l2 else tab_cmp l1 l2).

(* position of the first element satisfying p (the length when there is none) *)
Fixpoint find_idx {A : Type} (p : A -> bool) (l : list A) : nat :=
  match l with
  | [] => 0
  | x :: r => if p x then 0 else S (find_idx p r)
  end.
(* class of z among the items xs with respect to e: index of the first x with e x z *)
Definition cidx {A B : Type} (e : A -> B -> bool) (xs : list A) (z : B) : nat :=
  find_idx (fun x => e x z) xs.
(* two sequences compared through the classes of the first one *)
Definition seq_alike {A : Type} (o : hopts) (e : A -> A -> bool) (xs ys : list A) : bool :=
  seq_cmp o (map (cidx e xs) xs) (map (cidx e xs) ys).
Definition mset_alike {A : Type} (e : A -> A -> bool) (xs ys : list A) : bool :=
  mset_cmp (map (cidx e xs) xs) (map (cidx e xs) ys).

(* ------------------------------------------------------------------ *)
(** * The relation *)

Section Alike.
Variable o : hopts.

(* scalars: same type and value.  list / tuple: the class sequences of the
   items agree as the mode says (classes = items that are alike).  dict: the
   same multiset of (key, class of the value) over the visible items.
   set / frozenset: the member sequences (in iteration order) agree as the
   mode says. *)
Fixpoint heqb (a b : value) {struct a} : bool :=
  match a, b with
  | VAtom x, VAtom y => atom_eqb x y
  | VList xs, VList ys | VTuple xs, VTuple ys =>
      let idx := fun z : value =>
        (fix go (l : list value) : nat :=
           match l with
           | [] => 0
           | x :: r => if heqb x z then 0 else S (go r)
           end) xs in
      seq_cmp o (map idx xs) (map idx ys)
  | VDict kvs, VDict kvs' =>
      let idx := fun kz : atom * value =>
        (fix go (l : list (atom * value)) : nat :=
           match l with
           | [] => 0
           | (k, x) :: r =>
               if hidden o k then go r
               else if atom_eqb k (fst kz) && heqb x (snd kz) then 0 else S (go r)
           end) kvs in
      mset_cmp (map idx (vis o kvs)) (map idx (vis o kvs'))
  | VSet xs, VSet ys | VFrozen xs, VFrozen ys => seq_alike o atom_eqb xs ys
  | _, _ => false
  end.

(* the guard that makes [heqb] ordered equality again (K4): no list / tuple
   holds two items that are alike *)
Fixpoint nodupn (l : list nat) : bool :=
  match l with
  | [] => true
  | x :: r => negb (nmem x r) && nodupn r
  end.
Fixpoint norep (v : value) : bool :=
  match v with
  | VAtom _ => true
  | VList xs | VTuple xs =>
      nodupn (map (cidx heqb xs) xs) && forallb norep xs
  | VDict kvs => forallb (fun kv => norep (snd kv)) kvs
  | VSet _ | VFrozen _ => true
  end.

End Alike.

(* ------------------------------------------------------------------ *)
(** * Equal content, sets in the same iteration order when the order counts *)

Section Eqvi.
Variable o : hopts.

Definition members_rel (xs ys : list atom) : Prop :=
  if ignore_iterable_order o then Permutation xs ys else xs = ys.

Inductive eqvi : value -> value -> Prop :=
| eqvi_atom a : eqvi (VAtom a) (VAtom a)
| eqvi_list xs ys : seq_rel o eqvi xs ys -> eqvi (VList xs) (VList ys)
| eqvi_tuple xs ys : seq_rel o eqvi xs ys -> eqvi (VTuple xs) (VTuple ys)
| eqvi_dict kvs kvs' : items_rel eqvi (vis o kvs) (vis o kvs') -> eqvi (VDict kvs) (VDict kvs')
| eqvi_set xs ys : members_rel xs ys -> eqvi (VSet xs) (VSet ys)
| eqvi_frozen xs ys : members_rel xs ys -> eqvi (VFrozen xs) (VFrozen ys).

End Eqvi.

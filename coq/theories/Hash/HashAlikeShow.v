(** Correspondence-side renderings for the exact relation [heqb] (no theorem depends on this file):
    the partition of a pool into classes of alike values, and the input-level guard [norep]. *)
From Coq Require Import List ZArith NArith Bool String.
Import ListNotations.
From DD Require Import Base.Sx Base.PyStr Base.Value Hash.HashModel Hash.HashAlike.
Local Open Scope string_scope.

Fixpoint first_alike (o : hopts) (x : value) (l : list value) (i : nat) : nat :=
  match l with
  | [] => i
  | y :: r => if heqb o y x then i else first_alike o x r (S i)
  end.
(* for each element the index of the first element it is alike to *)
Definition run_classes_alike (o : hopts) (vs : list value) : sx :=
  SL (map (fun v => sx_nat (first_alike o v vs 0)) vs).
Definition run_norep (o : hopts) (vs : list value) : sx :=
  SL (map (fun v => sx_bool (norep o v)) vs).

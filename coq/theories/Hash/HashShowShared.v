(** Correspondence-side rendering for values in which ONE OBJECT occurs at several positions (no theorem depends on
    this file).  The model sees the unfolded tree; the implementation looks the table up by the object itself (a
    TypeError for an unhashable one: it is computed again at every position) and writes an unhashable object under its
    id (one entry per object, written again at every visit).  So, for such inputs: the root hashes and the ==-keyed
    entries agree in insertion order, and the model's id-keyed entries are the implementation's, each repeated once per
    visit of its object - compared as sorted lists (the harness repeats the implementation's entries). *)
From Coq Require Import List ZArith NArith Bool String.
Import ListNotations.
From DD Require Import Base.Sx Base.PyStr Base.Value Hash.HashModel Hash.HashShow.

Definition is_MK (e : mkey * pystr) : bool := match fst e with MK _ => true | MI _ => false end.
Definition sx_entry (e : mkey * pystr) : sx := SL [sx_mkey (fst e); sx_str (snd e)].

(* successive DeepHash calls sharing one table: [root hashes; ==-keyed entries in insertion order; id-keyed entries sorted] *)
Definition run_chain_split (o : hopts) (vs : list value) : sx :=
  let r := chain o vs [] in
  SL [SL (map sx_str (fst r));
      SL (map sx_entry (filter is_MK (snd r)));
      SL (sx_sort (map sx_entry (filter (fun e => negb (is_MK e)) (snd r))))].

(** exclude_paths / include_paths in the order-insensitive modes: when does the exclusion predicate of a
    configuration "ignore indices"?  Sufficient, every mode and every configuration: no listed path has a component
    that an index can match - a sequence index, or a non-negative int key (the code spells both "[n]")
    ([skip_this_blind_ok]).  Exact for a configuration that consists of one excluded path: the hypothesis of
    C06_extended_eqvi_hash holds IF AND ONLY IF that path is blind ([single_path_exact]). *)
From Coq Require Import List ZArith NArith Bool Lia Arith String.
Import ListNotations.
From DD Require Import Base.PyStr Base.Value Base.ValueFacts Hash.HashModel Hash.HashXModel Hash.HashXEquiv Hash.HashXProofsEqv.

Definition key_blind (k : xkey) : bool :=
  match k with
  | KIdx _ => false
  | KKey (XA (AInt z)) => Z.ltb z 0
  | _ => true
  end.
Definition path_blind (p : xpath) : bool := forallb key_blind p.
Definition cfg_blind (c : skip_cfg) : bool :=
  forallb path_blind (exclude_paths c) && forallb path_blind (include_paths c).

Lemma xkey_eqb_blind : forall a b k, ksim a b -> key_blind k = true ->
  xkey_eqb a k = xkey_eqb b k /\ xkey_eqb k a = xkey_eqb k b.
Proof.
  intros a b k [->|(i & j & -> & ->)] Hk; [auto|].
  destruct k as [[[| | z | | |]|l]|n|s]; cbn in Hk |- *; try discriminate Hk; auto.
  apply Z.ltb_lt in Hk. split.
  - replace (Z.eqb z (Z.of_nat i)) with false by (symmetry; apply Z.eqb_neq; lia).
    replace (Z.eqb z (Z.of_nat j)) with false by (symmetry; apply Z.eqb_neq; lia). reflexivity.
  - replace (Z.eqb z (Z.of_nat i)) with false by (symmetry; apply Z.eqb_neq; lia).
    replace (Z.eqb z (Z.of_nat j)) with false by (symmetry; apply Z.eqb_neq; lia). reflexivity.
Qed.

Lemma xpath_eqb_blind : forall p q e, Forall2 ksim p q -> path_blind e = true -> xpath_eqb p e = xpath_eqb q e.
Proof.
  intros p q e HF. revert e. induction HF as [|a b p q Hab HF IH]; intros e He; [reflexivity|].
  destruct e as [|k e]; [reflexivity|]. cbn [path_blind forallb] in He. apply andb_true_iff in He. destruct He as [Hk He].
  cbn [xpath_eqb]. rewrite (proj1 (xkey_eqb_blind a b k Hab Hk)), (IH e He). reflexivity.
Qed.

Lemma xpath_prefix_blind : forall p q e, Forall2 ksim p q -> path_blind e = true -> xpath_prefix e p = xpath_prefix e q.
Proof.
  intros p q e HF. revert e. induction HF as [|a b p q Hab HF IH]; intros e He; [reflexivity|].
  destruct e as [|k e]; [reflexivity|]. cbn [path_blind forallb] in He. apply andb_true_iff in He. destruct He as [Hk He].
  cbn [xpath_prefix]. rewrite (proj2 (xkey_eqb_blind a b k Hab Hk)), (IH e He). reflexivity.
Qed.

Lemma existsb_ext_in : forall (A : Type) (f g : A -> bool) l, (forall x, In x l -> f x = g x) -> existsb f l = existsb g l.
Proof.
  intros A f g l Hi. induction l as [|x l IH]; [reflexivity|]. cbn [existsb]. rewrite Hi by (left; auto).
  rewrite IH; auto. intros; apply Hi; right; auto.
Qed.

Theorem skip_this_blind_ok : forall o c, cfg_blind c = true ->
  forall p q a b, psim o p q -> xeqvi o a b -> skip_this c p a = skip_this c q b.
Proof.
  intros o c Hc p q a b Hps He. rewrite <- (skip_this_same_path o c q a b He).
  unfold psim in Hps. destruct (ignore_iterable_order o); [|subst; reflexivity].
  unfold cfg_blind in Hc. apply andb_true_iff in Hc. destruct Hc as [Hex Hin]. rewrite forallb_forall in Hex, Hin.
  unfold skip_this.
  assert (E1 : existsb (xpath_eqb p) (exclude_paths c) = existsb (xpath_eqb q) (exclude_paths c))
    by (apply existsb_ext_in; intros e Hi; apply xpath_eqb_blind; auto).
  assert (E2 : existsb (xpath_eqb p) (include_paths c) = existsb (xpath_eqb q) (include_paths c))
    by (apply existsb_ext_in; intros e Hi; apply xpath_eqb_blind; auto).
  assert (E3 : existsb (fun e => xpath_prefix e p) (include_paths c) = existsb (fun e => xpath_prefix e q) (include_paths c))
    by (apply existsb_ext_in; intros e Hi; apply xpath_prefix_blind; auto).
  rewrite E1, E2, E3. destruct Hps; reflexivity.
Qed.

(* ---- exactness for one excluded path ---- *)

Lemma xleaf_eqb_refl : forall l, xleaf_eqb l l = true.
Proof.
  intros [y m d|us off|s|us|n c e|s]; cbn; rewrite ?Z.eqb_refl, ?N.eqb_refl, ?Bool.eqb_reflx, ?pystr_eqb_refl; auto.
  destruct off; rewrite ?Z.eqb_refl; reflexivity.
Qed.
Lemma xkey_eqb_refl : forall k, xkey_eqb k k = true.
Proof.
  intros [[a|l]|i|s]; cbn.
  - destruct a; cbn; rewrite ?atom_eqb_refl, ?Z.eqb_refl, ?pystr_eqb_refl; auto. destruct b; reflexivity.
  - apply xleaf_eqb_refl.
  - apply Nat.eqb_refl.
  - apply pystr_eqb_refl.
Qed.
Lemma xpath_eqb_refl : forall p, xpath_eqb p p = true.
Proof. induction p as [|k p IH]; [reflexivity|]. cbn. rewrite xkey_eqb_refl, IH. reflexivity. Qed.

Lemma xpath_eqb_mid : forall pre a b post,
  xpath_eqb (pre ++ a :: post) (pre ++ b :: post) = xkey_eqb a b.
Proof.
  induction pre as [|k pre IH]; intros a b post; cbn [app xpath_eqb].
  - rewrite xpath_eqb_refl. apply andb_true_r.
  - rewrite xkey_eqb_refl. apply IH.
Qed.

Lemma not_blind_split : forall e, path_blind e = false -> exists pre k post, e = pre ++ k :: post /\ key_blind k = false.
Proof.
  induction e as [|k e IH]; cbn; [discriminate|]. destruct (key_blind k) eqn:E; cbn.
  - intro Hb. destruct (IH Hb) as (pre & k' & post & -> & Hk). exists (k :: pre), k', post. auto.
  - intros _. exists [], k, e. auto.
Qed.

Theorem single_path_exact : forall o e, ignore_iterable_order o = true ->
  ((forall p q a b, psim o p q -> xeqvi o a b ->
      skip_this (mk_skip [e] [] [] []) p a = skip_this (mk_skip [e] [] [] []) q b)
   <-> path_blind e = true).
Proof.
  intros o e Hio. split.
  - intro Hs. destruct (path_blind e) eqn:Hb; auto. exfalso.
    destruct (not_blind_split e Hb) as (pre & k & post & -> & Hk).
    (* an index that matches k, and another one that does not *)
    assert (Hw : exists i j, xkey_eqb (KIdx i) k = true /\ xkey_eqb (KIdx j) k = false).
    { destruct k as [[[| | z | | |]|l]|n|s]; cbn in Hk; try discriminate Hk.
      - apply Z.ltb_ge in Hk. exists (Z.to_nat z), (S (Z.to_nat z)). cbn. split.
        + apply Z.eqb_eq. lia.
        + apply Z.eqb_neq. lia.
      - exists n, (S n). split; [exact (Nat.eqb_refl n)|exact (proj2 (Nat.eqb_neq (S n) n) (Nat.neq_succ_diag_l n))]. }
    destruct Hw as (i & j & Hi & Hj).
    specialize (Hs (pre ++ KIdx i :: post) (pre ++ KIdx j :: post) (XAtom (XA ANone)) (XAtom (XA ANone))).
    unfold skip_this in Hs. cbn [exclude_paths include_paths exclude_types exclude_ints existsb] in Hs.
    rewrite !xpath_eqb_mid, Hi, Hj in Hs. cbn in Hs.
    assert (Hps : psim o (pre ++ KIdx i :: post) (pre ++ KIdx j :: post)).
    { unfold psim. rewrite Hio. apply Forall2_app.
      - clear. induction pre; constructor; auto. left; auto.
      - constructor; [right; eauto|]. clear. induction post; constructor; auto. left; auto. }
    specialize (Hs Hps (xeqvi_refl o _)). discriminate Hs.
  - intros Hb. apply skip_this_blind_ok. unfold cfg_blind. cbn. rewrite Hb. reflexivity.
Qed.

(** C06: equal content hashes equally.  [eqv o a b -> hash_pure a = hash_pure b]
    for an arbitrary hasher (no hypothesis on H is needed in this direction),
    the named permutation corollaries, and the K3 refutation. *)
From Coq Require Import List ZArith NArith Bool Lia Permutation Arith String.
Import ListNotations.
From DD Require Import Base.PyStr Base.Value Hash.HashModel Hash.Equiv Hash.HashProofsBase.

(* ------------------------------------------------------------------ *)
(** * Induction principle for nested values *)

Section ValueInd.
Variable P : value -> Prop.
Hypothesis P_atom : forall a, P (VAtom a).
Hypothesis P_list : forall xs, Forall P xs -> P (VList xs).
Hypothesis P_tuple : forall xs, Forall P xs -> P (VTuple xs).
Hypothesis P_dict : forall kvs, Forall (fun kv => P (snd kv)) kvs -> P (VDict kvs).
Hypothesis P_set : forall xs, P (VSet xs).
Hypothesis P_frozen : forall xs, P (VFrozen xs).

Fixpoint value_ind' (v : value) : P v :=
  match v with
  | VAtom a => P_atom a
  | VList xs => P_list xs ((fix go (l : list value) : Forall P l :=
                              match l with
                              | [] => Forall_nil P
                              | x :: r => Forall_cons x (value_ind' x) (go r)
                              end) xs)
  | VTuple xs => P_tuple xs ((fix go (l : list value) : Forall P l :=
                                match l with
                                | [] => Forall_nil P
                                | x :: r => Forall_cons x (value_ind' x) (go r)
                                end) xs)
  | VDict kvs => P_dict kvs ((fix go (l : list (atom * value)) : Forall (fun kv => P (snd kv)) l :=
                                match l with
                                | [] => Forall_nil _
                                | kv :: r => Forall_cons kv (value_ind' (snd kv)) (go r)
                                end) kvs)
  | VSet xs => P_set xs
  | VFrozen xs => P_frozen xs
  end.
End ValueInd.

(* ------------------------------------------------------------------ *)
(** * Equations of the model *)

Section Facts.
Variable H : pystr -> pystr.

Lemma dict_items_eq : forall o kvs,
  (fix go (kvs : list (atom * value)) : list pystr :=
     match kvs with
     | [] => []
     | (k, x) :: r =>
         if hidden o k then go r
         else dict_item (hash_atom H o k) (hash_pure H o x) :: go r
     end) kvs
  = map (fun kv => dict_item (hash_atom H o (fst kv)) (hash_pure H o (snd kv))) (vis o kvs).
Proof.
  intros o kvs. unfold vis. induction kvs as [|[k x] r IH]; cbn [filter map fst snd]; auto.
  destruct (hidden o k); cbn [negb map fst snd]; rewrite IH; reflexivity.
Qed.

Lemma hash_pure_ser : forall o v, hash_pure H o v = H (ser H o v).
Proof.
  intros o v. destruct v; cbn [hash_pure ser]; auto.
  rewrite dict_items_eq. reflexivity.
Qed.

Lemma hash_pure_dict : forall o kvs,
  hash_pure H o (VDict kvs) =
  H (retag o (dict_result (map (fun kv => dict_item (hash_atom H o (fst kv)) (hash_pure H o (snd kv))) (vis o kvs)))).
Proof. intros. rewrite hash_pure_ser. reflexivity. Qed.

(* ------------------------------------------------------------------ *)
(** * arrange *)

Lemma arrange_perm : forall o l1 l2,
  ignore_iterable_order o = true -> Permutation l1 l2 -> arrange o l1 = arrange o l2.
Proof.
  intros o l1 l2 Hio Hp. unfold arrange. rewrite Hio.
  apply isort_perm_eq. destruct (ignore_repetition o).
  - apply dedup_same_set. intro x; split; apply Permutation_in; auto using Permutation_sym.
  - apply Permutation_map, counts_perm, Hp.
Qed.

Lemma arrange_same_set : forall o l1 l2,
  ignore_iterable_order o = true -> ignore_repetition o = true ->
  (forall x, In x l1 <-> In x l2) -> arrange o l1 = arrange o l2.
Proof.
  intros o l1 l2 Hio Hir Hs. unfold arrange. rewrite Hio, Hir.
  apply isort_perm_eq, dedup_same_set, Hs.
Qed.

Lemma Forall2_map_eq : forall (A B : Type) (f : A -> B) (R : A -> A -> Prop) xs ys,
  Forall2 R xs ys -> (forall x y, In x xs -> R x y -> f x = f y) -> map f xs = map f ys.
Proof.
  intros A B f R xs ys HF. induction HF as [|x y xs ys Hxy HF IH]; intros Hf; cbn; auto.
  f_equal.
  - apply Hf; auto. left; auto.
  - apply IH. intros; apply Hf; auto. right; auto.
Qed.

(* the item hashes of two related sequences are arranged identically *)
Lemma arrange_seq_rel : forall o (R : value -> value -> Prop) (f : value -> pystr) xs ys,
  seq_rel o R xs ys ->
  (forall x y, In x xs -> R x y -> f x = f y) ->
  arrange o (map f xs) = arrange o (map f ys).
Proof.
  intros o R f xs ys Hr Hf. destruct Hr as [xs ys Hir Hio H1 H2|xs ys ys' Hir Hio Hp HF|xs ys Hio HF].
  - apply arrange_same_set; auto. intro h. rewrite !in_map_iff. split.
    + intros [x [<- Hi]]. destruct (H1 x Hi) as [y [Hy Hxy]]. exists y. split; auto.
      symmetry. apply Hf; auto.
    + intros [y [<- Hi]]. destruct (H2 y Hi) as [x [Hx Hxy]]. exists x. split; auto.
  - rewrite (Forall2_map_eq _ _ f R xs ys' HF Hf).
    apply arrange_perm; auto. apply Permutation_map, Permutation_sym, Hp.
  - rewrite (Forall2_map_eq _ _ f R xs ys HF Hf). reflexivity.
Qed.

Lemma items_rel_map : forall (R : value -> value -> Prop) (g : atom * value -> pystr) l1 l2,
  items_rel R l1 l2 ->
  (forall p q, In p l1 -> fst p = fst q -> R (snd p) (snd q) -> g p = g q) ->
  Permutation (map g l1) (map g l2).
Proof.
  intros R g l1 l2 Hr Hg. destruct Hr as [l1 l2 l2' Hp HF].
  eapply perm_trans; [|apply Permutation_map, Permutation_sym, Hp].
  assert (Hm : map g l1 = map g l2').
  { clear Hp. induction HF as [|p q l1 l2' [Hk Hv] HF IHF]; cbn [map]; auto. f_equal.
    - apply Hg; auto. left; auto.
    - apply IHF. intros; apply Hg; auto. right; auto. }
  rewrite Hm. apply Permutation_refl.
Qed.

(* ------------------------------------------------------------------ *)
(** * The main theorem *)

Definition order_ok (o : hopts) (v : value) : bool := ignore_iterable_order o || small_sets v.

Lemma small_perm_eq : forall (A : Type) (xs ys : list A),
  Nat.leb (List.length xs) 1 = true -> Permutation xs ys -> xs = ys.
Proof.
  intros A xs ys Hl Hp. apply Nat.leb_le in Hl.
  destruct xs as [|x [|x' xs]]; cbn in Hl; try lia.
  - apply Permutation_nil in Hp. auto.
  - apply Permutation_length_1_inv in Hp. auto.
Qed.

Lemma set_tokens_eq : forall o (f : atom -> pystr) xs ys,
  ignore_iterable_order o = true \/ Nat.leb (List.length xs) 1 = true ->
  Permutation xs ys -> arrange o (map f xs) = arrange o (map f ys).
Proof.
  intros o f xs ys [Hio|Hs] Hp.
  - apply arrange_perm; auto. apply Permutation_map; auto.
  - rewrite (small_perm_eq _ xs ys Hs Hp). reflexivity.
Qed.

Lemma order_ok_split : forall o v,
  order_ok o v = true -> ignore_iterable_order o = true \/ small_sets v = true.
Proof. unfold order_ok. intros o v Hk. apply orb_true_iff in Hk. exact Hk. Qed.

Theorem eqv_hash : forall o a b,
  order_ok o a = true -> eqv o a b -> hash_pure H o a = hash_pure H o b.
Proof.
  intros o a. induction a as [a|xs IH|xs IH|kvs IH|xs|xs] using value_ind'; intros b Hok He; inversion He; subst.
  - reflexivity.
  - cbn [hash_pure]. do 3 f_equal.
    eapply arrange_seq_rel; [eassumption|].
    intros x y Hi Hxy. rewrite Forall_forall in IH. apply IH; auto.
    apply order_ok_split in Hok. unfold order_ok. destruct Hok as [->|Hs]; auto.
    cbn [small_sets] in Hs. rewrite forallb_forall in Hs. rewrite (Hs x Hi). apply orb_true_r.
  - cbn [hash_pure]. do 3 f_equal.
    eapply arrange_seq_rel; [eassumption|].
    intros x y Hi Hxy. rewrite Forall_forall in IH. apply IH; auto.
    apply order_ok_split in Hok. unfold order_ok. destruct Hok as [->|Hs]; auto.
    cbn [small_sets] in Hs. rewrite forallb_forall in Hs. rewrite (Hs x Hi). apply orb_true_r.
  - rewrite !hash_pure_dict.
    match goal with Hi : items_rel _ _ _ |- _ => rename Hi into Hit end.
    assert (Hs : forall g g' : atom * value -> pystr, g = g' ->
                 g = (fun kv => dict_item (hash_atom H o (fst kv)) (hash_pure H o (snd kv))) ->
                 isort (map g (vis o kvs)) = isort (map g' (vis o kvs'))).
    { intros g g' <- Hg. apply isort_perm_eq. eapply items_rel_map; [exact Hit|].
      intros p q Hi Hk Hv. subst g. cbn beta. rewrite Hk. f_equal.
      assert (Hin : In p kvs) by (unfold vis in Hi; apply filter_In in Hi; tauto).
      rewrite Forall_forall in IH. apply (IH p); auto.
      apply order_ok_split in Hok. unfold order_ok. destruct Hok as [->|Hs]; auto.
      cbn [small_sets] in Hs. rewrite forallb_forall in Hs.
      rewrite (Hs p Hin). apply orb_true_r. }
    unfold dict_result. rewrite (Hs _ _ eq_refl eq_refl). reflexivity.
  - cbn [hash_pure]. do 3 f_equal. apply set_tokens_eq; auto.
    apply order_ok_split in Hok. destruct Hok; auto.
  - cbn [hash_pure]. do 3 f_equal. apply set_tokens_eq; auto.
    apply order_ok_split in Hok. destruct Hok; auto.
Qed.

(* ------------------------------------------------------------------ *)
(** * eqv is reflexive; permutations are equivalences *)

Lemma Forall2_refl_in : forall (A : Type) (R : A -> A -> Prop) xs,
  (forall x, In x xs -> R x x) -> Forall2 R xs xs.
Proof.
  intros A R xs; induction xs as [|x xs IH]; intro Hr; constructor.
  - apply Hr; left; auto.
  - apply IH. intros; apply Hr; right; auto.
Qed.

Lemma Forall2_in_l : forall (A B : Type) (R : A -> B -> Prop) xs ys x,
  Forall2 R xs ys -> In x xs -> exists y, In y ys /\ R x y.
Proof.
  intros A B R xs ys x HF. induction HF as [|a b xs ys Hab HF IH]; intros Hi; [destruct Hi|].
  destruct Hi as [->|Hi].
  - exists b. split; auto. left; auto.
  - destruct (IH Hi) as [y [Hy Hr]]. exists y. split; auto. right; auto.
Qed.

Lemma Forall2_in_r : forall (A B : Type) (R : A -> B -> Prop) xs ys y,
  Forall2 R xs ys -> In y ys -> exists x, In x xs /\ R x y.
Proof.
  intros A B R xs ys y HF. induction HF as [|a b xs ys Hab HF IH]; intros Hi; [destruct Hi|].
  destruct Hi as [->|Hi].
  - exists a. split; auto. left; auto.
  - destruct (IH Hi) as [x [Hx Hr]]. exists x. split; auto. right; auto.
Qed.

Lemma seq_rel_of_Forall2 : forall o (R : value -> value -> Prop) xs ys,
  Forall2 R xs ys -> seq_rel o R xs ys.
Proof.
  intros o R xs ys HF.
  destruct (ignore_iterable_order o) eqn:Hio; [|apply seq_ordered; auto].
  destruct (ignore_repetition o) eqn:Hir.
  - apply seq_as_set; auto.
    + intros x Hi. destruct (Forall2_in_l _ _ _ _ _ _ HF Hi) as [y [Hy Hxy]]. eauto.
    + intros y Hi. destruct (Forall2_in_r _ _ _ _ _ _ HF Hi) as [x [Hx Hxy]]. eauto.
  - eapply seq_as_multiset; eauto.
Qed.

Lemma seq_rel_of_perm : forall o (R : value -> value -> Prop) xs ys,
  ignore_iterable_order o = true -> (forall x, In x xs -> R x x) ->
  Permutation xs ys -> seq_rel o R xs ys.
Proof.
  intros o R xs ys Hio Hr Hp.
  destruct (ignore_repetition o) eqn:Hir.
  - apply seq_as_set; auto.
    + intros x Hi. exists x. split; auto. eapply Permutation_in; eauto.
    + intros y Hi. assert (In y xs) by (eapply Permutation_in; [apply Permutation_sym|]; eauto).
      exists y. split; auto.
  - apply (seq_as_multiset o R xs ys xs); auto using Permutation_sym.
    apply Forall2_refl_in; auto.
Qed.

Lemma eqv_refl : forall o v, eqv o v v.
Proof.
  intros o v. induction v as [a|xs IH|xs IH|kvs IH|xs|xs] using value_ind'.
  - constructor.
  - constructor. apply seq_rel_of_Forall2, Forall2_refl_in. rewrite Forall_forall in IH. auto.
  - constructor. apply seq_rel_of_Forall2, Forall2_refl_in. rewrite Forall_forall in IH. auto.
  - constructor. eapply items_perm; [apply Permutation_refl|].
    apply Forall2_refl_in. intros kv Hi. split; auto.
    rewrite Forall_forall in IH. apply IH. unfold vis in Hi. apply filter_In in Hi. tauto.
  - constructor. apply Permutation_refl.
  - constructor. apply Permutation_refl.
Qed.

Lemma filter_perm : forall (A : Type) (p : A -> bool) l1 l2,
  Permutation l1 l2 -> Permutation (filter p l1) (filter p l2).
Proof.
  intros A p l1 l2 Hp. induction Hp; cbn.
  - constructor.
  - destruct (p x); auto.
  - destruct (p x), (p y); auto using perm_swap.
  - eapply perm_trans; eauto.
Qed.

Lemma eqv_dict_perm : forall o kvs kvs', Permutation kvs kvs' -> eqv o (VDict kvs) (VDict kvs').
Proof.
  intros o kvs kvs' Hp. constructor.
  eapply items_perm; [apply filter_perm, Permutation_sym, Hp|].
  apply Forall2_refl_in. intros kv _. split; auto. apply eqv_refl.
Qed.

Lemma eqv_list_perm : forall o xs ys,
  ignore_iterable_order o = true -> Permutation xs ys -> eqv o (VList xs) (VList ys).
Proof. intros. constructor. apply seq_rel_of_perm; auto. intros; apply eqv_refl. Qed.

Lemma eqv_tuple_perm : forall o xs ys,
  ignore_iterable_order o = true -> Permutation xs ys -> eqv o (VTuple xs) (VTuple ys).
Proof. intros. constructor. apply seq_rel_of_perm; auto. intros; apply eqv_refl. Qed.

(* the named corollaries of the property *)
Corollary dict_order_hash : forall o kvs kvs',
  order_ok o (VDict kvs) = true -> Permutation kvs kvs' ->
  hash_pure H o (VDict kvs) = hash_pure H o (VDict kvs').
Proof. intros. apply eqv_hash; auto. apply eqv_dict_perm; auto. Qed.

Corollary set_order_hash : forall o xs ys,
  ignore_iterable_order o = true -> Permutation xs ys ->
  hash_pure H o (VSet xs) = hash_pure H o (VSet ys) /\
  hash_pure H o (VFrozen xs) = hash_pure H o (VFrozen ys).
Proof.
  intros o xs ys Hio Hp. split; apply eqv_hash; try (constructor; auto);
    unfold order_ok; rewrite Hio; reflexivity.
Qed.

Corollary seq_order_hash : forall o xs ys,
  ignore_iterable_order o = true -> Permutation xs ys ->
  hash_pure H o (VList xs) = hash_pure H o (VList ys) /\
  hash_pure H o (VTuple xs) = hash_pure H o (VTuple ys).
Proof.
  intros o xs ys Hio Hp. split; apply eqv_hash;
    try (unfold order_ok; rewrite Hio; reflexivity).
  - apply eqv_list_perm; auto.
  - apply eqv_tuple_perm; auto.
Qed.

End Facts.

(* ------------------------------------------------------------------ *)
(** * K3: with ignore_iterable_order=False set iteration order leaks *)

Lemma ordered_set_refuted :
  exists a b, eqv ordered_mode a b /\ wf a = true /\ wf b = true /\
              hash_pure hexhash ordered_mode a <> hash_pure hexhash ordered_mode b.
Proof.
  exists (VSet [AInt 0; AInt 8]), (VSet [AInt 8; AInt 0]).
  split; [constructor; apply perm_swap|].
  split; [reflexivity|]. split; [reflexivity|].
  vm_compute. intro E. discriminate E.
Qed.

(* the guard of the ordered-mode theorem is satisfiable by a non-trivial value *)
Example order_ok_example :
  order_ok ordered_mode (VList [VSet [AInt 1]; VDict [(AStr (s2p "a"%string), VTuple [VAtom (AInt 1); VAtom (AInt 1)])]]) = true.
Proof. reflexivity. Qed.

(** Dicts whose KEYS are containers (tuples / frozensets of scalars, nested tuples).  The universe of Base/Value.v
    has scalar keys only; this file gives the hash of one dict with arbitrary hashable keys as [_prep_dict] computes
    it: the key is hashed as a VALUE (by [_hash], with the parents of the dict, never with the entry's own item
    among them), the item likewise, "kh:vh" items sorted and joined.  Definitions only; used by the correspondence
    stream on container keys that share an object with their item (c07.corr_keys). *)
From Coq Require Import List ZArith NArith Bool String.
Import ListNotations.
From DD Require Import Base.Sx Base.PyStr Base.Value Hash.HashModel.

Section KDict.
Variable H : pystr -> pystr.

(* a str key starting with "__" is skipped under ignore_private_variables; a container key never is *)
Definition kprivate (o : hopts) (k : value) : bool :=
  match k with VAtom a => hidden o a | _ => false end.

Definition kdict_hash (o : hopts) (kvs : list (value * value)) : pystr :=
  H (retag o (dict_result
       (map (fun kv => dict_item (hash_pure H o (fst kv)) (hash_pure H o (snd kv)))
            (filter (fun kv => negb (kprivate o (fst kv))) kvs)))).

(* the same dict as the single item of a list, and as the value of a str key *)
Definition kdict_in_list (o : hopts) (kvs : list (value * value)) : pystr :=
  H (retag o (seq_result (s2p "list") (arrange o [kdict_hash o kvs]))).
Definition kdict_under_key (o : hopts) (k : atom) (kvs : list (value * value)) : pystr :=
  H (retag o (dict_result [dict_item (hash_atom H o k) (kdict_hash o kvs)])).
End KDict.

Definition run_kdict (o : hopts) (kvs : list (value * value)) : sx := sx_str (kdict_hash hexhash o kvs).
Definition run_kdict_in_list (o : hopts) (kvs : list (value * value)) : sx := sx_str (kdict_in_list hexhash o kvs).
Definition run_kdict_under_key (o : hopts) (k : atom) (kvs : list (value * value)) : sx :=
  sx_str (kdict_under_key hexhash o k kvs).

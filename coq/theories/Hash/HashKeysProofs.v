(** Dicts with container keys (HashKeys.v): equal content hashes equally for every hasher, and - for an injective
    separator-free hasher, plain options, tag-safe keys and items - two such dicts hash alike IF AND ONLY IF they hold
    the same multiset of (class of key, class of item) ([heqb] on both components): a key is told apart exactly like
    a value. *)
From Coq Require Import List ZArith NArith Bool Lia Permutation Arith String.
Import ListNotations.
From DD Require Import Base.PyStr Base.Value Hash.HashModel Hash.Equiv Hash.HashProofsBase
  Hash.HashProofsC06 Hash.HashProofsC07 Hash.HashAlike Hash.HashProofsAlike Hash.HashKeys.

Definition kvis (o : hopts) (kvs : list (value * value)) : list (value * value) :=
  filter (fun kv => negb (kprivate o (fst kv))) kvs.
Definition kitem (H : pystr -> pystr) (o : hopts) (kv : value * value) : pystr :=
  dict_item (hash_pure H o (fst kv)) (hash_pure H o (snd kv)).
Definition kalike (o : hopts) (p q : value * value) : bool :=
  heqb o (fst p) (fst q) && heqb o (snd p) (snd q).

Section KeysAny.
Variable H : pystr -> pystr.

(* equal content: the visible items up to order, keys and items related by eqvi *)
Theorem kdict_eqvi_hash : forall o l1 l2 l2',
  Permutation (kvis o l2) l2' ->
  Forall2 (fun p q => eqvi o (fst p) (fst q) /\ eqvi o (snd p) (snd q)) (kvis o l1) l2' ->
  kdict_hash H o l1 = kdict_hash H o l2.
Proof.
  intros o l1 l2 l2' Hp HF. unfold kdict_hash. fold (kvis o l1). fold (kvis o l2). do 2 f_equal. unfold dict_result. do 3 f_equal.
  apply isort_perm_eq. eapply perm_trans; [|apply Permutation_map, Permutation_sym, Hp].
  assert (E : map (kitem H o) (kvis o l1) = map (kitem H o) l2').
  { clear Hp. induction HF as [|p q a b [Hk Hv] HF IHF]; [reflexivity|]. cbn [map]. f_equal; auto.
    unfold kitem. rewrite (eqvi_hash H o _ _ Hk), (eqvi_hash H o _ _ Hv). reflexivity. }
  unfold kitem in E. rewrite E. apply Permutation_refl.
Qed.
End KeysAny.

Section KeysInj.
Variable H : pystr -> pystr.
Hypothesis H_tok : forall s, s <> [] -> sepfree (H s).
Hypothesis H_inj : forall s t, H s = H t -> s = t.

Lemma kitem_tok : forall o kv, plain o = true -> kitem H o kv <> [] /\ free 59%N (kitem H o kv).
Proof.
  intros o kv Hp. unfold kitem, dict_item.
  destruct (hash_pure_tok H H_tok o (fst kv) Hp) as (Hne & _ & F59 & _).
  destruct (hash_pure_tok H H_tok o (snd kv) Hp) as (_ & _ & G59 & _).
  split.
  - destruct (hash_pure H o (fst kv)); [congruence|discriminate].
  - rewrite !free_app. repeat split; auto. unfold c_colon. intros [Hi|[]]. discriminate.
Qed.

Lemma kitem_inj : forall o p q, plain o = true -> kitem H o p = kitem H o q ->
  hash_pure H o (fst p) = hash_pure H o (fst q) /\ hash_pure H o (snd p) = hash_pure H o (snd q).
Proof.
  intros o p q Hp He. unfold kitem, dict_item, c_colon in He. cbn [app] in He.
  destruct (hash_pure_tok H H_tok o (fst p) Hp) as (_ & _ & _ & F1 & _).
  destruct (hash_pure_tok H H_tok o (fst q) Hp) as (_ & _ & _ & F2 & _).
  apply (split_sep 58%N) in He; auto.
Qed.

Theorem kdict_alike : forall o l1 l2, plain o = true ->
  (forall kv, In kv (l1 ++ l2) -> tag_safe (fst kv) = true /\ tag_safe (snd kv) = true) ->
  (kdict_hash H o l1 = kdict_hash H o l2 <-> mset_alike (kalike o) (kvis o l1) (kvis o l2) = true).
Proof.
  intros o l1 l2 Hp Hs. unfold kdict_hash. fold (kvis o l1). fold (kvis o l2).
  change (fun kv : value * value => dict_item (hash_pure H o (fst kv)) (hash_pure H o (snd kv))) with (kitem H o).
  assert (Hin : forall kv l, In kv (kvis o l) -> In kv l) by (intros kv l Hi; unfold kvis in Hi; apply filter_In in Hi; tauto).
  rewrite (mset_alike_pos _ (kalike o) (kitem H o) (kvis o l1) (kvis o l2)).
  2:{ intros p q Hpi Hqi.
      assert (Sp : tag_safe (fst p) = true /\ tag_safe (snd p) = true) by (apply Hs, in_or_app; left; eauto).
      assert (Sq : tag_safe (fst q) = true /\ tag_safe (snd q) = true).
      { apply Hs. apply in_app_or in Hqi. apply in_or_app. destruct Hqi; eauto. }
      destruct Sp as [Sp1 Sp2]. destruct Sq as [Sq1 Sq2]. unfold kalike.
      apply (bool_iff_eq (kitem H o p = kitem H o q)); [|rewrite pystr_eqb_eq; tauto].
      rewrite andb_true_iff, <- !(hash_alike H H_tok H_inj o Hp); auto. split.
      - apply kitem_inj; auto.
      - intros [E1 E2]. unfold kitem. rewrite E1, E2. reflexivity. }
  rewrite <- mset_pos. split.
  - intro E. apply H_inj in E. destruct (plain_inv o Hp) as (ir & io & ip & Ho).
    rewrite Ho in E. unfold retag, prep_string, dict_result in E. cbn [ignore_string_type_changes ignore_string_case] in E.
    rewrite <- Ho in E. do 3 apply app_inv_head in E. apply app_inj_tail in E. destruct E as [E _].
    apply isort_eq_perm. apply (join_inj 59%N); auto; apply Forall_isort;
      apply Forall_forall; intros t Hi; apply in_map_iff in Hi; destruct Hi as [a [<- _]]; apply kitem_tok; auto.
  - intro Hperm. unfold dict_result. rewrite (isort_perm_eq _ _ Hperm). reflexivity.
Qed.
End KeysInj.

(* the pair of the round-4 seeded change: the key (1, 2) against the key (2,), same item: not alike, in every mode *)
Example kdict_key_pair :
  let l1 := [(VTuple [VAtom (AInt 1); VAtom (AInt 2)], VAtom (AInt 1))] in
  let l2 := [(VTuple [VAtom (AInt 2)], VAtom (AInt 1))] in
  mset_alike (kalike set_mode) (kvis set_mode l1) (kvis set_mode l2) = false /\
  mset_alike (kalike multiset_mode) (kvis multiset_mode l1) (kvis multiset_mode l2) = false /\
  mset_alike (kalike ordered_mode) (kvis ordered_mode l1) (kvis ordered_mode l2) = false /\
  mset_alike (kalike set_mode) (kvis set_mode l1) (kvis set_mode l1) = true.
Proof. cbv zeta. repeat split; reflexivity. Qed.

(** C17: memoisation is transparent through ANY cache that only returns what was put into it, and
    the LFU cache of C18 is one - by C18's refinement theorem alone.

    The memo layer of MemoModel.v is re-stated over an abstract cache (a state type, [cget], [cset]) with an
    abstraction [holds c k v] ("the cache may answer v for k") and the three facts a bounded map satisfies
    whatever its replacement policy:  a get answers only what the map holds;  a get adds nothing;  a set adds
    only the pair it was given (it may drop anything).  Instances:
      - the LFU model, where the three facts are derived from C18's simulation (Lfu/LfuProofs.v: [get_sim],
        [set_sim], [R_find]: a get returns what the abstract bounded map [LfuSpec] holds) and the abstract
        map's lemmas [sget_returns], [sset_values] (LfuSpecProps.v) - nothing about buckets, frequencies or
        eviction order is used;
      - DummyLFU (cache_size=0): never holds anything. *)
From Coq Require Import List ZArith Bool Arith Lia.
Import ListNotations.
From DD Require Import Lfu.LfuModel Lfu.LfuSpec Lfu.LfuSpecProps Lfu.LfuInv Lfu.LfuProofs DiffIO.MemoModel.

Section AnyCache.
Variables V C : Type.
Variable cget : C -> key -> C * option V.
Variable cset : C -> key -> V -> C.
Variable good : C -> Prop.                          (* representation invariant *)
Variable holds : C -> key -> V -> Prop.
Hypothesis good_get : forall c k, good c -> good (fst (cget c k)).
Hypothesis good_set : forall c k v, good c -> good (cset c k v).
Hypothesis get_sound : forall c k v, good c -> snd (cget c k) = Some v -> holds c k v.
Hypothesis get_frame : forall c k k' v', good c -> holds (fst (cget c k)) k' v' -> holds c k' v'.
Hypothesis set_frame : forall c k v k' v', good c -> holds (cset c k v) k' v' -> (k' = k /\ v' = v) \/ holds c k' v'.

Record astate := mkA { acache : C; aclock : nat }.

(* [run_cached] of MemoModel.v over the abstract cache *)
Fixpoint run_any (sched : nat -> bool) (p : prog V) (s : astate) : V * astate :=
  match p with
  | Ret v => (v, s)
  | Call k body cont =>
      if sched (aclock s) then
        match cget (acache s) k with
        | (c1, Some v) => run_any sched (cont v) (mkA c1 (S (aclock s)))
        | (_, None) =>
            let '(v, s1) := run_any sched body (mkA (acache s) (S (aclock s))) in
            let c2 := if sched (aclock s1) then cset (acache s1) k v else acache s1 in
            run_any sched (cont v) (mkA c2 (S (aclock s1)))
        end
      else
        let '(v, s1) := run_any sched body (mkA (acache s) (S (aclock s))) in
        run_any sched (cont v) s1
  end.

Variable spec : key -> V.
Definition right (c : C) : Prop := forall k v, holds c k v -> v = spec k.

Theorem any_cache_transparent : forall (sched : nat -> bool) (p : prog V) (s : astate),
  consistent spec p -> good (acache s) -> right (acache s) ->
  fst (run_any sched p s) = run_pure p /\
  good (acache (snd (run_any sched p s))) /\ right (acache (snd (run_any sched p s))).
Proof.
  intros sched p. induction p as [v|k body IHb cont IHc]; intros s Hcons Hg Hr.
  - cbn. auto.
  - cbn [consistent] in Hcons. destruct Hcons as [Hb [Hv Hk]]. cbn [run_any run_pure].
    destruct (sched (aclock s)).
    + destruct (cget (acache s) k) as [c1 [v|]] eqn:Eg.
      * assert (v = spec k) by (apply Hr; apply get_sound; [exact Hg|rewrite Eg; reflexivity]). subst v.
        assert (Hg1 : good c1) by (replace c1 with (fst (cget (acache s) k)) by (rewrite Eg; reflexivity); apply good_get; exact Hg).
        assert (Hr1 : right c1).
        { intros k' v' Hh. apply Hr. apply (get_frame (acache s) k); [exact Hg|rewrite Eg; exact Hh]. }
        rewrite Hv. apply IHc; assumption.
      * destruct (IHb (mkA (acache s) (S (aclock s))) Hb Hg Hr) as [Ev [Hg1 Hr1]].
        destruct (run_any sched body (mkA (acache s) (S (aclock s)))) as [v s1]. cbn [fst snd] in *.
        rewrite Hv in Ev. subst v. rewrite Hv. apply IHc; [exact Hk| |]; cbn [acache].
        -- destruct (sched (aclock s1)); [apply good_set|]; exact Hg1.
        -- destruct (sched (aclock s1)); [|exact Hr1].
           intros k' v' Hh. apply set_frame in Hh as [[-> ->]|Hh]; [reflexivity|apply Hr1; exact Hh|exact Hg1].
    + destruct (IHb (mkA (acache s) (S (aclock s))) Hb Hg Hr) as [Ev [Hg1 Hr1]].
      destruct (run_any sched body (mkA (acache s) (S (aclock s)))) as [v s1]. cbn [fst snd] in *.
      rewrite Hv in Ev. subst v. rewrite Hv. apply IHc; assumption.
Qed.
End AnyCache.
Arguments mkA {C} acache aclock.
Arguments acache {C} a.
Arguments aclock {C} a.

(* ------------------------------------------------------------------ *)
(** * the LFU cache, through C18's refinement *)
Section LfuInstance.
Variable V : Type.

(* reachable-style representation invariant: the structural invariant of C18 and a related abstract map *)
Definition lfu_good (s : lfu V) : Prop := 1 <= cap s /\ inv s /\ exists sp, R s sp.
(* what the key table answers *)
Definition lfu_holds (s : lfu V) (k : key) (v : V) : Prop := exists u, find_key k (buckets s) = Some (u, v).

(* the key table = the abstract map (C18: R_find) *)
Lemma holds_sval s sp k v : inv s -> R s sp -> (lfu_holds s k v <-> sval sp k = Some v).
Proof.
  intros Hi HR. unfold lfu_holds, sval. rewrite (R_find s sp k Hi HR).
  destruct (sfind k (entries sp)) as [e|]; cbn [option_map]; split.
  - intros [u E]. inversion E. reflexivity.
  - intro E. inversion E. eexists. reflexivity.
  - intros [u E]. discriminate.
  - discriminate.
Qed.

Lemma lfu_good_get s k : lfu_good s -> lfu_good (fst (get s k)).
Proof.
  intros (Hc & Hi & sp & HR). split; [rewrite get_cap; exact Hc|]. split; [apply get_inv; exact Hi|].
  exists (fst (sget sp k)). apply (get_sim s sp k Hi HR).
Qed.
Lemma lfu_good_set s k v : lfu_good s -> lfu_good (set s k v).
Proof.
  intros (Hc & Hi & sp & HR). split; [rewrite set_cap; exact Hc|]. split; [apply set_inv; assumption|].
  exists (sset sp k v). apply set_sim; assumption.
Qed.
Lemma lfu_get_sound s k v : lfu_good s -> snd (get s k) = Some v -> lfu_holds s k v.
Proof.
  intros (Hc & Hi & sp & HR) E. apply (holds_sval s sp k v Hi HR).
  rewrite (proj1 (get_sim s sp k Hi HR)) in E. rewrite sget_value in E. exact E.
Qed.
Lemma lfu_get_frame s k k' v' : lfu_good s -> lfu_holds (fst (get s k)) k' v' -> lfu_holds s k' v'.
Proof.
  intros (Hc & Hi & sp & HR) Hh. apply (holds_sval s sp k' v' Hi HR).
  apply (holds_sval _ (fst (sget sp k)) k' v' (get_inv s k Hi) (proj2 (get_sim s sp k Hi HR))) in Hh.
  rewrite sget_keeps_values in Hh. exact Hh.
Qed.
Lemma lfu_set_frame s k v k' v' : lfu_good s -> lfu_holds (set s k v) k' v' -> (k' = k /\ v' = v) \/ lfu_holds s k' v'.
Proof.
  intros (Hc & Hi & sp & HR) Hh.
  apply (holds_sval _ (sset sp k v) k' v' (set_inv s k v Hc Hi) (set_sim s sp k v Hc Hi HR)) in Hh.
  destruct (Z.eq_dec k' k) as [->|NE].
  - left. rewrite sset_same in Hh. inversion Hh. auto.
  - right. apply (holds_sval s sp k' v' Hi HR). rewrite (sset_other sp k v k' NE) in Hh.
    destruct (match evicted_by_set sp k with Some x => Z.eqb x k' | None => false end); [discriminate|exact Hh].
Qed.

(* [run_cached] (MemoModel.v) IS the abstract run at the LFU operations *)
Lemma run_cached_is_any (sched : nat -> bool) (p : prog V) : forall (c : lfu V) (n : nat),
  fst (fst (run_cached sched p (mkM c n))) = fst (run_any V (lfu V) (@get V) (@set V) sched p (mkA c n)) /\
  mcache (snd (fst (run_cached sched p (mkM c n)))) = acache (snd (run_any V (lfu V) (@get V) (@set V) sched p (mkA c n))) /\
  mclock (snd (fst (run_cached sched p (mkM c n)))) = aclock (snd (run_any V (lfu V) (@get V) (@set V) sched p (mkA c n))).
Proof.
  induction p as [v|k body IHb cont IHc]; intros c n; cbn [run_cached run_any mcache mclock acache aclock]; [auto|].
  destruct (sched n).
  - destruct (get c k) as [cg [v|]].
    + specialize (IHc v cg (S n)). destruct (run_cached sched (cont v) (mkM cg (S n))) as [[r s'] lg]. exact IHc.
    + specialize (IHb c (S n)).
      destruct (run_cached sched body (mkM c (S n))) as [[v s1] lg1].
      destruct (run_any V (lfu V) (@get V) (@set V) sched body (mkA c (S n))) as [v0 a1].
      cbn [fst snd] in IHb. destruct IHb as (-> & E2 & E3). destruct s1 as [c1 n1]. destruct a1 as [c1' n1'].
      cbn [mcache mclock acache aclock] in *. subst c1' n1'.
      specialize (IHc v0 (if sched n1 then set c1 k v0 else c1) (S n1)).
      destruct (run_cached sched (cont v0) _) as [[r s'] lg2]. exact IHc.
  - specialize (IHb c (S n)).
    destruct (run_cached sched body (mkM c (S n))) as [[v s1] lg1].
    destruct (run_any V (lfu V) (@get V) (@set V) sched body (mkA c (S n))) as [v0 a1].
    cbn [fst snd] in IHb. destruct IHb as (-> & E2 & E3). destruct s1 as [c1 n1]. destruct a1 as [c1' n1'].
    cbn [mcache mclock acache aclock] in *. subst c1' n1'.
    specialize (IHc v0 c1 n1). destruct (run_cached sched (cont v0) (mkM c1 n1)) as [[r s'] lg2]. exact IHc.
Qed.

(* the transparency theorem of MemoProofs.v again, with C18's refinement as the only fact about the cache *)
Theorem cache_transparent_by_refinement :
  forall (spec : key -> V) (p : prog V), consistent spec p ->
  forall (cap : nat) (sched : nat -> bool), 1 <= cap ->
  fst (fst (run_cached sched p (mkM (empty cap) 0))) = run_pure p.
Proof.
  intros spec p Hc cap sched Hcap.
  rewrite (proj1 (run_cached_is_any sched p (empty cap) 0)).
  apply (any_cache_transparent V (lfu V) (@get V) (@set V) lfu_good lfu_holds
           lfu_good_get lfu_good_set lfu_get_sound lfu_get_frame lfu_set_frame spec sched p (mkA (empty cap) 0) Hc).
  - split; [exact Hcap|]. split; [apply empty_inv|]. exists (sempty cap). apply R_empty.
  - intros k v [u E]. discriminate.
Qed.
End LfuInstance.

(* DummyLFU (cache_size = 0): get never finds anything, set stores nothing *)
Theorem dummy_cache_transparent :
  forall (V : Type) (spec : key -> V) (p : prog V), consistent spec p ->
  forall (sched : nat -> bool),
  fst (run_any V unit (fun c _ => (c, None)) (fun c _ _ => c) sched p (mkA tt 0)) = run_pure p.
Proof.
  intros V spec p Hc sched.
  refine (proj1 (any_cache_transparent V unit (fun c _ => (c, None)) (fun c _ _ => c) (fun _ => True) (fun _ _ _ => False)
                   _ _ _ _ _ spec sched p (mkA tt 0) Hc I _)); auto.
  - intros c k v _ E. discriminate.
  - intros k v [].
Qed.

(** C17 source tie (harness/translate/cacheglue.py -> DDGen.CacheGen): the types and primitives the
    generated text of diff.py's caching glue is written with, and the statement-level hand model of ONE
    memoised call ([memo_step]: the [Call] case of MemoModel.run_cached without the event log and without
    the continuation).  Definitions only.

    State of the memoised methods = MemoModel.mstate: the LFU cache (self._distance_cache) and the number
    of times self._stats[DISTANCE_CACHE_ENABLED] was read so far ([sched n] = what the n-th read returns:
    the auto-tuner is an arbitrary schedule, as in MemoModel.v). *)
From Coq Require Import List ZArith Bool Arith.
Import ListNotations.
From DD Require Import Base.PyStr Lfu.LfuModel DiffIO.MemoModel.

Section Prims.
Variable V : Type.
Variable sched : nat -> bool.

(* self._stats[DISTANCE_CACHE_ENABLED], read in a memoised method: the schedule's next answer *)
Definition read_flag (s : mstate V) : bool * mstate V :=
  (sched (mclock s), mkM (mcache s) (S (mclock s))).
(* cache_key in self._distance_cache  (LFUCache.__contains__: no side effect) *)
Definition cache_contains (s : mstate V) (k : key) : bool := contains (mcache s) k.
(* self._distance_cache.get(cache_key): None = the sentinel not_found *)
Definition cache_get (s : mstate V) (k : key) : option V * mstate V :=
  (snd (get (mcache s) k), mkM (fst (get (mcache s) k)) (mclock s)).
(* self._distance_cache.set(cache_key, value=v) *)
Definition cache_set (s : mstate V) (k : key) (v : V) : mstate V :=
  mkM (set (mcache s) k v) (mclock s).

(* one memoised call: MemoModel.run_cached at [Call k body _], log-free *)
Definition memo_step (k : key) (body : mstate V -> V * mstate V) (s : mstate V) : V * mstate V :=
  if sched (mclock s) then
    match get (mcache s) k with
    | (c1, Some v) => (v, mkM c1 (S (mclock s)))
    | (_, None) =>
        let '(v, s1) := body (mkM (mcache s) (S (mclock s))) in
        (v, mkM (if sched (mclock s1) then set (mcache s1) k v else mcache s1) (S (mclock s1)))
    end
  else body (mkM (mcache s) (S (mclock s))).

(* a run evaluated with a given implementation of the memoised call *)
Fixpoint run_with (step : key -> (mstate V -> V * mstate V) -> mstate V -> V * mstate V)
                  (p : prog V) (s : mstate V) : V * mstate V :=
  match p with
  | Ret v => (v, s)
  | Call k body cont => let '(v, s1) := step k (run_with step body) s in run_with step (cont v) s1
  end.
End Prims.

(* pystr helpers of the key functions *)
Definition pycat (a b : pystr) : pystr := (a ++ b)%list.

(* the auto-tuner's view of self._stats / self._shared_parameters *)
Record tstats := mkT {
  st_diff_count : Z; st_hit_count : Z; st_prev_diff_count : Z; st_prev_hit_count : Z;
  st_enabled : bool; st_enable_every : Z }.
Definition with_enabled (t : tstats) (b : bool) : tstats :=
  mkT (st_diff_count t) (st_hit_count t) (st_prev_diff_count t) (st_prev_hit_count t) b (st_enable_every t).
Definition with_enable_every (t : tstats) (n : Z) : tstats :=
  mkT (st_diff_count t) (st_hit_count t) (st_prev_diff_count t) (st_prev_hit_count t) (st_enabled t) n.
Definition with_prev_diff_count (t : tstats) (n : Z) : tstats :=
  mkT (st_diff_count t) (st_hit_count t) n (st_prev_hit_count t) (st_enabled t) (st_enable_every t).
Definition with_prev_hit_count (t : tstats) (n : Z) : tstats :=
  mkT (st_diff_count t) (st_hit_count t) (st_prev_diff_count t) n (st_enabled t) (st_enable_every t).

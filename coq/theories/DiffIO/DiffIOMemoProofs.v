(** The shared DeepHash table is transparent for the ignore-order diff when no two atoms
    that are == but not identical occur: [diff_io_m] returns what the cache-less, memo-free
    traversal [diff_io_o] returns, and the table stays right.  With aliasing it is not
    (K2): refutation with the implementation's real behaviour. *)
From Coq Require Import List ZArith NArith Bool Arith Lia Permutation.
Import ListNotations.
From DD Require Import Base.PyStr Base.Value Base.ValueFacts Diff.Tree Diff.DiffModel Hash.HashModel Hash.Equiv
  Hash.HashProofsC06 Hash.HashProofsMemo Hash.HashMembers Lfu.LfuModel
  DiffIO.DiffIOModel DiffIO.DiffIOProofs DiffIO.MemoModel DiffIO.DiffIOCache DiffIO.DiffIOMemo.

Lemma no_alias_incl l l' : incl l l' -> no_alias l' = true -> no_alias l = true.
Proof.
  unfold no_alias. intros Hi Hn. rewrite forallb_forall in Hn. apply forallb_forall. intros a Ha.
  apply forallb_forall. intros b Hb. specialize (Hn a (Hi a Ha)). rewrite forallb_forall in Hn. apply Hn. auto.
Qed.

Lemma atom_eq_dec (x y : atom) : {x = y} + {x <> y}.
Proof.
  destruct (atom_eqb x y) eqn:E; [left; apply HashProofsMemo.atom_eqb_eq; exact E|right].
  intro X. subst. rewrite ValueFacts.atom_eqb_refl in E. discriminate.
Qed.

Section Pure.
Variable H : pystr -> pystr.
Variable udiff : pystr -> pystr -> pystr.
Variable skip excl : path -> bool.
Variable c : cfg.
Variable rep : bool.
Variable pairs : path -> list (nat * nat).
Variable A : list atom.                      (* all atoms around: of the table and of both inputs *)
Hypothesis A_noalias : no_alias A = true.

Notation o := (io_opts c rep).
Notation V0 := (list (nat * nat)).
Notation mm := (diff_io_m H udiff skip excl c rep pairs).
Notation st0 := (diff_io_st H udiff skip excl c rep V0 (fun _ => false) (fun p => Ret (pairs p)) (fun _ v => v)).

Definition Inv (m : memo) : Prop := memo_ok H o m /\ incl (matoms m) A.
Definition RelM (a : MM) (a0 : M V0) : Prop :=
  forall m s0, Inv m -> fst (a m) = fst (fst (a0 s0)) /\ Inv (snd (a m)).
Definition good (v : value) : Prop := wf v = true /\ incl (atoms_of v) A.

Lemma order_ok_o v : order_ok o v = true.
Proof. reflexivity. Qed.

Lemma RelM_ret r : RelM (mmret r) (mret V0 r).
Proof. intros m s0 Hi. cbn. auto. Qed.
Lemma RelM_app a a0 b b0 : RelM a a0 -> RelM b b0 -> RelM (mmapp a b) (mapp V0 a0 b0).
Proof.
  intros Ha Hb m s0 Hi. unfold mmapp, mapp.
  destruct (Ha m s0 Hi) as [E1 I1]. destruct (a m) as [r1 m1]. destruct (a0 s0) as [[r01 s01] l01]. cbn [fst snd] in *.
  destruct (Hb m1 s01 I1) as [E2 I2]. destruct (b m1) as [r2 m2]. destruct (b0 s01) as [[r02 s02] l02]. cbn [fst snd] in *.
  subst. auto.
Qed.

Definition RelRecG (f : rec_m) (f0 : rec_st V0) : Prop := forall y q1 q2, good y -> RelM (f y q1 q2) (f0 y q1 q2).

Lemma RelM_nth recs recs0 i : Forall2 RelRecG recs recs0 -> RelRecG (nth_rec_m recs i) (nth_rec_st V0 recs0 i).
Proof.
  intro HF. revert i. induction HF as [|f f0 l l0 Hf HF IH]; intros [|i]; cbn [nth_rec_m nth_rec_st nth].
  - intros y q1 q2 _. apply RelM_ret.
  - intros y q1 q2 _. apply RelM_ret.
  - exact Hf.
  - apply IH.
Qed.

Section Level.
Variables (recs : list rec_m) (recs0 : list (rec_st V0)).
Hypothesis Hrecs : Forall2 RelRecG recs recs0.
Variables (xs ys : list value) (p1 p2 : path).
Hypothesis Hys : forall y, In y ys -> good y.
Notation hs1 := (h1 H c rep xs).
Notation hs2 := (h2 H c rep ys).
Notation ps := (pairs p1).

Lemma item2_good j y : item2 ys j = Some y -> good y.
Proof. unfold item2. intro E. apply Hys. eapply nth_error_In; eauto. Qed.

Lemma partner_same a rem :
  partner_g pairs hs1 hs2 p1 a rem = partner H c rep (fun _ => ps) xs ys p1 a rem.
Proof. reflexivity. Qed.

Lemma added_one_relm a rem :
  RelM (fst (added_one_m skip pairs recs ys hs1 hs2 p1 p2 a rem)) (fst (added_one_st H skip c rep V0 recs0 xs ys p1 p2 ps a rem)) /\
  snd (added_one_m skip pairs recs ys hs1 hs2 p1 p2 a rem) = snd (added_one_st H skip c rep V0 recs0 xs ys p1 p2 ps a rem).
Proof.
  unfold added_one_m, added_one_st. rewrite partner_same.
  destruct (partner H c rep (fun _ => ps) xs ys p1 a rem); cbn [fst snd].
  - split; [|reflexivity]. destruct (item2 ys _) eqn:E; [|apply RelM_ret].
    apply RelM_nth; [exact Hrecs|]. eapply item2_good; eauto.
  - split; [apply RelM_ret|reflexivity].
Qed.

Lemma added_one_rep_relm a rem :
  RelM (fst (added_one_rep_m skip pairs recs ys hs1 hs2 p1 p2 a rem)) (fst (added_one_rep_st H skip c rep V0 recs0 xs ys p1 p2 ps a rem)) /\
  snd (added_one_rep_m skip pairs recs ys hs1 hs2 p1 p2 a rem) = snd (added_one_rep_st H skip c rep V0 recs0 xs ys p1 p2 ps a rem).
Proof.
  unfold added_one_rep_m, added_one_rep_st. rewrite partner_same.
  destruct (partner H c rep (fun _ => ps) xs ys p1 a rem) as [r|]; cbn [fst snd].
  - split; [|reflexivity]. destruct (item2 ys _) as [y|] eqn:E; [|apply RelM_ret].
    pose proof (item2_good _ _ E) as Gy.
    remember (first_of (indexes_of r hs1 0)) as i0 eqn:Ei0. clear Ei0.
    induction (indexes_of r hs1 0) as [|i is_ IH]; cbn [fold_right]; [apply RelM_ret|].
    apply RelM_app; [apply RelM_nth; auto|exact IH].
  - split; [apply RelM_ret|reflexivity].
Qed.

Lemma added_loop_relm one one0 adds rem :
  (forall a r, RelM (fst (one a r)) (fst (one0 a r)) /\ snd (one a r) = snd (one0 a r)) ->
  RelM (fst (added_loop_m one adds rem)) (fst (added_loop_st V0 one0 adds rem)) /\
  snd (added_loop_m one adds rem) = snd (added_loop_st V0 one0 adds rem).
Proof.
  intro Ho. revert rem. induction adds as [|a adds IH]; intros rem; cbn [added_loop_m added_loop_st].
  - split; [apply RelM_ret|reflexivity].
  - destruct (Ho a rem) as [R1 E1]. destruct (one a rem) as [m1 rem1]. destruct (one0 a rem) as [m01 rem01].
    cbn [fst snd] in *. subst rem01.
    destruct (IH rem1) as [R2 E2].
    destruct (added_loop_m one adds rem1) as [m2 rem2]. destruct (added_loop_st V0 one0 adds rem1) as [m02 rem02].
    cbn [fst snd] in *. subst. split; [apply RelM_app; assumption|reflexivity].
Qed.

Lemma iter_relm :
  RelM (iter_m skip rep pairs recs xs ys hs1 hs2 p1 p2)
       (if rep then iter_rep_st H skip c rep V0 recs0 xs ys p1 p2 ps else iter_norep_st H skip c rep V0 recs0 xs ys p1 p2 ps).
Proof.
  unfold iter_m.
  assert (Rb : forall b : bool,
    RelM (if b then
            let '(ma, remaining) := added_loop_m (added_one_rep_m skip pairs recs ys hs1 hs2 p1 p2) (hashes_added_g hs1 hs2) (hashes_removed_g hs1 hs2) in
            mmapp ma (mmret (app2 (concat_res (map (removed_one_rep_g skip xs hs1 p1 p2) remaining))
                                  (concat_res (map (repetition_one_g skip xs ys hs1 hs2 p1 p2) (filter (fun h => mem_h h (t1_hashes_g hs1)) (t2_hashes_g hs2))))))
          else
            let '(ma, remaining) := added_loop_m (added_one_m skip pairs recs ys hs1 hs2 p1 p2) (hashes_added_g hs1 hs2) (hashes_removed_g hs1 hs2) in
            mmapp ma (mmret (concat_res (map (removed_one_g skip xs hs1 p1 p2) remaining))))
         (if b then iter_rep_st H skip c rep V0 recs0 xs ys p1 p2 ps else iter_norep_st H skip c rep V0 recs0 xs ys p1 p2 ps)).
  { intros [|].
    - unfold iter_rep_st.
      destruct (added_loop_relm (added_one_rep_m skip pairs recs ys hs1 hs2 p1 p2) (added_one_rep_st H skip c rep V0 recs0 xs ys p1 p2 ps)
                  (hashes_added H c rep xs ys) (hashes_removed H c rep xs ys) added_one_rep_relm) as [R E].
      change (hashes_added_g hs1 hs2) with (hashes_added H c rep xs ys).
      change (hashes_removed_g hs1 hs2) with (hashes_removed H c rep xs ys).
      destruct (added_loop_m _ _ _) as [ma rem]. destruct (added_loop_st V0 _ _ _) as [ma0 rem0]. cbn [fst snd] in *. subst.
      apply RelM_app; [exact R|apply RelM_ret].
    - unfold iter_norep_st.
      destruct (added_loop_relm (added_one_m skip pairs recs ys hs1 hs2 p1 p2) (added_one_st H skip c rep V0 recs0 xs ys p1 p2 ps)
                  (hashes_added H c rep xs ys) (hashes_removed H c rep xs ys) added_one_relm) as [R E].
      change (hashes_added_g hs1 hs2) with (hashes_added H c rep xs ys).
      change (hashes_removed_g hs1 hs2) with (hashes_removed H c rep xs ys).
      destruct (added_loop_m _ _ _) as [ma rem]. destruct (added_loop_st V0 _ _ _) as [ma0 rem0]. cbn [fst snd] in *. subst.
      apply RelM_app; [exact R|apply RelM_ret]. }
  apply Rb.
Qed.
End Level.

(* the two _create_hashtable calls of a level: memo-free hashes, the table stays right *)
Lemma table_step (mk : list value -> value) xs m :
  (forall l, children (mk l) = l) -> (forall l, atoms_of (mk l) = flat_map atoms_of l) ->
  Inv m -> wf (mk xs) = true -> (forall x, In x xs -> good x) ->
  fst (hash_items_memo H o m xs) = map (hv H c rep) xs /\
  Inv (snd (hash_memo H o (mk xs) (snd (hash_items_memo H o m xs)))).
Proof.
  intros Hch Hat [Hok Hin] Wv Hx.
  assert (Hall : incl (flat_map atoms_of xs) A).
  { intros a Ha. apply in_flat_map in Ha as [x [Hxi Hax]]. destruct (Hx x Hxi) as [_ Hi]. auto. }
  assert (Hna : no_alias (matoms m ++ flat_map atoms_of xs) = true).
  { eapply no_alias_incl; [|exact A_noalias]. intros a Ha. apply in_app_or in Ha as [Ha|Ha]; auto. }
  split.
  - destruct (hash_items_memo_pure H o m xs Hok) as [E _]; auto.
    intros x Hxi. split; [apply Hx; exact Hxi|apply order_ok_o].
  - destruct (create_hashtable_pure H o m (mk xs) Hok Wv (order_ok_o _)) as (_ & Ok2 & In2).
    + rewrite Hch. intros x Hxi. split; [apply Hx; exact Hxi|apply order_ok_o].
    + rewrite Hch, Hat. apply incl_refl.
    + rewrite Hat. exact Hna.
    + unfold create_hashtable in Ok2, In2. rewrite Hch in Ok2, In2.
      destruct (hash_items_memo H o m xs) as [hs m1]. cbn [fst snd] in *.
      split; [exact Ok2|]. intros a Ha. apply In2 in Ha. rewrite Hat in Ha. apply in_app_or in Ha as [Ha|Ha]; auto.
Qed.

Lemma level_relm (mk : list value -> value) recs recs0 xs ys p1 p2 :
  (forall l, children (mk l) = l) -> (forall l, atoms_of (mk l) = flat_map atoms_of l) ->
  Forall2 RelRecG recs recs0 ->
  wf (mk xs) = true -> wf (mk ys) = true -> (forall x, In x xs -> good x) -> (forall y, In y ys -> good y) ->
  RelM (level_m H skip c rep pairs mk recs xs ys p1 p2)
       (iter_st H skip c rep V0 (fun _ => false) (fun p => Ret (pairs p)) (fun _ v => v) recs0 xs ys p1 p2).
Proof.
  intros Hch Hat HF W1 W2 Hx Hy m s0 Hi. unfold level_m, iter_st. cbn [run_cached].
  destruct (table_step mk xs m Hch Hat Hi W1 Hx) as [E1 I1].
  destruct (hash_items_memo H o m xs) as [hs1 ma]. cbn [fst snd] in E1, I1. subst hs1.
  destruct (table_step mk ys _ Hch Hat I1 W2 Hy) as [E2 I2].
  destruct (hash_items_memo H o (snd (hash_memo H o (mk xs) ma)) ys) as [hs2 mc]. cbn [fst snd] in E2, I2. subst hs2.
  pose proof (iter_relm recs recs0 HF xs ys p1 p2 Hy _ s0 I2) as [E I].
  fold (h1 H c rep xs) (h2 H c rep ys) in *.
  destruct (iter_m skip rep pairs recs xs ys (h1 H c rep xs) (h2 H c rep ys) p1 p2 _) as [r m'].
  set (mB := if rep then iter_rep_st H skip c rep V0 recs0 xs ys p1 p2 (pairs p1) else iter_norep_st H skip c rep V0 recs0 xs ys p1 p2 (pairs p1)) in *.
  destruct (mB s0) as [[r0 s1] lg]. cbn [fst snd] in *. auto.
Qed.

(* ---- sets ---- *)
Lemma first_per_hash_ext (f g : atom -> pystr) l seen :
  (forall a, In a l -> f a = g a) -> first_per_hash f l seen = first_per_hash g l seen.
Proof.
  revert seen. induction l as [|a r IH]; intros seen Hfg; cbn [first_per_hash]; [reflexivity|].
  rewrite (Hfg a (or_introl eq_refl)).
  destruct (existsb _ seen); [apply IH|f_equal; apply IH]; intros; apply Hfg; right; auto.
Qed.
Lemma flat_map_ext_in' {X Y} (f g : X -> list Y) l : (forall a, In a l -> f a = g a) -> flat_map f l = flat_map g l.
Proof. induction l as [|a r IH]; intro Hfg; cbn; [reflexivity|]. rewrite Hfg by (left; reflexivity). rewrite IH; [reflexivity|]. intros; apply Hfg; right; auto. Qed.
Lemma diff_set_ext (f g : atom -> pystr) xs ys p1 p2 :
  (forall a, In a xs \/ In a ys -> f a = g a) -> diff_set f skip xs ys p1 p2 = diff_set g skip xs ys p1 p2.
Proof.
  intro Hfg. unfold diff_set.
  rewrite (map_ext_in f g xs) by (intros; apply Hfg; auto).
  rewrite (map_ext_in f g ys) by (intros; apply Hfg; auto).
  rewrite (first_per_hash_ext f g ys []) by (intros; apply Hfg; auto).
  rewrite (first_per_hash_ext f g xs []) by (intros; apply Hfg; auto).
  f_equal; apply flat_map_ext_in'; intros a Ha; apply first_per_hash_incl in Ha; rewrite Hfg by auto; reflexivity.
Qed.

Lemma tbl_hatom_combine (f : atom -> pystr) l rest a :
  In a l -> tbl_hatom (combine l (map f l) ++ rest) a = f a.
Proof.
  unfold tbl_hatom. induction l as [|x r IH]; [intros []|]. cbn [map combine app find fst].
  intro Hin. destruct (atom_eqb x a) eqn:E.
  - apply HashProofsMemo.atom_eqb_eq in E. subst. reflexivity.
  - destruct Hin as [->|Hin]; [rewrite ValueFacts.atom_eqb_refl in E; discriminate|apply IH; exact Hin].
Qed.
Lemma tbl_hatom_skip (f : atom -> pystr) l rest a :
  ~ In a l -> tbl_hatom (combine l (map f l) ++ rest) a = tbl_hatom rest a.
Proof.
  unfold tbl_hatom. induction l as [|x r IH]; [reflexivity|]. cbn [map combine app find fst].
  intro Hn. destruct (atom_eqb x a) eqn:E.
  - apply HashProofsMemo.atom_eqb_eq in E. subst. exfalso. apply Hn. left; reflexivity.
  - apply IH. intro X. apply Hn. right; exact X.
Qed.

Lemma set_relm (mk : list atom -> value) xs ys p1 p2 :
  (forall l, children (mk l) = map VAtom l) -> (forall l, atoms_of (mk l) = l) ->
  wf (mk xs) = true -> wf (mk ys) = true -> incl xs A -> incl ys A ->
  RelM (set_level_m H skip c rep (mk xs) (mk ys) xs ys p1 p2) (mret V0 (diff_set (hatom_io H c rep) skip xs ys p1 p2, [])).
Proof.
  intros Hch Hat W1 W2 I1 I2 m s0 [Hok Hin]. unfold set_level_m, mret. cbn [fst snd].
  assert (Step : forall l m1, memo_ok H o m1 -> incl (matoms m1) A -> wf (mk l) = true -> incl l A ->
            fst (hash_items_memo H o m1 (map VAtom l)) = map (hatom_io H c rep) l /\
            Inv (snd (hash_memo H o (mk l) (snd (hash_items_memo H o m1 (map VAtom l)))))).
  { intros l m1 Ok1 In1 Wl Il.
    assert (Hfl : flat_map atoms_of (map VAtom l) = l).
    { clear. induction l as [|a r IH]; cbn; [reflexivity|]. rewrite IH. reflexivity. }
    assert (Hna : no_alias (matoms m1 ++ l) = true).
    { eapply no_alias_incl; [|exact A_noalias]. intros a Ha. apply in_app_or in Ha as [Ha|Ha]; auto. }
    split.
    - destruct (hash_items_memo_pure H o m1 (map VAtom l) Ok1) as [E _].
      + intros x Hx. apply in_map_iff in Hx as [a [<- _]]. split; reflexivity.
      + rewrite Hfl. exact Hna.
      + rewrite E, map_map. reflexivity.
    - destruct (create_hashtable_pure H o m1 (mk l) Ok1 Wl (order_ok_o _)) as (_ & Ok2 & In2).
      + rewrite Hch. intros x Hx. apply in_map_iff in Hx as [a [<- _]]. split; reflexivity.
      + rewrite Hch, Hat, Hfl. apply incl_refl.
      + rewrite Hat. exact Hna.
      + unfold create_hashtable in Ok2, In2. rewrite Hch in Ok2, In2.
        destruct (hash_items_memo H o m1 (map VAtom l)) as [hs m2]. cbn [fst snd] in *.
        split; [exact Ok2|]. intros a Ha. apply In2 in Ha. rewrite Hat in Ha. apply in_app_or in Ha as [Ha|Ha]; auto. }
  destruct (Step xs m Hok Hin W1 I1) as [E1 [Okb Inb]].
  destruct (hash_items_memo H o m (map VAtom xs)) as [hs1 ma]. cbn [fst snd] in E1, Okb, Inb. subst hs1.
  destruct (Step ys _ Okb Inb W2 I2) as [E2 Id].
  destruct (hash_items_memo H o (snd (hash_memo H o (mk xs) ma)) (map VAtom ys)) as [hs2 mc]. cbn [fst snd] in E2, Id. subst hs2.
  cbn [fst snd]. split; [|exact Id]. f_equal.
  apply diff_set_ext. intros a Ha.
  destruct (in_dec atom_eq_dec a xs) as [Hx|Hx].
  - apply tbl_hatom_combine. exact Hx.
  - rewrite tbl_hatom_skip by exact Hx. destruct Ha as [Ha|Ha]; [contradiction|].
    rewrite <- (app_nil_r (combine ys _)). apply tbl_hatom_combine. exact Ha.
Qed.
(* ---- dicts ---- *)
Lemma find_rec_relm k' (recs : list (atom * rec_m)) (recs0 : list (atom * rec_st V0)) :
  Forall2 (fun a b => fst a = fst b /\ RelRecG (snd a) (snd b)) recs recs0 ->
  match find_rec_m c k' recs, find_rec c V0 k' recs0 with
  | Some f, Some f0 => RelRecG f f0
  | None, None => True
  | _, _ => False
  end.
Proof.
  unfold find_rec_m, find_rec. induction 1 as [|[k f] [k0 f0] l l0 [Ek Hf] HF IH]; cbn [find]; [exact I|].
  cbn [fst snd] in *. subst k0. destruct (keep_key c k && py_eq k k'); [exact Hf|exact IH].
Qed.

Lemma common_relm recs recs0 k1 kvs2 p1 p2 keys2 :
  Forall2 (fun a b => fst a = fst b /\ RelRecG (snd a) (snd b)) recs recs0 ->
  (forall k v, In (k, v) kvs2 -> good v) ->
  RelM (common_m c recs k1 kvs2 p1 p2 keys2) (common_st c V0 recs0 k1 kvs2 p1 p2 keys2).
Proof.
  intros HF Hg. induction keys2 as [|k' r IH]; cbn [common_m common_st]; [apply RelM_ret|].
  destruct (mem_atom k' k1); [|exact IH].
  pose proof (find_rec_relm k' recs recs0 HF) as Hfr.
  destruct (find_rec_m c k' recs) as [f|]; destruct (find_rec c V0 k' recs0) as [f0|]; try contradiction; [|exact IH].
  destruct (assoc k' kvs2) as [v2|] eqn:Ea; [|exact IH].
  apply RelM_app; [|exact IH]. apply Hfr.
  apply assoc_In in Ea as [k'' [Hin _]]. eapply Hg; eauto.
Qed.

Lemma good_item_list x xs : good (VList xs) -> In x xs -> good x.
Proof.
  intros [W I] Hin. split; [eapply wf_item_list; eauto|].
  intros a Ha. apply I. eapply atoms_item_list; eauto.
Qed.
Lemma good_item_tuple x xs : good (VTuple xs) -> In x xs -> good x.
Proof.
  intros [W I] Hin. split; [eapply wf_item_tuple; eauto|].
  intros a Ha. apply I. eapply atoms_item_tuple; eauto.
Qed.
Lemma good_dict_val k v kvs : good (VDict kvs) -> In (k, v) kvs -> good v.
Proof.
  intros [W I] Hin. split.
  - cbn [wf] in W. apply andb_true_iff in W as [_ W]. rewrite forallb_forall in W. apply (W (k, v) Hin).
  - intros a Ha. apply I. eapply atoms_dict_val; eauto.
Qed.

Theorem mm_rel : forall t1 t2 p1 p2, good t1 -> good t2 -> RelM (mm t1 t2 p1 p2) (st0 t1 t2 p1 p2).
Proof.
  intros t1. induction t1 as [a|xs IH|xs IH|kvs IH|xs|xs] using HashProofsC06.value_ind'; intros t2 p1 p2 G1 G2.
  - cbn [diff_io_m diff_io_st]. destruct (skip p1); [apply RelM_ret|]. destruct (negb _); [apply RelM_ret|].
    destruct t2; apply RelM_ret.
  - cbn [diff_io_m diff_io_st]. destruct (skip p1); [apply RelM_ret|]. destruct (negb _); [apply RelM_ret|].
    destruct t2; try apply RelM_ret.
    apply (level_relm VList); try reflexivity; try (apply G1); try (apply G2).
    + assert (Hg : forall x, In x xs -> good x) by (intros x Hx; exact (good_item_list x xs G1 Hx)).
      clear G1. induction IH as [|x l Hx Hl IHl]; constructor.
      * intros y q1 q2 Gy. apply Hx; auto. apply Hg. left; reflexivity.
      * apply IHl. intros; apply Hg; right; auto.
    + intros x Hx; exact (good_item_list x xs G1 Hx).
    + intros y Hy; exact (good_item_list y _ G2 Hy).
  - cbn [diff_io_m diff_io_st]. destruct (skip p1); [apply RelM_ret|]. destruct (negb _); [apply RelM_ret|].
    destruct t2; try apply RelM_ret.
    apply (level_relm VTuple); try reflexivity; try (apply G1); try (apply G2).
    + assert (Hg : forall x, In x xs -> good x) by (intros x Hx; exact (good_item_tuple x xs G1 Hx)).
      clear G1. induction IH as [|x l Hx Hl IHl]; constructor.
      * intros y q1 q2 Gy. apply Hx; auto. apply Hg. left; reflexivity.
      * apply IHl. intros; apply Hg; right; auto.
    + intros x Hx; exact (good_item_tuple x xs G1 Hx).
    + intros y Hy; exact (good_item_tuple y _ G2 Hy).
  - cbn [diff_io_m diff_io_st]. destruct (skip p1); [apply RelM_ret|]. destruct (negb _); [apply RelM_ret|].
    destruct t2; try apply RelM_ret.
    destruct (dict_shortcut _ _ _ _ _); [apply RelM_ret|].
    apply RelM_app; [apply RelM_ret|]. apply common_relm.
    + assert (Hg : forall k v, In (k, v) kvs -> good v) by (intros k v Hx; exact (good_dict_val k v kvs G1 Hx)).
      clear G1. induction IH as [|[k v1] l Hx Hl IHl]; constructor.
      * cbn [fst snd] in *. split; [reflexivity|]. intros y q1 q2 Gy. apply Hx; auto. eapply Hg. left; reflexivity.
      * apply IHl. intros; eapply Hg; right; eauto.
    + intros k v Hx; exact (good_dict_val k v _ G2 Hx).
  - cbn [diff_io_m diff_io_st]. destruct (skip p1); [apply RelM_ret|]. destruct (negb _); [apply RelM_ret|].
    destruct t2; try apply RelM_ret.
    apply (set_relm VSet); try reflexivity; try (apply G1); try (apply G2).
  - cbn [diff_io_m diff_io_st]. destruct (skip p1); [apply RelM_ret|]. destruct (negb _); [apply RelM_ret|].
    destruct t2; try apply RelM_ret.
    apply (set_relm VFrozen); try reflexivity; try (apply G1); try (apply G2).
Qed.
End Pure.

(* the shared table is transparent where nothing aliases: the memo-threading diff is the memo-free,
   cache-less traversal [diff_io_o] (= [diff_io] up to the order of a dict's children), and the table stays right *)
Theorem diff_io_m_pure :
  forall (H : pystr -> pystr) udiff skip excl c rep pairs (m : memo) t1 t2 p1 p2,
  memo_ok H (io_opts c rep) m -> wf t1 = true -> wf t2 = true ->
  no_alias (matoms m ++ atoms_of t1 ++ atoms_of t2) = true ->
  fst (diff_io_m H udiff skip excl c rep pairs t1 t2 p1 p2 m) = diff_io_o H udiff skip excl c rep pairs t1 t2 p1 p2 /\
  memo_ok H (io_opts c rep) (snd (diff_io_m H udiff skip excl c rep pairs t1 t2 p1 p2 m)).
Proof.
  intros H udiff skip excl c rep pairs m t1 t2 p1 p2 Hok W1 W2 Hna.
  destruct (mm_rel H udiff skip excl c rep pairs (matoms m ++ atoms_of t1 ++ atoms_of t2) Hna t1 t2 p1 p2) with (m := m) (s0 := mkM (@empty (list (nat * nat)) 0) 0) as [E [Ok _]].
  - split; [exact W1|]. intros a Ha. apply in_or_app. right. apply in_or_app. left. exact Ha.
  - split; [exact W2|]. intros a Ha. apply in_or_app. right. apply in_or_app. right. exact Ha.
  - split; [exact Hok|]. intros a Ha. apply in_or_app. left. exact Ha.
  - split; [exact E|exact Ok].
Qed.

Corollary run_diff_io_m_pure :
  forall (H : pystr -> pystr) udiff skip excl c rep pairs t1 t2,
  wf t1 = true -> wf t2 = true -> alias_free2 t1 t2 = true ->
  fst (fst (run_diff_io_m H udiff skip excl c rep pairs t1 t2)) =
    (if rep then fst (diff_io_o H udiff skip excl c rep pairs t1 t2 [] []) else mutual (fst (diff_io_o H udiff skip excl c rep pairs t1 t2 [] []))).
Proof.
  intros H udiff skip excl c rep pairs t1 t2 W1 W2 Ha. unfold run_diff_io_m.
  destruct (diff_io_m_pure H udiff skip excl c rep pairs [] t1 t2 [] [] (memo_ok_nil H _) W1 W2 Ha) as [E _].
  destruct (diff_io_m H udiff skip excl c rep pairs t1 t2 [] [] []) as [r m']. cbn [fst snd] in *. subst r. reflexivity.
Qed.

(* K2 with the real behaviour: the shared table serves 1.0 the hash of 1, (True,'a') the hash of (1,'a') *)
Lemma not_eqv_singletons o a b : a <> b -> ~ eqv o (VList [VAtom a]) (VList [VAtom b]).
Proof.
  intros Hne He. inversion He as [|xs ys Hs| | | |]; subst.
  assert (Hx : exists y, In y [VAtom b] /\ eqv o (VAtom a) y).
  { inversion Hs as [xs ys Hir Hio Hx Hy|xs ys ys' Hir Hio Hp HF|xs ys Hio HF]; subst.
    - apply Hx. left; reflexivity.
    - inversion HF as [|x y l l' Hxy HF']; subst. exists y. split; auto.
      eapply Permutation_in; [apply Permutation_sym; eassumption|left; reflexivity].
    - inversion HF as [|x y l l' Hxy HF']; subst. inversion HF'; subst. exists (VAtom b). split; [left; reflexivity|exact Hxy]. }
  destruct Hx as [y [[<-|[]] Hy]]. inversion Hy; subst. apply Hne; reflexivity.
Qed.

Theorem memo_alias_refuted :
  forall rep udiff pairs,
  let t1 := VList [VAtom (AInt 1)] in
  let t2 := VList [VAtom (AHalf 2)] in
  wf t1 = true /\ wf t2 = true /\ tag_safe t1 = true /\ tag_safe t2 = true /\
  fst (run_diff_io_m hexhash udiff no_skip no_skip cfg_default rep pairs t1 t2) = ([], []) /\
  ~ eqv (io_opts cfg_default rep) t1 t2 /\
  (* ... although the memo-free model, like ordered mode, sees the difference *)
  fst (run_diff_io hexhash udiff no_skip no_skip cfg_default rep (fun _ => []) t1 t2) <> [].
Proof.
  intros rep udiff pairs t1 t2. repeat (split; [reflexivity|]). split; [|split].
  - destruct rep; vm_compute; reflexivity.
  - apply not_eqv_singletons. discriminate.
  - destruct rep; vm_compute; discriminate.
Qed.

(** Correspondence-side evaluation of the memo model on recorded call trees
    (values are the harness's value numbers).  No theorem depends on this file. *)
From Coq Require Import List ZArith NArith Bool Arith String.
Import ListNotations.
From DD Require Import Base.Sx Lfu.LfuModel DiffIO.MemoModel.
Local Open Scope string_scope.

Definition sched_of (l : list bool) (n : nat) : bool := nth n l false.

(* the predicted log of the cached run: [[key; outcome; value]...] *)
Definition run_trace (cap : nat) (sched : list bool) (p : prog Z) : sx :=
  let '(_, _, lg) := run_cached (sched_of sched) p (mkM (empty cap) 0) in
  SL (map (fun e => SL [SZ (fst (fst e)); sx_nat (snd (fst e)); SZ (snd e)]) lg).

(* boolean form of [consistent] with the specification read off the tree itself:
   the first value computed for a key is the value of the key *)
Fixpoint spec_of (p : prog Z) (acc : list (Z * Z)) : list (Z * Z) :=
  match p with
  | Ret _ => acc
  | Call k body cont =>
      let acc1 := spec_of body acc in
      let v := run_pure body in
      let acc2 := if existsb (fun kv => Z.eqb (fst kv) k) acc1 then acc1 else (k, v) :: acc1 in
      spec_of (cont v) acc2
  end.
Definition tbl (t : list (Z * Z)) (k : Z) : Z :=
  match find (fun kv => Z.eqb (fst kv) k) t with Some kv => snd kv | None => 0%Z end.
Fixpoint consistent_b (spec : Z -> Z) (p : prog Z) : bool :=
  match p with
  | Ret _ => true
  | Call k body cont => consistent_b spec body && Z.eqb (run_pure body) (spec k) && consistent_b spec (cont (spec k))
  end.
Definition check_consistent (p : prog Z) : sx := sx_bool (consistent_b (tbl (spec_of p [])) p).

(** C17: the ignore-order diff with ONE distance/pairs cache threaded through
    the whole traversal, in the implementation's order.  Definitions only.

    [diff_io_st] is [diff_io] (DiffIOModel.v) in state-passing style over the
    memo state of MemoModel.v (the LFU cache of C18 + the clock of the
    enable/disable schedule).  The pairing oracle of [diff_io] is replaced by
    "pairs computed by a body or served from the cache": at the list / tuple
    level with t1-side path p the memoised program [pp p] is evaluated with the
    CURRENT cache ([run_cached]); its value v is what
    _get_most_in_common_pairs_in_iterables returns there (a cached dictionary
    on a hit) and [dec p v] are its (j, i) index pairs at that level
    ([pp p = Ret v] when the code makes no pairs call there: get_pairs false /
    max_passes reached).  The cache state then flows, as in the code,
      - into the recursive diffs of the paired items, in the order of
        hashes_added (for report_repetition: once per index of the removed hash);
      - through the common keys of a dict in the order of t2's keys
        (t_keys_intersect = t2_keys & t1_keys keeps t2's order);
    every other part of a level touches no cache.  The result also carries the
    log of cache events of the whole run. *)
From Coq Require Import List ZArith NArith Bool Arith.
Import ListNotations.
From DD Require Import Base.PyStr Base.Value Diff.Tree Diff.DiffModel Hash.HashModel Lfu.LfuModel
  DiffIO.DiffIOModel DiffIO.MemoModel.

Section St.
Variable H : pystr -> pystr.
Variable udiff : pystr -> pystr -> pystr.
Variable skip : path -> bool.
Variable excl : path -> bool.
Variable c : cfg.
Variable rep : bool.
Variable V : Type.
Variable sched : nat -> bool.
Variable pp : path -> prog V.
Variable dec : path -> V -> list (nat * nat).

(* a computation that may use the cache *)
Definition M := mstate V -> res * mstate V * list (event V).
Definition mret (r : res) : M := fun s => (r, s, []).
Definition mapp (a b : M) : M :=
  fun s => let '(r1, s1, l1) := a s in
           let '(r2, s2, l2) := b s1 in
           (app2 r1 r2, s2, (l1 ++ l2)%list).
Definition rec_st := (value -> path -> path -> M)%type.
Definition nth_rec_st (recs : list rec_st) (i : nat) : rec_st :=
  nth i recs (fun _ _ _ => mret ([], [])).

Section Level.
Variable recs : list rec_st.
Variable xs ys : list value.
Variable p1 p2 : path.
Variable ps : list (nat * nat).          (* the pairs of this level *)

Notation hh1 := (h1 H c rep xs).
Notation hh2 := (h2 H c rep ys).
Notation partner_here := (partner H c rep (fun _ => ps) xs ys p1).

Definition added_one_st (a : pystr) (remaining : list pystr) : M * list pystr :=
  let j := first_of (indexes_of a hh2 0) in
  match partner_here a remaining with
  | Some r =>
      let i := first_of (indexes_of r hh1 0) in
      (match item2 ys j with
       | Some y => nth_rec_st recs i y (snoc p1 (PIdx i)) (snoc p2 (PIdx j))
       | None => mret ([], [])
       end, remove_h r remaining)
  | None =>
      (mret (rpt skip KIterAdd (snoc p1 (PIdx j)) (snoc p2 (PIdx j)) None (item2 ys j) None, []), remaining)
  end.

Definition added_one_rep_st (a : pystr) (remaining : list pystr) : M * list pystr :=
  let js := indexes_of a hh2 0 in
  let j0 := first_of js in
  match partner_here a remaining with
  | Some r =>
      let is_ := indexes_of r hh1 0 in
      let i0 := first_of is_ in
      (match item2 ys j0 with
       | Some y =>
           fold_right (fun i acc =>
             mapp (nth_rec_st recs i0 y (snoc p1 (PIdx i))
                     (snoc p2 (PIdx (if Nat.eqb (length js) 1 then j0 else i)))) acc) (mret ([], [])) is_
       | None => mret ([], [])
       end, remove_h r remaining)
  | None =>
      (mret (flat_map (fun j => rpt skip KIterAdd (snoc p1 (PIdx j)) (snoc p2 (PIdx j)) None (item2 ys j0) None) js, []),
       remaining)
  end.

Fixpoint added_loop_st (one : pystr -> list pystr -> M * list pystr)
         (adds : list pystr) (remaining : list pystr) : M * list pystr :=
  match adds with
  | [] => (mret ([], []), remaining)
  | a :: adds' =>
      let '(m1, rem1) := one a remaining in
      let '(m2, rem2) := added_loop_st one adds' rem1 in
      (mapp m1 m2, rem2)
  end.

Definition iter_rep_st : M :=
  let '(ma, remaining) := added_loop_st added_one_rep_st (hashes_added H c rep xs ys) (hashes_removed H c rep xs ys) in
  let rr := concat_res (map (removed_one_rep H skip c rep xs p1 p2) remaining) in
  let ri := concat_res (map (repetition_one H skip c rep xs ys p1 p2)
                            (filter (fun h => mem_h h (t1_hashes H c rep xs)) (t2_hashes H c rep ys))) in
  mapp ma (mret (app2 rr ri)).
Definition iter_norep_st : M :=
  let '(ma, remaining) := added_loop_st added_one_st (hashes_added H c rep xs ys) (hashes_removed H c rep xs ys) in
  mapp ma (mret (concat_res (map (removed_one H skip c rep xs p1 p2) remaining))).
End Level.

(* _diff_iterable_with_deephash: the pairs call, then the level *)
Definition iter_st (recs : list rec_st) (xs ys : list value) (p1 p2 : path) : M :=
  fun s =>
    let '(v, s1, lg1) := run_cached sched (pp p1) s in
    let ps := dec p1 v in
    let '(r, s2, lg2) := (if rep then iter_rep_st recs xs ys p1 p2 ps else iter_norep_st recs xs ys p1 p2 ps) s1 in
    (r, s2, (lg1 ++ lg2)%list).

(* the common keys of a dict, in the order of t2's keys; [recs] pairs every key of t1 with the
   diff of its value *)
Definition find_rec (k' : atom) (recs : list (atom * rec_st)) : option rec_st :=
  match find (fun kr => keep_key c (fst kr) && py_eq (fst kr) k') recs with
  | Some kr => Some (snd kr)
  | None => None
  end.
Fixpoint common_st (recs : list (atom * rec_st)) (k1 : list atom) (kvs2 : list (atom * value))
         (p1 p2 : path) (keys2 : list atom) : M :=
  match keys2 with
  | [] => mret ([], [])
  | k' :: r =>
      let rest := common_st recs k1 kvs2 p1 p2 r in
      if mem_atom k' k1 then
        match find_rec k' recs, assoc k' kvs2 with
        | Some f, Some v2 => mapp (f v2 (snoc p1 (PKey k')) (snoc p2 (PKey k'))) rest
        | _, _ => rest
        end
      else rest
  end.

Fixpoint diff_io_st (t1 t2 : value) (p1 p2 : path) {struct t1} : M :=
  if skip p1 then mret ([], []) else
  if negb (ty_eqb (type_of t1) (type_of t2))
  then mret (rpt skip KType p1 p2 (Some t1) (Some t2) None, [])
  else
  match t1, t2 with
  | VAtom a, VAtom b => mret (diff_atom udiff skip a b p1 p2, [])
  | VDict kvs1, VDict kvs2 =>
      let k1 := keys_of c kvs1 in
      let k2 := keys_of c kvs2 in
      if dict_shortcut excl c k1 k2 p1 then mret (rpt skip KValue p1 p2 (Some t1) (Some t2) None, [])
      else
        let added := flat_map (fun k => if mem_atom k k1 then []
                       else rpt skip KDictAdd (snoc p1 (PKey k)) (snoc p2 (PKey k)) None (assoc k kvs2) None) k2 in
        let removed := flat_map (fun k => if mem_atom k k2 then []
                       else rpt skip KDictRem (snoc p1 (PKey k)) (snoc p2 (PKey k)) (assoc k kvs1) None None) k1 in
        mapp (mret ((added ++ removed)%list, []))
             (common_st ((fix go (l : list (atom * value)) : list (atom * rec_st) :=
                            match l with
                            | [] => []
                            | (k, v1) :: r => (k, diff_io_st v1) :: go r
                            end) kvs1) k1 kvs2 p1 p2 k2)
  | VList xs, VList ys | VTuple xs, VTuple ys =>
      iter_st ((fix go (l : list value) : list rec_st :=
                  match l with
                  | [] => []
                  | x :: r => diff_io_st x :: go r
                  end) xs) xs ys p1 p2
  | VSet xs, VSet ys | VFrozen xs, VFrozen ys => mret (diff_set (hatom_io H c rep) skip xs ys p1 p2, [])
  | _, _ => mret ([], [])
  end.

(* the whole run from a given cache state *)
Definition run_diff_io_st (t1 t2 : value) (s : mstate V) : res * mstate V * list (event V) :=
  let '(r, s', lg) := diff_io_st t1 t2 [] [] s in
  ((if rep then fst r else mutual (fst r), snd r), s', lg).
End St.

(* the same traversal without any cache: every level's pairs are given (the reference the cached
   runs are compared with; it is [diff_io] up to the order in which the children of a dict are listed) *)
Definition diff_io_o (H : pystr -> pystr) udiff skip excl c rep (pairs : path -> list (nat * nat))
           (t1 t2 : value) (p1 p2 : path) : res :=
  fst (fst (diff_io_st H udiff skip excl c rep (list (nat * nat)) (fun _ => false)
              (fun p => Ret (pairs p)) (fun _ v => v) t1 t2 p1 p2 (mkM (empty 0) 0))).

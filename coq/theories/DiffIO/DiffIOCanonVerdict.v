(** The C05 verdict WITHOUT the alias guard.

    [verdict_c]: for every renaming f that picks one representative per ==-class, the memo-free
    traversal [diff_io_cr .. f] returns the empty result exactly when [cb f t1] and [cb f t2] are
    equal as nested sets / multisets: dict keys and everything below the first list / tuple / set
    are compared modulo Python ==, scalars reached through dicts only are compared with their type.
    With DiffIOCanonRun.v ([diff_io_m] = [diff_io_cr] at the table's representatives) this is the
    verdict of the model WITH the shared table on ALL inputs in which no bool is == a non-bool
    ([verdict_shared_table]): finding K2 as an exact characterisation, and knob independence
    without the alias guard. *)
From Coq Require Import String.
From Coq Require Import List ZArith NArith Bool Arith Lia Permutation.
Import ListNotations.
From DD Require Import Base.PyStr Base.Value Base.ValueFacts Diff.Tree Diff.DiffModel Hash.HashModel Hash.Equiv
  Hash.HashProofsBase Hash.HashProofsC06 Hash.HashProofsC07 Hash.HashProofsMemo
  DiffIO.DiffIOModel DiffIO.DiffIOProofs DiffIO.DiffIOMemo DiffIO.DiffIOCanon DiffIO.DiffIOCanonHash DiffIO.DiffIOCanonRun.

(* a renaming that picks one representative per ==-class *)
Definition class_rep (f : atom -> atom) : Prop :=
  (forall a, py_eq a (f a) = true) /\ (forall a b, py_eq a b = true -> f a = f b).

Lemma class_rep_idem f a : class_rep f -> f (f a) = f a.
Proof. intros [R1 R2]. symmetry. apply R2. apply R1. Qed.
Lemma class_rep_inj f a b : class_rep f -> f a = f b -> py_eq a b = true.
Proof. intros [R1 R2] E. eapply class_inj; eauto. Qed.

(* ---- rho0 ---- *)
Lemma rho0_py_eq a : py_eq a (rho0 a) = true.
Proof.
  destruct a as [|b|z|t|s|s]; try apply ValueFacts.py_eq_refl.
  - destruct b; reflexivity.
  - unfold rho0. cbn [num2]. rewrite Z.even_mul. cbn [Z.even orb].
    rewrite Z.mul_comm, Z.div_mul by discriminate. apply ValueFacts.py_eq_refl.
  - unfold rho0. cbn [num2]. destruct (Z.even t) eqn:E; [|apply ValueFacts.py_eq_refl].
    unfold py_eq. cbn [num2]. apply Z.eqb_eq.
    pose proof (Zmod_even t) as Hm. rewrite E in Hm.
    pose proof (Z.div_mod t 2) as Hd. lia.
Qed.

Lemma rho0_class a b : py_eq a b = true -> rho0 a = rho0 b.
Proof.
  unfold py_eq, rho0. destruct (num2 a) as [x|] eqn:Ea; destruct (num2 b) as [y|] eqn:Eb; try discriminate.
  - intro E. apply Z.eqb_eq in E. subst. reflexivity.
  - destruct a, b; try discriminate; try reflexivity; intro E; apply ValueFacts.pystr_eqb_eq in E; subst; reflexivity.
Qed.

Lemma rho0_rep : class_rep rho0.
Proof. split; [apply rho0_py_eq|apply rho0_class]. Qed.

Lemma rho_tot_rep m : class_rep (rho_tot m).
Proof.
  split.
  - intro a. unfold rho_tot. destruct (inclass m a); [apply rho_py_eq|apply rho0_py_eq].
  - intros a b E. unfold rho_tot. rewrite <- (inclass_class m a b E).
    destruct (inclass m a) eqn:Hi; [apply rho_class; auto|apply rho0_class; auto].
Qed.
Lemma rho_tot_agrees m : agrees (rho_tot m) m.
Proof.
  split; [apply rho_tot_rep|]. intros a Ha. unfold rho_tot. rewrite Ha. reflexivity.
Qed.

(* ---- renaming and the guards ---- *)
Lemma py_eq_tag_safe a b : py_eq a b = true -> tag_safe_atom b = tag_safe_atom a.
Proof.
  destruct a, b; cbn; try discriminate; try reflexivity;
    try (destruct b; discriminate); try (destruct b0; discriminate).
  intro E. apply ValueFacts.pystr_eqb_eq in E. subst. reflexivity.
Qed.

Lemma atoms_cmap f v : atoms_of (cmap f v) = map f (atoms_of v).
Proof.
  induction v as [a|xs IH|xs IH|kvs IH|xs|xs] using value_ind'; cbn [cmap atoms_of map]; try reflexivity.
  - induction xs as [|x r IHr]; cbn [map flat_map]; [reflexivity|]. inversion IH as [|? ? I1 I2]; subst.
    rewrite map_app, I1, (IHr I2). reflexivity.
  - induction xs as [|x r IHr]; cbn [map flat_map]; [reflexivity|]. inversion IH as [|? ? I1 I2]; subst.
    rewrite map_app, I1, (IHr I2). reflexivity.
  - induction kvs as [|[k x] r IHr]; cbn [map flat_map fst snd]; [reflexivity|]. inversion IH as [|? ? I1 I2]; subst.
    cbn [snd] in I1. rewrite map_app. cbn [map]. rewrite I1, (IHr I2). reflexivity.
Qed.

Lemma tag_safe_cmap f v : (forall a, py_eq a (f a) = true) -> tag_safe v = true -> tag_safe (cmap f v) = true.
Proof.
  intros Hf. unfold tag_safe. rewrite atoms_cmap, !forallb_forall. intros Ht a Ha.
  apply in_map_iff in Ha as [b [<- Hb]]. rewrite (py_eq_tag_safe b (f b) (Hf b)). auto.
Qed.

Lemma nodup_map_rep f xs : (forall a, py_eq a (f a) = true) -> nodup_atoms xs = true -> nodup_atoms (map f xs) = true.
Proof.
  intros Hf. induction xs as [|a r IH]; cbn [nodup_atoms map]; intro Hn; [reflexivity|].
  apply andb_true_iff in Hn as [Hm Hn]. apply andb_true_iff. split; [|apply IH; exact Hn].
  apply negb_true_iff. apply negb_true_iff in Hm.
  destruct (mem_atom (f a) (map f r)) eqn:E; [|reflexivity]. exfalso.
  apply mem_atom_In in E as [b' [Hb' Hp]]. apply in_map_iff in Hb' as [b [<- Hb]].
  assert (Hc : mem_atom a r = true); [|congruence].
  apply mem_atom_In. exists b. split; auto.
  apply (py_eq_trans a (f a) b); [apply Hf|]. apply (py_eq_trans (f a) (f b) b); [exact Hp|]. apply py_eq_sym_true, Hf.
Qed.

Lemma wf_cmap f v : (forall a, py_eq a (f a) = true) -> wf v = true -> wf (cmap f v) = true.
Proof.
  intros Hf. induction v as [a|xs IH|xs IH|kvs IH|xs|xs] using value_ind'; cbn [cmap wf]; intro W; auto.
  - rewrite forallb_forall in *. intros y Hy. apply in_map_iff in Hy as [x [<- Hx]]. rewrite Forall_forall in IH. apply IH; auto.
  - rewrite forallb_forall in *. intros y Hy. apply in_map_iff in Hy as [x [<- Hx]]. rewrite Forall_forall in IH. apply IH; auto.
  - apply andb_true_iff in W as [W1 W2]. apply andb_true_iff. split.
    + rewrite map_map. cbn [fst]. rewrite <- (map_map fst f). apply nodup_map_rep; auto.
    + rewrite forallb_forall in *. intros y Hy. apply in_map_iff in Hy as [x [<- Hx]]. cbn [snd]. rewrite Forall_forall in IH. apply IH; auto.
  - apply nodup_map_rep; auto.
  - apply nodup_map_rep; auto.
Qed.

Lemma wf_cb f v : (forall a, py_eq a (f a) = true) -> wf v = true -> wf (cb f v) = true.
Proof.
  intros Hf. induction v as [a|xs IH|xs IH|kvs IH|xs|xs] using value_ind'; intro W;
    try (apply wf_cmap; auto; fail); [reflexivity|].
  cbn [cb wf] in *. apply andb_true_iff in W as [W1 W2]. apply andb_true_iff. split.
  - rewrite map_map. cbn [fst]. rewrite <- (map_map fst f). apply nodup_map_rep; auto.
  - rewrite forallb_forall in *. intros y Hy. apply in_map_iff in Hy as [x [<- Hx]]. cbn [snd]. rewrite Forall_forall in IH. apply IH; auto.
Qed.

Lemma tag_safe_cb f v : (forall a, py_eq a (f a) = true) -> tag_safe v = true -> tag_safe (cb f v) = true.
Proof.
  intros Hf. induction v as [a|xs IH|xs IH|kvs IH|xs|xs] using value_ind'; intro T;
    try (apply tag_safe_cmap; auto; fail); [exact T|].
  rewrite tag_safe_forall in *. cbn [cb atoms_of]. intros a Ha.
  apply in_flat_map in Ha as [kv' [Hkv' Ha]]. apply in_map_iff in Hkv' as [[k x] [<- Hkv]]. cbn [fst snd] in Ha.
  destruct Ha as [<-|Ha].
  - rewrite (py_eq_tag_safe k (f k) (Hf k)). apply T. cbn [atoms_of]. apply in_flat_map. exists (k, x). split; auto. left; reflexivity.
  - rewrite Forall_forall in IH. specialize (IH (k, x) Hkv). cbn [snd] in IH.
    assert (Tx : tag_safe x = true).
    { rewrite tag_safe_forall. intros b Hb. apply T. cbn [atoms_of]. apply in_flat_map. exists (k, x). split; auto. right; exact Hb. }
    specialize (IH Tx). rewrite tag_safe_forall in IH. apply IH. exact Ha.
Qed.

(* ---- eqv is preserved by renaming ---- *)
Section EqvMap.
Variable o : hopts.

Lemma vis_map (F : atom * value -> atom * value) kvs :
  (forall kv, hidden o (fst (F kv)) = hidden o (fst kv)) -> vis o (map F kvs) = map F (vis o kvs).
Proof.
  intro Hk. unfold vis. induction kvs as [|kv r IH]; cbn [map filter]; [reflexivity|].
  rewrite Hk. destruct (hidden o (fst kv)); cbn [negb map]; rewrite IH; reflexivity.
Qed.

Lemma seq_rel_map (R R' : value -> value -> Prop) (g : value -> value) xs ys :
  (forall x y, In x xs -> R x y -> R' (g x) (g y)) ->
  seq_rel o R xs ys -> seq_rel o R' (map g xs) (map g ys).
Proof.
  intros Hg Hr. destruct Hr as [xs ys Hir Hio H1 H2|xs ys ys' Hir Hio Hp HF|xs ys Hio HF].
  - apply seq_as_set; auto.
    + intros x' Hx'. apply in_map_iff in Hx' as [x [<- Hx]]. destruct (H1 x Hx) as [y [Hy Hxy]].
      exists (g y). split; [apply in_map; exact Hy|apply Hg; auto].
    + intros y' Hy'. apply in_map_iff in Hy' as [y [<- Hy]]. destruct (H2 y Hy) as [x [Hx Hxy]].
      exists (g x). split; [apply in_map; exact Hx|apply Hg; auto].
  - apply (seq_as_multiset o R' _ _ (map g ys')); auto; [apply Permutation_map; exact Hp|].
    clear Hp. induction HF as [|x y l l' Hxy HF IHF]; cbn [map]; constructor.
    + apply Hg; auto. left; reflexivity.
    + apply IHF. intros; apply Hg; auto. right; auto.
  - apply seq_ordered; auto.
    induction HF as [|x y l l' Hxy HF IHF]; cbn [map]; constructor.
    + apply Hg; auto. left; reflexivity.
    + apply IHF. intros; apply Hg; auto. right; auto.
Qed.

Lemma items_rel_map_kv (R R' : value -> value -> Prop) (gk : atom -> atom) (gv : value -> value) l1 l2 :
  (forall p q : atom * value, In p l1 -> R (snd p) (snd q) -> R' (gv (snd p)) (gv (snd q))) ->
  items_rel R l1 l2 ->
  items_rel R' (map (fun kv : atom * value => (gk (fst kv), gv (snd kv))) l1) (map (fun kv : atom * value => (gk (fst kv), gv (snd kv))) l2).
Proof.
  intros Hg Hr. destruct Hr as [l1 l2 l2' Hp HF].
  apply (items_perm R' _ _ (map (fun kv : atom * value => (gk (fst kv), gv (snd kv))) l2')); [apply Permutation_map; exact Hp|].
  clear Hp. induction HF as [|p q l l' [Hk Hv] HF IHF]; cbn [map]; constructor.
  - cbn [fst snd]. split; [rewrite Hk; reflexivity|]. apply (Hg p q); auto. left; reflexivity.
  - apply IHF. intros; eapply Hg; eauto. right; auto.
Qed.

Lemma eqv_cmap g u : keeps_hidden o g -> forall v, eqv o u v -> eqv o (cmap g u) (cmap g v).
Proof.
  intro Kg. induction u as [a|xs IH|xs IH|kvs IH|xs|xs] using value_ind'; intros v He; inversion He; subst; cbn [cmap].
  - constructor.
  - constructor. eapply seq_rel_map; [|eassumption]. intros x y Hx Hxy. rewrite Forall_forall in IH. apply IH; auto.
  - constructor. eapply seq_rel_map; [|eassumption]. intros x y Hx Hxy. rewrite Forall_forall in IH. apply IH; auto.
  - constructor. rewrite !(vis_map (fun kv => (g (fst kv), cmap g (snd kv)))) by (intro kv; apply Kg).
    eapply items_rel_map_kv; [|eassumption]. intros p q Hp Hpq. rewrite Forall_forall in IH. apply (IH p); auto.
    unfold vis in Hp. apply filter_In in Hp. tauto.
  - constructor. apply Permutation_map. assumption.
  - constructor. apply Permutation_map. assumption.
Qed.

Lemma eqv_cb g u : keeps_hidden o g -> forall v, eqv o u v -> eqv o (cb g u) (cb g v).
Proof.
  intro Kg. induction u as [a|xs IH|xs IH|kvs IH|xs|xs] using value_ind'; intros v He;
    try (inversion He; subst; apply (eqv_cmap g _ Kg _ He); fail).
  - inversion He; subst. constructor.
  - inversion He; subst. cbn [cb]. constructor.
    rewrite !(vis_map (fun kv => (g (fst kv), cb g (snd kv)))) by (intro kv; apply Kg).
    eapply items_rel_map_kv; [|eassumption]. intros p q Hp Hpq. rewrite Forall_forall in IH. apply (IH p); auto.
    unfold vis in Hp. apply filter_In in Hp. tauto.
Qed.
End EqvMap.

Lemma cb_cmap_absorb f g v : (forall a, g (f a) = g a) -> cmap g (cb f v) = cmap g v.
Proof.
  intro Hgf. induction v as [a|xs IH|xs IH|kvs IH|xs|xs] using value_ind';
    try (cbn [cb]; rewrite cmap_cmap; apply cmap_ext; intros; apply Hgf); [reflexivity|].
  cbn [cb cmap]. f_equal. rewrite map_map. apply map_ext_in. intros [k x] Hx. cbn [fst snd].
  rewrite Forall_forall in IH. pose proof (IH (k, x) Hx) as E. cbn [snd] in E. rewrite E, Hgf. reflexivity.
Qed.

Lemma cb_cb_absorb f g v : (forall a, g (f a) = g a) -> cb g (cb f v) = cb g v.
Proof.
  intro Hgf. induction v as [a|xs IH|xs IH|kvs IH|xs|xs] using value_ind';
    try (cbn [cb cmap]; rewrite <- ?cmap_cmap; fail); try reflexivity.
  - cbn [cb cmap]. f_equal. rewrite map_map. apply map_ext_in. intros x Hx. rewrite cmap_cmap. apply cmap_ext. intros; apply Hgf.
  - cbn [cb cmap]. f_equal. rewrite map_map. apply map_ext_in. intros x Hx. rewrite cmap_cmap. apply cmap_ext. intros; apply Hgf.
  - cbn [cb]. f_equal. rewrite map_map. apply map_ext_in. intros [k x] Hx. cbn [fst snd].
    rewrite Forall_forall in IH. pose proof (IH (k, x) Hx) as E. cbn [snd] in E. rewrite E, Hgf. reflexivity.
  - cbn [cb cmap]. f_equal. rewrite map_map. apply map_ext_in. intros a Ha. apply Hgf.
  - cbn [cb cmap]. f_equal. rewrite map_map. apply map_ext_in. intros a Ha. apply Hgf.
Qed.

(* the relation does not depend on which representatives are chosen *)
Lemma cb_rep_change o f g t1 t2 : class_rep f -> class_rep g ->
  eqv o (cb f t1) (cb f t2) -> eqv o (cb g t1) (cb g t2).
Proof.
  intros [F1 F2] [G1 G2] He.
  assert (Hgf : forall a, g (f a) = g a) by (intro a; symmetry; apply G2; apply F1).
  rewrite <- (cb_cb_absorb f g t1 Hgf), <- (cb_cb_absorb f g t2 Hgf).
  apply eqv_cb; auto. apply class_keeps_hidden. exact G1.
Qed.

(* ================================================================== *)
(** * The verdict of the hash-parametric traversal *)

Lemma nth_rec_map_g (D : value -> rec_fn) xs i x : nth_error xs i = Some x -> nth_rec (map D xs) i = D x.
Proof.
  unfold nth_rec. revert i; induction xs as [|y r IH]; intros [|i]; cbn; try discriminate.
  - intros E; inversion E; reflexivity.
  - apply IH.
Qed.

Lemma added_nil_g hh1 hh2 : (forall h, In h hh2 -> In h hh1) -> hashes_added_g hh1 hh2 = [].
Proof.
  intros Hs. unfold hashes_added_g. apply filter_nil. intros h Hin.
  apply negb_false_iff, mem_h_In. unfold t1_hashes_g, t2_hashes_g in *.
  apply dedup_In. apply Hs. apply dedup_In. exact Hin.
Qed.
Lemma removed_nil_g hh1 hh2 : (forall h, In h hh1 -> In h hh2) -> hashes_removed_g hh1 hh2 = [].
Proof.
  intros Hs. unfold hashes_removed_g. apply filter_nil. intros h Hin.
  apply negb_false_iff, mem_h_In. unfold t1_hashes_g, t2_hashes_g in *.
  apply dedup_In. apply Hs. apply dedup_In. exact Hin.
Qed.

Section Verdict.
Variable H : pystr -> pystr.
Variable udiff : pystr -> pystr -> pystr.
Variable excl : path -> bool.
Variable c : cfg.
Variable rep : bool.
Variable pairs : path -> list (nat * nat).
Hypothesis thr_le_one : thr_num c <= thr_den c.
Variable f : atom -> atom.
Hypothesis f_rep : class_rep f.

Notation o := (io_opts c rep).
Notation hvf := (hv_of H c rep f).
Notation haf := (ha_of H c rep f).
Notation dcc := (diff_io_c hvf haf udiff no_skip excl c rep pairs).
Notation hp := (hash_pure H o).

Lemma f_eq a : py_eq a (f a) = true.
Proof. apply (proj1 f_rep). Qed.
Lemma f_cls a b : py_eq a b = true -> f a = f b.
Proof. apply (proj2 f_rep). Qed.
Lemma f_keeps : keeps_hidden o f.
Proof. apply class_keeps_hidden. exact f_eq. Qed.
Lemma o_rep' : ignore_repetition o = negb rep.
Proof. reflexivity. Qed.

Lemma iter_c_empty recs xs ys hh1 hh2 p1 p2 :
  hashes_added_g hh1 hh2 = [] -> hashes_removed_g hh1 hh2 = [] ->
  (rep = true -> forall h, count h hh1 = count h hh2) ->
  iter_c no_skip rep pairs recs xs ys hh1 hh2 p1 p2 = ([], []).
Proof.
  intros Ha Hr Hc. unfold iter_c. rewrite Ha, Hr. cbn [added_loop].
  destruct (rep_cases rep) as [E|E].
  - rewrite (if_true _ _ _ E). cbn [map concat_res fold_right app2 fst snd app].
    rewrite concat_res_nil; [reflexivity|].
    intros h _. unfold repetition_one_g. rewrite !indexes_length, (Hc E h), Nat.eqb_refl. reflexivity.
  - rewrite (if_false _ _ _ E). reflexivity.
Qed.

Lemma eqv_hp a b : eqv o a b -> hp a = hp b.
Proof. intro He. apply eqv_hash; [reflexivity|exact He]. Qed.

Lemma seq_rel_iter_c recs xs ys us vs p1 p2 :
  seq_rel o (eqv o) us vs -> iter_c no_skip rep pairs recs xs ys (map hp us) (map hp vs) p1 p2 = ([], []).
Proof.
  intros Hr. destruct Hr as [us vs Hir Hio Hx Hy|us vs vs' Hir Hio Hp HF|us vs Hio HF].
  - rewrite o_rep' in Hir. apply negb_true_iff in Hir.
    apply iter_c_empty.
    + apply added_nil_g. intros h Hin. apply in_map_iff in Hin as [y [<- Hin]].
      destruct (Hy y Hin) as [x [Hxi He]]. apply in_map_iff. exists x. split; auto. apply eqv_hp; auto.
    + apply removed_nil_g. intros h Hin. apply in_map_iff in Hin as [x [<- Hin]].
      destruct (Hx x Hin) as [y [Hyi He]]. apply in_map_iff. exists y. split; auto. symmetry. apply eqv_hp; auto.
    + intros E; congruence.
  - assert (Hm : map hp us = map hp vs').
    { apply (Forall2_map_eq _ _ hp (eqv o) us vs' HF). intros; apply eqv_hp; auto. }
    assert (Hperm : Permutation (map hp us) (map hp vs)).
    { rewrite Hm. apply Permutation_map, Permutation_sym, Hp. }
    apply iter_c_empty.
    + apply added_nil_g. intros h Hin. eapply Permutation_in; [apply Permutation_sym, Hperm|exact Hin].
    + apply removed_nil_g. intros h Hin. eapply Permutation_in; [apply Hperm|exact Hin].
    + intros _ h. apply count_perm, Hperm.
  - discriminate Hio.
Qed.

(* ---- one level: an empty result forces equal arranged hashes ---- *)
Section LevelSoundC.
Variables (D : value -> rec_fn) (hvx : value -> pystr) (xs ys : list value) (p1 p2 : path).
Hypothesis IHx : forall x y q1 q2, In x xs -> In y ys -> fst (D x y q1 q2) = [] -> hvx x = hvx y.

Notation hh1 := (map hvx xs).
Notation hh2 := (map hvx ys).
Notation recs := (map D xs).

Lemma h1_item_c i r : nth_error hh1 i = Some r -> exists x, nth_error xs i = Some x /\ In x xs /\ hvx x = r.
Proof.
  intros Hn. apply nth_error_map_inv in Hn as [x [Hx Hr]]. exists x. split; auto. split; auto.
  eapply nth_error_In; eauto.
Qed.
Lemma h2_item_c j a : nth_error hh2 j = Some a -> exists y, nth_error ys j = Some y /\ In y ys /\ hvx y = a.
Proof.
  intros Hn. apply nth_error_map_inv in Hn as [y [Hy Hr]]. exists y. split; auto. split; auto.
  eapply nth_error_In; eauto.
Qed.

Lemma partner_in_c a rem r : partner_g pairs hh1 hh2 p1 a rem = Some r -> In r hh1.
Proof.
  unfold partner_g. destruct (find _ _) as [ji|]; [|discriminate].
  destruct (nth_error hh1 (snd ji)) as [r'|] eqn:E; [|discriminate].
  destruct (mem_h r' rem); [|discriminate]. intros X; inversion X; subst.
  eapply nth_error_In; eauto.
Qed.

Lemma added_one_c_nonempty a rem :
  In a hh2 -> ~ In a hh1 -> fst (fst (added_one_c no_skip pairs recs ys hh1 hh2 p1 p2 a rem)) <> [].
Proof.
  intros Ha2 Ha1. unfold added_one_c.
  destruct (partner_g pairs hh1 hh2 p1 a rem) as [r|] eqn:P; cbn [fst]; [|rewrite rpt_one; discriminate].
  apply partner_in_c in P.
  destruct (h1_item_c _ _ (first_of_index r hh1 P)) as [x [Hx [Hxi Hxr]]].
  destruct (h2_item_c _ _ (first_of_index a hh2 Ha2)) as [y [Hy [Hyi Hya]]].
  unfold item2. rewrite Hy. rewrite (nth_rec_map_g D _ _ _ Hx).
  intro Hn. apply IHx in Hn; auto. apply Ha1. rewrite <- Hya, <- Hn, Hxr. exact P.
Qed.

Lemma added_one_rep_c_nonempty a rem :
  In a hh2 -> ~ In a hh1 -> fst (fst (added_one_rep_c no_skip pairs recs ys hh1 hh2 p1 p2 a rem)) <> [].
Proof.
  intros Ha2 Ha1. unfold added_one_rep_c.
  pose proof (indexes_nonempty a hh2 0 Ha2) as Hjs.
  destruct (partner_g pairs hh1 hh2 p1 a rem) as [r|] eqn:P; cbn [fst].
  - apply partner_in_c in P.
    destruct (h1_item_c _ _ (first_of_index r hh1 P)) as [x [Hx [Hxi Hxr]]].
    destruct (h2_item_c _ _ (first_of_index a hh2 Ha2)) as [y [Hy [Hyi Hya]]].
    unfold item2. rewrite Hy. rewrite (nth_rec_map_g D _ _ _ Hx).
    pose proof (indexes_nonempty r hh1 0 P) as His.
    destruct (indexes_of r hh1 0) as [|i0 is_]; [congruence|].
    cbn [fold_right]. rewrite fst_app2. intro Hn. apply app_eq_nil in Hn as [Hn _].
    apply IHx in Hn; auto. apply Ha1. rewrite <- Hya, <- Hn, Hxr. exact P.
  - destruct (indexes_of a hh2 0) as [|j0 js]; [congruence|].
    cbn [flat_map]. rewrite rpt_one. discriminate.
Qed.

Lemma added_loop_nil_c (one : pystr -> list pystr -> res * list pystr) adds rem :
  (forall a rem', In a adds -> fst (fst (one a rem')) <> []) ->
  fst (fst (added_loop one adds rem)) = [] -> adds = [].
Proof.
  destruct adds as [|a adds']; [reflexivity|]. intros Hone. cbn [added_loop].
  destruct (one a rem) as [r1 rem1] eqn:E1. destruct (added_loop one adds' rem1) as [r2 rem2].
  cbn [fst]. rewrite fst_app2. intro Hn. apply app_eq_nil in Hn as [Hn _].
  exfalso. apply (Hone a rem (or_introl eq_refl)). rewrite E1. exact Hn.
Qed.

Lemma added_spec_c a : In a (hashes_added_g hh1 hh2) -> In a hh2 /\ ~ In a hh1.
Proof.
  unfold hashes_added_g. rewrite filter_In. intros [Hi Hm]. unfold t2_hashes_g, t1_hashes_g in *.
  apply (proj1 (dedup_In _ _)) in Hi. split; auto. apply negb_true_iff, mem_h_false in Hm.
  intro X. apply Hm. apply (proj2 (dedup_In _ _)). exact X.
Qed.
Lemma removed_spec_c r : In r (hashes_removed_g hh1 hh2) -> In r hh1 /\ ~ In r hh2.
Proof.
  unfold hashes_removed_g. rewrite filter_In. intros [Hi Hm]. unfold t2_hashes_g, t1_hashes_g in *.
  apply (proj1 (dedup_In _ _)) in Hi. split; auto. apply negb_true_iff, mem_h_false in Hm.
  intro X. apply Hm. apply (proj2 (dedup_In _ _)). exact X.
Qed.
Lemma all_in_2_1_c : hashes_added_g hh1 hh2 = [] -> forall x, In x hh2 -> In x hh1.
Proof.
  intros Hadd x Hx. apply (proj2 (dedup_In _ _)) in Hx. unfold hashes_added_g in Hadd.
  pose proof (filter_nil_inv _ _ x Hadd Hx) as Hf. apply negb_false_iff, mem_h_In in Hf.
  apply (proj1 (dedup_In _ _)) in Hf. exact Hf.
Qed.
Lemma all_in_1_2_c : hashes_removed_g hh1 hh2 = [] -> forall x, In x hh1 -> In x hh2.
Proof.
  intros Hrem x Hx. apply (proj2 (dedup_In _ _)) in Hx. unfold hashes_removed_g in Hrem.
  pose proof (filter_nil_inv _ _ x Hrem Hx) as Hf. apply negb_false_iff, mem_h_In in Hf.
  apply (proj1 (dedup_In _ _)) in Hf. exact Hf.
Qed.

Lemma iter_c_sound_arrange :
  fst (iter_c no_skip rep pairs recs xs ys hh1 hh2 p1 p2) = [] -> arrange o hh1 = arrange o hh2.
Proof.
  unfold iter_c. destruct (rep_cases rep) as [E|E].
  - rewrite (if_true _ _ _ E).
    destruct (added_loop _ (hashes_added_g hh1 hh2) (hashes_removed_g hh1 hh2)) as [ra remaining] eqn:EL.
    rewrite !fst_app2. intro Hn. apply app_eq_nil in Hn as [Ha Hn]. apply app_eq_nil in Hn as [Hr Hi].
    assert (Hadd : hashes_added_g hh1 hh2 = []).
    { eapply added_loop_nil_c; [|rewrite EL; exact Ha].
      intros a rem' Hin. apply added_spec_c in Hin as [X Y]. apply added_one_rep_c_nonempty; auto. }
    rewrite Hadd in EL. cbn [added_loop] in EL. inversion EL; subst ra remaining. clear EL.
    assert (Hrem : hashes_removed_g hh1 hh2 = []).
    { destruct (hashes_removed_g hh1 hh2) as [|r rs] eqn:Er; [reflexivity|]. exfalso.
      assert (Hin : In r (hashes_removed_g hh1 hh2)) by (rewrite Er; left; reflexivity).
      apply removed_spec_c in Hin as [X _].
      pose proof (fst_concat_res _ Hr (removed_one_rep_g no_skip xs hh1 p1 p2 r) (or_introl eq_refl)) as Hz.
      unfold removed_one_rep_g in Hz. cbn [fst] in Hz.
      pose proof (indexes_nonempty r hh1 0 X) as His.
      destruct (indexes_of r hh1 0); [congruence|]. cbn [flat_map] in Hz. rewrite rpt_one in Hz. discriminate. }
    apply arrange_perm; [reflexivity|]. apply count_eq_perm. intros h.
    destruct (in_dec pystr_eq_dec h hh2) as [Hin|Hnin].
    + assert (Hc : In h (filter (fun h0 => mem_h h0 (t1_hashes_g hh1)) (t2_hashes_g hh2))).
      { apply filter_In. split; [apply (proj2 (dedup_In _ _)); exact Hin|]. apply mem_h_In.
        apply (proj2 (dedup_In _ _)). apply all_in_2_1_c; auto. }
      pose proof (fst_concat_res _ Hi (repetition_one_g no_skip xs ys hh1 hh2 p1 p2 h) (in_map _ _ _ Hc)) as Hz.
      unfold repetition_one_g in Hz. rewrite !indexes_length in Hz.
      destruct (Nat.eqb (count h hh1) (count h hh2)) eqn:Ec.
      * apply Nat.eqb_eq in Ec. exact Ec.
      * cbn [no_skip fst] in Hz. discriminate.
    + rewrite (count_notin h hh2 Hnin). apply count_notin. intro X. apply Hnin. apply all_in_1_2_c; auto.
  - rewrite (if_false _ _ _ E).
    destruct (added_loop _ (hashes_added_g hh1 hh2) (hashes_removed_g hh1 hh2)) as [ra remaining] eqn:EL.
    rewrite !fst_app2. intro Hn. apply app_eq_nil in Hn as [Ha Hr].
    assert (Hadd : hashes_added_g hh1 hh2 = []).
    { eapply added_loop_nil_c; [|rewrite EL; exact Ha].
      intros a rem' Hin. apply added_spec_c in Hin as [X Y]. apply added_one_c_nonempty; auto. }
    rewrite Hadd in EL. cbn [added_loop] in EL. inversion EL; subst ra remaining. clear EL.
    assert (Hrem : hashes_removed_g hh1 hh2 = []).
    { destruct (hashes_removed_g hh1 hh2) as [|r rs] eqn:Er; [reflexivity|]. exfalso.
      pose proof (fst_concat_res _ Hr (removed_one_g no_skip xs hh1 p1 p2 r) (or_introl eq_refl)) as Hz.
      unfold removed_one_g in Hz. cbn [fst] in Hz. rewrite rpt_one in Hz. discriminate. }
    apply arrange_same_set; [reflexivity|rewrite o_rep', E; reflexivity|].
    intro x. split; [apply all_in_1_2_c|apply all_in_2_1_c]; auto.
Qed.
End LevelSoundC.

(* ---- equations ---- *)
Definition recs_d (kvs1 : list (atom * value)) : list (atom * rec_fn) :=
  map (fun kv : atom * value => (fst kv, dcc (snd kv))) kvs1.
Lemma recs_d_fix kvs1 :
  (fix go (l : list (atom * value)) : list (atom * rec_fn) :=
     match l with [] => [] | (k, v1) :: r => (k, dcc v1) :: go r end) kvs1 = recs_d kvs1.
Proof. unfold recs_d. induction kvs1 as [|[k v1] r IH]; cbn [map fst snd]; [reflexivity|]. rewrite IH. reflexivity. Qed.
Lemma recs_l_fix xs :
  (fix go (l : list value) : list rec_fn := match l with [] => [] | x :: r => dcc x :: go r end) xs = map dcc xs.
Proof. induction xs as [|x r IH]; cbn [map]; [reflexivity|]. rewrite IH. reflexivity. Qed.

Definition dict_c (kvs1 kvs2 : list (atom * value)) (p1 p2 : path) : res :=
  let k1 := keys_of c kvs1 in
  let k2 := keys_of c kvs2 in
  if dict_shortcut excl c k1 k2 p1 then (rpt no_skip KValue p1 p2 (Some (VDict kvs1)) (Some (VDict kvs2)) None, [])
  else app2 ((flat_map (fun k => if mem_atom k k1 then []
                          else rpt no_skip KDictAdd (snoc p1 (PKey k)) (snoc p2 (PKey k)) None (assoc k kvs2) None) k2 ++
              flat_map (fun k => if mem_atom k k2 then []
                          else rpt no_skip KDictRem (snoc p1 (PKey k)) (snoc p2 (PKey k)) (assoc k kvs1) None None) k1)%list, [])
            (common_c c (recs_d kvs1) k1 kvs2 p1 p2 k2).

Lemma dcc_dict kvs1 kvs2 p1 p2 : dcc (VDict kvs1) (VDict kvs2) p1 p2 = dict_c kvs1 kvs2 p1 p2.
Proof. cbn [diff_io_c no_skip type_of ty_eqb negb]. rewrite recs_d_fix. reflexivity. Qed.
Lemma dcc_list xs ys p1 p2 :
  dcc (VList xs) (VList ys) p1 p2 = iter_c no_skip rep pairs (map dcc xs) xs ys (map hvf xs) (map hvf ys) p1 p2.
Proof. cbn [diff_io_c no_skip type_of ty_eqb negb]. rewrite recs_l_fix. reflexivity. Qed.
Lemma dcc_tuple xs ys p1 p2 :
  dcc (VTuple xs) (VTuple ys) p1 p2 = iter_c no_skip rep pairs (map dcc xs) xs ys (map hvf xs) (map hvf ys) p1 p2.
Proof. cbn [diff_io_c no_skip type_of ty_eqb negb]. rewrite recs_l_fix. reflexivity. Qed.

Lemma hv_map xs : map hvf xs = map hp (map (cmap f) xs).
Proof. rewrite map_map. reflexivity. Qed.

Lemma dcc_type t1 t2 p1 p2 : fst (dcc t1 t2 p1 p2) = [] -> type_of t1 = type_of t2.
Proof.
  intro Hn. apply ty_eqb_eq. destruct (ty_eqb (type_of t1) (type_of t2)) eqn:E; [reflexivity|exfalso].
  destruct t1; cbn [diff_io_c no_skip] in Hn; rewrite E in Hn; cbn [negb fst] in Hn; rewrite rpt_one in Hn; discriminate.
Qed.

(* ---- keys ---- *)
Lemma nodup_py_eq_eq l a b : nodup_atoms l = true -> In a l -> In b l -> py_eq a b = true -> a = b.
Proof.
  induction l as [|x r IH]; cbn [nodup_atoms]; intros Hn Ha Hb E; [destruct Ha|].
  apply andb_true_iff in Hn as [Hm Hn]. apply negb_true_iff in Hm.
  destruct Ha as [<-|Ha], Hb as [<-|Hb]; auto.
  - exfalso. assert (Hc : mem_atom x r = true) by (apply mem_atom_In; exists b; auto). congruence.
  - exfalso. assert (Hc : mem_atom x r = true) by (apply mem_atom_In; exists a; split; auto; apply py_eq_sym_true; auto). congruence.
Qed.

Lemma assoc_py_eq {B} (l : list (atom * B)) k k2 v2 :
  nodup_atoms (map fst l) = true -> In (k2, v2) l -> py_eq k2 k = true -> assoc k l = Some v2.
Proof.
  induction l as [|[x w] r IH]; cbn [map fst nodup_atoms assoc]; intros Hn Hi E; [destruct Hi|].
  apply andb_true_iff in Hn as [Hm Hn]. apply negb_true_iff in Hm. destruct Hi as [Hi|Hi].
  - inversion Hi; subst. rewrite E. reflexivity.
  - destruct (py_eq x k) eqn:Ex; [exfalso|apply IH; auto].
    assert (Hc : mem_atom x (map fst r) = true); [|congruence].
    apply mem_atom_In. exists k2. split; [apply in_map_iff; exists (k2, v2); auto|].
    apply (py_eq_trans x k k2); auto. apply py_eq_sym_true; auto.
Qed.

Lemma keys_In k (v : value) kvs : In (k, v) kvs -> keep_key c k = true -> In k (keys_of c kvs).
Proof. intros Hi Hk. unfold keys_of. apply filter_In. split; auto. apply in_map_iff. exists (k, v). auto. Qed.
Lemma keys_In_inv k kvs : In k (keys_of c kvs) -> exists v, In (k, v) kvs /\ keep_key c k = true.
Proof.
  unfold keys_of. rewrite filter_In. intros [Hi Hk]. apply in_map_iff in Hi as [[k' v] [E Hi]]. cbn [fst] in E. subst.
  exists v. auto.
Qed.
Lemma keys_of_nodup kvs : nodup_atoms (map fst kvs) = true -> nodup_atoms (keys_of c kvs) = true.
Proof. intro Hn. unfold keys_of. apply nodup_filter. exact Hn. Qed.

Lemma find_rec_c_spec k' kvs1 g :
  find_rec_c c k' (recs_d kvs1) = Some g ->
  exists k v1, In (k, v1) kvs1 /\ keep_key c k = true /\ py_eq k k' = true /\ g = dcc v1.
Proof.
  unfold find_rec_c, recs_d. induction kvs1 as [|[k v1] r IH]; cbn [map find fst snd]; [discriminate|].
  destruct (keep_key c k && py_eq k k') eqn:E.
  - intro X. inversion X; subst. apply andb_true_iff in E as [E1 E2]. exists k, v1. repeat split; auto. left; reflexivity.
  - intro X. destruct (IH X) as [k0 [v0 [Hi Hr]]]. exists k0, v0. split; [right; exact Hi|exact Hr].
Qed.

Lemma find_rec_c_found k' kvs1 k v1 :
  nodup_atoms (map fst kvs1) = true -> In (k, v1) kvs1 -> keep_key c k = true -> py_eq k k' = true ->
  find_rec_c c k' (recs_d kvs1) = Some (dcc v1).
Proof.
  intros Hn Hi Hk E.
  destruct (find_rec_c c k' (recs_d kvs1)) as [g|] eqn:F.
  - destruct (find_rec_c_spec k' kvs1 g F) as [k0 [v0 [Hi0 [Hk0 [E0 ->]]]]].
    assert (k0 = k).
    { apply (nodup_py_eq_eq (map fst kvs1)); auto.
      - apply in_map_iff. exists (k0, v0). auto.
      - apply in_map_iff. exists (k, v1). auto.
      - apply (py_eq_trans k0 k' k); auto. apply py_eq_sym_true; auto. }
    subst k0. pose proof (nodup_assoc k v0 kvs1 Hn Hi0) as A0. pose proof (nodup_assoc k v1 kvs1 Hn Hi) as A1.
    rewrite A0 in A1. inversion A1; subst. reflexivity.
  - exfalso. unfold find_rec_c, recs_d in F.
    destruct (find _ _) as [kr|] eqn:F2; [discriminate|].
    pose proof (find_none _ _ F2 (k, dcc v1)) as Hx. cbn [fst] in Hx. rewrite Hk, E in Hx.
    assert (Hin : In (k, dcc v1) (map (fun kv : atom * value => (fst kv, dcc (snd kv))) kvs1)).
    { apply in_map_iff. exists (k, v1). auto. }
    specialize (Hx Hin). discriminate.
Qed.

Lemma common_c_nil recs k1 kvs2 p1 p2 keys2 :
  (forall k', In k' keys2 -> mem_atom k' k1 = true -> forall g v2, find_rec_c c k' recs = Some g -> assoc k' kvs2 = Some v2 ->
     forall q1 q2, g v2 q1 q2 = ([], [])) ->
  common_c c recs k1 kvs2 p1 p2 keys2 = ([], []).
Proof.
  induction keys2 as [|k' r IH]; intros Hl; cbn [common_c]; [reflexivity|].
  rewrite IH by (intros; eapply Hl; eauto; right; auto).
  destruct (mem_atom k' k1) eqn:Em; [|reflexivity].
  destruct (find_rec_c c k' recs) as [g|] eqn:Ef; [|reflexivity].
  destruct (assoc k' kvs2) as [v2|] eqn:Ea; [|reflexivity].
  rewrite (Hl k' (or_introl eq_refl) Em g v2 Ef Ea). reflexivity.
Qed.

Lemma common_c_nil_inv recs k1 kvs2 p1 p2 keys2 k' g v2 :
  fst (common_c c recs k1 kvs2 p1 p2 keys2) = [] -> In k' keys2 -> mem_atom k' k1 = true ->
  find_rec_c c k' recs = Some g -> assoc k' kvs2 = Some v2 ->
  fst (g v2 (snoc p1 (PKey k')) (snoc p2 (PKey k'))) = [].
Proof.
  induction keys2 as [|k0 r IH]; [intros _ []|]. cbn [common_c].
  intros Hn Hin Hm Hf Ha. destruct Hin as [->|Hin].
  - rewrite Hm, Hf, Ha in Hn. rewrite fst_app2 in Hn. apply app_eq_nil in Hn as [Hn _]. exact Hn.
  - apply IH; auto. destruct (mem_atom k0 k1); [|exact Hn].
    destruct (find_rec_c c k0 recs); [|exact Hn]. destruct (assoc k0 kvs2); [|exact Hn].
    rewrite fst_app2 in Hn. apply app_eq_nil in Hn as [_ Hn]. exact Hn.
Qed.

(* ---- sets ---- *)
Lemma diff_set_c_same xs ys p1 p2 :
  (forall a, In a xs -> In (f a) (map f ys)) -> (forall a, In a ys -> In (f a) (map f xs)) ->
  diff_set haf no_skip xs ys p1 p2 = [].
Proof.
  intros H12 H21. unfold diff_set.
  assert (Hh : forall a l, In (f a) (map f l) -> existsb (pystr_eqb (haf a)) (map haf l) = true).
  { intros a l Hi. apply existsb_exists. exists (haf a). split; [|apply ValueFacts.pystr_eqb_refl].
    apply in_map_iff in Hi as [x [E Hx]]. apply in_map_iff. exists x. split; auto. unfold ha_of. rewrite E. reflexivity. }
  match goal with |- (?a ++ ?b)%list = [] => assert (Ha : a = []); [|assert (Hb : b = []); [|rewrite Ha, Hb; reflexivity]] end;
  apply flat_map_nil; intros a Hin; apply first_per_hash_incl in Hin.
  - rewrite (Hh a xs (H21 a Hin)). reflexivity.
  - rewrite (Hh a ys (H12 a Hin)). reflexivity.
Qed.

(* ================================================================== *)
(** * equal modulo == gives the empty result *)

Theorem complete_c : forall t1 t2 p1 p2,
  wf t2 = true -> eqv o (cb f t1) (cb f t2) -> dcc t1 t2 p1 p2 = ([], []).
Proof.
  intros t1. induction t1 as [a|xs IH|xs IH|kvs IH|xs|xs] using value_ind'; intros t2 p1 p2 W2 He;
    destruct t2 as [b|ys|ys|kvs2|ys|ys]; cbn [cb cmap] in He; inversion He; subst.
  - cbn [diff_io_c no_skip type_of].
    assert (Ht : ty_eqb (atom_ty b) (atom_ty b) = true) by (destruct b; reflexivity).
    rewrite Ht. cbn [negb]. rewrite diff_atom_refl. reflexivity.
  - rewrite dcc_list, !hv_map. apply seq_rel_iter_c. assumption.
  - rewrite dcc_tuple, !hv_map. apply seq_rel_iter_c. assumption.
  - match goal with Hi : items_rel _ _ _ |- _ => rename Hi into Hit end.
    rewrite !(vis_map o (fun kv : atom * value => (f (fst kv), cb f (snd kv)))) in Hit by (intro kv; apply f_keeps).
    inversion Hit as [l1 l2 l2' Hp HF E1 E2]; subst l1 l2.
    cbn [wf] in W2. apply andb_true_iff in W2 as [N2 Wv2].
    set (F := fun kv : atom * value => (f (fst kv), cb f (snd kv))) in *.
    assert (P1 : forall k v1, In (k, v1) (vis o kvs) ->
                 exists k2 v2, In (k2, v2) (vis o kvs2) /\ f k = f k2 /\ eqv o (cb f v1) (cb f v2)).
    { intros k v1 Hin. destruct (Forall2_in_l _ _ _ _ _ (F (k, v1)) HF (in_map F _ _ Hin)) as [q [Hq [Hk Hv]]].
      apply (Permutation_in _ (Permutation_sym Hp)) in Hq. apply in_map_iff in Hq as [[k2 v2] [<- Hin2]].
      cbn [F fst snd] in *. exists k2, v2. auto. }
    assert (P2 : forall k2 v2, In (k2, v2) (vis o kvs2) -> exists k v1, In (k, v1) (vis o kvs) /\ f k = f k2).
    { intros k2 v2 Hin. pose proof (Permutation_in _ Hp (in_map F _ _ Hin)) as Hq.
      destruct (Forall2_in_r _ _ _ _ _ (F (k2, v2)) HF Hq) as [p [Hp' [Hk Hv]]].
      apply in_map_iff in Hp' as [[k v1] [<- Hin1]]. cbn [F fst snd] in *. exists k, v1. auto. }
    assert (K21 : forall k, In k (keys_of c kvs2) -> mem_atom k (keys_of c kvs) = true).
    { intros k2 Hk. destruct (keys_In_inv k2 kvs2 Hk) as [v2 [Hi2 Hkeep2]].
      destruct (P2 k2 v2) as [k [v1 [Hi1 Ef]]]; [apply vis_In; auto|].
      apply vis_In in Hi1 as [Hi1 Hkeep1]. apply mem_atom_In. exists k. split; [eapply keys_In; eauto|].
      apply py_eq_sym_true. eapply class_rep_inj; eauto. }
    assert (K12 : forall k, In k (keys_of c kvs) -> mem_atom k (keys_of c kvs2) = true).
    { intros k Hk. destruct (keys_In_inv k kvs Hk) as [v1 [Hi1 Hkeep1]].
      destruct (P1 k v1) as [k2 [v2 [Hi2 [Ef _]]]]; [apply vis_In; auto|].
      apply vis_In in Hi2 as [Hi2 Hkeep2]. apply mem_atom_In. exists k2. split; [eapply keys_In; eauto|].
      eapply class_rep_inj; eauto. }
    rewrite dcc_dict. unfold dict_c. rewrite (shortcut_same_keys excl c thr_le_one _ _ _ K21 K12).
    rewrite (flat_map_nil _ (keys_of c kvs2)) by (intros k Hk; rewrite (K21 k Hk); reflexivity).
    rewrite (flat_map_nil _ (keys_of c kvs)) by (intros k Hk; rewrite (K12 k Hk); reflexivity).
    rewrite common_c_nil; [reflexivity|].
    intros k' Hk' Hm g v2 Hf Ha q1 q2.
    destruct (find_rec_c_spec k' kvs g Hf) as [k [v1 [Hi1 [Hkeep1 [Ekk' ->]]]]].
    destruct (P1 k v1) as [k2 [v2' [Hi2 [Ef Hev]]]]; [apply vis_In; auto|].
    apply vis_In in Hi2 as [Hi2 Hkeep2].
    destruct (keys_In_inv k' kvs2 Hk') as [v2'' [Hi2'' _]].
    assert (k2 = k').
    { apply (nodup_py_eq_eq (map fst kvs2)); auto;
        [apply in_map_iff; exists (k2, v2'); auto|apply in_map_iff; exists (k', v2''); auto|].
      apply (py_eq_trans k2 k k'); auto. apply py_eq_sym_true. eapply class_rep_inj; eauto. }
    subst k2. rewrite (nodup_assoc k' v2' kvs2 N2 Hi2) in Ha. inversion Ha; subst v2'.
    rewrite Forall_forall in IH. apply (IH (k, v1) Hi1); auto.
    rewrite forallb_forall in Wv2. apply (Wv2 (k', v2) Hi2).
  - cbn [diff_io_c no_skip type_of ty_eqb negb]. rewrite diff_set_c_same; [reflexivity| |];
      intros a Ha; (eapply Permutation_in; [eassumption|apply in_map; exact Ha]) ||
                   (eapply Permutation_in; [apply Permutation_sym; eassumption|apply in_map; exact Ha]).
  - cbn [diff_io_c no_skip type_of ty_eqb negb]. rewrite diff_set_c_same; [reflexivity| |];
      intros a Ha; (eapply Permutation_in; [eassumption|apply in_map; exact Ha]) ||
                   (eapply Permutation_in; [apply Permutation_sym; eassumption|apply in_map; exact Ha]).
Qed.

(* ================================================================== *)
(** * the empty result only for inputs that are equal modulo == *)

(* C07 for the hasher at hand *)
Hypothesis Hyp_C07 : forall a b, wf a = true -> wf b = true -> tag_safe a = true -> tag_safe b = true ->
  hp a = hp b -> eqv o a b.
Hypothesis H_inj : forall s t, H s = H t -> s = t.

Lemma haf_inj a b : tag_safe_atom a = true -> tag_safe_atom b = true -> haf a = haf b -> f a = f b.
Proof.
  intros Ta Tb E. unfold ha_of in E. apply (hash_atom_inj H H_inj o); auto.
  - rewrite (py_eq_tag_safe a (f a) (f_eq a)). exact Ta.
  - rewrite (py_eq_tag_safe b (f b) (f_eq b)). exact Tb.
Qed.

Lemma diff_set_c_nil xs ys p1 p2 :
  (forall a, In a xs -> tag_safe_atom a = true) -> (forall a, In a ys -> tag_safe_atom a = true) ->
  diff_set haf no_skip xs ys p1 p2 = [] ->
  (forall a, In a xs -> In (f a) (map f ys)) /\ (forall a, In a ys -> In (f a) (map f xs)).
Proof.
  intros Tx Ty Hn. unfold diff_set in Hn. apply app_eq_nil in Hn as [Hadd Hrem].
  assert (G : forall l l' (r : atom -> list entry), (forall y, r y <> []) ->
            (forall a, In a l -> tag_safe_atom a = true) -> (forall a, In a l' -> tag_safe_atom a = true) ->
            flat_map (fun y => if existsb (pystr_eqb (haf y)) (map haf l') then [] else r y) (first_per_hash haf l []) = [] ->
            forall a, In a l -> In (f a) (map f l')).
  { intros l l' r Hr Tl Tl' Hfm a Ha.
    destruct (first_per_hash_cover haf l [] a Ha) as [Hs|[y' [Hy' He]]]; [discriminate|].
    pose proof (flat_map_nil_inv _ _ y' Hfm Hy') as Hz. cbn beta in Hz.
    destruct (existsb (pystr_eqb (haf y')) (map haf l')) eqn:E; [|exfalso; eapply Hr; eauto].
    apply existsb_exists in E as [h [Hh Hq]]. apply ValueFacts.pystr_eqb_eq in Hq. subst h.
    apply in_map_iff in Hh as [b [Hb Hbl]].
    apply in_map_iff. exists b. split; auto.
    apply first_per_hash_incl in Hy'.
    apply haf_inj; auto. congruence. }
  split.
  - apply (G xs ys (fun x => report_set no_skip KSetRem x p1 p2)); auto.
    intros y. unfold report_set. cbn [no_skip]. discriminate.
  - apply (G ys xs (fun y => report_set no_skip KSetAdd y p1 p2)); auto.
    intros y. unfold report_set. cbn [no_skip]. discriminate.
Qed.

Lemma set_perm xs ys p1 p2 :
  nodup_atoms xs = true -> nodup_atoms ys = true ->
  (forall a, In a xs -> tag_safe_atom a = true) -> (forall a, In a ys -> tag_safe_atom a = true) ->
  diff_set haf no_skip xs ys p1 p2 = [] -> Permutation (map f xs) (map f ys).
Proof.
  intros N1 N2 Tx Ty Hn. destruct (diff_set_c_nil xs ys p1 p2 Tx Ty Hn) as [H12 H21].
  apply NoDup_Permutation.
  - apply nodup_map_class; auto. exact f_eq.
  - apply nodup_map_class; auto. exact f_eq.
  - intro x. split; intro Hx; apply in_map_iff in Hx as [a [<- Ha]]; auto.
Qed.

Lemma Forall2_map_map {A B C} (R : B -> C -> Prop) (F : A -> B) (G : A -> C) l :
  (forall x, In x l -> R (F x) (G x)) -> Forall2 R (map F l) (map G l).
Proof.
  induction l as [|x r IH]; intros Hr; cbn [map]; constructor.
  - apply Hr; left; reflexivity.
  - apply IH. intros; apply Hr; right; auto.
Qed.

Lemma dict_c_sound kvs1 kvs2 p1 p2 :
  wf (VDict kvs1) = true -> wf (VDict kvs2) = true ->
  (forall k v1 k2 v2 q1 q2, In (k, v1) kvs1 -> In (k2, v2) kvs2 -> fst (dcc v1 v2 q1 q2) = [] -> eqv o (cb f v1) (cb f v2)) ->
  fst (dict_c kvs1 kvs2 p1 p2) = [] -> eqv o (cb f (VDict kvs1)) (cb f (VDict kvs2)).
Proof.
  intros W1 W2 IHv. unfold dict_c.
  destruct (dict_shortcut excl c (keys_of c kvs1) (keys_of c kvs2) p1); [cbn [fst]; rewrite rpt_one; discriminate|].
  rewrite fst_app2. cbn [fst]. intro Hn. apply app_eq_nil in Hn as [Hn Hcom]. apply app_eq_nil in Hn as [Hadd Hrem].
  cbn [wf] in W1, W2. apply andb_true_iff in W1 as [N1 _]. apply andb_true_iff in W2 as [N2 _].
  assert (K21 : forall k, In k (keys_of c kvs2) -> mem_atom k (keys_of c kvs1) = true).
  { intros k Hk. pose proof (flat_map_nil_inv _ _ k Hadd Hk) as Hz. cbn beta in Hz.
    destruct (mem_atom k (keys_of c kvs1)); [reflexivity|rewrite rpt_one in Hz; discriminate]. }
  assert (K12 : forall k, In k (keys_of c kvs1) -> mem_atom k (keys_of c kvs2) = true).
  { intros k Hk. pose proof (flat_map_nil_inv _ _ k Hrem Hk) as Hz. cbn beta in Hz.
    destruct (mem_atom k (keys_of c kvs2)); [reflexivity|rewrite rpt_one in Hz; discriminate]. }
  (* the partner of every visible item of kvs1 *)
  assert (P : forall k v1, In (k, v1) (vis o kvs1) ->
              exists k2 v2, In (k2, v2) (vis o kvs2) /\ py_eq k k2 = true /\ assoc k kvs2 = Some v2 /\ eqv o (cb f v1) (cb f v2)).
  { intros k v1 Hv. apply vis_In in Hv as [Hin Hkeep].
    pose proof (K12 k (keys_In k v1 kvs1 Hin Hkeep)) as Hm. apply mem_atom_In in Hm as [k2 [Hk2 E]].
    destruct (keys_In_inv k2 kvs2 Hk2) as [v2 [Hin2 Hkeep2]].
    exists k2, v2. split; [apply vis_In; auto|]. split; [exact E|].
    assert (A1 : assoc k kvs2 = Some v2) by (apply (assoc_py_eq kvs2 k k2 v2 N2 Hin2); apply py_eq_sym_true; exact E).
    split; [exact A1|].
    apply (IHv k v1 k2 v2 (snoc p1 (PKey k2)) (snoc p2 (PKey k2)) Hin Hin2).
    apply (common_c_nil_inv (recs_d kvs1) (keys_of c kvs1) kvs2 p1 p2 (keys_of c kvs2) k2 (dcc v1) v2 Hcom Hk2 (K21 k2 Hk2)).
    - apply find_rec_c_found with (k := k); auto.
    - apply nodup_assoc; auto. }
  cbn [cb]. apply eqv_dict.
  rewrite !(vis_map o (fun kv : atom * value => (f (fst kv), cb f (snd kv)))) by (intro kv; apply f_keeps).
  set (F := fun kv : atom * value => (f (fst kv), cb f (snd kv))).
  set (G := fun kv : atom * value => (f (fst kv), cb f (match assoc (fst kv) kvs2 with Some v => v | None => snd kv end))).
  assert (NDF : forall kvs, nodup_atoms (map fst kvs) = true -> NoDup (map F (vis o kvs))).
  { intros kvs Hn. apply NoDup_fst. rewrite map_map. cbn [F fst]. rewrite <- (map_map fst f), <- keys_vis.
    apply nodup_map_class; [exact f_eq|apply keys_of_nodup; exact Hn]. }
  apply items_perm with (l2' := map G (vis o kvs1)).
  - apply NoDup_Permutation.
    + apply NDF; exact N2.
    + apply NoDup_fst. rewrite map_map. cbn [G fst]. rewrite <- (map_map fst f), <- keys_vis.
      apply nodup_map_class; [exact f_eq|apply keys_of_nodup; exact N1].
    + intros x. split.
      * intros Hx. apply in_map_iff in Hx as [[k2 v2] [<- Hv2]].
        pose proof Hv2 as Hv2'. apply vis_In in Hv2' as [Hin2 Hkeep2].
        pose proof (K21 k2 (keys_In k2 v2 kvs2 Hin2 Hkeep2)) as Hm. apply mem_atom_In in Hm as [k [Hk E]].
        destruct (keys_In_inv k kvs1 Hk) as [v1 [Hin1 Hkeep1]].
        destruct (P k v1) as [k2' [v2' [Hv2'' [E' [A' _]]]]]; [apply vis_In; auto|].
        apply vis_In in Hv2'' as [Hin2' _].
        assert (k2' = k2).
        { apply (nodup_py_eq_eq (map fst kvs2)); auto;
            [apply in_map_iff; exists (k2', v2'); auto|apply in_map_iff; exists (k2, v2); auto|].
          apply (py_eq_trans k2' k k2); [apply py_eq_sym_true; exact E'|apply py_eq_sym_true; exact E]. }
        subst k2'. pose proof (nodup_assoc k2 v2 kvs2 N2 Hin2) as B1. pose proof (nodup_assoc k2 v2' kvs2 N2 Hin2') as B2.
        rewrite B1 in B2. inversion B2; subst v2'.
        apply in_map_iff. exists (k, v1). split; [|apply vis_In; auto].
        unfold G, F. cbn [fst snd]. rewrite A'. f_equal. apply f_cls. apply py_eq_sym_true. exact E.
      * intros Hx. apply in_map_iff in Hx as [[k v1] [<- Hv1]].
        destruct (P k v1 Hv1) as [k2 [v2 [Hv2 [E [A _]]]]].
        apply in_map_iff. exists (k2, v2). split; [|exact Hv2].
        unfold G, F. cbn [fst snd]. rewrite A. f_equal. symmetry. apply f_cls. exact E.
  - apply Forall2_map_map. intros [k v1] Hv1. unfold F, G. cbn [fst snd]. split; [reflexivity|].
    destruct (P k v1 Hv1) as [k2 [v2 [_ [_ [A He]]]]]. rewrite A. exact He.
Qed.

Theorem sound_c : forall t1 t2 p1 p2,
  wf t1 = true -> wf t2 = true -> tag_safe t1 = true -> tag_safe t2 = true ->
  fst (dcc t1 t2 p1 p2) = [] -> eqv o (cb f t1) (cb f t2).
Proof.
  assert (Seq : forall (mk : list value -> value) xs ys p1 p2,
            (forall l, cb f (mk l) = cmap f (mk l)) ->
            (forall l, exists nm, hp (cmap f (mk l)) = H (retag o (seq_result nm (arrange o (map hvf l)))) /\
                                  forall l', hp (cmap f (mk l')) = H (retag o (seq_result nm (arrange o (map hvf l'))))) ->
            (forall x l, In x l -> incl (atoms_of x) (atoms_of (mk l))) ->
            (forall x l, wf (mk l) = true -> In x l -> wf x = true) ->
            Forall (fun x => forall t2 q1 q2, wf x = true -> wf t2 = true -> tag_safe x = true -> tag_safe t2 = true ->
                             fst (dcc x t2 q1 q2) = [] -> eqv o (cb f x) (cb f t2)) xs ->
            wf (mk xs) = true -> wf (mk ys) = true -> tag_safe (mk xs) = true -> tag_safe (mk ys) = true ->
            fst (iter_c no_skip rep pairs (map dcc xs) xs ys (map hvf xs) (map hvf ys) p1 p2) = [] ->
            eqv o (cb f (mk xs)) (cb f (mk ys))).
  { intros mk xs ys p1 p2 Hcb Hh Hat Hw IH W1 W2 T1 T2 Hn.
    rewrite !Hcb. apply Hyp_C07.
    - apply wf_cmap; [exact f_eq|exact W1].
    - apply wf_cmap; [exact f_eq|exact W2].
    - apply tag_safe_cmap; [exact f_eq|exact T1].
    - apply tag_safe_cmap; [exact f_eq|exact T2].
    - destruct (Hh xs) as [nm [E1 E2]]. rewrite E1, (E2 ys). do 3 f_equal.
      apply (iter_c_sound_arrange dcc hvf xs ys p1 p2); auto.
      intros x y q1 q2 Hx Hy Hd.
      rewrite Forall_forall in IH.
      assert (He : eqv o (cb f x) (cb f y)).
      { apply (IH x Hx y q1 q2); auto.
        - apply (Hw x xs W1 Hx).
        - apply (Hw y ys W2 Hy).
        - apply (tag_safe_incl x (mk xs)); [apply Hat; exact Hx|exact T1].
        - apply (tag_safe_incl y (mk ys)); [apply Hat; exact Hy|exact T2]. }
      apply (eqv_cmap o f _ f_keeps) in He.
      rewrite !(cb_cmap_absorb f f) in He by (intro a; apply class_rep_idem; exact f_rep).
      unfold hv_of. apply eqv_hp. exact He. }
  intros t1. induction t1 as [a|xs IH|xs IH|kvs IH|xs|xs] using value_ind';
    intros t2 p1 p2 W1 W2 T1 T2 Hn; pose proof (dcc_type _ _ _ _ Hn) as Hty;
    destruct t2 as [b|ys|ys|kvs2|ys|ys]; try (cbn in Hty; destruct a; discriminate); try (cbn in Hty; destruct b; discriminate); try discriminate Hty.
  - cbn [diff_io_c no_skip type_of] in Hn.
    destruct (ty_eqb (atom_ty a) (atom_ty b)); cbn [negb fst] in Hn; [|rewrite rpt_one in Hn; discriminate].
    apply diff_atom_nil in Hn. subst. constructor.
  - rewrite dcc_list in Hn.
    apply (Seq VList xs ys p1 p2); auto.
    + intros l. exists (s2p "list"%string). split; [apply hash_pure_cmap_list|intro l'; apply hash_pure_cmap_list].
    + intros x l. apply atoms_item_list.
    + intros x l. apply wf_item_list.
  - rewrite dcc_tuple in Hn.
    apply (Seq VTuple xs ys p1 p2); auto.
    + intros l. exists (s2p "tuple"%string). split; [apply hash_pure_cmap_tuple|intro l'; apply hash_pure_cmap_tuple].
    + intros x l. apply atoms_item_tuple.
    + intros x l. apply wf_item_tuple.
  - rewrite dcc_dict in Hn. apply (dict_c_sound kvs kvs2 p1 p2); auto.
    intros k v1 k2 v2 q1 q2 Hi1 Hi2 Hd. rewrite Forall_forall in IH.
    apply (IH (k, v1) Hi1 v2 q1 q2); auto.
    + cbn [wf] in W1. apply andb_true_iff in W1 as [_ W1]. rewrite forallb_forall in W1. apply (W1 (k, v1) Hi1).
    + cbn [wf] in W2. apply andb_true_iff in W2 as [_ W2]. rewrite forallb_forall in W2. apply (W2 (k2, v2) Hi2).
    + eapply tag_safe_incl; [eapply atoms_dict_val; eauto|auto].
    + eapply tag_safe_incl; [eapply atoms_dict_val; eauto|auto].
  - cbn [diff_io_c no_skip type_of ty_eqb negb fst] in Hn. cbn [cb cmap].
    apply eqv_set. apply (set_perm xs ys p1 p2); auto.
    + intros a Ha. rewrite tag_safe_forall in T1. apply T1. exact Ha.
    + intros a Ha. rewrite tag_safe_forall in T2. apply T2. exact Ha.
  - cbn [diff_io_c no_skip type_of ty_eqb negb fst] in Hn. cbn [cb cmap].
    apply eqv_frozen. apply (set_perm xs ys p1 p2); auto.
    + intros a Ha. rewrite tag_safe_forall in T1. apply T1. exact Ha.
    + intros a Ha. rewrite tag_safe_forall in T2. apply T2. exact Ha.
Qed.
End Verdict.

(* ================================================================== *)
(** * Final forms *)

Lemma run_c_nil (H : pystr -> pystr) udiff excl c rep pairs f t1 t2 :
  fst (run_diff_io_cr H udiff no_skip excl c rep pairs f t1 t2) = [] <->
  fst (diff_io_cr H udiff no_skip excl c rep pairs f t1 t2 [] []) = [].
Proof.
  unfold run_diff_io_cr, run_diff_io_c, diff_io_cr. cbn zeta. cbn [fst].
  destruct rep; [tauto|apply mutual_nil].
Qed.

(* the memo-free traversal at ANY choice of class representatives *)
Theorem verdict_c :
  forall (H : pystr -> pystr),
  (forall s, s <> [] -> sepfree (H s)) -> (forall s t, H s = H t -> s = t) ->
  forall udiff excl c rep pairs f t1 t2,
  class_rep f -> thr_num c <= thr_den c ->
  wf t1 = true -> wf t2 = true -> tag_safe t1 = true -> tag_safe t2 = true ->
  (fst (run_diff_io_cr H udiff no_skip excl c rep pairs f t1 t2) = [] <-> eqv (io_opts c rep) (cb f t1) (cb f t2)).
Proof.
  intros H H_tok H_inj udiff excl c rep pairs f t1 t2 Hf Hthr W1 W2 T1 T2.
  rewrite run_c_nil. split.
  - unfold diff_io_cr. apply sound_c; auto.
    intros a b Wa Wb Ta Tb He. apply (hash_inj H H_tok H_inj (io_opts c rep) (plain_io c rep)); auto; reflexivity.
  - intro He. unfold diff_io_cr. rewrite complete_c; auto.
Qed.

(* THE VERDICT OF THE RUN WITH THE SHARED ==-KEYED TABLE, for all inputs in which no bool is == a non-bool:
   empty exactly when the inputs are equal as nested sets / multisets MODULO Python == on dict keys and on
   everything below the first list / tuple / set *)
Theorem verdict_shared_table :
  forall (H : pystr -> pystr),
  (forall s, s <> [] -> sepfree (H s)) -> (forall s t, H s = H t -> s = t) ->
  forall udiff excl c rep pairs t1 t2,
  thr_num c <= thr_den c ->
  wf t1 = true -> wf t2 = true -> tag_safe t1 = true -> tag_safe t2 = true -> bool_sep2 t1 t2 = true ->
  (fst (fst (run_diff_io_m H udiff no_skip excl c rep pairs t1 t2)) = [] <->
   eqv (io_opts c rep) (cb rho0 t1) (cb rho0 t2)).
Proof.
  intros H H_tok H_inj udiff excl c rep pairs t1 t2 Hthr W1 W2 T1 T2 Hs.
  set (m' := snd (run_diff_io_m H udiff no_skip excl c rep pairs t1 t2)).
  rewrite (run_m_canon H udiff no_skip excl c rep pairs t1 t2 W1 W2 Hs (rho_tot m') (rho_tot_agrees m')).
  rewrite (verdict_c H H_tok H_inj udiff excl c rep pairs (rho_tot m') t1 t2 (rho_tot_rep m') Hthr W1 W2 T1 T2).
  split; apply cb_rep_change; auto using rho0_rep, rho_tot_rep.
Qed.

(* <= needs neither the hypotheses on the hasher nor tag_safe; and identical types are a special case *)
Theorem equal_mod_alias_gives_empty :
  forall (H : pystr -> pystr) udiff excl c rep pairs t1 t2,
  thr_num c <= thr_den c -> wf t1 = true -> wf t2 = true -> bool_sep2 t1 t2 = true ->
  eqv (io_opts c rep) (cb rho0 t1) (cb rho0 t2) ->
  fst (run_diff_io_m H udiff no_skip excl c rep pairs t1 t2) = ([], []).
Proof.
  intros H udiff excl c rep pairs t1 t2 Hthr W1 W2 Hs He.
  set (m' := snd (run_diff_io_m H udiff no_skip excl c rep pairs t1 t2)).
  rewrite (run_m_canon H udiff no_skip excl c rep pairs t1 t2 W1 W2 Hs (rho_tot m') (rho_tot_agrees m')).
  unfold run_diff_io_cr, run_diff_io_c. cbn zeta. rewrite complete_c; auto using rho_tot_rep.
  - destruct rep; reflexivity.
  - eapply cb_rep_change; [apply rho0_rep|apply rho_tot_rep|exact He].
Qed.

Corollary equal_gives_empty_shared_table :
  forall (H : pystr -> pystr) udiff excl c rep pairs t1 t2,
  thr_num c <= thr_den c -> wf t1 = true -> wf t2 = true -> bool_sep2 t1 t2 = true ->
  eqv (io_opts c rep) t1 t2 ->
  fst (run_diff_io_m H udiff no_skip excl c rep pairs t1 t2) = ([], []).
Proof.
  intros H udiff excl c rep pairs t1 t2 Hthr W1 W2 Hs He.
  apply equal_mod_alias_gives_empty; auto. apply eqv_cb; auto.
  apply class_keeps_hidden. apply rho0_py_eq.
Qed.

(* the verdict of the run with the shared table is a function of (report_repetition, t1, t2): no alias guard *)
Theorem knob_independence_shared_table :
  forall (H : pystr -> pystr),
  (forall s, s <> [] -> sepfree (H s)) -> (forall s t, H s = H t -> s = t) ->
  forall udiff udiff' excl excl' c c' rep pairs pairs' t1 t2,
  thr_num c <= thr_den c -> thr_num c' <= thr_den c' ->
  DiffModel.ignore_private c = DiffModel.ignore_private c' ->
  wf t1 = true -> wf t2 = true -> tag_safe t1 = true -> tag_safe t2 = true -> bool_sep2 t1 t2 = true ->
  (fst (fst (run_diff_io_m H udiff no_skip excl c rep pairs t1 t2)) = [] <->
   fst (fst (run_diff_io_m H udiff' no_skip excl' c' rep pairs' t1 t2)) = []).
Proof.
  intros H H_tok H_inj udiff udiff' excl excl' c c' rep pairs pairs' t1 t2 Hthr Hthr' Hip W1 W2 T1 T2 Hs.
  rewrite (verdict_shared_table H H_tok H_inj udiff excl c rep pairs t1 t2); auto.
  rewrite (verdict_shared_table H H_tok H_inj udiff' excl' c' rep pairs' t1 t2); auto.
  unfold io_opts. rewrite Hip. tauto.
Qed.

Theorem equal_gives_empty_shared_table_both :
  forall (H : pystr -> pystr) udiff excl c rep pairs t1 t2,
  thr_num c <= thr_den c -> wf t1 = true -> wf t2 = true -> bool_sep2 t1 t2 = true ->
  (eqv (io_opts c rep) (cb rho0 t1) (cb rho0 t2) -> fst (run_diff_io_m H udiff no_skip excl c rep pairs t1 t2) = ([], [])) /\
  (eqv (io_opts c rep) t1 t2 -> fst (run_diff_io_m H udiff no_skip excl c rep pairs t1 t2) = ([], [])).
Proof.
  intros. split; [apply equal_mod_alias_gives_empty|apply equal_gives_empty_shared_table]; assumption.
Qed.

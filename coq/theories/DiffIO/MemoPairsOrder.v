(** C17: when the memoised pairing does NOT depend on the order of the hash lists.

    The pairs cache key of diff.py sorts the two hash lists (finding K28 when two levels list the same hashes
    in different orders and distances tie).  Here: if no two candidate edges (distance below the cut-off) have
    the same distance, the greedy selection [select] (MemoPairs.v) returns the same dictionary - same pairs, same
    insertion order - for every order of the (added, removed, distance) triples; hence the value of the pairs
    body is then a function of the SETS of added and removed hashes, which is what the sorted key identifies. *)
From Coq Require Import List ZArith Bool Arith Lia Permutation.
Import ListNotations.
From DD Require Import Lfu.LfuModel DiffIO.MemoModel DiffIO.MemoPairs DiffIO.MemoPairsProofs.

Section OrderFree.
Variables A D : Type.
Variable aeqb : A -> A -> bool.
Variable dltb deqb : D -> D -> bool.
Hypothesis aeqb_spec : forall x y, aeqb x y = true <-> x = y.
Hypothesis deqb_spec : forall x y, deqb x y = true <-> x = y.
(* the distances are strictly and totally ordered (floats without nan) *)
Hypothesis dltb_irrefl : forall x, dltb x x = false.
Hypothesis dltb_trans : forall x y z, dltb x y = true -> dltb y z = true -> dltb x z = true.
Hypothesis dltb_total : forall x y, x <> y -> dltb x y = true \/ dltb y x = true.

Notation amem := (amem A aeqb).
Notation sadd := (sadd A aeqb).
Notation dadd := (dadd A D aeqb deqb).
Notation dget := (dget A D deqb).
Notation madd := (madd A D aeqb deqb).
Notation mget := (mget A D aeqb).
Notation trip := (trip A D).

Lemma aeqb_refl x : aeqb x x = true. Proof. apply aeqb_spec. reflexivity. Qed.
Lemma deqb_refl x : deqb x x = true. Proof. apply deqb_spec. reflexivity. Qed.
Lemma aeqb_false x y : aeqb x y = false <-> x <> y.
Proof. split; [intros E X; subst; rewrite aeqb_refl in E; discriminate|intro N; destruct (aeqb x y) eqn:E; [apply aeqb_spec in E; contradiction|reflexivity]]. Qed.
Lemma deqb_false x y : deqb x y = false <-> x <> y.
Proof. split; [intros E X; subst; rewrite deqb_refl in E; discriminate|intro N; destruct (deqb x y) eqn:E; [apply deqb_spec in E; contradiction|reflexivity]]. Qed.

(* ---- SetOrdered built by repeated add ---- *)
Definition saddl (l acc : list A) : list A := fold_left (fun acc x => sadd x acc) l acc.

Lemma saddl_const_from r l : (forall x, In x l -> x = r) -> saddl l [r] = [r].
Proof.
  induction l as [|x l IH]; intro Hall; cbn; [reflexivity|].
  rewrite (Hall x (or_introl eq_refl)). unfold MemoPairs.sadd, MemoPairs.amem. cbn. rewrite aeqb_refl. cbn.
  apply IH. intros; apply Hall; right; assumption.
Qed.
Lemma saddl_const r l : l <> [] -> (forall x, In x l -> x = r) -> saddl l [] = [r].
Proof.
  destruct l as [|x l]; [congruence|]. intros _ Hall. cbn. rewrite (Hall x (or_introl eq_refl)).
  unfold MemoPairs.sadd at 1. cbn. apply saddl_const_from. intros; apply Hall; right; assumption.
Qed.

(* ---- exact content of the two dictionaries ---- *)
Lemma dget_dadd_eq d d0 x g : dget d (dadd d0 x g) = if deqb d0 d then sadd x (dget d g) else dget d g.
Proof.
  induction g as [|[d' l] r IH]; cbn [MemoPairs.dadd MemoPairs.dget].
  - destruct (deqb d0 d); reflexivity.
  - destruct (deqb d' d0) eqn:E0; cbn [MemoPairs.dget].
    + apply deqb_spec in E0. subst d'. destruct (deqb d0 d); reflexivity.
    + destruct (deqb d' d) eqn:E1; [|exact IH].
      apply deqb_spec in E1. subst d'. apply deqb_false in E0.
      assert (deqb d0 d = false) by (apply deqb_false; congruence). rewrite H. reflexivity.
Qed.

Lemma mget_madd_eq a d a0 d0 r0 m :
  dget d (mget a (madd a0 d0 r0 m)) = if aeqb a0 a && deqb d0 d then sadd r0 (dget d (mget a m)) else dget d (mget a m).
Proof.
  induction m as [|[a' g] rest IH]; cbn [MemoPairs.madd MemoPairs.mget].
  - destruct (aeqb a0 a); cbn [andb MemoPairs.dget]; [destruct (deqb d0 d); reflexivity|reflexivity].
  - destruct (aeqb a' a0) eqn:E0; cbn [MemoPairs.mget].
    + apply aeqb_spec in E0. subst a'. destruct (aeqb a0 a); cbn [andb]; [apply dget_dadd_eq|reflexivity].
    + destruct (aeqb a' a) eqn:E1; [|exact IH].
      apply aeqb_spec in E1. subst a'. apply aeqb_false in E0.
      assert (X : aeqb a0 a = false) by (apply aeqb_false; congruence). rewrite X. reflexivity.
Qed.

Definition mstep (m : mic A D) (t : trip) : mic A D := let '(a, r, d) := t in madd a d r m.
Definition lookup_r (cs : list trip) (a : A) (d : D) : list A :=
  map (fun t => snd (fst t)) (filter (fun t => aeqb (fst (fst t)) a && deqb (snd t) d) cs).

Lemma mget_fold cs : forall m0 a d,
  dget d (mget a (fold_left mstep cs m0)) = saddl (lookup_r cs a d) (dget d (mget a m0)).
Proof.
  induction cs as [|[[a0 r0] d0] cs IH]; intros m0 a d; [reflexivity|].
  cbn [fold_left mstep]. rewrite IH, mget_madd_eq. unfold lookup_r. cbn [filter fst snd].
  destruct (aeqb a0 a && deqb d0 d); reflexivity.
Qed.

Lemma build_mic_filter cutoff ds :
  build_mic A D aeqb dltb deqb cutoff ds = fold_left mstep (filter (fun t => dltb (snd t) cutoff) ds) [].
Proof.
  unfold build_mic. generalize (@nil (A * dgroup A D)). induction ds as [|[[a r] d] ds IH]; intro m0; [reflexivity|].
  cbn [fold_left filter snd]. destruct (dltb d cutoff); cbn [fold_left mstep]; apply IH.
Qed.

(* ---- the second dictionary: distance -> added hashes ---- *)
Definition dstep (g : dgroup A D) (da : D * A) : dgroup A D := dadd (fst da) (snd da) g.
Definition flat (m : mic A D) : list (D * A) :=
  flat_map (fun ag => map (fun dl => (fst dl, fst ag)) (snd ag)) m.

Lemma build_d2f_flat m : build_d2f A D aeqb deqb m = fold_left dstep (flat m) [].
Proof.
  unfold build_d2f. generalize (@nil (D * list A)). induction m as [|[a grp] m IH]; intro g0; [reflexivity|].
  cbn [fold_left flat flat_map fst snd]. rewrite fold_left_app. rewrite <- IH. f_equal.
  clear. revert g0. induction grp as [|dl grp IH]; intro g0; [reflexivity|]. cbn [fold_left map]. apply IH.
Qed.

Lemma dget_fold fl : forall g0 d,
  dget d (fold_left dstep fl g0) = saddl (map snd (filter (fun da => deqb (fst da) d) fl)) (dget d g0).
Proof.
  induction fl as [|[d0 a0] fl IH]; intros g0 d; [reflexivity|].
  cbn [fold_left fst snd filter]. rewrite IH. unfold dstep. cbn [fst snd]. rewrite dget_dadd_eq. destruct (deqb d0 d); reflexivity.
Qed.

Lemma dadd_keys d d0 x g : In d (map fst (dadd d0 x g)) <-> d = d0 \/ In d (map fst g).
Proof.
  induction g as [|[d' l] r IH]; cbn [MemoPairs.dadd map fst].
  - cbn. intuition.
  - destruct (deqb d' d0) eqn:E; cbn [map fst In].
    + apply deqb_spec in E. subst d'. intuition.
    + rewrite IH. intuition.
Qed.
Lemma dadd_keys_nodup d0 x g : NoDup (map fst g) -> NoDup (map fst (dadd d0 x g)).
Proof.
  induction g as [|[d' l] r IH]; cbn [MemoPairs.dadd map fst]; intro Hn.
  - constructor; [intros []|constructor].
  - inversion Hn as [|y ys Hy Hys]; subst. destruct (deqb d' d0) eqn:E; cbn [map fst].
    + constructor; assumption.
    + constructor; [|apply IH; exact Hys]. rewrite dadd_keys. intros [->|X]; [rewrite deqb_refl in E; discriminate|auto].
Qed.
Lemma fold_keys fl : forall g0 d, In d (map fst (fold_left dstep fl g0)) <-> In d (map fst g0) \/ In d (map fst fl).
Proof.
  induction fl as [|[d0 a0] fl IH]; intros g0 d; cbn [fold_left map fst In]; [intuition|].
  rewrite IH. unfold dstep. cbn [fst snd]. rewrite dadd_keys. intuition.
Qed.
Lemma fold_keys_nodup fl : forall g0, NoDup (map fst g0) -> NoDup (map fst (fold_left dstep fl g0)).
Proof. induction fl as [|da fl IH]; intros g0 Hn; cbn [fold_left]; [exact Hn|]. apply IH. apply dadd_keys_nodup. exact Hn. Qed.

(* which (distance, added hash) the first dictionary holds *)
Definition holds_da (m : mic A D) (a : A) (d : D) : Prop := exists grp, In (a, grp) m /\ In d (map fst grp).

Lemma flat_In m d a : In (d, a) (flat m) <-> holds_da m a d.
Proof.
  unfold flat, holds_da. rewrite in_flat_map. split.
  - intros [[a' grp] [Hin Hm]]. cbn [fst snd] in Hm. apply in_map_iff in Hm as [[d' l] [E Hd]]. cbn [fst] in E. inversion E; subst.
    exists grp. split; [exact Hin|]. apply in_map_iff. exists (d, l). auto.
  - intros [grp [Hin Hd]]. exists (a, grp). split; [exact Hin|]. cbn [fst snd].
    apply in_map_iff in Hd as [[d' l] [E Hd]]. cbn [fst] in E. subst d'. apply in_map_iff. exists (d, l). auto.
Qed.

Lemma madd_holds a d a0 d0 r0 m : holds_da (madd a0 d0 r0 m) a d <-> (a = a0 /\ d = d0) \/ holds_da m a d.
Proof.
  unfold holds_da. induction m as [|[a' g] rest IH]; cbn [MemoPairs.madd].
  - split.
    + intros [grp [[E|[]] Hd]]. inversion E; subst. cbn in Hd. destruct Hd as [<-|[]]. auto.
    + intros [[-> ->]|[grp [[] _]]]. exists [(d0, [r0])]. split; [left; reflexivity|left; reflexivity].
  - destruct (aeqb a' a0) eqn:E0.
    + apply aeqb_spec in E0. subst a'. split.
      * intros [grp [[E|Hin] Hd]].
        -- inversion E; subst. apply dadd_keys in Hd as [->|Hd]; [auto|right; exists g; split; [left; reflexivity|exact Hd]].
        -- right. exists grp. split; [right; exact Hin|exact Hd].
      * intros [[-> ->]|[grp [[E|Hin] Hd]]].
        -- exists (dadd d0 r0 g). split; [left; reflexivity|apply dadd_keys; left; reflexivity].
        -- inversion E; subst. exists (dadd d0 r0 grp). split; [left; reflexivity|apply dadd_keys; right; exact Hd].
        -- exists grp. split; [right; exact Hin|exact Hd].
    + split.
      * intros [grp [[E|Hin] Hd]].
        -- right. exists grp. split; [left; exact E|exact Hd].
        -- destruct (proj1 IH (ex_intro _ grp (conj Hin Hd))) as [X|[grp' [Hin' Hd']]]; [left; exact X|].
           right. exists grp'. split; [right; exact Hin'|exact Hd'].
      * intros [X|[grp [[E|Hin] Hd]]].
        -- destruct (proj2 IH (or_introl X)) as [grp [Hin Hd]]. exists grp. split; [right; exact Hin|exact Hd].
        -- exists grp. split; [left; exact E|exact Hd].
        -- destruct (proj2 IH (or_intror (ex_intro _ grp (conj Hin Hd)))) as [grp' [Hin' Hd']]. exists grp'. split; [right; exact Hin'|exact Hd'].
Qed.

Lemma fold_holds cs : forall m0 a d,
  holds_da (fold_left mstep cs m0) a d <-> (exists r, In (a, r, d) cs) \/ holds_da m0 a d.
Proof.
  induction cs as [|[[a0 r0] d0] cs IH]; intros m0 a d; cbn [fold_left mstep].
  - split; [auto|intros [[r []]|X]; exact X].
  - rewrite IH, madd_holds. split.
    + intros [[r Hin]|[[-> ->]|X]]; [left; exists r; right; exact Hin|left; exists r0; left; reflexivity|right; exact X].
    + intros [[r [E|Hin]]|X]; [inversion E; subst; right; left; auto|left; exists r; exact Hin|right; right; exact X].
Qed.

(* ---- sorting ---- *)
Notation insert_d := (insert_d D dltb).
Notation sort_d := (sort_d D dltb).

Lemma dltb_asym x y : dltb x y = true -> dltb y x = false.
Proof. intro H. destruct (dltb y x) eqn:E; [|reflexivity]. pose proof (dltb_trans _ _ _ H E) as X. rewrite dltb_irrefl in X. discriminate. Qed.

Lemma insert_comm x y s : insert_d x (insert_d y s) = insert_d y (insert_d x s).
Proof.
  assert (Heq : forall a b : D, {a = b} + {a <> b}).
  { intros a b. destruct (deqb a b) eqn:E; [left; apply deqb_spec; exact E|right; apply deqb_false; exact E]. }
  destruct (Heq x y) as [->|Hne]; [reflexivity|].
  induction s as [|z s IH]; cbn [MemoPairs.insert_d].
  - destruct (dltb x y) eqn:Exy.
    + rewrite (dltb_asym _ _ Exy). reflexivity.
    + destruct (dltb_total x y Hne) as [X|X]; [congruence|]. rewrite X. reflexivity.
  - destruct (dltb y z) eqn:Eyz, (dltb x z) eqn:Exz; cbn [MemoPairs.insert_d]; rewrite ?Eyz, ?Exz.
    + destruct (dltb x y) eqn:Exy.
      * rewrite (dltb_asym _ _ Exy). cbn [MemoPairs.insert_d]. rewrite ?Eyz, ?Exz. reflexivity.
      * destruct (dltb_total x y Hne) as [X|X]; [congruence|]. rewrite X. cbn [MemoPairs.insert_d]. rewrite ?Eyz, ?Exz. reflexivity.
    + assert (Exy : dltb x y = false).
      { destruct (dltb x y) eqn:E; [|reflexivity]. rewrite (dltb_trans _ _ _ E Eyz) in Exz. discriminate. }
      rewrite ?Exy. cbn [MemoPairs.insert_d]. rewrite ?Eyz, ?Exz, ?Exy. reflexivity.
    + assert (Eyx : dltb y x = false).
      { destruct (dltb y x) eqn:E; [|reflexivity]. rewrite (dltb_trans _ _ _ E Exz) in Eyz. discriminate. }
      rewrite ?Eyx. cbn [MemoPairs.insert_d]. rewrite ?Eyz, ?Exz, ?Eyx. reflexivity.
    + rewrite IH. reflexivity.
Qed.

Lemma sort_perm l l' : Permutation l l' -> sort_d l = sort_d l'.
Proof.
  induction 1 as [|x l l' HP IH|x y l|l l' l'' HP1 IH1 HP2 IH2]; cbn [MemoPairs.sort_d fold_right]; try reflexivity.
  - unfold MemoPairs.sort_d in IH. rewrite IH. reflexivity.
  - apply insert_comm.
  - congruence.
Qed.

(* ---- the theorem ---- *)
Variable cutoff : D.
Definition cands (ds : list trip) : list trip := filter (fun t => dltb (snd t) cutoff) ds.
(* no two candidate edges at the same distance *)
Definition no_ties (ds : list trip) : Prop :=
  forall a r d a' r', In (a, r, d) (cands ds) -> In (a', r', d) (cands ds) -> a = a' /\ r = r'.

Section Two.
Variables ds ds' : list trip.
Hypothesis same : forall t, In t ds <-> In t ds'.
Hypothesis nt : no_ties ds.

Lemma same_c : forall t, In t (cands ds) <-> In t (cands ds').
Proof. intro t. unfold cands. rewrite !filter_In, same. reflexivity. Qed.
Lemma nt' : no_ties ds'.
Proof. intros a r d a' r' H1 H2. apply same_c in H1, H2. exact (nt a r d a' r' H1 H2). Qed.

Notation M := (build_mic A D aeqb dltb deqb cutoff ds).
Notation M' := (build_mic A D aeqb dltb deqb cutoff ds').
Notation G := (build_d2f A D aeqb deqb M).
Notation G' := (build_d2f A D aeqb deqb M').

Lemma lookup_r_In cs a d r : In r (lookup_r cs a d) <-> In (a, r, d) cs.
Proof.
  unfold lookup_r. rewrite in_map_iff. split.
  - intros [[[a0 r0] d0] [E Hf]]. cbn [fst snd] in E. subst r0. apply filter_In in Hf as [Hin Hb]. cbn [fst snd] in Hb.
    apply andb_true_iff in Hb as [Ea Ed]. apply aeqb_spec in Ea. apply deqb_spec in Ed. subst. exact Hin.
  - intro Hin. exists (a, r, d). split; [reflexivity|]. apply filter_In. split; [exact Hin|]. cbn [fst snd]. rewrite aeqb_refl, deqb_refl. reflexivity.
Qed.

(* under [no_ties] a dictionary entry is the one candidate, or empty - whatever the order *)
Lemma entry_eq (cs cs' : list trip) a d :
  (forall t, In t cs <-> In t cs') ->
  (forall r r', In (a, r, d) cs -> In (a, r', d) cs -> r = r') ->
  saddl (lookup_r cs a d) [] = saddl (lookup_r cs' a d) [].
Proof.
  intros Hs Hu. destruct (lookup_r cs a d) as [|r l] eqn:E.
  - destruct (lookup_r cs' a d) as [|r' l'] eqn:E'; [reflexivity|].
    exfalso. assert (X : In r' (lookup_r cs' a d)) by (rewrite E'; left; reflexivity).
    apply lookup_r_In in X. apply Hs in X. apply lookup_r_In in X. rewrite E in X. exact X.
  - assert (Hr : In (a, r, d) cs) by (apply lookup_r_In; rewrite E; left; reflexivity).
    rewrite <- E. rewrite (saddl_const r (lookup_r cs a d)), (saddl_const r (lookup_r cs' a d)); [reflexivity| | | |].
    + intro X. assert (Y : In r (lookup_r cs' a d)) by (apply lookup_r_In; apply Hs; exact Hr). rewrite X in Y. exact Y.
    + intros x Hx. apply lookup_r_In in Hx. apply Hs in Hx. symmetry. exact (Hu r x Hr Hx).
    + rewrite E. discriminate.
    + intros x Hx. apply lookup_r_In in Hx. symmetry. exact (Hu r x Hr Hx).
Qed.

Lemma E1 a d : dget d (mget a M) = dget d (mget a M').
Proof.
  rewrite !build_mic_filter, !mget_fold. cbn [MemoPairs.mget MemoPairs.dget].
  apply entry_eq; [exact same_c|]. intros r r' H1 H2. exact (proj2 (nt a r d a r' H1 H2)).
Qed.

Lemma holds_M a d : holds_da M a d <-> exists r, In (a, r, d) (cands ds).
Proof. rewrite build_mic_filter, fold_holds. unfold holds_da. split; [intros [X|[grp [[] _]]]; exact X|auto]. Qed.
Lemma holds_M' a d : holds_da M' a d <-> exists r, In (a, r, d) (cands ds').
Proof. rewrite build_mic_filter, fold_holds. unfold holds_da. split; [intros [X|[grp [[] _]]]; exact X|auto]. Qed.

Lemma flat_same d a : In (d, a) (flat M) <-> In (d, a) (flat M').
Proof.
  rewrite !flat_In, holds_M, holds_M'. split; intros [r Hr]; exists r; apply same_c; exact Hr.
Qed.

Lemma E2 d : dget d G = dget d G'.
Proof.
  rewrite !build_d2f_flat, !dget_fold. cbn [MemoPairs.dget].
  set (l := map snd (filter (fun da => deqb (fst da) d) (flat M))).
  set (l' := map snd (filter (fun da => deqb (fst da) d) (flat M'))).
  assert (Hl : forall x, In x l <-> In (d, x) (flat M)).
  { intro x. unfold l. rewrite in_map_iff. split.
    - intros [[d0 a0] [E Hf]]. cbn [snd] in E. subst a0. apply filter_In in Hf as [Hin Hb]. cbn [fst] in Hb. apply deqb_spec in Hb. subst. exact Hin.
    - intro Hin. exists (d, x). split; [reflexivity|]. apply filter_In. split; [exact Hin|]. cbn [fst]. apply deqb_refl. }
  assert (Hl' : forall x, In x l' <-> In (d, x) (flat M')).
  { intro x. unfold l'. rewrite in_map_iff. split.
    - intros [[d0 a0] [E Hf]]. cbn [snd] in E. subst a0. apply filter_In in Hf as [Hin Hb]. cbn [fst] in Hb. apply deqb_spec in Hb. subst. exact Hin.
    - intro Hin. exists (d, x). split; [reflexivity|]. apply filter_In. split; [exact Hin|]. cbn [fst]. apply deqb_refl. }
  assert (Hu : forall x y, In x l -> In y l -> x = y).
  { intros x y Hx Hy. apply Hl, flat_In, holds_M in Hx. apply Hl, flat_In, holds_M in Hy.
    destruct Hx as [r Hr], Hy as [r' Hr']. exact (proj1 (nt x r d y r' Hr Hr')). }
  clearbody l l'. destruct l as [|a l].
  - destruct l' as [|a' l'']; [reflexivity|]. exfalso.
    assert (X : In a' (a' :: l'')) by (left; reflexivity). apply Hl', flat_same, Hl in X. exact X.
  - rewrite (saddl_const a (a :: l)), (saddl_const a l'); [reflexivity| | |discriminate|].
    + intro X. assert (Y : In a l') by (apply Hl', flat_same, Hl; left; reflexivity). rewrite X in Y. exact Y.
    + intros x Hx. apply Hl', flat_same, Hl in Hx. symmetry. apply Hu; [left; reflexivity|exact Hx].
    + intros x Hx. symmetry. apply Hu; [left; reflexivity|exact Hx].
Qed.

Lemma E3 : sort_d (map fst G) = sort_d (map fst G').
Proof.
  apply sort_perm. rewrite !build_d2f_flat. apply NoDup_Permutation.
  - apply fold_keys_nodup. constructor.
  - apply fold_keys_nodup. constructor.
  - intro d. rewrite !fold_keys. cbn [map In].
    assert (X : In d (map fst (flat M)) <-> In d (map fst (flat M'))).
    { rewrite !in_map_iff. split; intros [[d0 a0] [E Hin]]; cbn [fst] in E; subst d0; exists (d, a0); (split; [reflexivity|]); apply flat_same; exact Hin. }
    tauto.
Qed.

Theorem select_raw_order_free :
  select_raw A D aeqb dltb deqb cutoff ds = select_raw A D aeqb dltb deqb cutoff ds'.
Proof.
  unfold select_raw. rewrite E3. f_equal.
  generalize (sort_d (map fst G')) (@nil A, @nil (A * A)). intros L. induction L as [|d L IH]; intro st; [reflexivity|].
  cbn [fold_left]. rewrite IH. f_equal.
  unfold outer. rewrite E2. generalize (rev (dget d G')). intro fl. revert st.
  induction fl as [|from fl IHf]; intro st; [reflexivity|]. cbn [fold_left]. rewrite IHf. f_equal.
  unfold outer_from. rewrite E1. reflexivity.
Qed.

Theorem select_order_free :
  select A D aeqb dltb deqb cutoff ds = select A D aeqb dltb deqb cutoff ds'.
Proof. unfold select. rewrite select_raw_order_free. reflexivity. Qed.
End Two.
End OrderFree.

(* ------------------------------------------------------------------ *)
(** * the value of the pairs body *)
Section Body.
Variables A D : Type.
Variable aeqb : A -> A -> bool.
Variable dltb deqb : D -> D -> bool.
Variable dkey : A -> A -> key.
Variable nested : A -> A -> prog (mval A D).
Variable pre : list A -> list A -> option (list (trip A D)).
Variable cutoff ddflt : D.

(* the distance the double loop sees for (added a, removed r) *)
Definition ndist (a r : A) : D := as_d A D ddflt (run_pure (nested a r)).
Definition triples (adds rems : list A) : list (trip A D) :=
  map (fun ar => (fst ar, snd ar, ndist (fst ar) (snd ar))) (list_prod adds rems).

Lemma run_pure_dist_loop todo : forall acc k,
  run_pure (dist_loop A D dkey nested ddflt todo acc k) =
  run_pure (k (acc ++ map (fun ar => (fst ar, snd ar, ndist (fst ar) (snd ar))) todo)%list).
Proof.
  induction todo as [|[a r] rest IH]; intros acc k; cbn [dist_loop map run_pure].
  - rewrite app_nil_r. reflexivity.
  - rewrite IH. rewrite <- app_assoc. reflexivity.
Qed.

Lemma pairs_body_value adds rems : pre adds rems = None ->
  run_pure (pairs_body A D aeqb dltb deqb dkey nested pre cutoff ddflt adds rems) =
  VP (select A D aeqb dltb deqb cutoff (triples adds rems)).
Proof. intro E. unfold pairs_body. rewrite E. rewrite run_pure_dist_loop. reflexivity. Qed.

Hypothesis aeqb_spec : forall x y, aeqb x y = true <-> x = y.
Hypothesis deqb_spec : forall x y, deqb x y = true <-> x = y.
Hypothesis dltb_irrefl : forall x, dltb x x = false.
Hypothesis dltb_trans : forall x y z, dltb x y = true -> dltb y z = true -> dltb x z = true.
Hypothesis dltb_total : forall x y, x <> y -> dltb x y = true \/ dltb y x = true.

(* two levels with the same SETS of added and of removed hashes (in any order, e.g. one of them sorted) compute the same
   pairing when no two candidate edges tie: then the value of the pairs call is a function of diff.py's sorted key *)
Theorem pairs_body_order_free : forall l1 l1' l2 l2',
  pre l1 l1' = None -> pre l2 l2' = None ->
  (forall x, In x l1 <-> In x l2) -> (forall x, In x l1' <-> In x l2') ->
  no_ties A D dltb cutoff (triples l1 l1') ->
  run_pure (pairs_body A D aeqb dltb deqb dkey nested pre cutoff ddflt l1 l1') =
  run_pure (pairs_body A D aeqb dltb deqb dkey nested pre cutoff ddflt l2 l2').
Proof.
  intros l1 l1' l2 l2' P1 P2 S1 S2 NT. rewrite !pairs_body_value by assumption. f_equal.
  apply (select_order_free A D aeqb dltb deqb aeqb_spec deqb_spec dltb_irrefl dltb_trans dltb_total cutoff); [|exact NT].
  intro t. unfold triples. rewrite !in_map_iff. split; intros [[a r] [E Hin]]; exists (a, r); (split; [exact E|]);
    apply in_prod_iff in Hin as [Ha Hr]; apply in_prod_iff; split; (apply S1 || apply S2); assumption.
Qed.
End Body.

(* not vacuous: four candidate edges at four different distances, both lists reversed: same dictionary, two pairs *)
Example order_free_example :
  let ds  := [(4, 1, 41); (4, 5, 45); (2, 1, 21); (2, 5, 25)]%Z in
  let ds' := [(2, 5, 25); (2, 1, 21); (4, 5, 45); (4, 1, 41)]%Z in
  no_ties Z Z Z.ltb 100%Z ds /\
  select Z Z Z.eqb Z.ltb Z.eqb 100%Z ds = select Z Z Z.eqb Z.ltb Z.eqb 100%Z ds' /\
  select Z Z Z.eqb Z.ltb Z.eqb 100%Z ds = [(2, 1); (4, 5); (1, 2); (5, 4)]%Z.
Proof.
  cbv zeta. split; [|split; vm_compute; reflexivity].
  intros a r d a' r' H1 H2. cbn in H1, H2.
  repeat match goal with H : _ \/ _ |- _ => destruct H | H : False |- _ => destruct H end;
    repeat match goal with H : (_, _, _) = (_, _, _) |- _ => inversion H; clear H end; subst; try discriminate; auto.
Qed.

(** Witnesses around the shared ==-keyed table (all by evaluation of [run_diff_io_m], the model that the
    correspondence compares with the implementation; each is replayed on the implementation by c05.py). *)
From Coq Require Import String.
From Coq Require Import List ZArith NArith Bool Arith.
Import ListNotations.
From DD Require Import Base.PyStr Base.Value Diff.Tree Diff.DiffModel Hash.HashModel
  DiffIO.DiffIOModel DiffIO.DiffIOProofs DiffIO.DiffIOMemo DiffIO.DiffIOCanon.

Definition w_a : atom := AStr (s2p "a").
Definition w_x : atom := AStr (s2p "x").

(* The guard [bool_sep2] cannot be dropped, and without it not even knob independence holds:
   [{True:'a'}] vs [{1:'a'}].  At the top level of a lookup True is a BoolObj (not == 1), so the two items
   hash differently; but when the pairing hands them to the recursive diff, _diff_dict matches the keys by ==
   and finds nothing.  Paired (default knobs): {} ; not paired (max_passes=0, cutoff_intersection_for_pairs=0):
   values_changed. *)
Theorem bool_key_knob_refuted :
  forall rep udiff,
  let t1 := VList [VDict [(ABool true, VAtom w_a)]] in
  let t2 := VList [VDict [(AInt 1, VAtom w_a)]] in
  wf t1 = true /\ wf t2 = true /\ tag_safe t1 = true /\ tag_safe t2 = true /\ bool_sep2 t1 t2 = false /\
  fst (run_diff_io_m hexhash udiff no_skip no_skip cfg_default rep (fun _ => [(0, 0)]) t1 t2) = ([], []) /\
  fst (fst (run_diff_io_m hexhash udiff no_skip no_skip cfg_default rep (fun _ => []) t1 t2)) <> [].
Proof.
  intros rep udiff t1 t2. do 5 (split; [reflexivity|]). split.
  - destruct rep; vm_compute; reflexivity.
  - destruct rep; vm_compute; discriminate.
Qed.

(* more of finding K2, each against the memo-free model (which, like ordered mode, sees the difference) *)
Theorem alias_family_refuted :
  forall udiff pairs,
  (* dict values of list items *)
  (forall rep,
   let t1 := VList [VDict [(w_x, VAtom (AInt 1))]] in
   let t2 := VList [VDict [(w_x, VAtom (AHalf 2))]] in
   fst (run_diff_io_m hexhash udiff no_skip no_skip cfg_default rep pairs t1 t2) = ([], []) /\
   fst (run_diff_io hexhash udiff no_skip no_skip cfg_default rep (fun _ => []) t1 t2) <> []) /\
  (* a hashable tuple is looked up as a whole: (True,'a') is served the hash of (1,'a') *)
  (forall rep,
   let t1 := VList [VTuple [VAtom (AInt 1); VAtom w_a]] in
   let t2 := VList [VTuple [VAtom (ABool true); VAtom w_a]] in
   fst (run_diff_io_m hexhash udiff no_skip no_skip cfg_default rep pairs t1 t2) = ([], []) /\
   fst (run_diff_io hexhash udiff no_skip no_skip cfg_default rep (fun _ => []) t1 t2) <> []) /\
  (* report_repetition=True: 1 and 1.0 count as the same item *)
  (let t1 := VList [VAtom (AInt 1); VAtom (AHalf 2)] in
   let t2 := VList [VAtom (AInt 1); VAtom (AInt 1)] in
   fst (run_diff_io_m hexhash udiff no_skip no_skip cfg_default true pairs t1 t2) = ([], []) /\
   fst (run_diff_io hexhash udiff no_skip no_skip cfg_default true (fun _ => []) t1 t2) <> []).
Proof.
  intros udiff pairs. split; [|split].
  - intros rep t1 t2. split; destruct rep; vm_compute; (reflexivity || discriminate).
  - intros rep t1 t2. split; destruct rep; vm_compute; (reflexivity || discriminate).
  - cbv zeta. split; vm_compute; (reflexivity || discriminate).
Qed.

(* the relation of the verdict theorem is exact about WHERE == is used: a scalar reached through dicts only
   is compared with its type ({'x':1} vs {'x':1.0} is a type change), the same scalar inside a list is not *)
Theorem root_scalar_typed :
  forall rep udiff pairs,
  let t1 := VDict [(w_x, VAtom (AInt 1))] in
  let t2 := VDict [(w_x, VAtom (AHalf 2))] in
  wf t1 = true /\ wf t2 = true /\ tag_safe t1 = true /\ tag_safe t2 = true /\ bool_sep2 t1 t2 = true /\
  fst (fst (run_diff_io_m hexhash udiff no_skip no_skip cfg_default rep pairs t1 t2)) <> [] /\
  fst (run_diff_io_m hexhash udiff no_skip no_skip cfg_default rep pairs (VList [t1]) (VList [t2])) = ([], []).
Proof.
  intros rep udiff pairs t1 t2. do 5 (split; [reflexivity|]). split.
  - destruct rep; vm_compute; discriminate.
  - destruct rep; vm_compute; reflexivity.
Qed.

(* the guards of the verdict theorem are met by inputs that DO alias (outside [alias_free2]) *)
Definition ex_alias_t1 : value :=
  VList [VAtom (AInt 1); VList [VAtom (AHalf 4); VAtom (AInt 3)]; VDict [(AInt 2, VSet [AHalf 10; AInt 7])]].
Definition ex_alias_t2 : value :=
  VList [VDict [(AHalf 4, VSet [AHalf 14; AInt 5])]; VList [VAtom (AHalf 6); VAtom (AInt 2)]; VAtom (AHalf 2); VAtom (AInt 1)].

Example shared_table_guards_satisfiable :
  wf ex_alias_t1 = true /\ wf ex_alias_t2 = true /\ tag_safe ex_alias_t1 = true /\ tag_safe ex_alias_t2 = true /\
  bool_sep2 ex_alias_t1 ex_alias_t2 = true /\ alias_free2 ex_alias_t1 ex_alias_t2 = false /\
  fst (run_diff_io_m hexhash (fun _ _ => []) no_skip no_skip cfg_default false (fun _ => []) ex_alias_t1 ex_alias_t2) = ([], []) /\
  fst (fst (run_diff_io_m hexhash (fun _ _ => []) no_skip no_skip cfg_default true (fun _ => []) ex_alias_t1 ex_alias_t2)) <> [].
Proof. do 6 (split; [reflexivity|]). split; [vm_compute; reflexivity|vm_compute; discriminate]. Qed.

(** C17: the memoised pairs call, concretely (MemoPairs.v).
    1. What the greedy selection returns is always a matching between added and removed
       hashes along candidate edges (distance below the cut-off) - for every distance
       matrix, every order, ties included.
    2. The guard [consistent] of the transparency theorems for the programs an
       ignore-order run is made of ([shaped]: pairs calls whose bodies make distance
       calls whose bodies are nested runs): it holds BY CONSTRUCTION when the two cache
       keys keep the orientation / the order of their arguments, for every distance and
       every selection; with the keys of diff.py (both sorted) it holds when the nested
       distance is symmetric and the selection does not depend on the order of the hash
       lists - and each of the two sortings alone refutes it (findings K17, K28).
    3. [consistent] is exactly "no key is computed with two values along the cache-less run". *)
From Coq Require Import List ZArith Bool Arith Lia.
Import ListNotations.
From DD Require Import Lfu.LfuModel DiffIO.MemoModel DiffIO.MemoProofs DiffIO.MemoKeys DiffIO.MemoPairs.

(* ------------------------------------------------------------------ *)
(** * 3. the guard, exactly *)
Section Calls.
Variable V : Type.

(* the memoised calls the cache-less run makes, with the value each computes *)
Fixpoint calls (p : prog V) : list (key * V) :=
  match p with
  | Ret _ => []
  | Call k body cont => calls body ++ (k, run_pure body) :: calls (cont (run_pure body))
  end.

Theorem consistent_iff_calls : forall (spec : key -> V) (p : prog V),
  consistent spec p <-> (forall k v, In (k, v) (calls p) -> v = spec k).
Proof.
  intros spec. induction p as [v|k body IHb cont IHc]; cbn [consistent calls].
  - split; [intros _ k0 v0 []|auto].
  - split.
    + intros [Hb [Hv Hc]] k0 v0 Hin. apply in_app_or in Hin as [Hin|[Hin|Hin]].
      * apply (proj1 IHb Hb). exact Hin.
      * inversion Hin; subst. exact Hv.
      * rewrite Hv in Hin. apply (proj1 (IHc (spec k)) Hc). exact Hin.
    + intros Hall.
      assert (Hv : run_pure body = spec k) by (apply Hall; apply in_or_app; right; left; reflexivity).
      split; [|split; [exact Hv|]].
      * apply IHb. intros k0 v0 Hin. apply Hall. apply in_or_app. left. exact Hin.
      * apply IHc. intros k0 v0 Hin. apply Hall. apply in_or_app. right. right. rewrite Hv. exact Hin.
Qed.

Definition functional (l : list (key * V)) : Prop :=
  forall k v v', In (k, v) l -> In (k, v') l -> v = v'.

Definition spec_from (dflt : V) (l : list (key * V)) (k : key) : V :=
  match find (fun kv => Z.eqb (fst kv) k) l with Some kv => snd kv | None => dflt end.

Theorem consistent_iff_functional : forall (dflt : V) (p : prog V),
  (exists spec, consistent spec p) <-> functional (calls p).
Proof.
  intros dflt p. split.
  - intros [spec Hc] k v v' H1 H2. pose proof (proj1 (consistent_iff_calls spec p) Hc) as Hall.
    rewrite (Hall _ _ H1), (Hall _ _ H2). reflexivity.
  - intro Hf. exists (spec_from dflt (calls p)). apply consistent_iff_calls. intros k v Hin.
    unfold spec_from. match goal with |- context [find ?f ?l] => destruct (find f l) as [[k' v']|] eqn:E end.
    + apply find_some in E as [Hin' Ek]. cbn [fst] in Ek. apply Z.eqb_eq in Ek. subst k'. cbn [snd].
      exact (Hf k v v' Hin Hin').
    + exfalso. pose proof (find_none _ _ E (k, v) Hin) as X. cbn [fst] in X. rewrite Z.eqb_refl in X. discriminate.
Qed.
End Calls.
Arguments calls {V} p.
Arguments functional {V} l.

(* ------------------------------------------------------------------ *)
(** * 1. the selection is a matching *)
Section Matching.
Variables A D : Type.
Variable aeqb : A -> A -> bool.
Variable dltb : D -> D -> bool.
Variable deqb : D -> D -> bool.
Hypothesis aeqb_spec : forall x y, aeqb x y = true <-> x = y.

Notation amem := (amem A aeqb).
Notation sadd := (sadd A aeqb).
Notation pset := (pset A aeqb).
Notation dadd := (dadd A D aeqb deqb).
Notation dget := (dget A D deqb).
Notation madd := (madd A D aeqb deqb).
Notation mget := (mget A D aeqb).

Lemma amem_In x l : amem x l = true <-> In x l.
Proof.
  unfold MemoPairs.amem. rewrite existsb_exists. split.
  - intros [y [Hy E]]. apply aeqb_spec in E. subst. exact Hy.
  - intro Hin. exists x. split; [exact Hin|apply aeqb_spec; reflexivity].
Qed.
Lemma amem_false x l : amem x l = false <-> ~ In x l.
Proof.
  rewrite <- amem_In. destruct (amem x l).
  - split; [discriminate|intro H; exfalso; apply H; reflexivity].
  - split; [intros _ H; discriminate|reflexivity].
Qed.

Lemma sadd_In y x l : In y (sadd x l) <-> y = x \/ In y l.
Proof.
  unfold MemoPairs.sadd. destruct (amem x l) eqn:E.
  - apply amem_In in E. split; [auto|intros [->|H]; auto].
  - rewrite in_app_iff. cbn. split; [intros [H|[<-|[]]]; auto|intros [->|H]; auto].
Qed.

Lemma pset_In k v ps k' v' : In (k', v') (pset k v ps) -> (k' = k /\ v' = v) \/ In (k', v') ps.
Proof.
  induction ps as [|[k0 v0] r IH]; cbn [MemoPairs.pset].
  - intros [E|[]]. inversion E; auto.
  - destruct (aeqb k0 k) eqn:E.
    + apply aeqb_spec in E. subst k0. intros [X|X]; [inversion X; auto|right; right; exact X].
    + intros [X|X]; [right; left; exact X|]. destruct (IH X); [auto|right; right; assumption].
Qed.
Lemma pset_keys k v ps x : In x (map fst (pset k v ps)) -> x = k \/ In x (map fst ps).
Proof.
  rewrite in_map_iff. intros [[k' v'] [<- Hin]]. cbn [fst].
  apply pset_In in Hin as [[-> _]|Hin]; [auto|right; apply in_map_iff; exists (k', v'); auto].
Qed.
Lemma pset_vals k v ps x : In x (map snd (pset k v ps)) -> x = v \/ In x (map snd ps).
Proof.
  rewrite in_map_iff. intros [[k' v'] [<- Hin]]. cbn [snd].
  apply pset_In in Hin as [[_ ->]|Hin]; [auto|right; apply in_map_iff; exists (k', v'); auto].
Qed.
Lemma pset_has k v ps : In (k, v) (pset k v ps).
Proof.
  induction ps as [|[k0 v0] r IH]; cbn [MemoPairs.pset]; [left; reflexivity|].
  destruct (aeqb k0 k) eqn:E; [apply aeqb_spec in E; subst; left; reflexivity|right; exact IH].
Qed.
Lemma pset_keeps k v ps k' v' : k' <> k -> In (k', v') ps -> In (k', v') (pset k v ps).
Proof.
  intros Hne. induction ps as [|[k0 v0] r IH]; cbn [MemoPairs.pset]; [intros []|].
  destruct (aeqb k0 k) eqn:E.
  - apply aeqb_spec in E. subst k0. intros [X|X]; [inversion X; subst; congruence|right; exact X].
  - intros [X|X]; [left; exact X|right; apply IH; exact X].
Qed.
Lemma pset_nodup_keys k v ps : NoDup (map fst ps) -> NoDup (map fst (pset k v ps)).
Proof.
  induction ps as [|[k0 v0] r IH]; cbn [MemoPairs.pset map fst]; intro Hn.
  - constructor; [intros []|constructor].
  - inversion Hn as [|x l Hx Hl]; subst. destruct (aeqb k0 k) eqn:E; cbn [map fst].
    + constructor; assumption.
    + constructor; [|apply IH; exact Hl]. intro Hin. apply pset_keys in Hin as [->|Hin]; [|auto].
      assert (aeqb k k = true) by (apply aeqb_spec; reflexivity). congruence.
Qed.
Lemma pset_nodup_vals k v ps : NoDup (map snd ps) -> ~ In v (map snd ps) -> NoDup (map snd (pset k v ps)).
Proof.
  induction ps as [|[k0 v0] r IH]; cbn [MemoPairs.pset map snd]; intros Hn Hv.
  - constructor; [intros []|constructor].
  - inversion Hn as [|x l Hx Hl]; subst. destruct (aeqb k0 k) eqn:E; cbn [map snd].
    + constructor; [intro X; apply Hv; right; exact X|exact Hl].
    + constructor.
      * intro Hin. apply pset_vals in Hin as [->|Hin]; [apply Hv; left; reflexivity|auto].
      * apply IH; [exact Hl|intro X; apply Hv; right; exact X].
Qed.

Lemma dget_dadd d d0 x g t : In t (dget d (dadd d0 x g)) -> t = x \/ In t (dget d g).
Proof.
  induction g as [|[d' l] r IH]; cbn [MemoPairs.dadd MemoPairs.dget].
  - destruct (deqb d0 d); [intros [<-|[]]; auto|intros []].
  - destruct (deqb d' d0) eqn:E0; cbn [MemoPairs.dget]; destruct (deqb d' d) eqn:E1; auto.
    intro Hin. apply sadd_In in Hin. exact Hin.
Qed.

Lemma mget_madd a a0 d d0 r m t :
  In t (dget d (mget a (madd a0 d0 r m))) -> (a = a0 /\ t = r) \/ In t (dget d (mget a m)).
Proof.
  induction m as [|[a' g] rest IH]; cbn [MemoPairs.madd MemoPairs.mget].
  - destruct (aeqb a0 a) eqn:E; [|intros []]. apply aeqb_spec in E. subst a0.
    cbn [MemoPairs.dget]. destruct (deqb d0 d); [intros [<-|[]]; auto|intros []].
  - destruct (aeqb a' a0) eqn:E0; cbn [MemoPairs.mget]; destruct (aeqb a' a) eqn:E1; auto.
    apply aeqb_spec in E0, E1. subst a' a0. intro Hin. apply dget_dadd in Hin as [->|Hin]; auto.
Qed.

Variable cutoff : D.
Variable ds : list (trip A D).

(* a candidate edge: the double loop saw it with a distance below the cut-off *)
Definition edge (a r : A) : Prop := exists d, In (a, r, d) ds /\ dltb d cutoff = true.

Lemma build_mic_edges : forall a d t, In t (dget d (mget a (build_mic A D aeqb dltb deqb cutoff ds))) -> edge a t.
Proof.
  unfold build_mic, edge.
  assert (G : forall l m,
            (forall x, In x l -> In x ds) ->
            (forall a d t, In t (dget d (mget a m)) -> exists d', In (a, t, d') ds /\ dltb d' cutoff = true) ->
            forall a d t, In t (dget d (mget a (fold_left (fun m t => let '(a, r, d) := t in if dltb d cutoff then madd a d r m else m) l m))) ->
            exists d', In (a, t, d') ds /\ dltb d' cutoff = true).
  { induction l as [|[[a0 r0] d0] l IH]; intros m Hl Hm a d t; cbn [fold_left]; [apply Hm|].
    apply IH; [intros x Hx; apply Hl; right; exact Hx|].
    intros a1 d1 t1. destruct (dltb d0 cutoff) eqn:Ec; [|apply Hm].
    intro Hin. apply mget_madd in Hin as [[-> ->]|Hin]; [|eapply Hm; eauto].
    exists d0. split; [apply Hl; left; reflexivity|exact Ec]. }
  apply G; [auto|]. intros a d t [].
Qed.

(* the invariant of the two selection loops *)
Definition sel_ok (st : sel_state A) : Prop :=
  NoDup (map fst (snd st)) /\ NoDup (map snd (snd st)) /\
  (forall k v, In (k, v) (snd st) -> In v (fst st) /\ edge k v).

Lemma inner_ok tos from st : (forall t, In t tos -> edge from t) -> sel_ok st -> sel_ok (inner A aeqb tos from st).
Proof.
  revert st. induction tos as [|t rest IH]; intros st Ht Hok; cbn [inner]; [exact Hok|].
  assert (Hrest : forall t', In t' rest -> edge from t') by (intros; apply Ht; right; assumption).
  destruct (amem t (fst st)) eqn:Eu; [apply IH; assumption|].
  apply IH; [exact Hrest|]. apply amem_false in Eu.
  destruct st as [used ps]. destruct Hok as (Nk & Nv & Hin). cbn [fst snd] in *.
  assert (Hv : ~ In t (map snd ps)).
  { intro X. apply in_map_iff in X as [[k v] [E X]]. cbn [snd] in E. subst v. apply Eu. apply (Hin k t X). }
  split; [apply pset_nodup_keys; exact Nk|]. split; [apply pset_nodup_vals; assumption|].
  intros k v X. apply pset_In in X as [[-> ->]|X].
  - split; [apply sadd_In; left; reflexivity|apply Ht; left; reflexivity].
  - destruct (Hin k v X) as [U E]. split; [|exact E]. apply sadd_In. right. apply sadd_In. right. exact U.
Qed.

Notation MIC := (build_mic A D aeqb dltb deqb cutoff ds).

Lemma outer_ok g st d : sel_ok st -> sel_ok (outer A D aeqb deqb MIC g st d).
Proof.
  unfold outer. generalize (rev (dget d g)). intro l. revert st.
  induction l as [|from l IH]; intros st Hok; cbn [fold_left]; [exact Hok|].
  apply IH. unfold outer_from. destruct (amem from (fst st)); [exact Hok|].
  apply inner_ok; [|exact Hok]. intros t Ht. apply in_rev in Ht. eapply build_mic_edges; eauto.
Qed.

Theorem select_raw_matching :
  let ps := select_raw A D aeqb dltb deqb cutoff ds in
  NoDup (map fst ps) /\ NoDup (map snd ps) /\ forall k v, In (k, v) ps -> edge k v.
Proof.
  cbv zeta. unfold select_raw.
  assert (G : forall l st, sel_ok st -> sel_ok (fold_left (outer A D aeqb deqb MIC (build_d2f A D aeqb deqb MIC)) l st)).
  { induction l as [|d l IH]; intros st Hok; cbn [fold_left]; [exact Hok|]. apply IH. apply outer_ok. exact Hok. }
  destruct (G (sort_d D dltb (map fst (build_d2f A D aeqb deqb MIC))) ([], [])) as (Nk & Nv & Hin).
  - split; [constructor|]. split; [constructor|]. intros k v [].
  - split; [exact Nk|]. split; [exact Nv|]. intros k v X. apply (Hin k v X).
Qed.

(* the returned dictionary: the matching and its inverse, nothing else *)
Theorem select_sound : forall k v,
  In (k, v) (select A D aeqb dltb deqb cutoff ds) -> edge k v \/ edge v k.
Proof.
  intros k v. unfold select.
  pose proof select_raw_matching as (_ & _ & He). cbv zeta in He.
  set (raw := select_raw A D aeqb dltb deqb cutoff ds) in *.
  assert (G : forall l acc, In (k, v) (fold_left (fun acc kv => pset (snd kv) (fst kv) acc) l acc) ->
                            In (k, v) acc \/ In (v, k) l).
  { induction l as [|[k0 v0] l IH]; intros acc; cbn [fold_left fst snd]; [auto|].
    intro X. apply IH in X as [X|X]; [|right; right; exact X].
    apply pset_In in X as [[-> ->]|X]; [right; left; reflexivity|left; exact X]. }
  intro X. apply G in X as [X|X]; [left|right]; apply He; exact X.
Qed.

(* with added and removed hashes disjoint (they always are: hashes_added = t2 - t1, hashes_removed = t1 - t2)
   the dictionary is symmetric: it holds both directions of every selected pair *)
Theorem select_complete :
  (forall a r a' r', edge a r -> edge a' r' -> a <> r') ->
  forall k v, In (k, v) (select_raw A D aeqb dltb deqb cutoff ds) ->
  In (k, v) (select A D aeqb dltb deqb cutoff ds) /\ In (v, k) (select A D aeqb dltb deqb cutoff ds).
Proof.
  intros Hdis k v Hin. unfold select.
  pose proof select_raw_matching as (Nk & Nv & He). cbv zeta in He, Nk, Nv.
  set (raw := select_raw A D aeqb dltb deqb cutoff ds) in *.
  assert (G : forall l acc, incl l raw ->
            (forall x y, In (x, y) acc -> In (x, y) raw \/ In (y, x) raw) ->
            forall x y, (In (x, y) acc \/ In (y, x) l) -> NoDup (map snd l) ->
            (In (x, y) raw \/ In (y, x) raw) ->
            (forall y', In (x, y') acc -> y' = y) -> (forall y', In (y', x) l -> y' = y) ->
            In (x, y) (fold_left (fun acc kv => pset (snd kv) (fst kv) acc) l acc)).
  { induction l as [|[k0 v0] l IH]; intros acc Hl Hacc x y Hor Hnd Hxy Hu1 Hu2; cbn [fold_left fst snd].
    - destruct Hor as [X|[]]. exact X.
    - inversion Hnd as [|z zs Hz Hzs]; subst. cbn [snd] in Hz.
      apply IH.
      + intros e He'. apply Hl. right. exact He'.
      + intros x' y' X. apply pset_In in X as [[-> ->]|X]; [right; apply Hl; left; reflexivity|apply Hacc; exact X].
      + destruct (aeqb v0 x) eqn:E.
        * apply aeqb_spec in E. subst v0. assert (k0 = y) by (apply Hu2; left; reflexivity). subst k0.
          left. apply pset_has.
        * destruct Hor as [X|[X|X]].
          -- left. apply pset_keeps; [|exact X]. intro; subst. assert (aeqb v0 v0 = true) by (apply aeqb_spec; reflexivity). congruence.
          -- inversion X; subst. assert (aeqb x x = true) by (apply aeqb_spec; reflexivity). congruence.
          -- right. exact X.
      + exact Hzs.
      + exact Hxy.
      + intros y' X. apply pset_In in X as [[E1 E2]|X]; [|apply Hu1; exact X].
        subst. apply Hu2. left. reflexivity.
      + intros y' X. apply Hu2. right. exact X. }
  assert (Huk : forall x y y', In (x, y) raw -> In (x, y') raw -> y = y').
  { intros x y y' H1 H2. clear -Nk H1 H2. induction raw as [|[a b] r IH]; [destruct H1|].
    cbn [map fst] in Nk. inversion Nk as [|z zs Hz Hzs]; subst.
    destruct H1 as [E1|H1], H2 as [E2|H2].
    - congruence.
    - inversion E1; subst. exfalso. apply Hz. apply in_map_iff. exists (x, y'). auto.
    - inversion E2; subst. exfalso. apply Hz. apply in_map_iff. exists (x, y). auto.
    - apply IH; assumption. }
  assert (Huv : forall x x' y, In (x, y) raw -> In (x', y) raw -> x = x').
  { intros x x' y H1 H2. clear -Nv H1 H2. induction raw as [|[a b] r IH]; [destruct H1|].
    cbn [map snd] in Nv. inversion Nv as [|z zs Hz Hzs]; subst.
    destruct H1 as [E1|H1], H2 as [E2|H2].
    - congruence.
    - inversion E1; subst. exfalso. apply Hz. apply in_map_iff. exists (x', y). auto.
    - inversion E2; subst. exfalso. apply Hz. apply in_map_iff. exists (x, y). auto.
    - apply IH; assumption. }
  split.
  - apply G.
    + apply incl_refl.
    + intros x y X. left. exact X.
    + left. exact Hin.
    + exact Nv.
    + left. exact Hin.
    + intros y' X. symmetry. eapply Huk; eauto.
    + intros y' X. exfalso. apply (Hdis k v y' k); [apply He; exact Hin|apply He; exact X|reflexivity].
  - apply G.
    + apply incl_refl.
    + intros x y X. left. exact X.
    + right. exact Hin.
    + exact Nv.
    + right. exact Hin.
    + intros y' X. exfalso. apply (Hdis v y' k v); [apply He; exact X|apply He; exact Hin|reflexivity].
    + intros y' X. symmetry. eapply Huv; eauto.
Qed.

End Matching.

(* all of it in one statement, the candidate edges spelled out *)
Theorem select_is_matching :
  forall (A D : Type) (aeqb : A -> A -> bool) (dltb deqb : D -> D -> bool),
  (forall x y, aeqb x y = true <-> x = y) ->
  forall (cutoff : D) (ds : list (trip A D)),
  let raw := select_raw A D aeqb dltb deqb cutoff ds in
  NoDup (map fst raw) /\ NoDup (map snd raw) /\
  (forall k v, In (k, v) raw -> exists d, In (k, v, d) ds /\ dltb d cutoff = true) /\
  (forall k v, In (k, v) (select A D aeqb dltb deqb cutoff ds) ->
     (exists d, In (k, v, d) ds /\ dltb d cutoff = true) \/ (exists d, In (v, k, d) ds /\ dltb d cutoff = true)).
Proof.
  intros A D aeqb dltb deqb Ha cutoff ds.
  destruct (select_raw_matching A D aeqb dltb deqb Ha cutoff ds) as (N1 & N2 & E).
  split; [exact N1|]. split; [exact N2|]. split; [exact E|]. exact (select_sound A D aeqb dltb deqb Ha cutoff ds).
Qed.

(* the candidate edges of the double loop over hashes_added x hashes_removed lie in that product *)
Lemma edge_in_prod (A D : Type) (dltb : D -> D -> bool) (cutoff : D) (dist : A -> A -> D) (adds rems : list A) a r :
  edge A D dltb cutoff (map (fun ar => (fst ar, snd ar, dist (fst ar) (snd ar))) (list_prod adds rems)) a r ->
  In a adds /\ In r rems /\ dltb (dist a r) cutoff = true.
Proof.
  intros [d [Hin Hd]]. apply in_map_iff in Hin as [[a' r'] [E Hin]]. cbn [fst snd] in E. inversion E; subst.
  apply in_prod_iff in Hin as [Ha Hr]. auto.
Qed.

(* ------------------------------------------------------------------ *)
(** * 2. where the guard comes from *)
Section Shape.
Variables A D : Type.
Variable aeqb : A -> A -> bool.
Variable dltb : D -> D -> bool.
Variable deqb : D -> D -> bool.
Variable dkey : A -> A -> key.
Variable pkey : list A -> list A -> key.
Variable nested : A -> A -> prog (mval A D).
Variable pre : list A -> list A -> option (list (trip A D)).
Variable cutoff ddflt : D.
Variable vdflt : mval A D.

Notation V := (mval A D).
Notation body := (pairs_body A D aeqb dltb deqb dkey nested pre cutoff ddflt).
Notation Shaped := (shaped A D aeqb dltb deqb dkey pkey nested pre cutoff ddflt).

(* the pairs body is made of distance calls *)
Lemma dist_loop_shaped todo : forall acc k,
  (forall a r, Shaped (nested a r)) -> (forall ds, Shaped (k ds)) ->
  Shaped (dist_loop A D dkey nested ddflt todo acc k).
Proof.
  induction todo as [|[a r] rest IH]; intros acc k Hn Hk; cbn [dist_loop]; [apply Hk|].
  apply sh_dist; [apply Hn|]. intro v. apply IH; assumption.
Qed.
Lemma pairs_body_shaped adds rems : (forall a r, Shaped (nested a r)) -> Shaped (body adds rems).
Proof. intro Hn. unfold pairs_body. destruct (pre adds rems); [apply sh_ret|]. apply dist_loop_shaped; [exact Hn|]. intro ds. apply sh_ret. Qed.

(* inverses of the two key functions; the two key spaces are disjoint ('...dc' / 'pairs_cache...') *)
Variable dinv : key -> option (A * A).
Variable pinv : key -> option (list A * list A).

Definition spec_shaped (k : key) : V :=
  match dinv k with
  | Some (a, r) => run_pure (nested a r)
  | None => match pinv k with
            | Some (l, l') => run_pure (body l l')
            | None => vdflt
            end
  end.

(* "the key determines the value", for the two kinds of call *)
Hypothesis dkey_determines : forall a r, exists a' r',
  dinv (dkey a r) = Some (a', r') /\ run_pure (nested a' r') = run_pure (nested a r).
Hypothesis pkey_determines : forall l l', dinv (pkey l l') = None /\ exists m m',
  pinv (pkey l l') = Some (m, m') /\ run_pure (body m m') = run_pure (body l l').

Theorem shaped_consistent : forall p, Shaped p -> consistent spec_shaped p.
Proof.
  induction 1 as [v|a r cont Hb IHb Hc IHc|adds rems cont Hb IHb Hc IHc]; cbn [consistent]; [exact I| |].
  - split; [exact IHb|]. split; [|apply IHc].
    unfold spec_shaped. destruct (dkey_determines a r) as (a' & r' & -> & E). symmetry. exact E.
  - split; [exact IHb|]. split; [|apply IHc].
    unfold spec_shaped. destruct (pkey_determines adds rems) as (-> & m & m' & -> & E). symmetry. exact E.
Qed.

Corollary shaped_transparent : forall p, Shaped p ->
  forall cap sched, fst (fst (run_cached sched p (mkM (empty cap) 0))) = run_pure p.
Proof. intros p Hp cap sched. eapply cache_transparent. apply shaped_consistent. exact Hp. Qed.
End Shape.

(* keys that keep the orientation of the hash pair and the order of the two hash lists: the guard holds by
   construction, whatever the nested distance and the selection compute *)
Theorem oriented_keys_consistent :
  forall (A D : Type) aeqb dltb deqb (dkey : A -> A -> key) (pkey : list A -> list A -> key)
         (nested : A -> A -> prog (mval A D)) (pre : list A -> list A -> option (list (trip A D))) (cutoff ddflt : D) (vdflt : mval A D)
         (dinv : key -> option (A * A)) (pinv : key -> option (list A * list A)),
  (forall a r, dinv (dkey a r) = Some (a, r)) ->
  (forall l l', dinv (pkey l l') = None /\ pinv (pkey l l') = Some (l, l')) ->
  forall p, shaped A D aeqb dltb deqb dkey pkey nested pre cutoff ddflt p ->
  consistent (spec_shaped A D aeqb dltb deqb dkey nested pre cutoff ddflt vdflt dinv pinv) p.
Proof.
  intros A D aeqb dltb deqb dkey pkey nested pre cutoff ddflt vdflt dinv pinv Hd Hp p Sp.
  eapply shaped_consistent; [| |exact Sp].
  - intros a r. exists a, r. split; [apply Hd|reflexivity].
  - intros l l'. destruct (Hp l l') as [E1 E2]. split; [exact E1|]. exists l, l'. split; [exact E2|reflexivity].
Qed.

Corollary oriented_keys_transparent :
  forall (A D : Type) aeqb dltb deqb (dkey : A -> A -> key) (pkey : list A -> list A -> key)
         (nested : A -> A -> prog (mval A D)) (pre : list A -> list A -> option (list (trip A D))) (cutoff ddflt : D) (vdflt : mval A D)
         (dinv : key -> option (A * A)) (pinv : key -> option (list A * list A)),
  (forall a r, dinv (dkey a r) = Some (a, r)) ->
  (forall l l', dinv (pkey l l') = None /\ pinv (pkey l l') = Some (l, l')) ->
  forall p, shaped A D aeqb dltb deqb dkey pkey nested pre cutoff ddflt p ->
  consistent (spec_shaped A D aeqb dltb deqb dkey nested pre cutoff ddflt vdflt dinv pinv) p /\
  forall cap sched, fst (fst (run_cached sched p (mkM (empty cap) 0))) = run_pure p.
Proof.
  intros A D aeqb dltb deqb dkey pkey nested pre cutoff ddflt vdflt dinv pinv Hd Hp p Sp.
  pose proof (oriented_keys_consistent A D aeqb dltb deqb dkey pkey nested pre cutoff ddflt vdflt dinv pinv Hd Hp p Sp) as Hc.
  split; [exact Hc|]. intros cap sched. eapply cache_transparent. exact Hc.
Qed.

(* the keys of diff.py: the hash pair sorted (larger first), the two hash lists sorted *)
Theorem sorted_keys_consistent_if :
  forall (A D : Type) aeqb dltb deqb (okey : A -> A -> key) (gt : A -> A -> bool) (pk : list A -> list A -> key)
         (srt : list A -> list A)
         (nested : A -> A -> prog (mval A D)) (pre : list A -> list A -> option (list (trip A D))) (cutoff ddflt : D) (vdflt : mval A D)
         (dinv : key -> option (A * A)) (pinv : key -> option (list A * list A)),
  (forall a r, dinv (okey a r) = Some (a, r)) ->
  (forall l l', dinv (pk l l') = None /\ pinv (pk l l') = Some (l, l')) ->
  let dkey := skey A okey gt in
  let pkey := fun l l' => pk (srt l) (srt l') in
  (* the nested distance is symmetric *)
  (forall a r, run_pure (nested a r) = run_pure (nested r a)) ->
  (* the selection does not depend on the order of the two hash lists *)
  (forall l l', run_pure (pairs_body A D aeqb dltb deqb dkey nested pre cutoff ddflt (srt l) (srt l')) =
                run_pure (pairs_body A D aeqb dltb deqb dkey nested pre cutoff ddflt l l')) ->
  forall p, shaped A D aeqb dltb deqb dkey pkey nested pre cutoff ddflt p ->
  consistent (spec_shaped A D aeqb dltb deqb dkey nested pre cutoff ddflt vdflt dinv pinv) p.
Proof.
  intros A D aeqb dltb deqb okey gt pk srt nested pre cutoff ddflt vdflt dinv pinv Hd Hp dkey pkey Hsym Hord p Sp.
  eapply shaped_consistent; [| |exact Sp].
  - intros a r. unfold dkey, skey. destruct (gt a r).
    + exists a, r. split; [apply Hd|reflexivity].
    + exists r, a. split; [apply Hd|symmetry; apply Hsym].
  - intros l l'. unfold pkey. destruct (Hp (srt l) (srt l')) as [E1 E2]. split; [exact E1|].
    exists (srt l), (srt l'). split; [exact E2|apply Hord].
Qed.

(* ------------------------------------------------------------------ *)
(** * the pairs key alone refutes transparency (finding K28) *)

(* two levels whose hash lists are the same up to order share the pairs key; when the selection
   differs (a tie: the SetOrdered pops take the LAST inserted) the guard fails for every spec *)
Theorem same_pairs_key_refutes :
  forall (A D : Type) aeqb dltb deqb (dkey : A -> A -> key) (pkey : list A -> list A -> key)
         (nested : A -> A -> prog (mval A D)) (pre : list A -> list A -> option (list (trip A D))) (cutoff ddflt : D) l1 l1' l2 l2',
  pkey l1 l1' = pkey l2 l2' ->
  run_pure (pairs_body A D aeqb dltb deqb dkey nested pre cutoff ddflt l1 l1') <>
  run_pure (pairs_body A D aeqb dltb deqb dkey nested pre cutoff ddflt l2 l2') ->
  forall spec, ~ consistent spec
    (pairs_call A D aeqb dltb deqb dkey pkey nested pre cutoff ddflt l1 l1'
       (fun _ => pairs_call A D aeqb dltb deqb dkey pkey nested pre cutoff ddflt l2 l2' (fun v => Ret v))).
Proof.
  intros A D aeqb dltb deqb dkey pkey nested pre cutoff ddflt l1 l1' l2 l2' Ek Hne spec.
  unfold pairs_call. cbn [consistent]. intros [_ [H1 [_ [H2 _]]]]. rewrite Ek in H1. congruence.
Qed.

(* concrete instance: hashes and distances are numbers; the keys of diff.py *)
Definition zokey (a r : Z) : key := (2 * (a * 1000 + r))%Z.
Definition zdkey : Z -> Z -> key := skey Z zokey Z.gtb.
Definition zsort : list Z -> list Z := sort_d Z Z.ltb.
Definition zenc (l : list Z) : Z := fold_left (fun acc x => acc * 1000 + x + 1)%Z l 0%Z.
Definition zpk (l l' : list Z) : key := (2 * (zenc l * 1000000000000 + zenc l') + 1)%Z.
Definition zpkey (l l' : list Z) : key := zpk (zsort l) (zsort l').
Definition zpairs_call (nested : Z -> Z -> prog (mval Z Z)) (cutoff : Z) :=
  pairs_call Z Z Z.eqb Z.ltb Z.eqb zdkey zpkey nested (fun _ _ => None) cutoff 0%Z.

(* one removed item (hash 0), two added items (hashes 1, 2) at the same distance 5 < cut-off 10;
   the two levels list the added items in opposite order *)
Definition tie_nested (_ _ : Z) : prog (mval Z Z) := Ret (VD 5%Z).
Definition tie_prog : prog (mval Z Z) :=
  zpairs_call tie_nested 10%Z [1; 2]%Z [0%Z] (fun _ => zpairs_call tie_nested 10%Z [2; 1]%Z [0%Z] (fun v => Ret v)).

Theorem pairs_order_refutes :
  shaped Z Z Z.eqb Z.ltb Z.eqb zdkey zpkey tie_nested (fun _ _ => None) 10%Z 0%Z tie_prog /\
  run_pure tie_prog = VP [(1, 0); (0, 1)]%Z /\
  fst (fst (run_cached (fun _ => true) tie_prog (mkM (empty 50) 0))) = VP [(2, 0); (0, 2)]%Z /\
  (forall a r, run_pure (tie_nested a r) = run_pure (tie_nested r a)) /\
  forall spec, ~ consistent spec tie_prog.
Proof.
  split; [|split; [vm_compute; reflexivity|split; [vm_compute; reflexivity|split; [reflexivity|]]]].
  - unfold tie_prog, zpairs_call, pairs_call.
    apply sh_pairs; [apply pairs_body_shaped; intros; apply sh_ret|]. intros _.
    apply sh_pairs; [apply pairs_body_shaped; intros; apply sh_ret|]. intros v. apply sh_ret.
  - apply same_pairs_key_refutes; [reflexivity|]. vm_compute. discriminate.
Qed.

(* ------------------------------------------------------------------ *)
(** * satisfiability of the guards *)

(* a two-level run: the distance of the outer items is computed by a nested run that makes its own
   pairs call; distances symmetric, no tie: the hypotheses of [sorted_keys_consistent_if] hold on it,
   it hits the cache, and the selection is not trivial *)
Definition ex_nested (a r : Z) : prog (mval Z Z) :=
  if (Z.ltb a 6 && Z.ltb r 6)%bool then Ret (VD (Z.abs (a - r))) else Ret (VD 3%Z).
Definition ex_shaped : prog (mval Z Z) :=
  zpairs_call ex_nested 10%Z [4; 2]%Z [1; 5]%Z (fun _ => zpairs_call ex_nested 10%Z [4; 2]%Z [1; 5]%Z (fun v => Ret v)).

Example select_example :
  select Z Z Z.eqb Z.ltb Z.eqb 3%Z [(4, 1, 3); (4, 5, 1); (2, 1, 1); (2, 5, 3)]%Z = [(2, 1); (4, 5); (1, 2); (5, 4)]%Z /\
  (* a tie at one distance: the LAST added hash wins the shared candidate, every candidate of a hash at that distance is consumed *)
  select Z Z Z.eqb Z.ltb Z.eqb 9%Z [(4, 1, 2); (4, 5, 2); (2, 1, 2); (2, 5, 2)]%Z = [(2, 1); (1, 2)]%Z.
Proof. split; vm_compute; reflexivity. Qed.

Example shaped_example :
  shaped Z Z Z.eqb Z.ltb Z.eqb zdkey zpkey ex_nested (fun _ _ => None) 10%Z 0%Z ex_shaped /\
  run_pure ex_shaped = VP [(2, 1); (4, 5); (1, 2); (5, 4)]%Z /\
  fst (fst (run_cached (fun _ => true) ex_shaped (mkM (empty 3) 0))) = run_pure ex_shaped /\
  existsb (fun e => Nat.eqb (snd (fst e)) 1) (snd (run_cached (fun _ => true) ex_shaped (mkM (empty 3) 0))) = true.
Proof.
  split; [|split; [vm_compute; reflexivity|split; vm_compute; reflexivity]].
  unfold ex_shaped, zpairs_call, pairs_call.
  assert (Hn : forall a r, shaped Z Z Z.eqb Z.ltb Z.eqb zdkey zpkey ex_nested (fun _ _ => None) 10%Z 0%Z (ex_nested a r))
    by (intros a r; unfold ex_nested; destruct (_ && _)%bool; apply sh_ret).
  apply sh_pairs; [apply pairs_body_shaped; exact Hn|]. intros _.
  apply sh_pairs; [apply pairs_body_shaped; exact Hn|]. intros v. apply sh_ret.
Qed.

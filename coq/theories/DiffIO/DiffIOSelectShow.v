(** Source tie `iopairs` (C05): differencing functions for the hook harness/props/c05.py [on_source_tie_break].
    The GENERATED selection is passed in as an argument; hashes and distances are numbers (the harness numbers the recorded
    hashes, a distance is the IEEE bit pattern of the non-negative float, which orders like the float).
    No theorem depends on this file. *)
From Coq Require Import List ZArith NArith Bool Arith String.
Import ListNotations.
From DD Require Import Base.Sx DiffIO.MemoPairs DiffIO.DiffIOSelect.
Local Open Scope Z_scope.

(* the type of DDGen.DiffIOGen.g__get_most_in_common_pairs_in_iterables *)
Definition gsel_t := forall (A D : Type), (A -> A -> bool) -> (D -> D -> bool) -> (D -> D -> bool) ->
  (A -> bool) -> (A -> A -> D) -> D -> list A -> list A -> list (A * A).

Definition ztab := list (Z * Z * Z).            (* (added, removed, distance) as the implementation computed them *)
Definition tz_dist (t : ztab) (a r : Z) : Z :=
  match find (fun x => Z.eqb (fst (fst x)) a && Z.eqb (snd (fst x)) r) t with Some x => snd x | None => -1 end.
(* a removed hash for which no distance was computed at all was skipped by the loop detection *)
Definition tz_loop (t : ztab) (r : Z) : bool := negb (existsb (fun x => Z.eqb (snd (fst x)) r) t).
Definition zmem (x : Z) (l : list Z) : bool := existsb (Z.eqb x) l.
Fixpoint znodup (l : list Z) : bool := match l with [] => true | x :: r => negb (zmem x r) && znodup r end.
Fixpoint zpairs_eqb (l l' : list (Z * Z)) : bool :=
  match l, l' with
  | [], [] => true
  | (a, b) :: r, (a', b') :: r' => Z.eqb a a' && Z.eqb b b' && zpairs_eqb r r'
  | _, _ => false
  end.

(* the hand predicate on a returned dictionary: keys pairwise different, symmetric, every entry links an added and a removed
   hash whose computed distance is below the cut-off *)
Definition dict_ok (cutoff : Z) (t : ztab) (adds rems : list Z) (ps : list (Z * Z)) : bool :=
  znodup (map fst ps) &&
  forallb (fun kv =>
    existsb (fun kv' => Z.eqb (fst kv') (snd kv) && Z.eqb (snd kv') (fst kv)) ps &&
    ((zmem (fst kv) adds && zmem (snd kv) rems && negb (tz_loop t (snd kv)) && Z.ltb (tz_dist t (fst kv) (snd kv)) cutoff) ||
     (zmem (fst kv) rems && zmem (snd kv) adds && negb (tz_loop t (fst kv)) && Z.ltb (tz_dist t (snd kv) (fst kv)) cutoff))) ps.

Definition hand_select (cutoff : Z) (t : ztab) (adds rems : list Z) : list (Z * Z) :=
  select Z Z Z.eqb Z.ltb Z.eqb cutoff (trips Z Z (tz_loop t) (tz_dist t) adds rems).

Definition sx_zpairs (ps : list (Z * Z)) : sx := SL (map (fun kv => SL [SZ (fst kv); SZ (snd kv)]) ps).

(* one recorded call: [generated = hand model; generated = recorded dictionary; hand predicate on the generated dictionary;
   hand predicate on the recorded dictionary], then the generated dictionary *)
Definition tie_case (g : gsel_t) (cutoff : Z) (adds rems : list Z) (t : ztab) (recorded : list (Z * Z)) : sx :=
  let gs := g Z Z Z.eqb Z.ltb Z.eqb (tz_loop t) (tz_dist t) cutoff adds rems in
  SL [sx_bool (zpairs_eqb gs (hand_select cutoff t adds rems)); sx_bool (zpairs_eqb gs recorded);
      sx_bool (dict_ok cutoff t adds rems gs); sx_bool (dict_ok cutoff t adds rems recorded)].

(* bounded-exhaustive: every distance table over [adds] x [rems] with distances from [vals] *)
Fixpoint all_tables (cells : list (Z * Z)) (vals : list Z) : list ztab :=
  match cells with
  | [] => [[]]
  | (a, r) :: rest => flat_map (fun t => map (fun d => (a, r, d) :: t) vals) (all_tables rest vals)
  end.
Fixpoint find_idx {X} (f : X -> bool) (l : list X) (i : nat) : list nat :=
  match l with [] => [] | x :: r => (if f x then [i] else []) ++ find_idx f r (S i) end.
Definition loop_none (_ : Z) : bool := false.
(* indices of the tables on which generated <> hand model, and of those on which the generated dictionary fails the predicate *)
Definition synthetic_diffs (g : gsel_t) (cutoff : Z) (adds rems vals : list Z) : list nat * list nat :=
  let ts := all_tables (list_prod adds rems) vals in
  (find_idx (fun t => negb (zpairs_eqb (g Z Z Z.eqb Z.ltb Z.eqb loop_none (tz_dist t) cutoff adds rems)
                                        (select Z Z Z.eqb Z.ltb Z.eqb cutoff (trips Z Z loop_none (tz_dist t) adds rems)))) ts 0,
   find_idx (fun t => negb (dict_ok cutoff (t ++ map (fun r => (-1, r, 0)) rems) adds rems
                              (g Z Z Z.eqb Z.ltb Z.eqb loop_none (tz_dist t) cutoff adds rems))) ts 0).
Definition sx_synthetic (g : gsel_t) (cutoff : Z) (adds rems vals : list Z) : sx :=
  let r := synthetic_diffs g cutoff adds rems vals in
  SL [SZ (Z.of_nat (List.length (fst r))); SL (map sx_nat (firstn 5 (fst r)));
      SZ (Z.of_nat (List.length (snd r))); SL (map sx_nat (firstn 5 (snd r)));
      match fst r ++ snd r with
      | k :: _ => let t := nth k (all_tables (list_prod adds rems) vals) [] in
                  SL [SL (map (fun x => SL [SZ (fst (fst x)); SZ (snd (fst x)); SZ (snd x)]) t);
                      sx_zpairs (g Z Z Z.eqb Z.ltb Z.eqb loop_none (tz_dist t) cutoff adds rems);
                      sx_zpairs (select Z Z Z.eqb Z.ltb Z.eqb cutoff (trips Z Z loop_none (tz_dist t) adds rems))]
      | [] => SL []
      end].

(* ---- the decision whether pairs are computed (get_pairs / max_passes) ---- *)
From Coq Require Import QArith.
Close Scope Q_scope.
(* the type of DDGen.DiffIOGen.g__diff_iterable_with_deephash_pairs *)
Definition gdec_t := forall (A D : Type), (A -> A -> bool) -> (D -> D -> bool) -> (D -> D -> bool) ->
  (A -> bool) -> (A -> A -> D) -> D -> Q -> N -> N -> N -> N -> list A -> list A -> list (A * A) * N.
Definition dec_grid : list (Q * N * N * nat * nat) :=
  flat_map (fun cut => flat_map (fun maxp => flat_map (fun passes => flat_map (fun na => map (fun nr => (cut, maxp, passes, na, nr)) [0; 1; 2; 3]%nat)
    [0; 1; 2; 3]%nat) [0; 1; 2]%N) [0; 1; 2; 10000000]%N) [0 # 1; 1 # 2; 7 # 10; 1 # 1]%Q.
Definition dec_differs (g : gdec_t) (x : Q * N * N * nat * nat) : bool :=
  let '(cut, maxp, passes, na, nr) := x in
  let adds := map Z.of_nat (seq 0 na) in
  let rems := map Z.of_nat (seq 10 nr) in
  let a := g Z Z Z.eqb Z.ltb Z.eqb loop_none (fun _ _ => 1%Z) 4%Z cut maxp passes 3%N 3%N adds rems in
  let b := level_pairs_spec Z Z Z.eqb Z.ltb Z.eqb loop_none (fun _ _ => 1%Z) 4%Z cut maxp passes 3%N 3%N adds rems in
  negb (zpairs_eqb (fst a) (fst b) && N.eqb (snd a) (snd b)).
Definition sx_decision (g : gdec_t) : sx :=
  let d := filter (dec_differs g) dec_grid in
  SL [SZ (Z.of_nat (List.length dec_grid)); SZ (Z.of_nat (List.length d));
      SL (map (fun x => let '(cut, maxp, passes, na, nr) := x in
                        SL [SZ (Qnum cut); SZ (Zpos (Qden cut)); SZ (Z.of_N maxp); SZ (Z.of_N passes); sx_nat na; sx_nat nr]) (firstn 4 d))].

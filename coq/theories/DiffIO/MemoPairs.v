(** C17: what the memoised PAIRS call computes, concretely.  Definitions only.

    [_get_most_in_common_pairs_in_iterables] (diff.py:1190-1290):

        cache_key = combine_hashes_lists([hashes_added, hashes_removed], 'pairs_cache')   # the two lists SORTED
        if cache_key in cache: return cache.get(cache_key).copy()
        for added_hash in hashes_added:
            for removed_hash in hashes_removed:
                _distance = self._get_rough_distance_of_hashed_objs(added_hash, removed_hash, ...)   # memoised, key = the two hashes SORTED
                if _distance >= self.cutoff_distance_for_pairs: continue
                most_in_common_pairs[added_hash][_distance].add(removed_hash)
        for from_hash, distances_to_to_hashes in most_in_common_pairs.items():
            for dist in distances_to_to_hashes: distances_to_from_hashes[dist].add(from_hash)
        for dist in sorted(distances_to_from_hashes.keys()):
            from_hashes = distances_to_from_hashes[dist]
            while from_hashes:
                from_hash = from_hashes.pop()                              # SetOrdered.pop: the LAST one
                if from_hash not in used_to_hashes:
                    to_hashes = most_in_common_pairs[from_hash][dist]
                    while to_hashes:
                        to_hash = to_hashes.pop()
                        if to_hash not in used_to_hashes:
                            used_to_hashes.add(from_hash); used_to_hashes.add(to_hash)
                            pairs[from_hash] = to_hash                     # no break: a later unused to_hash at the
                                                                           # same distance overwrites, all are marked used
        pairs.update({v: k for k, v in pairs.items()})
        cache.set(cache_key, pairs); return pairs.copy()

    Generic in the type [A] of hashes and [D] of distances (the correspondence
    instantiates both with Z: hash numbers, and the bit pattern of the
    non-negative float, which orders like the float).  defaultdict / SetOrdered /
    dict are association lists in insertion order.

    The call as a program of memoised calls (MemoModel.v): the pairs call's
    body makes one DISTANCE call per (added, removed) in loop order, whose body
    is the nested DeepDiff of the two items ([nested added removed], itself a
    program: it makes the pairs calls of the levels inside the items and returns
    the rough distance), then selects.  Values in the cache are distances or
    pairs dictionaries ([mval]). *)
From Coq Require Import List ZArith Bool Arith.
Import ListNotations.
From DD Require Import Lfu.LfuModel DiffIO.MemoModel.

Section Select.
Variables A D : Type.
Variable aeqb : A -> A -> bool.
Variable dltb : D -> D -> bool.          (* d < d' *)
Variable deqb : D -> D -> bool.          (* d == d' (as dict keys) *)

Definition amem (x : A) (l : list A) : bool := existsb (aeqb x) l.
(* SetOrdered.add *)
Definition sadd (x : A) (l : list A) : list A := if amem x l then l else (l ++ [x])%list.

(* defaultdict(SetOrdered): distance -> ordered set of hashes *)
Definition dgroup := list (D * list A).
Fixpoint dadd (d : D) (x : A) (g : dgroup) : dgroup :=
  match g with
  | [] => [(d, [x])]
  | (d', l) :: r => if deqb d' d then (d', sadd x l) :: r else (d', l) :: dadd d x r
  end.
Fixpoint dget (d : D) (g : dgroup) : list A :=
  match g with
  | [] => []
  | (d', l) :: r => if deqb d' d then l else dget d r
  end.

(* most_in_common_pairs: added hash -> (distance -> removed hashes) *)
Definition mic := list (A * dgroup).
Fixpoint madd (a : A) (d : D) (r : A) (m : mic) : mic :=
  match m with
  | [] => [(a, [(d, [r])])]
  | (a', g) :: rest => if aeqb a' a then (a', dadd d r g) :: rest else (a', g) :: madd a d r rest
  end.
Fixpoint mget (a : A) (m : mic) : dgroup :=
  match m with
  | [] => []
  | (a', g) :: rest => if aeqb a' a then g else mget a rest
  end.

(* the double loop: [ds] = ((added, removed), distance) in loop order *)
Definition trip := (A * A * D)%type.
Definition build_mic (cutoff : D) (ds : list trip) : mic :=
  fold_left (fun m t => let '(a, r, d) := t in if dltb d cutoff then madd a d r m else m) ds [].

Definition build_d2f (m : mic) : dgroup :=
  fold_left (fun g ag => fold_left (fun g' dl => dadd (fst dl) (fst ag) g') (snd ag) g) m [].

(* sorted(distances_to_from_hashes.keys()) *)
Fixpoint insert_d (d : D) (l : list D) : list D :=
  match l with
  | [] => [d]
  | x :: r => if dltb d x then d :: l else x :: insert_d d r
  end.
Definition sort_d (l : list D) : list D := fold_right insert_d [] l.

(* pairs[from] = to *)
Fixpoint pset (k v : A) (ps : list (A * A)) : list (A * A) :=
  match ps with
  | [] => [(k, v)]
  | (k', v') :: r => if aeqb k' k then (k', v) :: r else (k', v') :: pset k v r
  end.

Definition sel_state := (list A * list (A * A))%type.      (* used_to_hashes, pairs *)

Fixpoint inner (tos : list A) (from : A) (st : sel_state) : sel_state :=
  match tos with
  | [] => st
  | t :: rest =>
      if amem t (fst st) then inner rest from st
      else inner rest from (sadd t (sadd from (fst st)), pset from t (snd st))
  end.
Definition outer_from (m : mic) (d : D) (st : sel_state) (from : A) : sel_state :=
  if amem from (fst st) then st else inner (rev (dget d (mget from m))) from st.
Definition outer (m : mic) (g : dgroup) (st : sel_state) (d : D) : sel_state :=
  fold_left (outer_from m d) (rev (dget d g)) st.

Definition select_raw (cutoff : D) (ds : list trip) : list (A * A) :=
  let m := build_mic cutoff ds in
  let g := build_d2f m in
  snd (fold_left (outer m g) (sort_d (map fst g)) ([], [])).

(* pairs.update(inverse_pairs) *)
Definition select (cutoff : D) (ds : list trip) : list (A * A) :=
  let ps := select_raw cutoff ds in
  fold_left (fun acc kv => pset (snd kv) (fst kv) acc) ps ps.

(* ------------------------------------------------------------------ *)
(** ** the call as a program *)
Inductive mval := VD (d : D) | VP (ps : list (A * A)).

Variable dkey : A -> A -> key.                      (* _get_distance_cache_key(added, removed) *)
Variable pkey : list A -> list A -> key.            (* combine_hashes_lists([added, removed], 'pairs_cache') *)
Variable nested : A -> A -> prog mval.              (* DeepDiff(removed.item, added.item, shared parameters)._get_rough_distance() *)
(* _precalculate_numpy_arrays_distance: when there are at least two added and two removed items and all of them are
   numbers of one numpy-compatible type the whole distance matrix comes from numpy and NO memoised distance call is made *)
Variable pre : list A -> list A -> option (list trip).
Variable cutoff : D.
Variable ddflt : D.

Definition as_d (v : mval) : D := match v with VD d => d | VP _ => ddflt end.

Fixpoint dist_loop (todo : list (A * A)) (acc : list trip) (k : list trip -> prog mval) : prog mval :=
  match todo with
  | [] => k acc
  | (a, r) :: rest =>
      Call (dkey a r) (nested a r) (fun v => dist_loop rest (acc ++ [(a, r, as_d v)])%list k)
  end.

Definition pairs_body (adds rems : list A) : prog mval :=
  match pre adds rems with
  | Some ds => Ret (VP (select cutoff ds))
  | None => dist_loop (list_prod adds rems) [] (fun ds => Ret (VP (select cutoff ds)))
  end.

(* the memoised call of one level, continued by [cont] *)
Definition pairs_call (adds rems : list A) (cont : mval -> prog mval) : prog mval :=
  Call (pkey adds rems) (pairs_body adds rems) cont.

(* the programs an ignore-order run is made of *)
Inductive shaped : prog mval -> Prop :=
| sh_ret v : shaped (Ret v)
| sh_dist a r cont : shaped (nested a r) -> (forall v, shaped (cont v)) -> shaped (Call (dkey a r) (nested a r) cont)
| sh_pairs adds rems cont : shaped (pairs_body adds rems) -> (forall v, shaped (cont v)) ->
    shaped (Call (pkey adds rems) (pairs_body adds rems) cont).

End Select.
Arguments VD {A D} d.
Arguments VP {A D} ps.

(** Correspondence-side evaluation of the pairs model (hashes and distances are numbers).
    No theorem depends on this file. *)
From Coq Require Import List ZArith NArith Bool Arith String.
Import ListNotations.
From DD Require Import Base.Sx Lfu.LfuModel DiffIO.MemoModel DiffIO.MemoShow DiffIO.MemoPairs.
Local Open Scope Z_scope.

Definition sx_pairs (ps : list (Z * Z)) : sx := SL (map (fun kv => SL [SZ (fst kv); SZ (snd kv)]) ps).

(* the dictionary the selection returns, in insertion order *)
Definition select_z (cutoff : Z) (ds : list (Z * Z * Z)) : sx :=
  sx_pairs (select Z Z Z.eqb Z.ltb Z.eqb cutoff ds).

(* ---- a whole recorded run with the pairs bodies COMPUTED by the model ----
   keys are looked up in tables built from the real cache keys (added, removed) -> key number and
   (hashes_added, hashes_removed) -> key number; the nested run of a distance call is looked up by
   its (added, removed) hashes among the children recorded under the pairs call *)
Definition tbl_dkey (t : list (Z * Z * Z)) (a r : Z) : key :=
  match find (fun x => Z.eqb (fst (fst x)) a && Z.eqb (snd (fst x)) r) t with Some x => snd x | None => -1 end.
Fixpoint zlist_eqb (l l' : list Z) : bool :=
  match l, l' with
  | [], [] => true
  | x :: r, y :: r' => Z.eqb x y && zlist_eqb r r'
  | _, _ => false
  end.
Definition tbl_pkey (t : list (list Z * list Z * Z)) (l l' : list Z) : key :=
  match find (fun x => zlist_eqb (fst (fst x)) l && zlist_eqb (snd (fst x)) l') t with Some x => snd x | None => -2 end.
Definition tbl_nested (t : list (Z * Z * prog (mval Z Z))) (a r : Z) : prog (mval Z Z) :=
  match find (fun x => Z.eqb (fst (fst x)) a && Z.eqb (snd (fst x)) r) t with Some x => snd x | None => Ret (VD (-1)) end.

Definition pcall (dk : list (Z * Z * Z)) (pk : list (list Z * list Z * Z)) (cutoff : Z)
           (nest : list (Z * Z * prog (mval Z Z))) (pre : option (list (Z * Z * Z)))
           (adds rems : list Z) (cont : prog (mval Z Z)) : prog (mval Z Z) :=
  pairs_call Z Z Z.eqb Z.ltb Z.eqb (tbl_dkey dk) (tbl_pkey pk) (tbl_nested nest) (fun _ _ => pre) cutoff 0 adds rems (fun _ => cont).

Definition sx_mval (v : mval Z Z) : sx :=
  match v with VD d => SL [SZ 0; SZ d] | VP ps => SL [SZ 1; sx_pairs ps] end.

(* the predicted log of the cached run: [[key; outcome; value]...], values computed *)
Definition run_trace_p (cap : nat) (sched : list bool) (p : prog (mval Z Z)) : sx :=
  let '(_, _, lg) := run_cached (sched_of sched) p (mkM (empty cap) 0) in
  SL (map (fun e => SL [SZ (fst (fst e)); sx_nat (snd (fst e)); sx_mval (snd e)]) lg).

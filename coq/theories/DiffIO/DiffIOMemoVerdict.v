(** Consequences of [diff_io_m_pure] (DiffIOMemoProofs.v), [diff_io_o_perm] (DiffIOOrder.v),
    [st_transparent] (DiffIOCacheProofs.v) and the C05 verdict (DiffIOProofs.v). *)
From Coq Require Import List ZArith NArith Bool Arith Lia Permutation.
Import ListNotations.
From DD Require Import Base.PyStr Base.Value Diff.Tree Diff.DiffModel Hash.HashModel Hash.Equiv Hash.HashProofsC07 Hash.HashProofsMemo
  Lfu.LfuModel DiffIO.DiffIOModel DiffIO.DiffIOProofs DiffIO.MemoModel DiffIO.MemoProofs DiffIO.DiffIOCache DiffIO.DiffIOCacheProofs
  DiffIO.DiffIOMemo DiffIO.DiffIOMemoProofs DiffIO.DiffIOOrder.

Lemma perm_nil_iff {X} (l l' : list X) : Permutation l l' -> (l = [] <-> l' = []).
Proof.
  intro Hp. split; intros ->.
  - apply Permutation_nil. exact Hp.
  - apply Permutation_nil. apply Permutation_sym. exact Hp.
Qed.

(* the C05 verdict for the model WITH the shared hashes table, where nothing aliases *)
Theorem verdict_memo :
  forall (H : pystr -> pystr),
  (forall s, s <> [] -> sepfree (H s)) -> (forall s t, H s = H t -> s = t) ->
  forall udiff excl c rep pairs t1 t2,
  thr_num c <= thr_den c ->
  wf t1 = true -> wf t2 = true -> tag_safe t1 = true -> tag_safe t2 = true -> alias_free2 t1 t2 = true ->
  (fst (fst (run_diff_io_m H udiff no_skip excl c rep pairs t1 t2)) = [] <-> eqv (io_opts c rep) t1 t2).
Proof.
  intros H H_tok H_inj udiff excl c rep pairs t1 t2 Hthr W1 W2 T1 T2 Ha.
  rewrite (run_diff_io_m_pure H udiff no_skip excl c rep pairs t1 t2 W1 W2 Ha).
  destruct (diff_io_o_perm H udiff no_skip excl c rep pairs t1 t2 [] [] W1 W2) as [P _].
  rewrite <- (verdict H H_tok H_inj udiff excl c rep pairs t1 t2 Hthr W1 W2 T1 T2 Ha).
  rewrite run_nil.
  destruct rep.
  - apply perm_nil_iff. exact P.
  - rewrite mutual_nil. apply perm_nil_iff. exact P.
Qed.

(* ONE cache threaded through the traversal, against [diff_io] itself *)
Theorem st_vs_diff_io :
  forall (H : pystr -> pystr) udiff skip excl c rep (V : Type) (spec : key -> V)
         (sched : nat -> bool) (pp : path -> prog V) (dec : path -> V -> list (nat * nat)),
  (forall p, consistent spec (pp p)) ->
  forall t1 t2 p1 p2 (s : mstate V), cache_ok spec (mcache s) -> wf t1 = true -> wf t2 = true ->
  let r := fst (fst (diff_io_st H udiff skip excl c rep V sched pp dec t1 t2 p1 p2 s)) in
  let r' := diff_io H udiff skip excl c rep (fun p => dec p (run_pure (pp p))) t1 t2 p1 p2 in
  Permutation (fst r) (fst r') /\ Permutation (snd r) (snd r') /\
  cache_ok spec (mcache (snd (fst (diff_io_st H udiff skip excl c rep V sched pp dec t1 t2 p1 p2 s)))).
Proof.
  intros H udiff skip excl c rep V spec sched pp dec Hc t1 t2 p1 p2 s Hok W1 W2.
  destruct (st_transparent H udiff skip excl c rep V spec sched pp dec Hc t1 t2 p1 p2 s Hok) as [E Ok].
  destruct (diff_io_o_perm H udiff skip excl c rep (fun p => dec p (run_pure (pp p))) t1 t2 p1 p2 W1 W2) as [P1 P2].
  cbn zeta. rewrite E. auto.
Qed.

(** What the shared, ==-keyed DeepHash table does to an ignore-order run, stated without a table.

    [diff_io_m] (DiffIOMemo.v) threads DeepDiff's run-wide [hashes] table through the traversal.
    The table is looked up by Python ==, so the FIRST member of an ==-class that is hashed supplies
    the hash of every later one (finding K2).  This file holds the definitions needed to say exactly
    what that amounts to:

      [cmap f v]        v with every atom (leaf, dict key, set member) replaced by [f] of it;
      [rho m]           the representative function of a table: an atom is sent to the first atom
                        key of the table that is == to it ("first-visited representative"), to
                        itself when there is none;
      [rho0]            a table-independent choice of representatives (1.0, True -> 1);
      [cb f v]          what the VERDICT sees: dict keys and everything below the first
                        list / tuple / set are taken modulo ==, scalars reached through dicts only
                        are compared with their type;
      [diff_io_c]       the memo-free traversal of [diff_io_m] (children of a dict in the order of
                        t2's keys) with the item hash function [hvf] and the member hash function
                        [haf] as parameters; [diff_io_cr H .. f] is its instance "hash of the value
                        after [cmap f]";
      [bool_sep]        the guard: no bool is == to a non-bool atom.  A bool is keyed as a BoolObj at
                        the top level of a lookup but as itself inside a tuple / as a dict key, so
                        with True next to 1 the table is not a function of ==-classes any more.

    Definitions only. *)
From Coq Require Import List ZArith NArith Bool Arith.
Import ListNotations.
From DD Require Import Base.PyStr Base.Value Diff.Tree Diff.DiffModel Hash.HashModel
  DiffIO.DiffIOModel DiffIO.DiffIOMemo.

(* ---- renaming atoms ---- *)
Fixpoint cmap (f : atom -> atom) (v : value) {struct v} : value :=
  match v with
  | VAtom a => VAtom (f a)
  | VList xs => VList (map (cmap f) xs)
  | VTuple xs => VTuple (map (cmap f) xs)
  | VDict kvs => VDict (map (fun kv => (f (fst kv), cmap f (snd kv))) kvs)
  | VSet xs => VSet (map f xs)
  | VFrozen xs => VFrozen (map f xs)
  end.

(* the part of a value the verdict takes modulo == *)
Fixpoint cb (f : atom -> atom) (v : value) {struct v} : value :=
  match v with
  | VAtom a => VAtom a
  | VDict kvs => VDict (map (fun kv => (f (fst kv), cb f (snd kv))) kvs)
  | _ => cmap f v
  end.

(* one representative per ==-class, chosen without a table: numbers as int when integral *)
Definition rho0 (a : atom) : atom :=
  match num2 a with
  | Some z => if Z.even z then AInt (Z.div z 2) else AHalf z
  | None => a
  end.

(* ---- the representatives a table holds ---- *)
Fixpoint akeys (m : memo) : list atom :=
  match m with
  | [] => []
  | (MK (VAtom a), _) :: r => a :: akeys r
  | _ :: r => akeys r
  end.
Definition rho_l (ks : list atom) (a : atom) : atom :=
  match find (fun k => py_eq k a) ks with
  | Some k => k
  | None => a
  end.
Definition rho (m : memo) : atom -> atom := rho_l (akeys m).
Definition inclass (m : memo) (a : atom) : bool := existsb (fun k => py_eq k a) (akeys m).
(* total version: classes the table does not know get the table-independent representative *)
Definition rho_tot (m : memo) (a : atom) : atom := if inclass m a then rho m a else rho0 a.

(* the atoms DeepHash looks at: private dict items are skipped before anything is hashed *)
Fixpoint vatoms (o : hopts) (v : value) {struct v} : list atom :=
  match v with
  | VAtom a => [a]
  | VList xs | VTuple xs => flat_map (vatoms o) xs
  | VDict kvs => flat_map (fun kv => if hidden o (fst kv) then [] else fst kv :: vatoms o (snd kv)) kvs
  | VSet xs | VFrozen xs => xs
  end.

(* guard: a bool is == to bools only *)
Definition is_bool (a : atom) : bool := match a with ABool _ => true | _ => false end.
Definition bool_sep (l : list atom) : bool :=
  forallb (fun a => forallb (fun b => implb (py_eq a b) (Bool.eqb (is_bool a) (is_bool b))) l) l.
Definition bool_sep2 (t1 t2 : value) : bool := bool_sep (atoms_of t1 ++ atoms_of t2).

(* ---- the memo-free traversal with the hash functions as parameters ---- *)
Section Canon.
Variable hvf : value -> pystr.        (* hash of a list / tuple item *)
Variable haf : atom -> pystr.         (* hash of a set member *)
Variable udiff : pystr -> pystr -> pystr.
Variable skip : path -> bool.
Variable excl : path -> bool.
Variable c : cfg.
Variable rep : bool.
Variable pairs : path -> list (nat * nat).

Section Level.
Variable recs : list rec_fn.
Variable xs ys : list value.
Variable hh1 hh2 : list pystr.
Variable p1 p2 : path.

Definition added_one_c (a : pystr) (remaining : list pystr) : res * list pystr :=
  let j := first_of (indexes_of a hh2 0) in
  match partner_g pairs hh1 hh2 p1 a remaining with
  | Some r =>
      let i := first_of (indexes_of r hh1 0) in
      (match item2 ys j with
       | Some y => nth_rec recs i y (snoc p1 (PIdx i)) (snoc p2 (PIdx j))
       | None => ([], [])
       end, remove_h r remaining)
  | None =>
      ((rpt skip KIterAdd (snoc p1 (PIdx j)) (snoc p2 (PIdx j)) None (item2 ys j) None, []), remaining)
  end.

Definition added_one_rep_c (a : pystr) (remaining : list pystr) : res * list pystr :=
  let js := indexes_of a hh2 0 in
  let j0 := first_of js in
  match partner_g pairs hh1 hh2 p1 a remaining with
  | Some r =>
      let is_ := indexes_of r hh1 0 in
      let i0 := first_of is_ in
      (match item2 ys j0 with
       | Some y =>
           fold_right (fun i acc =>
             app2 (nth_rec recs i0 y (snoc p1 (PIdx i))
                     (snoc p2 (PIdx (if Nat.eqb (length js) 1 then j0 else i)))) acc) ([], []) is_
       | None => ([], [])
       end, remove_h r remaining)
  | None =>
      ((flat_map (fun j => rpt skip KIterAdd (snoc p1 (PIdx j)) (snoc p2 (PIdx j)) None (item2 ys j0) None) js, []),
       remaining)
  end.

Definition iter_c : res :=
  if rep then
    let '(ra, remaining) := added_loop added_one_rep_c (hashes_added_g hh1 hh2) (hashes_removed_g hh1 hh2) in
    let rr := concat_res (map (removed_one_rep_g skip xs hh1 p1 p2) remaining) in
    let ri := concat_res (map (repetition_one_g skip xs ys hh1 hh2 p1 p2)
                              (filter (fun h => mem_h h (t1_hashes_g hh1)) (t2_hashes_g hh2))) in
    app2 ra (app2 rr ri)
  else
    let '(ra, remaining) := added_loop added_one_c (hashes_added_g hh1 hh2) (hashes_removed_g hh1 hh2) in
    app2 ra (concat_res (map (removed_one_g skip xs hh1 p1 p2) remaining)).
End Level.

Definition find_rec_c (k' : atom) (recs : list (atom * rec_fn)) : option rec_fn :=
  match find (fun kr => keep_key c (fst kr) && py_eq (fst kr) k') recs with
  | Some kr => Some (snd kr)
  | None => None
  end.
Fixpoint common_c (recs : list (atom * rec_fn)) (k1 : list atom) (kvs2 : list (atom * value))
         (p1 p2 : path) (keys2 : list atom) : res :=
  match keys2 with
  | [] => ([], [])
  | k' :: r =>
      let rest := common_c recs k1 kvs2 p1 p2 r in
      if mem_atom k' k1 then
        match find_rec_c k' recs, assoc k' kvs2 with
        | Some f, Some v2 => app2 (f v2 (snoc p1 (PKey k')) (snoc p2 (PKey k'))) rest
        | _, _ => rest
        end
      else rest
  end.

Fixpoint diff_io_c (t1 t2 : value) (p1 p2 : path) {struct t1} : res :=
  if skip p1 then ([], []) else
  if negb (ty_eqb (type_of t1) (type_of t2))
  then (rpt skip KType p1 p2 (Some t1) (Some t2) None, [])
  else
  match t1, t2 with
  | VAtom a, VAtom b => (diff_atom udiff skip a b p1 p2, [])
  | VDict kvs1, VDict kvs2 =>
      let k1 := keys_of c kvs1 in
      let k2 := keys_of c kvs2 in
      if dict_shortcut excl c k1 k2 p1 then (rpt skip KValue p1 p2 (Some t1) (Some t2) None, [])
      else
        let added := flat_map (fun k => if mem_atom k k1 then []
                       else rpt skip KDictAdd (snoc p1 (PKey k)) (snoc p2 (PKey k)) None (assoc k kvs2) None) k2 in
        let removed := flat_map (fun k => if mem_atom k k2 then []
                       else rpt skip KDictRem (snoc p1 (PKey k)) (snoc p2 (PKey k)) (assoc k kvs1) None None) k1 in
        app2 ((added ++ removed)%list, [])
             (common_c ((fix go (l : list (atom * value)) : list (atom * rec_fn) :=
                           match l with
                           | [] => []
                           | (k, v1) :: r => (k, diff_io_c v1) :: go r
                           end) kvs1) k1 kvs2 p1 p2 k2)
  | VList xs, VList ys | VTuple xs, VTuple ys =>
      iter_c ((fix go (l : list value) : list rec_fn :=
                 match l with [] => [] | x :: r => diff_io_c x :: go r end) xs)
             xs ys (map hvf xs) (map hvf ys) p1 p2
  | VSet xs, VSet ys | VFrozen xs, VFrozen ys => (diff_set haf skip xs ys p1 p2, [])
  | _, _ => ([], [])
  end.

Definition run_diff_io_c (t1 t2 : value) : res :=
  let r := diff_io_c t1 t2 [] [] in
  (if rep then fst r else mutual (fst r), snd r).
End Canon.

(* the instance "every hash is the memo-free hash of the value after renaming its atoms by f" *)
Definition hv_of (H : pystr -> pystr) (c : cfg) (rep : bool) (f : atom -> atom) (v : value) : pystr :=
  hash_pure H (io_opts c rep) (cmap f v).
Definition ha_of (H : pystr -> pystr) (c : cfg) (rep : bool) (f : atom -> atom) (a : atom) : pystr :=
  hash_atom H (io_opts c rep) (f a).
Definition diff_io_cr (H : pystr -> pystr) udiff skip excl c rep pairs (f : atom -> atom) :=
  diff_io_c (hv_of H c rep f) (ha_of H c rep f) udiff skip excl c rep pairs.
Definition run_diff_io_cr (H : pystr -> pystr) udiff skip excl c rep pairs (f : atom -> atom) :=
  run_diff_io_c (hv_of H c rep f) (ha_of H c rep f) udiff skip excl c rep pairs.

(** C17: a previously used [hashes] table, repeated runs.  Definitions only.

    DeepDiff(t1, t2, hashes=table): the run-wide DeepHash table [self.hashes] starts as the
    caller's dictionary (diff.py:322) instead of an empty one, and the caller keeps it (it is
    the same object; cache_purge_level only deletes DeepDiff's own reference).  Everything else
    a run uses is created afresh per root DeepDiff (LFUCache, _stats: diff.py:309-321) - so a
    SESSION of runs is the shared table threaded through [diff_io_m] (DiffIOMemo.v), one run
    after the other, each with its own options, pairings and inputs.

    Keys of the table: hashable objects by ==, unhashable ones by id() ([mkey]: HashModel.v).
    An id() entry is never read by DeepHash._hash (self.hashes[obj] raises TypeError for an
    unhashable obj before any id is tried) and is read by DeepHash.__getitem__ only right after
    that very DeepHash call rewrote it - so stale id() entries (objects edited in place, ids
    recycled) cannot be observed; in the model [MI] entries are never found.  (The harness
    checks this on every run with a spying dictionary.) *)
From Coq Require Import List ZArith NArith Bool Arith.
Import ListNotations.
From DD Require Import Base.PyStr Base.Value Diff.Tree Diff.DiffModel Hash.HashModel DiffIO.DiffIOModel DiffIO.DiffIOMemo.

Section Session.
Variable H : pystr -> pystr.
Variable udiff : pystr -> pystr -> pystr.
Variable skip excl : path -> bool.
Variable c : cfg.

(* one run from a given table: the result and the table it leaves *)
Definition run_m_from (rep : bool) (pairs : path -> list (nat * nat)) (m : memo) (t1 t2 : value) : res * memo :=
  let '(r, m') := diff_io_m H udiff skip excl c rep pairs t1 t2 [] [] m in
  ((if rep then fst r else mutual (fst r), snd r), m').

Record req := mkReq { q_rep : bool; q_pairs : path -> list (nat * nat); q_t1 : value; q_t2 : value }.

(* every run passes the same dictionary *)
Fixpoint session (m : memo) (qs : list req) : list res * memo :=
  match qs with
  | [] => ([], m)
  | q :: r =>
      let '(x, m1) := run_m_from (q_rep q) (q_pairs q) m (q_t1 q) (q_t2 q) in
      let '(xs, m2) := session m1 r in
      (x :: xs, m2)
  end.

(* the same run alone, without a table passed in *)
Definition alone (q : req) : res := fst (run_m_from (q_rep q) (q_pairs q) [] (q_t1 q) (q_t2 q)).
End Session.

(** The ignore-order diff with DeepDiff's run-wide DeepHash table ([self.hashes], keyed
    by Python ==) threaded through the traversal in the implementation's order.

    [diff_io] (DiffIOModel.v) hashes list items with the memo-free [hash_pure].  The
    implementation hashes them with DeepHash(item, hashes=self.hashes): ONE table for the
    whole run, looked up by ==, so that 1 and 1.0 (or (1,'a') and (True,'a')) get
    whichever hash was computed first (finding C05-K2 / K2 of C06).  Where the table is
    touched (deepdiff/diff.py):
      _diff_iterable_with_deephash   _create_hashtable(level,'t1') then (level,'t2'):
                                     every item in order, then the container itself
                                     ([hash_items_memo], [hash_memo]: Hash/HashMembers.v);
      _diff_set                      [diff_set_memo];
      the nested DeepDiffs that compute pairing distances share the table, but they only
      re-hash descendants of the items of the current level, all of which are in the table
      already: they add nothing a lookup can find (so the pairing stays an oracle).
    The table then flows into the recursive diffs of the paired items in the order of
    hashes_added, and through the common keys of a dict in the order of T2's keys.
    The level logic is that of DiffIOModel.v with the two lists of item hashes as
    parameters ([*_g]).  Definitions only. *)
From Coq Require Import List ZArith NArith Bool Arith.
Import ListNotations.
From DD Require Import Base.PyStr Base.Value Diff.Tree Diff.DiffModel Hash.HashModel Hash.HashMembers
  DiffIO.DiffIOModel.

Section Memo.
Variable H : pystr -> pystr.
Variable udiff : pystr -> pystr -> pystr.
Variable skip : path -> bool.
Variable excl : path -> bool.
Variable c : cfg.
Variable rep : bool.
Variable pairs : path -> list (nat * nat).

Notation o := (io_opts c rep).

(* a computation on the shared table *)
Definition MM := memo -> res * memo.
Definition mmret (r : res) : MM := fun m => (r, m).
Definition mmapp (a b : MM) : MM :=
  fun m => let '(r1, m1) := a m in let '(r2, m2) := b m1 in (app2 r1 r2, m2).
Definition rec_m := (value -> path -> path -> MM)%type.
Definition nth_rec_m (recs : list rec_m) (i : nat) : rec_m := nth i recs (fun _ _ _ => mmret ([], [])).

Section Level.
Variable recs : list rec_m.
Variable xs ys : list value.
Variable hh1 hh2 : list pystr.            (* the item hashes the table served *)
Variable p1 p2 : path.

Definition t1_hashes_g : list pystr := dedup hh1.
Definition t2_hashes_g : list pystr := dedup hh2.
Definition hashes_added_g : list pystr := filter (fun h => negb (mem_h h t1_hashes_g)) t2_hashes_g.
Definition hashes_removed_g : list pystr := filter (fun h => negb (mem_h h t2_hashes_g)) t1_hashes_g.

Definition partner_g (a : pystr) (remaining : list pystr) : option pystr :=
  match find (fun ji => pystr_eqb (nth (fst ji) hh2 []) a) (pairs p1) with
  | Some ji =>
      match nth_error hh1 (snd ji) with
      | Some r => if mem_h r remaining then Some r else None
      | None => None
      end
  | None => None
  end.

Definition added_one_m (a : pystr) (remaining : list pystr) : MM * list pystr :=
  let j := first_of (indexes_of a hh2 0) in
  match partner_g a remaining with
  | Some r =>
      let i := first_of (indexes_of r hh1 0) in
      (match item2 ys j with
       | Some y => nth_rec_m recs i y (snoc p1 (PIdx i)) (snoc p2 (PIdx j))
       | None => mmret ([], [])
       end, remove_h r remaining)
  | None =>
      (mmret (rpt skip KIterAdd (snoc p1 (PIdx j)) (snoc p2 (PIdx j)) None (item2 ys j) None, []), remaining)
  end.
Definition removed_one_g (r : pystr) : res :=
  let i := first_of (indexes_of r hh1 0) in
  (rpt skip KIterRem (snoc p1 (PIdx i)) (snoc p2 (PIdx i)) (item1 xs i) None None, []).

Definition added_one_rep_m (a : pystr) (remaining : list pystr) : MM * list pystr :=
  let js := indexes_of a hh2 0 in
  let j0 := first_of js in
  match partner_g a remaining with
  | Some r =>
      let is_ := indexes_of r hh1 0 in
      let i0 := first_of is_ in
      (match item2 ys j0 with
       | Some y =>
           fold_right (fun i acc =>
             mmapp (nth_rec_m recs i0 y (snoc p1 (PIdx i))
                      (snoc p2 (PIdx (if Nat.eqb (length js) 1 then j0 else i)))) acc) (mmret ([], [])) is_
       | None => mmret ([], [])
       end, remove_h r remaining)
  | None =>
      (mmret (flat_map (fun j => rpt skip KIterAdd (snoc p1 (PIdx j)) (snoc p2 (PIdx j)) None (item2 ys j0) None) js, []),
       remaining)
  end.
Definition removed_one_rep_g (r : pystr) : res :=
  let is_ := indexes_of r hh1 0 in
  (flat_map (fun i => rpt skip KIterRem (snoc p1 (PIdx i)) (snoc p2 (PIdx i)) (item1 xs (first_of is_)) None None) is_, []).
Definition repetition_one_g (h : pystr) : res :=
  let is_ := indexes_of h hh1 0 in
  let js := indexes_of h hh2 0 in
  if Nat.eqb (length is_) (length js) then ([], [])
  else
    let i0 := first_of is_ in
    let p := snoc p1 (PIdx i0) in
    if skip p then ([], [])
    else ([mkEntry KRepetition p (snoc p2 (PIdx i0)) (item1 xs i0) (item2 ys (first_of js)) None],
          [mkRep p is_ js]).

Fixpoint added_loop_m (one : pystr -> list pystr -> MM * list pystr)
         (adds : list pystr) (remaining : list pystr) : MM * list pystr :=
  match adds with
  | [] => (mmret ([], []), remaining)
  | a :: adds' =>
      let '(m1, rem1) := one a remaining in
      let '(m2, rem2) := added_loop_m one adds' rem1 in
      (mmapp m1 m2, rem2)
  end.

Definition iter_m : MM :=
  if rep then
    let '(ma, remaining) := added_loop_m added_one_rep_m hashes_added_g hashes_removed_g in
    let rr := concat_res (map removed_one_rep_g remaining) in
    let ri := concat_res (map repetition_one_g (filter (fun h => mem_h h t1_hashes_g) t2_hashes_g)) in
    mmapp ma (mmret (app2 rr ri))
  else
    let '(ma, remaining) := added_loop_m added_one_m hashes_added_g hashes_removed_g in
    mmapp ma (mmret (concat_res (map removed_one_g remaining))).
End Level.

(* _diff_iterable_with_deephash: the two _create_hashtable calls on the shared table, then the level *)
Definition level_m (mk : list value -> value) (recs : list rec_m) (xs ys : list value) (p1 p2 : path) : MM :=
  fun m =>
    let '(hs1, ma) := hash_items_memo H o m xs in
    let mb := snd (hash_memo H o (mk xs) ma) in
    let '(hs2, mc) := hash_items_memo H o mb ys in
    let md := snd (hash_memo H o (mk ys) mc) in
    iter_m recs xs ys hs1 hs2 p1 p2 md.

(* _diff_set on the shared table: t1's members in iteration order, the set itself, then t2's;
   what is reported is [diff_set] on the hashes the table served *)
Definition tbl_hatom (t : list (atom * pystr)) (a : atom) : pystr :=
  match find (fun e => atom_eqb (fst e) a) t with Some e => snd e | None => [] end.
Definition set_level_m (t1 t2 : value) (xs ys : list atom) (p1 p2 : path) : MM :=
  fun m =>
    let '(hs1, ma) := hash_items_memo H o m (map VAtom xs) in
    let mb := snd (hash_memo H o t1 ma) in
    let '(hs2, mc) := hash_items_memo H o mb (map VAtom ys) in
    let md := snd (hash_memo H o t2 mc) in
    ((diff_set (tbl_hatom (combine xs hs1 ++ combine ys hs2)) skip xs ys p1 p2, []), md).

Definition find_rec_m (k' : atom) (recs : list (atom * rec_m)) : option rec_m :=
  match find (fun kr => keep_key c (fst kr) && py_eq (fst kr) k') recs with
  | Some kr => Some (snd kr)
  | None => None
  end.
Fixpoint common_m (recs : list (atom * rec_m)) (k1 : list atom) (kvs2 : list (atom * value))
         (p1 p2 : path) (keys2 : list atom) : MM :=
  match keys2 with
  | [] => mmret ([], [])
  | k' :: r =>
      let rest := common_m recs k1 kvs2 p1 p2 r in
      if mem_atom k' k1 then
        match find_rec_m k' recs, assoc k' kvs2 with
        | Some f, Some v2 => mmapp (f v2 (snoc p1 (PKey k')) (snoc p2 (PKey k'))) rest
        | _, _ => rest
        end
      else rest
  end.

Fixpoint diff_io_m (t1 t2 : value) (p1 p2 : path) {struct t1} : MM :=
  if skip p1 then mmret ([], []) else
  if negb (ty_eqb (type_of t1) (type_of t2))
  then mmret (rpt skip KType p1 p2 (Some t1) (Some t2) None, [])
  else
  match t1, t2 with
  | VAtom a, VAtom b => mmret (diff_atom udiff skip a b p1 p2, [])
  | VDict kvs1, VDict kvs2 =>
      let k1 := keys_of c kvs1 in
      let k2 := keys_of c kvs2 in
      if dict_shortcut excl c k1 k2 p1 then mmret (rpt skip KValue p1 p2 (Some t1) (Some t2) None, [])
      else
        let added := flat_map (fun k => if mem_atom k k1 then []
                       else rpt skip KDictAdd (snoc p1 (PKey k)) (snoc p2 (PKey k)) None (assoc k kvs2) None) k2 in
        let removed := flat_map (fun k => if mem_atom k k2 then []
                       else rpt skip KDictRem (snoc p1 (PKey k)) (snoc p2 (PKey k)) (assoc k kvs1) None None) k1 in
        mmapp (mmret ((added ++ removed)%list, []))
              (common_m ((fix go (l : list (atom * value)) : list (atom * rec_m) :=
                            match l with
                            | [] => []
                            | (k, v1) :: r => (k, diff_io_m v1) :: go r
                            end) kvs1) k1 kvs2 p1 p2 k2)
  | VList xs, VList ys =>
      level_m VList ((fix go (l : list value) : list rec_m :=
                        match l with [] => [] | x :: r => diff_io_m x :: go r end) xs) xs ys p1 p2
  | VTuple xs, VTuple ys =>
      level_m VTuple ((fix go (l : list value) : list rec_m :=
                         match l with [] => [] | x :: r => diff_io_m x :: go r end) xs) xs ys p1 p2
  | VSet xs, VSet ys | VFrozen xs, VFrozen ys => set_level_m t1 t2 xs ys p1 p2
  | _, _ => mmret ([], [])
  end.

(* DeepDiff(t1, t2, ignore_order=True, view='tree') starts with an empty table *)
Definition run_diff_io_m (t1 t2 : value) : res * memo :=
  let '(r, m) := diff_io_m t1 t2 [] [] [] in
  ((if rep then fst r else mutual (fst r), snd r), m).
End Memo.

(** [diff_io] depends on the pairing oracle only pointwise; composition of the
    memo theorem (C17) with the diff model. *)
From Coq Require Import List ZArith NArith Bool Arith Lia.
Import ListNotations.
From DD Require Import Base.PyStr Base.Value Diff.Tree Diff.DiffModel Hash.HashModel Hash.HashProofsC06
  Lfu.LfuModel DiffIO.DiffIOModel DiffIO.MemoModel DiffIO.MemoProofs.

Section Ext.
Variable H : pystr -> pystr.
Variable udiff : pystr -> pystr -> pystr.
Variable skip excl : path -> bool.
Variable c : cfg.
Variable rep : bool.
Variables pairs pairs' : path -> list (nat * nat).
Hypothesis pairs_eq : forall p, pairs p = pairs' p.

Notation dio := (diff_io H udiff skip excl c rep pairs).
Notation dio' := (diff_io H udiff skip excl c rep pairs').

Lemma added_loop_ext one one' adds rem :
  (forall a r, one a r = one' a r) -> added_loop one adds rem = added_loop one' adds rem.
Proof.
  intro Ho. revert rem; induction adds as [|a adds IH]; intros rem; cbn [added_loop]; [reflexivity|].
  rewrite Ho. destruct (one' a rem) as [r1 rem1]. rewrite IH. reflexivity.
Qed.

Lemma fold_right_ext {A B} (f g : A -> B -> B) (b : B) l : (forall x y, f x y = g x y) -> fold_right f b l = fold_right g b l.
Proof. intro He. induction l as [|x r IH]; cbn; [reflexivity|]. rewrite IH, He. reflexivity. Qed.

Lemma partner_ext xs ys p1 a rem :
  partner H c rep pairs xs ys p1 a rem = partner H c rep pairs' xs ys p1 a rem.
Proof. unfold partner. rewrite pairs_eq. reflexivity. Qed.

Lemma iter_ext recs recs' xs ys p1 p2 :
  (forall i y q1 q2, nth_rec recs i y q1 q2 = nth_rec recs' i y q1 q2) ->
  iter_deephash H skip c rep pairs recs xs ys p1 p2 = iter_deephash H skip c rep pairs' recs' xs ys p1 p2.
Proof.
  intro Hr. unfold iter_deephash, iter_rep, iter_norep.
  rewrite (added_loop_ext (added_one_rep H skip c rep pairs recs xs ys p1 p2) (added_one_rep H skip c rep pairs' recs' xs ys p1 p2)).
  - rewrite (added_loop_ext (added_one H skip c rep pairs recs xs ys p1 p2) (added_one H skip c rep pairs' recs' xs ys p1 p2)).
    + reflexivity.
    + intros a r. unfold added_one. rewrite partner_ext.
      destruct (partner H c rep pairs' xs ys p1 a r); [|reflexivity].
      destruct (item2 ys _); [|reflexivity]. rewrite Hr. reflexivity.
  - intros a r. unfold added_one_rep. rewrite partner_ext.
    destruct (partner H c rep pairs' xs ys p1 a r); [|reflexivity].
    destruct (item2 ys _); [|reflexivity]. f_equal.
    apply fold_right_ext. intros x y. rewrite Hr. reflexivity.
Qed.

Lemma nth_rec_map_ext (f g : value -> rec_fn) xs :
  (forall x, In x xs -> forall y q1 q2, f x y q1 q2 = g x y q1 q2) ->
  forall i y q1 q2, nth_rec (map f xs) i y q1 q2 = nth_rec (map g xs) i y q1 q2.
Proof.
  unfold nth_rec. induction xs as [|x r IH]; intros Hf [|i] y q1 q2; cbn [map nth]; try reflexivity.
  - apply Hf. left; reflexivity.
  - apply IH. intros; apply Hf; right; auto.
Qed.

Lemma recs_map_gen (d : value -> rec_fn) xs :
  (fix go (l : list value) : list rec_fn := match l with [] => [] | x :: r => d x :: go r end) xs = map d xs.
Proof. induction xs as [|x r IH]; cbn [map]; [reflexivity|]. rewrite IH. reflexivity. Qed.

Theorem diff_io_ext : forall t1 t2 p1 p2, dio t1 t2 p1 p2 = dio' t1 t2 p1 p2.
Proof.
  intros t1. induction t1 as [a|xs IH|xs IH|kvs IH|xs|xs] using HashProofsC06.value_ind'; intros t2 p1 p2.
  - reflexivity.
  - cbn [diff_io]. destruct (skip p1); [reflexivity|].
    destruct (negb (ty_eqb (type_of (VList xs)) (type_of t2))); [reflexivity|].
    destruct t2; try reflexivity. rewrite !recs_map_gen. apply iter_ext.
    apply nth_rec_map_ext. intros x Hx y q1 q2. rewrite Forall_forall in IH. apply IH. exact Hx.
  - cbn [diff_io]. destruct (skip p1); [reflexivity|].
    destruct (negb (ty_eqb (type_of (VTuple xs)) (type_of t2))); [reflexivity|].
    destruct t2; try reflexivity. rewrite !recs_map_gen. apply iter_ext.
    apply nth_rec_map_ext. intros x Hx y q1 q2. rewrite Forall_forall in IH. apply IH. exact Hx.
  - cbn [diff_io]. destruct (skip p1); [reflexivity|].
    destruct (negb (ty_eqb (type_of (VDict kvs)) (type_of t2))); [reflexivity|].
    destruct t2; try reflexivity.
    destruct (dict_shortcut excl c (keys_of c kvs) (keys_of c kvs0) p1); [reflexivity|].
    match goal with |- (_ ++ _ ++ fst ?A, snd ?A) = (_ ++ _ ++ fst ?B, snd ?B) => assert (E : A = B); [|rewrite E; reflexivity] end.
    induction kvs as [|[k v1] r IHr]; [reflexivity|].
    inversion IH as [|x l Hv Hrest]; subst.
    rewrite (IHr Hrest). destruct (keep_key c k); [|reflexivity].
    destruct (find (py_eq k) (keys_of c kvs0)); [|reflexivity].
    destruct (assoc a kvs0); [|reflexivity]. cbn [snd] in Hv. rewrite Hv. reflexivity.
  - reflexivity.
  - reflexivity.
Qed.

Corollary run_diff_io_ext t1 t2 :
  run_diff_io H udiff skip excl c rep pairs t1 t2 = run_diff_io H udiff skip excl c rep pairs' t1 t2.
Proof. unfold run_diff_io. rewrite diff_io_ext. reflexivity. Qed.
End Ext.

(* C17 on the result of the diff: the pairing of each level is the value of a program of memoised
   calls [pp p] (decoded by [dec]); evaluating those programs with the LFU cache - any capacity,
   any schedule, per level - gives the result of the cache-less run *)
Theorem result_cache_independent :
  forall (H : pystr -> pystr) udiff skip excl c rep (V : Type) (spec : key -> V)
         (pp : path -> prog V) (dec : V -> list (nat * nat)),
  (forall p, consistent spec (pp p)) ->
  forall (cap : path -> nat) (sched : path -> nat -> bool) t1 t2,
  run_diff_io H udiff skip excl c rep
    (fun p => dec (fst (fst (run_cached (sched p) (pp p) (mkM (empty (cap p)) 0))))) t1 t2 =
  run_diff_io H udiff skip excl c rep (fun p => dec (run_pure (pp p))) t1 t2.
Proof.
  intros. apply run_diff_io_ext. intro p. cbn beta. f_equal. eapply cache_transparent; eauto.
Qed.

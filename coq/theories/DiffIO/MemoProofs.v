(** C17: memoisation through the LFU cache of C18 is transparent when the value
    computed for a key is a function of the key. *)
From Coq Require Import List ZArith Bool Arith Lia.
Import ListNotations.
From DD Require Import Lfu.LfuModel DiffIO.MemoModel.

Section Stored.
Variable V : Type.
Notation lfu := (lfu V).
Notation bucket := (bucket V).

Definition all_items (bs : list bucket) : list (key * V) := flat_map (@items V) bs.

Lemma lookup_In k (l : list (key * V)) v : lookup k l = Some v -> In (k, v) l.
Proof.
  induction l as [|[k' v'] r IH]; cbn [lookup]; [discriminate|].
  destruct (Z.eqb k' k) eqn:E.
  - intros X; inversion X; subst. apply Z.eqb_eq in E. subst. left; reflexivity.
  - intros X. right. auto.
Qed.

Lemma find_key_In k bs f v : find_key k bs = Some (f, v) -> In (k, v) (all_items bs).
Proof.
  induction bs as [|b r IH]; cbn [find_key all_items flat_map]; [discriminate|].
  destruct (lookup k (items b)) as [v'|] eqn:E.
  - intros X; inversion X; subst. apply in_or_app. left. apply lookup_In. exact E.
  - intros X. apply in_or_app. right. apply IH. exact X.
Qed.

Lemma remove_key_incl k (l : list (key * V)) x : In x (remove_key k l) -> In x l.
Proof. unfold remove_key. rewrite filter_In. tauto. Qed.

Lemma move_forward_incl k bs x : In x (all_items (move_forward k bs)) -> In x (all_items bs).
Proof.
  induction bs as [|b r IH]; cbn [move_forward]; [auto|].
  destruct (lookup k (items b)) as [v|] eqn:E.
  - assert (Hkv : In (k, v) (items b)) by (apply lookup_In; exact E).
    assert (Hr' : forall r', (forall y, In y (all_items r') -> y = (k, v) \/ In y (all_items r)) ->
                  In x (all_items (match remove_key k (items b) with [] => r' | _ => mkB (freq b) (remove_key k (items b)) :: r' end)) ->
                  In x (all_items (b :: r))).
    { intros r' Hr'. cbn [all_items flat_map]. intro Hin.
      assert (Hc : In x (remove_key k (items b)) \/ In x (all_items r')).
      { destruct (remove_key k (items b)) as [|y ys] eqn:Er; [right; exact Hin|].
        cbn [all_items flat_map items] in Hin. apply in_app_or in Hin. exact Hin. }
      apply in_or_app. destruct Hc as [Hc|Hc].
      - left. eapply remove_key_incl; eauto.
      - destruct (Hr' x Hc) as [->|Hy]; [left; exact Hkv|right; exact Hy]. }
    apply Hr'. intros y Hy.
    destruct r as [|n r2].
    + cbn [all_items flat_map items] in Hy. rewrite app_nil_r in Hy. destruct Hy as [<-|[]]. left; reflexivity.
    + destruct (Nat.eqb (freq n) (S (freq b))).
      * cbn [all_items flat_map items] in Hy |- *. apply in_app_or in Hy as [Hy|Hy].
        -- apply in_app_or in Hy as [Hy|[<-|[]]]; [right; apply in_or_app; left; exact Hy|left; reflexivity].
        -- right. apply in_or_app. right. exact Hy.
      * cbn [all_items flat_map items] in Hy. destruct Hy as [<-|Hy]; [left; reflexivity|]. right. exact Hy.
  - cbn [all_items flat_map]. intro Hin. apply in_app_or in Hin. apply in_or_app.
    destruct Hin as [Hin|Hin]; [left; exact Hin|right; apply IH; exact Hin].
Qed.

Lemma replace_val_incl k v (l : list (key * V)) x : In x (replace_val k v l) -> x = (k, v) \/ In x l.
Proof.
  induction l as [|[k' v'] r IH]; cbn [replace_val]; [auto|].
  destruct (Z.eqb k' k) eqn:E.
  - intros [<-|Hin]; [left; apply Z.eqb_eq in E; subst; reflexivity|right; right; exact Hin].
  - intros [<-|Hin]; [right; left; reflexivity|]. destruct (IH Hin); [left; assumption|right; right; assumption].
Qed.

Lemma set_present_incl k v bs x : In x (all_items (set_present k v bs)) -> x = (k, v) \/ In x (all_items bs).
Proof.
  induction bs as [|b r IH]; cbn [set_present]; [auto|].
  destruct (has_key k (items b)).
  - cbn [all_items flat_map items]. intro Hin. apply in_app_or in Hin as [Hin|Hin].
    + apply replace_val_incl in Hin as [->|Hin]; [left; reflexivity|right; apply in_or_app; left; exact Hin].
    + right. apply in_or_app. right. exact Hin.
  - cbn [all_items flat_map]. intro Hin. apply in_app_or in Hin as [Hin|Hin].
    + right. apply in_or_app. left. exact Hin.
    + destruct (IH Hin) as [->|Hy]; [left; reflexivity|right; apply in_or_app; right; exact Hy].
Qed.

Lemma dump_cache_incl bs x : In x (all_items (dump_cache bs)) -> In x (all_items bs).
Proof.
  destruct bs as [|b r]; cbn [dump_cache]; [auto|].
  destruct (items b) as [|y ys] eqn:E; cbn [all_items flat_map]; rewrite ?E.
  - intro Hin. exact Hin.
  - destruct ys as [|z zs].
    + intro Hin. right. exact Hin.
    + cbn [all_items flat_map items]. intro Hin. apply in_app_or in Hin as [Hin|Hin].
      * right. apply in_or_app. left. exact Hin.
      * right. apply in_or_app. right. exact Hin.
Qed.

Lemma create_node_incl k v bs x : In x (all_items (create_node k v bs)) -> x = (k, v) \/ In x (all_items bs).
Proof.
  destruct bs as [|b r]; cbn [create_node].
  - cbn. intros [<-|[]]. left; reflexivity.
  - destruct (Nat.eqb (freq b) 0).
    + cbn [all_items flat_map items]. intro Hin. apply in_app_or in Hin as [Hin|Hin].
      * apply in_app_or in Hin as [Hin|[<-|[]]]; [right; apply in_or_app; left; exact Hin|left; reflexivity].
      * right. apply in_or_app. right. exact Hin.
    + cbn [all_items flat_map items]. intros [<-|Hin]; [left; reflexivity|right; exact Hin].
Qed.

Lemma stored_get_hit (c c' : lfu) k v : get c k = (c', Some v) -> In (k, v) (stored c).
Proof.
  unfold get. destruct (find_key k (buckets c)) as [[f v']|] eqn:E; [|discriminate].
  intro X; inversion X; subst. eapply find_key_In; eauto.
Qed.
Lemma stored_get_incl (c : lfu) k x : In x (stored (fst (get c k))) -> In x (stored c).
Proof.
  unfold get. destruct (find_key k (buckets c)) as [[f v']|]; cbn [fst]; [|auto].
  unfold stored. cbn [buckets]. apply move_forward_incl.
Qed.
Lemma stored_set_incl (c : lfu) k v x : In x (stored (set c k v)) -> x = (k, v) \/ In x (stored c).
Proof.
  unfold set, stored. destruct (contains c k); cbn [buckets].
  - apply set_present_incl.
  - intro Hin. apply create_node_incl in Hin as [->|Hin]; [left; reflexivity|right].
    destruct (Nat.leb (cap c) (size c)); [apply dump_cache_incl; exact Hin|exact Hin].
Qed.
Lemma stored_empty n x : ~ In x (stored (@empty V n)).
Proof. cbn. auto. Qed.

(* ------------------------------------------------------------------ *)
Variable spec : key -> V.

Lemma cache_ok_get (c : lfu) k : cache_ok spec c -> cache_ok spec (fst (get c k)).
Proof. intros Hc k' v' Hin. apply Hc. eapply stored_get_incl; eauto. Qed.
Lemma cache_ok_set (c : lfu) k : cache_ok spec c -> cache_ok spec (set c k (spec k)).
Proof. intros Hc k' v' Hin. apply stored_set_incl in Hin as [E|Hin]; [inversion E; subst; reflexivity|apply Hc; exact Hin]. Qed.

Theorem memo_transparent : forall (sched : nat -> bool) (p : prog V) (s : mstate V),
  consistent spec p -> cache_ok spec (mcache s) ->
  fst (fst (run_cached sched p s)) = run_pure p /\ cache_ok spec (mcache (snd (fst (run_cached sched p s)))).
Proof.
  intros sched p. induction p as [v|k body IHb cont IHc]; intros s Hcons Hok.
  - cbn. auto.
  - cbn [consistent] in Hcons. destruct Hcons as [Hb [Hv Hk]].
    cbn [run_cached run_pure].
    destruct (sched (mclock s)).
    + destruct (get (mcache s) k) as [c1 [v|]] eqn:Eg.
      * (* hit *)
        assert (v = spec k) by (apply Hok; eapply stored_get_hit; eauto). subst v.
        assert (Hok1 : cache_ok spec c1).
        { replace c1 with (fst (get (mcache s) k)) by (rewrite Eg; reflexivity). apply cache_ok_get. exact Hok. }
        specialize (IHc (spec k) (mkM c1 (S (mclock s))) Hk Hok1).
        destruct (run_cached sched (cont (spec k)) (mkM c1 (S (mclock s)))) as [[r s'] lg]. cbn [fst snd] in *.
        rewrite Hv. exact IHc.
      * (* miss *)
        specialize (IHb (mkM (mcache s) (S (mclock s))) Hb Hok).
        destruct (run_cached sched body (mkM (mcache s) (S (mclock s)))) as [[v s1] lg1]. cbn [fst snd] in IHb.
        destruct IHb as [Ev Hok1]. rewrite Hv in Ev. subst v.
        assert (Hok2 : cache_ok spec (if sched (mclock s1) then set (mcache s1) k (spec k) else mcache s1)).
        { destruct (sched (mclock s1)); [apply cache_ok_set|]; exact Hok1. }
        specialize (IHc (spec k) (mkM (if sched (mclock s1) then set (mcache s1) k (spec k) else mcache s1) (S (mclock s1))) Hk Hok2).
        destruct (run_cached sched (cont (spec k)) _) as [[r s'] lg2]. cbn [fst snd] in *.
        rewrite Hv. exact IHc.
    + specialize (IHb (mkM (mcache s) (S (mclock s))) Hb Hok).
      destruct (run_cached sched body (mkM (mcache s) (S (mclock s)))) as [[v s1] lg1]. cbn [fst snd] in IHb.
      destruct IHb as [Ev Hok1]. rewrite Hv in Ev. subst v.
      specialize (IHc (spec k) s1 Hk Hok1).
      destruct (run_cached sched (cont (spec k)) s1) as [[r s'] lg2]. cbn [fst snd] in *.
      rewrite Hv. exact IHc.
Qed.
End Stored.

(* any capacity, any schedule, starting from an empty cache: the cache-less result *)
Theorem cache_transparent : forall (V : Type) (spec : key -> V) (p : prog V),
  consistent spec p ->
  forall (cap : nat) (sched : nat -> bool),
  fst (fst (run_cached sched p (mkM (empty cap) 0))) = run_pure p.
Proof.
  intros V spec p Hc cap sched. apply (memo_transparent V spec sched p (mkM (empty cap) 0) Hc).
  intros k v Hin. exfalso. eapply stored_empty; eauto.
Qed.

Corollary cache_settings_agree : forall (V : Type) (spec : key -> V) (p : prog V),
  consistent spec p ->
  forall cap cap' sched sched',
  fst (fst (run_cached sched p (mkM (empty cap) 0))) = fst (fst (run_cached sched' p (mkM (empty cap') 0))).
Proof. intros. rewrite !(cache_transparent V spec p); auto. Qed.

(* the cache never enabled (cache_size = 0, DummyLFU) is the cache-less evaluation, no hypothesis needed *)
Theorem never_enabled_is_pure : forall (V : Type) (p : prog V) (s : mstate V),
  fst (fst (run_cached (fun _ => false) p s)) = run_pure p /\ mcache (snd (fst (run_cached (fun _ => false) p s))) = mcache s.
Proof.
  intros V p. induction p as [v|k body IHb cont IHc]; intros s; cbn [run_cached run_pure]; [auto|].
  specialize (IHb (mkM (mcache s) (S (mclock s)))).
  destruct (run_cached (fun _ => false) body (mkM (mcache s) (S (mclock s)))) as [[v s1] lg1]. cbn [fst snd mcache] in IHb.
  destruct IHb as [-> Hc1].
  specialize (IHc (run_pure body) s1).
  destruct (run_cached (fun _ => false) (cont (run_pure body)) s1) as [[r s'] lg2]. cbn [fst snd] in *.
  destruct IHc as [-> Hc2]. split; [reflexivity|congruence].
Qed.

(* without "the value is a function of the key" the statement is false: the same key with two
   values (what the symmetric distance key does to an asymmetric distance) *)
Definition two_faced : prog Z :=
  Call 1%Z (Ret 1%Z) (fun a => Call 1%Z (Ret 2%Z) (fun b => Ret (10 * a + b)%Z)).
Lemma two_faced_refutes :
  run_pure two_faced = 12%Z /\
  fst (fst (run_cached (fun _ => true) two_faced (mkM (empty 5) 0))) = 11%Z /\
  forall spec, ~ consistent spec two_faced.
Proof.
  split; [reflexivity|]. split; [vm_compute; reflexivity|].
  intros spec [_ [H1 [_ [H2 _]]]]. cbn in H1, H2. rewrite <- H1 in H2. discriminate.
Qed.

(* the hypothesis is satisfiable by a run with nested calls, repeated keys and a value-dependent continuation *)
Definition ex_prog : prog Z :=
  Call 1%Z (Call 2%Z (Ret 7%Z) (fun d => Ret (d + 1)%Z))
    (fun a => Call 2%Z (Ret 7%Z) (fun d => Call 1%Z (Call 2%Z (Ret 7%Z) (fun d' => Ret (d' + 1)%Z)) (fun a' => Ret (a + a' + d)%Z))).
Definition ex_spec (k : key) : Z := if Z.eqb k 1 then 8%Z else 7%Z.
Example ex_consistent : consistent ex_spec ex_prog /\ run_pure ex_prog = 23%Z /\
  snd (run_cached (fun _ => true) ex_prog (mkM (empty 1) 0)) <> [] .
Proof. split; [cbn; tauto|]. split; [reflexivity|]. vm_compute. discriminate. Qed.

(** Model of DeepDiff with ignore_order=True over the shared universe: the
    dispatcher [_diff] as in the ordered model (Diff/DiffModel.v), [_diff_dict]
    and [_diff_set] unchanged, but lists AND tuples go through
    [_diff_iterable_with_deephash] (diff.py:1292-1470):

      _create_hashtable     item hash -> (indexes, first item), first-occurrence order
      hashes_added/removed  SetOrdered differences (first-occurrence order kept)
      get_other_pair        consults the pairing of this level, consuming it
      report_repetition     per-index reporting, param2 only for unrepeated items,
                            repetition_change for common hashes of different multiplicity
      default               one report per hash at indexes[0]

    Item hashes are [hash_pure H o] with o = DeepDiff's deephash parameters
    (ignore_repetition = not report_repetition).  The PAIRING is an oracle

      pairs : path -> list (nat * nat)

    [pairs p] lists (j, i): "the added hash of t2's item j is paired with the
    removed hash of t1's item i" at the level whose t1-side path is p --
    whatever [_get_most_in_common_pairs_in_iterables] returned there, under any
    cutoff_distance_for_pairs, cutoff_intersection_for_pairs, max_passes budget,
    cache state.  Those knobs do not occur in the model in any other way.
    A pair that the code could not have used (partner not among the still
    unpaired removed hashes) is treated as absent, so the model is total in
    [pairs]; the harness checks the recorded pairings for validity separately.

    Other library behaviour enters as in DiffModel: udiff, skip, excl.
    Definitions only. *)
From Coq Require Import List ZArith NArith Bool Arith.
Import ListNotations.
From DD Require Import Base.PyStr Base.Value Diff.Tree Diff.DiffModel Hash.HashModel.

(* additional['repetition'] of a repetition_change level *)
Record repinfo := mkRep { rpath : path; rold : list nat; rnew : list nat }.
Definition res := (list entry * list repinfo)%type.
Definition rec_fn := (value -> path -> path -> res)%type.

Definition mem_h (h : pystr) (l : list pystr) : bool := existsb (pystr_eqb h) l.
Definition remove_h (h : pystr) (l : list pystr) : list pystr :=
  filter (fun x => negb (pystr_eqb h x)) l.
(* IndexedHash.indexes of hash h in a list of item hashes *)
Fixpoint indexes_of (h : pystr) (hs : list pystr) (i : nat) : list nat :=
  match hs with
  | [] => []
  | x :: r => (if pystr_eqb h x then [i] else []) ++ indexes_of h r (S i)
  end.

Section DiffIO.
Variable H : pystr -> pystr.
Variable udiff : pystr -> pystr -> pystr.
Variable skip : path -> bool.
Variable excl : path -> bool.
Variable c : cfg.
Variable rep : bool.                          (* report_repetition *)
Variable pairs : path -> list (nat * nat).

(* _get_deephash_params *)
Definition io_opts : hopts :=
  mk_hopts (negb rep) true (DiffModel.ignore_private c) false false false None.
Definition hv (v : value) : pystr := hash_pure H io_opts v.
Definition hatom_io (a : atom) : pystr := hash_atom H io_opts a.

Definition rpt := report skip.

(* the level of one pair / one unpaired hash; [x0], [y0] are the first items
   carrying the hash (IndexedHash.item) *)
Definition nth_rec (recs : list rec_fn) (i : nat) : rec_fn :=
  nth i recs (fun _ _ _ => ([], [])).

Definition first_of (l : list nat) : nat := hd 0 l.

Section Level.
Variable recs : list rec_fn.      (* [_diff] on each item of t1 *)
Variable xs ys : list value.
Variable p1 p2 : path.

Definition h1 : list pystr := map hv xs.
Definition h2 : list pystr := map hv ys.
Definition t1_hashes : list pystr := dedup h1.
Definition t2_hashes : list pystr := dedup h2.
Definition hashes_added : list pystr := filter (fun h => negb (mem_h h t1_hashes)) t2_hashes.
Definition hashes_removed : list pystr := filter (fun h => negb (mem_h h t2_hashes)) t1_hashes.

(* pairs.pop(hash_value): the removed hash paired with added hash a, if it is
   still unused *)
Definition partner (a : pystr) (remaining : list pystr) : option pystr :=
  match find (fun ji => pystr_eqb (nth (fst ji) h2 []) a) (pairs p1) with
  | Some ji =>
      match nth_error h1 (snd ji) with
      | Some r => if mem_h r remaining then Some r else None
      | None => None
      end
  | None => None
  end.

Definition item1 (i : nat) : option value := nth_error xs i.
Definition item2 (j : nat) : option value := nth_error ys j.

(* ---- report_repetition = False ---- *)
Definition added_one (a : pystr) (remaining : list pystr) : res * list pystr :=
  let j := first_of (indexes_of a h2 0) in
  match partner a remaining with
  | Some r =>
      let i := first_of (indexes_of r h1 0) in
      (match item2 j with
       | Some y => nth_rec recs i y (snoc p1 (PIdx i)) (snoc p2 (PIdx j))
       | None => ([], [])
       end, remove_h r remaining)
  | None =>
      ((rpt KIterAdd (snoc p1 (PIdx j)) (snoc p2 (PIdx j)) None (item2 j) None, []), remaining)
  end.
Definition removed_one (r : pystr) : res :=
  let i := first_of (indexes_of r h1 0) in
  (rpt KIterRem (snoc p1 (PIdx i)) (snoc p2 (PIdx i)) (item1 i) None None, []).

(* ---- report_repetition = True ---- *)
Definition added_one_rep (a : pystr) (remaining : list pystr) : res * list pystr :=
  let js := indexes_of a h2 0 in
  let j0 := first_of js in
  match partner a remaining with
  | Some r =>
      let is_ := indexes_of r h1 0 in
      let i0 := first_of is_ in
      (match item2 j0 with
       | Some y =>
           fold_right (fun i acc =>
             app2 (nth_rec recs i0 y (snoc p1 (PIdx i))
                     (snoc p2 (PIdx (if Nat.eqb (length js) 1 then j0 else i)))) acc) ([], []) is_
       | None => ([], [])
       end, remove_h r remaining)
  | None =>
      ((flat_map (fun j => rpt KIterAdd (snoc p1 (PIdx j)) (snoc p2 (PIdx j)) None (item2 j0) None) js, []),
       remaining)
  end.
Definition removed_one_rep (r : pystr) : res :=
  let is_ := indexes_of r h1 0 in
  (flat_map (fun i => rpt KIterRem (snoc p1 (PIdx i)) (snoc p2 (PIdx i)) (item1 (first_of is_)) None None) is_, []).
Definition repetition_one (h : pystr) : res :=
  let is_ := indexes_of h h1 0 in
  let js := indexes_of h h2 0 in
  if Nat.eqb (length is_) (length js) then ([], [])
  else
    let i0 := first_of is_ in
    let p := snoc p1 (PIdx i0) in
    if skip p then ([], [])
    else ([mkEntry KRepetition p (snoc p2 (PIdx i0)) (item1 i0) (item2 (first_of js)) None],
          [mkRep p is_ js]).

(* the loop over hashes_added, threading the still unpaired removed hashes *)
Fixpoint added_loop (one : pystr -> list pystr -> res * list pystr)
         (adds : list pystr) (remaining : list pystr) : res * list pystr :=
  match adds with
  | [] => (([], []), remaining)
  | a :: adds' =>
      let '(r1, rem1) := one a remaining in
      let '(r2, rem2) := added_loop one adds' rem1 in
      (app2 r1 r2, rem2)
  end.
Definition concat_res (l : list res) : res := fold_right app2 ([], []) l.

(* _diff_iterable_with_deephash *)
Definition iter_rep : res :=
  let '(ra, remaining) := added_loop added_one_rep hashes_added hashes_removed in
  let rr := concat_res (map removed_one_rep remaining) in
  let ri := concat_res (map repetition_one (filter (fun h => mem_h h t1_hashes) t2_hashes)) in
  app2 ra (app2 rr ri).
Definition iter_norep : res :=
  let '(ra, remaining) := added_loop added_one hashes_added hashes_removed in
  app2 ra (concat_res (map removed_one remaining)).
Definition iter_deephash : res := if rep then iter_rep else iter_norep.

End Level.

(* ---- _diff with ignore_order=True ---- *)
Fixpoint diff_io (t1 t2 : value) (p1 p2 : path) {struct t1} : res :=
  if skip p1 then ([], []) else
  if negb (ty_eqb (type_of t1) (type_of t2))
  then (rpt KType p1 p2 (Some t1) (Some t2) None, [])
  else
  match t1, t2 with
  | VAtom a, VAtom b => (diff_atom udiff skip a b p1 p2, [])
  | VDict kvs1, VDict kvs2 =>
      let k1 := keys_of c kvs1 in
      let k2 := keys_of c kvs2 in
      if dict_shortcut excl c k1 k2 p1 then (rpt KValue p1 p2 (Some t1) (Some t2) None, [])
      else
        let added := flat_map (fun k => if mem_atom k k1 then []
                       else rpt KDictAdd (snoc p1 (PKey k)) (snoc p2 (PKey k)) None (assoc k kvs2) None) k2 in
        let removed := flat_map (fun k => if mem_atom k k2 then []
                       else rpt KDictRem (snoc p1 (PKey k)) (snoc p2 (PKey k)) (assoc k kvs1) None None) k1 in
        let common :=
          (fix go (l : list (atom * value)) : res :=
             match l with
             | [] => ([], [])
             | (k, v1) :: r =>
                 let rest := go r in
                 if keep_key c k then
                   match find (py_eq k) k2 with
                   | Some k' =>
                       match assoc k' kvs2 with
                       | Some v2 => app2 (diff_io v1 v2 (snoc p1 (PKey k')) (snoc p2 (PKey k'))) rest
                       | None => rest
                       end
                   | None => rest
                   end
                 else rest
             end) kvs1 in
        (added ++ removed ++ fst common, snd common)
  | VList xs, VList ys | VTuple xs, VTuple ys =>
      iter_deephash
        ((fix go (l : list value) : list rec_fn :=
            match l with
            | [] => []
            | x :: r => diff_io x :: go r
            end) xs) xs ys p1 p2
  | VSet xs, VSet ys | VFrozen xs, VFrozen ys => (diff_set hatom_io skip xs ys p1 p2, [])
  | _, _ => ([], [])    (* unreachable: the types are equal *)
  end.

(* DeepDiff(t1, t2, ignore_order=True, report_repetition=rep, view='tree'):
   mutual_add_removes_to_become_value_changes only when not report_repetition *)
Definition run_diff_io (t1 t2 : value) : res :=
  let '(es, rs) := diff_io t1 t2 [] [] in
  (if rep then es else mutual es, rs).

(* ---- validity of the pairing of one level (checked on recorded oracles) ----
   every pair links a first-occurrence index of an added hash to a
   first-occurrence index of a removed hash, and no hash is used twice *)
Fixpoint nodup_h (l : list pystr) : bool :=
  match l with
  | [] => true
  | x :: r => negb (mem_h x r) && nodup_h r
  end.
Definition valid_pairs_at (xs ys : list value) (ps : list (nat * nat)) : bool :=
  let a := map (fun ji => nth (fst ji) (h2 ys) []) ps in
  let r := map (fun ji => nth (snd ji) (h1 xs) []) ps in
  forallb (fun ji => Nat.ltb (fst ji) (length ys) && Nat.ltb (snd ji) (length xs)) ps &&
  forallb (fun h => mem_h h (hashes_added xs ys)) a &&
  forallb (fun h => mem_h h (hashes_removed xs ys)) r &&
  nodup_h a && nodup_h r.

End DiffIO.

(** sx rendering of the memo-threading ignore-order diff (no theorem depends on it). *)
From Coq Require Import List ZArith NArith Bool Arith String.
Import ListNotations.
From DD Require Import Base.Sx Base.PyStr Base.Value Diff.Tree Diff.DiffModel Diff.DiffShow
  Hash.HashModel DiffIO.DiffIOModel DiffIO.DiffIOShow DiffIO.DiffIOMemo.

(* DeepDiff(t1, t2, ignore_order=True, report_repetition=rep, view='tree') with the shared hashes table
   and the recorded pairings *)
Definition run_io_m (ud : list (pystr * pystr * pystr)) (c : cfg) (rep : bool)
           (ps : list (path * list (nat * nat))) (t1 t2 : value) : sx :=
  sx_io (fst (run_diff_io_m hexhash (tbl_udiff ud) no_paths no_paths c rep (tbl_pairs ps) t1 t2)).

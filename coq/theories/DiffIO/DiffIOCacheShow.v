(** Correspondence-side evaluation of the state-passing ignore-order diff on a whole
    recorded run (one model cache for all levels).  No theorem depends on this file. *)
From Coq Require Import List ZArith NArith Bool Arith String.
Import ListNotations.
From DD Require Import Base.Sx Base.PyStr Base.Value Diff.Tree Diff.DiffModel Diff.DiffShow Hash.HashModel
  Lfu.LfuModel DiffIO.DiffIOModel DiffIO.DiffIOShow DiffIO.MemoModel DiffIO.MemoShow DiffIO.DiffIOCache
  DiffIO.MemoPairs DiffIO.MemoPairsShow.
Local Open Scope string_scope.

(* the memoised pairs call of each level (absent = the code makes no call there) *)
Definition tbl_pp (t : list (path * prog Z)) (p : path) : prog Z :=
  match find (fun x => path_eqb (fst x) p) t with
  | Some x => snd x
  | None => Ret 0%Z
  end.
(* index pairs of the dictionary with value number v at level p *)
Definition tbl_dec (t : list (path * Z * list (nat * nat))) (p : path) (v : Z) : list (nat * nat) :=
  match find (fun x => path_eqb (fst (fst x)) p && Z.eqb (snd (fst x)) v) t with
  | Some x => snd x
  | None => []
  end.

Definition sx_log (lg : list (event Z)) : sx :=
  SL (map (fun e => SL [SZ (fst (fst e)); sx_nat (snd (fst e)); SZ (snd e)]) lg).

(* [result; log of every cache event of the run] *)
Definition run_st (ud : list (pystr * pystr * pystr)) (c : cfg) (rep : bool) (cap : nat) (sched : list bool)
           (pps : list (path * prog Z)) (decs : list (path * Z * list (nat * nat))) (t1 t2 : value) : sx :=
  let '(r, _, lg) := run_diff_io_st hexhash (tbl_udiff ud) no_paths no_paths c rep Z (sched_of sched)
                       (tbl_pp pps) (tbl_dec decs) t1 t2 (mkM (empty cap) 0) in
  SL [sx_io r; sx_log lg].

Definition run_st_result (ud : list (pystr * pystr * pystr)) (c : cfg) (rep : bool) (cap : nat) (sched : list bool)
           (pps : list (path * prog Z)) (decs : list (path * Z * list (nat * nat))) (t1 t2 : value) : sx :=
  match run_st ud c rep cap sched pps decs t1 t2 with SL (r :: _) => SL [r] | x => x end.

(* the cache-less traversal [diff_io_o] (children of a dict in t2's key order) lists the same
   entries as [diff_io] (t1's key order) *)
Definition check_o (ud : list (pystr * pystr * pystr)) (c : cfg) (rep : bool)
           (ps : list (path * list (nat * nat))) (t1 t2 : value) : sx :=
  sx_bool (sx_eqb (sx_io (diff_io_o hexhash (tbl_udiff ud) no_paths no_paths c rep (tbl_pairs ps) t1 t2 [] []))
                  (sx_io (diff_io hexhash (tbl_udiff ud) no_paths no_paths c rep (tbl_pairs ps) t1 t2 [] []))).

(* ---- the whole run with the pairing of every level COMPUTED by the pairs model (MemoPairs.v) ----
   the memoised call of a level is [pairs_call] on the level's hashes (numbers), its distance calls' nested runs are
   looked up among the recorded children; [dec]: the dictionary (hash -> hash) becomes index pairs through the level's
   tables  added hash -> first index in t2,  removed hash -> first index in t1 *)
Local Open Scope Z_scope.
Definition pcall_v (dk : list (Z * Z * Z)) (pk : list (list Z * list Z * Z)) (cutoff : Z)
           (nest : list (Z * Z * prog (mval Z Z))) (pre : option (list (Z * Z * Z))) (adds rems : list Z) : prog (mval Z Z) :=
  pairs_call Z Z Z.eqb Z.ltb Z.eqb (tbl_dkey dk) (tbl_pkey pk) (tbl_nested nest) (fun _ _ => pre) cutoff 0 adds rems (fun v => Ret v).

Definition tbl_pp2 (t : list (path * prog (mval Z Z))) (p : path) : prog (mval Z Z) :=
  match find (fun x => path_eqb (fst x) p) t with Some x => snd x | None => Ret (VD 0) end.
Definition zassoc {B : Type} (k : Z) (l : list (Z * B)) : option B :=
  match find (fun x => Z.eqb (fst x) k) l with Some x => Some (snd x) | None => None end.
Definition tbl_dec2 (t : list (path * list (Z * nat) * list (Z * nat))) (p : path) (v : mval Z Z) : list (nat * nat) :=
  match find (fun x => path_eqb (fst (fst x)) p) t, v with
  | Some (_, addj, remi), VP ps =>
      flat_map (fun aj => match zassoc (fst aj) ps with
                          | Some r => match zassoc r remi with Some i => [(snd aj, i)] | None => [] end
                          | None => []
                          end) addj
  | _, _ => []
  end.
Definition sx_log2 (lg : list (event (mval Z Z))) : sx :=
  SL (map (fun e => SL [SZ (fst (fst e)); sx_nat (snd (fst e)); sx_mval (snd e)]) lg).

Definition run_st2 (ud : list (pystr * pystr * pystr)) (c : cfg) (rep : bool) (cap : nat) (sched : list bool)
           (pps : list (path * prog (mval Z Z))) (decs : list (path * list (Z * nat) * list (Z * nat))) (t1 t2 : value) : sx :=
  let '(r, _, lg) := run_diff_io_st hexhash (tbl_udiff ud) no_paths no_paths c rep (mval Z Z) (sched_of sched)
                       (tbl_pp2 pps) (tbl_dec2 decs) t1 t2 (mkM (empty cap) 0) in
  SL [sx_io r; sx_log2 lg].
Definition run_st2_result (ud : list (pystr * pystr * pystr)) (c : cfg) (rep : bool) (cap : nat) (sched : list bool)
           (pps : list (path * prog (mval Z Z))) (decs : list (path * list (Z * nat) * list (Z * nat))) (t1 t2 : value) : sx :=
  match run_st2 ud c rep cap sched pps decs t1 t2 with SL (r :: _) => SL [r] | x => x end.

(** C17: a previously used [hashes] table does not change any result of a session of runs, and
    repeated runs agree - when the table is VALID for the hashing options of the run (every entry
    is the hash of its key under these options, [memo_ok]) and nothing aliases (K2).  A table
    left by runs under the same options is valid; one left by a run under OTHER options need not
    be, and then the result does change (refutation; outside the property's domain: the
    documented contract of `hashes` is "re-use the hash that is provided"). *)
From Coq Require Import List ZArith NArith Bool Arith Lia.
Import ListNotations.
From DD Require Import Base.PyStr Base.Value Diff.Tree Diff.DiffModel Hash.HashModel Hash.HexHash Hash.HashProofsC06 Hash.HashProofsMemo Lfu.LfuModel
  DiffIO.DiffIOModel DiffIO.DiffIOProofs DiffIO.MemoModel DiffIO.DiffIOCache DiffIO.DiffIOMemo DiffIO.DiffIOMemoProofs DiffIO.MemoHashes.

Section SameOptions.
Variable H : pystr -> pystr.
Variable udiff : pystr -> pystr -> pystr.
Variable skip excl : path -> bool.
Variable c : cfg.
Variable rep : bool.
Variable A : list atom.                      (* all atoms around: of the table and of every input of the session *)
Hypothesis A_noalias : no_alias A = true.

Notation Inv := (Inv H c rep A).
Notation good := (good A).

(* the result of the run without any table and without cache *)
Definition pure_result (pairs : path -> list (nat * nat)) (t1 t2 : value) : res :=
  let r := diff_io_o H udiff skip excl c rep pairs t1 t2 [] [] in
  (if rep then fst r else mutual (fst r), snd r).

Lemma run_from_pure pairs m t1 t2 :
  Inv m -> good t1 -> good t2 ->
  fst (run_m_from H udiff skip excl c rep pairs m t1 t2) = pure_result pairs t1 t2 /\
  Inv (snd (run_m_from H udiff skip excl c rep pairs m t1 t2)).
Proof.
  intros Hi G1 G2. unfold run_m_from, pure_result, diff_io_o.
  destruct (mm_rel H udiff skip excl c rep pairs A A_noalias t1 t2 [] [] G1 G2 m (mkM (@empty (list (nat * nat)) 0) 0) Hi) as [E I'].
  destruct (diff_io_m H udiff skip excl c rep pairs t1 t2 [] [] m) as [r m']. cbn [fst snd] in *.
  rewrite <- E. split; [reflexivity|exact I'].
Qed.

Definition req_ok (q : req) : Prop := q_rep q = rep /\ good (q_t1 q) /\ good (q_t2 q).

Theorem session_pure : forall qs m,
  Inv m -> Forall req_ok qs ->
  fst (session H udiff skip excl c m qs) = map (fun q => pure_result (q_pairs q) (q_t1 q) (q_t2 q)) qs /\
  Inv (snd (session H udiff skip excl c m qs)).
Proof.
  induction qs as [|q qs IH]; intros m Hi HF; cbn [session map]; [split; [reflexivity|exact Hi]|].
  inversion HF as [|q' qs' [Er [G1 G2]] HF']; subst.
  destruct (run_from_pure (q_pairs q) m (q_t1 q) (q_t2 q) Hi G1 G2) as [E I1].
  rewrite Er. destruct (run_m_from H udiff skip excl c rep (q_pairs q) m (q_t1 q) (q_t2 q)) as [x m1]. cbn [fst snd] in *.
  destruct (IH m1 I1 HF') as [E2 I2].
  destruct (session H udiff skip excl c m1 qs) as [xs m2]. cbn [fst snd] in *. subst. split; [reflexivity|exact I2].
Qed.

Lemma Inv_nil : Inv [].
Proof. split; [apply memo_ok_nil|intros a []]. Qed.

(* every run of a session that shares one table returns what it returns alone *)
Corollary session_as_alone : forall qs m,
  Inv m -> Forall req_ok qs ->
  fst (session H udiff skip excl c m qs) = map (alone H udiff skip excl c) qs.
Proof.
  intros qs m Hi HF. rewrite (proj1 (session_pure qs m Hi HF)). apply map_ext_in. intros q Hq.
  rewrite Forall_forall in HF. destruct (HF q Hq) as [Er [G1 G2]]. unfold alone. rewrite Er.
  symmetry. apply (run_from_pure (q_pairs q) [] (q_t1 q) (q_t2 q) Inv_nil G1 G2).
Qed.
End SameOptions.

(* closed forms ---------------------------------------------------------- *)

(* all atoms of a session *)
Definition req_atoms (q : req) : list atom := (atoms_of (q_t1 q) ++ atoms_of (q_t2 q))%list.
Definition session_atoms (m : memo) (qs : list req) : list atom := (matoms m ++ flat_map req_atoms qs)%list.

(* ANY valid table (e.g. one pre-filled by earlier runs on other values), any number of runs: every result is the
   one of the run alone, and the table stays valid *)
Theorem preseeded_session :
  forall (H : pystr -> pystr) udiff skip excl c rep (m : memo) (qs : list req),
  memo_ok H (io_opts c rep) m ->
  Forall (fun q => q_rep q = rep /\ wf (q_t1 q) = true /\ wf (q_t2 q) = true) qs ->
  no_alias (session_atoms m qs) = true ->
  fst (session H udiff skip excl c m qs) = map (alone H udiff skip excl c) qs /\
  memo_ok H (io_opts c rep) (snd (session H udiff skip excl c m qs)).
Proof.
  intros H udiff skip excl c rep m qs Hok HF Hna.
  assert (Hi : Inv H c rep (session_atoms m qs) m).
  { split; [exact Hok|]. intros a Ha. apply in_or_app. left. exact Ha. }
  assert (HF' : Forall (req_ok rep (session_atoms m qs)) qs).
  { rewrite Forall_forall in *. intros q Hq. destruct (HF q Hq) as [Er [W1 W2]]. split; [exact Er|].
    split; (split; [assumption|]); intros a Ha; apply in_or_app; right; apply in_flat_map; exists q; (split; [exact Hq|]);
      unfold req_atoms; apply in_or_app; [left|right]; exact Ha. }
  split.
  - apply (session_as_alone H udiff skip excl c rep _ Hna qs m Hi HF').
  - apply (session_pure H udiff skip excl c rep _ Hna qs m Hi HF').
Qed.

(* repeated runs agree: the same request n times over one table (or each time with a fresh one) *)
Corollary repeated_runs_agree :
  forall (H : pystr -> pystr) udiff skip excl c (q : req) (n : nat),
  wf (q_t1 q) = true -> wf (q_t2 q) = true -> alias_free2 (q_t1 q) (q_t2 q) = true ->
  fst (session H udiff skip excl c [] (repeat q n)) = repeat (alone H udiff skip excl c q) n.
Proof.
  intros H udiff skip excl c q n W1 W2 Ha.
  assert (Hi : Inv H c (q_rep q) (req_atoms q) []) by (split; [apply memo_ok_nil|intros a []]).
  assert (HF : Forall (req_ok (q_rep q) (req_atoms q)) (repeat q n)).
  { apply Forall_forall. intros q' Hq. apply repeat_spec in Hq. subst q'. split; [reflexivity|].
    split; (split; [assumption|]); intros a Ha'; unfold req_atoms; apply in_or_app; [left|right]; exact Ha'. }
  rewrite (session_as_alone H udiff skip excl c (q_rep q) _ Ha (repeat q n) [] Hi HF).
  clear. induction n as [|n IHn]; cbn [repeat map]; [reflexivity|f_equal; exact IHn].
Qed.

(* a table that is valid for other options is valid for these exactly when the two option sets agree on every
   stored (hashable) key *)
Theorem memo_ok_transfer :
  forall (H : pystr -> pystr) (o o' : hopts) (m : memo),
  memo_ok H o' m ->
  (memo_ok H o m <-> forall k h, In (MK k, h) m -> order_ok o k = true /\ hash_pure H o k = hash_pure H o' k).
Proof.
  intros H o o' m Hok'. split.
  - intros Hok k h Hin. destruct (Hok k h Hin) as (_ & _ & Oo & Eh). destruct (Hok' k h Hin) as (_ & _ & _ & Eh').
    split; [exact Oo|congruence].
  - intros Hall k h Hin. destruct (Hok' k h Hin) as (Hh & Wk & _ & Eh'). destruct (Hall k h Hin) as [Oo E].
    repeat split; try assumption. congruence.
Qed.

(* ------------------------------------------------------------------ *)
(** * a table left by a run under OTHER options *)

(* t1 = [(1, 1, 2)], t2 = [(1, 2)]: equal when repetition is ignored (report_repetition=False), different when it is
   reported.  The first run (report_repetition=False) leaves a table that is valid for ITS options; passed to a run
   with report_repetition=True it serves both tuples the same hash and the difference disappears. *)
Definition so_t1 : value := VList [VTuple [VAtom (AInt 1); VAtom (AInt 1); VAtom (AInt 2)]].
Definition so_t2 : value := VList [VTuple [VAtom (AInt 1); VAtom (AInt 2)]].
Definition so_pairs (p : path) : list (nat * nat) := match p with [] => [(0, 0)] | _ => [] end.
Definition so_table (udiff : pystr -> pystr -> pystr) : memo :=
  snd (run_m_from hexhash udiff no_skip no_skip cfg_default false so_pairs [] so_t1 so_t2).

Theorem stale_options_refuted : forall udiff,
  wf so_t1 = true /\ wf so_t2 = true /\ alias_free2 so_t1 so_t2 = true /\
  (* the table is the one a previous run left, and it is valid for that run's options ... *)
  memo_ok hexhash (io_opts cfg_default false) (so_table udiff) /\
  (* ... but not for the options of the next run *)
  ~ memo_ok hexhash (io_opts cfg_default true) (so_table udiff) /\
  (* alone, the run with report_repetition=True reports the repetition change inside the paired tuples *)
  fst (run_m_from hexhash udiff no_skip no_skip cfg_default true so_pairs [] so_t1 so_t2) <> ([], []) /\
  (* with the table of the other run it reports nothing *)
  fst (run_m_from hexhash udiff no_skip no_skip cfg_default true so_pairs (so_table udiff) so_t1 so_t2) = ([], []).
Proof.
  intro udiff. split; [reflexivity|]. split; [reflexivity|]. split; [reflexivity|]. split; [|split; [|split]].
  - unfold so_table, run_m_from.
    destruct (diff_io_m_pure hexhash udiff no_skip no_skip cfg_default false so_pairs [] so_t1 so_t2 [] []
                (memo_ok_nil hexhash _) eq_refl eq_refl eq_refl) as [_ Ok].
    destruct (diff_io_m hexhash udiff no_skip no_skip cfg_default false so_pairs so_t1 so_t2 [] [] []) as [r m'].
    exact Ok.
  - intro Ok.
    assert (Hin : In (MK (VTuple [VAtom (AInt 1); VAtom (AInt 1); VAtom (AInt 2)]),
                      hash_pure hexhash (io_opts cfg_default false) (VTuple [VAtom (AInt 1); VAtom (AInt 1); VAtom (AInt 2)])) (so_table udiff))
      by (vm_compute; tauto).
    destruct (Ok _ _ Hin) as (_ & _ & _ & E). revert E. vm_compute. discriminate.
  - vm_compute. discriminate.
  - vm_compute. reflexivity.
Qed.

(* the positive statements are not vacuous: a three-run session over one table - two different pairs of values, then
   the first again - with non-empty results *)
Example session_example : forall udiff,
  let q1 := mkReq false so_pairs (VList [VList [VAtom (AInt 1); VAtom (AInt 2)]; VAtom (AInt 7)]) (VList [VAtom (AInt 7); VList [VAtom (AInt 1); VAtom (AInt 3)]]) in
  let q2 := mkReq false (fun _ => []) (VList [VTuple [VAtom (AInt 1); VAtom (AInt 2)]; VAtom (AInt 4)]) (VList [VAtom (AInt 4); VAtom (AInt 5)]) in
  no_alias (session_atoms [] [q1; q2; q1]) = true /\
  fst (session hexhash udiff no_skip no_skip cfg_default [] [q1; q2; q1]) = map (alone hexhash udiff no_skip no_skip cfg_default) [q1; q2; q1] /\
  Forall (fun r => fst r <> []) (fst (session hexhash udiff no_skip no_skip cfg_default [] [q1; q2; q1])) /\
  List.length (snd (session hexhash udiff no_skip no_skip cfg_default [] [q1; q2])) = 15.
Proof.
  intro udiff. cbv zeta. split; [reflexivity|]. split; [|split].
  - apply (preseeded_session hexhash udiff no_skip no_skip cfg_default false []); [apply memo_ok_nil| |reflexivity].
    repeat constructor.
  - vm_compute. repeat constructor; discriminate.
  - vm_compute. reflexivity.
Qed.

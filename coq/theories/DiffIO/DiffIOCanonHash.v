(** The shared DeepHash table WITH aliasing atoms: what a lookup serves.

    [hash_memo_canon]: from any table that satisfies the invariant [CInv] (in particular the
    empty one), for every value (no alias guard), the hash served for v is the MEMO-FREE hash of
    v with every atom replaced by the first ==-equal atom key of the table ([rho]); the table
    only grows, stays [CInv], and afterwards knows the class of every atom DeepHash looked at.
    The only guard is [L_sep]: no bool is == to a non-bool atom (a bool is a BoolObj at the top
    level of a lookup, itself inside a tuple).

    This is finding K2 as a theorem about all inputs: the table is a function of ==-classes, and
    the class representative is the first member hashed. *)
From Coq Require Import String.
From Coq Require Import List ZArith NArith Bool Arith Lia Permutation.
Import ListNotations.
From DD Require Import Base.PyStr Base.Value Base.ValueFacts Diff.Tree Diff.DiffModel Hash.HashModel Hash.Equiv
  Hash.HashProofsBase Hash.HashProofsC06 Hash.HashProofsC07 Hash.HashProofsMemo Hash.HashMembers
  DiffIO.DiffIOModel DiffIO.DiffIOMemo DiffIO.DiffIOCanon.

(* ------------------------------------------------------------------ *)
(** * == classes and representatives *)

Lemma py_eq_cong a b k : py_eq a b = true -> py_eq k a = py_eq k b.
Proof.
  intro E. destruct (py_eq k a) eqn:Ea; destruct (py_eq k b) eqn:Eb; auto.
  - rewrite (py_eq_trans k a b Ea E) in Eb. discriminate.
  - assert (E' : py_eq b a = true) by (rewrite py_eq_sym; exact E).
    rewrite (py_eq_trans k b a Eb E') in Ea. discriminate.
Qed.

Lemma py_eq_sym_true a b : py_eq a b = true -> py_eq b a = true.
Proof. rewrite py_eq_sym. auto. Qed.

Lemma rho_l_py_eq ks a : py_eq a (rho_l ks a) = true.
Proof.
  unfold rho_l. destruct (find (fun k => py_eq k a) ks) as [k|] eqn:E.
  - apply find_some in E as [_ E]. apply py_eq_sym_true. exact E.
  - apply ValueFacts.py_eq_refl.
Qed.

Lemma find_class ks a b : py_eq a b = true ->
  find (fun k => py_eq k a) ks = find (fun k => py_eq k b) ks.
Proof.
  intro E. induction ks as [|k r IH]; cbn [find]; [reflexivity|].
  rewrite (py_eq_cong a b k E), IH. reflexivity.
Qed.
Lemma existsb_class ks a b : py_eq a b = true ->
  existsb (fun k => py_eq k a) ks = existsb (fun k => py_eq k b) ks.
Proof.
  intro E. induction ks as [|k r IH]; cbn [existsb]; [reflexivity|].
  rewrite (py_eq_cong a b k E), IH. reflexivity.
Qed.

Lemma rho_l_class ks a b :
  py_eq a b = true -> existsb (fun k => py_eq k a) ks = true -> rho_l ks a = rho_l ks b.
Proof.
  intros E Hx. unfold rho_l. rewrite <- (find_class ks a b E).
  destruct (find (fun k => py_eq k a) ks) as [k|] eqn:F; [reflexivity|exfalso].
  apply existsb_exists in Hx as [k [Hk Hp]]. rewrite (find_none _ _ F k Hk) in Hp. discriminate.
Qed.

Lemma rho_l_app ks ks' a :
  existsb (fun k => py_eq k a) ks = true -> rho_l (ks ++ ks') a = rho_l ks a.
Proof.
  unfold rho_l. induction ks as [|k r IH]; cbn [existsb app find]; [discriminate|].
  destruct (py_eq k a); [reflexivity|]. cbn [orb]. exact IH.
Qed.

Lemma rho_l_in ks a : existsb (fun k => py_eq k a) ks = true -> In (rho_l ks a) ks.
Proof.
  intro Hx. unfold rho_l. destruct (find (fun k => py_eq k a) ks) as [k|] eqn:F.
  - apply find_some in F as [F _]. exact F.
  - exfalso. apply existsb_exists in Hx as [k [Hk Hp]]. rewrite (find_none _ _ F k Hk) in Hp. discriminate.
Qed.

Lemma akeys_app m e : akeys (m ++ e) = akeys m ++ akeys e.
Proof.
  induction m as [|[[[a| | | | |]|v] h] r IH]; cbn [app akeys]; try exact IH; [reflexivity|].
  rewrite IH. reflexivity.
Qed.

Lemma akeys_incl m : incl (akeys m) (matoms m).
Proof.
  induction m as [|[[[a| | | | |]|v] h] r IH]; intros x Hx; cbn [akeys] in Hx.
  - destruct Hx.
  - unfold matoms. cbn [flat_map fst atoms_of]. destruct Hx as [<-|Hx]; [left; reflexivity|right; apply IH; exact Hx].
  - unfold matoms. cbn [flat_map fst]. apply in_or_app. right. apply IH. exact Hx.
  - unfold matoms. cbn [flat_map fst]. apply in_or_app. right. apply IH. exact Hx.
  - unfold matoms. cbn [flat_map fst]. apply in_or_app. right. apply IH. exact Hx.
  - unfold matoms. cbn [flat_map fst]. apply in_or_app. right. apply IH. exact Hx.
  - unfold matoms. cbn [flat_map fst]. apply in_or_app. right. apply IH. exact Hx.
  - unfold matoms. cbn [flat_map fst]. apply in_or_app. right. apply IH. exact Hx.
Qed.

Lemma akeys_In a h m : In (MK (VAtom a), h) m -> In a (akeys m).
Proof.
  induction m as [|[k h'] r IH]; [intros []|].
  intros [E|Hi].
  - inversion E; subst. cbn [akeys]. left; reflexivity.
  - destruct k as [[b| | | | |]|v]; cbn [akeys]; auto. right; auto.
Qed.

(* ------------------------------------------------------------------ *)
(** * renaming *)

Lemma cmap_ext f g v : (forall a, In a (atoms_of v) -> f a = g a) -> cmap f v = cmap g v.
Proof.
  induction v as [a|xs IH|xs IH|kvs IH|xs|xs] using value_ind'; intro Hfg; cbn [cmap].
  - rewrite Hfg; [reflexivity|left; reflexivity].
  - f_equal. apply map_ext_in. intros x Hx. rewrite Forall_forall in IH. apply IH; auto.
    intros a Ha. apply Hfg. cbn [atoms_of]. apply in_flat_map. eauto.
  - f_equal. apply map_ext_in. intros x Hx. rewrite Forall_forall in IH. apply IH; auto.
    intros a Ha. apply Hfg. cbn [atoms_of]. apply in_flat_map. eauto.
  - f_equal. apply map_ext_in. intros [k x] Hx. cbn [fst snd]. rewrite Forall_forall in IH. f_equal.
    + apply Hfg. cbn [atoms_of]. apply in_flat_map. exists (k, x). split; auto. left; reflexivity.
    + apply (IH (k, x) Hx). intros a Ha. apply Hfg. cbn [atoms_of]. apply in_flat_map. exists (k, x). split; auto. right; exact Ha.
  - f_equal. apply map_ext_in. intros a Ha. apply Hfg. exact Ha.
  - f_equal. apply map_ext_in. intros a Ha. apply Hfg. exact Ha.
Qed.

Lemma cmap_cmap f g v : cmap g (cmap f v) = cmap (fun a => g (f a)) v.
Proof.
  induction v as [a|xs IH|xs IH|kvs IH|xs|xs] using value_ind'; cbn [cmap].
  - reflexivity.
  - f_equal. rewrite map_map. apply map_ext_in. intros x Hx. rewrite Forall_forall in IH. apply IH; auto.
  - f_equal. rewrite map_map. apply map_ext_in. intros x Hx. rewrite Forall_forall in IH. apply IH; auto.
  - f_equal. rewrite map_map. apply map_ext_in. intros [k x] Hx. cbn [fst snd]. rewrite Forall_forall in IH.
    f_equal. apply (IH (k, x) Hx).
  - f_equal. apply map_map.
  - f_equal. apply map_map.
Qed.

Lemma vatoms_incl o v : incl (vatoms o v) (atoms_of v).
Proof.
  induction v as [a|xs IH|xs IH|kvs IH|xs|xs] using value_ind'; intros b Hb; cbn [vatoms atoms_of] in *; auto.
  - apply in_flat_map in Hb as [x [Hx Hb]]. apply in_flat_map. exists x. split; auto. rewrite Forall_forall in IH. apply (IH x Hx). exact Hb.
  - apply in_flat_map in Hb as [x [Hx Hb]]. apply in_flat_map. exists x. split; auto. rewrite Forall_forall in IH. apply (IH x Hx). exact Hb.
  - apply in_flat_map in Hb as [kv [Hx Hb]]. apply in_flat_map. exists kv. split; auto.
    destruct (hidden o (fst kv)); [destruct Hb|]. destruct Hb as [<-|Hb]; [left; reflexivity|right].
    rewrite Forall_forall in IH. apply (IH kv Hx). exact Hb.
Qed.

Lemma vatoms_hashable o v : hashable v = true -> vatoms o v = atoms_of v.
Proof.
  induction v as [a|xs IH|xs IH|kvs IH|xs|xs] using value_ind'; intro Hh; try discriminate Hh; try reflexivity.
  cbn [vatoms atoms_of]. cbn [hashable] in Hh. induction xs as [|x r IHr]; [reflexivity|].
  cbn [forallb] in Hh. apply andb_true_iff in Hh as [H1 H2]. inversion IH as [|? ? I1 I2]; subst.
  cbn [flat_map]. rewrite (I1 H1), (IHr I2 H2). reflexivity.
Qed.

Lemma py_eq_private a b : py_eq a b = true -> is_private b = is_private a.
Proof.
  destruct a, b; cbn; try discriminate; try reflexivity;
    try (destruct b; discriminate); try (destruct b0; discriminate).
  intro E. apply ValueFacts.pystr_eqb_eq in E. subst. reflexivity.
Qed.

(* ------------------------------------------------------------------ *)
(** * hashes of renamed values *)

Section HashFacts.
Variable H : pystr -> pystr.
Variable o : hopts.

Definition keeps_hidden (f : atom -> atom) : Prop := forall a, hidden o (f a) = hidden o a.

Lemma class_keeps_hidden f : (forall a, py_eq a (f a) = true) -> keeps_hidden f.
Proof. intros Hf a. unfold hidden. rewrite (py_eq_private a (f a) (Hf a)). reflexivity. Qed.

Lemma vis_cmap f (kvs : list (atom * value)) : keeps_hidden f ->
  vis o (map (fun kv => (f (fst kv), cmap f (snd kv))) kvs) =
  map (fun kv : atom * value => (f (fst kv), cmap f (snd kv))) (vis o kvs).
Proof.
  intro Hk. unfold vis. induction kvs as [|[k x] r IH]; cbn [map filter fst snd]; [reflexivity|].
  rewrite Hk. destruct (hidden o k); cbn [negb map fst snd]; rewrite IH; reflexivity.
Qed.

Lemma hash_pure_cmap_list f xs :
  hash_pure H o (cmap f (VList xs)) =
  H (retag o (seq_result (s2p "list"%string) (arrange o (map (fun x => hash_pure H o (cmap f x)) xs)))).
Proof. cbn [cmap hash_pure]. rewrite map_map. reflexivity. Qed.
Lemma hash_pure_cmap_tuple f xs :
  hash_pure H o (cmap f (VTuple xs)) =
  H (retag o (seq_result (s2p "tuple"%string) (arrange o (map (fun x => hash_pure H o (cmap f x)) xs)))).
Proof. cbn [cmap hash_pure]. rewrite map_map. reflexivity. Qed.
Lemma hash_pure_cmap_set f xs :
  hash_pure H o (cmap f (VSet xs)) =
  H (retag o (seq_result (s2p "set"%string) (arrange o (map (fun a => hash_atom H o (f a)) xs)))).
Proof. cbn [cmap hash_pure]. rewrite map_map. reflexivity. Qed.
Lemma hash_pure_cmap_frozen f xs :
  hash_pure H o (cmap f (VFrozen xs)) =
  H (retag o (seq_result (s2p "frozenset"%string) (arrange o (map (fun a => hash_atom H o (f a)) xs)))).
Proof. cbn [cmap hash_pure]. rewrite map_map. reflexivity. Qed.
Lemma hash_pure_cmap_dict f kvs : keeps_hidden f ->
  hash_pure H o (cmap f (VDict kvs)) =
  H (retag o (dict_result (map (fun kv => dict_item (hash_atom H o (f (fst kv))) (hash_pure H o (cmap f (snd kv)))) (vis o kvs)))).
Proof. intro Hk. cbn [cmap]. rewrite hash_pure_dict, (vis_cmap f kvs Hk), map_map. reflexivity. Qed.

Lemma hash_pure_cmap_ext f g v : keeps_hidden f -> keeps_hidden g ->
  (forall a, In a (vatoms o v) -> f a = g a) ->
  hash_pure H o (cmap f v) = hash_pure H o (cmap g v).
Proof.
  intros Kf Kg. induction v as [a|xs IH|xs IH|kvs IH|xs|xs] using value_ind'; intro Hfg.
  - cbn [cmap hash_pure]. rewrite Hfg; [reflexivity|left; reflexivity].
  - rewrite !hash_pure_cmap_list. do 4 f_equal. apply map_ext_in. intros x Hx.
    rewrite Forall_forall in IH. apply IH; auto. intros a Ha. apply Hfg. cbn [vatoms]. apply in_flat_map. eauto.
  - rewrite !hash_pure_cmap_tuple. do 4 f_equal. apply map_ext_in. intros x Hx.
    rewrite Forall_forall in IH. apply IH; auto. intros a Ha. apply Hfg. cbn [vatoms]. apply in_flat_map. eauto.
  - rewrite !hash_pure_cmap_dict by assumption. do 3 f_equal. apply map_ext_in. intros [k x] Hx.
    cbn [fst snd]. unfold vis in Hx. apply filter_In in Hx as [Hx Hh]. cbn [fst] in Hh. apply negb_true_iff in Hh.
    assert (Hin : forall a, In a (k :: vatoms o x) -> In a (vatoms o (VDict kvs))).
    { intros a Ha. cbn [vatoms]. apply in_flat_map. exists (k, x). split; auto. cbn [fst snd]. rewrite Hh. exact Ha. }
    f_equal.
    + rewrite Hfg; [reflexivity|]. apply Hin. left; reflexivity.
    + rewrite Forall_forall in IH. apply (IH (k, x) Hx). intros a Ha. apply Hfg. apply Hin. right; exact Ha.
  - rewrite !hash_pure_cmap_set. do 4 f_equal. apply map_ext_in. intros a Ha. rewrite Hfg; auto.
  - rewrite !hash_pure_cmap_frozen. do 4 f_equal. apply map_ext_in. intros a Ha. rewrite Hfg; auto.
Qed.

End HashFacts.

(* ------------------------------------------------------------------ *)
(** * a hit serves the hash of the renamed value *)

Lemma key_eq_py_eqv k v : key_eq k v = true -> py_eqv k v = true.
Proof.
  unfold key_eq. destruct k as [[| x | | | |]| | | | |]; destruct v as [[| y | | | |]| | | | |]; try discriminate; auto.
  intro E. apply Bool.eqb_prop in E. subst. destruct y; reflexivity.
Qed.

Lemma key_eq_atoms a b : is_bool a = is_bool b -> key_eq (VAtom a) (VAtom b) = py_eq a b.
Proof.
  destruct a as [| x | | | |], b as [| y | | | |]; cbn; try discriminate; try reflexivity.
  intros _. destruct x, y; reflexivity.
Qed.

Lemma class_inj f a x : (forall a, py_eq a (f a) = true) -> f x = f a -> py_eq a x = true.
Proof.
  intros Hf E. apply (py_eq_trans a (f a) x); [apply Hf|]. rewrite <- E. apply py_eq_sym_true, Hf.
Qed.

Lemma nodup_map_class f xs : (forall a, py_eq a (f a) = true) -> nodup_atoms xs = true -> NoDup (map f xs).
Proof.
  intros Hf. induction xs as [|a r IH]; cbn [nodup_atoms map]; intro Hn; [constructor|].
  apply andb_true_iff in Hn as [Hm Hn]. constructor; [|apply IH; exact Hn].
  intro Hin. apply in_map_iff in Hin as [x [E Hx]]. apply negb_true_iff in Hm.
  assert (Hc : mem_atom a r = true); [|congruence].
  apply mem_atom_In. exists x. split; auto. eapply class_inj; eauto.
Qed.

Section Hit.
Variable H : pystr -> pystr.
Variable o : hopts.
Hypothesis Hio : ignore_iterable_order o = true.
Variable f : atom -> atom.
Hypothesis f_eq : forall a, py_eq a (f a) = true.

Lemma py_eqv_cmap_hash k : forall v,
  hashable k = true -> wf k = true -> py_eqv k v = true -> hashable v = true ->
  (forall a b, In a (atoms_of k) -> py_eq a b = true -> f a = f b) ->
  hash_pure H o (cmap f k) = hash_pure H o (cmap f v) /\
  (forall b, In b (atoms_of v) -> exists a, In a (atoms_of k) /\ py_eq a b = true).
Proof.
  induction k as [a|xs IH|xs IH|kvs IH|xs|xs] using value_ind'; intros v Hk Wk He Hv Hcl;
    try discriminate Hk.
  - destruct v as [b| | | | |]; cbn [py_eqv] in He; try discriminate He.
    assert (E : f a = f b) by (apply Hcl; [left; reflexivity|exact He]).
    split.
    + cbn [cmap hash_pure]. rewrite E. reflexivity.
    + intros b' [<-|[]]. exists a. split; [left; reflexivity|exact He].
  - destruct v as [|ys|ys| | |]; cbn [py_eqv] in He; try discriminate He.
    cbn [hashable] in Hk, Hv. cbn [wf] in Wk. cbn [atoms_of] in Hcl |- *.
    assert (G : map (fun x => hash_pure H o (cmap f x)) xs = map (fun x => hash_pure H o (cmap f x)) ys /\
                (forall b, In b (flat_map atoms_of ys) -> exists a, In a (flat_map atoms_of xs) /\ py_eq a b = true)).
    { revert ys He Hv Hcl. induction xs as [|x xs IHxs]; intros [|y ys] He Hv Hcl; try discriminate He.
      - split; [reflexivity|intros b []].
      - apply andb_true_iff in He. destruct He as [He1 He2].
        cbn [forallb] in Hk, Hv, Wk. apply andb_true_iff in Hk, Hv, Wk.
        destruct Hk as [Hk1 Hk2]. destruct Hv as [Hv1 Hv2]. destruct Wk as [Wk1 Wk2].
        inversion IH as [|? ? IH1 IH2]; subst.
        destruct (IH1 y Hk1 Wk1 He1 Hv1) as [E1 C1].
        { intros a b Ha. apply Hcl. cbn [flat_map]. apply in_or_app. left; exact Ha. }
        destruct (IHxs IH2 Hk2 Wk2 ys He2 Hv2) as [E2 C2].
        { intros a b Ha. apply Hcl. cbn [flat_map]. apply in_or_app. right; exact Ha. }
        split.
        + cbn [map]. rewrite E1, E2. reflexivity.
        + intros b Hb. cbn [flat_map] in Hb. apply in_app_or in Hb as [Hb|Hb].
          * destruct (C1 b Hb) as [a [Ha Hp]]. exists a. split; auto. cbn [flat_map]. apply in_or_app. left; exact Ha.
          * destruct (C2 b Hb) as [a [Ha Hp]]. exists a. split; auto. cbn [flat_map]. apply in_or_app. right; exact Ha. }
    destruct G as [E C]. split; [|exact C].
    rewrite !hash_pure_cmap_tuple, E. reflexivity.
  - destruct v as [| | | |ys|ys]; cbn [py_eqv] in He; try discriminate He; try discriminate Hv.
    apply andb_true_iff in He. destruct He as [Hl Hm]. apply Nat.eqb_eq in Hl.
    cbn [wf] in Wk. cbn [atoms_of] in Hcl |- *.
    assert (P : Permutation (map f xs) (map f ys)).
    { apply NoDup_Permutation_bis.
      - apply nodup_map_class; auto.
      - rewrite !map_length. lia.
      - intros a' Ha'. apply in_map_iff in Ha' as [a [<- Ha]].
        rewrite forallb_forall in Hm. specialize (Hm a Ha). apply mem_atom_In in Hm as [b [Hb Hab]].
        rewrite (Hcl a b Ha Hab). apply in_map. exact Hb. }
    split.
    + rewrite !hash_pure_cmap_frozen. do 3 f_equal.
      rewrite <- (map_map f (hash_atom H o) xs), <- (map_map f (hash_atom H o) ys).
      apply arrange_perm; auto. apply Permutation_map. exact P.
    + intros b Hb. assert (Hfb : In (f b) (map f xs)).
      { eapply Permutation_in; [apply Permutation_sym; exact P|]. apply in_map. exact Hb. }
      apply in_map_iff in Hfb as [a [E Ha]]. exists a. split; auto.
      apply py_eq_sym_true. eapply class_inj; eauto.
Qed.
End Hit.

(* ------------------------------------------------------------------ *)
(** * the table, with aliasing *)

Lemma mlookup_None v m : mlookup v m = None -> forall k h, In (MK k, h) m -> key_eq k v = false.
Proof.
  induction m as [|[[k|k] h'] m IH]; cbn [mlookup]; intros Hn k0 h0 Hi; [destruct Hi| |].
  - destruct (key_eq k v) eqn:Ek; [discriminate|]. destruct Hi as [E|Hi]; [inversion E; subst; exact Ek|eapply IH; eauto].
  - destruct Hi as [E|Hi]; [inversion E|eapply IH; eauto].
Qed.

Lemma akeys_In_inv a m : In a (akeys m) -> exists h, In (MK (VAtom a), h) m.
Proof.
  induction m as [|[k h'] r IH]; [intros []|].
  destruct k as [[b| | | | |]|v]; cbn [akeys]; intro Hi;
    try (destruct (IH Hi) as [h Hh]; exists h; right; exact Hh).
  destruct Hi as [<-|Hi]; [exists h'; left; reflexivity|].
  destruct (IH Hi) as [h Hh]; exists h; right; exact Hh.
Qed.

Lemma find_app_none {A} (p : A -> bool) ks l : existsb p ks = false -> find p (ks ++ l) = find p l.
Proof.
  induction ks as [|k r IH]; cbn [existsb app find]; [reflexivity|].
  destruct (p k); [discriminate|]. exact IH.
Qed.

Lemma nodup_snoc l a : nodup_atoms l = true -> (forall k, In k l -> py_eq k a = false) -> nodup_atoms (l ++ [a]) = true.
Proof.
  induction l as [|x r IH]; cbn [app nodup_atoms]; intros Hn Hk; [reflexivity|].
  apply andb_true_iff in Hn as [Hm Hn]. apply andb_true_iff. split.
  - apply negb_true_iff. apply negb_true_iff in Hm. unfold mem_atom in *. rewrite existsb_app, Hm. cbn [existsb orb].
    rewrite (Hk x (or_introl eq_refl)). reflexivity.
  - apply IH; auto. intros k Hi. apply Hk. right; exact Hi.
Qed.

Lemma akeys_single_nonatom v h : (forall a, v <> VAtom a) -> akeys [(mkey_of v, h)] = [].
Proof.
  intro Hv. unfold mkey_of. destruct (hashable v); destruct v; cbn [akeys]; try reflexivity; exfalso; eapply Hv; reflexivity.
Qed.

Section CanonMemo.
Variable H : pystr -> pystr.
Variable o : hopts.
Hypothesis Hio : ignore_iterable_order o = true.
Variable L : list atom.
Hypothesis L_sep : forall a b, In a L -> In b L -> py_eq a b = true -> is_bool a = is_bool b.

Definition CInv (m : memo) : Prop :=
  incl (matoms m) L /\ nodup_atoms (akeys m) = true /\
  (forall k h, In (MK k, h) m ->
     hashable k = true /\ wf k = true /\ (forall a, In a (atoms_of k) -> inclass m a = true) /\
     h = hash_pure H o (cmap (rho m) k)).
Definition ext (m m' : memo) : Prop := exists e, m' = m ++ e.

Lemma CInv_nil : CInv [].
Proof. split; [intros a []|]. split; [reflexivity|intros k h []]. Qed.

Lemma ext_refl m : ext m m.
Proof. exists []. rewrite app_nil_r. reflexivity. Qed.
Lemma ext_trans m1 m2 m3 : ext m1 m2 -> ext m2 m3 -> ext m1 m3.
Proof. intros [e1 ->] [e2 ->]. exists (e1 ++ e2). rewrite app_assoc. reflexivity. Qed.
Lemma ext_inclass m m' a : ext m m' -> inclass m a = true -> inclass m' a = true.
Proof. intros [e ->] Hi. unfold inclass in *. rewrite akeys_app, existsb_app, Hi. reflexivity. Qed.
Lemma ext_rho m m' a : ext m m' -> inclass m a = true -> rho m' a = rho m a.
Proof. intros [e ->] Hi. unfold rho. rewrite akeys_app. apply rho_l_app. exact Hi. Qed.

Lemma rho_py_eq m a : py_eq a (rho m a) = true.
Proof. apply rho_l_py_eq. Qed.
Lemma rho_keeps m : keeps_hidden o (rho m).
Proof. apply class_keeps_hidden. intro a. apply rho_py_eq. Qed.
Lemma rho_class m a b : inclass m a = true -> py_eq a b = true -> rho m a = rho m b.
Proof. intros Hi E. apply rho_l_class; auto. Qed.
Lemma inclass_class m a b : py_eq a b = true -> inclass m a = inclass m b.
Proof. intro E. apply existsb_class. exact E. Qed.

Lemma transport m m' v : ext m m' -> (forall a, In a (vatoms o v) -> inclass m a = true) ->
  hash_pure H o (cmap (rho m') v) = hash_pure H o (cmap (rho m) v).
Proof. intros He Hc. apply hash_pure_cmap_ext; try apply rho_keeps. intros a Ha. apply ext_rho; auto. Qed.

Definition Post (v : value) (m : memo) (r : pystr * memo) : Prop :=
  CInv (snd r) /\ ext m (snd r) /\ (forall a, In a (vatoms o v) -> inclass (snd r) a = true) /\
  fst r = hash_pure H o (cmap (rho (snd r)) v).

Lemma hit_post v m h : CInv m -> mfind v m = Some h -> Post v m (h, m).
Proof.
  intros Hc Hf. pose proof Hc as (Hin & Hnd & Hk). unfold mfind in Hf. destruct (hashable v) eqn:Hh; [|discriminate].
  apply mlookup_Some in Hf as [k [Hi Hke]]. destruct (Hk k h Hi) as (Hhk & Wk & Ck & ->).
  apply key_eq_py_eqv in Hke.
  destruct (py_eqv_cmap_hash H o Hio (rho m) (rho_py_eq m) k v Hhk Wk Hke Hh) as [E Hcl].
  { intros a b Ha Hab. apply rho_class; auto. }
  unfold Post. cbn [fst snd]. split; [exact Hc|]. split; [apply ext_refl|]. split; [|exact E].
  intros a Ha. apply vatoms_incl in Ha. destruct (Hcl a Ha) as [a' [Ha' Hp]]. rewrite <- (inclass_class m a' a Hp). auto.
Qed.

Lemma finish_nonatom v m m' h :
  (forall a, v <> VAtom a) -> wf v = true -> incl (atoms_of v) L ->
  CInv m' -> ext m m' -> (forall a, In a (vatoms o v) -> inclass m' a = true) ->
  h = hash_pure H o (cmap (rho m') v) ->
  Post v m (h, minsert v h m').
Proof.
  intros Hv Wv Lv (Hin & Hnd & Hk) He Hc ->. unfold Post. cbn [fst snd].
  set (h := hash_pure H o (cmap (rho m') v)).
  assert (Ak : akeys (minsert v h m') = akeys m').
  { unfold minsert. rewrite akeys_app, akeys_single_nonatom, app_nil_r; auto. }
  assert (Er : rho (minsert v h m') = rho m') by (unfold rho; rewrite Ak; reflexivity).
  assert (Ec : forall a, inclass (minsert v h m') a = inclass m' a) by (intro; unfold inclass; rewrite Ak; reflexivity).
  split; [|split; [|split]].
  - split; [|split].
    + rewrite matoms_insert. apply incl_app; auto.
    + rewrite Ak. exact Hnd.
    + intros k h0 Hi. unfold minsert in Hi. apply in_app_or in Hi as [Hi|[Hi|[]]].
      * destruct (Hk k h0 Hi) as (A & B & C & D). rewrite Er. repeat split; auto. intros a Ha. rewrite Ec. auto.
      * unfold mkey_of in Hi. destruct (hashable v) eqn:Hh; inversion Hi; subst. rewrite Er. repeat split; auto.
        intros a Ha. rewrite Ec. apply Hc. rewrite vatoms_hashable; auto.
  - destruct He as [e ->]. exists (e ++ [(mkey_of v, h)]). unfold minsert. rewrite app_assoc. reflexivity.
  - intros a Ha. rewrite Ec. auto.
  - rewrite Er. reflexivity.
Qed.

Lemma finish_atom a m :
  CInv m -> In a L -> mlookup (VAtom a) m = None ->
  Post (VAtom a) m (hash_atom H o a, minsert (VAtom a) (hash_atom H o a) m).
Proof.
  intros (Hin & Hnd & Hk) Ha Hl. set (h := hash_atom H o a).
  assert (Hno : forall k, In k (akeys m) -> py_eq k a = false).
  { intros k Hki. destruct (py_eq k a) eqn:E; [exfalso|reflexivity].
    destruct (akeys_In_inv k m Hki) as [hk Hi].
    pose proof (mlookup_None _ _ Hl _ _ Hi) as Hke.
    rewrite key_eq_atoms in Hke; [congruence|]. apply L_sep; auto. apply Hin. apply akeys_incl. exact Hki. }
  assert (Hnc : inclass m a = false).
  { unfold inclass. destruct (existsb (fun k => py_eq k a) (akeys m)) eqn:E; [|reflexivity].
    apply existsb_exists in E as [k [Hki Hp]]. rewrite (Hno k Hki) in Hp. discriminate. }
  assert (Ak : akeys (minsert (VAtom a) h m) = akeys m ++ [a]).
  { unfold minsert. rewrite akeys_app. reflexivity. }
  assert (Hx : ext m (minsert (VAtom a) h m)) by (exists [(mkey_of (VAtom a), h)]; reflexivity).
  assert (Ra : rho (minsert (VAtom a) h m) a = a).
  { unfold rho, rho_l. rewrite Ak, find_app_none by exact Hnc. cbn [find]. rewrite ValueFacts.py_eq_refl. reflexivity. }
  assert (Ia : inclass (minsert (VAtom a) h m) a = true).
  { unfold inclass. rewrite Ak, existsb_app. cbn [existsb]. rewrite ValueFacts.py_eq_refl. apply orb_true_iff. right. reflexivity. }
  unfold Post. cbn [fst snd]. split; [|split; [exact Hx|split]].
  - split; [|split].
    + rewrite matoms_insert. apply incl_app; auto. intros x [<-|[]]. exact Ha.
    + rewrite Ak. apply nodup_snoc; auto.
    + intros k h0 Hi. unfold minsert in Hi. apply in_app_or in Hi as [Hi|[Hi|[]]].
      * destruct (Hk k h0 Hi) as (A & B & C & D). repeat split; auto.
        -- intros x Hxi. eapply ext_inclass; eauto.
        -- rewrite D. f_equal. apply cmap_ext. intros x Hxi. symmetry. apply ext_rho; auto.
      * cbn in Hi. inversion Hi; subst. repeat split; auto.
        -- intros x [<-|[]]. exact Ia.
        -- cbn [cmap hash_pure]. rewrite Ra. reflexivity.
  - intros x [<-|[]]. exact Ia.
  - cbn [cmap hash_pure]. rewrite Ra. reflexivity.
Qed.

Definition post_at (v : value) : Prop :=
  forall m, CInv m -> wf v = true -> incl (atoms_of v) L -> Post v m (hash_memo H o v m).

Lemma atom_post a : post_at (VAtom a).
Proof.
  intros m Hc _ Ha. rewrite hash_memo_eq.
  destruct (mfind (VAtom a) m) as [h|] eqn:Hf; [apply hit_post; auto|].
  cbn [memo_body]. apply finish_atom; auto. apply Ha. left; reflexivity.
Qed.

Definition PostL (hs_of : memo -> list pystr) (vas : list atom) (m : memo) (r : list pystr * memo) : Prop :=
  CInv (snd r) /\ ext m (snd r) /\ (forall a, In a vas -> inclass (snd r) a = true) /\ fst r = hs_of (snd r).

Lemma items_post xs : Forall post_at xs -> forall m,
  CInv m -> (forall x, In x xs -> wf x = true /\ incl (atoms_of x) L) ->
  PostL (fun m' => map (fun x => hash_pure H o (cmap (rho m') x)) xs) (flat_map (vatoms o) xs) m (items_memo H o xs m).
Proof.
  induction xs as [|x xs IHxs]; intros IH m Hc Hx; cbn [items_memo].
  - unfold PostL. cbn [fst snd map flat_map]. split; [exact Hc|]. split; [apply ext_refl|]. split; [intros a []|reflexivity].
  - inversion IH as [|? ? I1 I2]; subst. destruct (Hx x (or_introl eq_refl)) as [W A].
    destruct (I1 m Hc W A) as (C1 & E1 & V1 & F1). destruct (hash_memo H o x m) as [h m1]. cbn [fst snd] in *.
    specialize (IHxs I2 m1 C1 (fun y Hy => Hx y (or_intror Hy))). fold (items_memo H o) in *.
    destruct (items_memo H o xs m1) as [hs m2]. destruct IHxs as (C2 & E2 & V2 & F2). cbn [fst snd] in *.
    unfold PostL. cbn [fst snd]. split; [exact C2|]. split; [eapply ext_trans; eauto|]. split.
    + intros a Ha. cbn [flat_map] in Ha. apply in_app_or in Ha as [Ha|Ha]; [eapply ext_inclass; eauto|auto].
    + cbn [map]. rewrite F2. f_equal. rewrite F1. symmetry. apply transport; auto.
Qed.

Lemma atoms_post xs : forall m, CInv m -> incl xs L ->
  PostL (fun m' => map (fun a => hash_atom H o (rho m' a)) xs) xs m (atoms_memo H o xs m).
Proof.
  induction xs as [|a xs IHxs]; intros m Hc Hx; cbn [atoms_memo].
  - unfold PostL. cbn [fst snd map]. split; [exact Hc|]. split; [apply ext_refl|]. split; [intros a []|reflexivity].
  - rewrite hash_atom_memo_eq.
    destruct (atom_post a m Hc eq_refl) as (C1 & E1 & V1 & F1).
    { intros x [<-|[]]. apply Hx. left; reflexivity. }
    destruct (hash_memo H o (VAtom a) m) as [h m1]. cbn [fst snd] in *.
    specialize (IHxs m1 C1 (fun y Hy => Hx y (or_intror Hy))).
    destruct (atoms_memo H o xs m1) as [hs m2]. destruct IHxs as (C2 & E2 & V2 & F2). cbn [fst snd] in *.
    unfold PostL. cbn [fst snd]. split; [exact C2|]. split; [eapply ext_trans; eauto|]. split.
    + intros b [<-|Hb]; [eapply ext_inclass; eauto; apply V1; left; reflexivity|auto].
    + cbn [map]. rewrite F2. f_equal. rewrite F1. cbn [cmap hash_pure]. f_equal. symmetry. apply ext_rho; auto.
      apply V1. left; reflexivity.
Qed.

Lemma dict_post kvs : Forall (fun kv => post_at (snd kv)) kvs -> forall m,
  CInv m -> (forall kv, In kv kvs -> In (fst kv) L /\ wf (snd kv) = true /\ incl (atoms_of (snd kv)) L) ->
  PostL (fun m' => map (fun kv => dict_item (hash_atom H o (rho m' (fst kv))) (hash_pure H o (cmap (rho m') (snd kv)))) (vis o kvs))
        (vatoms o (VDict kvs)) m (dict_memo H o kvs m).
Proof.
  induction kvs as [|[k x] kvs IHk]; intros IH m Hc Hx; cbn [dict_memo].
  - unfold PostL. cbn [fst snd map]. split; [exact Hc|]. split; [apply ext_refl|]. split; [intros a []|reflexivity].
  - inversion IH as [|? ? I1 I2]; subst. cbn [snd] in I1. fold (dict_memo H o) in *.
    unfold vis. cbn [filter fst]. fold (vis o kvs). cbn [vatoms flat_map fst snd]. fold (vatoms o (VDict kvs)).
    destruct (hidden o k) eqn:Hh; cbn [negb].
    + cbn [app]. apply IHk; auto. intros kv Hi. apply Hx. right; exact Hi.
    + destruct (Hx (k, x) (or_introl eq_refl)) as (Kl & W & A). cbn [fst snd] in *.
      rewrite hash_atom_memo_eq.
      destruct (atom_post k m Hc eq_refl) as (C1 & E1 & V1 & F1).
      { intros y [<-|[]]. exact Kl. }
      destruct (hash_memo H o (VAtom k) m) as [kh m1]. cbn [fst snd] in *.
      destruct (I1 m1 C1 W A) as (C2 & E2 & V2 & F2).
      destruct (hash_memo H o x m1) as [vh m2]. cbn [fst snd] in *.
      specialize (IHk I2 m2 C2 (fun kv Hi => Hx kv (or_intror Hi))).
      destruct (dict_memo H o kvs m2) as [its m3]. destruct IHk as (C3 & E3 & V3 & F3). cbn [fst snd] in *.
      unfold PostL. cbn [fst snd]. split; [exact C3|]. split; [eapply ext_trans; [eauto|eapply ext_trans; eauto]|]. split.
      * intros a [<-|Ha].
        -- eapply ext_inclass; [eapply ext_trans; eauto|]. apply V1. left; reflexivity.
        -- apply in_app_or in Ha as [Ha|Ha]; [eapply ext_inclass; eauto|auto].
      * cbn [map fst snd]. rewrite F3. f_equal. f_equal.
        -- rewrite F1. cbn [cmap hash_pure]. f_equal. symmetry. apply ext_rho; [eapply ext_trans; eauto|].
           apply V1. left; reflexivity.
        -- rewrite F2. symmetry. apply transport; auto.
Qed.

Theorem memo_canon : forall v, post_at v.
Proof.
  induction v as [a|xs IH|xs IH|kvs IH|xs|xs] using value_ind'; [apply atom_post| | | | |];
    intros m Hc Wv Av; rewrite hash_memo_eq; destruct (mfind _ m) as [h|] eqn:Hf;
    try (apply hit_post; auto; fail); cbn [memo_body].
  - assert (Hx : forall x, In x xs -> wf x = true /\ incl (atoms_of x) L).
    { intros x Hi. cbn [wf] in Wv. rewrite forallb_forall in Wv. split; auto.
      intros a Ha. apply Av. cbn [atoms_of]. apply in_flat_map. eauto. }
    destruct (items_post xs IH m Hc Hx) as (C1 & E1 & V1 & F1).
    destruct (items_memo H o xs m) as [hs m1]. cbn [fst snd] in *.
    apply finish_nonatom; auto; [discriminate|]. subst hs. rewrite hash_pure_cmap_list. reflexivity.
  - assert (Hx : forall x, In x xs -> wf x = true /\ incl (atoms_of x) L).
    { intros x Hi. cbn [wf] in Wv. rewrite forallb_forall in Wv. split; auto.
      intros a Ha. apply Av. cbn [atoms_of]. apply in_flat_map. eauto. }
    destruct (items_post xs IH m Hc Hx) as (C1 & E1 & V1 & F1).
    destruct (items_memo H o xs m) as [hs m1]. cbn [fst snd] in *.
    apply finish_nonatom; auto; [discriminate|]. subst hs. rewrite hash_pure_cmap_tuple. reflexivity.
  - assert (Hx : forall kv, In kv kvs -> In (fst kv) L /\ wf (snd kv) = true /\ incl (atoms_of (snd kv)) L).
    { intros kv Hi. cbn [wf] in Wv. apply andb_true_iff in Wv. destruct Wv as [_ Wv].
      rewrite forallb_forall in Wv. repeat split; auto.
      - apply Av. cbn [atoms_of]. apply in_flat_map. exists kv. split; auto. left; auto.
      - intros a Ha. apply Av. cbn [atoms_of]. apply in_flat_map. exists kv. split; auto. right; auto. }
    destruct (dict_post kvs IH m Hc Hx) as (C1 & E1 & V1 & F1).
    destruct (dict_memo H o kvs m) as [its m1]. cbn [fst snd] in *.
    apply finish_nonatom; auto; [discriminate|]. subst its. rewrite hash_pure_cmap_dict by apply rho_keeps. reflexivity.
  - destruct (atoms_post xs m Hc Av) as (C1 & E1 & V1 & F1).
    destruct (atoms_memo H o xs m) as [hs m1]. cbn [fst snd] in *.
    apply finish_nonatom; auto; [discriminate|]. subst hs. rewrite hash_pure_cmap_set. reflexivity.
  - destruct (atoms_post xs m Hc Av) as (C1 & E1 & V1 & F1).
    destruct (atoms_memo H o xs m) as [hs m1]. cbn [fst snd] in *.
    apply finish_nonatom; auto; [discriminate|]. subst hs. rewrite hash_pure_cmap_frozen. reflexivity.
Qed.

End CanonMemo.

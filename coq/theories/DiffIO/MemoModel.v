(** C17: the caching layer of an ignore-order run as a program of memoised
    calls over the LFU cache model of C18.  Definitions only.

    diff.py memoises two things in [self._distance_cache] (one LFUCache per
    root DeepDiff, shared with the nested DeepDiffs that compute distances):
      - the rough distance of a (added hash, removed hash) pair
        ([_get_rough_distance_of_hashed_objs], key = the two hashes joined in
        sorted order + 'dc'),
      - the pairs dictionary of a level ([_get_most_in_common_pairs_in_iterables],
        key = 'pairs_cache' + hash of the two sorted hash lists).
    Both have the same shape:
        key = ... if DISTANCE_CACHE_ENABLED else None
        if key is not None and key in cache:  return cache.get(key)          (hit)
        value = <compute; may itself make memoised calls (nested DeepDiff)>
        if key is not None and DISTANCE_CACHE_ENABLED: cache.set(key, value)
        return value
    and DISTANCE_CACHE_ENABLED is switched off and on by the auto-tuner
    ([_auto_tune_cache], driven by diff counts and hit rates): an arbitrary
    boolean schedule as far as this model is concerned.

    A run is therefore a tree [prog]: [Call k body cont] = "memoised call with
    key k whose value, on a miss, is computed by [body]; the run continues with
    [cont value]"; [Ret v] = finished with v.  Keys are numbers (the harness
    enumerates the real keys), values are any type. *)
From Coq Require Import List ZArith Bool Arith.
Import ListNotations.
From DD Require Import Lfu.LfuModel.

Section Memo.
Variable V : Type.

Inductive prog : Type :=
| Ret (v : V)
| Call (k : key) (body : prog) (cont : V -> prog).

(* evaluation without any cache (cache_size = 0: DummyLFU, cache never enabled) *)
Fixpoint run_pure (p : prog) : V :=
  match p with
  | Ret v => v
  | Call _ body cont => run_pure (cont (run_pure body))
  end.

(* what happened at one call: 0 bypass (cache disabled), 1 hit, 2 miss + stored, 3 miss, not stored *)
Definition event := (key * nat * V)%type.

Record mstate := mkM { mcache : lfu V; mclock : nat }.

(* evaluation with the LFU cache; [sched n] = DISTANCE_CACHE_ENABLED at the n-th time it is read *)
Fixpoint run_cached (sched : nat -> bool) (p : prog) (s : mstate) : V * mstate * list event :=
  match p with
  | Ret v => (v, s, [])
  | Call k body cont =>
      if sched (mclock s) then
        match get (mcache s) k with
        | (c1, Some v) =>
            let '(r, s', lg) := run_cached sched (cont v) (mkM c1 (S (mclock s))) in
            (r, s', (k, 1, v) :: lg)
        | (_, None) =>
            let '(v, s1, lg1) := run_cached sched body (mkM (mcache s) (S (mclock s))) in
            let store := sched (mclock s1) in
            let c2 := if store then set (mcache s1) k v else mcache s1 in
            let '(r, s', lg2) := run_cached sched (cont v) (mkM c2 (S (mclock s1))) in
            (r, s', (k, if store then 2 else 3, v) :: lg1 ++ lg2)
        end
      else
        let '(v, s1, lg1) := run_cached sched body (mkM (mcache s) (S (mclock s))) in
        let '(r, s', lg2) := run_cached sched (cont v) s1 in
        (r, s', (k, 0, v) :: lg1 ++ lg2)
  end.

(* everything stored in the cache *)
Definition stored (c : lfu V) : list (key * V) := flat_map (@items V) (buckets c).

(* the value computed for a key is a function of the key (along the path the run takes) *)
Fixpoint consistent (spec : key -> V) (p : prog) : Prop :=
  match p with
  | Ret _ => True
  | Call k body cont => consistent spec body /\ run_pure body = spec k /\ consistent spec (cont (spec k))
  end.
Definition cache_ok (spec : key -> V) (c : lfu V) : Prop :=
  forall k v, In (k, v) (stored c) -> v = spec k.

End Memo.
Arguments Ret {V} v.
Arguments Call {V} k body cont.
Arguments run_pure {V} p.
Arguments run_cached {V} sched p s.
Arguments mkM {V} mcache mclock.
Arguments mcache {V} m.
Arguments mclock {V} m.
Arguments stored {V} c.
Arguments consistent {V} spec p.
Arguments cache_ok {V} spec c.

(** Correspondence-side evaluation of a session of runs sharing one hashes table.
    No theorem depends on this file. *)
From Coq Require Import List ZArith NArith Bool Arith String.
Import ListNotations.
From DD Require Import Base.Sx Base.PyStr Base.Value Diff.Tree Diff.DiffModel Diff.DiffShow Hash.HashModel
  DiffIO.DiffIOModel DiffIO.DiffIOShow DiffIO.DiffIOMemo DiffIO.MemoHashes.

(* one request: (report_repetition, recorded pairings, t1, t2) *)
Definition sreq := (bool * list (path * list (nat * nat)) * value * value)%type.
Definition req_of (q : sreq) : req :=
  let '(rep, ps, t1, t2) := q in mkReq rep (tbl_pairs ps) t1 t2.

(* DeepDiff(t1, t2, ignore_order=True, report_repetition=rep, hashes=table, view='tree') for every request,
   the same dictionary [table] (empty at first) passed every time: the list of results *)
Definition run_session_m (ud : list (pystr * pystr * pystr)) (c : cfg) (qs : list sreq) : sx :=
  SL (map sx_io (fst (session hexhash (tbl_udiff ud) no_paths no_paths c [] (map req_of qs)))).

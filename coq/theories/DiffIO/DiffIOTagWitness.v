(** K1 seen through the knob clause (memo-free model [run_diff_io] and table model [run_diff_io_m], by evaluation;
    replayed on the implementation by c05.py).

    [{'NONE'}] vs [{None, 'NONE'}] with report_repetition=True.  DeepHash runs with ignore_repetition=False, so
    _prep_iterable counts the member hashes of the set items; None and 'NONE' have ONE hash (K1), hence
    {None,'NONE'} is 'set:h|2', {'NONE'} is 'set:h|1': the two items hash differently and are reported as added /
    removed when no pairs are computed (max_passes=0, cutoff_intersection_for_pairs=0).  When the pairing hands them
    to the recursive diff, _diff_set compares the SETS of member hashes and finds nothing: {} with the default
    knobs.  So outside [tag_safe] not even knob independence holds (inside it: C05_knob_independence).  With
    report_repetition=False the counts are dropped, the items hash equally and the result is {} for every oracle. *)
From Coq Require Import String.
From Coq Require Import List ZArith NArith Bool Arith.
Import ListNotations.
From DD Require Import Base.PyStr Base.Value Diff.Tree Diff.DiffModel Hash.HashModel
  DiffIO.DiffIOModel DiffIO.DiffIOProofs DiffIO.DiffIOMemo.

Definition w_none : atom := AStr (s2p "NONE").

Theorem tag_collision_knob_refuted :
  forall udiff,
  let t1 := VList [VSet [w_none]] in
  let t2 := VList [VSet [ANone; w_none]] in
  wf t1 = true /\ wf t2 = true /\ alias_free2 t1 t2 = true /\ tag_safe t1 = false /\
  run_diff_io hexhash udiff no_skip no_skip cfg_default true (fun _ => [(0, 0)]%nat) t1 t2 = ([], []) /\
  fst (run_diff_io hexhash udiff no_skip no_skip cfg_default true (fun _ => []) t1 t2) <> [] /\
  fst (run_diff_io_m hexhash udiff no_skip no_skip cfg_default true (fun _ => [(0, 0)]%nat) t1 t2) = ([], []) /\
  fst (fst (run_diff_io_m hexhash udiff no_skip no_skip cfg_default true (fun _ => []) t1 t2)) <> [] /\
  (forall pairs, run_diff_io hexhash udiff no_skip no_skip cfg_default false pairs t1 t2 = ([], [])).
Proof.
  intros udiff t1 t2. do 4 (split; [reflexivity|]).
  split; [vm_compute; reflexivity|]. split; [vm_compute; discriminate|].
  split; [vm_compute; reflexivity|]. split; [vm_compute; discriminate|].
  intros pairs. vm_compute. reflexivity.
Qed.

(** C17 source tie: hand-written models of the parts of diff.py's caching glue that MemoModel.v leaves
    abstract - the TEXT of the two cache keys and the auto-tuner that drives DISTANCE_CACHE_ENABLED.
    Definitions only.  (The generated counterparts: DDGen.CacheGen, harness/translate/cacheglue.py.) *)
From Coq Require Import List ZArith Bool Arith String.
Import ListNotations.
From DD Require Import Base.PyStr Lfu.LfuModel DiffIO.MemoModel DiffIO.MemoSrcPrims.
Local Open Scope Z_scope.

Section KeyText.
Variable A : Type.
Variable hash_bytes : A -> pystr.              (* a hash as bytes: hex(h).encode() / h.encode() *)
Variable key_of_bytes key_of_str : pystr -> key.   (* the enumeration of the real keys *)
Variable str_of : A -> pystr.                  (* str(h) *)
Variable hasher : pystr -> pystr.              (* sha256hex *)

(* _get_distance_cache_key after the sorting: key1 + b'--' + key2 + b'dc' *)
Definition okey_text (k1 k2 : A) : key :=
  key_of_bytes (((hash_bytes k1 ++ s2p "--") ++ hash_bytes k2) ++ s2p "dc")%list.

(* combine_hashes_lists: one item's contribution, ''.join(map(str, item)) + '--' (the item already sorted) *)
Definition hashes_text (l : list A) : pystr := (join (s2p "") (map str_of l) ++ s2p "--")%list.
Definition combine_model (srt : list A -> list A) (items : list (list A)) (prefix : pystr) : key :=
  key_of_str (prefix ++ hasher (List.concat (map (fun it => hashes_text (srt it)) items)))%list.
(* the pairs key on two already sorted lists: MemoPairs' [pk] *)
Definition pk_text (prefix : pystr) (l l' : list A) : key :=
  key_of_str (prefix ++ hasher (hashes_text l ++ hashes_text l'))%list.
End KeyText.

(* ---- the auto-tuner (diff.py _auto_off_cache / _auto_tune_cache) on MemoSrcPrims.tstats; None = ZeroDivisionError ---- *)
(* a / b < p / q for b <> 0, q > 0 *)
Definition ratio_lt (p q a b : Z) : bool := if 0 <? b then a * q <? p * b else p * b <? a * q.

Definition auto_off (t : tstats) : option tstats :=
  if st_enabled t then
    if st_diff_count t - st_prev_diff_count t =? 0 then None
    else Some (if ratio_lt 1 4 (st_hit_count t - st_prev_hit_count t) (st_diff_count t - st_prev_diff_count t)
               then with_enabled t false else t)
  else Some t.

Definition take_prev (t : tstats) : tstats :=
  with_prev_hit_count (with_prev_diff_count t (st_diff_count t)) (st_hit_count t).

Definition auto_tune (n : Z) (t : tstats) : option tstats :=
  if n =? 0 then None else
  let sample := st_diff_count t mod n =? 0 in
  let r := if st_enabled t then (if sample then auto_off t else Some t)
           else if st_enable_every t =? 0 then None
           else Some (if st_diff_count t mod st_enable_every t =? 0
                      then with_enabled (with_enable_every t (st_enable_every t * 10)) true else t) in
  match r with None => None | Some t' => Some (if sample then take_prev t' else t') end.

(* __init__: LFUCache(cache_size) if cache_size else DummyLFU(); DISTANCE_CACHE_ENABLED: bool(cache_size) *)
Definition init_cache_capacity (cache_size : nat) : option nat :=
  match cache_size with O => None | S _ => Some cache_size end.
Definition init_enabled (cache_size : nat) : bool := match cache_size with O => false | S _ => true end.

(* cache_purge_level: accepted values; what the `finally:` of __init__ deletes once the result is built *)
Definition purge_level_accepted (level : nat) : bool := Nat.leb level 2.
Definition purge_deletes_cache (level : nat) : bool := match level with O => false | S _ => true end.
Definition purge_clears_object (level : nat) : bool := Nat.eqb level 2.

(* a run written with the HASHES of its memoised calls (what the two methods receive), to be evaluated with any
   implementation of the two methods *)
Section HProg.
Variables A V : Type.
Inductive hprog : Type :=
| HRet (v : V)
| HDist (added removed : A) (body : hprog) (cont : V -> hprog)
| HPairs (adds rems : list A) (body : hprog) (cont : V -> hprog).

Fixpoint to_prog (dkey : A -> A -> key) (pkey : list A -> list A -> key) (p : hprog) : prog V :=
  match p with
  | HRet v => Ret v
  | HDist a r body cont => Call (dkey a r) (to_prog dkey pkey body) (fun v => to_prog dkey pkey (cont v))
  | HPairs l l' body cont => Call (pkey l l') (to_prog dkey pkey body) (fun v => to_prog dkey pkey (cont v))
  end.

Fixpoint hrun (fdist : A -> A -> (mstate V -> V * mstate V) -> mstate V -> V * mstate V)
              (fpairs : list A -> list A -> (mstate V -> V * mstate V) -> mstate V -> V * mstate V)
              (p : hprog) (s : mstate V) : V * mstate V :=
  match p with
  | HRet v => (v, s)
  | HDist a r body cont => let '(v, s1) := fdist a r (hrun fdist fpairs body) s in hrun fdist fpairs (cont v) s1
  | HPairs l l' body cont => let '(v, s1) := fpairs l l' (hrun fdist fpairs body) s in hrun fdist fpairs (cont v) s1
  end.
End HProg.
Arguments HRet {A V} v.
Arguments HDist {A V} added removed body cont.
Arguments HPairs {A V} adds rems body cont.

(** The cache-less traversal [diff_io_o] (children of a dict in the order of t2's keys, as the
    code visits them) and [diff_io] (order of t1's keys) list the same entries: Permutation,
    for well-formed inputs. *)
From Coq Require Import List ZArith NArith Bool Arith Lia Permutation.
Import ListNotations.
From DD Require Import Base.PyStr Base.Value Base.ValueFacts Diff.Tree Diff.DiffModel Hash.HashModel Hash.HashProofsC06
  Lfu.LfuModel DiffIO.DiffIOModel DiffIO.DiffIOProofs DiffIO.MemoModel DiffIO.DiffIOCache.

Definition PermRes (a b : res) : Prop := Permutation (fst a) (fst b) /\ Permutation (snd a) (snd b).
Lemma PermRes_refl a : PermRes a a.
Proof. split; apply Permutation_refl. Qed.
Lemma PermRes_app2 a a' b b' : PermRes a a' -> PermRes b b' -> PermRes (app2 a b) (app2 a' b').
Proof. intros [A1 A2] [B1 B2]. split; cbn; apply Permutation_app; auto. Qed.
Lemma PermRes_trans a b c : PermRes a b -> PermRes b c -> PermRes a c.
Proof. intros [A1 A2] [B1 B2]. split; eapply perm_trans; eauto. Qed.

Section Order.
Variable H : pystr -> pystr.
Variable udiff : pystr -> pystr -> pystr.
Variable skip excl : path -> bool.
Variable c : cfg.
Variable rep : bool.
Variable pairs : path -> list (nat * nat).

Notation V0 := (list (nat * nat)).
Notation dio := (diff_io H udiff skip excl c rep pairs).
Notation st0 := (diff_io_st H udiff skip excl c rep V0 (fun _ => false) (fun p => Ret (pairs p)) (fun _ v => v)).

Definition RelP (a0 : M V0) (r : res) : Prop := forall s0, PermRes (fst (fst (a0 s0))) r.

Lemma RelP_ret r : RelP (mret V0 r) r.
Proof. intros s0. apply PermRes_refl. Qed.
Lemma RelP_app a0 b0 ra rb : RelP a0 ra -> RelP b0 rb -> RelP (mapp V0 a0 b0) (app2 ra rb).
Proof.
  intros Ha Hb s0. unfold mapp. specialize (Ha s0). destruct (a0 s0) as [[r1 s1] l1].
  specialize (Hb s1). destruct (b0 s1) as [[r2 s2] l2]. cbn [fst snd] in *. apply PermRes_app2; auto.
Qed.

Definition RelRecP (f0 : rec_st V0) (f : rec_fn) : Prop := forall y q1 q2, wf y = true -> RelP (f0 y q1 q2) (f y q1 q2).

Lemma RelP_nth recs0 recs i : Forall2 RelRecP recs0 recs -> RelRecP (nth_rec_st V0 recs0 i) (nth_rec recs i).
Proof.
  intro HF. revert i. induction HF as [|f0 f l0 l Hf HF IH]; intros [|i]; cbn [nth_rec_st nth_rec nth].
  - intros y q1 q2 _. apply RelP_ret.
  - intros y q1 q2 _. apply RelP_ret.
  - exact Hf.
  - apply IH.
Qed.

Section Level.
Variables (recs0 : list (rec_st V0)) (recs : list rec_fn).
Hypothesis Hrecs : Forall2 RelRecP recs0 recs.
Variables (xs ys : list value) (p1 p2 : path).
Hypothesis Hys : forall y, In y ys -> wf y = true.
Notation ps := (pairs p1).

Lemma item2_wf j y : item2 ys j = Some y -> wf y = true.
Proof. unfold item2. intro E. apply Hys. eapply nth_error_In; eauto. Qed.

Lemma added_one_relp a rem :
  RelP (fst (added_one_st H skip c rep V0 recs0 xs ys p1 p2 ps a rem)) (fst (added_one H skip c rep pairs recs xs ys p1 p2 a rem)) /\
  snd (added_one_st H skip c rep V0 recs0 xs ys p1 p2 ps a rem) = snd (added_one H skip c rep pairs recs xs ys p1 p2 a rem).
Proof.
  unfold added_one_st, added_one.
  change (partner H c rep (fun _ => ps) xs ys p1 a rem) with (partner H c rep pairs xs ys p1 a rem).
  destruct (partner H c rep pairs xs ys p1 a rem); cbn [fst snd].
  - split; [|reflexivity]. destruct (item2 ys _) eqn:E; [|apply RelP_ret].
    apply RelP_nth; [exact Hrecs|]. eapply item2_wf; eauto.
  - split; [apply RelP_ret|reflexivity].
Qed.

Lemma added_one_rep_relp a rem :
  RelP (fst (added_one_rep_st H skip c rep V0 recs0 xs ys p1 p2 ps a rem)) (fst (added_one_rep H skip c rep pairs recs xs ys p1 p2 a rem)) /\
  snd (added_one_rep_st H skip c rep V0 recs0 xs ys p1 p2 ps a rem) = snd (added_one_rep H skip c rep pairs recs xs ys p1 p2 a rem).
Proof.
  unfold added_one_rep_st, added_one_rep.
  change (partner H c rep (fun _ => ps) xs ys p1 a rem) with (partner H c rep pairs xs ys p1 a rem).
  destruct (partner H c rep pairs xs ys p1 a rem) as [r|]; cbn [fst snd].
  - split; [|reflexivity]. destruct (item2 ys _) as [y|] eqn:E; [|apply RelP_ret].
    pose proof (item2_wf _ _ E) as Wy.
    remember (first_of (indexes_of r (h1 H c rep xs) 0)) as i0 eqn:Ei0. clear Ei0.
    induction (indexes_of r (h1 H c rep xs) 0) as [|i is_ IH]; cbn [fold_right]; [apply RelP_ret|].
    apply RelP_app; [apply RelP_nth; auto|exact IH].
  - split; [apply RelP_ret|reflexivity].
Qed.

Lemma added_loop_relp one0 one adds rem :
  (forall a r, RelP (fst (one0 a r)) (fst (one a r)) /\ snd (one0 a r) = snd (one a r)) ->
  RelP (fst (added_loop_st V0 one0 adds rem)) (fst (added_loop one adds rem)) /\
  snd (added_loop_st V0 one0 adds rem) = snd (added_loop one adds rem).
Proof.
  intro Ho. revert rem. induction adds as [|a adds IH]; intros rem; cbn [added_loop_st added_loop].
  - split; [apply RelP_ret|reflexivity].
  - destruct (Ho a rem) as [R1 E1]. destruct (one0 a rem) as [m01 rem01]. destruct (one a rem) as [r1 rem1].
    cbn [fst snd] in *. subst rem01.
    destruct (IH rem1) as [R2 E2].
    destruct (added_loop_st V0 one0 adds rem1) as [m02 rem02]. destruct (added_loop one adds rem1) as [r2 rem2].
    cbn [fst snd] in *. subst. split; [apply RelP_app; assumption|reflexivity].
Qed.

Lemma iter_relp :
  RelP (iter_st H skip c rep V0 (fun _ => false) (fun p => Ret (pairs p)) (fun _ v => v) recs0 xs ys p1 p2)
       (iter_deephash H skip c rep pairs recs xs ys p1 p2).
Proof.
  intros s0. unfold iter_st. cbn [run_cached].
  assert (Rb : forall b : bool,
    RelP (if b then iter_rep_st H skip c rep V0 recs0 xs ys p1 p2 ps else iter_norep_st H skip c rep V0 recs0 xs ys p1 p2 ps)
         (if b then iter_rep H skip c rep pairs recs xs ys p1 p2 else iter_norep H skip c rep pairs recs xs ys p1 p2)).
  { intros [|].
    - unfold iter_rep_st, iter_rep.
      destruct (added_loop_relp (added_one_rep_st H skip c rep V0 recs0 xs ys p1 p2 ps) (added_one_rep H skip c rep pairs recs xs ys p1 p2)
                  (hashes_added H c rep xs ys) (hashes_removed H c rep xs ys) added_one_rep_relp) as [R E].
      destruct (added_loop_st V0 _ _ _) as [ma0 rem0]. destruct (added_loop _ _ _) as [ra rem]. cbn [fst snd] in *. subst.
      apply RelP_app; [exact R|apply RelP_ret].
    - unfold iter_norep_st, iter_norep.
      destruct (added_loop_relp (added_one_st H skip c rep V0 recs0 xs ys p1 p2 ps) (added_one H skip c rep pairs recs xs ys p1 p2)
                  (hashes_added H c rep xs ys) (hashes_removed H c rep xs ys) added_one_relp) as [R E].
      destruct (added_loop_st V0 _ _ _) as [ma0 rem0]. destruct (added_loop _ _ _) as [ra rem]. cbn [fst snd] in *. subst.
      apply RelP_app; [exact R|apply RelP_ret]. }
  specialize (Rb rep s0). unfold iter_deephash.
  set (mB := if rep then iter_rep_st H skip c rep V0 recs0 xs ys p1 p2 ps else iter_norep_st H skip c rep V0 recs0 xs ys p1 p2 ps) in *.
  destruct (mB s0) as [[r s1] lg]. cbn [fst snd] in *. exact Rb.
Qed.
End Level.

(* ---- dicts: the same (key of t2, value of t1, value of t2) matches, found from either side ---- *)
Notation triple := (atom * value * value)%type.
Definition findkv (k' : atom) (kvs1 : list (atom * value)) : option (atom * value) :=
  find (fun kv => keep_key c (fst kv) && py_eq (fst kv) k') kvs1.
Definition matches1 (kvs2 : list (atom * value)) (k2 : list atom) (l : list (atom * value)) : list triple :=
  flat_map (fun kv => if keep_key c (fst kv) then
                        match find (py_eq (fst kv)) k2 with
                        | Some k' => match assoc k' kvs2 with Some v2 => [(k', snd kv, v2)] | None => [] end
                        | None => []
                        end else []) l.
Definition matches2 (kvs1 kvs2 : list (atom * value)) (k1 : list atom) (keys2 : list atom) : list triple :=
  flat_map (fun k' => if mem_atom k' k1 then
                        match findkv k' kvs1, assoc k' kvs2 with
                        | Some kv, Some v2 => [(k', snd kv, v2)]
                        | _, _ => []
                        end else []) keys2.

Lemma concat_res_app l l' : concat_res (l ++ l') = app2 (concat_res l) (concat_res l').
Proof.
  unfold concat_res. induction l as [|x r IH]; cbn [app fold_right].
  - destruct (fold_right app2 ([], []) l') as [a b]. reflexivity.
  - rewrite IH. destruct x as [a b]. destruct (fold_right app2 ([], []) r) as [a1 b1]. destruct (fold_right app2 ([], []) l') as [a2 b2].
    unfold app2. cbn [fst snd]. rewrite !app_assoc. reflexivity.
Qed.

Lemma concat_res_perm {X} (g : X -> res) l l' : Permutation l l' -> PermRes (concat_res (map g l)) (concat_res (map g l')).
Proof.
  induction 1 as [|x l l' Hp IH|x y l|l l' l'' H1 IH1 H2 IH2]; cbn [map].
  - apply PermRes_refl.
  - change (concat_res (g x :: map g l)) with (app2 (g x) (concat_res (map g l))).
    change (concat_res (g x :: map g l')) with (app2 (g x) (concat_res (map g l'))).
    apply PermRes_app2; [apply PermRes_refl|exact IH].
  - change (concat_res (g y :: g x :: map g l)) with (app2 (g y) (app2 (g x) (concat_res (map g l)))).
    change (concat_res (g x :: g y :: map g l)) with (app2 (g x) (app2 (g y) (concat_res (map g l)))).
    split; cbn [app2 fst snd]; rewrite !app_assoc; apply Permutation_app_tail, Permutation_app_comm.
  - eapply PermRes_trans; eauto.
Qed.

(* the common keys as [diff_io] walks them *)
Definition io_common_g (kvs2 : list (atom * value)) (k2 : list atom) (p1 p2 : path) :=
  fix go (l : list (atom * value)) : res :=
    match l with
    | [] => ([], [])
    | (k, v1) :: r =>
        let rest := go r in
        if keep_key c k then
          match find (py_eq k) k2 with
          | Some k' =>
              match assoc k' kvs2 with
              | Some v2 => app2 (dio v1 v2 (snoc p1 (PKey k')) (snoc p2 (PKey k'))) rest
              | None => rest
              end
          | None => rest
          end
        else rest
    end.
Definition Dp (p1 p2 : path) (t : triple) : res :=
  dio (snd (fst t)) (snd t) (snoc p1 (PKey (fst (fst t)))) (snoc p2 (PKey (fst (fst t)))).

Lemma io_common_matches kvs2 k2 p1 p2 l :
  io_common_g kvs2 k2 p1 p2 l = concat_res (map (Dp p1 p2) (matches1 kvs2 k2 l)).
Proof.
  induction l as [|[k v1] r IH]; cbn [io_common_g matches1 flat_map]; [reflexivity|].
  fold (io_common_g kvs2 k2 p1 p2 r). fold (matches1 kvs2 k2 r). rewrite IH. cbn [fst snd].
  destruct (keep_key c k); [|reflexivity].
  destruct (find (py_eq k) k2) as [k'|]; [|reflexivity].
  destruct (assoc k' kvs2) as [v2|]; reflexivity.
Qed.

Lemma find_rec_map k' kvs1 :
  find_rec c V0 k' (map (fun kv => (fst kv, st0 (snd kv))) kvs1) =
  match findkv k' kvs1 with Some kv => Some (st0 (snd kv)) | None => None end.
Proof.
  unfold find_rec, findkv. induction kvs1 as [|[k v] r IH]; cbn [map find fst snd]; [reflexivity|].
  destruct (keep_key c k && py_eq k k'); [reflexivity|exact IH].
Qed.

Lemma common_st_matches kvs1 kvs2 k1 p1 p2 keys2 :
  (forall k v1, In (k, v1) kvs1 -> RelRecP (st0 v1) (dio v1)) ->
  (forall k v2, In (k, v2) kvs2 -> wf v2 = true) ->
  RelP (common_st c V0 (map (fun kv => (fst kv, st0 (snd kv))) kvs1) k1 kvs2 p1 p2 keys2)
       (concat_res (map (Dp p1 p2) (matches2 kvs1 kvs2 k1 keys2))).
Proof.
  intros Hrec Hw. induction keys2 as [|k' r IH]; cbn [common_st matches2 flat_map]; [apply RelP_ret|].
  fold (matches2 kvs1 kvs2 k1 r).
  destruct (mem_atom k' k1); [|exact IH].
  rewrite find_rec_map. destruct (findkv k' kvs1) as [[k v1]|] eqn:Ef; [|exact IH].
  destruct (assoc k' kvs2) as [v2|] eqn:Ea; [|exact IH].
  cbn [app map snd]. change (concat_res (Dp p1 p2 (k', v1, v2) :: map (Dp p1 p2) (matches2 kvs1 kvs2 k1 r)))
    with (app2 (Dp p1 p2 (k', v1, v2)) (concat_res (map (Dp p1 p2) (matches2 kvs1 kvs2 k1 r)))).
  apply RelP_app; [|exact IH].
  unfold Dp. cbn [fst snd]. apply find_some in Ef as [Hin _].
  apply (Hrec k v1 Hin). apply assoc_In in Ea as [k'' [Hin2 _]]. eapply Hw; eauto.
Qed.

(* uniqueness of ==-matches in lists without ==-duplicates *)
Lemma findkv_unique kvs1 k v1 k' :
  nodup_atoms (map fst kvs1) = true -> In (k, v1) kvs1 -> keep_key c k = true -> py_eq k k' = true ->
  findkv k' kvs1 = Some (k, v1).
Proof.
  unfold findkv. induction kvs1 as [|[x w] r IH]; cbn [map fst nodup_atoms find]; [intros _ []|].
  intros Hn Hin Hk He. apply andb_true_iff in Hn as [Hx Hr].
  destruct Hin as [E|Hin].
  - inversion E; subst. cbn [fst]. rewrite Hk, He. reflexivity.
  - cbn [fst]. destruct (keep_key c x && py_eq x k') eqn:Ex; [|apply IH; auto].
    exfalso. apply andb_true_iff in Ex as [_ Ex]. apply negb_true_iff in Hx.
    assert (mem_atom x (map fst r) = true); [|congruence].
    apply mem_atom_In. exists k. split; [apply in_map_iff; exists (k, v1); auto|].
    eapply py_eq_trans; [exact Ex|]. rewrite py_eq_sym. exact He.
Qed.
Lemma find_unique l k k' : nodup_atoms l = true -> In k' l -> py_eq k k' = true -> find (py_eq k) l = Some k'.
Proof.
  induction l as [|x r IH]; cbn [nodup_atoms find]; [intros _ []|].
  intros Hn Hin He. apply andb_true_iff in Hn as [Hx Hr].
  destruct Hin as [->|Hin]; [rewrite He; reflexivity|].
  destruct (py_eq k x) eqn:Ex; [|apply IH; auto].
  exfalso. apply negb_true_iff in Hx. assert (mem_atom x r = true); [|congruence].
  apply mem_atom_In. exists k'. split; auto. eapply py_eq_trans; [rewrite py_eq_sym; exact Ex|exact He].
Qed.

Lemma in_matches1 kvs2 k2 l t :
  In t (matches1 kvs2 k2 l) <->
  exists k, In (k, snd (fst t)) l /\ keep_key c k = true /\ find (py_eq k) k2 = Some (fst (fst t)) /\ assoc (fst (fst t)) kvs2 = Some (snd t).
Proof.
  unfold matches1. rewrite in_flat_map. split.
  - intros [[k v1] [Hin Ht]]. cbn [fst snd] in Ht.
    destruct (keep_key c k) eqn:Ek; [|destruct Ht].
    destruct (find (py_eq k) k2) as [k'|] eqn:Ef; [|destruct Ht].
    destruct (assoc k' kvs2) as [v2|] eqn:Ea; [|destruct Ht].
    destruct Ht as [<-|[]]. cbn [fst snd]. exists k. auto.
  - intros [k [Hin [Ek [Ef Ea]]]]. exists (k, snd (fst t)). split; auto. cbn [fst snd]. rewrite Ek, Ef, Ea.
    left. destruct t as [[a b] d]. reflexivity.
Qed.
Lemma in_matches2 kvs1 kvs2 k1 keys2 t :
  In t (matches2 kvs1 kvs2 k1 keys2) <->
  In (fst (fst t)) keys2 /\ mem_atom (fst (fst t)) k1 = true /\
  (exists k, findkv (fst (fst t)) kvs1 = Some (k, snd (fst t))) /\ assoc (fst (fst t)) kvs2 = Some (snd t).
Proof.
  unfold matches2. rewrite in_flat_map. split.
  - intros [k' [Hin Ht]].
    destruct (mem_atom k' k1) eqn:Em; [|destruct Ht].
    destruct (findkv k' kvs1) as [[k v1]|] eqn:Ef; [|destruct Ht].
    destruct (assoc k' kvs2) as [v2|] eqn:Ea; [|destruct Ht].
    destruct Ht as [<-|[]]. cbn [fst snd]. repeat split; eauto.
  - intros [Hin [Em [[k Ef] Ea]]]. exists (fst (fst t)). split; auto. rewrite Em, Ef, Ea.
    left. destruct t as [[a b] d]. reflexivity.
Qed.

Lemma keys_of_In k kvs : In k (keys_of c kvs) <-> In k (map fst kvs) /\ keep_key c k = true.
Proof. unfold keys_of. apply filter_In. Qed.

Lemma matches_same kvs1 kvs2 t :
  nodup_atoms (map fst kvs1) = true -> nodup_atoms (map fst kvs2) = true ->
  (In t (matches2 kvs1 kvs2 (keys_of c kvs1) (keys_of c kvs2)) <-> In t (matches1 kvs2 (keys_of c kvs2) kvs1)).
Proof.
  intros N1 N2. rewrite in_matches1, in_matches2. destruct t as [[k' v1] v2]. cbn [fst snd]. split.
  - intros [Hin [Em [[k Ef] Ea]]]. exists k.
    apply find_some in Ef as [Hin1 Hc]. cbn [fst] in Hc. apply andb_true_iff in Hc as [Hk He].
    repeat split; auto. apply find_unique; auto. unfold keys_of. apply nodup_filter. exact N2.
  - intros [k [Hin [Hk [Ef Ea]]]].
    apply find_some in Ef as [Hin2 He].
    repeat split; auto.
    + apply mem_atom_In. exists k. split; [|rewrite py_eq_sym; exact He].
      apply keys_of_In. split; auto. apply in_map_iff. exists (k, v1). auto.
    + exists k. apply findkv_unique; auto.
Qed.

Lemma NoDup_matches2 kvs1 kvs2 k1 keys2 : NoDup keys2 -> NoDup (matches2 kvs1 kvs2 k1 keys2).
Proof.
  induction 1 as [|k' r Hnin Hnd IH]; cbn [matches2 flat_map]; [constructor|].
  fold (matches2 kvs1 kvs2 k1 r).
  destruct (mem_atom k' k1); [|exact IH].
  destruct (findkv k' kvs1) as [kv|]; [|exact IH]. destruct (assoc k' kvs2) as [v2|]; [|exact IH].
  cbn [app]. constructor; [|exact IH]. intro Hin. apply in_matches2 in Hin as [Hin _]. cbn [fst] in Hin. contradiction.
Qed.
Lemma NoDup_matches1 kvs2 k2 l : nodup_atoms (map fst l) = true -> NoDup (matches1 kvs2 k2 l).
Proof.
  induction l as [|[k v1] r IH]; cbn [map fst nodup_atoms matches1 flat_map]; [constructor|].
  fold (matches1 kvs2 k2 r). intro Hn. apply andb_true_iff in Hn as [Hx Hr].
  destruct (keep_key c k); [|apply IH; exact Hr].
  destruct (find (py_eq k) k2) as [k'|] eqn:Ef; [|apply IH; exact Hr].
  destruct (assoc k' kvs2) as [v2|]; [|apply IH; exact Hr].
  cbn [app]. constructor; [|apply IH; exact Hr].
  intro Hin. apply in_matches1 in Hin as [k0 [Hin0 [_ [Ef0 _]]]]. cbn [fst snd] in *.
  apply find_some in Ef as [_ E1]. apply find_some in Ef0 as [_ E0].
  apply negb_true_iff in Hx. assert (mem_atom k (map fst r) = true); [|congruence].
  apply mem_atom_In. exists k0. split; [apply in_map_iff; exists (k0, v1); auto|].
  eapply py_eq_trans; [exact E1|rewrite py_eq_sym; exact E0].
Qed.

Lemma recs_map_st (kvs1 : list (atom * value)) :
  (fix go (l : list (atom * value)) : list (atom * rec_st V0) :=
     match l with [] => [] | (k, v1) :: r => (k, st0 v1) :: go r end) kvs1 =
  map (fun kv => (fst kv, st0 (snd kv))) kvs1.
Proof. induction kvs1 as [|[k v] r IH]; cbn [map fst snd]; [reflexivity|]. rewrite IH. reflexivity. Qed.
Lemma recs_map_st_list (xs : list value) :
  (fix go (l : list value) : list (rec_st V0) := match l with [] => [] | x :: r => st0 x :: go r end) xs = map st0 xs.
Proof. induction xs as [|x r IH]; cbn [map]; [reflexivity|]. rewrite IH. reflexivity. Qed.
Lemma recs_map_dio (xs : list value) :
  (fix go (l : list value) : list rec_fn := match l with [] => [] | x :: r => dio x :: go r end) xs = map dio xs.
Proof. induction xs as [|x r IH]; cbn [map]; [reflexivity|]. rewrite IH. reflexivity. Qed.

Theorem order_rel : forall t1 t2 p1 p2, wf t1 = true -> wf t2 = true -> RelP (st0 t1 t2 p1 p2) (dio t1 t2 p1 p2).
Proof.
  intros t1. induction t1 as [a|xs IH|xs IH|kvs IH|xs|xs] using HashProofsC06.value_ind'; intros t2 p1 p2 W1 W2.
  - cbn [diff_io_st diff_io]. destruct (skip p1); [apply RelP_ret|]. destruct (negb _); [apply RelP_ret|].
    destruct t2; apply RelP_ret.
  - cbn [diff_io_st diff_io]. destruct (skip p1); [apply RelP_ret|]. destruct (negb _); [apply RelP_ret|].
    destruct t2; try apply RelP_ret. rewrite recs_map_st_list, recs_map_dio. apply iter_relp.
    + assert (Hw : forall x, In x xs -> wf x = true) by (intros x Hx; exact (wf_item_list x xs W1 Hx)).
      clear W1. induction IH as [|x l Hx Hl IHl]; cbn [map]; constructor.
      * intros y q1 q2 Wy. apply Hx; auto. apply Hw. left; reflexivity.
      * apply IHl. intros; apply Hw; right; auto.
    + intros y Hy. exact (wf_item_list y _ W2 Hy).
  - cbn [diff_io_st diff_io]. destruct (skip p1); [apply RelP_ret|]. destruct (negb _); [apply RelP_ret|].
    destruct t2; try apply RelP_ret. rewrite recs_map_st_list, recs_map_dio. apply iter_relp.
    + assert (Hw : forall x, In x xs -> wf x = true) by (intros x Hx; exact (wf_item_tuple x xs W1 Hx)).
      clear W1. induction IH as [|x l Hx Hl IHl]; cbn [map]; constructor.
      * intros y q1 q2 Wy. apply Hx; auto. apply Hw. left; reflexivity.
      * apply IHl. intros; apply Hw; right; auto.
    + intros y Hy. exact (wf_item_tuple y _ W2 Hy).
  - cbn [diff_io_st diff_io]. destruct (skip p1); [apply RelP_ret|]. destruct (negb _); [apply RelP_ret|].
    destruct t2 as [|?|?|kvs2|?|?]; try apply RelP_ret.
    destruct (dict_shortcut _ _ _ _ _); [apply RelP_ret|].
    rewrite recs_map_st.
    cbn [wf] in W1, W2. apply andb_true_iff in W1 as [N1 Wv1]. apply andb_true_iff in W2 as [N2 Wv2].
    rewrite forallb_forall in Wv1, Wv2.
    fold (io_common_g kvs2 (keys_of c kvs2) p1 p2 kvs).
    set (added := flat_map _ (keys_of c kvs2)). set (removed := flat_map _ (keys_of c kvs)).
    intros s0.
    assert (Hc : RelP (common_st c V0 (map (fun kv => (fst kv, st0 (snd kv))) kvs) (keys_of c kvs) kvs2 p1 p2 (keys_of c kvs2))
                      (io_common_g kvs2 (keys_of c kvs2) p1 p2 kvs)).
    { intros s1. rewrite io_common_matches.
      eapply PermRes_trans.
      - apply common_st_matches.
        + intros k v1 Hin y q1 q2 Wy. rewrite Forall_forall in IH. apply (IH (k, v1) Hin); auto; try (apply (Wv1 (k, v1) Hin)).
        + intros k v2 Hin. apply (Wv2 (k, v2) Hin).
      - apply concat_res_perm. apply NoDup_Permutation.
        + apply NoDup_matches2. apply nodup_NoDup. unfold keys_of. apply nodup_filter. exact N2.
        + apply NoDup_matches1. exact N1.
        + intro t. apply matches_same; auto. }
    pose proof (RelP_app _ _ _ _ (RelP_ret ((added ++ removed)%list, [])) Hc s0) as R.
    destruct R as [R1 R2]. split.
    + eapply perm_trans; [exact R1|]. cbn [app2 fst snd]. rewrite app_assoc. apply Permutation_refl.
    + eapply perm_trans; [exact R2|]. cbn [app2 fst snd]. apply Permutation_refl.
  - cbn [diff_io_st diff_io]. destruct (skip p1); [apply RelP_ret|]. destruct (negb _); [apply RelP_ret|].
    destruct t2; apply RelP_ret.
  - cbn [diff_io_st diff_io]. destruct (skip p1); [apply RelP_ret|]. destruct (negb _); [apply RelP_ret|].
    destruct t2; apply RelP_ret.
Qed.
End Order.

(* [diff_io_o] and [diff_io] list the same entries (and the same repetition records) *)
Theorem diff_io_o_perm :
  forall (H : pystr -> pystr) udiff skip excl c rep pairs t1 t2 p1 p2,
  wf t1 = true -> wf t2 = true ->
  Permutation (fst (diff_io_o H udiff skip excl c rep pairs t1 t2 p1 p2)) (fst (diff_io H udiff skip excl c rep pairs t1 t2 p1 p2)) /\
  Permutation (snd (diff_io_o H udiff skip excl c rep pairs t1 t2 p1 p2)) (snd (diff_io H udiff skip excl c rep pairs t1 t2 p1 p2)).
Proof.
  intros H udiff skip excl c rep pairs t1 t2 p1 p2 W1 W2.
  exact (order_rel H udiff skip excl c rep pairs t1 t2 p1 p2 W1 W2 (mkM (@empty (list (nat * nat)) 0) 0)).
Qed.

(** C05 / source tie `iopairs`: hand-written bridge between the pairs selection of MemoPairs.v (the hand model of
    [_get_most_in_common_pairs_in_iterables], generic in hashes and distances) and the pairing ORACLE of DiffIOModel.v
    ([pairs : path -> list (nat * nat)], validity predicate [valid_pairs_at]).

    - [trips loop dist adds rems]: the (added, removed, distance) triples the double loop of the code sees, in loop order, for a
      distance table [dist] and a loop-detection oracle [loop];
    - statement-level re-readings of the hand model's loops as [fold_left]s (the form a syntax-directed translation produces)
      and generic fold lemmas;
    - [select_disjoint]: with added and removed hashes disjoint the returned dictionary is the matching followed by its inverse;
    - [idx_pairs]: hash pairs -> index pairs (first occurrence), as the harness builds the oracle from a recorded dictionary;
    - [select_raw_valid_pairs_at]: EVERY result of the selection, for every distance table / cut-off / loop oracle, run on the
      hashes_added / hashes_removed of a level, satisfies [valid_pairs_at];
    - [partner_of_selected]: such a pair is really consulted by the level model ([partner] answers it, it is not "treated as absent").
    Mentions no generated definition. *)
From Coq Require Import List ZArith NArith Bool Arith Lia.
Import ListNotations.
From DD Require Import Base.PyStr Base.Value Diff.Tree Diff.DiffModel Hash.HashModel Hash.HashProofsBase
  DiffIO.DiffIOModel DiffIO.DiffIOProofs DiffIO.MemoPairs DiffIO.MemoPairsProofs.

(* ------------------------------------------------------------------ *)
(** * generic fold facts *)
Lemma fold_left_ext2 (S X : Type) (f g : S -> X -> S) : (forall s x, f s x = g s x) -> forall l s, fold_left f l s = fold_left g l s.
Proof. intros E l. induction l as [|x l IH]; intros s; cbn [fold_left]; [reflexivity|]. rewrite E. apply IH. Qed.

Lemma fold_left_ext_in (S X : Type) (f g : S -> X -> S) l : (forall s x, In x l -> f s x = g s x) -> forall s, fold_left f l s = fold_left g l s.
Proof.
  induction l as [|x l IH]; intros E s; cbn [fold_left]; [reflexivity|].
  rewrite E by (left; reflexivity). apply IH. intros s' y Hy. apply E. right. exact Hy.
Qed.

Lemma fold_left_flat_map (S X Y : Type) (f : S -> Y -> S) (g : X -> list Y) l : forall s,
  fold_left f (flat_map g l) s = fold_left (fun s x => fold_left f (g x) s) l s.
Proof. induction l as [|x l IH]; intros s; cbn [flat_map fold_left]; [reflexivity|]. rewrite fold_left_app. apply IH. Qed.

Lemma fold_left_map (S X Y : Type) (f : S -> Y -> S) (h : X -> Y) l : forall s,
  fold_left f (map h l) s = fold_left (fun s x => f s (h x)) l s.
Proof. induction l as [|x l IH]; intros s; cbn [map fold_left]; [reflexivity|]. apply IH. Qed.

(* simulation of two folds over the same list *)
Lemma fold_left_sim (S1 S2 X : Type) (R : S1 -> S2 -> Prop) (f : S1 -> X -> S1) (g : S2 -> X -> S2) :
  (forall s1 s2 x, R s1 s2 -> R (f s1 x) (g s2 x)) -> forall l s1 s2, R s1 s2 -> R (fold_left f l s1) (fold_left g l s2).
Proof. intros Hs l. induction l as [|x l IH]; intros s1 s2 Hr; cbn [fold_left]; [exact Hr|]. apply IH. apply Hs. exact Hr. Qed.

Definition swap {X Y : Type} (p : X * Y) : Y * X := (snd p, fst p).

(* ------------------------------------------------------------------ *)
(** * the selection, statement level *)
Section Sel.
Variables A D : Type.
Variable aeqb : A -> A -> bool.
Variable dltb deqb : D -> D -> bool.

(* the triples of the double loop  for added in hashes_added: for removed in hashes_removed: [loop detected: continue] ... *)
Definition trips (loop : A -> bool) (dist : A -> A -> D) (adds rems : list A) : list (trip A D) :=
  flat_map (fun a => flat_map (fun r => if loop r then [] else [(a, r, dist a r)]) rems) adds.

Lemma trips_In loop dist adds rems a r d : In (a, r, d) (trips loop dist adds rems) -> In a adds /\ In r rems /\ d = dist a r.
Proof.
  unfold trips. rewrite in_flat_map. intros [a' [Ha Hin]]. apply in_flat_map in Hin as [r' [Hr Hin]].
  destruct (loop r'); [destruct Hin|]. destruct Hin as [E|[]]. inversion E; subst. auto.
Qed.

(* [inner] is a fold *)
Lemma inner_fold tos from : forall st,
  inner A aeqb tos from st =
  fold_left (fun st t => if amem A aeqb t (fst st) then st else (sadd A aeqb t (sadd A aeqb from (fst st)), pset A aeqb from t (snd st))) tos st.
Proof. induction tos as [|t tos IH]; intros st; cbn [inner fold_left]; [reflexivity|]. destruct (amem A aeqb t (fst st)); apply IH. Qed.

Hypothesis aeqb_spec : forall x y, aeqb x y = true <-> x = y.

Lemma aeqb_refl x : aeqb x x = true. Proof. apply aeqb_spec. reflexivity. Qed.

(* dict[k] = v on a dict without the key k appends *)
Lemma pset_fresh k x ps : ~ In k (map fst ps) -> pset A aeqb k x ps = ps ++ [(k, x)].
Proof.
  induction ps as [|[k0 x0] r IH]; cbn [pset map fst app]; intro Hn; [reflexivity|].
  destruct (aeqb k0 k) eqn:E; [apply aeqb_spec in E; subst; exfalso; apply Hn; left; reflexivity|].
  rewrite IH; [reflexivity|]. intro X. apply Hn. right. exact X.
Qed.

(* {v: k for k, v in ps.items()} and ps.update(that) when the values are pairwise different and no value is a key *)
Lemma inverse_fold ps : forall acc, NoDup (map fst acc ++ map snd ps) ->
  fold_left (fun acc kv => pset A aeqb (snd kv) (fst kv) acc) ps acc = acc ++ map swap ps.
Proof.
  induction ps as [|[k x] r IH]; intros acc Hn; cbn [fold_left map fst snd]; [rewrite app_nil_r; reflexivity|].
  cbn [map snd] in Hn. pose proof (NoDup_remove_2 _ _ _ Hn) as Hx. apply NoDup_remove_1 in Hn.
  rewrite pset_fresh by (intro X; apply Hx; apply in_or_app; left; exact X).
  rewrite IH.
  - rewrite <- app_assoc. reflexivity.
  - rewrite map_app, <- app_assoc. cbn [map fst app].
    (* NoDup (map fst acc ++ x :: map snd r) *)
    apply (NoDup_Add (Add_app x (map fst acc) (map snd r))). split; [exact Hn|exact Hx].
Qed.

End Sel.

(* ------------------------------------------------------------------ *)
(** * with added and removed hashes disjoint: the dictionary is the matching followed by its inverse *)
Theorem select_disjoint (A D : Type) (aeqb : A -> A -> bool) (dltb deqb : D -> D -> bool) :
  (forall x y, aeqb x y = true <-> x = y) ->
  forall cutoff loop dist adds rems,
  (forall x, In x adds -> ~ In x rems) ->
  let raw := select_raw A D aeqb dltb deqb cutoff (trips A D loop dist adds rems) in
  select A D aeqb dltb deqb cutoff (trips A D loop dist adds rems) = raw ++ map swap raw.
Proof.
  intros Ha cutoff loop dist adds rems Hdis raw. unfold select. fold raw.
  destruct (select_raw_matching A D aeqb dltb deqb Ha cutoff (trips A D loop dist adds rems)) as (Nk & Nv & He).
  cbv zeta in Nk, Nv, He. fold raw in Nk, Nv, He.
  apply inverse_fold; [exact Ha|].
  (* NoDup (keys ++ values): keys are added hashes, values removed hashes *)
  assert (G : forall l l' : list A, NoDup l -> NoDup l' -> (forall x, In x l -> ~ In x l') -> NoDup (l ++ l')).
  { induction l as [|x l IH]; intros l' N1 N2 Hd; cbn [app]; [exact N2|].
    inversion N1 as [|y ys Hy Hys]; subst. constructor.
    - intro X. apply in_app_or in X as [X|X]; [auto|]. apply (Hd x); [left; reflexivity|exact X].
    - apply IH; [exact Hys|exact N2|]. intros z Hz. apply Hd. right. exact Hz. }
  apply G; [exact Nk|exact Nv|].
  intros x Hx Hx'. apply in_map_iff in Hx as [[k v] [E Hin]]. apply in_map_iff in Hx' as [[k' v'] [E' Hin']].
  cbn [fst snd] in E, E'. subst k v'.
  destruct (He _ _ Hin) as [d [Ht _]]. destruct (He _ _ Hin') as [d' [Ht' _]].
  apply trips_In in Ht as (Hx1 & _ & _). apply trips_In in Ht' as (_ & Hx2 & _). exact (Hdis x Hx1 Hx2).
Qed.

(* ------------------------------------------------------------------ *)
(** * from hash pairs to the oracle of DiffIOModel *)
(* (added hash, removed hash) -> (first index of the added hash in t2, first index of the removed hash in t1):
   what harness/props/c05.py [pairs_table] does with a recorded dictionary *)
Definition idx_pairs (hh1 hh2 : list pystr) (hp : list (pystr * pystr)) : list (nat * nat) :=
  map (fun ar => (first_of (indexes_of (fst ar) hh2 0), first_of (indexes_of (snd ar) hh1 0))) hp.

Lemma indexes_nonempty h l : forall i, In h l -> indexes_of h l i <> [].
Proof.
  induction l as [|x r IH]; intros i Hin; [destruct Hin|]. cbn [indexes_of].
  destruct (pystr_eqb h x) eqn:E; [discriminate|]. cbn [app]. destruct Hin as [->|Hin]; [|apply IH; exact Hin].
  rewrite pystr_eqb_refl in E. discriminate.
Qed.

Lemma first_index h l : In h l -> first_of (indexes_of h l 0) < length l /\ nth (first_of (indexes_of h l 0)) l [] = h.
Proof.
  intro Hin. pose proof (indexes_nonempty h l 0 Hin) as Hne.
  destruct (indexes_of h l 0) as [|k ks] eqn:E; [congruence|]. cbn [first_of hd].
  assert (Hk : In k (indexes_of h l 0)) by (rewrite E; left; reflexivity).
  apply indexes_nth in Hk as [_ Hn]. rewrite Nat.sub_0_r in Hn. split.
  - apply nth_error_Some. congruence.
  - apply nth_error_nth. exact Hn.
Qed.

Lemma nodup_h_NoDup l : NoDup l -> nodup_h l = true.
Proof.
  induction 1 as [|x l Hx Hl IH]; cbn [nodup_h]; [reflexivity|]. rewrite IH, andb_true_r.
  apply negb_true_iff, mem_h_false. exact Hx.
Qed.

Lemma pystr_eqb_spec' : forall x y, pystr_eqb x y = true <-> x = y.
Proof. intros x y. split; [apply pystr_eqb_eq|intros ->; apply pystr_eqb_refl]. Qed.

Section Valid.
Variable H : pystr -> pystr.
Variable c : cfg.
Variable rep : bool.
Variable D : Type.
Variables dltb deqb : D -> D -> bool.

(* any matching between the added and the removed hashes of a level is a valid oracle answer *)
Lemma matching_valid_pairs_at xs ys (hp : list (pystr * pystr)) :
  NoDup (map fst hp) -> NoDup (map snd hp) ->
  (forall a r, In (a, r) hp -> In a (hashes_added H c rep xs ys) /\ In r (hashes_removed H c rep xs ys)) ->
  valid_pairs_at H c rep xs ys (idx_pairs (h1 H c rep xs) (h2 H c rep ys) hp) = true.
Proof.
  intros Nk Nv Hin. unfold valid_pairs_at, idx_pairs. rewrite !map_map. cbn [fst snd].
  assert (Ha : forall a, In a (hashes_added H c rep xs ys) -> In a (h2 H c rep ys)).
  { intros a X. unfold hashes_added in X. apply filter_In in X as [X _]. unfold t2_hashes in X. apply (proj1 (dedup_In _ _)) in X. exact X. }
  assert (Hr : forall r, In r (hashes_removed H c rep xs ys) -> In r (h1 H c rep xs)).
  { intros r X. unfold hashes_removed in X. apply filter_In in X as [X _]. unfold t1_hashes in X. apply (proj1 (dedup_In _ _)) in X. exact X. }
  assert (Ea : map (fun x : pystr * pystr => nth (first_of (indexes_of (fst x) (h2 H c rep ys) 0)) (h2 H c rep ys) []) hp = map fst hp).
  { apply map_ext_in. intros [a r] X. cbn [fst]. apply first_index. apply Ha. apply (Hin a r X). }
  assert (Er : map (fun x : pystr * pystr => nth (first_of (indexes_of (snd x) (h1 H c rep xs) 0)) (h1 H c rep xs) []) hp = map snd hp).
  { apply map_ext_in. intros [a r] X. cbn [snd]. apply first_index. apply Hr. apply (Hin a r X). }
  rewrite Ea, Er.
  repeat (apply andb_true_intro; split).
  - apply forallb_forall. intros ji X. apply in_map_iff in X as [[a r] [<- X]]. cbn [fst snd].
    destruct (Hin a r X) as [X1 X2].
    apply andb_true_intro; split; apply Nat.ltb_lt.
    + replace (length ys) with (length (h2 H c rep ys)) by (unfold h2; apply map_length). apply first_index. apply Ha. exact X1.
    + replace (length xs) with (length (h1 H c rep xs)) by (unfold h1; apply map_length). apply first_index. apply Hr. exact X2.
  - apply forallb_forall. intros a X. apply in_map_iff in X as [[a' r] [<- X]]. apply mem_h_In. apply (Hin a' r X).
  - apply forallb_forall. intros r X. apply in_map_iff in X as [[a r'] [<- X]]. apply mem_h_In. apply (Hin a r' X).
  - apply nodup_h_NoDup. exact Nk.
  - apply nodup_h_NoDup. exact Nv.
Qed.

(* THE validity theorem: what the selection computes on the hashes of a level - for every distance table, cut-off, loop oracle -
   passes the validity check the harness applies to the recorded pairings *)
Theorem select_raw_valid_pairs_at :
  forall xs ys loop (dist : pystr -> pystr -> D) cutoff,
  valid_pairs_at H c rep xs ys
    (idx_pairs (h1 H c rep xs) (h2 H c rep ys)
       (select_raw pystr D pystr_eqb dltb deqb cutoff
          (trips pystr D loop dist (hashes_added H c rep xs ys) (hashes_removed H c rep xs ys)))) = true.
Proof.
  intros xs ys loop dist cutoff.
  destruct (select_raw_matching pystr D pystr_eqb dltb deqb pystr_eqb_spec' cutoff
              (trips pystr D loop dist (hashes_added H c rep xs ys) (hashes_removed H c rep xs ys))) as (Nk & Nv & He).
  cbv zeta in Nk, Nv, He.
  apply matching_valid_pairs_at; [exact Nk|exact Nv|].
  intros a r X. destruct (He a r X) as [d [Ht _]]. apply trips_In in Ht as (X1 & X2 & _). auto.
Qed.

(* ... and every selected pair is below the cut-off in the supplied table *)
Theorem select_raw_below_cutoff :
  forall loop (dist : pystr -> pystr -> D) cutoff adds rems a r,
  In (a, r) (select_raw pystr D pystr_eqb dltb deqb cutoff (trips pystr D loop dist adds rems)) ->
  In a adds /\ In r rems /\ loop r = false /\ dltb (dist a r) cutoff = true.
Proof.
  intros loop dist cutoff adds rems a r X.
  destruct (select_raw_matching pystr D pystr_eqb dltb deqb pystr_eqb_spec' cutoff (trips pystr D loop dist adds rems)) as (_ & _ & He).
  cbv zeta in He. destruct (He a r X) as [d [Ht Hd]]. pose proof Ht as Ht'. apply trips_In in Ht as (X1 & X2 & ->).
  repeat split; auto.
  unfold trips in Ht'. apply in_flat_map in Ht' as [a' [_ Y]]. apply in_flat_map in Y as [r' [_ Y]].
  destruct (loop r') eqn:E; [destruct Y|]. destruct Y as [Y|[]]. inversion Y; subst. exact E.
Qed.

(* the added and removed hashes of a level are disjoint *)
Lemma added_removed_disjoint xs ys x : In x (hashes_added H c rep xs ys) -> ~ In x (hashes_removed H c rep xs ys).
Proof.
  unfold hashes_added, hashes_removed. intros X Y. apply filter_In in X as [_ X]. apply filter_In in Y as [Y _].
  apply negb_true_iff, mem_h_false in X. apply X. exact Y.
Qed.

End Valid.

(* ------------------------------------------------------------------ *)
(** * the oracle the level model is given: the added -> removed half of the returned dictionary *)
(* [for a in hashes_added: if a in pairs: (a, pairs[a])] - harness/props/c05.py [pairs_table] *)
Definition oracle_of_dict (A : Type) (aeqb : A -> A -> bool) (adds : list A) (ps : list (A * A)) : list (A * A) :=
  flat_map (fun a => match find (fun kv => aeqb (fst kv) a) ps with Some kv => [(a, snd kv)] | None => [] end) adds.

Section OracleOfDict.
Variable A : Type.
Variable aeqb : A -> A -> bool.
Hypothesis aeqb_spec : forall x y, aeqb x y = true <-> x = y.
Variables adds rems : list A.
Variable raw : list (A * A).
Hypothesis Nadds : NoDup adds.
Hypothesis Nv : NoDup (map snd raw).
Hypothesis Hk : forall k x, In (k, x) raw -> In k adds /\ In x rems.
Hypothesis Hdis : forall x, In x adds -> ~ In x rems.

Lemma oracle_of_dict_In a x : In (a, x) (oracle_of_dict A aeqb adds (raw ++ map swap raw)) -> In a adds /\ In (a, x) raw.
Proof.
  unfold oracle_of_dict. rewrite in_flat_map. intros [a' [Ha X]].
  destruct (find (fun kv => aeqb (fst kv) a') (raw ++ map swap raw)) as [[k y]|] eqn:E; [|destruct X].
  destruct X as [X|[]]. inversion X; subst a' y. clear X. split; [exact Ha|].
  apply find_some in E as [Hin Ek]. cbn [fst] in Ek. apply aeqb_spec in Ek. subst k.
  apply in_app_or in Hin as [Hin|Hin]; [exact Hin|].
  apply in_map_iff in Hin as [[k' y'] [E' Hin]]. unfold swap in E'. cbn [fst snd] in E'. inversion E'; subst.
  exfalso. apply (Hdis a Ha). apply (Hk _ _ Hin).
Qed.

Lemma raw_val_inj x x' y : In (x, y) raw -> In (x', y) raw -> x = x'.
Proof.
  clear Hk. induction raw as [|[a b] r IH]; intros H1 H2; [destruct H1|].
  cbn [map snd] in Nv. inversion Nv as [|z zs Hz Hzs]; subst.
  destruct H1 as [E1|H1], H2 as [E2|H2].
  - congruence.
  - inversion E1; subst. exfalso. apply Hz. apply in_map_iff. exists (x', y). auto.
  - inversion E2; subst. exfalso. apply Hz. apply in_map_iff. exists (x, y). auto.
  - apply IH; assumption.
Qed.

Lemma oracle_of_dict_matching :
  let o := oracle_of_dict A aeqb adds (raw ++ map swap raw) in
  NoDup (map fst o) /\ NoDup (map snd o) /\ forall a x, In (a, x) o -> In (a, x) raw.
Proof.
  cbv zeta. split; [|split].
  - (* keys: each added hash contributes at most one pair, keyed by itself *)
    unfold oracle_of_dict. clear Hk Hdis. generalize Nadds. generalize adds as l.
    induction 1 as [|a l Ha Hl IH]; cbn [flat_map]; [constructor|].
    rewrite map_app. destruct (find _ _) as [kv|]; cbn [map fst app]; [|exact IH].
    constructor; [|exact IH]. intro X. apply in_map_iff in X as [[k y] [E X]]. cbn [fst] in E. subst k.
    apply in_flat_map in X as [a' [Ha' X]]. destruct (find _ _) as [kv'|]; [|destruct X].
    destruct X as [X|[]]. inversion X; subst. exact (Ha Ha').
  - (* values *)
    assert (G : forall l, NoDup l -> (forall a, In a l -> In a adds) ->
                NoDup (map snd (flat_map (fun a => match find (fun kv => aeqb (fst kv) a) (raw ++ map swap raw) with
                                                   | Some kv => [(a, snd kv)] | None => [] end) l))).
    { induction 1 as [|a l Ha Hl IH]; intro Hsub; cbn [flat_map]; [constructor|].
      assert (IH' := IH (fun a' X => Hsub a' (or_intror X))).
      rewrite map_app. destruct (find (fun kv => aeqb (fst kv) a) (raw ++ map swap raw)) as [kv|] eqn:E; cbn [map snd app]; [|exact IH'].
      constructor; [|exact IH']. intro X. apply in_map_iff in X as [[a' y] [Ey X]]. cbn [snd] in Ey. subst y.
      assert (X' : In (a', snd kv) (oracle_of_dict A aeqb adds (raw ++ map swap raw))).
      { unfold oracle_of_dict. apply in_flat_map in X as [a'' [Ha'' X]]. apply in_flat_map. exists a''. split; [apply Hsub; right; exact Ha''|exact X]. }
      assert (Y' : In (a, snd kv) (oracle_of_dict A aeqb adds (raw ++ map swap raw))).
      { unfold oracle_of_dict. apply in_flat_map. exists a. split; [apply Hsub; left; reflexivity|]. rewrite E. left. reflexivity. }
      apply oracle_of_dict_In in X' as [_ X']. apply oracle_of_dict_In in Y' as [_ Y'].
      assert (a = a') by (eapply raw_val_inj; eauto). subst a'.
      apply in_flat_map in X as [a'' [Ha'' X]]. destruct (find (fun kv0 => aeqb (fst kv0) a'') (raw ++ map swap raw)) as [kv'|]; [|destruct X]. destruct X as [X|[]]. inversion X; subst. exact (Ha Ha''). }
    apply G; [exact Nadds|auto].
  - intros a x X. apply oracle_of_dict_In in X. apply X.
Qed.

End OracleOfDict.

Section Valid2.
Variable H : pystr -> pystr.
Variable c : cfg.
Variable rep : bool.
Variable D : Type.
Variables dltb deqb : D -> D -> bool.

Lemma hashes_added_NoDup xs ys : NoDup (hashes_added H c rep xs ys).
Proof. unfold hashes_added. apply NoDup_filter. apply dedup_NoDup. Qed.

(* the dictionary the code returns (matching + inverse), read as the harness reads it, is a valid oracle answer *)
Theorem select_valid_pairs_at :
  forall xs ys loop (dist : pystr -> pystr -> D) cutoff,
  let adds := hashes_added H c rep xs ys in
  let rems := hashes_removed H c rep xs ys in
  valid_pairs_at H c rep xs ys
    (idx_pairs (h1 H c rep xs) (h2 H c rep ys)
       (oracle_of_dict pystr pystr_eqb adds (select pystr D pystr_eqb dltb deqb cutoff (trips pystr D loop dist adds rems)))) = true.
Proof.
  intros xs ys loop dist cutoff adds rems.
  rewrite (select_disjoint pystr D pystr_eqb dltb deqb pystr_eqb_spec' cutoff loop dist adds rems (added_removed_disjoint H c rep xs ys)).
  cbv zeta.
  destruct (select_raw_matching pystr D pystr_eqb dltb deqb pystr_eqb_spec' cutoff (trips pystr D loop dist adds rems)) as (Nk & Nv & He).
  cbv zeta in Nk, Nv, He.
  set (raw := select_raw pystr D pystr_eqb dltb deqb cutoff (trips pystr D loop dist adds rems)) in *.
  assert (Hk : forall k x, In (k, x) raw -> In k adds /\ In x rems).
  { intros k x X. destruct (He k x X) as [d [Ht _]]. apply trips_In in Ht as (X1 & X2 & _). auto. }
  destruct (oracle_of_dict_matching pystr pystr_eqb pystr_eqb_spec' adds rems raw (hashes_added_NoDup xs ys) Nv Hk
              (added_removed_disjoint H c rep xs ys)) as (N1 & N2 & Hin).
  cbv zeta in N1, N2, Hin.
  apply matching_valid_pairs_at; [exact N1|exact N2|].
  intros a r X. apply Hk. apply Hin. exact X.
Qed.

End Valid2.

(* ------------------------------------------------------------------ *)
(** * whether pairs are computed at a level (_diff_iterable_with_deephash, diff.py:1302-1325) *)
From Coq Require Import QArith.

(* get_pairs: NOT (len(hashes_added) + len(hashes_removed)) / (len(full_t1_hashtable) + len(full_t2_hashtable) + 1) > cutoff_intersection_for_pairs *)
Definition get_pairs_spec (cut : Q) (na nr : nat) (n1 n2 : N) : bool :=
  Qle_bool ((inject_Z (Z.of_nat na) + inject_Z (Z.of_nat nr)) / (inject_Z (Z.of_N n1) + inject_Z (Z.of_N n2) + inject_Z 1)) cut.

(* the pairs dictionary of a level and the pass counter afterwards *)
Definition level_pairs_spec (A D : Type) (aeqb : A -> A -> bool) (dltb deqb : D -> D -> bool)
    (loop : A -> bool) (dist : A -> A -> D) (cutoff : D) (cut : Q) (maxp passes n1 n2 : N) (adds rems : list A) : list (A * A) * N :=
  if N.ltb passes maxp && get_pairs_spec cut (List.length adds) (List.length rems) n1 n2
  then (select A D aeqb dltb deqb cutoff (trips A D loop dist adds rems), (passes + 1)%N)
  else ([], passes).

Lemma get_pairs_off cut na nr n1 n2 : (cut <= 0)%Q -> (0 < na + nr)%nat -> get_pairs_spec cut na nr n1 n2 = false.
Proof.
  intros Hc Hn. unfold get_pairs_spec.
  destruct (Qle_bool _ cut) eqn:E; [|reflexivity]. exfalso. apply Qle_bool_iff in E.
  set (x := (inject_Z (Z.of_nat na) + inject_Z (Z.of_nat nr))%Q) in *.
  set (y := (inject_Z (Z.of_N n1) + inject_Z (Z.of_N n2) + inject_Z 1)%Q) in *.
  assert (Hx : (0 < x)%Q).
  { unfold x. rewrite <- inject_Z_plus. change 0%Q with (inject_Z 0). rewrite <- Zlt_Qlt. lia. }
  assert (Hy : (0 < y)%Q).
  { unfold y. rewrite <- !inject_Z_plus. change 0%Q with (inject_Z 0). rewrite <- Zlt_Qlt. lia. }
  assert (Hxy : (0 < x / y)%Q) by (apply Qlt_shift_div_l; [exact Hy|rewrite Qmult_0_l; exact Hx]).
  apply (Qlt_not_le _ _ Hxy). apply (Qle_trans _ cut); assumption.
Qed.

(* max_passes = 0, or cutoff_intersection_for_pairs <= 0: no pairs at any level, for every distance table (what the harness
   calls "pairing off": the model is then given the empty oracle) *)
Theorem level_pairs_off (A D : Type) aeqb dltb deqb loop dist cutoff cut maxp passes n1 n2 adds rems :
  maxp = 0%N \/ (cut <= 0)%Q ->
  fst (level_pairs_spec A D aeqb dltb deqb loop dist cutoff cut maxp passes n1 n2 adds rems) = [].
Proof.
  intros [->|Hc]; unfold level_pairs_spec.
  - destruct passes; reflexivity.
  - destruct (N.ltb passes maxp); cbn [andb]; [|reflexivity].
    destruct adds as [|a adds]; [destruct rems as [|r rems]|].
    + destruct (get_pairs_spec _ _ _ _ _); reflexivity.
    + rewrite get_pairs_off; [reflexivity|exact Hc|cbn [List.length]; lia].
    + rewrite get_pairs_off; [reflexivity|exact Hc|cbn [List.length]; lia].
Qed.

(* whatever the knobs, the dictionary of a level is the selection or empty *)
Lemma level_pairs_cases (A D : Type) aeqb dltb deqb loop dist cutoff cut maxp passes n1 n2 adds rems :
  fst (level_pairs_spec A D aeqb dltb deqb loop dist cutoff cut maxp passes n1 n2 adds rems) = [] \/
  fst (level_pairs_spec A D aeqb dltb deqb loop dist cutoff cut maxp passes n1 n2 adds rems) = select A D aeqb dltb deqb cutoff (trips A D loop dist adds rems).
Proof. unfold level_pairs_spec. destruct (_ && _); [right|left]; reflexivity. Qed.

Theorem level_pairs_valid_pairs_at (H : pystr -> pystr) c rep (D : Type) (dltb deqb : D -> D -> bool) :
  forall xs ys loop (dist : pystr -> pystr -> D) cutoff cut maxp passes n1 n2,
  let adds := hashes_added H c rep xs ys in
  let rems := hashes_removed H c rep xs ys in
  valid_pairs_at H c rep xs ys
    (idx_pairs (h1 H c rep xs) (h2 H c rep ys)
       (oracle_of_dict pystr pystr_eqb adds
          (fst (level_pairs_spec pystr D pystr_eqb dltb deqb loop dist cutoff cut maxp passes n1 n2 adds rems)))) = true.
Proof.
  intros xs ys loop dist cutoff cut maxp passes n1 n2 adds rems.
  destruct (level_pairs_cases pystr D pystr_eqb dltb deqb loop dist cutoff cut maxp passes n1 n2 adds rems) as [E|E]; rewrite E.
  - assert (E0 : forall l, oracle_of_dict pystr pystr_eqb l [] = []).
    { unfold oracle_of_dict. induction l as [|a l IH]; [reflexivity|exact IH]. }
    rewrite E0. reflexivity.
  - apply select_valid_pairs_at.
Qed.

(* ------------------------------------------------------------------ *)
(** * selected pairs are consulted by the level model *)
(* a pair of a matching between the added and the removed hashes IS consulted by the level model: [partner] (the model of
   get_other_pair) answers it as long as the removed hash is still unused - the clause "a pair the code could not have used is
   treated as absent" of DiffIOModel.v never applies to it *)
Lemma partner_of_matching (H : pystr -> pystr) c rep xs ys p1 (hp : list (pystr * pystr)) :
  NoDup (map fst hp) ->
  (forall a r, In (a, r) hp -> In a (hashes_added H c rep xs ys) /\ In r (hashes_removed H c rep xs ys)) ->
  forall pairs a r remaining, pairs p1 = idx_pairs (h1 H c rep xs) (h2 H c rep ys) hp -> In (a, r) hp -> In r remaining ->
  partner H c rep pairs xs ys p1 a remaining = Some r.
Proof.
  intros Nk Hin pairs a r remaining Hp Har Hrem. unfold partner. rewrite Hp. clear Hp.
  assert (Ha : forall a, In a (hashes_added H c rep xs ys) -> In a (h2 H c rep ys)).
  { intros a0 X. unfold hashes_added in X. apply filter_In in X as [X _]. unfold t2_hashes in X. apply (proj1 (dedup_In _ _)) in X. exact X. }
  assert (Hr : forall r, In r (hashes_removed H c rep xs ys) -> In r (h1 H c rep xs)).
  { intros r0 X. unfold hashes_removed in X. apply filter_In in X as [X _]. unfold t1_hashes in X. apply (proj1 (dedup_In _ _)) in X. exact X. }
  assert (F : find (fun ji : nat * nat => pystr_eqb (nth (fst ji) (h2 H c rep ys) []) a) (idx_pairs (h1 H c rep xs) (h2 H c rep ys) hp) =
              Some (first_of (indexes_of a (h2 H c rep ys) 0), first_of (indexes_of r (h1 H c rep xs) 0))).
  { unfold idx_pairs. induction hp as [|[a0 r0] l IH]; [destruct Har|]. cbn [map find fst snd].
    assert (E0 : nth (first_of (indexes_of a0 (h2 H c rep ys) 0)) (h2 H c rep ys) [] = a0).
    { apply first_index. apply Ha. apply (Hin a0 r0). left. reflexivity. }
    rewrite E0. cbn [map fst] in Nk. inversion Nk as [|z zs Hz Hzs]; subst.
    destruct (pystr_eqb a0 a) eqn:E.
    - apply pystr_eqb_eq in E. subst a0. destruct Har as [X|X]; [inversion X; subst; reflexivity|].
      exfalso. apply Hz. apply in_map_iff. exists (a, r). auto.
    - destruct Har as [X|X]; [inversion X; subst; rewrite pystr_eqb_refl in E; discriminate|].
      apply IH; [exact Hzs| |exact X]. intros a' r' Y. apply Hin. right. exact Y. }
  rewrite F. cbn [fst snd].
  destruct (first_index r (h1 H c rep xs) (Hr r (proj2 (Hin a r Har)))) as [Hlt Hn].
  assert (E1 : nth_error (h1 H c rep xs) (first_of (indexes_of r (h1 H c rep xs) 0)) = Some r).
  { rewrite <- Hn at 2. apply nth_error_nth'. exact Hlt. }
  rewrite E1. apply (proj2 (mem_h_In _ _)) in Hrem. rewrite Hrem. reflexivity.
Qed.

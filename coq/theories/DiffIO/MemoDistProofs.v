(** C17 / finding K17 with the memoised body made concrete: the value stored under a distance key is
    [_get_rough_distance] of the nested DeepDiff(removed item, added item) - block Dist's [rough_distance]
    (Dist/DistModel.v) on the delta view of that diff.  Outside the numeric short cut it is
        operations(delta) / (count removed + count added)
    whose denominator is symmetric: the guard "the distance does not depend on the orientation of the
    pair" is EXACTLY "the two nested diffs have the same number of operations".  It fails as soon as one
    direction reports something the other does not count - a type change or value change carries only
    its NEW value - and K17's witness is computed from the diff model itself. *)
From Coq Require Import List ZArith NArith Bool Arith Lia String.
From Coq Require Import PrimFloat.
Import ListNotations.
From DD Require Import Base.PyStr Base.Value Diff.Tree Diff.DiffModel Dist.DistModel Dist.DistDiffModel.

Theorem rough_distance_symmetric_iff :
  forall (r1 r2 : root) (cutoff : float) (d12 d21 : dv) (n n' : nat),
  root_numeric r1 r2 cutoff = None -> root_numeric r2 r1 cutoff = None ->
  item_length d12 = LOk n -> item_length d21 = LOk n' ->
  (rough_distance r1 r2 cutoff d12 = rough_distance r2 r1 cutoff d21 <-> n = n').
Proof.
  intros r1 r2 cutoff d12 d21 n n' N1 N2 L1 L2. unfold rough_distance. rewrite N1, N2, L1, L2.
  destruct n as [|n], n' as [|n']; split; intro E; try reflexivity; try discriminate.
  - injection E as E _. rewrite E. reflexivity.
  - injection E as E. subst. rewrite (Nat.add_comm (root_count r1)). reflexivity.
Qed.

(* K17's witness: L = [1..9] against the string 'u', both ways, through the diff model and the delta view *)
Definition k17_L : value := VList (map (fun z => VAtom (AInt z)) [1; 2; 3; 4; 5; 6; 7; 8; 9]%Z).
Local Open Scope string_scope.
Definition k17_u : value := VAtom (AStr (s2p "u")).
Local Close Scope string_scope.
Definition k17_dist (a b : value) : rres :=
  deep_distance_of_diff (fun _ => []) (fun _ _ => []) (fun _ _ _ => []) (fun _ => false) (fun _ => false)
    (mkCfg false 33 100 true) (fun _ _ => true) 0x1.3333333333333p-2%float a b.

Theorem k17_distance_asymmetric :
  k17_dist k17_L k17_u = RFrac 3 11 /\      (* old_type, new_type, new_value 'u'           : 0.2727... *)
  k17_dist k17_u k17_L = RFrac 11 11.       (* old_type, new_type, new_value [1..9] (9 items): 1.0      *)
Proof. split; vm_compute; reflexivity. Qed.

(* ... and a pair inside the guard: same-width lists that differ in one element are at the same distance both ways *)
Example symmetric_pair :
  let I z := VAtom (AInt z) in
  let ops := fun (_ : path) (_ _ : list value) => [mkOp OEqual 0 2 0 2; mkOp OReplace 2 3 2 3] in
  let d a b := deep_distance_of_diff (fun _ => []) (fun _ _ => []) ops (fun _ => false) (fun _ => false)
                 (mkCfg false 33 100 true) (fun _ _ => true) 0x1.3333333333333p-2%float a b in
  d (VList [I 1; I 2; I 3]%Z) (VList [I 1; I 2; I 4]%Z) = RFrac 1 8 /\
  d (VList [I 1; I 2; I 4]%Z) (VList [I 1; I 2; I 3]%Z) = RFrac 1 8.
Proof. split; vm_compute; reflexivity. Qed.

(** The ignore-order run WITH aliasing atoms: [diff_io_m] (the shared table threaded through the
    traversal in the implementation's order) returns, entry for entry, what the memo-free
    traversal [diff_io_cr] returns when every item hash is "the memo-free hash of the item with
    each atom replaced by the representative the FINAL table holds for its ==-class".
    No alias guard; the guard is [bool_sep] (no bool == a non-bool atom).

    In particular the nested levels never change what an earlier level saw: the statement holds
    for every renaming that agrees with the final table, and every renaming that agrees with a
    later table agrees with the earlier ones ([agrees_ext]). *)
From Coq Require Import String.
From Coq Require Import List ZArith NArith Bool Arith Lia Permutation.
Import ListNotations.
From DD Require Import Base.PyStr Base.Value Base.ValueFacts Diff.Tree Diff.DiffModel Hash.HashModel Hash.Equiv
  Hash.HashProofsBase Hash.HashProofsC06 Hash.HashProofsC07 Hash.HashProofsMemo Hash.HashMembers
  DiffIO.DiffIOModel DiffIO.DiffIOProofs DiffIO.DiffIOMemo DiffIO.DiffIOMemoProofs DiffIO.DiffIOCanon DiffIO.DiffIOCanonHash.

Lemma bool_sep_prop l : bool_sep l = true ->
  forall a b, In a l -> In b l -> py_eq a b = true -> is_bool a = is_bool b.
Proof.
  unfold bool_sep. rewrite forallb_forall. intros Hs a b Ha Hb E.
  specialize (Hs a Ha). rewrite forallb_forall in Hs. specialize (Hs b Hb). rewrite E in Hs. cbn [implb] in Hs.
  apply Bool.eqb_prop in Hs. exact Hs.
Qed.

Section Run.
Variable H : pystr -> pystr.
Variable udiff : pystr -> pystr -> pystr.
Variable skip excl : path -> bool.
Variable c : cfg.
Variable rep : bool.
Variable pairs : path -> list (nat * nat).
Variable L : list atom.                      (* all atoms around: of the table and of both inputs *)
Hypothesis L_sep : forall a b, In a L -> In b L -> py_eq a b = true -> is_bool a = is_bool b.

Notation o := (io_opts c rep).
Notation Inv := (CInv H o L).
Notation mm := (diff_io_m H udiff skip excl c rep pairs).
Notation cc := (fun f => diff_io_cr H udiff skip excl c rep pairs f).
Notation hvo := (hv_of H c rep).
Notation hao := (ha_of H c rep).

Lemma Hio : ignore_iterable_order o = true.
Proof. reflexivity. Qed.

(* a renaming that is what the table says on every class the table knows *)
Definition agrees (f : atom -> atom) (m : memo) : Prop :=
  (forall a, py_eq a (f a) = true) /\ forall a, inclass m a = true -> f a = rho m a.

Lemma agrees_ext f m m' : ext m m' -> agrees f m' -> agrees f m.
Proof.
  intros He [A1 A2]. split; [exact A1|]. intros a Ha.
  rewrite (A2 a (ext_inclass m m' a He Ha)). apply ext_rho; auto.
Qed.
Lemma agrees_rho m : agrees (rho m) m.
Proof. split; [apply rho_py_eq|reflexivity]. Qed.

Definition good (v : value) : Prop := wf v = true /\ incl (atoms_of v) L.

Definition RelC (a : MM) (r0 : (atom -> atom) -> res) : Prop :=
  forall m, Inv m ->
    Inv (snd (a m)) /\ ext m (snd (a m)) /\ forall f, agrees f (snd (a m)) -> fst (a m) = r0 f.
Definition RelP {X} (p : MM * X) (p0 : (atom -> atom) -> res * X) : Prop :=
  forall m, Inv m ->
    Inv (snd (fst p m)) /\ ext m (snd (fst p m)) /\
    forall f, agrees f (snd (fst p m)) -> (fst (fst p m), snd p) = p0 f.

Lemma RelC_ret r : RelC (mmret r) (fun _ => r).
Proof. intros m Hi. cbn. split; [exact Hi|]. split; [apply ext_refl|reflexivity]. Qed.

Lemma RelC_app a a0 b b0 : RelC a a0 -> RelC b b0 -> RelC (mmapp a b) (fun f => app2 (a0 f) (b0 f)).
Proof.
  intros Ha Hb m Hi. unfold mmapp.
  destruct (Ha m Hi) as (I1 & E1 & F1). destruct (a m) as [r1 m1]. cbn [fst snd] in *.
  destruct (Hb m1 I1) as (I2 & E2 & F2). destruct (b m1) as [r2 m2]. cbn [fst snd] in *.
  split; [exact I2|]. split; [eapply ext_trans; eauto|].
  intros f Hf. rewrite (F2 f Hf), (F1 f (agrees_ext f m1 m2 E2 Hf)). reflexivity.
Qed.

Lemma RelC_ext a r0 r0' : (forall f, r0 f = r0' f) -> RelC a r0 -> RelC a r0'.
Proof. intros He Ha m Hi. destruct (Ha m Hi) as (I1 & E1 & F1). split; [exact I1|]. split; [exact E1|]. intros f Hf. rewrite <- He. auto. Qed.

Lemma RelP_of_RelC {X} a r0 (x : X) : RelC a r0 -> RelP (a, x) (fun f => (r0 f, x)).
Proof. intros Ha m Hi. cbn [fst snd]. destruct (Ha m Hi) as (I1 & E1 & F1). split; [exact I1|]. split; [exact E1|]. intros f Hf. rewrite (F1 f Hf). reflexivity. Qed.

Definition RelRec (g : rec_m) (g0 : (atom -> atom) -> rec_fn) : Prop :=
  forall y q1 q2, good y -> RelC (g y q1 q2) (fun f => g0 f y q1 q2).

Lemma RelRec_nth recs recs0 i :
  Forall2 RelRec recs recs0 ->
  RelRec (nth_rec_m recs i) (fun f => nth_rec (map (fun g => g f) recs0) i).
Proof.
  intro HF. revert i. induction HF as [|g g0 l l0 Hg HF IH]; intros [|i]; cbn [nth_rec_m nth_rec nth map].
  - intros y q1 q2 _. apply RelC_ret.
  - intros y q1 q2 _. apply RelC_ret.
  - exact Hg.
  - apply IH.
Qed.

Section Level.
Variables (recs : list rec_m) (recs0 : list ((atom -> atom) -> rec_fn)).
Hypothesis Hrecs : Forall2 RelRec recs recs0.
Variables (xs ys : list value) (hh1 hh2 : list pystr) (p1 p2 : path).
Hypothesis Hys : forall y, In y ys -> good y.
Notation rr := (fun f : atom -> atom => map (fun g : (atom -> atom) -> rec_fn => g f) recs0).

Lemma item2_good j y : item2 ys j = Some y -> good y.
Proof. unfold item2. intro E. apply Hys. eapply nth_error_In; eauto. Qed.

Lemma added_one_relp a rem :
  RelP (added_one_m skip pairs recs ys hh1 hh2 p1 p2 a rem)
       (fun f => added_one_c skip pairs (rr f) ys hh1 hh2 p1 p2 a rem).
Proof.
  unfold added_one_m, added_one_c.
  destruct (partner_g pairs hh1 hh2 p1 a rem) as [r|].
  - destruct (item2 ys (first_of (indexes_of a hh2 0))) as [y|] eqn:E.
    + apply (RelP_of_RelC _ (fun f => nth_rec (rr f) (first_of (indexes_of r hh1 0)) y (snoc p1 (PIdx (first_of (indexes_of r hh1 0)))) (snoc p2 (PIdx (first_of (indexes_of a hh2 0)))))).
      apply (RelRec_nth recs recs0 _ Hrecs). eapply item2_good; eauto.
    + apply (RelP_of_RelC _ (fun _ => ([], []))). apply RelC_ret.
  - apply (RelP_of_RelC _ (fun _ => (rpt skip KIterAdd (snoc p1 (PIdx (first_of (indexes_of a hh2 0)))) (snoc p2 (PIdx (first_of (indexes_of a hh2 0)))) None (item2 ys (first_of (indexes_of a hh2 0))) None, []))).
    apply RelC_ret.
Qed.

Lemma added_one_rep_relp a rem :
  RelP (added_one_rep_m skip pairs recs ys hh1 hh2 p1 p2 a rem)
       (fun f => added_one_rep_c skip pairs (rr f) ys hh1 hh2 p1 p2 a rem).
Proof.
  unfold added_one_rep_m, added_one_rep_c.
  destruct (partner_g pairs hh1 hh2 p1 a rem) as [r|].
  - destruct (item2 ys (first_of (indexes_of a hh2 0))) as [y|] eqn:E.
    + pose proof (item2_good _ _ E) as Gy.
      remember (first_of (indexes_of r hh1 0)) as i0 eqn:Ei0. clear Ei0. set (js := indexes_of a hh2 0). set (j0 := first_of js).
      apply (RelP_of_RelC _ (fun f => fold_right (fun i acc =>
               app2 (nth_rec (rr f) i0 y (snoc p1 (PIdx i)) (snoc p2 (PIdx (if Nat.eqb (List.length js) 1 then j0 else i)))) acc)
               ([], []) (indexes_of r hh1 0))).
      induction (indexes_of r hh1 0) as [|i is_ IH]; cbn [fold_right]; [apply RelC_ret|].
      apply (RelC_app _ (fun f => nth_rec (rr f) i0 y (snoc p1 (PIdx i)) (snoc p2 (PIdx (if Nat.eqb (List.length js) 1 then j0 else i))))); [|exact IH].
      apply (RelRec_nth recs recs0 _ Hrecs). exact Gy.
    + apply (RelP_of_RelC _ (fun _ => ([], []))). apply RelC_ret.
  - apply (RelP_of_RelC _ (fun _ => (flat_map (fun j => rpt skip KIterAdd (snoc p1 (PIdx j)) (snoc p2 (PIdx j)) None (item2 ys (first_of (indexes_of a hh2 0))) None) (indexes_of a hh2 0), []))).
    apply RelC_ret.
Qed.

Lemma added_loop_relp one one0 adds : forall rem,
  (forall a r, RelP (one a r) (fun f => one0 f a r)) ->
  RelP (added_loop_m one adds rem) (fun f => added_loop (one0 f) adds rem).
Proof.
  induction adds as [|a adds IH]; intros rem Ho; cbn [added_loop_m added_loop].
  - apply (RelP_of_RelC _ (fun _ => ([], []))). apply RelC_ret.
  - intros m Hi. specialize (Ho a rem) as Ho1.
    destruct (one a rem) as [om rem1] eqn:E1.
    specialize (IH rem1 Ho).
    destruct (added_loop_m one adds rem1) as [am rem2] eqn:E2. cbn [fst snd] in *.
    destruct (Ho1 m Hi) as (I1 & X1 & F1). unfold mmapp. cbn [fst snd] in *.
    remember (om m) as q1 eqn:Eq1. destruct q1 as [r1 m1]. cbn [fst snd] in *.
    destruct (IH m1 I1) as (I2 & X2 & F2). cbn [fst snd] in *.
    remember (am m1) as q2 eqn:Eq2. destruct q2 as [r2 m2]. cbn [fst snd] in *.
    split; [exact I2|]. split; [eapply ext_trans; eauto|].
    intros f Hf. pose proof (F1 f (agrees_ext f m1 m2 X2 Hf)) as G1. pose proof (F2 f Hf) as G2.
    rewrite <- G1, <- G2. reflexivity.
Qed.

Lemma iter_relc :
  RelC (iter_m skip rep pairs recs xs ys hh1 hh2 p1 p2) (fun f => iter_c skip rep pairs (rr f) xs ys hh1 hh2 p1 p2).
Proof.
  unfold iter_m, iter_c. destruct rep.
  - pose proof (added_loop_relp (added_one_rep_m skip pairs recs ys hh1 hh2 p1 p2)
                  (fun f => added_one_rep_c skip pairs (rr f) ys hh1 hh2 p1 p2)
                  (hashes_added_g hh1 hh2) (hashes_removed_g hh1 hh2) added_one_rep_relp) as Hl.
    destruct (added_loop_m _ (hashes_added_g hh1 hh2) (hashes_removed_g hh1 hh2)) as [ma rem] eqn:E.
    intros m Hi. destruct (Hl m Hi) as (I1 & X1 & F1). cbn [fst snd] in *.
    unfold mmapp, mmret. destruct (ma m) as [r1 m1]. cbn [fst snd] in *.
    split; [exact I1|]. split; [exact X1|]. intros f Hf. rewrite <- (F1 f Hf). reflexivity.
  - pose proof (added_loop_relp (added_one_m skip pairs recs ys hh1 hh2 p1 p2)
                  (fun f => added_one_c skip pairs (rr f) ys hh1 hh2 p1 p2)
                  (hashes_added_g hh1 hh2) (hashes_removed_g hh1 hh2) added_one_relp) as Hl.
    destruct (added_loop_m _ (hashes_added_g hh1 hh2) (hashes_removed_g hh1 hh2)) as [ma rem] eqn:E.
    intros m Hi. destruct (Hl m Hi) as (I1 & X1 & F1). cbn [fst snd] in *.
    unfold mmapp, mmret. destruct (ma m) as [r1 m1]. cbn [fst snd] in *.
    split; [exact I1|]. split; [exact X1|]. intros f Hf. rewrite <- (F1 f Hf). reflexivity.
Qed.
End Level.

(* the two _create_hashtable calls of one side of a level *)
Lemma table_step (mk : list value -> value) xs m :
  (forall l, atoms_of (mk l) = flat_map atoms_of l) ->
  Inv m -> wf (mk xs) = true -> (forall x, In x xs -> good x) ->
  let r := hash_items_memo H o m xs in
  let mb := snd (hash_memo H o (mk xs) (snd r)) in
  Inv mb /\ ext m mb /\
  forall f m', ext mb m' -> agrees f m' -> fst r = map (hvo f) xs.
Proof.
  intros Hat Hi Wv Hx. cbn zeta. unfold hash_items_memo.
  destruct (items_post H o L xs) with (m := m) as (C1 & E1 & V1 & F1); auto.
  { apply Forall_forall. intros x _. apply (memo_canon H o Hio L L_sep). }
  destruct (items_memo H o xs m) as [hs ma]. cbn [fst snd] in *.
  destruct (memo_canon H o Hio L L_sep (mk xs) ma C1 Wv) as (C2 & E2 & _ & _).
  { rewrite Hat. intros a Ha. apply in_flat_map in Ha as [x [Hxi Ha]]. destruct (Hx x Hxi) as [_ Hl]. auto. }
  split; [exact C2|]. split; [eapply ext_trans; eauto|].
  intros f m' He [A1 A2]. rewrite F1. apply map_ext_in. intros x Hxi. unfold hv_of.
  apply hash_pure_cmap_ext.
  - apply rho_keeps.
  - apply class_keeps_hidden. exact A1.
  - intros a Ha. assert (Hc : inclass ma a = true) by (apply V1; apply in_flat_map; eauto).
    assert (Hx2 : ext ma m') by (eapply ext_trans; eauto).
    rewrite (A2 a (ext_inclass ma m' a Hx2 Hc)). symmetry. apply ext_rho; auto.
Qed.

Lemma RelC_strong a r0 :
  (forall m, Inv m -> Inv (snd (a m)) /\ ext m (snd (a m)) /\ forall f, agrees f (snd (a m)) -> fst (a m) = r0 f) -> RelC a r0.
Proof. auto. Qed.

Lemma level_relc (mk : list value -> value) recs recs0 xs ys p1 p2 :
  (forall l, atoms_of (mk l) = flat_map atoms_of l) ->
  Forall2 RelRec recs recs0 ->
  wf (mk xs) = true -> wf (mk ys) = true -> (forall x, In x xs -> good x) -> (forall y, In y ys -> good y) ->
  RelC (level_m H skip c rep pairs mk recs xs ys p1 p2)
       (fun f => iter_c skip rep pairs (map (fun g : (atom -> atom) -> rec_fn => g f) recs0) xs ys (map (hvo f) xs) (map (hvo f) ys) p1 p2).
Proof.
  intros Hat HF W1 W2 Hx Hy m Hi. unfold level_m.
  destruct (table_step mk xs m Hat Hi W1 Hx) as (I1 & X1 & F1).
  destruct (hash_items_memo H o m xs) as [hs1 ma]. cbn [fst snd] in I1, X1, F1.
  destruct (table_step mk ys _ Hat I1 W2 Hy) as (I2 & X2 & F2).
  destruct (hash_items_memo H o (snd (hash_memo H o (mk xs) ma)) ys) as [hs2 mc]. cbn [fst snd] in I2, X2, F2.
  destruct (iter_relc recs recs0 HF xs ys hs1 hs2 p1 p2 Hy _ I2) as (I3 & X3 & F3).
  split; [exact I3|]. split; [eapply ext_trans; [exact X1|eapply ext_trans; [exact X2|exact X3]]|].
  intros f Hf. rewrite (F3 f Hf).
  rewrite (F1 f _ (ext_trans _ _ _ X2 X3) Hf), (F2 f _ X3 Hf). reflexivity.
Qed.

(* ---- sets ---- *)
Lemma set_relc (mk : list atom -> value) xs ys p1 p2 :
  (forall l, atoms_of (mk l) = l) ->
  wf (mk xs) = true -> wf (mk ys) = true -> incl xs L -> incl ys L ->
  RelC (set_level_m H skip c rep (mk xs) (mk ys) xs ys p1 p2) (fun f => (diff_set (hao f) skip xs ys p1 p2, [])).
Proof.
  intros Hat W1 W2 L1 L2 m Hi. unfold set_level_m.
  assert (Step : forall l m1, Inv m1 -> wf (mk l) = true -> incl l L ->
            let r := hash_items_memo H o m1 (map VAtom l) in
            let mb := snd (hash_memo H o (mk l) (snd r)) in
            Inv mb /\ ext m1 mb /\ forall f m', ext mb m' -> agrees f m' -> fst r = map (hao f) l).
  { intros l m1 I1 Wl Ll. cbn zeta. unfold hash_items_memo. rewrite items_memo_atoms.
    destruct (atoms_post H o Hio L L_sep l m1 I1 Ll) as (C1 & E1 & V1 & F1).
    destruct (atoms_memo H o l m1) as [hs ma]. cbn [fst snd] in *.
    destruct (memo_canon H o Hio L L_sep (mk l) ma C1 Wl) as (C2 & E2 & _ & _).
    { rewrite Hat. exact Ll. }
    split; [exact C2|]. split; [eapply ext_trans; eauto|].
    intros f m' He [A1 A2]. rewrite F1. apply map_ext_in. intros a Ha. unfold ha_of. f_equal.
    assert (Hx2 : ext ma m') by (eapply ext_trans; eauto).
    rewrite (A2 a (ext_inclass ma m' a Hx2 (V1 a Ha))). symmetry. apply ext_rho; auto. }
  destruct (Step xs m Hi W1 L1) as (I1 & X1 & F1).
  destruct (hash_items_memo H o m (map VAtom xs)) as [hs1 ma]. cbn [fst snd] in I1, X1, F1.
  destruct (Step ys _ I1 W2 L2) as (I2 & X2 & F2).
  destruct (hash_items_memo H o (snd (hash_memo H o (mk xs) ma)) (map VAtom ys)) as [hs2 mc]. cbn [fst snd] in I2, X2, F2.
  cbn [fst snd]. split; [exact I2|]. split; [eapply ext_trans; eauto|].
  intros f Hf. rewrite (F1 f _ X2 Hf), (F2 f _ (ext_refl _) Hf). f_equal.
  apply diff_set_ext. intros a Ha.
  destruct (in_dec atom_eq_dec a xs) as [Hx|Hx].
  - apply tbl_hatom_combine. exact Hx.
  - rewrite tbl_hatom_skip by exact Hx. destruct Ha as [Ha|Ha]; [contradiction|].
    rewrite <- (app_nil_r (combine ys _)). apply tbl_hatom_combine. exact Ha.
Qed.

(* ---- dicts ---- *)
Lemma find_rec_relc k' (recs : list (atom * rec_m)) (recs0 : list (atom * ((atom -> atom) -> rec_fn))) :
  Forall2 (fun a b => fst a = fst b /\ RelRec (snd a) (snd b)) recs recs0 ->
  match find_rec_m c k' recs with
  | Some g => exists g0, (forall f, find_rec_c c k' (map (fun kg => (fst kg, snd kg f)) recs0) = Some (g0 f)) /\ RelRec g g0
  | None => forall f, find_rec_c c k' (map (fun kg => (fst kg, snd kg f)) recs0) = None
  end.
Proof.
  unfold find_rec_m, find_rec_c. induction 1 as [|[k g] [k0 g0] l l0 [Ek Hg] HF IH]; cbn [find map]; [reflexivity|].
  cbn [fst snd] in *. subst k0. destruct (keep_key c k && py_eq k k').
  - exists g0. split; [reflexivity|exact Hg].
  - exact IH.
Qed.

Lemma common_relc recs recs0 k1 kvs2 p1 p2 keys2 :
  Forall2 (fun a b => fst a = fst b /\ RelRec (snd a) (snd b)) recs recs0 ->
  (forall k v, In (k, v) kvs2 -> good v) ->
  RelC (common_m c recs k1 kvs2 p1 p2 keys2)
       (fun f => common_c c (map (fun kg => (fst kg, snd kg f)) recs0) k1 kvs2 p1 p2 keys2).
Proof.
  intros HF Hg. induction keys2 as [|k' r IH]; cbn [common_m common_c]; [apply RelC_ret|].
  destruct (mem_atom k' k1); [|exact IH].
  pose proof (find_rec_relc k' recs recs0 HF) as Hfr.
  destruct (find_rec_m c k' recs) as [g|].
  - destruct Hfr as [g0 [Hf0 Hr]].
    destruct (assoc k' kvs2) as [v2|] eqn:Ea.
    + eapply RelC_ext; [|apply (RelC_app _ (fun f => g0 f v2 (snoc p1 (PKey k')) (snoc p2 (PKey k')))); [|exact IH]].
      * intro f. cbn beta. rewrite Hf0. reflexivity.
      * apply Hr. apply assoc_In in Ea as [k'' [Hin _]]. eapply Hg; eauto.
    + eapply RelC_ext; [|exact IH]. intro f. cbn beta. rewrite Hf0. reflexivity.
  - eapply RelC_ext; [|exact IH]. intro f. cbn beta. rewrite Hfr. reflexivity.
Qed.

Lemma good_item_list x xs : good (VList xs) -> In x xs -> good x.
Proof.
  intros [W I] Hin. split; [eapply wf_item_list; eauto|].
  intros a Ha. apply I. eapply atoms_item_list; eauto.
Qed.
Lemma good_item_tuple x xs : good (VTuple xs) -> In x xs -> good x.
Proof.
  intros [W I] Hin. split; [eapply wf_item_tuple; eauto|].
  intros a Ha. apply I. eapply atoms_item_tuple; eauto.
Qed.
Lemma good_dict_val k v kvs : good (VDict kvs) -> In (k, v) kvs -> good v.
Proof.
  intros [W I] Hin. split.
  - cbn [wf] in W. apply andb_true_iff in W as [_ W]. rewrite forallb_forall in W. apply (W (k, v) Hin).
  - intros a Ha. apply I. eapply atoms_dict_val; eauto.
Qed.

Lemma recs_c_map hvf haf xs f0 :
  (fix go (l : list value) : list rec_fn :=
     match l with [] => [] | x :: r => diff_io_c hvf haf udiff skip excl c rep pairs x :: go r end) xs =
  map (fun g : (atom -> atom) -> rec_fn => g f0)
    ((fix go (l : list value) : list ((atom -> atom) -> rec_fn) :=
        match l with [] => [] | x :: r => (fun _ => diff_io_c hvf haf udiff skip excl c rep pairs x) :: go r end) xs).
Proof. induction xs as [|x r IH]; cbn [map]; [reflexivity|]. rewrite IH. reflexivity. Qed.

Theorem mm_canon : forall t1 t2 p1 p2, good t1 -> good t2 -> RelC (mm t1 t2 p1 p2) (fun f => cc f t1 t2 p1 p2).
Proof.
  intros t1. induction t1 as [a|xs IH|xs IH|kvs IH|xs|xs] using value_ind'; intros t2 p1 p2 G1 G2.
  - unfold diff_io_cr. cbn [diff_io_m diff_io_c]. destruct (skip p1); [apply RelC_ret|]. destruct (negb _); [apply RelC_ret|].
    destruct t2; apply RelC_ret.
  - unfold diff_io_cr. cbn [diff_io_m diff_io_c]. destruct (skip p1); [apply RelC_ret|]. destruct (negb _); [apply RelC_ret|].
    destruct t2 as [|ys| | | |]; try apply RelC_ret.
    set (recs0 := (fix go (l : list value) : list ((atom -> atom) -> rec_fn) :=
                     match l with [] => [] | x :: r => (fun f => diff_io_cr H udiff skip excl c rep pairs f x) :: go r end) xs).
    eapply RelC_ext; [|apply (level_relc VList _ recs0); try reflexivity; try (apply G1); try (apply G2)].
    + intro f. cbn beta. f_equal. unfold recs0. clear. induction xs as [|x r IHr]; cbn [map]; [reflexivity|]. rewrite IHr. reflexivity.
    + assert (Hg : forall x, In x xs -> good x) by (intros x Hx; exact (good_item_list x xs G1 Hx)).
      unfold recs0. clear G1 recs0. induction IH as [|x l Hx Hl IHl]; constructor.
      * intros y q1 q2 Gy. apply Hx; auto. apply Hg. left; reflexivity.
      * apply IHl. intros; apply Hg; right; auto.
    + intros x Hx; exact (good_item_list x xs G1 Hx).
    + intros y Hy; exact (good_item_list y _ G2 Hy).
  - unfold diff_io_cr. cbn [diff_io_m diff_io_c]. destruct (skip p1); [apply RelC_ret|]. destruct (negb _); [apply RelC_ret|].
    destruct t2 as [| |ys| | |]; try apply RelC_ret.
    set (recs0 := (fix go (l : list value) : list ((atom -> atom) -> rec_fn) :=
                     match l with [] => [] | x :: r => (fun f => diff_io_cr H udiff skip excl c rep pairs f x) :: go r end) xs).
    eapply RelC_ext; [|apply (level_relc VTuple _ recs0); try reflexivity; try (apply G1); try (apply G2)].
    + intro f. cbn beta. f_equal. unfold recs0. clear. induction xs as [|x r IHr]; cbn [map]; [reflexivity|]. rewrite IHr. reflexivity.
    + assert (Hg : forall x, In x xs -> good x) by (intros x Hx; exact (good_item_tuple x xs G1 Hx)).
      unfold recs0. clear G1 recs0. induction IH as [|x l Hx Hl IHl]; constructor.
      * intros y q1 q2 Gy. apply Hx; auto. apply Hg. left; reflexivity.
      * apply IHl. intros; apply Hg; right; auto.
    + intros x Hx; exact (good_item_tuple x xs G1 Hx).
    + intros y Hy; exact (good_item_tuple y _ G2 Hy).
  - unfold diff_io_cr. cbn [diff_io_m diff_io_c]. destruct (skip p1); [apply RelC_ret|]. destruct (negb _); [apply RelC_ret|].
    destruct t2 as [| | |kvs2| |]; try apply RelC_ret.
    destruct (dict_shortcut _ _ _ _ _); [apply RelC_ret|].
    set (recs0 := (fix go (l : list (atom * value)) : list (atom * ((atom -> atom) -> rec_fn)) :=
                     match l with [] => [] | (k, v1) :: r => (k, fun f => diff_io_cr H udiff skip excl c rep pairs f v1) :: go r end) kvs).
    assert (Hc : RelC (common_m c ((fix go (l : list (atom * value)) : list (atom * rec_m) :=
                                      match l with [] => [] | (k, v1) :: r => (k, mm v1) :: go r end) kvs)
                                (keys_of c kvs) kvs2 p1 p2 (keys_of c kvs2))
                      (fun f => common_c c (map (fun kg : atom * ((atom -> atom) -> rec_fn) => (fst kg, snd kg f)) recs0)
                                  (keys_of c kvs) kvs2 p1 p2 (keys_of c kvs2))).
    { apply common_relc.
      - assert (Hg : forall k v, In (k, v) kvs -> good v) by (intros k v Hx; exact (good_dict_val k v kvs G1 Hx)).
        unfold recs0. clear G1 recs0. induction IH as [|[k v1] l Hx Hl IHl]; constructor.
        + cbn [fst snd] in *. split; [reflexivity|]. intros y q1 q2 Gy. apply Hx; auto. eapply Hg. left; reflexivity.
        + apply IHl. intros; eapply Hg; right; eauto.
      - intros k v Hx; exact (good_dict_val k v _ G2 Hx). }
    eapply RelC_ext; [|exact (RelC_app _ _ _ _ (RelC_ret _) Hc)].
    intro f. cbn beta. f_equal. f_equal. unfold recs0. clear.
    induction kvs as [|[k v1] r IHr]; cbn [map fst snd]; [reflexivity|]. rewrite IHr. reflexivity.
  - unfold diff_io_cr. cbn [diff_io_m diff_io_c]. destruct (skip p1); [apply RelC_ret|]. destruct (negb _); [apply RelC_ret|].
    destruct t2 as [| | | |ys|]; try apply RelC_ret.
    apply (set_relc VSet); try reflexivity; try (apply G1); try (apply G2).
  - unfold diff_io_cr. cbn [diff_io_m diff_io_c]. destruct (skip p1); [apply RelC_ret|]. destruct (negb _); [apply RelC_ret|].
    destruct t2 as [| | | | |ys]; try apply RelC_ret.
    apply (set_relc VFrozen); try reflexivity; try (apply G1); try (apply G2).
Qed.
End Run.

(* ------------------------------------------------------------------ *)
(** * Final forms *)

(* from any table that satisfies the invariant: the result, and the table stays right *)
Theorem diff_io_m_canon :
  forall (H : pystr -> pystr) udiff skip excl c rep pairs (L : list atom) (m : memo) t1 t2 p1 p2,
  bool_sep L = true -> CInv H (io_opts c rep) L m ->
  wf t1 = true -> wf t2 = true -> incl (atoms_of t1) L -> incl (atoms_of t2) L ->
  let r := diff_io_m H udiff skip excl c rep pairs t1 t2 p1 p2 m in
  CInv H (io_opts c rep) L (snd r) /\ ext m (snd r) /\
  forall f, agrees f (snd r) -> fst r = diff_io_cr H udiff skip excl c rep pairs f t1 t2 p1 p2.
Proof.
  intros H udiff skip excl c rep pairs L m t1 t2 p1 p2 Hs Hi W1 W2 L1 L2. cbn zeta.
  apply (mm_canon H udiff skip excl c rep pairs L (bool_sep_prop L Hs) t1 t2 p1 p2); [split; auto|split; auto|exact Hi].
Qed.

(* the whole run (empty table at the start) *)
Theorem run_m_canon :
  forall (H : pystr -> pystr) udiff skip excl c rep pairs t1 t2,
  wf t1 = true -> wf t2 = true -> bool_sep2 t1 t2 = true ->
  forall f, agrees f (snd (run_diff_io_m H udiff skip excl c rep pairs t1 t2)) ->
  fst (run_diff_io_m H udiff skip excl c rep pairs t1 t2) = run_diff_io_cr H udiff skip excl c rep pairs f t1 t2.
Proof.
  intros H udiff skip excl c rep pairs t1 t2 W1 W2 Hs f Hf.
  unfold run_diff_io_m, run_diff_io_cr, run_diff_io_c in *.
  destruct (diff_io_m_canon H udiff skip excl c rep pairs (atoms_of t1 ++ atoms_of t2) [] t1 t2 [] [] Hs (CInv_nil _ _ _) W1 W2) as (I & X & F).
  - apply incl_appl, incl_refl.
  - apply incl_appr, incl_refl.
  - cbn zeta in *. destruct (diff_io_m H udiff skip excl c rep pairs t1 t2 [] [] []) as [r m']. cbn [fst snd] in *.
    rewrite (F f Hf). reflexivity.
Qed.

(* ... in particular with the first-visited representatives themselves *)
Corollary run_m_first_visited :
  forall (H : pystr -> pystr) udiff skip excl c rep pairs t1 t2,
  wf t1 = true -> wf t2 = true -> bool_sep2 t1 t2 = true ->
  let r := run_diff_io_m H udiff skip excl c rep pairs t1 t2 in
  fst r = run_diff_io_cr H udiff skip excl c rep pairs (rho (snd r)) t1 t2.
Proof. intros. apply run_m_canon; auto. apply agrees_rho. Qed.

(* DeepHash(v)[v] on a fresh table, for every value without the alias guard: the memo-free hash of v with every
   atom replaced by the first ==-equal atom hashed before it (K2 of C06/C07, exactly) *)
Corollary deephash_first_visited :
  forall (H : pystr -> pystr) o v,
  ignore_iterable_order o = true -> wf v = true -> bool_sep (atoms_of v) = true ->
  deephash H o v = hash_pure H o (cmap (rho (snd (hash_memo H o v []))) v).
Proof.
  intros H o v Hio W Hs. unfold deephash.
  destruct (memo_canon H o Hio (atoms_of v) (bool_sep_prop _ Hs) v [] (CInv_nil _ _ _) W (incl_refl _)) as (_ & _ & _ & E).
  exact E.
Qed.

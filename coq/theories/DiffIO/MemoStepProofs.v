(** C17 source tie: the statement-level [memo_step] IS the [Call] case of [run_cached]; a run evaluated
    with [memo_step] is the cached run. *)
From Coq Require Import List ZArith Bool Arith.
Import ListNotations.
From DD Require Import Lfu.LfuModel DiffIO.MemoModel DiffIO.MemoProofs DiffIO.MemoSrcPrims.

Section StepProofs.
Variable V : Type.
Variable sched : nat -> bool.

Lemma memo_step_ext : forall k (b1 b2 : mstate V -> V * mstate V) s,
  (forall s0, b1 s0 = b2 s0) -> memo_step V sched k b1 s = memo_step V sched k b2 s.
Proof.
  intros k b1 b2 s Hb. unfold memo_step. rewrite !Hb. reflexivity.
Qed.

Lemma run_cached_step : forall k (body : prog V) cont s,
  fst (run_cached sched (Call k body cont) s) =
  let '(v, s1) := memo_step V sched k (fun s0 => fst (run_cached sched body s0)) s in
  fst (run_cached sched (cont v) s1).
Proof.
  intros k body cont s. cbn [run_cached]. unfold memo_step.
  destruct (sched (mclock s)).
  - destruct (get (mcache s) k) as [c1 [v|]].
    + destruct (run_cached sched (cont v) (mkM c1 (S (mclock s)))) as [[r s'] lg]. reflexivity.
    + destruct (run_cached sched body (mkM (mcache s) (S (mclock s)))) as [[v s1] lg1]. cbn [fst].
      destruct (run_cached sched (cont v) _) as [[r s'] lg2]. reflexivity.
  - destruct (run_cached sched body (mkM (mcache s) (S (mclock s)))) as [[v s1] lg1]. cbn [fst].
    destruct (run_cached sched (cont v) s1) as [[r s'] lg2]. reflexivity.
Qed.

Lemma run_with_ext : forall (st1 st2 : key -> (mstate V -> V * mstate V) -> mstate V -> V * mstate V),
  (forall k b1 b2 s, (forall s0, b1 s0 = b2 s0) -> st1 k b1 s = st2 k b2 s) ->
  forall p s, run_with V st1 p s = run_with V st2 p s.
Proof.
  intros st1 st2 H. induction p as [v|k body IHb cont IHc]; intro s; cbn [run_with]; [reflexivity|].
  rewrite (H k (run_with V st1 body) (run_with V st2 body) s IHb).
  destruct (st2 k (run_with V st2 body) s) as [v s1]. apply IHc.
Qed.

Theorem run_with_memo_step : forall p s,
  run_with V (memo_step V sched) p s = fst (run_cached sched p s).
Proof.
  induction p as [v|k body IHb cont IHc]; intro s; [reflexivity|].
  rewrite run_cached_step. cbn [run_with].
  rewrite (memo_step_ext k (run_with V (memo_step V sched) body) (fun s0 => fst (run_cached sched body s0)) s IHb).
  destruct (memo_step V sched k _ s) as [v s1]. apply IHc.
Qed.
End StepProofs.

(** sx renderings of ignore-order diff results and finite-table oracles for
    the correspondence check (C05 / C17).  No theorem depends on this file. *)
From Coq Require Import List ZArith NArith Bool Arith String.
Import ListNotations.
From DD Require Import Base.Sx Base.PyStr Base.Value Diff.Tree Diff.DiffModel Diff.DiffShow
  Hash.HashModel DiffIO.DiffIOModel.
Local Open Scope string_scope.

Definition sx_rep (r : repinfo) : sx :=
  SL [sx_path (rpath r); SL (map sx_nat (rold r)); SL (map sx_nat (rnew r))].
Definition sx_io (r : res) : sx :=
  SL [sx_sorted_list sx_entry (fst r); sx_sorted_list sx_rep (snd r)].

(* the pairing oracle as a table: level path -> [(j, i)] *)
Definition tbl_pairs (t : list (path * list (nat * nat))) (p : path) : list (nat * nat) :=
  match find (fun x => path_eqb (fst x) p) t with
  | Some x => snd x
  | None => []
  end.

(* DeepDiff(t1, t2, ignore_order=True, report_repetition=rep, threshold_to_diff_deeper=thr,
            view='tree') with the recorded pairings *)
Definition run_io (ud : list (pystr * pystr * pystr)) (c : cfg) (rep : bool)
           (ps : list (path * list (nat * nat))) (t1 t2 : value) : sx :=
  sx_io (run_diff_io hexhash (tbl_udiff ud) no_paths no_paths c rep (tbl_pairs ps) t1 t2).

(* verdict only *)
Definition run_io_verdict (c : cfg) (rep : bool) (ps : list (path * list (nat * nat))) (t1 t2 : value) : sx :=
  sx_bool (match fst (run_diff_io hexhash (fun _ _ => []) no_paths no_paths c rep (tbl_pairs ps) t1 t2) with
           | [] => true | _ => false end).

(* validity of every recorded pairing: the harness passes, per level, the two
   item lists of that level *)
Definition run_valid (c : cfg) (rep : bool) (l : list (list value * list value * list (nat * nat))) : sx :=
  sx_bool (forallb (fun x => valid_pairs_at hexhash c rep (fst (fst x)) (snd (fst x)) (snd x)) l).

(** C17 / finding K17: the guard [consistent] for the distance calls is exactly a
    property of the cache key.  The distance of a pair is a function [dist added removed]
    of the ORDERED pair of hashes.  With an oriented key (injective in the ordered pair)
    every program of distance calls is consistent by construction, for every [dist];
    with the sorted key of diff.py:1153 it is consistent when [dist] is symmetric, and
    any asymmetric pair needed in both orientations refutes transparency. *)
From Coq Require Import List ZArith Bool Arith Lia.
Import ListNotations.
From DD Require Import Lfu.LfuModel DiffIO.MemoModel DiffIO.MemoProofs.

Section Keys.
Variables A V : Type.
Variable okey : A -> A -> key.                       (* key1 + '--' + key2, unsorted *)
Variable inv : key -> option (A * A).
Hypothesis inv_okey : forall a r, inv (okey a r) = Some (a, r).     (* the oriented key is injective *)
Variable dist : A -> A -> V.                         (* rough distance of DeepDiff(removed, added) *)
Variable dflt : V.
Variable gt : A -> A -> bool.                        (* added_hash > removed_hash *)

(* _get_distance_cache_key: the larger hash first *)
Definition skey (a r : A) : key := if gt a r then okey a r else okey r a.

(* every memoised call of the program is a distance call: its key is [key_of added removed] and
   its body evaluates to [dist added removed] *)
Fixpoint dist_calls (key_of : A -> A -> key) (p : prog V) : Prop :=
  match p with
  | Ret _ => True
  | Call k body cont =>
      (exists a r, k = key_of a r /\ run_pure body = dist a r) /\
      dist_calls key_of body /\ forall v, dist_calls key_of (cont v)
  end.

Definition spec_of_dist (k : key) : V :=
  match inv k with Some (a, r) => dist a r | None => dflt end.

Theorem oriented_key_consistent : forall p, dist_calls okey p -> consistent spec_of_dist p.
Proof.
  induction p as [v|k body IHb cont IHc]; cbn [dist_calls consistent]; [auto|].
  intros [[a [r [-> Hv]]] [Hb Hc]]. split; [auto|]. split; [|auto].
  unfold spec_of_dist. rewrite inv_okey. exact Hv.
Qed.

Corollary oriented_key_transparent : forall p, dist_calls okey p ->
  forall cap sched, fst (fst (run_cached sched p (mkM (empty cap) 0))) = run_pure p.
Proof. intros p Hp cap sched. eapply cache_transparent. apply oriented_key_consistent. exact Hp. Qed.

Lemma skey_inv a r : inv (skey a r) = Some (a, r) \/ inv (skey a r) = Some (r, a).
Proof. unfold skey. destruct (gt a r); rewrite inv_okey; auto. Qed.

Theorem sorted_key_consistent_if_symmetric :
  (forall a r, dist a r = dist r a) -> forall p, dist_calls skey p -> consistent spec_of_dist p.
Proof.
  intro Hsym. induction p as [v|k body IHb cont IHc]; cbn [dist_calls consistent]; [auto|].
  intros [[a [r [-> Hv]]] [Hb Hc]]. split; [auto|]. split; [|auto].
  unfold spec_of_dist. destruct (skey_inv a r) as [E|E]; rewrite E; [exact Hv|rewrite Hv; apply Hsym].
Qed.

(* one asymmetric pair, needed in both orientations *)
Definition both_orientations (a r : A) : prog V :=
  Call (skey a r) (Ret (dist a r)) (fun _ => Call (skey r a) (Ret (dist r a)) (fun y => Ret y)).

Theorem sorted_key_refuted : forall a r,
  gt a r = true -> gt r a = false -> dist a r <> dist r a ->
  dist_calls skey (both_orientations a r) /\
  run_pure (both_orientations a r) = dist r a /\
  fst (fst (run_cached (fun _ => true) (both_orientations a r) (mkM (empty 2) 0))) = dist a r /\
  forall spec, ~ consistent spec (both_orientations a r).
Proof.
  intros a r G1 G2 Hne.
  assert (Ek : skey r a = skey a r) by (unfold skey; rewrite G1, G2; reflexivity).
  split; [|split; [reflexivity|split]].
  - cbn. split; [exists a, r; auto|]. split; [exact I|]. intros _. split; [exists r, a; auto|]. split; [exact I|]. intros; exact I.
  - unfold both_orientations. rewrite Ek. cbn [run_cached mclock mcache].
    assert (Eg : forall k (v : V), get (set (empty 2) k v) k = (mkL 2 (move_forward k [mkB 0 [(k, v)]]), Some v)).
    { intros k v. unfold set, get. cbn. rewrite !Z.eqb_refl. reflexivity. }
    unfold get at 1. cbn [find_key buckets empty run_cached mclock mcache].
    rewrite Eg. reflexivity.
  - intros spec [_ [H1 [_ [H2 _]]]]. cbn in H1, H2. rewrite Ek in H2. apply Hne. congruence.
Qed.
End Keys.

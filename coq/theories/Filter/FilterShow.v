(** Correspondence-side renderings for C13 (no theorem depends on this file). *)
From Coq Require Import List ZArith NArith Bool String.
Import ListNotations.
From DD Require Import Base.Sx Base.PyStr Base.Value Diff.Tree Diff.DiffModel Diff.DiffShow
  Path.PathModel Filter.FilterModel Filter.FilterModelV.
Local Open Scope string_scope.

(* the reported levels of a run (sorted; the recorded opcode paths are C01's business) *)
Definition sx_entries (r : list entry * list path) : sx := sx_sorted_list sx_entry (fst r).

(* DeepDiff(t1, t2, view='tree', exclude_paths=ex, exclude_regex_paths=<table rxt>, include_paths=inc) *)
Definition c13_case (ud : list (pystr * pystr * pystr)) (ot : list (path * list opcode))
    (rxt : list path) (ex inc : list pystr) (c : cfg) (t1 t2 : value) : sx :=
  sx_entries (run_filtered hatom_simple (tbl_udiff ud) (tbl_ops ot) (tbl_paths rxt) ex inc c t1 t2).

(* the individual predicates, for table-level correspondence *)
Definition c13_skip (rxt : list path) (ex inc : list pystr) (p : path) : sx :=
  sx_bool (skip_this (tbl_paths rxt) (add_root_to_paths ex) (add_root_to_paths inc) p).

(* the same with the DeepHash-side exclusion of set members; rxht = the (set path, member index) pairs some
   pattern matches *)
Definition tbl_hits (t : list (path * nat)) (p : path) (i : nat) : bool :=
  existsb (fun x => path_eqb (fst x) p && Nat.eqb (snd x) i) t.
Definition c13_case_h (ud : list (pystr * pystr * pystr)) (ot : list (path * list opcode))
    (rxt : list path) (rxht : list (path * nat)) (ex inc : list pystr) (c : cfg) (t1 t2 : value) : sx :=
  sx_entries (run_filtered_h hatom_simple (tbl_udiff ud) (tbl_ops ot) (tbl_paths rxt) (tbl_hits rxht) ex inc c t1 t2).

(* the whole of _skip_this: exclude_types = TY, the callbacks as truth tables over the sub-values of the inputs
   (a callback that is not given: [] for the exclude callbacks, None for the include callbacks) *)
Definition tbl_values (t : list value) (v : value) : bool := existsb (value_eqb v) t.
Definition c13_case_v (ud : list (pystr * pystr * pystr)) (ot : list (path * list opcode))
    (rxt : list path) (rxht : list (path * nat)) (ex inc : list pystr)
    (TY : list ty) (cbt cbst : list value) (icbt icbst : option (list value)) (c : cfg) (t1 t2 : value) : sx :=
  sx_entries (run_full hatom_simple (tbl_udiff ud) (tbl_ops ot) (tbl_paths rxt) (tbl_hits rxht) ex inc
                TY (tbl_values cbt) (tbl_values cbst) (option_map tbl_values icbt) (option_map tbl_values icbst) c t1 t2).

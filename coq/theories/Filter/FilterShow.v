(** Correspondence-side renderings for C13 (no theorem depends on this file). *)
From Coq Require Import List ZArith NArith Bool String.
Import ListNotations.
From DD Require Import Base.Sx Base.PyStr Base.Value Diff.Tree Diff.DiffModel Diff.DiffShow
  Path.PathModel Filter.FilterModel Filter.FilterModelV Filter.FilterProofs Filter.FilterWitness Filter.FilterInclude Filter.FilterGuard Filter.FilterExact Filter.FilterIndep Filter.FilterIndepG Filter.FilterExactD.
Local Open Scope string_scope.

(* the reported levels of a run (sorted; the recorded opcode paths are C01's business) *)
Definition sx_entries (r : list entry * list path) : sx := sx_sorted_list sx_entry (fst r).

(* DeepDiff(t1, t2, view='tree', exclude_paths=ex, exclude_regex_paths=<table rxt>, include_paths=inc) *)
Definition c13_case (ud : list (pystr * pystr * pystr)) (ot : list (path * list opcode))
    (rxt : list path) (ex inc : list pystr) (c : cfg) (t1 t2 : value) : sx :=
  sx_entries (run_filtered hatom_simple (tbl_udiff ud) (tbl_ops ot) (tbl_paths rxt) ex inc c t1 t2).

(* the individual predicates, for table-level correspondence *)
Definition c13_skip (rxt : list path) (ex inc : list pystr) (p : path) : sx :=
  sx_bool (skip_this (tbl_paths rxt) (add_root_to_paths ex) (add_root_to_paths inc) p).

(* the same with the DeepHash-side exclusion of set members; rxht = the (set path, member index) pairs some
   pattern matches *)
Definition tbl_hits (t : list (path * nat)) (p : path) (i : nat) : bool :=
  existsb (fun x => path_eqb (fst x) p && Nat.eqb (snd x) i) t.
Definition c13_case_h (ud : list (pystr * pystr * pystr)) (ot : list (path * list opcode))
    (rxt : list path) (rxht : list (path * nat)) (ex inc : list pystr) (c : cfg) (t1 t2 : value) : sx :=
  sx_entries (run_filtered_h hatom_simple (tbl_udiff ud) (tbl_ops ot) (tbl_paths rxt) (tbl_hits rxht) ex inc c t1 t2).

(* the whole of _skip_this: exclude_types = TY, the callbacks as truth tables over the sub-values of the inputs
   (a callback that is not given: [] for the exclude callbacks, None for the include callbacks) *)
Definition tbl_values (t : list value) (v : value) : bool := existsb (value_eqb v) t.
Definition c13_case_v (ud : list (pystr * pystr * pystr)) (ot : list (path * list opcode))
    (rxt : list path) (rxht : list (path * nat)) (ex inc : list pystr)
    (TY : list ty) (cbt cbst : list value) (icbt icbst : option (list value)) (c : cfg) (t1 t2 : value) : sx :=
  sx_entries (run_full hatom_simple (tbl_udiff ud) (tbl_ops ot) (tbl_paths rxt) (tbl_hits rxht) ex inc
                TY (tbl_values cbt) (tbl_values cbst) (option_map tbl_values icbt) (option_map tbl_values icbst) c t1 t2).

(* the hypotheses of the guarded theorems evaluated on the inputs of real runs:
   C13_exclude_threshold_exact - the Coq boolean [xguard] must equal "the filter equation holds on the implementation";
   C13_include_guarded - [iguard] (with the key guards) must imply it *)
Definition c13_xguard (rxt : list path) (ex : list pystr) (c : cfg) (t1 t2 : value) : sx :=
  sx_bool (xguard (excluded (tbl_paths rxt) ex) (excl_this (add_root_to_paths ex)) c t1 t2).
Definition c13_iguard_implies (Q : list path) (c : cfg) (t1 t2 : value) (equation_holds : bool) : sx :=
  sx_bool (negb (forallb (forallb qkey) Q && (forallb (forallb str_key) Q || forallb (forallb nodigit_key) Q) &&
                 keys_all ok_atom t1 && keys_all ok_atom t2 && iguard Q c t1 t2)
           || equation_holds).

(* C13_exclude_independent_guarded: its hypotheses (alias-free keys, the guard on both pairs, equal prunings - with the
   skipped content blanked, or at threshold 0 deleted) must imply "the two real runs report the same (kind, path, path) list" *)
Definition c13_indep_implies (rxt : list path) (ex : list pystr) (c : cfg) (t1 t2 t1b t2b : value) (same : bool) : sx :=
  let P := excluded (tbl_paths rxt) ex in
  let E := excl_this (add_root_to_paths ex) in
  let hyp := fun del : bool =>
    (negb del || Nat.eqb (thr_num c) 0) && mguard0 del P E c t1 t2 && mguard0 del P E c t1b t2b &&
    value_eqb (prune del P [] t1) (prune del P [] t1b) && value_eqb (prune del P [] t2) (prune del P [] t2b) in
  sx_bool (negb (keys_all key_plain t1 && keys_all key_plain t2 && keys_all key_plain t1b && keys_all key_plain t2b &&
                 (hyp false || hyp true)) || same).

(* C13_exclude_threshold_exact_any_mode on a real run in ANY mode: [lguard] implies ([xguard] = "the equation holds") *)
Definition c13_xguard_any (rxt : list path) (ex : list pystr) (c : cfg) (t1 t2 : value) (equation_holds : bool) : sx :=
  let P := excluded (tbl_paths rxt) ex in
  let E := excl_this (add_root_to_paths ex) in
  sx_bool (negb (lguard P E c t1 t2) || Bool.eqb (xguard P E c t1 t2) equation_holds).

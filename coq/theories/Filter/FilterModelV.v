(** C13 - the whole of DeepDiff._skip_this (deepdiff/diff.py:504-543): besides the three path options
    (Filter/FilterModel.v) the branches that look at the OBJECTS of the level,

        exclude_types                 isinstance(level.t1, T) or isinstance(level.t2, T)
        exclude_obj_callback          cb(level.t1, path) or cb(level.t2, path)
        exclude_obj_callback_strict   cb(level.t1, path) and cb(level.t2, path)
        include_obj_callback          (level != root)  skip unless cb(t1) or cb(t2)
        include_obj_callback_strict   (level != root)  skip unless cb(t1) and cb(t2)

    with the code's precedence: ONE if / elif chain - the include_paths branch (non-root levels) shadows
    every other branch; otherwise the first branch whose option is set AND whose test fires decides; the
    include_obj_callback branches overwrite the verdict of the literal exclude_paths test.

    The skip test therefore takes the two objects of the level ([None] = notpresent), and the diff has to
    hand them over at every place _skip_this is consulted: [diffv] is [FilterModel.diffh] with such a
    skip test (definitions only; [FilterV.diffv_path_only]: with a test that ignores the objects it IS
    [diffh]).  Callbacks are oracles [value -> bool] (they ignore the path argument and answer False on
    notpresent; the harness hands over their truth tables). *)
From Coq Require Import List ZArith NArith Bool Arith.
Import ListNotations.
From DD Require Import Base.PyStr Base.Value Diff.Tree Diff.DiffModel Path.PathModel Filter.FilterModel.

Definition vskip := path -> option value -> option value -> bool.

(* isinstance(v, t) on the builtin types of the universe: bool is a subclass of int *)
Definition isinstance (v : value) (t : ty) : bool :=
  ty_eqb (type_of v) t || (match t, type_of v with TInt, TBool => true | _, _ => false end).
Definition ty_hit (T : list ty) (o : option value) : bool :=
  match o with Some v => existsb (isinstance v) T | None => false end.
Definition cbv (f : value -> bool) (o : option value) : bool :=
  match o with Some v => f v | None => false end.
Definition no_cb (_ : value) : bool := false.

Section SkipFull.
Variable rx : path -> bool.                       (* exclude_regex_paths (truth table of re.search) *)
Variable EX INC : list pystr.                     (* exclude_paths / include_paths after add_root_to_paths *)
Variable TY : list ty.                            (* exclude_types *)
Variable cb cbs : value -> bool.                  (* exclude_obj_callback(_strict); absent = constant false *)
Variable icb icbs : option (value -> bool).       (* include_obj_callback(_strict); None = not given *)

Definition skip_full (p : path) (a b : option value) : bool :=
  let lp := render p in
  let skip0 := mem_str lp EX in
  match INC, is_root p with
  | _ :: _, false =>
      if negb (mem_str lp INC)
      then negb (existsb (fun pre => contains_sub pre lp || contains_sub lp pre) INC)
      else skip0
  | _, _ =>
      if rx p then true
      else if ty_hit TY a || ty_hit TY b then true
      else if cbv cb a || cbv cb b then true
      else if cbv cbs a && cbv cbs b then true
      else match icb, is_root p with
           | Some f, false => negb (cbv f a || cbv f b)
           | _, _ =>
               match icbs, is_root p with
               | Some g, false => negb (cbv g a && cbv g b)
               | _, _ => skip0
               end
           end
  end.
End SkipFull.

Section DiffV.
Variable hatom : atom -> pystr.
Variable udiff : pystr -> pystr -> pystr.
Variable ops : path -> list value -> list value -> list opcode.
Variable skip : vskip.
Variable excl : path -> bool.
Variable kf : path -> atom -> bool.
Variable hit : path -> nat -> bool.
Variable c : cfg.

(* _report_result *)
Definition reportv (k : rkind) (p1 p2 : path) (a b : option value) (d : option pystr) : list entry :=
  if skip p1 a b then [] else [mkEntry k p1 p2 a b d].

Definition diff_atomv (a b : atom) (p1 p2 : path) : list entry :=
  if skip p1 (Some (VAtom a)) (Some (VAtom b)) then [] else
  if negb (ty_eqb (atom_ty a) (atom_ty b)) then reportv KType p1 p2 (Some (VAtom a)) (Some (VAtom b)) None
  else match a, b with
  | AStr s, AStr t =>
      let '(ch, d) := diff_str udiff false s t in
      if ch then reportv KValue p1 p2 (Some (VAtom a)) (Some (VAtom b)) d else []
  | ABytes s, ABytes t =>
      let '(ch, d) := diff_str udiff true s t in
      if ch then reportv KValue p1 p2 (Some (VAtom a)) (Some (VAtom b)) d else []
  | _, _ => if py_eq a b then [] else reportv KValue p1 p2 (Some (VAtom a)) (Some (VAtom b)) None
  end.

Definition diff_leafv (x y : value) (p1 p2 : path) : list entry :=
  match x, y with
  | VAtom a, VAtom b => diff_atomv a b p1 p2
  | _, _ => []
  end.

Fixpoint removed_fromv (xs : list value) (i : nat) (p1 p2 : path) : list entry :=
  match xs with
  | [] => []
  | x :: r => reportv KIterRem (snoc p1 (PIdx i)) (snoc p2 (PIdx i)) (Some x) None None
              ++ removed_fromv r (S i) p1 p2
  end.
Fixpoint added_fromv (ys : list value) (j : nat) (p1 p2 : path) : list entry :=
  match ys with
  | [] => []
  | y :: r => reportv KIterAdd (snoc p1 (PIdx j)) (snoc p2 (PIdx j)) None (Some y) None
              ++ added_fromv r (S j) p1 p2
  end.

Fixpoint pairs_leafv (xs ys : list value) (i j : nat) (p1 p2 : path) {struct xs} : list entry :=
  match xs, ys with
  | [], _ => added_fromv ys j p1 p2
  | _ :: _, [] => removed_fromv xs i p1 p2
  | x :: xs', y :: ys' =>
      (if negb (Nat.eqb i j) && py_eq_leaf x y
       then reportv KIterMoved (snoc p1 (PIdx i)) (snoc p2 (PIdx j)) (Some x) (Some y) None
       else diff_leafv x y (snoc p1 (PIdx i)) (snoc p2 (PIdx j)))
      ++ pairs_leafv xs' ys' (S i) (S j) p1 p2
  end.

Definition by_opcodesv (os : list opcode) (xs ys : list value) (p1 p2 : path) : list entry :=
  flat_map (fun o =>
    match otag o with
    | OEqual => []
    | OReplace => pairs_leafv (slice xs (oi1 o) (oi2 o)) (slice ys (oj1 o) (oj2 o)) (oi1 o) (oj1 o) p1 p2
    | ODelete => removed_fromv (slice xs (oi1 o) (oi2 o)) (oi1 o) p1 p2
    | OInsert => added_fromv (slice ys (oj1 o) (oj2 o)) (oj1 o) p1 p2
    end) os.

Definition default_leaf_listv (xs ys : list value) (p1 p2 : path) : list entry * bool :=
  let pass1 := by_opcodesv (ops p1 xs ys) xs ys p1 p2 in
  if Nat.ltb 1 (length pass1) then
    let pass2 := pairs_leafv xs ys 0 0 p1 p2 in
    if Nat.leb (length pass2) (length pass1) then (pass2, false) else (pass1, true)
  else (pass1, false).

(* the level of a set item: path of the set, objects (item, notpresent) / (notpresent, item) *)
Definition report_setv (k : rkind) (a : atom) (p1 p2 : path) : list entry :=
  let t1 := match k with KSetAdd => None | _ => Some (VAtom a) end in
  let t2 := match k with KSetAdd => Some (VAtom a) | _ => None end in
  if skip p1 t1 t2 then [] else [mkEntry k p1 p2 t1 t2 None].
Definition diff_setv (xs ys : list atom) (p1 p2 : path) : list entry :=
  let hx := map hatom xs in
  let hy := map hatom ys in
  flat_map (fun y => if existsb (pystr_eqb (hatom y)) hx then []
                     else report_setv KSetAdd y p1 p2) (first_per_hash hatom ys [])
  ++ flat_map (fun x => if existsb (pystr_eqb (hatom x)) hy then []
                        else report_setv KSetRem x p1 p2) (first_per_hash hatom xs []).
Definition diff_set_hv (h : nat -> bool) (xs ys : list atom) (p1 p2 : path) : list entry :=
  let '(xs', m) := members_kept h [] xs 0 in
  let '(ys', _) := members_kept h m ys 0 in
  diff_setv xs' ys' p1 p2.

Fixpoint diffv (t1 t2 : value) (p1 p2 : path) {struct t1} : list entry * list path :=
  if skip p1 (Some t1) (Some t2) then ([], []) else
  if negb (ty_eqb (type_of t1) (type_of t2))
  then (reportv KType p1 p2 (Some t1) (Some t2) None, [])
  else
  match t1, t2 with
  | VAtom a, VAtom b => (diff_atomv a b p1 p2, [])
  | VDict kvs1, VDict kvs2 =>
      let k1 := keys_x kf c p1 kvs1 in
      let k2 := keys_x kf c p1 kvs2 in
      if dict_shortcut excl c k1 k2 p1 then (reportv KValue p1 p2 (Some t1) (Some t2) None, [])
      else
        let added := flat_map (fun k => if mem_atom k k1 then []
                       else reportv KDictAdd (snoc p1 (PKey k)) (snoc p2 (PKey k)) None (assoc k kvs2) None) k2 in
        let removed := flat_map (fun k => if mem_atom k k2 then []
                       else reportv KDictRem (snoc p1 (PKey k)) (snoc p2 (PKey k)) (assoc k kvs1) None None) k1 in
        let common :=
          (fix go (l : list (atom * value)) : list entry * list path :=
             match l with
             | [] => ([], [])
             | (k, v1) :: r =>
                 let rest := go r in
                 if keep_key c k && negb (kf p1 k) then
                   match find (py_eq k) k2 with
                   | Some k' =>
                       match assoc k' kvs2 with
                       | Some v2 => app2 (diffv v1 v2 (snoc p1 (PKey k')) (snoc p2 (PKey k'))) rest
                       | None => rest
                       end
                   | None => rest
                   end
                 else rest
             end) kvs1 in
        (added ++ removed ++ fst common, snd common)
  | VList xs, VList ys | VTuple xs, VTuple ys =>
      if negb (zip c) && forallb is_atom xs && forallb is_atom ys
      then let '(es, rec) := default_leaf_listv xs ys p1 p2 in (es, if rec then [p1] else [])
      else
        (fix go (xs ys : list value) (i : nat) {struct xs} : list entry * list path :=
           match xs, ys with
           | [], _ => (added_fromv ys i p1 p2, [])
           | _ :: _, [] => (removed_fromv xs i p1 p2, [])
           | x :: xs', y :: ys' =>
               app2 (diffv x y (snoc p1 (PIdx i)) (snoc p2 (PIdx i))) (go xs' ys' (S i))
           end) xs ys 0
  | VSet xs, VSet ys | VFrozen xs, VFrozen ys => (diff_set_hv (hit p1) xs ys p1 p2, [])
  | _, _ => ([], [])
  end.

Definition run_diffv (t1 t2 : value) : list entry * list path :=
  let '(es, rec) := diffv t1 t2 [] [] in (mutual es, rec).
End DiffV.

(* a skip test that ignores the objects *)
Definition path_only (sk : path -> bool) : vskip := fun p _ _ => sk p.

(* DeepDiff(t1, t2, exclude_paths=, exclude_regex_paths=, include_paths=, exclude_types=, exclude_obj_callback=,
            exclude_obj_callback_strict=, include_obj_callback=, include_obj_callback_strict=) *)
Definition run_full hatom udiff ops (rx : path -> bool) (rxh : path -> nat -> bool)
    (ex_arg inc_arg : list pystr) (TY : list ty) (cb cbs : value -> bool) (icb icbs : option (value -> bool))
    (c : cfg) (t1 t2 : value) : list entry * list path :=
  let EX := add_root_to_paths ex_arg in
  let INC := add_root_to_paths inc_arg in
  run_diffv hatom udiff ops (skip_full rx EX INC TY cb cbs icb icbs) (excl_this EX) (skip_this_key INC)
            (hit_this rxh EX) c t1 t2.

(** C13 - exclusion (literal exclude_paths, exclude_regex_paths) as an instance
    of the general theorem; [diffx] without key filter is the lead's [diff];
    the deeper-threshold union. *)
From Coq Require Import List ZArith NArith Bool Arith Lia.
Import ListNotations.
From DD Require Import Base.PyStr Base.Value Base.ValueFacts Diff.Tree Diff.DiffModel Diff.DiffFacts
  Path.PathModel Filter.FilterModel Filter.FilterFacts Filter.FilterProofs.

(* ------------------------------------------------------------------ *)
(* diffx no_kf = diff                                                  *)
(* ------------------------------------------------------------------ *)
Section NoKf.
Variable hatom : atom -> pystr.
Variable udiff : pystr -> pystr -> pystr.
Variable ops : path -> list value -> list value -> list opcode.
Variable skip excl : path -> bool.
Variable c : cfg.
Notation dX := (diffx hatom udiff ops skip excl no_kf c).
Notation dL := (diff hatom udiff ops skip excl c).

Lemma gox_common_no_kf kvs2 k2 p1 p2 l :
  Forall (fun kv => forall t2 q1 q2, dX (snd kv) t2 q1 q2 = dL (snd kv) t2 q1 q2) l ->
  gox_common no_kf c dX kvs2 k2 p1 p2 l = go_common c dL kvs2 k2 p1 p2 l.
Proof.
  induction 1 as [|[k v1] l Hx _ IH]; [reflexivity|]. cbn [gox_common go_common]. cbn [snd] in Hx.
  unfold no_kf at 1. cbn [negb]. rewrite andb_true_r, IH.
  destruct (keep_key c k); [|reflexivity]. destruct (find (py_eq k) k2) as [k'|]; [|reflexivity].
  destruct (assoc k' kvs2) as [v2|]; [|reflexivity]. rewrite Hx. reflexivity.
Qed.

Lemma gox_list_no_kf p1 p2 xs :
  Forall (fun t1 => forall t2 q1 q2, dX t1 t2 q1 q2 = dL t1 t2 q1 q2) xs ->
  forall ys i, gox_list skip dX p1 p2 xs ys i = go_list skip dL p1 p2 xs ys i.
Proof.
  induction 1 as [|x xs Hx _ IH]; intros ys i; [reflexivity|].
  destruct ys as [|y ys]; [reflexivity|]. cbn [gox_list go_list]. rewrite Hx, IH. reflexivity.
Qed.

Lemma diffx_no_kf t1 : forall t2 p1 p2, dX t1 t2 p1 p2 = dL t1 t2 p1 p2.
Proof.
  induction t1 as [a|xs IH|xs IH|kvs IH|xs|xs] using value_ind'; intros t2 p1 p2;
  (destruct (skip p1) eqn:S; [rewrite diffx_skip, diff_skip by exact S; reflexivity|]);
  (match goal with |- diffx _ _ _ _ _ _ _ ?t1 _ _ _ = _ =>
     destruct (ty_eqb (type_of t1) (type_of t2)) eqn:T end;
    [|rewrite diffx_type, diff_type by assumption; reflexivity]);
  apply same_type_shape in T; inversion T; subst.
  - rewrite diffx_atom, diff_atom_eq by assumption. rewrite H0. reflexivity.
  - rewrite diffx_list, diff_list by assumption. unfold seqx_body, seq_body.
    destruct (negb (zip c) && forallb is_atom xs && forallb is_atom ys); [reflexivity|].
    apply gox_list_no_kf; exact IH.
  - rewrite diffx_tuple, diff_tuple by assumption. unfold seqx_body, seq_body.
    destruct (negb (zip c) && forallb is_atom xs && forallb is_atom ys); [reflexivity|].
    apply gox_list_no_kf; exact IH.
  - rewrite diffx_dict, diff_dict by assumption. unfold dictx_body, dict_body.
    rewrite !keys_x_no_kf. destruct (dict_shortcut excl c _ _ p1); [reflexivity|].
    rewrite gox_common_no_kf by exact IH. reflexivity.
  - rewrite diffx_vset, diff_vset by assumption. reflexivity.
  - rewrite diffx_vfrozen, diff_vfrozen by assumption. reflexivity.
Qed.

Lemma run_diffx_no_kf t1 t2 :
  run_diffx hatom udiff ops skip excl no_kf c t1 t2 = run_diff hatom udiff ops skip excl c t1 t2.
Proof. unfold run_diffx, run_diff. rewrite diffx_no_kf. reflexivity. Qed.
End NoKf.

(* ------------------------------------------------------------------ *)
(* prefixes / not_under                                                *)
(* ------------------------------------------------------------------ *)
Lemma prefixes_snoc p k : prefixes (snoc p k) = prefixes p ++ [snoc p k].
Proof.
  unfold snoc. induction p as [|a p IH]; cbn; [reflexivity|].
  rewrite IH, map_app. reflexivity.
Qed.

Lemma prefixes_head p : exists r, prefixes p = [] :: r.
Proof. destruct p; cbn; eauto. Qed.

Lemma prefixes_self p : In p (prefixes p).
Proof.
  induction p as [|a p IH]; cbn; [left; reflexivity|]. right. apply in_map. exact IH.
Qed.

Section NotUnder.
Variable P : path -> bool.

Lemma not_under_snoc p k : not_under P (snoc p k) = not_under P p && negb (P (snoc p k)).
Proof.
  unfold not_under. rewrite prefixes_snoc, existsb_app. cbn. rewrite orb_false_r. apply negb_orb.
Qed.

Lemma not_under_self p : not_under P p = true -> P p = false.
Proof.
  unfold not_under. intros H. apply negb_true_iff in H.
  destruct (P p) eqn:E; [|reflexivity].
  assert (existsb P (prefixes p) = true) by (apply existsb_exists; exists p; split; [apply prefixes_self|exact E]).
  congruence.
Qed.

Lemma not_under_root_excluded p : P [] = true -> not_under P p = false.
Proof.
  intros H. unfold not_under. destruct (prefixes_head p) as [r ->]. cbn. rewrite H. reflexivity.
Qed.

Lemma not_under_nil : not_under P [] = negb (P []).
Proof. unfold not_under. cbn. rewrite orb_false_r. reflexivity. Qed.
End NotUnder.

(* ------------------------------------------------------------------ *)
(* the deeper-threshold union                                          *)
(* ------------------------------------------------------------------ *)
Lemma shortcut_thr0 excl c k1 k2 p : thr_num c = 0 -> dict_shortcut excl c k1 k2 p = false.
Proof. intros T. unfold dict_shortcut. rewrite T. reflexivity. Qed.

(* subtracting excluded keys from the union can only turn a whole-dict
   report into a deeper diff, never the other way round *)
Lemma shortcut_monotone excl c k1 k2 p :
  dict_shortcut excl c k1 k2 p = true -> dict_shortcut no_skip c k1 k2 p = true.
Proof.
  unfold dict_shortcut. destruct (thr_num c =? 0); [discriminate|].
  set (union := k2 ++ filter (fun k => negb (mem_atom k k2)) k1).
  assert (L : length (filter (fun k => negb (excl (snoc p (PKey k)))) union) <=
              length (filter (fun k => negb (no_skip (snoc p (PKey k)))) union)).
  { unfold no_skip. cbn. rewrite filter_true. clear. induction union as [|a l IH]; cbn; [lia|].
    destruct (negb (excl (snoc p (PKey a)))); cbn; lia. }
  intros H. apply andb_true_iff in H as [H1 H2]. apply Nat.ltb_lt in H1, H2.
  apply andb_true_iff. split; apply Nat.ltb_lt; [lia|]. nia.
Qed.

(* ------------------------------------------------------------------ *)
(* exclusion is a pure filter                                          *)
(* ------------------------------------------------------------------ *)
Section Exclude.
Variable hatom : atom -> pystr.
Variable udiff : pystr -> pystr -> pystr.
Variable ops : path -> list value -> list value -> list opcode.
Variable c : cfg.
Variable P : path -> bool.              (* _skip_this: literal and / or regex exclusion *)
Variable excl excl' : path -> bool.

(* positional mode, or no excluded path ends in a sequence index (unless an
   ancestor is excluded already) *)
Definition idx_closed : Prop :=
  forall p i, not_under P p = true -> P (snoc p (PIdx i)) = false.

Hypothesis Hmode : zip c = true \/ idx_closed.
Hypothesis Hstab : forall k1 k2 p, dict_shortcut excl c k1 k2 p = dict_shortcut excl' c k1 k2 p.

Theorem exclude_filter_gen t1 t2 : wf t2 = true ->
  fst (run_diff hatom udiff ops P excl c t1 t2) =
  filter (fun e => not_under P (ep1 e)) (fst (run_diff hatom udiff ops no_skip excl' c t1 t2)).
Proof.
  intros W. destruct (P []) eqn:Root.
  - unfold run_diff at 1. rewrite diff_skip by exact Root. cbn.
    symmetry. apply filter_none. intros e _. apply not_under_root_excluded. exact Root.
  - rewrite <- !run_diffx_no_kf.
    apply (run_general hatom udiff ops c P no_kf excl excl' (not_under P) (fun _ => true) (fun _ => true));
      try reflexivity; try assumption.
    + intros p _ H. apply not_under_self. exact H.
    + intros p k H. rewrite not_under_snoc in H. apply andb_true_iff in H as [H _]. exact H.
    + intros p a _ _ H E. rewrite not_under_snoc, H in E. cbn in E. apply negb_false_iff in E. right. exact E.
    + intros p i _ H E. rewrite not_under_snoc, H in E. cbn in E. apply negb_false_iff in E. exact E.
    + destruct Hmode as [Z|I]; [left; exact Z|right]. intros p H. left. intros i.
      rewrite not_under_snoc, H, (I p i H). reflexivity.
    + right. reflexivity.
    + apply keys_all_true.
    + apply keys_all_true.
    + rewrite not_under_nil, Root. reflexivity.
Qed.
End Exclude.

(** C13 - the exact characterisation of finding K13a in EVERY alignment mode.

    [lguard P E c t1 t2]  (input-level, threshold-free): along the common positions the filter keeps, no pair of all-atom
        sequences has its index children partly kept and partly dropped (in positional mode: vacuous).
    [exclude_guard_exact_any_mode]  under [lguard], for well-formed inputs, the filter equation holds IFF [xguard] - i.e.
        iff no dictionary the filtered run compares flips its whole-dict shortcut.  What is left inexact in the default
        mode is exactly the all-atom-sequence clause ([lguard] itself is sufficient, not necessary).
    [lguard_of_mode]  positional mode / predicates not ending in an index meet [lguard]: Filter/FilterExact.exclude_guard_exact
        is an instance. *)
From Coq Require Import List ZArith NArith Bool Arith Lia.
Import ListNotations.
From DD Require Import Base.PyStr Base.Value Base.ValueFacts Diff.Tree Diff.DiffModel Diff.DiffFacts Diff.DiffPaths
  Path.PathModel Filter.FilterModel Filter.FilterFacts Filter.FilterProofs Filter.FilterExclude
  Filter.FilterThreshold Filter.FilterInclude Filter.FilterGuard Filter.FilterExact.

Definition cfg0 (c : cfg) : cfg := mkCfg (zip c) 0 (thr_den c) (ignore_private c).
Definition lguard (P E : path -> bool) (c : cfg) (t1 t2 : value) : bool :=
  guard (cfg0 c) no_kf E no_skip (not_under P) t1 t2 [].

Section NecessaryD.
Variable hatom : atom -> pystr.
Variable udiff : pystr -> pystr -> pystr.
Variable ops : path -> list value -> list value -> list opcode.
Variable c : cfg.
Variable P E : path -> bool.
Notation R := (not_under P).
Notation dF := (diffx hatom udiff ops P E no_kf c).
Notation d0 := (diffx hatom udiff ops no_skip no_skip no_kf c).
Notation G := (guard c no_kf E no_skip R).
Notation G0 := (guard (cfg0 c) no_kf E no_skip R).

(* an entry of the unrestricted tree that the filter keeps and at whose path the filtered tree reports nothing *)
Definition lostD (es0 esF : list entry) (e : entry) : Prop :=
  In e es0 /\ R (ep1 e) = true /\ ekind e = KValue /\ forall e', In e' esF -> ep1 e' <> ep1 e.

Definition NecD (t1 : value) : Prop := forall t2 p1 p2,
  wf t1 = true -> wf t2 = true -> R p1 = true -> G0 t1 t2 p1 = true -> G t1 t2 p1 = false ->
  exists e, lostD (fst (d0 t1 t2 p1 p2)) (fst (dF t1 t2 p1 p2)) e.

Lemma list_necD p1 p2 xs : Forall NecD xs ->
  forall ys i, forallb wf xs = true -> forallb wf ys = true -> g_list R G p1 xs ys i = false -> g_list R G0 p1 xs ys i = true ->
  exists e m, i <= m /\ ext (snoc p1 (PIdx m)) (ep1 e) /\
    lostD (fst (gox_list no_skip d0 p1 p2 xs ys i)) (fst (gox_list P dF p1 p2 xs ys i)) e.
Proof.
  induction 1 as [|x xs Hx _ IH]; intros ys i W1 W2 Hs H0; [discriminate Hs|].
  destruct ys as [|y ys]; [discriminate Hs|].
  cbn [g_list] in H0. apply andb_true_iff in H0 as [H0a H0b].
  cbn [forallb] in W1, W2. apply andb_true_iff in W1 as [Wx W1]. apply andb_true_iff in W2 as [Wy W2].
  cbn [g_list] in Hs. cbn [gox_list]. unfold app2. cbn [fst].
  destruct (R (snoc p1 (PIdx i))) eqn:Ri.
  - destruct (G x y (snoc p1 (PIdx i))) eqn:Gx.
    + cbn [andb] in Hs. destruct (IH ys (S i) W1 W2 Hs H0b) as (e & m & L & X & I0 & Re & K & N).
      exists e, m. split; [lia|]. split; [exact X|]. split; [apply in_or_app; right; exact I0|].
      split; [exact Re|]. split; [exact K|]. intros e' H'. apply in_app_or in H' as [H'|H']; [|apply N; exact H'].
      intros Q. apply diffx_ext in H'. rewrite Q in H'. pose proof (ext_snoc_inj _ _ _ _ H' X) as J. inversion J. lia.
    + destruct (Hx y (snoc p1 (PIdx i)) (snoc p2 (PIdx i)) Wx Wy Ri H0a Gx) as (e & I0 & Re & K & N).
      exists e, i. split; [lia|]. split; [eapply diffx_ext; exact I0|]. split; [apply in_or_app; left; exact I0|].
      split; [exact Re|]. split; [exact K|]. intros e' H'. apply in_app_or in H' as [H'|H']; [apply N; exact H'|].
      intros Q. apply (gox_list_low P dF p1 p2 (diffx_ext hatom udiff ops P E no_kf c)) in H' as (m & L & X).
      rewrite Q in X. apply diffx_ext in I0. pose proof (ext_snoc_inj _ _ _ _ X I0) as J. inversion J. lia.
  - cbn [andb] in Hs. destruct (IH ys (S i) W1 W2 Hs H0b) as (e & m & L & X & I0 & Re & K & N).
    exists e, m. split; [lia|]. split; [exact X|]. split; [apply in_or_app; right; exact I0|].
    split; [exact Re|]. split; [exact K|]. intros e' H'. apply in_app_or in H' as [H'|H']; [|apply N; exact H'].
    intros Q. apply diffx_ext in H'. rewrite Q in H'. pose proof (ext_snoc_inj _ _ _ _ H' X) as J. inversion J. lia.
Qed.

Lemma assoc_wfD k kvs2 v2 : forallb (fun kv => wf (snd kv)) kvs2 = true -> assoc k kvs2 = Some v2 -> wf v2 = true.
Proof.
  intros W A. apply assoc_In in A as (k' & Hin & _). rewrite forallb_forall in W. apply (W _ Hin).
Qed.

Lemma common_necD p1 p2 kvs2 l : forallb (fun kv => wf (snd kv)) kvs2 = true ->
  Forall (fun kv => NecD (snd kv)) l ->
  nodup_atoms (map fst l) = true -> forallb (fun kv => wf (snd kv)) l = true ->
  g_common c R G kvs2 p1 l = false -> g_common c R G0 kvs2 p1 l = true ->
  exists e k v1 k', In (k, v1) l /\ keep_key c k = true /\ find (py_eq k) (keys_of c kvs2) = Some k' /\
    ext (snoc p1 (PKey k')) (ep1 e) /\
    lostD (fst (gox_common no_kf c d0 kvs2 (keys_of c kvs2) p1 p2 l)) (fst (gox_common no_kf c dF kvs2 (keys_of c kvs2) p1 p2 l)) e.
Proof.
  intros W2. induction 1 as [|[k v1] l Hx _ IH]; intros N W1 Hs H0; [discriminate Hs|].
  cbn [g_common] in H0. apply andb_true_iff in H0 as [H0a H0b].
  cbn [map fst] in N. pose proof N as N0. cbn [nodup_atoms] in N. apply andb_true_iff in N as [_ Nl].
  cbn [forallb snd] in W1. apply andb_true_iff in W1 as [Wv W1]. cbn [snd] in Hx.
  cbn [g_common] in Hs. cbn [gox_common]. unfold no_kf at 1 3. cbn [negb]. rewrite !andb_true_r.
  (* the witness comes from the rest of the list *)
  assert (REST : g_common c R G kvs2 p1 l = false ->
    forall hd0 hdF : list entry,
    (forall e', In e' hdF -> exists k', find (py_eq k) (keys_of c kvs2) = Some k' /\ ext (snoc p1 (PKey k')) (ep1 e')) ->
    exists e k0 v0 k', In (k0, v0) ((k, v1) :: l) /\ keep_key c k0 = true /\ find (py_eq k0) (keys_of c kvs2) = Some k' /\
      ext (snoc p1 (PKey k')) (ep1 e) /\
      lostD (hd0 ++ fst (gox_common no_kf c d0 kvs2 (keys_of c kvs2) p1 p2 l))
           (hdF ++ fst (gox_common no_kf c dF kvs2 (keys_of c kvs2) p1 p2 l)) e).
  { intros Hs' hd0 hdF HF. destruct (IH Nl W1 Hs' H0b) as (e & k0 & v0 & k' & I1 & KK & Fd & X & I0 & Re & K & Nn).
    exists e, k0, v0, k'. split; [right; exact I1|]. split; [exact KK|]. split; [exact Fd|]. split; [exact X|].
    split; [apply in_or_app; right; exact I0|]. split; [exact Re|]. split; [exact K|].
    intros e' H'. apply in_app_or in H' as [H'|H']; [|apply Nn; exact H'].
    intros Q. destruct (HF e' H') as (k'' & Fd' & X'). rewrite Q in X'.
    pose proof (ext_snoc_inj _ _ _ _ X' X) as J. inversion J. subst k''.
    pose proof (same_target _ _ _ _ Fd' Fd) as PE. rewrite (nodup_head_fresh k l k0 v0 N0 I1) in PE. discriminate PE. }
  destruct (keep_key c k) eqn:KK.
  2:{ cbn [andb] in Hs. destruct (REST Hs [] []) as (e & k0 & v0 & k' & A); [intros e' []|]. exists e, k0, v0, k'. exact A. }
  destruct (find (py_eq k) (keys_of c kvs2)) as [k'|] eqn:Fd.
  2:{ cbn [andb] in Hs. destruct (REST Hs [] []) as (e & k0 & v0 & k'' & A); [intros e' []|]. exists e, k0, v0, k''. exact A. }
  destruct (assoc k' kvs2) as [v2|] eqn:A.
  2:{ cbn [andb] in Hs. destruct (REST Hs [] []) as (e & k0 & v0 & k'' & B); [intros e' []|]. exists e, k0, v0, k''. exact B. }
  unfold app2. cbn [fst].
  assert (HF : forall e', In e' (fst (dF v1 v2 (snoc p1 (PKey k')) (snoc p2 (PKey k')))) ->
             exists k'', Some k' = Some k'' /\ ext (snoc p1 (PKey k'')) (ep1 e')).
  { intros e' H'. exists k'. split; [reflexivity|eapply diffx_ext; exact H']. }
  destruct (R (snoc p1 (PKey k'))) eqn:Rk.
  - destruct (G v1 v2 (snoc p1 (PKey k'))) eqn:Gv.
    + cbn [andb] in Hs. apply (REST Hs); exact HF.
    + destruct (Hx v2 (snoc p1 (PKey k')) (snoc p2 (PKey k')) Wv (assoc_wfD _ _ _ W2 A) Rk H0a Gv) as (e & I0 & Re & K & Nn).
      exists e, k, v1, k'. split; [left; reflexivity|]. split; [exact KK|]. split; [exact Fd|].
      split; [eapply diffx_ext; exact I0|]. split; [apply in_or_app; left; exact I0|]. split; [exact Re|]. split; [exact K|].
      intros e' H'. apply in_app_or in H' as [H'|H']; [apply Nn; exact H'|].
      intros Q. apply gox_common_inv in H' as (ka & va & k'a & v2a & Ia & _ & Fa & _ & H').
      apply diffx_ext in H'. rewrite Q in H'. apply diffx_ext in I0.
      pose proof (ext_snoc_inj _ _ _ _ H' I0) as J. inversion J. subst k'a.
      pose proof (same_target _ _ _ _ Fd Fa) as PE. rewrite (nodup_head_fresh k l ka va N0 Ia) in PE. discriminate PE.
  - cbn [andb] in Hs. apply (REST Hs); exact HF.
Qed.

Lemma keys_of_inD kvs k v : In (k, v) kvs -> keep_key c k = true -> In k (keys_of c kvs).
Proof. intros H K. unfold keys_of. apply filter_In. split; [apply (in_map fst) in H; exact H|exact K]. Qed.

Lemma added_x_inD sk k1 k2 kvs2 p1 p2 e : In e (added_x sk k1 k2 kvs2 p1 p2) ->
  exists a, In a k2 /\ mem_atom a k1 = false /\ ep1 e = snoc p1 (PKey a).
Proof.
  unfold added_x. intros H. apply in_flat_map in H as (a & Ha & H). destruct (mem_atom a k1) eqn:M; [destruct H|].
  apply report_in in H. exists a. auto.
Qed.
Lemma removed_x_inD sk k1 k2 kvs1 p1 p2 e : In e (removed_x sk k1 k2 kvs1 p1 p2) ->
  exists a, In a k1 /\ mem_atom a k2 = false /\ ep1 e = snoc p1 (PKey a).
Proof.
  unfold removed_x. intros H. apply in_flat_map in H as (a & Ha & H). destruct (mem_atom a k2) eqn:M; [destruct H|].
  apply report_in in H. exists a. auto.
Qed.

Lemma dict_necD p1 p2 kvs1 kvs2 : R p1 = true ->
  Forall (fun kv => NecD (snd kv)) kvs1 -> wf (VDict kvs1) = true -> wf (VDict kvs2) = true ->
  g_dict c no_kf E no_skip R G p1 kvs1 kvs2 = false -> g_common c R G0 kvs2 p1 kvs1 = true ->
  exists e, lostD (fst (dictx_body hatom udiff ops no_skip no_skip no_kf c kvs1 kvs2 p1 p2))
                 (fst (dictx_body hatom udiff ops P E no_kf c kvs1 kvs2 p1 p2)) e.
Proof.
  intros Rp F W1 W2 Hs H0. cbn [wf] in W1, W2. apply andb_true_iff in W1 as [N1 W1]. apply andb_true_iff in W2 as [N2 W2].
  unfold g_dict in Hs. unfold dictx_body. rewrite !keys_x_no_kf in *.
  destruct (dict_shortcut no_skip c (keys_of c kvs1) (keys_of c kvs2) p1) eqn:SC0;
  destruct (dict_shortcut E c (keys_of c kvs1) (keys_of c kvs2) p1) eqn:SCE;
    try (cbn in Hs; discriminate Hs).
  - (* the flip: the unrestricted run reports the whole dictionary, the filtered one goes deeper *)
    exists (mkEntry KValue p1 p2 (Some (VDict kvs1)) (Some (VDict kvs2)) None).
    split; [cbn; left; reflexivity|]. split; [exact Rp|]. split; [reflexivity|].
    cbn [fst ep1]. intros e' H' Q. apply in_app_or in H' as [H'|H']; [|apply in_app_or in H' as [H'|H']].
    + apply added_x_inD in H' as (a & _ & _ & X). rewrite X in Q. apply (ext_snoc_strict p1 (PKey a)). rewrite Q. apply ext_refl.
    + apply removed_x_inD in H' as (a & _ & _ & X). rewrite X in Q. apply (ext_snoc_strict p1 (PKey a)). rewrite Q. apply ext_refl.
    + apply gox_common_inv in H' as (k & v1 & k' & v2 & _ & _ & _ & _ & H'). apply diffx_ext in H'. rewrite Q in H'.
      exact (ext_snoc_strict _ _ H').
  - apply (shortcut_monotone E) in SCE. congruence.
  - cbn [Bool.eqb andb orb] in Hs.
    destruct (common_necD p1 p2 kvs2 kvs1 W2 F N1 W1 Hs H0) as (e & k & v1 & k' & I1 & KK & Fd & X & I0 & Re & K & Nn).
    exists e. cbn [fst]. split; [apply in_or_app; right; apply in_or_app; right; exact I0|].
    split; [exact Re|]. split; [exact K|]. intros e' H' Q.
    destruct (find_in _ _ _ Fd) as [Hin Pk].
    apply in_app_or in H' as [H'|H']; [|apply in_app_or in H' as [H'|H']].
    + apply added_x_inD in H' as (a & _ & M & Y). rewrite Q in Y. rewrite Y in X. apply snoc_ext_eq in X. inversion X. subst a.
      assert (mem_atom k' (keys_of c kvs1) = true); [|congruence].
      apply mem_atom_In. exists k. split; [apply (keys_of_inD kvs1 k v1 I1 KK)|rewrite py_eq_sym; exact Pk].
    + apply removed_x_inD in H' as (a & _ & M & Y). rewrite Q in Y. rewrite Y in X. apply snoc_ext_eq in X. inversion X. subst a.
      assert (mem_atom k' (keys_of c kvs2) = true); [|congruence].
      apply mem_atom_In. exists k'. split; [exact Hin|apply py_eq_refl].
    + exact (Nn e' H' Q).
Qed.

Lemma G0_dict kvs1 kvs2 p : G0 (VDict kvs1) (VDict kvs2) p = g_common c R G0 kvs2 p kvs1.
Proof. rewrite guard_dict. unfold g_dict. rewrite !shortcut_thr0 by reflexivity. reflexivity. Qed.

Theorem nec_allD t1 : NecD t1.
Proof.
  induction t1 as [a|xs IH|xs IH|kvs IH|xs|xs] using value_ind'; intros t2 p1 p2 W1 W2 Rp H0 Hs;
    destruct t2 as [b|ys|ys|kvs2|ys|ys]; try discriminate Hs;
    pose proof (not_under_self P p1 Rp) as S0.
  - rewrite guard_list in Hs, H0. unfold g_seq in Hs, H0. cbn [cfg0 zip] in H0.
    rewrite !diffx_list by (assumption || reflexivity). unfold seqx_body.
    destruct (negb (zip c) && forallb is_atom xs && forallb is_atom ys) eqn:D; [congruence|].
    cbn [wf] in W1, W2. destruct (list_necD p1 p2 xs IH ys 0 W1 W2 Hs H0) as (e & m & _ & _ & L). exists e. exact L.
  - rewrite guard_tuple in Hs, H0. unfold g_seq in Hs, H0. cbn [cfg0 zip] in H0.
    rewrite !diffx_tuple by (assumption || reflexivity). unfold seqx_body.
    destruct (negb (zip c) && forallb is_atom xs && forallb is_atom ys) eqn:D; [congruence|].
    cbn [wf] in W1, W2. destruct (list_necD p1 p2 xs IH ys 0 W1 W2 Hs H0) as (e & m & _ & _ & L). exists e. exact L.
  - rewrite guard_dict in Hs. rewrite G0_dict in H0. rewrite !diffx_dict by (assumption || reflexivity). apply dict_necD; assumption.
Qed.

Theorem exclude_guard_necessaryD t1 t2 : wf t1 = true -> wf t2 = true -> lguard P E c t1 t2 = true ->
  xguard P E c t1 t2 = false ->
  fst (run_diff hatom udiff ops P E c t1 t2) <>
  filter (fun e => R (ep1 e)) (fst (run_diff hatom udiff ops no_skip no_skip c t1 t2)).
Proof.
  intros W1 W2 L Hs. unfold xguard in Hs. apply orb_false_iff in Hs as [Root Hs].
  assert (Rp : R [] = true) by (rewrite not_under_nil, Root; reflexivity).
  destruct (nec_allD t1 t2 [] [] W1 W2 Rp L Hs) as (e & I0 & Re & K & Nn).
  rewrite <- !run_diffx_no_kf. unfold run_diffx.
  destruct (dF t1 t2 [] []) as [esF recF]. destruct (d0 t1 t2 [] []) as [es0 rec0]. cbn [fst] in *.
  intros Q.
  assert (In e (filter (fun e => R (ep1 e)) (mutual es0))).
  { apply filter_In. split; [apply mutual_keeps_value; assumption|exact Re]. }
  rewrite <- Q in H. apply mutual_In_paths in H as (e0 & H0 & E1 & _). exact (Nn e0 H0 (eq_sym E1)).
Qed.
End NecessaryD.

(* EVERY mode: exact whenever no pair of all-atom sequences is split *)
Theorem exclude_guard_exact_any_mode hatom udiff ops c P E t1 t2 :
  lguard P E c t1 t2 = true -> wf t1 = true -> wf t2 = true ->
  (fst (run_diff hatom udiff ops P E c t1 t2) =
   filter (fun e => not_under P (ep1 e)) (fst (run_diff hatom udiff ops no_skip no_skip c t1 t2))
   <-> xguard P E c t1 t2 = true).
Proof.
  intros L W1 W2. split.
  - intros Q. destruct (xguard P E c t1 t2) eqn:X; [reflexivity|]. exfalso.
    exact (exclude_guard_necessaryD hatom udiff ops c P E t1 t2 W1 W2 L X Q).
  - apply exclude_filter_guard. exact W2.
Qed.

(* positional mode / predicates not ending in an index: no sequence is ever split *)
Lemma lguard_of_mode c P E t1 t2 : zip c = true \/ idx_closed P -> P [] = false -> lguard P E c t1 t2 = true.
Proof.
  intros M Root. unfold lguard.
  apply (guard_of_global (cfg0 c) no_kf E no_skip (not_under P)).
  - destruct M as [Z|I]; [left; exact Z|right]. intros p H. left. intros i. rewrite not_under_snoc, H, (I p i H). reflexivity.
  - left. reflexivity.
  - intros k1 k2 p. rewrite !shortcut_thr0 by reflexivity. reflexivity.
  - rewrite not_under_nil, Root. reflexivity.
Qed.

(** C13 - the path options are pure filters: the general theorem.

    [filter_general]: for ANY skip predicate [sk], key filter [kf] and "kept"
    predicate [R] on key sequences that are coherent (a kept level is never
    skipped, a level that is not kept is dropped - by the key filter or by the
    skip test - as soon as its parent is kept, [R] is closed under taking
    parents) the filtered run reports exactly the entries of the unrestricted
    run whose path is kept.  Exclusion (literal / regex) and inclusion are
    instances (FilterExclude.v, FilterInclude.v). *)
From Coq Require Import List ZArith NArith Bool Arith Lia.
Import ListNotations.
From DD Require Import Base.PyStr Base.Value Base.ValueFacts Diff.Tree Diff.DiffModel
  Path.PathModel Filter.FilterModel Filter.FilterFacts.

Definition ext (p q : path) : Prop := exists l, q = p ++ l.

Lemma ext_refl p : ext p p.
Proof. exists []. rewrite app_nil_r. reflexivity. Qed.
Lemma ext_snoc p k q : ext (snoc p k) q -> ext p q.
Proof. intros [l ->]. exists (k :: l). apply snoc_app. Qed.
Lemma ext_self_snoc p k : ext p (snoc p k).
Proof. exists [k]. reflexivity. Qed.

Fixpoint keys_all (ok : atom -> bool) (v : value) : bool :=
  match v with
  | VAtom _ => true
  | VList xs | VTuple xs => forallb (keys_all ok) xs
  | VDict kvs => forallb (fun kv => ok (fst kv) && keys_all ok (snd kv)) kvs
  | VSet _ | VFrozen _ => true
  end.

Lemma keys_all_true v : keys_all (fun _ => true) v = true.
Proof.
  induction v using value_ind'; cbn; try reflexivity.
  - apply forallb_forall. intros x Hx. rewrite Forall_forall in H. apply H; exact Hx.
  - apply forallb_forall. intros x Hx. rewrite Forall_forall in H. apply H; exact Hx.
  - apply forallb_forall. intros x Hx. rewrite Forall_forall in H. apply H; exact Hx.
Qed.

(* ------------------------------------------------------------------ *)
(* where the entries of the leaf functions lie                         *)
(* ------------------------------------------------------------------ *)
Ltac in_rep :=
  repeat match goal with
  | H : In _ [] |- _ => destruct H
  | H : In _ (report _ _ _ _ _ _ _) |- _ =>
      unfold report in H
  | H : In _ [_] |- _ => destruct H as [H|[]]; subst
  | H : In _ (if ?b then _ else _) |- _ => destruct b eqn:?
  | H : In _ (let '(_, _) := ?x in _) |- _ => destruct x
  | H : In _ (match ?x with _ => _ end) |- _ => destruct x
  end.

Section Support.
Variable hatom : atom -> pystr.
Variable udiff : pystr -> pystr -> pystr.
Variable ops : path -> list value -> list value -> list opcode.
Variable skip excl : path -> bool.
Variable kf : path -> atom -> bool.
Variable c : cfg.

Lemma report_in k p1 p2 a b d e : In e (report skip k p1 p2 a b d) -> ep1 e = p1.
Proof. unfold report. destruct (skip p1); [intros []|]. intros [<-|[]]. reflexivity. Qed.

Lemma diff_atom_in a b p1 p2 e : In e (diff_atom udiff skip a b p1 p2) -> ep1 e = p1.
Proof. unfold diff_atom. intros H. in_rep; reflexivity. Qed.

Lemma diff_leaf_in x y p1 p2 e : In e (diff_leaf udiff skip x y p1 p2) -> ep1 e = p1.
Proof. unfold diff_leaf. destruct x, y; try (intros []). apply diff_atom_in. Qed.

Lemma added_from_in ys : forall j p1 p2 e,
  In e (added_from skip ys j p1 p2) -> exists i, ep1 e = snoc p1 (PIdx i).
Proof.
  induction ys as [|y ys IH]; cbn; intros j p1 p2 e H; [destruct H|].
  apply in_app_or in H as [H|H]; [apply report_in in H; eauto|eapply IH; exact H].
Qed.

Lemma removed_from_in xs : forall j p1 p2 e,
  In e (removed_from skip xs j p1 p2) -> exists i, ep1 e = snoc p1 (PIdx i).
Proof.
  induction xs as [|x xs IH]; cbn; intros j p1 p2 e H; [destruct H|].
  apply in_app_or in H as [H|H]; [apply report_in in H; eauto|eapply IH; exact H].
Qed.

Lemma pairs_leaf_in xs : forall ys i j p1 p2 e,
  In e (pairs_leaf udiff skip xs ys i j p1 p2) -> exists n, ep1 e = snoc p1 (PIdx n).
Proof.
  induction xs as [|x xs IH]; intros ys i j p1 p2 e H.
  - cbn in H. eapply added_from_in; exact H.
  - destruct ys as [|y ys].
    + eapply (removed_from_in (x :: xs)); exact H.
    + cbn [pairs_leaf] in H. apply in_app_or in H as [H|H]; [|eapply IH; exact H].
      destruct (negb (i =? j) && py_eq_leaf x y).
      * apply report_in in H. eauto.
      * apply diff_leaf_in in H. eauto.
Qed.

Lemma by_opcodes_in os xs ys p1 p2 e :
  In e (by_opcodes udiff skip os xs ys p1 p2) -> exists n, ep1 e = snoc p1 (PIdx n).
Proof.
  unfold by_opcodes. intros H. apply in_flat_map in H as (o & _ & H).
  destruct (otag o); [destruct H| | |].
  - eapply pairs_leaf_in; exact H.
  - eapply removed_from_in; exact H.
  - eapply added_from_in; exact H.
Qed.

Lemma default_leaf_list_in xs ys p1 p2 e :
  In e (fst (default_leaf_list udiff ops skip xs ys p1 p2)) -> exists n, ep1 e = snoc p1 (PIdx n).
Proof.
  unfold default_leaf_list.
  destruct (1 <? length (by_opcodes udiff skip (ops p1 xs ys) xs ys p1 p2)).
  - destruct (length (pairs_leaf udiff skip xs ys 0 0 p1 p2) <=?
              length (by_opcodes udiff skip (ops p1 xs ys) xs ys p1 p2)); cbn.
    + apply pairs_leaf_in.
    + apply by_opcodes_in.
  - cbn. apply by_opcodes_in.
Qed.

Lemma diff_set_in xs ys p1 p2 e : In e (diff_set hatom skip xs ys p1 p2) -> ep1 e = p1.
Proof.
  unfold diff_set. intros H. apply in_app_or in H as [H|H]; apply in_flat_map in H as (a & _ & H);
    unfold report_set in H; in_rep; reflexivity.
Qed.

Notation dX := (diffx hatom udiff ops skip excl kf c).

Lemma gox_list_ext p1 p2 xs :
  Forall (fun t1 => forall t2 q1 q2 e, In e (fst (dX t1 t2 q1 q2)) -> ext q1 (ep1 e)) xs ->
  forall ys i e, In e (fst (gox_list skip dX p1 p2 xs ys i)) -> ext p1 (ep1 e).
Proof.
  induction 1 as [|x xs Hx _ IH]; intros ys i e H.
  - cbn in H. apply added_from_in in H as [n ->]. apply ext_self_snoc.
  - destruct ys as [|y ys].
    + cbn [gox_list fst] in H. apply (removed_from_in (x :: xs)) in H as [n ->]. apply ext_self_snoc.
    + cbn [gox_list] in H. unfold app2 in H. cbn [fst] in H. apply in_app_or in H as [H|H].
      * apply Hx in H. eapply ext_snoc; exact H.
      * eapply IH; exact H.
Qed.

Lemma gox_common_ext kvs2 k2 p1 p2 l :
  Forall (fun kv => forall t2 q1 q2 e, In e (fst (dX (snd kv) t2 q1 q2)) -> ext q1 (ep1 e)) l ->
  forall e, In e (fst (gox_common kf c dX kvs2 k2 p1 p2 l)) -> ext p1 (ep1 e).
Proof.
  induction 1 as [|[k v1] l Hx _ IH]; intros e H; [destruct H|].
  cbn [gox_common] in H. cbn [snd] in Hx.
  destruct (keep_key c k && negb (kf p1 k)); [|apply IH; exact H].
  destruct (find (py_eq k) k2) as [k'|]; [|apply IH; exact H].
  destruct (assoc k' kvs2) as [v2|]; [|apply IH; exact H].
  unfold app2 in H. cbn [fst] in H. apply in_app_or in H as [H|H]; [|apply IH; exact H].
  apply Hx in H. eapply ext_snoc; exact H.
Qed.

Lemma diffx_ext t1 : forall t2 p1 p2 e, In e (fst (dX t1 t2 p1 p2)) -> ext p1 (ep1 e).
Proof.
  induction t1 as [a|xs IH|xs IH|kvs IH|xs|xs] using value_ind'; intros t2 p1 p2 e H;
  (destruct (skip p1) eqn:S; [rewrite diffx_skip in H by exact S; destruct H|]);
  (match type of H with In _ (fst (diffx _ _ _ _ _ _ _ ?t1 _ _ _)) =>
     destruct (ty_eqb (type_of t1) (type_of t2)) eqn:T end;
    [|rewrite diffx_type in H by assumption; cbn [fst] in H; apply report_in in H; rewrite H; apply ext_refl]);
  apply same_type_shape in T; inversion T; subst.
  - rewrite diffx_atom in H by assumption. apply diff_atom_in in H. rewrite H. apply ext_refl.
  - rewrite diffx_list in H by assumption. unfold seqx_body in H.
    destruct (negb (zip c) && forallb is_atom xs && forallb is_atom ys).
    + pose proof (default_leaf_list_in xs ys p1 p2 e) as D.
      destruct (default_leaf_list udiff ops skip xs ys p1 p2) as [es rec]. cbn [fst] in *.
      destruct (D H) as [n ->]. apply ext_self_snoc.
    + eapply gox_list_ext; eassumption.
  - rewrite diffx_tuple in H by assumption. unfold seqx_body in H.
    destruct (negb (zip c) && forallb is_atom xs && forallb is_atom ys).
    + pose proof (default_leaf_list_in xs ys p1 p2 e) as D.
      destruct (default_leaf_list udiff ops skip xs ys p1 p2) as [es rec]. cbn [fst] in *.
      destruct (D H) as [n ->]. apply ext_self_snoc.
    + eapply gox_list_ext; eassumption.
  - rewrite diffx_dict in H by assumption. unfold dictx_body in H.
    destruct (dict_shortcut excl c _ _ p1).
    + cbn [fst] in H. apply report_in in H. rewrite H. apply ext_refl.
    + cbn [fst] in H. apply in_app_or in H as [H|H]; [|apply in_app_or in H as [H|H]].
      * unfold added_x in H. apply in_flat_map in H as (k & _ & H).
        destruct (mem_atom k _); [destruct H|]. apply report_in in H. rewrite H. apply ext_self_snoc.
      * unfold removed_x in H. apply in_flat_map in H as (k & _ & H).
        destruct (mem_atom k _); [destruct H|]. apply report_in in H. rewrite H. apply ext_self_snoc.
      * eapply gox_common_ext; eassumption.
  - rewrite diffx_vset in H by assumption. apply diff_set_in in H. rewrite H. apply ext_refl.
  - rewrite diffx_vfrozen in H by assumption. apply diff_set_in in H. rewrite H. apply ext_refl.
Qed.

End Support.

(* ------------------------------------------------------------------ *)
(* a skip predicate that is false where the leaf functions report      *)
(* ------------------------------------------------------------------ *)
Section SkipFree.
Variable hatom : atom -> pystr.
Variable udiff : pystr -> pystr -> pystr.
Variable ops : path -> list value -> list value -> list opcode.
Variable sk : path -> bool.

Lemma diff_atom_free a b p1 p2 : sk p1 = false ->
  diff_atom udiff sk a b p1 p2 = diff_atom udiff no_skip a b p1 p2.
Proof. intros H. unfold diff_atom, report, no_skip. rewrite !H. reflexivity. Qed.

Lemma diff_leaf_free x y p1 p2 : sk p1 = false ->
  diff_leaf udiff sk x y p1 p2 = diff_leaf udiff no_skip x y p1 p2.
Proof. intros H. unfold diff_leaf. destruct x, y; try reflexivity. apply diff_atom_free; exact H. Qed.

Lemma diff_set_free xs ys p1 p2 : sk p1 = false ->
  diff_set hatom sk xs ys p1 p2 = diff_set hatom no_skip xs ys p1 p2.
Proof. intros H. unfold diff_set, report_set, no_skip. rewrite !H. reflexivity. Qed.

Section Idx.
Variables p1 p2 : path.
Hypothesis Hfree : forall i, sk (snoc p1 (PIdx i)) = false.

Lemma added_from_free ys : forall j, added_from sk ys j p1 p2 = added_from no_skip ys j p1 p2.
Proof.
  induction ys as [|y ys IH]; intros j; cbn; [reflexivity|]. rewrite IH. unfold report, no_skip. rewrite Hfree. reflexivity.
Qed.
Lemma removed_from_free xs : forall j, removed_from sk xs j p1 p2 = removed_from no_skip xs j p1 p2.
Proof.
  induction xs as [|x xs IH]; intros j; cbn; [reflexivity|]. rewrite IH. unfold report, no_skip. rewrite Hfree. reflexivity.
Qed.
Lemma pairs_leaf_free xs : forall ys i j,
  pairs_leaf udiff sk xs ys i j p1 p2 = pairs_leaf udiff no_skip xs ys i j p1 p2.
Proof.
  induction xs as [|x xs IH]; intros ys i j.
  - cbn. apply added_from_free.
  - destruct ys as [|y ys]; [apply (removed_from_free (x :: xs))|].
    cbn [pairs_leaf]. rewrite IH. f_equal.
    destruct (negb (i =? j) && py_eq_leaf x y).
    + unfold report, no_skip. rewrite Hfree. reflexivity.
    + apply diff_leaf_free. apply Hfree.
Qed.
Lemma by_opcodes_free os xs ys :
  by_opcodes udiff sk os xs ys p1 p2 = by_opcodes udiff no_skip os xs ys p1 p2.
Proof.
  unfold by_opcodes. apply flat_map_ext. intros o. destruct (otag o); [reflexivity| | |].
  - apply pairs_leaf_free.
  - apply removed_from_free.
  - apply added_from_free.
Qed.
Lemma default_leaf_list_free xs ys :
  default_leaf_list udiff ops sk xs ys p1 p2 = default_leaf_list udiff ops no_skip xs ys p1 p2.
Proof. unfold default_leaf_list. rewrite !by_opcodes_free, !pairs_leaf_free. reflexivity. Qed.
End Idx.
End SkipFree.

(* every index child skipped: a leaf list reports nothing *)
Section SkipAll.
Variable udiff : pystr -> pystr -> pystr.
Variable ops : path -> list value -> list value -> list opcode.
Variable sk : path -> bool.
Variables p1 p2 : path.
Hypothesis Hall : forall i, sk (snoc p1 (PIdx i)) = true.

Lemma added_from_all ys : forall j, added_from sk ys j p1 p2 = [].
Proof. induction ys as [|y ys IH]; intros j; cbn; [reflexivity|]. rewrite IH. unfold report. rewrite Hall. reflexivity. Qed.
Lemma removed_from_all xs : forall j, removed_from sk xs j p1 p2 = [].
Proof. induction xs as [|x xs IH]; intros j; cbn; [reflexivity|]. rewrite IH. unfold report. rewrite Hall. reflexivity. Qed.
Lemma diff_leaf_all x y i j : diff_leaf udiff sk x y (snoc p1 (PIdx i)) (snoc p2 (PIdx j)) = [].
Proof. unfold diff_leaf. destruct x, y; try reflexivity. unfold diff_atom. rewrite Hall. reflexivity. Qed.
Lemma pairs_leaf_all xs : forall ys i j, pairs_leaf udiff sk xs ys i j p1 p2 = [].
Proof.
  induction xs as [|x xs IH]; intros ys i j.
  - cbn. apply added_from_all.
  - destruct ys as [|y ys]; [apply (removed_from_all (x :: xs))|].
    cbn [pairs_leaf]. rewrite IH, app_nil_r.
    destruct (negb (i =? j) && py_eq_leaf x y); [unfold report; rewrite Hall; reflexivity|apply diff_leaf_all].
Qed.
Lemma by_opcodes_all os xs ys : by_opcodes udiff sk os xs ys p1 p2 = [].
Proof.
  unfold by_opcodes. induction os as [|o os IH]; cbn [flat_map]; [reflexivity|]. rewrite IH, app_nil_r.
  destruct (otag o); [reflexivity|apply pairs_leaf_all|apply removed_from_all|apply added_from_all].
Qed.
Lemma default_leaf_list_all xs ys : default_leaf_list udiff ops sk xs ys p1 p2 = ([], false).
Proof. unfold default_leaf_list. rewrite !by_opcodes_all. reflexivity. Qed.
End SkipAll.

(* ------------------------------------------------------------------ *)
(* mutual_add_removes_to_become_value_changes commutes with a filter on *)
(* the t1-side path                                                     *)
(* ------------------------------------------------------------------ *)
Lemma filter_comm {A} (f g : A -> bool) l : filter f (filter g l) = filter g (filter f l).
Proof.
  induction l as [|a l IH]; cbn; [reflexivity|].
  destruct (g a) eqn:G, (f a) eqn:F; cbn; rewrite ?G, ?F, IH; reflexivity.
Qed.

Lemma flat_map_filter_commute {A B} (g : A -> bool) (g' : B -> bool) (h h' : A -> list B) l :
  (forall e, g e = true -> h' e = h e) -> (forall e o, In o (h e) -> g' o = g e) ->
  flat_map h' (filter g l) = filter g' (flat_map h l).
Proof.
  intros E O. induction l as [|a l IH]; cbn; [reflexivity|]. rewrite filter_app, <- IH.
  destruct (g a) eqn:G; cbn.
  - rewrite (E a G). f_equal. symmetry. apply filter_all. intros o Ho. rewrite (O a o Ho). exact G.
  - rewrite (filter_none g' (h a)); [reflexivity|]. intros o Ho. rewrite (O a o Ho). exact G.
Qed.

Section Mutual.
Variable f : path -> bool.
Let g (e : entry) : bool := f (ep1 e).

Lemma last_with_path_filter p l : f p = true ->
  last_with_path p (filter g l) = last_with_path p l.
Proof.
  intros H. unfold last_with_path. generalize (@None entry) as acc.
  induction l as [|e l IH]; intros acc; cbn; [reflexivity|].
  unfold g at 1. destruct (f (ep1 e)) eqn:F; cbn; [apply IH|].
  destruct (path_eqb (ep1 e) p) eqn:E; [|apply IH].
  apply path_eqb_eq in E. congruence.
Qed.

Definition mutual_step (added removed : list entry) (e : entry) : list entry :=
  match ekind e with
  | KIterRem =>
      match last_with_path (ep1 e) added with
      | Some a =>
          match last_with_path (ep1 e) removed with
          | Some r => [mkEntry KValue (ep1 e) (ep2 e) (et1 e) (et2 a) (ediff e)]
          | None => [e]
          end
      | None => [e]
      end
  | KIterAdd =>
      match last_with_path (ep1 e) removed with
      | Some _ => []
      | None => [e]
      end
  | _ => [e]
  end.

Lemma mutual_eq es :
  mutual es = flat_map (mutual_step (filter (is_kind KIterAdd) es) (filter (is_kind KIterRem) es)) es.
Proof. reflexivity. Qed.

Lemma mutual_step_ep1 A Rm e o : In o (mutual_step A Rm e) -> ep1 o = ep1 e.
Proof.
  unfold mutual_step. intros H.
  destruct (ekind e); try (destruct H as [<-|[]]; reflexivity).
  - destruct (last_with_path (ep1 e) Rm); [destruct H|destruct H as [<-|[]]; reflexivity].
  - destruct (last_with_path (ep1 e) A); [|destruct H as [<-|[]]; reflexivity].
    destruct (last_with_path (ep1 e) Rm); destruct H as [<-|[]]; reflexivity.
Qed.

Lemma mutual_filter es : mutual (filter g es) = filter g (mutual es).
Proof.
  rewrite !mutual_eq. rewrite !(filter_comm _ g).
  apply flat_map_filter_commute.
  - intros e G. unfold g in G. unfold mutual_step. rewrite !last_with_path_filter by exact G. reflexivity.
  - intros e o Ho. unfold g. rewrite (mutual_step_ep1 _ _ _ _ Ho). reflexivity.
Qed.
End Mutual.

(* ------------------------------------------------------------------ *)
(* the general theorem                                                 *)
(* ------------------------------------------------------------------ *)
Section General.
Variable hatom : atom -> pystr.
Variable udiff : pystr -> pystr -> pystr.
Variable ops : path -> list value -> list value -> list opcode.
Variable c : cfg.
Variable sk : path -> bool.                 (* _skip_this *)
Variable kf : path -> atom -> bool.         (* _skip_this_key *)
Variable excl excl' : path -> bool.         (* union reduction of the filtered / the reference run *)
Variable R : path -> bool.                  (* the paths that are kept *)
Variable okp : path -> bool.                (* the levels the hypotheses talk about ... *)
Variable okk : atom -> bool.                (* ... those reached through these dictionary keys *)

Hypothesis HGk : forall p a, okp p = true -> okk a = true -> okp (snoc p (PKey a)) = true.
Hypothesis HGi : forall p i, okp p = true -> okp (snoc p (PIdx i)) = true.
Hypothesis H1 : forall p, okp p = true -> R p = true -> sk p = false.
Hypothesis Hup : forall p k, R (snoc p k) = true -> R p = true.
Hypothesis Hkey : forall p a b, okp p = true -> okk a = true -> okk b = true -> R p = true ->
  py_eq a b = true -> R (snoc p (PKey b)) = true -> kf p a = false.
Hypothesis Hdropk : forall p a, okp p = true -> okk a = true -> R p = true ->
  R (snoc p (PKey a)) = false -> kf p a = true \/ sk (snoc p (PKey a)) = true.
Hypothesis Hdropi : forall p i, okp p = true -> R p = true ->
  R (snoc p (PIdx i)) = false -> sk (snoc p (PIdx i)) = true.
(* positional mode, or: at a kept level the index children are kept all together or dropped all together *)
Hypothesis Hmode : zip c = true \/
  (forall p, R p = true -> (forall i, R (snoc p (PIdx i)) = true) \/ (forall i, R (snoc p (PIdx i)) = false)).
Hypothesis Hthr : thr_num c = 0 \/ (forall p a, kf p a = false).
Hypothesis Hstab : forall k1 k2 p, dict_shortcut excl c k1 k2 p = dict_shortcut excl' c k1 k2 p.

Notation dF := (diffx hatom udiff ops sk excl kf c).
Notation d0 := (diffx hatom udiff ops no_skip excl' no_kf c).
Notation keepR := (keep_entry R).

Lemma R_below_false p l : R p = false -> R (p ++ l) = false.
Proof.
  intros H. induction l as [|k l IH] using rev_ind; [rewrite app_nil_r; exact H|].
  destruct (R (p ++ l ++ [k])) eqn:E; [|reflexivity].
  rewrite app_assoc in E. apply (Hup (p ++ l) k) in E. congruence.
Qed.

Lemma drop_all es p : R p = false -> (forall e, In e es -> ext p (ep1 e)) -> filter keepR es = [].
Proof.
  intros H X. apply filter_none. intros e He. destruct (X e He) as [l E]. unfold keep_entry.
  rewrite E. apply R_below_false. exact H.
Qed.

Lemma keep_at es p : R p = true -> (forall e, In e es -> ep1 e = p) -> filter keepR es = es.
Proof. intros H X. apply filter_all. intros e He. unfold keep_entry. rewrite (X e He). exact H. Qed.

Lemma report_R k p1 p2 a b d : okp p1 = true -> R p1 = true ->
  report sk k p1 p2 a b d = filter keepR (report no_skip k p1 p2 a b d).
Proof.
  intros G H. unfold report, no_skip. rewrite (H1 p1 G H). cbn. unfold keep_entry. cbn. rewrite H. reflexivity.
Qed.

(* a child level that is an index *)
Lemma sk_idx p i : okp p = true -> R p = true -> sk (snoc p (PIdx i)) = negb (R (snoc p (PIdx i))).
Proof.
  intros G H. destruct (R (snoc p (PIdx i))) eqn:E; cbn.
  - apply H1; [apply HGi; exact G|exact E].
  - apply Hdropi; assumption.
Qed.

Lemma report_idx_R k p1 p2 i a b d : okp p1 = true -> R p1 = true ->
  report sk k (snoc p1 (PIdx i)) p2 a b d = filter keepR (report no_skip k (snoc p1 (PIdx i)) p2 a b d).
Proof.
  intros G H. unfold report, no_skip. rewrite sk_idx by assumption. cbn. unfold keep_entry. cbn.
  destruct (R (snoc p1 (PIdx i))); reflexivity.
Qed.

Lemma added_from_R ys : forall j p1 p2, okp p1 = true -> R p1 = true ->
  added_from sk ys j p1 p2 = filter keepR (added_from no_skip ys j p1 p2).
Proof.
  induction ys as [|y ys IH]; intros j p1 p2 G H; cbn [added_from]; [reflexivity|].
  rewrite filter_app, <- IH, <- report_idx_R by assumption. reflexivity.
Qed.

Lemma removed_from_R xs : forall j p1 p2, okp p1 = true -> R p1 = true ->
  removed_from sk xs j p1 p2 = filter keepR (removed_from no_skip xs j p1 p2).
Proof.
  induction xs as [|x xs IH]; intros j p1 p2 G H; cbn [removed_from]; [reflexivity|].
  rewrite filter_app, <- IH, <- report_idx_R by assumption. reflexivity.
Qed.

(* ---- keys ---- *)
Lemma keys_x_no_kf p kvs : keys_x no_kf c p kvs = keys_of c kvs.
Proof. unfold keys_x, no_kf. cbn. apply filter_true. Qed.

Lemma keys_of_ok kvs a : forallb (fun kv => okk (fst kv) && keys_all okk (snd kv)) kvs = true ->
  In a (keys_of c kvs) -> okk a = true.
Proof.
  intros F Ha. unfold keys_of in Ha. apply filter_In in Ha as [Ha _]. apply in_map_iff in Ha as ([k v] & <- & Hin).
  rewrite forallb_forall in F. apply F in Hin. cbn in Hin. apply andb_true_iff in Hin as [Hin _]. exact Hin.
Qed.

Lemma mem_keys_R p k K : okp p = true -> R p = true -> okk k = true -> (forall a, In a K -> okk a = true) ->
  R (snoc p (PKey k)) = true ->
  mem_atom k (filter (fun a => negb (kf p a)) K) = mem_atom k K.
Proof.
  intros G H Ok OK E. unfold mem_atom. induction K as [|a K IH]; cbn; [reflexivity|].
  assert (IH' := IH (fun x Hx => OK x (or_intror Hx))).
  destruct (py_eq k a) eqn:P.
  - assert (P' : py_eq a k = true) by (rewrite py_eq_sym; exact P).
    rewrite (Hkey p a k G (OK a (or_introl eq_refl)) Ok H P' E).
    cbn. rewrite P. reflexivity.
  - destruct (kf p a); cbn; [|rewrite P]; exact IH'.
Qed.

Lemma added_R p1 p2 K1 K2 kvs2 : okp p1 = true -> R p1 = true ->
  (forall a, In a K1 -> okk a = true) -> (forall a, In a K2 -> okk a = true) ->
  added_x sk (filter (fun a => negb (kf p1 a)) K1) (filter (fun a => negb (kf p1 a)) K2) kvs2 p1 p2 =
  filter keepR (added_x no_skip K1 K2 kvs2 p1 p2).
Proof.
  intros G H O1 O2. unfold added_x. induction K2 as [|a K2 IH]; [reflexivity|].
  assert (IH' := IH (fun x Hx => O2 x (or_intror Hx))). assert (Oa := O2 a (or_introl eq_refl)).
  cbn [flat_map filter]. rewrite filter_app, <- IH'.
  destruct (R (snoc p1 (PKey a))) eqn:E.
  - rewrite (Hkey p1 a a G Oa Oa H (py_eq_refl a) E). cbn [negb flat_map]. f_equal.
    rewrite mem_keys_R by assumption. destruct (mem_atom a K1); [reflexivity|].
    unfold report, no_skip. rewrite (H1 _ (HGk _ _ G Oa) E). cbn. unfold keep_entry. cbn. rewrite E. reflexivity.
  - assert (Z : filter keepR (if mem_atom a K1 then [] else
                 report no_skip KDictAdd (snoc p1 (PKey a)) (snoc p2 (PKey a)) None (assoc a kvs2) None) = []).
    { destruct (mem_atom a K1); [reflexivity|]. unfold report, no_skip. cbn. unfold keep_entry. cbn. rewrite E. reflexivity. }
    rewrite Z. clear Z. cbn [app].
    destruct (kf p1 a) eqn:K; cbn [negb]; [reflexivity|]. cbn [flat_map].
    destruct (Hdropk p1 a G Oa H E) as [X|X]; [congruence|].
    match goal with |- (if ?m then _ else _) ++ _ = _ => destruct m end; [reflexivity|].
    unfold report. rewrite X. reflexivity.
Qed.

Lemma removed_R p1 p2 K1 K2 kvs1 : okp p1 = true -> R p1 = true ->
  (forall a, In a K1 -> okk a = true) -> (forall a, In a K2 -> okk a = true) ->
  removed_x sk (filter (fun a => negb (kf p1 a)) K1) (filter (fun a => negb (kf p1 a)) K2) kvs1 p1 p2 =
  filter keepR (removed_x no_skip K1 K2 kvs1 p1 p2).
Proof.
  intros G H O1 O2. unfold removed_x. induction K1 as [|a K1 IH]; [reflexivity|].
  assert (IH' := IH (fun x Hx => O1 x (or_intror Hx))). assert (Oa := O1 a (or_introl eq_refl)).
  cbn [flat_map filter]. rewrite filter_app, <- IH'.
  destruct (R (snoc p1 (PKey a))) eqn:E.
  - rewrite (Hkey p1 a a G Oa Oa H (py_eq_refl a) E). cbn [negb flat_map]. f_equal.
    rewrite mem_keys_R by assumption. destruct (mem_atom a K2); [reflexivity|].
    unfold report, no_skip. rewrite (H1 _ (HGk _ _ G Oa) E). cbn. unfold keep_entry. cbn. rewrite E. reflexivity.
  - assert (Z : filter keepR (if mem_atom a K2 then [] else
                 report no_skip KDictRem (snoc p1 (PKey a)) (snoc p2 (PKey a)) (assoc a kvs1) None None) = []).
    { destruct (mem_atom a K2); [reflexivity|]. unfold report, no_skip. cbn. unfold keep_entry. cbn. rewrite E. reflexivity. }
    rewrite Z. clear Z. cbn [app].
    destruct (kf p1 a) eqn:K; cbn [negb]; [reflexivity|]. cbn [flat_map].
    destruct (Hdropk p1 a G Oa H E) as [X|X]; [congruence|].
    match goal with |- (if ?m then _ else _) ++ _ = _ => destruct m end; [reflexivity|].
    unfold report. rewrite X. reflexivity.
Qed.

Definition Main (t1 : value) : Prop := forall t2 p1 p2,
  wf t2 = true -> keys_all okk t1 = true -> keys_all okk t2 = true -> okp p1 = true -> R p1 = true ->
  fst (dF t1 t2 p1 p2) = filter keepR (fst (d0 t1 t2 p1 p2)).

Lemma assoc_wf_ok k kvs2 v2 :
  forallb (fun kv => wf (snd kv)) kvs2 = true ->
  forallb (fun kv => okk (fst kv) && keys_all okk (snd kv)) kvs2 = true ->
  assoc k kvs2 = Some v2 -> wf v2 = true /\ keys_all okk v2 = true.
Proof.
  intros W O A. apply assoc_In in A as (k' & Hin & _).
  rewrite forallb_forall in W, O. split; [apply (W _ Hin)|].
  apply O in Hin. cbn in Hin. apply andb_true_iff in Hin as [_ Hin]. exact Hin.
Qed.

Lemma common_R p1 p2 kvs2 l : okp p1 = true -> R p1 = true ->
  nodup_atoms (map fst kvs2) = true ->
  forallb (fun kv => wf (snd kv)) kvs2 = true ->
  forallb (fun kv => okk (fst kv) && keys_all okk (snd kv)) kvs2 = true ->
  Forall (fun kv => Main (snd kv)) l ->
  forallb (fun kv => okk (fst kv) && keys_all okk (snd kv)) l = true ->
  fst (gox_common kf c dF kvs2 (keys_x kf c p1 kvs2) p1 p2 l) =
  filter keepR (fst (gox_common no_kf c d0 kvs2 (keys_of c kvs2) p1 p2 l)).
Proof.
  intros G H N W O2 F. induction F as [|[k v1] l Hx _ IH]; intros O1; [reflexivity|].
  cbn [forallb fst snd] in O1. apply andb_true_iff in O1 as [Ok O1]. apply andb_true_iff in Ok as [Ok Ov].
  specialize (IH O1). cbn [snd] in Hx. cbn [gox_common]. unfold no_kf at 1. cbn [negb]. rewrite andb_true_r.
  destruct (keep_key c k) eqn:KK; cbn [andb]; [|exact IH].
  assert (ND : nodup_atoms (keys_of c kvs2) = true) by (apply nodup_filter; exact N).
  destruct (find (py_eq k) (keys_of c kvs2)) as [k'|] eqn:Fd.
  2:{ destruct (negb (kf p1 k)); [|exact IH]. unfold keys_x. rewrite find_filter_none by exact Fd. exact IH. }
  destruct (find_in _ _ _ Fd) as [Hin Pk].
  assert (Ok' : okk k' = true) by (exact (keys_of_ok kvs2 k' O2 Hin)).
  unfold keys_x. rewrite (find_filter_nodup (fun a => negb (kf p1 a)) k _ k' ND Fd).
  destruct (R (snoc p1 (PKey k'))) eqn:E.
  - rewrite (Hkey p1 k k' G Ok Ok' H Pk E). rewrite (Hkey p1 k' k' G Ok' Ok' H (py_eq_refl _) E). cbn [negb].
    destruct (assoc k' kvs2) as [v2|] eqn:A; [|exact IH].
    destruct (assoc_wf_ok _ _ _ W O2 A) as [Wv Ov2].
    unfold app2. cbn [fst]. rewrite filter_app. f_equal; [|exact IH].
    apply Hx; try assumption. apply HGk; assumption.
  - assert (Z : forall v2, filter keepR (fst (d0 v1 v2 (snoc p1 (PKey k')) (snoc p2 (PKey k')))) = []).
    { intros v2. eapply drop_all; [exact E|]. intros e He. eapply diffx_ext; exact He. }
    destruct (kf p1 k) eqn:K1; cbn [negb].
    { destruct (assoc k' kvs2) as [v2|]; [|exact IH]. unfold app2. cbn [fst]. rewrite filter_app, Z. exact IH. }
    destruct (kf p1 k') eqn:K2; cbn [negb].
    { destruct (assoc k' kvs2) as [v2|]; [|exact IH]. unfold app2. cbn [fst]. rewrite filter_app, Z. exact IH. }
    destruct (Hdropk p1 k' G Ok' H E) as [X|X]; [congruence|].
    destruct (assoc k' kvs2) as [v2|]; [|exact IH].
    rewrite diffx_skip by exact X. unfold app2. cbn [fst app]. rewrite filter_app, Z. exact IH.
Qed.

Lemma list_R p1 p2 xs : okp p1 = true -> R p1 = true ->
  Forall Main xs ->
  forall ys i, forallb wf ys = true -> forallb (keys_all okk) xs = true -> forallb (keys_all okk) ys = true ->
  fst (gox_list sk dF p1 p2 xs ys i) = filter keepR (fst (gox_list no_skip d0 p1 p2 xs ys i)).
Proof.
  intros G H F. induction F as [|x xs Hx _ IH]; intros ys i W O1 O2.
  - cbn. apply added_from_R; assumption.
  - destruct ys as [|y ys].
    + cbn [gox_list fst]. apply (removed_from_R (x :: xs)); assumption.
    + cbn [gox_list]. unfold app2. cbn [fst]. rewrite filter_app.
      cbn [forallb] in W, O1, O2. apply andb_true_iff in W as [Wy W]. apply andb_true_iff in O1 as [Ox O1].
      apply andb_true_iff in O2 as [Oy O2].
      f_equal; [|apply IH; assumption].
      destruct (R (snoc p1 (PIdx i))) eqn:E.
      * apply Hx; try assumption. apply HGi; exact G.
      * rewrite diffx_skip by (apply Hdropi; assumption). symmetry.
        eapply drop_all; [exact E|]. intros e He. eapply diffx_ext; exact He.
Qed.

Lemma seq_R p1 p2 xs ys : okp p1 = true -> R p1 = true -> Forall Main xs ->
  forallb wf ys = true -> forallb (keys_all okk) xs = true -> forallb (keys_all okk) ys = true ->
  fst (seqx_body hatom udiff ops sk excl kf c xs ys p1 p2) =
  filter keepR (fst (seqx_body hatom udiff ops no_skip excl' no_kf c xs ys p1 p2)).
Proof.
  intros G H F W O1 O2. unfold seqx_body.
  destruct (negb (zip c) && forallb is_atom xs && forallb is_atom ys) eqn:D.
  - destruct Hmode as [Z|Hm]; [rewrite Z in D; discriminate|].
    destruct (Hm p1 H) as [Hall|Hnone].
    + assert (Fr : forall i, sk (snoc p1 (PIdx i)) = false).
      { intros i. apply H1; [apply HGi; exact G|apply Hall]. }
      rewrite (default_leaf_list_free udiff ops sk p1 p2 Fr).
      pose proof (default_leaf_list_in udiff ops no_skip xs ys p1 p2) as In_.
      destruct (default_leaf_list udiff ops no_skip xs ys p1 p2) as [es rec]. cbn [fst] in *.
      symmetry. apply filter_all. intros e He. destruct (In_ e He) as [n E]. unfold keep_entry. rewrite E. apply Hall.
    + assert (Al : forall i, sk (snoc p1 (PIdx i)) = true).
      { intros i. apply Hdropi; [exact G|exact H|apply Hnone]. }
      rewrite (default_leaf_list_all udiff ops sk p1 p2 Al). cbn [fst].
      pose proof (default_leaf_list_in udiff ops no_skip xs ys p1 p2) as In_.
      destruct (default_leaf_list udiff ops no_skip xs ys p1 p2) as [es rec]. cbn [fst] in *.
      symmetry. apply filter_none. intros e He. destruct (In_ e He) as [n E]. unfold keep_entry. rewrite E. apply Hnone.
  - apply list_R; assumption.
Qed.

Lemma dict_R p1 p2 kvs1 kvs2 : okp p1 = true -> R p1 = true ->
  Forall (fun kv => Main (snd kv)) kvs1 ->
  wf (VDict kvs2) = true -> keys_all okk (VDict kvs1) = true -> keys_all okk (VDict kvs2) = true ->
  fst (dictx_body hatom udiff ops sk excl kf c kvs1 kvs2 p1 p2) =
  filter keepR (fst (dictx_body hatom udiff ops no_skip excl' no_kf c kvs1 kvs2 p1 p2)).
Proof.
  intros G H F W O1 O2. cbn [wf keys_all] in W, O1, O2. apply andb_true_iff in W as [N W].
  unfold dictx_body. rewrite !keys_x_no_kf.
  assert (SC : dict_shortcut excl c (keys_x kf c p1 kvs1) (keys_x kf c p1 kvs2) p1 =
               dict_shortcut excl' c (keys_of c kvs1) (keys_of c kvs2) p1).
  { destruct Hthr as [T|T].
    - unfold dict_shortcut. rewrite T. reflexivity.
    - rewrite Hstab. unfold keys_x. rewrite !filter_all; [reflexivity| |]; intros x _; rewrite T; reflexivity. }
  rewrite SC. destruct (dict_shortcut excl' c (keys_of c kvs1) (keys_of c kvs2) p1).
  - cbn [fst]. apply report_R; assumption.
  - cbn [fst]. rewrite !filter_app. f_equal; [|f_equal].
    + unfold keys_x. apply added_R; try assumption; intros a Ha;
        [exact (keys_of_ok kvs1 a O1 Ha)|exact (keys_of_ok kvs2 a O2 Ha)].
    + unfold keys_x. apply removed_R; try assumption; intros a Ha;
        [exact (keys_of_ok kvs1 a O1 Ha)|exact (keys_of_ok kvs2 a O2 Ha)].
    + apply common_R; assumption.
Qed.

Theorem main_all t1 : Main t1.
Proof.
  induction t1 as [a|xs IH|xs IH|kvs IH|xs|xs] using value_ind'; intros t2 p1 p2 W O1 O2 G H;
  pose proof (H1 p1 G H) as S;
  (match goal with |- fst (diffx _ _ _ _ _ _ _ ?t1 _ _ _) = _ =>
     destruct (ty_eqb (type_of t1) (type_of t2)) eqn:T end;
    [|rewrite !diffx_type by (assumption || reflexivity); cbn [fst]; apply report_R; assumption]);
  apply same_type_shape in T; inversion T; subst.
  - rewrite !diffx_atom by (assumption || reflexivity). cbn [fst].
    rewrite diff_atom_free by exact S. symmetry. eapply keep_at; [exact H|]. intros e He. eapply diff_atom_in; exact He.
  - rewrite !diffx_list by (assumption || reflexivity). apply seq_R; assumption.
  - rewrite !diffx_tuple by (assumption || reflexivity). apply seq_R; assumption.
  - rewrite !diffx_dict by (assumption || reflexivity). apply dict_R; assumption.
  - rewrite !diffx_vset by (assumption || reflexivity). cbn [fst].
    rewrite diff_set_free by exact S. symmetry. eapply keep_at; [exact H|]. intros e He. eapply diff_set_in; exact He.
  - rewrite !diffx_vfrozen by (assumption || reflexivity). cbn [fst].
    rewrite diff_set_free by exact S. symmetry. eapply keep_at; [exact H|]. intros e He. eapply diff_set_in; exact He.
Qed.

Theorem run_general t1 t2 :
  wf t2 = true -> keys_all okk t1 = true -> keys_all okk t2 = true -> okp [] = true -> R [] = true ->
  fst (run_diffx hatom udiff ops sk excl kf c t1 t2) =
  filter keepR (fst (run_diffx hatom udiff ops no_skip excl' no_kf c t1 t2)).
Proof.
  intros W O1 O2 G H. unfold run_diffx. pose proof (main_all t1 t2 [] [] W O1 O2 G H) as M.
  destruct (dF t1 t2 [] []) as [es rec]. destruct (d0 t1 t2 [] []) as [es0 rec0]. cbn [fst] in *.
  subst es. apply (mutual_filter R).
Qed.

End General.

(** C13 - "content under an excluded path never causes or suppresses an entry elsewhere" with an INPUT-LEVEL
    guard for the default alignment mode instead of [idx_closed].

    What the excluded content can still influence in the default mode is the CHOICE OF THE PASS: a sequence is
    handed to difflib when all its items are atoms.  [mguard del P E c t1 t2 p] asks, at every pair of sequences
    the filtered run reaches whose items are atoms once the skipped items are blanked, that no index child is
    skipped.  Then nothing at or below a skipped position is looked at ([exclude_independent_g]); positional mode
    and [idx_closed] predicates meet the guard ([mguard_of_mode]); a skipped index among atoms does not, and
    independence fails there ([independent_default_index_refuted]: [1,2,3,{..}] behaves differently from
    [1,2,3,None] under exclude_paths=['root[3]'] - outside the property's quantifier). *)
From Coq Require Import List ZArith NArith Bool Arith Lia.
Import ListNotations.
From DD Require Import Base.PyStr Base.Value Base.ValueFacts Diff.Tree Diff.DiffModel
  Path.PathModel Filter.FilterModel Filter.FilterFacts Filter.FilterProofs Filter.FilterExclude Filter.FilterIndep.

Section GuardM.
Variable del : bool.
Variable P E : path -> bool.
Variable c : cfg.
Notation prune := (prune del P).

Definition none_skipped (p : path) (n : nat) : bool := forallb (fun i => negb (P (snoc p (PIdx i)))) (seq 0 n).

Fixpoint mguard (t1 t2 : value) (p : path) {struct t1} : bool :=
  match t1, t2 with
  | VDict kvs1, VDict kvs2 =>
      dict_shortcut E c (keys_of c kvs1) (keys_of c kvs2) p ||
      (fix go (l : list (atom * value)) : bool :=
         match l with
         | [] => true
         | (k, v1) :: r =>
             (if keep_key c k then
                match find (py_eq k) (keys_of c kvs2) with
                | Some k' => match assoc k' kvs2 with
                             | Some v2 => P (snoc p (PKey k')) || mguard v1 v2 (snoc p (PKey k'))
                             | None => true
                             end
                | None => true
                end
              else true) && go r
         end) kvs1
  | VList xs, VList ys | VTuple xs, VTuple ys =>
      if negb (zip c) && forallb is_atom (pl prune p xs 0) && forallb is_atom (pl prune p ys 0)
      then none_skipped p (Nat.max (length xs) (length ys))
      else
        (fix go (xs ys : list value) (i : nat) {struct xs} : bool :=
           match xs, ys with
           | x :: xs', y :: ys' => (P (snoc p (PIdx i)) || mguard x y (snoc p (PIdx i))) && go xs' ys' (S i)
           | _, _ => true
           end) xs ys 0
  | _, _ => true
  end.

Definition m_common (g : value -> value -> path -> bool) (kvs2 : list (atom * value)) (p : path) :=
  fix go (l : list (atom * value)) : bool :=
    match l with
    | [] => true
    | (k, v1) :: r =>
        (if keep_key c k then
           match find (py_eq k) (keys_of c kvs2) with
           | Some k' => match assoc k' kvs2 with
                        | Some v2 => P (snoc p (PKey k')) || g v1 v2 (snoc p (PKey k'))
                        | None => true
                        end
           | None => true
           end
         else true) && go r
    end.
Definition m_list (g : value -> value -> path -> bool) (p : path) :=
  fix go (xs ys : list value) (i : nat) {struct xs} : bool :=
    match xs, ys with
    | x :: xs', y :: ys' => (P (snoc p (PIdx i)) || g x y (snoc p (PIdx i))) && go xs' ys' (S i)
    | _, _ => true
    end.
Definition m_seq (p : path) (xs ys : list value) : bool :=
  if negb (zip c) && forallb is_atom (pl prune p xs 0) && forallb is_atom (pl prune p ys 0)
  then none_skipped p (Nat.max (length xs) (length ys))
  else m_list mguard p xs ys 0.

Lemma mguard_dict kvs1 kvs2 p : mguard (VDict kvs1) (VDict kvs2) p =
  dict_shortcut E c (keys_of c kvs1) (keys_of c kvs2) p || m_common mguard kvs2 p kvs1.
Proof. reflexivity. Qed.
Lemma mguard_list xs ys p : mguard (VList xs) (VList ys) p = m_seq p xs ys.
Proof. reflexivity. Qed.
Lemma mguard_tuple xs ys p : mguard (VTuple xs) (VTuple ys) p = m_seq p xs ys.
Proof. reflexivity. Qed.

Lemma none_skipped_spec p n : none_skipped p n = true -> forall i, i < n -> P (snoc p (PIdx i)) = false.
Proof.
  unfold none_skipped. rewrite forallb_forall. intros H i Hi. apply negb_true_iff. apply H. apply in_seq. lia.
Qed.

(* bounded versions of FilterIndep.pl_atoms / pl_is_atom *)
Lemma pl_is_atom_b p l : forall i, (forall k, k < length l -> P (snoc p (PIdx (i + k))) = false) ->
  forallb is_atom (pl prune p l i) = forallb is_atom l.
Proof.
  induction l as [|x l IH]; intros i F; cbn; [reflexivity|].
  rewrite IH.
  - rewrite prune_is_atom; [reflexivity|]. specialize (F 0). rewrite Nat.add_0_r in F. apply F. cbn. lia.
  - intros k Hk. specialize (F (S k)). rewrite Nat.add_succ_r in F. apply F. cbn. lia.
Qed.
Lemma pl_atoms_b p l : forall i, (forall k, k < length l -> P (snoc p (PIdx (i + k))) = false) ->
  forallb is_atom l = true -> pl prune p l i = l.
Proof.
  induction l as [|x l IH]; intros i F A; cbn; [reflexivity|]. cbn in A. apply andb_true_iff in A as [Ax A].
  rewrite IH; [|intros k Hk; specialize (F (S k)); rewrite Nat.add_succ_r in F; apply F; cbn; lia|exact A].
  destruct x; try discriminate. rewrite prune_atom; [reflexivity|].
  specialize (F 0). rewrite Nat.add_0_r in F. apply F. cbn. lia.
Qed.

(* blanking never turns an atom into a container: an all-atom list stays all-atom *)
Lemma pl_keeps_atoms p l : forall i, forallb is_atom l = true -> forallb is_atom (pl prune p l i) = true.
Proof.
  induction l as [|x l IH]; intros i A; cbn; [reflexivity|]. cbn in A. apply andb_true_iff in A as [Ax A].
  rewrite (IH _ A), andb_true_r. destruct x; try discriminate. cbn. destruct (P (snoc p (PIdx i))); reflexivity.
Qed.
End GuardM.

Section IndepG.
Variable hatom : atom -> pystr.
Variable udiff : pystr -> pystr -> pystr.
Variable ops : path -> list value -> list value -> list opcode.
Variable P E : path -> bool.
Variable c : cfg.
Variable del : bool.
Hypothesis Hdel : del = false \/ thr_num c = 0.
Notation dX := (diffx hatom udiff ops P E no_kf c).
Notation kp := (keys_all key_plain).
Notation prune := (prune del P).
Notation MG := (mguard del P E c).
Notation projs := (map proj).

Definition IndG (t1 : value) : Prop := forall t2 p1 p2, live P p1 -> kp t1 = true -> kp t2 = true ->
  (P p1 = true \/ MG t1 t2 p1 = true) ->
  projs (fst (dX t1 t2 p1 p2)) = projs (fst (dX (prune p1 t1) (prune p1 t2) p1 p2)).

Lemma list_ind_g p1 p2 xs : not_under P p1 = true -> Forall IndG xs ->
  forall ys i, forallb kp xs = true -> forallb kp ys = true -> m_list P MG p1 xs ys i = true ->
  projs (fst (gox_list P dX p1 p2 xs ys i)) =
  projs (fst (gox_list P dX p1 p2 (pl prune p1 xs i) (pl prune p1 ys i) i)).
Proof.
  intros NU. induction 1 as [|x xs Hx _ IH]; intros ys i K1 K2 M.
  - cbn [pl gox_list fst]. apply projs_added_from. rewrite pl_length. reflexivity.
  - destruct ys as [|y ys].
    + cbn [pl gox_list fst]. apply (projs_removed_from P (x :: xs) (prune (snoc p1 (PIdx i)) x :: pl prune p1 xs (S i))).
      cbn. rewrite pl_length. reflexivity.
    + cbn [pl gox_list]. unfold app2. cbn [fst]. rewrite !map_app.
      cbn [forallb] in K1, K2. apply andb_true_iff in K1 as [Kx K1]. apply andb_true_iff in K2 as [Ky K2].
      cbn [m_list] in M. apply andb_true_iff in M as [M1 M2]. apply orb_true_iff in M1.
      f_equal; [apply Hx; [apply live_child; exact NU|assumption|assumption|exact M1]|apply IH; assumption].
Qed.

Notation keepk p := (fun k => negb (dropped del P p k)).

Lemma common_ind_g p1 p2 kvs2 l : not_under P p1 = true ->
  forallb (fun kv => key_plain (fst kv) && kp (snd kv)) kvs2 = true ->
  Forall (fun kv => IndG (snd kv)) l ->
  forallb (fun kv => key_plain (fst kv) && kp (snd kv)) l = true ->
  m_common P c MG kvs2 p1 l = true ->
  projs (fst (gox_common no_kf c dX kvs2 (keys_of c kvs2) p1 p2 l)) =
  projs (fst (gox_common no_kf c dX (pd del P prune p1 kvs2) (filter (keepk p1) (keys_of c kvs2)) p1 p2
                (pd del P prune p1 l))).
Proof.
  intros NU K2 F. induction F as [|[k v1] l Hx _ IH]; intros K1 M; [reflexivity|].
  cbn [forallb fst snd] in K1. apply andb_true_iff in K1 as [Kk K1]. apply andb_true_iff in Kk as [Kk Kv].
  cbn [m_common] in M. apply andb_true_iff in M as [M1 M2].
  specialize (IH K1 M2). cbn [snd] in Hx. cbn [pd]. fold (dropped del P p1 k).
  destruct (dropped del P p1 k) eqn:D.
  - unfold dropped in D. apply andb_true_iff in D as [_ D]. cbn [gox_common].
    destruct (keep_key c k && negb (no_kf p1 k)); [|exact IH].
    destruct (find (py_eq k) (keys_of c kvs2)) as [k'|] eqn:Fd; [|exact IH].
    destruct (find_in _ _ _ Fd) as [Hin Pk].
    assert (k = k') by (apply py_eq_plain; [exact Kk|exact (keys_of_plain c kvs2 k' K2 Hin)|exact Pk]). subst k'.
    destruct (assoc k kvs2) as [v2|]; [|exact IH].
    rewrite diffx_skip by exact D. unfold app2. cbn [fst app]. exact IH.
  - cbn [gox_common]. unfold no_kf at 1 3. cbn [negb]. rewrite !andb_true_r.
    destruct (keep_key c k) eqn:KK; [|exact IH].
    destruct (find (py_eq k) (keys_of c kvs2)) as [k'|] eqn:Fd.
    2:{ rewrite find_filter_none by exact Fd. exact IH. }
    destruct (find_in _ _ _ Fd) as [Hin Pk].
    assert (k = k') by (apply py_eq_plain; [exact Kk|exact (keys_of_plain c kvs2 k' K2 Hin)|exact Pk]). subst k'.
    rewrite (find_filter_keep (py_eq k) (keepk p1) _ k Fd) by (rewrite D; reflexivity).
    rewrite (assoc_pd del P prune p1 k kvs2 Kk (keys_plain_of kvs2 K2) D).
    destruct (assoc k kvs2) as [v2|] eqn:A; cbn [option_map]; [|exact IH].
    unfold app2. cbn [fst]. rewrite !map_app. f_equal; [|exact IH].
    apply orb_true_iff in M1.
    apply Hx; [apply live_child; exact NU|exact Kv|exact (assoc_kp k kvs2 v2 K2 A)|exact M1].
Qed.

Lemma seq_ind_g p1 p2 xs ys : not_under P p1 = true -> P p1 = false -> Forall IndG xs ->
  forallb kp xs = true -> forallb kp ys = true -> m_seq del P E c p1 xs ys = true ->
  projs (fst (seqx_body hatom udiff ops P E no_kf c xs ys p1 p2)) =
  projs (fst (seqx_body hatom udiff ops P E no_kf c (pl prune p1 xs 0) (pl prune p1 ys 0) p1 p2)).
Proof.
  intros NU S IH K1 K2 M. unfold seqx_body. unfold m_seq in M.
  destruct (zip c) eqn:Z.
  - cbn [negb andb] in *. apply list_ind_g; assumption.
  - cbn [negb andb] in *.
    destruct (forallb is_atom (pl prune p1 xs 0) && forallb is_atom (pl prune p1 ys 0)) eqn:A'.
    + (* the pruned pair goes to difflib: no index is skipped, the lists are untouched *)
      pose proof (none_skipped_spec P p1 _ M) as Fr.
      assert (Fx : forall k, k < length xs -> P (snoc p1 (PIdx (0 + k))) = false) by (intros k Hk; apply Fr; cbn; lia).
      assert (Fy : forall k, k < length ys -> P (snoc p1 (PIdx (0 + k))) = false) by (intros k Hk; apply Fr; cbn; lia).
      apply andb_true_iff in A' as [Ax Ay].
      rewrite (pl_is_atom_b del P p1 xs 0 Fx) in Ax. rewrite (pl_is_atom_b del P p1 ys 0 Fy) in Ay.
      rewrite (pl_atoms_b del P p1 xs 0 Fx Ax), (pl_atoms_b del P p1 ys 0 Fy Ay). rewrite Ax, Ay. reflexivity.
    + (* the pruned pair is compared pairwise, hence so is the original one *)
      assert (A : forallb is_atom xs && forallb is_atom ys = false).
      { destruct (forallb is_atom xs) eqn:Ax; [|reflexivity]. destruct (forallb is_atom ys) eqn:Ay; [|reflexivity].
        rewrite (pl_keeps_atoms del P p1 xs 0 Ax), (pl_keeps_atoms del P p1 ys 0 Ay) in A'. discriminate A'. }
      rewrite A. apply list_ind_g; assumption.
Qed.

Theorem ind_all_g t1 : IndG t1.
Proof.
  induction t1 as [a|xs IH|xs IH|kvs IH|xs|xs] using value_ind'; intros t2 p1 p2 L K1 K2 M;
  (destruct (P p1) eqn:S; [apply ind_skipped; exact S|]);
  (assert (NU : not_under P p1 = true) by (destruct L as [L|L]; [congruence|exact L]));
  (destruct M as [M|M]; [congruence|]);
  (match goal with |- map proj (fst (diffx _ _ _ _ _ _ _ ?t1 _ _ _)) = _ =>
     destruct (ty_eqb (type_of t1) (type_of t2)) eqn:T end;
    [|rewrite !diffx_type by (rewrite ?prune_type by exact S; assumption); cbn [fst]; apply projs_report]);
  apply same_type_shape in T; inversion T; subst.
  - rewrite !prune_atom by exact S. reflexivity.
  - rewrite !prune_list by exact S. rewrite !diffx_list by exact S. cbn [keys_all] in K1, K2.
    rewrite mguard_list in M. apply seq_ind_g; assumption.
  - rewrite !prune_tuple by exact S. rewrite !diffx_tuple by exact S. cbn [keys_all] in K1, K2.
    rewrite mguard_tuple in M. apply seq_ind_g; assumption.
  - rewrite !prune_dict by exact S. rewrite !diffx_dict by exact S. unfold dictx_body.
    rewrite !keys_x_no_kf, !keys_of_pd. cbn [keys_all] in K1, K2.
    assert (SC : dict_shortcut E c (filter (keepk p1) (keys_of c kvs)) (filter (keepk p1) (keys_of c ys)) p1 =
                 dict_shortcut E c (keys_of c kvs) (keys_of c ys) p1).
    { destruct Hdel as [D|T0].
      - unfold dropped. rewrite D. cbn [andb negb]. rewrite !filter_true. reflexivity.
      - rewrite !shortcut_thr0 by exact T0. reflexivity. }
    rewrite SC. rewrite mguard_dict in M. destruct (dict_shortcut E c (keys_of c kvs) (keys_of c ys) p1).
    + cbn [fst]. apply projs_report.
    + cbn [orb] in M. cbn [fst]. rewrite !map_app. f_equal; [|f_equal].
      * apply added_ind; intros a Ha; [exact (keys_of_plain c kvs a K1 Ha)|exact (keys_of_plain c ys a K2 Ha)].
      * apply removed_ind; intros a Ha; [exact (keys_of_plain c kvs a K1 Ha)|exact (keys_of_plain c ys a K2 Ha)].
      * apply common_ind_g; assumption.
  - rewrite !prune_set by exact S. reflexivity.
  - rewrite !prune_frozen by exact S. reflexivity.
Qed.
End IndepG.

Definition mguard0 del P E c t1 t2 : bool := P [] || mguard del P E c t1 t2 [].

Theorem exclude_independent_g hatom udiff ops P E c del t1 t2 :
  del = false \/ thr_num c = 0 ->
  keys_all key_plain t1 = true -> keys_all key_plain t2 = true ->
  mguard0 del P E c t1 t2 = true ->
  map proj (fst (run_diff hatom udiff ops P E c t1 t2)) =
  map proj (fst (run_diff hatom udiff ops P E c (prune del P [] t1) (prune del P [] t2))).
Proof.
  intros D K1 K2 M. rewrite <- !run_diffx_no_kf. unfold run_diffx.
  assert (L : live P []) by (unfold live; rewrite not_under_nil; destruct (P []); [left|right]; reflexivity).
  assert (M' : P [] = true \/ mguard del P E c t1 t2 [] = true).
  { unfold mguard0 in M. apply orb_true_iff in M. exact M. }
  pose proof (ind_all_g hatom udiff ops P E c del D t1 t2 [] [] L K1 K2 M') as H.
  destruct (diffx hatom udiff ops P E no_kf c t1 t2 [] []) as [es rec].
  destruct (diffx hatom udiff ops P E no_kf c (prune del P [] t1) (prune del P [] t2) [] []) as [es' rec'].
  cbn [fst] in *. rewrite !projs_mutual, H. reflexivity.
Qed.

Corollary exclude_agree_g hatom udiff ops P E c del t1 t2 t1' t2' :
  del = false \/ thr_num c = 0 ->
  keys_all key_plain t1 = true -> keys_all key_plain t2 = true ->
  keys_all key_plain t1' = true -> keys_all key_plain t2' = true ->
  mguard0 del P E c t1 t2 = true -> mguard0 del P E c t1' t2' = true ->
  prune del P [] t1 = prune del P [] t1' -> prune del P [] t2 = prune del P [] t2' ->
  map proj (fst (run_diff hatom udiff ops P E c t1 t2)) = map proj (fst (run_diff hatom udiff ops P E c t1' t2')).
Proof.
  intros D K1 K2 K1' K2' M M' E1 E2.
  rewrite (exclude_independent_g hatom udiff ops P E c del t1 t2 D K1 K2 M).
  rewrite (exclude_independent_g hatom udiff ops P E c del t1' t2' D K1' K2' M'). rewrite E1, E2. reflexivity.
Qed.

(* positional mode, or no skipped path ending in an index: the guard holds *)
Section OfMode.
Variable del : bool.
Variable P E : path -> bool.
Variable c : cfg.
Hypothesis Hmode : zip c = true \/ idx_closed P.

Lemma mguard_of_mode t1 : forall t2 p, not_under P p = true -> mguard del P E c t1 t2 p = true.
Proof.
  induction t1 as [a|xs IH|xs IH|kvs IH|xs|xs] using value_ind'; intros t2 p H;
    destruct t2 as [b|ys|ys|kvs2|ys|ys]; try reflexivity.
  - rewrite mguard_list. unfold m_seq.
    destruct (negb (zip c) && forallb is_atom (pl (prune del P) p xs 0) && forallb is_atom (pl (prune del P) p ys 0)) eqn:D.
    + destruct Hmode as [Z|I]; [rewrite Z in D; discriminate|]. unfold none_skipped. apply forallb_forall.
      intros i _. rewrite (I p i H). reflexivity.
    + clear D. generalize 0 as i. revert ys.
      induction IH as [|x xs Hx _ IHl]; intros ys i; [reflexivity|]. destruct ys as [|y ys]; [reflexivity|].
      cbn [m_list]. rewrite IHl, andb_true_r. destruct (P (snoc p (PIdx i))) eqn:Pi; [reflexivity|]. cbn [orb].
      apply Hx. rewrite not_under_snoc, H, Pi. reflexivity.
  - rewrite mguard_tuple. unfold m_seq.
    destruct (negb (zip c) && forallb is_atom (pl (prune del P) p xs 0) && forallb is_atom (pl (prune del P) p ys 0)) eqn:D.
    + destruct Hmode as [Z|I]; [rewrite Z in D; discriminate|]. unfold none_skipped. apply forallb_forall.
      intros i _. rewrite (I p i H). reflexivity.
    + clear D. generalize 0 as i. revert ys.
      induction IH as [|x xs Hx _ IHl]; intros ys i; [reflexivity|]. destruct ys as [|y ys]; [reflexivity|].
      cbn [m_list]. rewrite IHl, andb_true_r. destruct (P (snoc p (PIdx i))) eqn:Pi; [reflexivity|]. cbn [orb].
      apply Hx. rewrite not_under_snoc, H, Pi. reflexivity.
  - rewrite mguard_dict. destruct (dict_shortcut E c (keys_of c kvs) (keys_of c kvs2) p); [reflexivity|]. cbn [orb].
    induction IH as [|[k v1] l Hx _ IHl]; [reflexivity|]. cbn [m_common]. rewrite IHl, andb_true_r.
    destruct (keep_key c k); [|reflexivity]. destruct (find _ _) as [k'|]; [|reflexivity].
    destruct (assoc _ _) as [v2|]; [|reflexivity]. destruct (P (snoc p (PKey k'))) eqn:Pk; [reflexivity|]. cbn [orb].
    apply Hx. rewrite not_under_snoc, H, Pk. reflexivity.
Qed.

Lemma mguard0_of_mode t1 t2 : mguard0 del P E c t1 t2 = true.
Proof.
  unfold mguard0. destruct (P []) eqn:Root; [reflexivity|]. cbn [orb]. apply mguard_of_mode.
  rewrite not_under_nil, Root. reflexivity.
Qed.
End OfMode.

(* ---- default mode, a skipped index: whether the item there is a container decides which pass the SIBLINGS get ---- *)
Definition wi_P (p : path) : bool := path_eqb p [PIdx 3].
Definition wi_c : cfg := mkCfg false 0 1 true.
Definition wi_n (z : Z) : value := VAtom (AInt z).
Definition wi_d (z : Z) : value := VDict [(AStr [97%N], wi_n z)].
Definition wi_t1 := VList [wi_n 1; wi_n 2; wi_n 3; wi_d 1].
Definition wi_t1' := VList [wi_n 1; wi_n 2; wi_n 3; VAtom ANone].
Definition wi_t2 := VList [wi_n 2; wi_n 3; wi_n 4; wi_d 2].
Definition wi_t2' := VList [wi_n 2; wi_n 3; wi_n 4; VAtom ANone].
(* difflib.SequenceMatcher([1,2,3,None],[2,3,4,None]).get_opcodes() *)
Definition wi_ops (_ : path) (_ _ : list value) : list opcode :=
  [mkOp ODelete 0 1 0 0; mkOp OEqual 1 3 0 2; mkOp OInsert 3 3 2 3; mkOp OEqual 3 4 3 4].

Lemma independent_default_index_refuted :
  prune false wi_P [] wi_t1 = prune false wi_P [] wi_t1' /\ prune false wi_P [] wi_t2 = prune false wi_P [] wi_t2' /\
  map proj (fst (run_diff w8_h w8_u wi_ops wi_P no_skip wi_c wi_t1 wi_t2)) =
    [(KValue, [PIdx 0], [PIdx 0]); (KValue, [PIdx 1], [PIdx 1]); (KValue, [PIdx 2], [PIdx 2])] /\
  map proj (fst (run_diff w8_h w8_u wi_ops wi_P no_skip wi_c wi_t1' wi_t2')) =
    [(KIterRem, [PIdx 0], [PIdx 0]); (KIterAdd, [PIdx 2], [PIdx 2])] /\
  mguard0 false wi_P no_skip wi_c wi_t1 wi_t2 = false.
Proof. vm_compute. repeat split; reflexivity. Qed.

(* the guard is met in the default mode by a skipped index of a sequence that keeps a container elsewhere *)
Example mguard_example :
  let t1 := VList [wi_d 1; wi_n 2; wi_d 3] in
  let t2 := VList [wi_d 2; wi_n 3; wi_d 4] in
  let P := fun p => path_eqb p [PIdx 2] in
  mguard0 false P no_skip wi_c t1 t2 = true /\ P [PIdx 2] = true /\ zip wi_c = false /\
  prune false P [] t1 = VList [wi_d 1; wi_n 2; VAtom ANone].
Proof. vm_compute. repeat split; reflexivity. Qed.

(** C13 - model of the path filters of DeepDiff (ordered mode):

      DeepDiff._skip_this       (deepdiff/diff.py:504-543)  exclude_paths, include_paths,
                                                            exclude_regex_paths
      DeepDiff._skip_this_key   (deepdiff/diff.py:545-569)  include_paths on dictionary keys
      the deeper-threshold union of _diff_dict (diff.py:648-657)
      helper.add_root_to_paths  (deepdiff/helper.py:322-344)

    The options are STRINGS and every test is a test on the string
    [level.path()]: set membership for exclude_paths, substring tests for
    include_paths, [re.search] for exclude_regex_paths.  The model keeps them
    strings and renders key sequences with the model of the path printer
    ([Path.PathModel.render]).  The [re] engine is an oracle [rx].

    [diffx] is [Diff.DiffModel.diff] with one more parameter, the key filter
    [kf] (= _skip_this_key) applied where _diff_dict builds t1_keys / t2_keys;
    with [kf = no_kf] it is [diff] (FilterProofs.diffx_no_kf).
    Definitions only. *)
From Coq Require Import List ZArith NArith Bool Arith.
Import ListNotations.
From DD Require Import Base.PyStr Base.Value Diff.Tree Diff.DiffModel Path.PathModel.

Definition mem_str (s : pystr) (l : list pystr) : bool := existsb (pystr_eqb s) l.
Definition is_root (p : path) : bool := match p with [] => true | _ => false end.

(* ------------------------------------------------------------------ *)
(* helper.add_root_to_paths                                            *)
(* ------------------------------------------------------------------ *)
Definition all_digits (s : pystr) : bool :=
  match s with [] => false | _ => forallb is_digit s end.       (* str.isdigit, ASCII *)
Definition add_root_one (s : pystr) : list pystr :=
  if is_prefix root_str s then [s]
  else if all_digits s then [root_str ++ [cLB; cSQ] ++ s ++ [cSQ; cRB]; root_str ++ [cLB] ++ s ++ [cRB]]
  else if is_digit (hd 0%N s) then [root_str ++ [cLB; cSQ] ++ s ++ [cSQ; cRB]]
  else [root_str ++ [cDOT] ++ s; root_str ++ [cLB; cSQ] ++ s ++ [cSQ; cRB]].
Definition add_root_to_paths (l : list pystr) : list pystr := flat_map add_root_one l.

(* ------------------------------------------------------------------ *)
(* repr(key) as used by the f-string of the deeper-threshold union      *)
(* ------------------------------------------------------------------ *)
Definition hex_digit (n : N) : N := if N.ltb n 10 then (48 + n)%N else (87 + n)%N.
Definition repr_char (q c : N) : pystr :=
  if N.eqb c cBS then [cBS; cBS]
  else if N.eqb c q then [cBS; c]
  else if N.eqb c 10 then [cBS; 110%N]
  else if N.eqb c 13 then [cBS; 114%N]
  else if N.eqb c 9 then [cBS; 116%N]
  else if N.ltb c 32 || N.eqb c 127
       then [cBS; 120%N; hex_digit (N.div c 16); hex_digit (N.modulo c 16)]
  else [c].                 (* code points >= 128 are taken to be printable *)
Definition repr_str (s : pystr) : pystr :=
  let q := if has_char cSQ s && negb (has_char cDQ s) then cDQ else cSQ in
  q :: flat_map (repr_char q) s ++ [q].
Definition py_repr (a : atom) : pystr :=
  match a with AStr s => repr_str s | _ => repr_atom a end.

Section Filters.
Variable rx : path -> bool.       (* any(r.search(level.path()) for r in exclude_regex_paths) *)
Variable EX : list pystr.         (* self.exclude_paths  ([] = None) *)
Variable INC : list pystr.        (* self.include_paths  ([] = None) *)

(* DeepDiff._skip_this for the three path options (the other options are absent) *)
Definition skip_this (p : path) : bool :=
  let lp := render p in
  let skip0 := mem_str lp EX in
  match INC with
  | _ :: _ =>
      if negb (is_root p) then
        if negb (mem_str lp INC)
        then negb (existsb (fun pre => contains_sub pre lp || contains_sub lp pre) INC)
        else skip0
      else skip0 || rx p
  | [] => skip0 || rx p
  end.

(* "{}['{}']".format(level.path(), key) *)
Definition key_fmt (p : path) (k : atom) : pystr :=
  render p ++ [cLB; cSQ] ++ str_atom k ++ [cSQ; cRB].

Fixpoint strict_prefixes (p : path) : list path :=
  match p with
  | [] => []
  | k :: r => [] :: map (cons k) (strict_prefixes r)
  end.

(* DeepDiff._skip_this_key *)
Definition skip_this_key (p : path) (k : atom) : bool :=
  match INC with
  | [] => false
  | _ :: _ =>
      let kp := key_fmt p k in
      if mem_str kp INC then false
      else if mem_str (render p) INC then false
      else if existsb (fun pre => contains_sub kp pre) INC then false
      else if existsb (fun a => mem_str (render a) INC) (strict_prefixes p) then false
      else true
  end.

(* membership of f"{level.path()}[{repr(key)}]" in exclude_paths *)
Definition excl_this (q : path) : bool :=
  match rev q with
  | PKey k :: rp => mem_str (render (rev rp) ++ [cLB] ++ py_repr k ++ [cRB]) EX
  | _ => false
  end.
End Filters.

Definition no_kf (_ : path) (_ : atom) : bool := false.
Definition no_skip (_ : path) : bool := false.

(* ------------------------------------------------------------------ *)
(* _diff with the key filter                                           *)
(* ------------------------------------------------------------------ *)
Section DiffX.
Variable hatom : atom -> pystr.
Variable udiff : pystr -> pystr -> pystr.
Variable ops : path -> list value -> list value -> list opcode.
Variable skip : path -> bool.
Variable excl : path -> bool.
Variable kf : path -> atom -> bool.
Variable c : cfg.

Definition keys_x (p : path) (kvs : list (atom * value)) : list atom :=
  filter (fun k => negb (kf p k)) (keys_of c kvs).

Fixpoint diffx (t1 t2 : value) (p1 p2 : path) {struct t1} : list entry * list path :=
  if skip p1 then ([], []) else
  if negb (ty_eqb (type_of t1) (type_of t2))
  then (report skip KType p1 p2 (Some t1) (Some t2) None, [])
  else
  match t1, t2 with
  | VAtom a, VAtom b => (diff_atom udiff skip a b p1 p2, [])
  | VDict kvs1, VDict kvs2 =>
      let k1 := keys_x p1 kvs1 in
      let k2 := keys_x p1 kvs2 in
      if dict_shortcut excl c k1 k2 p1 then (report skip KValue p1 p2 (Some t1) (Some t2) None, [])
      else
        let added := flat_map (fun k => if mem_atom k k1 then []
                       else report skip KDictAdd (snoc p1 (PKey k)) (snoc p2 (PKey k)) None (assoc k kvs2) None) k2 in
        let removed := flat_map (fun k => if mem_atom k k2 then []
                       else report skip KDictRem (snoc p1 (PKey k)) (snoc p2 (PKey k)) (assoc k kvs1) None None) k1 in
        let common :=
          (fix go (l : list (atom * value)) : list entry * list path :=
             match l with
             | [] => ([], [])
             | (k, v1) :: r =>
                 let rest := go r in
                 if keep_key c k && negb (kf p1 k) then
                   match find (py_eq k) k2 with
                   | Some k' =>
                       match assoc k' kvs2 with
                       | Some v2 => app2 (diffx v1 v2 (snoc p1 (PKey k')) (snoc p2 (PKey k'))) rest
                       | None => rest
                       end
                   | None => rest
                   end
                 else rest
             end) kvs1 in
        (added ++ removed ++ fst common, snd common)
  | VList xs, VList ys | VTuple xs, VTuple ys =>
      if negb (zip c) && forallb is_atom xs && forallb is_atom ys
      then let '(es, rec) := default_leaf_list udiff ops skip xs ys p1 p2 in (es, if rec then [p1] else [])
      else
        (fix go (xs ys : list value) (i : nat) {struct xs} : list entry * list path :=
           match xs, ys with
           | [], _ => (added_from skip ys i p1 p2, [])
           | _ :: _, [] => (removed_from skip xs i p1 p2, [])
           | x :: xs', y :: ys' =>
               app2 (diffx x y (snoc p1 (PIdx i)) (snoc p2 (PIdx i))) (go xs' ys' (S i))
           end) xs ys 0
  | VSet xs, VSet ys | VFrozen xs, VFrozen ys => (diff_set hatom skip xs ys p1 p2, [])
  | _, _ => ([], [])
  end.

Definition run_diffx (t1 t2 : value) : list entry * list path :=
  let '(es, rec) := diffx t1 t2 [] [] in (mutual es, rec).
End DiffX.

(* ------------------------------------------------------------------ *)
(* DeepDiff(t1, t2, exclude_paths=, exclude_regex_paths=, include_paths=) *)
(* ------------------------------------------------------------------ *)
Section Run.
Variable hatom : atom -> pystr.
Variable udiff : pystr -> pystr -> pystr.
Variable ops : path -> list value -> list value -> list opcode.
Variable rx : path -> bool.
Variable ex_arg inc_arg : list pystr.      (* the options as passed by the caller *)
Variable c : cfg.

Definition run_filtered (t1 t2 : value) : list entry * list path :=
  let EX := add_root_to_paths ex_arg in
  let INC := add_root_to_paths inc_arg in
  run_diffx hatom udiff ops (skip_this rx EX INC) (excl_this EX) (skip_this_key INC) c t1 t2.
End Run.

(* ------------------------------------------------------------------ *)
(* DeepHash-side exclusion of set members (deephash.py _skip_this)      *)
(* ------------------------------------------------------------------ *)
(* _create_hashtable hashes member i (iteration order) of a compared set with
   parent "<set path>[i]"; DeepHash._hash first looks the object up in the shared
   memo table and only then applies _skip_this to that pseudo-path: a member that
   is not memoised yet and whose pseudo-path is hit gets no hash and silently
   leaves the comparison.  [memo] = the members hashed so far (keyed by ==).
   The memo is modelled per compared pair of sets (t1's members first, then
   t2's); the table shared by the whole run is not threaded through [diff]. *)
Fixpoint members_kept (hit : nat -> bool) (memo : list atom) (l : list atom) (i : nat)
    : list atom * list atom :=
  match l with
  | [] => ([], memo)
  | a :: r =>
      if mem_atom a memo then let '(k, m) := members_kept hit memo r (S i) in (a :: k, m)
      else if hit i then members_kept hit memo r (S i)
      else let '(k, m) := members_kept hit (a :: memo) r (S i) in (a :: k, m)
  end.

Definition diff_set_h (hatom : atom -> pystr) (skip : path -> bool) (hit : nat -> bool)
    (xs ys : list atom) (p1 p2 : path) : list entry :=
  let '(xs', m) := members_kept hit [] xs 0 in
  let '(ys', _) := members_kept hit m ys 0 in
  diff_set hatom skip xs' ys' p1 p2.

(* "{}[{}]".format(level.path(), i) tested against exclude_paths / exclude_regex_paths *)
Definition hit_this (rxh : path -> nat -> bool) (EX : list pystr) (p : path) (i : nat) : bool :=
  mem_str (render p ++ [cLB] ++ p_of_Z (Z.of_nat i) ++ [cRB]) EX || rxh p i.
Definition no_hit (_ : path) (_ : nat) : bool := false.

Section DiffH.
Variable hatom : atom -> pystr.
Variable udiff : pystr -> pystr -> pystr.
Variable ops : path -> list value -> list value -> list opcode.
Variable skip : path -> bool.
Variable excl : path -> bool.
Variable kf : path -> atom -> bool.
Variable hit : path -> nat -> bool.
Variable c : cfg.

Fixpoint diffh (t1 t2 : value) (p1 p2 : path) {struct t1} : list entry * list path :=
  if skip p1 then ([], []) else
  if negb (ty_eqb (type_of t1) (type_of t2))
  then (report skip KType p1 p2 (Some t1) (Some t2) None, [])
  else
  match t1, t2 with
  | VAtom a, VAtom b => (diff_atom udiff skip a b p1 p2, [])
  | VDict kvs1, VDict kvs2 =>
      let k1 := keys_x kf c p1 kvs1 in
      let k2 := keys_x kf c p1 kvs2 in
      if dict_shortcut excl c k1 k2 p1 then (report skip KValue p1 p2 (Some t1) (Some t2) None, [])
      else
        let added := flat_map (fun k => if mem_atom k k1 then []
                       else report skip KDictAdd (snoc p1 (PKey k)) (snoc p2 (PKey k)) None (assoc k kvs2) None) k2 in
        let removed := flat_map (fun k => if mem_atom k k2 then []
                       else report skip KDictRem (snoc p1 (PKey k)) (snoc p2 (PKey k)) (assoc k kvs1) None None) k1 in
        let common :=
          (fix go (l : list (atom * value)) : list entry * list path :=
             match l with
             | [] => ([], [])
             | (k, v1) :: r =>
                 let rest := go r in
                 if keep_key c k && negb (kf p1 k) then
                   match find (py_eq k) k2 with
                   | Some k' =>
                       match assoc k' kvs2 with
                       | Some v2 => app2 (diffh v1 v2 (snoc p1 (PKey k')) (snoc p2 (PKey k'))) rest
                       | None => rest
                       end
                   | None => rest
                   end
                 else rest
             end) kvs1 in
        (added ++ removed ++ fst common, snd common)
  | VList xs, VList ys | VTuple xs, VTuple ys =>
      if negb (zip c) && forallb is_atom xs && forallb is_atom ys
      then let '(es, rec) := default_leaf_list udiff ops skip xs ys p1 p2 in (es, if rec then [p1] else [])
      else
        (fix go (xs ys : list value) (i : nat) {struct xs} : list entry * list path :=
           match xs, ys with
           | [], _ => (added_from skip ys i p1 p2, [])
           | _ :: _, [] => (removed_from skip xs i p1 p2, [])
           | x :: xs', y :: ys' =>
               app2 (diffh x y (snoc p1 (PIdx i)) (snoc p2 (PIdx i))) (go xs' ys' (S i))
           end) xs ys 0
  | VSet xs, VSet ys | VFrozen xs, VFrozen ys => (diff_set_h hatom skip (hit p1) xs ys p1 p2, [])
  | _, _ => ([], [])
  end.

Definition run_diffh (t1 t2 : value) : list entry * list path :=
  let '(es, rec) := diffh t1 t2 [] [] in (mutual es, rec).
End DiffH.

(* DeepDiff(t1, t2, exclude_paths=, exclude_regex_paths=, include_paths=) with the DeepHash side of the
   two exclusion options ([rxh] = the patterns on the pseudo-paths of set members) *)
Definition run_filtered_h hatom udiff ops (rx : path -> bool) (rxh : path -> nat -> bool)
    (ex_arg inc_arg : list pystr) (c : cfg) (t1 t2 : value) : list entry * list path :=
  let EX := add_root_to_paths ex_arg in
  let INC := add_root_to_paths inc_arg in
  run_diffh hatom udiff ops (skip_this rx EX INC) (excl_this EX) (skip_this_key INC) (hit_this rxh EX) c t1 t2.

(* ------------------------------------------------------------------ *)
(* the specification side: key-sequence filters                        *)
(* ------------------------------------------------------------------ *)
Fixpoint prefixes (p : path) : list path :=
  match p with
  | [] => [[]]
  | k :: r => [] :: map (cons k) (prefixes r)
  end.

Fixpoint path_prefix (q p : path) : bool :=      (* q is a prefix of p *)
  match q, p with
  | [], _ => true
  | a :: q', b :: p' => pkey_eqb a b && path_prefix q' p'
  | _ :: _, [] => false
  end.

(* no prefix of the path (itself included) is excluded *)
Definition not_under (P : path -> bool) (p : path) : bool := negb (existsb P (prefixes p)).
(* at, below or above one of the paths Q *)
Definition related (Q : list path) (p : path) : bool :=
  existsb (fun q => path_prefix q p || path_prefix p q) Q.
Definition keep_entry (R : path -> bool) (e : entry) : bool := R (ep1 e).

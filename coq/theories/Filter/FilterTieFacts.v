(** C13 - lemmas used by the source tie (coq/srctie/FilterGenEquiv.v): [diffv] / [run_diffv] depend on the skip
    test, the union predicate, the key filter and the set-member test only through their VALUES (pointwise
    extensionality; no axiom), and list facts about loops written with an accumulator. *)
From Coq Require Import List ZArith NArith Bool Arith.
Import ListNotations.
From DD Require Import Base.PyStr Base.Value Base.ValueFacts Diff.Tree Diff.DiffModel
  Path.PathModel Filter.FilterModel Filter.FilterModelV Filter.FilterFacts Filter.FilterProofs Filter.FilterHash Filter.FilterV.

Section ExtK.
Variable hatom : atom -> pystr.
Variable udiff : pystr -> pystr -> pystr.
Variable ops : path -> list value -> list value -> list opcode.
Variable sk : vskip.
Variable excl1 excl2 : path -> bool.
Variable kf1 kf2 : path -> atom -> bool.
Variable hit1 hit2 : path -> nat -> bool.
Variable c : cfg.
Hypothesis Hex : forall p, excl1 p = excl2 p.
Hypothesis Hkf : forall p k, kf1 p k = kf2 p k.
Hypothesis Hhit : forall p i, hit1 p i = hit2 p i.
Notation d1 := (diffv hatom udiff ops sk excl1 kf1 hit1 c).
Notation d2 := (diffv hatom udiff ops sk excl2 kf2 hit2 c).

Lemma filter_ext' {A} (f g : A -> bool) l : (forall x, f x = g x) -> filter f l = filter g l.
Proof. intros H. induction l as [|x l IH]; cbn; [reflexivity|]. rewrite H, IH. reflexivity. Qed.

Lemma keys_x_extk p kvs : keys_x kf1 c p kvs = keys_x kf2 c p kvs.
Proof. unfold keys_x. apply filter_ext'. intros k. rewrite Hkf. reflexivity. Qed.

Lemma dict_shortcut_extk k1 k2 p : dict_shortcut excl1 c k1 k2 p = dict_shortcut excl2 c k1 k2 p.
Proof.
  unfold dict_shortcut. destruct (thr_num c =? 0); [reflexivity|].
  rewrite (filter_ext' (fun k => negb (excl1 (snoc p (PKey k)))) (fun k => negb (excl2 (snoc p (PKey k))))); [reflexivity|].
  intros k. rewrite Hex. reflexivity.
Qed.

Lemma members_kept_exth (h1 h2 : nat -> bool) : (forall i, h1 i = h2 i) ->
  forall l memo i, members_kept h1 memo l i = members_kept h2 memo l i.
Proof.
  intros H. induction l as [|a l IH]; intros memo i; cbn [members_kept]; [reflexivity|].
  rewrite H, !IH. reflexivity.
Qed.

Lemma diff_set_hv_exth p xs ys p1 p2 :
  diff_set_hv hatom sk (hit1 p) xs ys p1 p2 = diff_set_hv hatom sk (hit2 p) xs ys p1 p2.
Proof.
  unfold diff_set_hv. rewrite (members_kept_exth (hit1 p) (hit2 p) (Hhit p)).
  destruct (members_kept (hit2 p) [] xs 0) as [xs' m].
  rewrite (members_kept_exth (hit1 p) (hit2 p) (Hhit p)). reflexivity.
Qed.

Lemma gov_list_extk p1 p2 xs : Forall (fun x => forall t2 p q, d1 x t2 p q = d2 x t2 p q) xs ->
  forall ys i, gov_list sk d1 p1 p2 xs ys i = gov_list sk d2 p1 p2 xs ys i.
Proof.
  induction 1 as [|x xs Hx _ IH]; intros ys i; [reflexivity|].
  destruct ys as [|y ys]; [reflexivity|]. cbn [gov_list]. rewrite IH, Hx. reflexivity.
Qed.

Lemma gox_common_extk kvs2 k2 p1 p2 l : Forall (fun kv => forall t2 p q, d1 (snd kv) t2 p q = d2 (snd kv) t2 p q) l ->
  gox_common kf1 c d1 kvs2 k2 p1 p2 l = gox_common kf2 c d2 kvs2 k2 p1 p2 l.
Proof.
  induction 1 as [|[k v1] l Hx _ IH]; [reflexivity|]. cbn [gox_common]. cbn [snd] in Hx. rewrite IH, Hkf.
  destruct (keep_key c k && negb (kf2 p1 k)); [|reflexivity]. destruct (find (py_eq k) k2) as [k'|]; [|reflexivity].
  destruct (assoc k' kvs2) as [v2|]; [|reflexivity]. rewrite Hx. reflexivity.
Qed.

Theorem diffv_extk t1 : forall t2 p q, d1 t1 t2 p q = d2 t1 t2 p q.
Proof.
  induction t1 as [a|xs IH|xs IH|kvs IH|xs|xs] using value_ind'; intros t2 p q; rewrite !diffv_eq;
    (destruct (sk p _ (Some t2)); [reflexivity|]);
    (destruct (negb (ty_eqb (type_of _) (type_of t2))); [reflexivity|]);
    destruct t2 as [b|ys|ys|kvs2|ys|ys]; try reflexivity.
  - destruct (negb (zip c) && forallb is_atom xs && forallb is_atom ys); [reflexivity|apply gov_list_extk; exact IH].
  - destruct (negb (zip c) && forallb is_atom xs && forallb is_atom ys); [reflexivity|apply gov_list_extk; exact IH].
  - cbn zeta. rewrite !keys_x_extk, dict_shortcut_extk.
    destruct (dict_shortcut excl2 c _ _ p); [reflexivity|].
    rewrite (gox_common_extk _ _ _ _ _ IH). reflexivity.
  - rewrite diff_set_hv_exth. reflexivity.
  - rewrite diff_set_hv_exth. reflexivity.
Qed.
End ExtK.

(* [run_diffv] is determined by the values of its four predicate arguments *)
Theorem run_diffv_ext hatom udiff ops sk1 sk2 excl1 excl2 kf1 kf2 hit1 hit2 c t1 t2 :
  (forall p a b, sk1 p a b = sk2 p a b) -> (forall p, excl1 p = excl2 p) ->
  (forall p k, kf1 p k = kf2 p k) -> (forall p i, hit1 p i = hit2 p i) ->
  run_diffv hatom udiff ops sk1 excl1 kf1 hit1 c t1 t2 = run_diffv hatom udiff ops sk2 excl2 kf2 hit2 c t1 t2.
Proof.
  intros Hs He Hk Hh. unfold run_diffv.
  rewrite (diffv_ext_full hatom udiff ops sk1 sk2 excl1 kf1 hit1 c Hs).
  rewrite (diffv_extk hatom udiff ops sk2 excl1 excl2 kf1 kf2 hit1 hit2 c He Hk Hh). reflexivity.
Qed.

(* a loop that only appends to an accumulator *)
Lemma fold_left_acc {A B} (g : list B -> A -> list B) (f : A -> list B) :
  (forall acc x, g acc x = acc ++ f x) -> forall l acc, fold_left g l acc = acc ++ flat_map f l.
Proof.
  intros H. induction l as [|x l IH]; intros acc; cbn [fold_left flat_map]; [rewrite app_nil_r; reflexivity|].
  rewrite IH, H, app_assoc. reflexivity.
Qed.

Lemma existsb_rev {A} (f : A -> bool) l : existsb f (rev l) = existsb f l.
Proof.
  induction l as [|x l IH]; [reflexivity|]. cbn [rev existsb]. rewrite existsb_app, IH. cbn [existsb].
  rewrite orb_false_r. apply orb_comm.
Qed.

Lemma existsb_ext' {A} (f g : A -> bool) l : (forall x, f x = g x) -> existsb f l = existsb g l.
Proof. intros H. induction l as [|x l IH]; cbn; [reflexivity|]. rewrite H, IH. reflexivity. Qed.

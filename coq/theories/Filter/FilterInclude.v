(** C13 - include_paths as an instance of the general theorem, at the STRING
    level: [_skip_this] tests [prefix in level_path or level_path in prefix] as
    substrings and [_skip_this_key] spells the child path with
    "{}['{}']".format.  For include paths made of plain string keys (no quote,
    no bracket) and inputs whose string keys are plain, substring matching on
    rendered paths coincides with the prefix order on key sequences, so the
    option is a pure filter.  Outside of that guard it is not (the refutations
    are in Properties/C13.v). *)
From Coq Require Import List ZArith NArith Bool Arith Lia String.
Import ListNotations.
From DD Require Import Base.PyStr Base.Value Base.ValueFacts Diff.Tree Diff.DiffModel
  Path.PathModel Path.PathLex Filter.FilterModel Filter.FilterFacts Filter.FilterProofs Filter.FilterExclude.

(* ------------------------------------------------------------------ *)
(* plain keys                                                          *)
(* ------------------------------------------------------------------ *)
Definition plain_ch (c : N) : bool :=
  negb (N.eqb c cLB || N.eqb c cRB || N.eqb c cSQ || N.eqb c cDQ).
Definition plain_str (s : pystr) : bool := forallb plain_ch s.
(* dictionary keys of the inputs: plain strings, or any non-string atom *)
Definition ok_atom (a : atom) : bool :=
  match a with AStr s => plain_str s | ABytes _ => false | _ => true end.
Definition ok_key (k : pkey) : bool := match k with PIdx _ => true | PKey a => ok_atom a end.
(* the elements of an include path: plain string keys *)
Definition str_key (k : pkey) : bool := match k with PKey (AStr s) => plain_str s | _ => false end.

Definition brfree (c : N) : bool := negb (N.eqb c cLB || N.eqb c cRB).
Definition body (k : pkey) : pystr := stringify_param (key_atom k).

Lemma render_key_body k : render_key k = cLB :: body k ++ [cRB].
Proof. reflexivity. Qed.

Lemma str_key_ok k : str_key k = true -> ok_key k = true.
Proof. destruct k as [[]|]; cbn; congruence. Qed.

Lemma plain_no_quote s : plain_str s = true -> has_char cSQ s = false /\ has_char cDQ s = false.
Proof.
  unfold plain_str, has_char. induction s as [|c s IH]; cbn [forallb existsb]; [auto|]. intros H.
  apply andb_true_iff in H as [Hc Hs]. destruct (IH Hs) as [A B]. rewrite A, B.
  unfold plain_ch in Hc. apply negb_true_iff in Hc. apply orb_false_iff in Hc as [Hc H4].
  apply orb_false_iff in Hc as [Hc H3]. rewrite (N.eqb_sym cSQ c), (N.eqb_sym cDQ c), H3, H4. auto.
Qed.

Lemma body_str s : plain_str s = true -> body (PKey (AStr s)) = cSQ :: s ++ [cSQ].
Proof.
  intros H. destruct (plain_no_quote s H) as [A B]. unfold body. cbn [key_atom stringify_param].
  unfold stringify_element, QS. rewrite A, B. reflexivity.
Qed.

Lemma numch_brfree_noquote c : numch c = true -> brfree c = true /\ N.eqb c cSQ = false.
Proof.
  intros H. destruct (numch_facts c H) as (_ & Q & _ & L & Rb & _). unfold brfree. rewrite L, Rb.
  split; [reflexivity|]. unfold is_quote in Q. apply orb_false_iff in Q as [Q _]. exact Q.
Qed.

(* the text between the brackets of a non-string key *)
Lemma body_nonstr k : ok_key k = true -> str_key k = false ->
  forallb brfree (body k) = true /\ (forall r, body k <> cSQ :: r).
Proof.
  assert (NUM : forall l, forallb numch l = true -> forallb brfree l = true /\ (forall r, l <> cSQ :: r)).
  { intros l H. split.
    - eapply forallb_impl; [|exact H]. intros c Hc. apply numch_brfree_noquote. exact Hc.
    - intros r E. subst l. cbn in H. discriminate H. }
  destruct k as [a|i]; [|intros _ _; apply NUM; apply p_of_Z_numch].
  destruct a as [|[]|z|t|s|s]; cbn [ok_key ok_atom str_key]; intros O S; try discriminate; try congruence.
  - split; [reflexivity|intros r E; discriminate E].
  - split; [reflexivity|intros r E; discriminate E].
  - split; [reflexivity|intros r E; discriminate E].
  - apply NUM. apply p_of_Z_numch.
  - apply NUM. apply repr_half_numch.
Qed.

Lemma body_brfree k : ok_key k = true -> forallb brfree (body k) = true.
Proof.
  intros O. destruct (str_key k) eqn:S; [|apply body_nonstr; assumption].
  destruct k as [[| | | |s|]|]; try discriminate. rewrite body_str by exact S.
  cbn [forallb]. rewrite forallb_app. cbn. rewrite andb_true_r.
  unfold plain_str in S. eapply forallb_impl; [|exact S]. intros c Hc. unfold plain_ch in Hc. unfold brfree.
  apply negb_true_iff in Hc. apply orb_false_iff in Hc as [Hc _]. apply orb_false_iff in Hc as [Hc _].
  rewrite Hc. reflexivity.
Qed.

(* a key that renders like a plain string key is that key *)
Lemma body_inj k k' : ok_key k = true -> str_key k' = true -> body k = body k' -> k = k'.
Proof.
  intros O S E. destruct k' as [[| | | |s'|]|]; try discriminate. rewrite (body_str s' S) in E.
  destruct (str_key k) eqn:Sk.
  - destruct k as [[| | | |s|]|]; try discriminate. rewrite (body_str s Sk) in E.
    inversion E as [E']. apply app_inj_tail in E' as [-> _]. reflexivity.
  - destruct (body_nonstr k O Sk) as [_ N]. exfalso. eapply N; exact E.
Qed.

(* ------------------------------------------------------------------ *)
(* strings                                                             *)
(* ------------------------------------------------------------------ *)
Lemma is_prefix_app a b : is_prefix a (a ++ b) = true.
Proof. induction a as [|c a IH]; cbn; [reflexivity|]. rewrite N.eqb_refl. exact IH. Qed.

Lemma is_prefix_refl a : is_prefix a a = true.
Proof. induction a as [|c a IH]; cbn; [reflexivity|]. rewrite N.eqb_refl. exact IH. Qed.

Lemma is_prefix_app_same a b c : is_prefix (a ++ b) (a ++ c) = is_prefix b c.
Proof. induction a as [|x a IH]; cbn; [reflexivity|]. rewrite N.eqb_refl. exact IH. Qed.

Lemma is_prefix_sub a b : is_prefix a b = true -> contains_sub a b = true.
Proof. intros H. destruct b; cbn; rewrite H; reflexivity. Qed.

Lemma is_prefix_eq a b : is_prefix a b = true -> exists r, b = a ++ r.
Proof.
  revert b; induction a as [|x a IH]; intros b H; [exists b; reflexivity|].
  destruct b as [|y b]; [discriminate|]. cbn in H. apply andb_true_iff in H as [E H].
  apply N.eqb_eq in E. subst y. destruct (IH b H) as [r ->]. exists r. reflexivity.
Qed.

Lemma mem_str_in s l : mem_str s l = true <-> In s l.
Proof.
  unfold mem_str. rewrite existsb_exists. split.
  - intros (x & Hx & E). apply pystr_eqb_eq in E. subst. exact Hx.
  - intros H. exists s. split; [exact H|apply pystr_eqb_refl].
Qed.

(* a text  u ++ "]" ++ ..  with bracket-free u never starts with  root[  *)
Lemma root_str_eq : root_str = [114; 111; 111; 116]%N.
Proof. reflexivity. Qed.

Lemma no_root_lb_prefix a' u rest : forallb brfree u = true ->
  is_prefix (root_str ++ cLB :: a') (u ++ cRB :: rest) = false.
Proof.
  intros F. rewrite root_str_eq. cbn [app].
  destruct u as [|c1 [|c2 [|c3 [|c4 [|c5 u]]]]]; cbn [app is_prefix].
  - reflexivity.
  - destruct (N.eqb 114 c1); reflexivity.
  - destruct (N.eqb 114 c1), (N.eqb 111 c2); reflexivity.
  - destruct (N.eqb 114 c1), (N.eqb 111 c2), (N.eqb 111 c3); reflexivity.
  - destruct (N.eqb 114 c1), (N.eqb 111 c2), (N.eqb 111 c3), (N.eqb 116 c4); reflexivity.
  - destruct (N.eqb 114 c1), (N.eqb 111 c2), (N.eqb 111 c3), (N.eqb 116 c4); try reflexivity.
    cbn [andb]. cbn [forallb] in F. do 4 (apply andb_true_iff in F as [_ F]).
    apply andb_true_iff in F as [F _]. unfold brfree in F. apply negb_true_iff in F.
    apply orb_false_iff in F as [F _]. rewrite N.eqb_sym, F. reflexivity.
Qed.

(* ... hence nowhere inside the bracket groups of a rendered path *)
Lemma no_root_in_body a u T : forallb brfree u = true ->
  contains_sub (root_str ++ cLB :: a) T = false ->
  contains_sub (root_str ++ cLB :: a) (u ++ cRB :: T) = false.
Proof.
  intros F HT. induction u as [|c u IH].
  - cbn [app contains_sub]. rewrite HT, orb_false_r. apply (no_root_lb_prefix a [] T). reflexivity.
  - cbn [app contains_sub]. cbn [forallb] in F. apply andb_true_iff in F as [Fc Fu].
    rewrite (IH Fu), orb_false_r. apply (no_root_lb_prefix a (c :: u) T). cbn [forallb]. rewrite Fc, Fu. reflexivity.
Qed.

Definition tail (x : path) : pystr := flat_map render_key x.

Lemma render_tail x : render x = root_str ++ tail x.
Proof. reflexivity. Qed.

Lemma tail_cons k x : tail (k :: x) = cLB :: body k ++ cRB :: tail x.
Proof. unfold tail. cbn [flat_map]. rewrite render_key_body. cbn [app]. rewrite <- app_assoc. reflexivity. Qed.

Lemma no_root_in_tail a x : forallb ok_key x = true ->
  contains_sub (root_str ++ cLB :: a) (tail x) = false.
Proof.
  induction x as [|k x IH]; intros O.
  - rewrite root_str_eq. reflexivity.
  - cbn [forallb] in O. apply andb_true_iff in O as [Ok Ox]. rewrite tail_cons.
    cbn [contains_sub]. rewrite (no_root_in_body a (body k) (tail x) (body_brfree k Ok) (IH Ox)), orb_false_r.
    rewrite root_str_eq. reflexivity.
Qed.

(* Claim A: a rendered non-root path occurs in a rendered path only at offset 0 *)
Lemma sub_is_prefix y x : y <> [] -> forallb ok_key x = true ->
  contains_sub (render y) (render x) = true -> is_prefix (render y) (render x) = true.
Proof.
  intros Ny O H. destruct y as [|k y]; [congruence|].
  rewrite (render_tail (k :: y)), tail_cons in *. set (a := body k ++ cRB :: tail y) in *.
  rewrite (render_tail x) in *. pose proof (no_root_in_tail a x O) as T.
  rewrite root_str_eq in *. cbn [app] in *.
  cbn [contains_sub] in H. rewrite T in H.
  apply orb_true_iff in H as [H|H]; [exact H|].
  cbn [is_prefix] in H. cbn in H. discriminate H.
Qed.

(* Claim B: on tails, string prefix = key-sequence prefix when one side consists of plain string keys *)
Lemma prefix_inj_step u u' Y X : forallb brfree u = true -> forallb brfree u' = true ->
  is_prefix (u ++ cRB :: Y) (u' ++ cRB :: X) = true -> u = u' /\ is_prefix Y X = true.
Proof.
  revert u'. induction u as [|a u IH]; intros u' F F' H.
  - destruct u' as [|b u'].
    + cbn in H. split; [reflexivity|exact H].
    + cbn [app is_prefix] in H. cbn [forallb] in F'. apply andb_true_iff in F' as [Fb _].
      apply andb_true_iff in H as [E _]. apply N.eqb_eq in E. subst b. discriminate Fb.
  - cbn [forallb] in F. apply andb_true_iff in F as [Fa Fu]. destruct u' as [|b u'].
    + cbn [app is_prefix] in H. apply andb_true_iff in H as [E _]. apply N.eqb_eq in E. subst a. discriminate Fa.
    + cbn [app is_prefix] in H. cbn [forallb] in F'. apply andb_true_iff in F' as [_ Fu'].
      apply andb_true_iff in H as [E H]. apply N.eqb_eq in E. subst b.
      destruct (IH u' Fu Fu' H) as [-> P]. split; [reflexivity|exact P].
Qed.

(* Claim B: a string prefix of tails splits the longer key sequence: its first part has the same
   bracket contents, element by element *)
Lemma tail_prefix_gen y : forall x, forallb ok_key y = true -> forallb ok_key x = true ->
  is_prefix (tail y) (tail x) = true -> exists x1 x2, x = x1 ++ x2 /\ map body x1 = map body y.
Proof.
  induction y as [|k y IH]; intros x Oy Ox H; [exists [], x; split; reflexivity|].
  destruct x as [|k' x]; [rewrite tail_cons in H; discriminate H|].
  rewrite !tail_cons in H. cbn [is_prefix] in H. apply andb_true_iff in H as [_ H].
  cbn [forallb] in Oy, Ox. apply andb_true_iff in Oy as [Ok Oy]. apply andb_true_iff in Ox as [Ok' Ox].
  destruct (prefix_inj_step _ _ _ _ (body_brfree k Ok) (body_brfree k' Ok') H) as [E P].
  destruct (IH x Oy Ox P) as (x1 & x2 & -> & M). exists (k' :: x1), x2. split; [reflexivity|].
  cbn [map]. rewrite M, E. reflexivity.
Qed.

(* ------------------------------------------------------------------ *)
(* the elements of an include path: list indexes and plain string keys *)
(* ------------------------------------------------------------------ *)
Definition qkey (k : pkey) : bool :=
  match k with PIdx _ => true | PKey (AStr s) => plain_str s | PKey _ => false end.
Definition nodigit_key (k : pkey) : bool :=
  match k with PKey (AStr s) => negb (all_digits s) | _ => true end.

Lemma qkey_ok k : qkey k = true -> ok_key k = true.
Proof. destruct k as [[]|]; cbn; congruence. Qed.
Lemma forallb_qkey_ok q : forallb qkey q = true -> forallb ok_key q = true.
Proof. intros H. eapply forallb_impl; [|exact H]. apply qkey_ok. Qed.
Lemma str_key_qkey k : str_key k = true -> qkey k = true.
Proof. destruct k as [[]|]; cbn; congruence. Qed.

Lemma p_of_Z_inj z z' : p_of_Z z = p_of_Z z' -> z = z'.
Proof.
  intros E. pose proof (literal_eval_int z) as A. rewrite E, literal_eval_int in A. congruence.
Qed.

Lemma body_idx i : body (PIdx i) = p_of_Z (Z.of_nat i).
Proof. reflexivity. Qed.

Lemma p_of_nat_digits i : forallb is_digit (p_of_Z (Z.of_nat i)) = true /\ p_of_Z (Z.of_nat i) <> [].
Proof.
  rewrite <- (nat_N_Z i), p_of_Z_of_N.
  split; [apply p_of_N_digits|apply p_of_N_nonempty].
Qed.

(* a key that renders like the index i is the index i or the int key i *)
Lemma body_idx_inj k i : ok_key k = true -> body k = body (PIdx i) ->
  k = PIdx i \/ k = PKey (AInt (Z.of_nat i)).
Proof.
  intros O E. rewrite body_idx in E. destruct (p_of_nat_digits i) as [D NE].
  destruct k as [a|j].
  - destruct a as [|b|z|t|s|s]; cbn [ok_key ok_atom] in O; try discriminate.
    + unfold body in E. cbn in E. rewrite <- E in D. vm_compute in D. discriminate D.
    + unfold body in E. destruct b; cbn in E; rewrite <- E in D; vm_compute in D; discriminate D.
    + unfold body in E. cbn [key_atom stringify_param repr_atom] in E. apply p_of_Z_inj in E. subst z. right. reflexivity.
    + unfold body in E. cbn [key_atom stringify_param repr_atom] in E. exfalso.
      rewrite <- E in D. unfold repr_half in D. rewrite !forallb_app in D.
      apply andb_true_iff in D as [_ D]. apply andb_true_iff in D as [_ D]. cbn in D. discriminate D.
    + rewrite body_str in E by exact O. rewrite <- E in D. discriminate D.
  - left. rewrite body_idx in E. apply p_of_Z_inj in E. apply Nat2Z.inj in E. subst j. reflexivity.
Qed.

(* with an include-path element on the right: equal, or the int key / index confusion *)
Lemma body_qkey_inj k k' : ok_key k = true -> qkey k' = true -> body k = body k' ->
  k = k' \/ exists i, k' = PIdx i /\ k = PKey (AInt (Z.of_nat i)).
Proof.
  intros O Q E. destruct k' as [a|i].
  - left. apply body_inj; [exact O| |exact E]. destruct a; cbn in *; congruence.
  - destruct (body_idx_inj k i O E) as [H|H]; subst k; [left; reflexivity|right; eauto].
Qed.

Lemma qkey_body_inj k k' : qkey k = true -> qkey k' = true -> body k = body k' -> k = k'.
Proof.
  intros Q Q' E. destruct (body_qkey_inj k k' (qkey_ok k Q) Q' E) as [H|(i & H1 & H2)]; [exact H|subst; discriminate Q].
Qed.

Lemma qkeys_body_inj a : forall b, forallb qkey a = true -> forallb qkey b = true ->
  map body a = map body b -> a = b.
Proof.
  induction a as [|k a IH]; intros [|k' b] A B E; try discriminate; [reflexivity|].
  cbn in A, B, E. apply andb_true_iff in A as [Ak A]. apply andb_true_iff in B as [Bk B].
  inversion E as [[E1 E2]]. rewrite (qkey_body_inj k k' Ak Bk E1), (IH b A B E2). reflexivity.
Qed.

Lemma path_prefix_app q p : path_prefix q p = true <-> exists l, p = q ++ l.
Proof.
  revert p; induction q as [|a q IH]; intros p; cbn.
  - split; [intros _; exists p; reflexivity|reflexivity].
  - destruct p as [|b p]; [split; [discriminate|intros [l E]; discriminate E]|].
    rewrite andb_true_iff, pkey_eqb_eq, IH. split.
    + intros [-> [l ->]]. exists l. reflexivity.
    + intros [l E]. inversion E; subst. split; [reflexivity|exists l; reflexivity].
Qed.

Lemma path_prefix_refl p : path_prefix p p = true.
Proof. apply path_prefix_app. exists []. rewrite app_nil_r. reflexivity. Qed.

Lemma path_prefix_snoc_r p k : path_prefix p (snoc p k) = true.
Proof. apply path_prefix_app. exists [k]. reflexivity. Qed.

Lemma path_prefix_trans a b c : path_prefix a b = true -> path_prefix b c = true -> path_prefix a c = true.
Proof.
  rewrite !path_prefix_app. intros [l ->] [l' ->]. exists (l ++ l'). rewrite app_assoc. reflexivity.
Qed.

(* a prefix of p ++ [k] is a prefix of p, or the whole *)
Lemma path_prefix_snoc_l q p k : path_prefix q (snoc p k) = true -> path_prefix q p = true \/ q = snoc p k.
Proof.
  intros H. apply path_prefix_app in H as [l E]. unfold snoc in *.
  destruct l as [|x l] using rev_ind.
  - right. rewrite app_nil_r in E. symmetry. exact E.
  - left. rewrite app_assoc in E. apply app_inj_tail in E as [-> _]. apply path_prefix_app. exists l. reflexivity.
Qed.

Lemma strict_prefixes_in q p : path_prefix q p = true -> q = p \/ In q (strict_prefixes p).
Proof.
  revert q; induction p as [|a p IH]; intros q H.
  - destruct q; [left; reflexivity|discriminate].
  - destruct q as [|b q]; [right; left; reflexivity|].
    cbn in H. apply andb_true_iff in H as [E H]. apply pkey_eqb_eq in E. subst b.
    destruct (IH q H) as [->|I]; [left; reflexivity|right]. cbn. right. apply in_map. exact I.
Qed.

Lemma render_app p l : render (p ++ l) = render p ++ tail l.
Proof. unfold render, tail. rewrite flat_map_app, app_assoc. reflexivity. Qed.

Lemma prefix_render q p : path_prefix q p = true -> is_prefix (render q) (render p) = true.
Proof. intros H. apply path_prefix_app in H as [l ->]. rewrite render_app. apply is_prefix_app. Qed.

Lemma py_eq_str a s : py_eq a (AStr s) = true -> a = AStr s.
Proof.
  destruct a; cbn; try discriminate. intros H. apply pystr_eqb_eq in H. congruence.
Qed.

Lemma key_fmt_str p s : plain_str s = true -> key_fmt p (AStr s) = render (snoc p (PKey (AStr s))).
Proof.
  intros H. unfold snoc. rewrite render_app. unfold key_fmt, tail. cbn [flat_map]. rewrite app_nil_r.
  rewrite render_key_body, body_str by exact H. cbn [str_atom repr_atom]. cbn [app]. rewrite <- app_assoc. reflexivity.
Qed.

(* ------------------------------------------------------------------ *)
(* include_paths                                                       *)

Lemma strict_prefixes_prefix a p : In a (strict_prefixes p) -> path_prefix a p = true.
Proof.
  revert a; induction p as [|k p IH]; intros a H; [destruct H|].
  cbn in H. destruct H as [<-|H]; [reflexivity|].
  apply in_map_iff in H as (b & <- & Hb). cbn. rewrite (proj2 (pkey_eqb_eq k k) eq_refl). apply IH. exact Hb.
Qed.

Lemma map_snoc_inv {A B} (f : A -> B) p k : forall q, map f (p ++ [k]) = map f q ->
  exists q0 k', q = q0 ++ [k'] /\ map f p = map f q0 /\ f k = f k'.
Proof.
  induction p as [|a p IH]; intros q E.
  - destruct q as [|k' [|? ?]]; try discriminate. cbn in E. inversion E. exists [], k'. auto.
  - destruct q as [|b q]; [discriminate|]. cbn in E. inversion E as [[E1 E2]].
    destruct (IH q E2) as (q0 & k' & -> & M & F). exists (b :: q0), k'. cbn. rewrite E1, M. auto.
Qed.

(* rendered paths of include-path shape are distinct for distinct key sequences *)
Lemma qkeys_render_inj a b : forallb qkey a = true -> forallb qkey b = true -> render a = render b -> a = b.
Proof.
  intros A B E. rewrite !render_tail in E. apply app_inv_head in E.
  assert (P1 : is_prefix (tail a) (tail b) = true) by (rewrite E; apply is_prefix_refl).
  assert (P2 : is_prefix (tail b) (tail a) = true) by (rewrite E; apply is_prefix_refl).
  destruct (tail_prefix_gen a b (forallb_qkey_ok a A) (forallb_qkey_ok b B) P1) as (x1 & x2 & -> & M1).
  destruct (tail_prefix_gen _ a (forallb_qkey_ok _ B) (forallb_qkey_ok a A) P2) as (y1 & y2 & Ea & M2).
  assert (L1 : List.length x1 = List.length a) by (rewrite <- (map_length body x1), M1, map_length; reflexivity).
  assert (L2 : List.length y1 = List.length (x1 ++ x2)) by (rewrite <- (map_length body y1), M2, map_length; reflexivity).
  assert (x2 = []).
  { destruct x2 as [|e x2]; [reflexivity|]. exfalso. rewrite app_length in L2. cbn in L2.
    assert (List.length a = List.length y1 + List.length y2) by (rewrite Ea at 1; apply app_length). lia. }
  subst x2. rewrite app_nil_r in *. symmetry. apply qkeys_body_inj; assumption.
Qed.

(* ------------------------------------------------------------------ *)
(* include_paths                                                       *)
(* ------------------------------------------------------------------ *)
Section Include.
Variable Q : list path.
Hypothesis HQ : Forall (fun q => forallb qkey q = true) Q.
(* when an include path goes through a list index, no str key of an include path is a digit string *)
Hypothesis HD : Forall (fun q => forallb str_key q = true) Q \/ Forall (fun q => forallb nodigit_key q = true) Q.
Let INC := map render Q.
Notation sk := (skip_this no_skip [] INC).
Notation kf := (skip_this_key INC).
Notation Rq := (related Q).
Notation okp := (forallb ok_key).

Lemma Q_qkey q : In q Q -> forallb qkey q = true.
Proof. rewrite Forall_forall in HQ. apply HQ. Qed.

Lemma inc_in q : In q Q -> mem_str (render q) INC = true.
Proof. intros H. apply mem_str_in. unfold INC. apply in_map. exact H. Qed.

Lemma related_iff p : Rq p = true <-> exists q, In q Q /\ (path_prefix q p = true \/ path_prefix p q = true).
Proof.
  unfold related. rewrite existsb_exists. split; intros (q & Hq & H); exists q; (split; [exact Hq|]).
  - apply orb_true_iff. exact H.
  - apply orb_true_iff. exact H.
Qed.

Lemma related_up p k : Rq (snoc p k) = true -> Rq p = true.
Proof.
  rewrite !related_iff. intros (q & Hq & [H|H]); exists q; (split; [exact Hq|]).
  - destruct (path_prefix_snoc_l _ _ _ H) as [H' | ->]; [left; exact H'|right; apply path_prefix_snoc_r].
  - right. eapply path_prefix_trans; [apply path_prefix_snoc_r|exact H].
Qed.

Lemma related_nonempty p : Rq p = true -> exists s r, INC = s :: r.
Proof.
  unfold INC. destruct Q as [|q r]; [cbn; discriminate|]. intros _. cbn. eauto.
Qed.

(* a kept level is never skipped *)
Lemma inc_H1 p : Rq p = true -> sk p = false.
Proof.
  intros H. destruct (related_nonempty p H) as (s & r & E). unfold skip_this. rewrite E. rewrite <- E.
  cbn [mem_str existsb no_skip orb].
  destruct p as [|k p]; [reflexivity|]. cbn [is_root negb].
  destruct (mem_str (render (k :: p)) INC); cbn [negb]; [reflexivity|].
  apply negb_false_iff. apply existsb_exists.
  apply related_iff in H as (q & Hq & H). exists (render q). split; [unfold INC; apply in_map; exact Hq|].
  apply orb_true_iff. destruct H as [H|H]; [left|right]; apply is_prefix_sub, prefix_render; exact H.
Qed.

Lemma kf_false p a :
  (exists s r, INC = s :: r) ->
  mem_str (key_fmt p a) INC || mem_str (render p) INC ||
  existsb (fun pre => contains_sub (key_fmt p a) pre) INC ||
  existsb (fun x => mem_str (render x) INC) (strict_prefixes p) = true ->
  kf p a = false.
Proof.
  intros (s & r & E) H. unfold skip_this_key. rewrite E. rewrite <- E.
  destruct (mem_str (key_fmt p a) INC); [reflexivity|].
  destruct (mem_str (render p) INC); [reflexivity|].
  destruct (existsb (fun pre => contains_sub (key_fmt p a) pre) INC); [reflexivity|].
  destruct (existsb (fun x => mem_str (render x) INC) (strict_prefixes p)); [reflexivity|discriminate H].
Qed.

(* a key on the way to, at, or below an include path passes the key filter *)
Lemma inc_Hkey p a b : Rq p = true -> py_eq a b = true -> Rq (snoc p (PKey b)) = true -> kf p a = false.
Proof.
  intros Hp E H. apply kf_false; [eapply related_nonempty; exact Hp|].
  apply related_iff in H as (q & Hq & H).
  assert (BELOW : path_prefix q p = true ->
     mem_str (render p) INC || existsb (fun x => mem_str (render x) INC) (strict_prefixes p) = true).
  { intros P. destruct (strict_prefixes_in _ _ P) as [->|I].
    - rewrite (inc_in p Hq). reflexivity.
    - apply orb_true_iff. right. apply existsb_exists. exists q. split; [exact I|apply inc_in; exact Hq]. }
  assert (STR : forall l, q = snoc p (PKey b) ++ l -> key_fmt p a = render (snoc p (PKey b))).
  { intros l Eq. pose proof (Q_qkey q Hq) as S. rewrite Eq in S. unfold snoc in S. rewrite !forallb_app in S.
    apply andb_true_iff in S as [S _]. apply andb_true_iff in S as [_ S]. cbn in S. rewrite andb_true_r in S.
    destruct b as [| | | |s|]; try discriminate. apply py_eq_str in E. subst a. apply key_fmt_str. exact S. }
  destruct H as [H|H].
  - destruct (path_prefix_snoc_l _ _ _ H) as [P|Eq].
    + apply BELOW in P. apply orb_true_iff in P as [P|P]; rewrite P; rewrite ?orb_true_r; reflexivity.
    + rewrite (STR [] (eq_trans Eq (eq_sym (app_nil_r _)))). rewrite <- Eq, (inc_in q Hq). reflexivity.
  - apply path_prefix_app in H as [l Eq]. rewrite (STR l Eq).
    assert (X : existsb (fun pre => contains_sub (render (snoc p (PKey b))) pre) INC = true).
    { apply existsb_exists. exists (render q). split; [unfold INC; apply in_map; exact Hq|].
      apply is_prefix_sub. rewrite Eq, render_app. apply is_prefix_app. }
    rewrite X. rewrite ?orb_true_r. reflexivity.
Qed.

(* a kept level whose child is not kept lies strictly above an include path *)
Lemma unrelated_child p k : Rq p = true -> Rq (snoc p k) = false ->
  forallb qkey p = true /\ (forall q, In q Q -> path_prefix q p = false).
Proof.
  intros H E.
  assert (N : forall q, In q Q -> path_prefix q p = false).
  { intros q Hq. destruct (path_prefix q p) eqn:P; [|reflexivity].
    assert (Rq (snoc p k) = true); [|congruence].
    apply related_iff. exists q. split; [exact Hq|left]. eapply path_prefix_trans; [exact P|apply path_prefix_snoc_r]. }
  split; [|exact N]. apply related_iff in H as (q & Hq & [A|B]); [rewrite (N q Hq) in A; discriminate A|].
  apply path_prefix_app in B as [l ->]. pose proof (Q_qkey _ Hq) as S. rewrite forallb_app in S.
  apply andb_true_iff in S as [S _]. exact S.
Qed.

(* the three string tests of _skip_this between a level and one include string *)
Definition srel (x q : path) : bool :=
  pystr_eqb (render x) (render q) || contains_sub (render q) (render x) || contains_sub (render x) (render q).

Lemma string_rel x q : okp x = true -> x <> [] -> In q Q -> srel x q = true ->
  (exists x1 x2, x = x1 ++ x2 /\ map body x1 = map body q) \/
  (exists q1 q2, q = q1 ++ q2 /\ map body q1 = map body x).
Proof.
  intros O NE Hq H. pose proof (forallb_qkey_ok q (Q_qkey q Hq)) as Oq.
  assert (C : contains_sub (render q) (render x) = true \/ contains_sub (render x) (render q) = true).
  { unfold srel in H. apply orb_true_iff in H as [H|H]; [|right; exact H].
    apply orb_true_iff in H as [H|H]; [|left; exact H].
    apply pystr_eqb_eq in H. left. rewrite H. apply is_prefix_sub, is_prefix_refl. }
  destruct C as [C|C].
  - left. destruct q as [|kq q]; [exists [], x; split; reflexivity|].
    apply sub_is_prefix in C; [|discriminate|exact O].
    rewrite !render_tail, is_prefix_app_same in C. apply tail_prefix_gen; assumption.
  - right. apply sub_is_prefix in C; [|exact NE|exact Oq].
    rewrite !render_tail, is_prefix_app_same in C. apply tail_prefix_gen; assumption.
Qed.

Lemma child_rel p k q : forallb qkey p = true -> ok_key k = true ->
  (forall q', In q' Q -> path_prefix q' p = false) -> In q Q -> srel (snoc p k) q = true ->
  exists k', qkey k' = true /\ body k = body k' /\ path_prefix (snoc p k') q = true.
Proof.
  intros Qp Ok N Hq H. pose proof (Q_qkey q Hq) as Sq.
  assert (O : okp (snoc p k) = true).
  { unfold snoc. rewrite forallb_app, (forallb_qkey_ok p Qp). cbn. rewrite Ok. reflexivity. }
  assert (NE : snoc p k <> []) by (unfold snoc; destruct p; discriminate).
  destruct (string_rel _ q O NE Hq H) as [(x1 & x2 & E & M)|(q1 & q2 & E & M)].
  - destruct x2 as [|e x2 _] using rev_ind.
    + rewrite app_nil_r in E. subst x1. unfold snoc in M. destruct (map_snoc_inv body p k q M) as (q0 & k' & -> & M0 & Bk).
      rewrite forallb_app in Sq. apply andb_true_iff in Sq as [S0 Sk]. cbn in Sk. rewrite andb_true_r in Sk.
      pose proof (qkeys_body_inj p q0 Qp S0 M0). subst q0. exists k'. repeat split; try assumption. apply path_prefix_refl.
    + exfalso. unfold snoc in E. rewrite app_assoc in E. apply app_inj_tail in E as [E _]. subst p.
      rewrite forallb_app in Qp. apply andb_true_iff in Qp as [Q1 _].
      pose proof (qkeys_body_inj x1 q Q1 Sq M). subst x1.
      pose proof (N q Hq) as F. rewrite (proj2 (path_prefix_app q (q ++ x2))) in F by (exists x2; reflexivity). discriminate F.
  - unfold snoc in M. symmetry in M. destruct (map_snoc_inv body p k q1 M) as (q0 & k' & -> & M0 & Bk).
    subst q. rewrite !forallb_app in Sq. apply andb_true_iff in Sq as [Sq _]. apply andb_true_iff in Sq as [S0 Sk].
    cbn in Sk. rewrite andb_true_r in Sk.
    pose proof (qkeys_body_inj p q0 Qp S0 M0). subst q0. exists k'. repeat split; try assumption.
    apply path_prefix_app. exists q2. reflexivity.
Qed.

Lemma srel_none_skip x : x <> [] -> (exists s r, INC = s :: r) ->
  (forall q, In q Q -> srel x q = false) -> sk x = true.
Proof.
  intros NE (s & r & E) H. unfold skip_this. rewrite E. rewrite <- E.
  destruct x as [|k x]; [congruence|]. cbn [is_root negb].
  assert (M : mem_str (render (k :: x)) INC = false).
  { destruct (mem_str (render (k :: x)) INC) eqn:M; [|reflexivity]. apply mem_str_in in M. unfold INC in M.
    apply in_map_iff in M as (q & Eq & Hq). pose proof (H q Hq) as F. unfold srel in F.
    rewrite Eq, pystr_eqb_refl in F. discriminate F. }
  rewrite M. cbn [negb]. apply negb_true_iff.
  destruct (existsb _ INC) eqn:X; [|reflexivity]. apply existsb_exists in X as (t & Ht & X). unfold INC in Ht.
  apply in_map_iff in Ht as (q & <- & Hq). pose proof (H q Hq) as F. unfold srel in F.
  apply orb_false_iff in F as [F F2]. apply orb_false_iff in F as [_ F1]. rewrite F1, F2 in X. discriminate X.
Qed.

(* a child that is not kept is skipped on entry, except for the int key that prints like an index of an include path *)
Lemma drop_unless_confusion p k : Rq p = true -> Rq (snoc p k) = false -> ok_key k = true ->
  sk (snoc p k) = true \/
  exists i q, k = PKey (AInt (Z.of_nat i)) /\ In q Q /\ path_prefix (snoc p (PIdx i)) q = true.
Proof.
  intros H E Ok. destruct (unrelated_child p k H E) as [Qp N].
  destruct (existsb (fun q => srel (snoc p k) q) Q) eqn:X.
  - apply existsb_exists in X as (q & Hq & S).
    destruct (child_rel p k q Qp Ok N Hq S) as (k' & Qk' & B & P).
    destruct (body_qkey_inj k k' Ok Qk' B) as [->|(i & -> & ->)].
    + exfalso. assert (Rq (snoc p k') = true); [|congruence]. apply related_iff. exists q. split; [exact Hq|right; exact P].
    + right. exists i, q. auto.
  - left. apply srel_none_skip; [unfold snoc; destruct p; discriminate|eapply related_nonempty; exact H|].
    intros q Hq. destruct (srel (snoc p k) q) eqn:S; [|reflexivity].
    assert (existsb (fun q => srel (snoc p k) q) Q = true) by (apply existsb_exists; exists q; split; assumption). congruence.
Qed.

Lemma digits_plain s : forallb is_digit s = true -> plain_str s = true.
Proof.
  intros H. unfold plain_str. eapply forallb_impl; [|exact H]. intros c Hc.
  unfold is_digit in Hc. apply andb_true_iff in Hc as [A B]. apply N.leb_le in A, B.
  unfold plain_ch, cLB, cRB, cSQ, cDQ. apply negb_true_iff.
  repeat (apply orb_false_iff; split); apply N.eqb_neq; lia.
Qed.

(* ... and that int key is dropped by the key filter *)
Lemma confusion_kf p i q : Rq p = true -> Rq (snoc p (PKey (AInt (Z.of_nat i)))) = false ->
  In q Q -> path_prefix (snoc p (PIdx i)) q = true -> kf p (AInt (Z.of_nat i)) = true.
Proof.
  intros H E Hq P. destruct (unrelated_child _ _ H E) as [Qp N].
  set (s := p_of_Z (Z.of_nat i)). destruct (p_of_nat_digits i) as [Ds NEs]. fold s in Ds, NEs.
  assert (Ps : plain_str s = true) by (apply digits_plain; exact Ds).
  assert (AD : all_digits s = true) by (unfold all_digits; destruct s; [congruence|exact Ds]).
  (* no include path carries the str key s *)
  assert (ND : forall q', In q' Q -> forallb nodigit_key q' = true).
  { destruct HD as [HS|HN]; [|rewrite Forall_forall in HN; exact HN]. exfalso.
    rewrite Forall_forall in HS. pose proof (HS q Hq) as S. apply path_prefix_app in P as [l ->].
    unfold snoc in S. rewrite !forallb_app in S. apply andb_true_iff in S as [S _]. apply andb_true_iff in S as [_ S].
    discriminate S. }
  assert (KF : key_fmt p (AInt (Z.of_nat i)) = render (snoc p (PKey (AStr s)))).
  { change (key_fmt p (AInt (Z.of_nat i))) with (key_fmt p (AStr s)). apply key_fmt_str. exact Ps. }
  assert (NS : forall q', In q' Q -> srel (snoc p (PKey (AStr s))) q' = false).
  { intros q' Hq'. destruct (srel (snoc p (PKey (AStr s))) q') eqn:S; [|reflexivity]. exfalso.
    destruct (child_rel p (PKey (AStr s)) q' Qp Ps N Hq' S) as (k' & Qk' & B & P').
    destruct (body_qkey_inj (PKey (AStr s)) k' Ps Qk' B) as [<-|(j & _ & F)]; [|discriminate F].
    pose proof (ND q' Hq') as D. apply path_prefix_app in P' as [l ->]. unfold snoc in D.
    rewrite !forallb_app in D. apply andb_true_iff in D as [D _]. apply andb_true_iff in D as [_ D].
    cbn in D. rewrite AD in D. discriminate D. }
  destruct (related_nonempty p H) as (s0 & r0 & EI). unfold skip_this_key. rewrite EI. rewrite <- EI. rewrite KF.
  assert (R1 : mem_str (render (snoc p (PKey (AStr s)))) INC = false).
  { destruct (mem_str _ INC) eqn:M; [|reflexivity]. apply mem_str_in in M. unfold INC in M.
    apply in_map_iff in M as (q' & Eq & Hq'). pose proof (NS q' Hq') as F. unfold srel in F.
    rewrite Eq, pystr_eqb_refl in F. discriminate F. }
  assert (REQ : forall a, path_prefix a p = true -> mem_str (render a) INC = false).
  { intros a Pa. destruct (mem_str (render a) INC) eqn:M; [|reflexivity]. apply mem_str_in in M. unfold INC in M.
    apply in_map_iff in M as (q' & Eq & Hq'). exfalso.
    assert (Qa : forallb qkey a = true).
    { apply path_prefix_app in Pa as [l El]. rewrite El in Qp. rewrite forallb_app in Qp. apply andb_true_iff in Qp as [A _]. exact A. }
    pose proof (qkeys_render_inj q' a (Q_qkey q' Hq') Qa Eq). subst q'.
    rewrite (N a Hq') in Pa. discriminate Pa. }
  rewrite R1, (REQ p (path_prefix_refl p)).
  assert (R3 : existsb (fun pre => contains_sub (render (snoc p (PKey (AStr s)))) pre) INC = false).
  { destruct (existsb _ INC) eqn:X; [|reflexivity]. apply existsb_exists in X as (t & Ht & X). unfold INC in Ht.
    apply in_map_iff in Ht as (q' & <- & Hq'). pose proof (NS q' Hq') as F. unfold srel in F.
    apply orb_false_iff in F as [_ F]. rewrite F in X. discriminate X. }
  rewrite R3.
  assert (R4 : existsb (fun x => mem_str (render x) INC) (strict_prefixes p) = false).
  { destruct (existsb _ (strict_prefixes p)) eqn:X; [|reflexivity]. apply existsb_exists in X as (a & Ha & X).
    rewrite (REQ a (strict_prefixes_prefix a p Ha)) in X. discriminate X. }
  rewrite R4. reflexivity.
Qed.

Lemma inc_Hdropk p a : Rq p = true -> ok_atom a = true -> Rq (snoc p (PKey a)) = false ->
  kf p a = true \/ sk (snoc p (PKey a)) = true.
Proof.
  intros H Oa E. destruct (drop_unless_confusion p (PKey a) H E Oa) as [S|(i & q & Ek & Hq & P)]; [right; exact S|].
  left. inversion Ek. subst a. eapply confusion_kf; eassumption.
Qed.

Lemma inc_Hdropi p i : Rq p = true -> Rq (snoc p (PIdx i)) = false -> sk (snoc p (PIdx i)) = true.
Proof.
  intros H E. destruct (drop_unless_confusion p (PIdx i) H E eq_refl) as [S|(j & q & Ek & _)]; [exact S|discriminate Ek].
Qed.

(* include paths made of dictionary keys only: at a kept level the index children are kept or dropped together *)
Lemma inc_dich : Forall (fun q => forallb str_key q = true) Q -> forall p, Rq p = true ->
  (forall i, Rq (snoc p (PIdx i)) = true) \/ (forall i, Rq (snoc p (PIdx i)) = false).
Proof.
  intros HS p H. rewrite Forall_forall in HS.
  destruct (existsb (fun q => path_prefix q p) Q) eqn:X.
  - left. intros i. apply existsb_exists in X as (q & Hq & P). apply related_iff. exists q. split; [exact Hq|left].
    eapply path_prefix_trans; [exact P|apply path_prefix_snoc_r].
  - right. intros i. destruct (Rq (snoc p (PIdx i))) eqn:E; [|reflexivity]. exfalso.
    apply related_iff in E as (q & Hq & [A|B]).
    + destruct (path_prefix_snoc_l _ _ _ A) as [A' | ->].
      * assert (existsb (fun q => path_prefix q p) Q = true) by (apply existsb_exists; exists q; split; assumption). congruence.
      * pose proof (HS _ Hq) as S. unfold snoc in S. rewrite forallb_app in S. apply andb_true_iff in S as [_ S]. discriminate S.
    + apply path_prefix_app in B as [l ->]. pose proof (HS _ Hq) as S. unfold snoc in S. rewrite !forallb_app in S.
      apply andb_true_iff in S as [S _]. apply andb_true_iff in S as [_ S]. discriminate S.
Qed.
End Include.

Lemma add_root_render Q : add_root_to_paths (map render Q) = map render Q.
Proof.
  unfold add_root_to_paths. induction Q as [|q Q IH]; cbn [map flat_map]; [reflexivity|].
  rewrite IH. unfold add_root_one. rewrite render_tail, is_prefix_app. reflexivity.
Qed.

Lemma related_root Q : Q <> [] -> related Q [] = true.
Proof. destruct Q as [|q Q]; [congruence|]. intros _. cbn. destruct q; reflexivity. Qed.

(* include paths: list indexes and plain string keys; positional mode, or the default alignment mode when
   the include paths consist of dictionary keys only *)
Theorem include_filter hatom udiff ops c Q t1 t2 :
  Q <> [] -> Forall (fun q => forallb qkey q = true) Q ->
  Forall (fun q => forallb str_key q = true) Q \/ Forall (fun q => forallb nodigit_key q = true) Q ->
  zip c = true \/ Forall (fun q => forallb str_key q = true) Q ->
  thr_num c = 0 -> wf t2 = true ->
  keys_all ok_atom t1 = true -> keys_all ok_atom t2 = true ->
  fst (run_filtered hatom udiff ops no_skip [] (map render Q) c t1 t2) =
  filter (fun e => related Q (ep1 e)) (fst (run_diff hatom udiff ops no_skip no_skip c t1 t2)).
Proof.
  intros NQ HQ HD M T W O1 O2. unfold run_filtered. rewrite add_root_render. change (add_root_to_paths []) with (@nil pystr).
  rewrite <- run_diffx_no_kf.
  apply (run_general hatom udiff ops c (skip_this no_skip [] (map render Q)) (skip_this_key (map render Q))
           (excl_this []) no_skip (related Q) (forallb ok_key) ok_atom); try assumption; try reflexivity.
  - intros p a Hp Ha. unfold snoc. rewrite forallb_app, Hp. cbn. rewrite Ha. reflexivity.
  - intros p i Hp. unfold snoc. rewrite forallb_app, Hp. reflexivity.
  - intros p _ H. apply inc_H1; assumption.
  - intros p k Hk. eapply related_up; eassumption.
  - intros p a b Hp Ha Hb H E Hr. eapply inc_Hkey; eassumption.
  - intros p a Hp Ha H E. eapply inc_Hdropk; eassumption.
  - intros p i Hp H E. eapply inc_Hdropi; eassumption.
  - destruct M as [Z|S]; [left; exact Z|right]. intros p Hp. eapply inc_dich; eassumption.
  - left. exact T.
  - intros k1 k2 p. rewrite !shortcut_thr0 by exact T. reflexivity.
  - apply related_root. exact NQ.
Qed.

(* the guards are satisfiable by non-trivial inputs *)
Local Open Scope string_scope.
Example include_guard_example :
  let q := [PKey (AStr (s2p "a")); PIdx 1; PKey (AStr (s2p "b c"))] in
  let t := VDict [(AStr (s2p "a"), VList [VAtom ANone; VDict [(AStr (s2p "b c"), VList [VAtom (AInt 1)]); (AInt 3, VAtom ANone)]]);
                  (AHalf 3, VAtom (AInt 2)); (AInt 1, VAtom ANone)] in
  forallb qkey q = true /\ forallb nodigit_key q = true /\ keys_all ok_atom t = true /\ wf t = true.
Proof. vm_compute. auto. Qed.

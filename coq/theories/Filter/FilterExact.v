(** C13 - instances of the guarded general theorem (Filter/FilterGuard.v):

    [xguard P E c t1 t2]  the input-level guard for exclusion: at every pair of dictionaries the
        FILTERED run reaches, subtracting the excluded keys from the union flips no whole-dict
        shortcut; at every pair of all-atom sequences it reaches in the default alignment mode no
        index child is excluded (or all are).  Weaker than [stable] + "positional or idx_closed"
        ([stable_xguard]): it never looks below an excluded position, and in the default mode it
        lets excluded paths end in an index of a sequence that holds a container.
    [exclude_filter_guard]   under [xguard] exclusion is a pure filter in every mode at every threshold
    [exclude_guard_exact]    ... and, in positional mode / for [idx_closed] predicates, ONLY under it
    [include_filter_guard]   include_paths at any threshold / in the default mode under the guard. *)
From Coq Require Import List ZArith NArith Bool Arith Lia.
Import ListNotations.
From DD Require Import Base.PyStr Base.Value Base.ValueFacts Diff.Tree Diff.DiffModel Diff.DiffFacts Diff.DiffPaths
  Path.PathModel Filter.FilterModel Filter.FilterFacts Filter.FilterProofs Filter.FilterExclude
  Filter.FilterThreshold Filter.FilterInclude Filter.FilterGuard.

(* ------------------------------------------------------------------ *)
(* exclusion                                                           *)
(* ------------------------------------------------------------------ *)
Definition xguard (P E : path -> bool) (c : cfg) (t1 t2 : value) : bool :=
  P [] || guard c no_kf E no_skip (not_under P) t1 t2 [].

Theorem exclude_filter_guard hatom udiff ops c P E t1 t2 :
  wf t2 = true -> xguard P E c t1 t2 = true ->
  fst (run_diff hatom udiff ops P E c t1 t2) =
  filter (fun e => not_under P (ep1 e)) (fst (run_diff hatom udiff ops no_skip no_skip c t1 t2)).
Proof.
  intros W S. unfold xguard in S. destruct (P []) eqn:Root.
  - unfold run_diff at 1. rewrite diff_skip by exact Root. cbn.
    symmetry. apply filter_none. intros e _. apply not_under_root_excluded. exact Root.
  - cbn [orb] in S. rewrite <- !run_diffx_no_kf.
    apply (run_general_g hatom udiff ops c P no_kf E no_skip (not_under P) (fun _ => true) (fun _ => true));
      try reflexivity; try assumption.
    + intros p _ H. apply not_under_self. exact H.
    + intros p k H. rewrite not_under_snoc in H. apply andb_true_iff in H as [H _]. exact H.
    + intros p a _ _ H E0. rewrite not_under_snoc, H in E0. cbn in E0. apply negb_false_iff in E0. right. exact E0.
    + intros p i _ H E0. rewrite not_under_snoc, H in E0. cbn in E0. apply negb_false_iff in E0. exact E0.
    + apply keys_all_true.
    + apply keys_all_true.
    + rewrite not_under_nil, Root. reflexivity.
Qed.

(* the old guards imply the new one *)
Section StableGuard.
Variable c : cfg.
Variable P E : path -> bool.
Hypothesis Hmode : zip c = true \/ idx_closed P.
Notation G := (guard c no_kf E no_skip (not_under P)).

Lemma stable_guard t1 : forall t2 p, not_under P p = true -> stable E c t1 t2 p = true -> G t1 t2 p = true.
Proof.
  induction t1 as [a|xs IH|xs IH|kvs IH|xs|xs] using value_ind'; intros t2 p H S;
    destruct t2 as [b|ys|ys|kvs2|ys|ys]; try reflexivity.
  - rewrite guard_list. unfold g_seq. rewrite stable_list in S.
    destruct (negb (zip c) && forallb is_atom xs && forallb is_atom ys) eqn:D.
    + destruct Hmode as [Z|I]; [rewrite Z in D; discriminate|]. unfold idx_uniform. apply orb_true_iff. left.
      apply forallb_forall. intros i _. rewrite not_under_snoc, H, (I p i H). reflexivity.
    + clear D. revert S. generalize 0 as i. revert ys.
      induction IH as [|x xs Hx _ IHl]; intros ys i S; [reflexivity|]. destruct ys as [|y ys]; [reflexivity|].
      cbn [st_list] in S. apply andb_true_iff in S as [S1 S2].
      cbn [g_list]. rewrite (IHl _ _ S2), andb_true_r.
      destruct (not_under P (snoc p (PIdx i))) eqn:E0; [apply Hx; assumption|reflexivity].
  - rewrite guard_tuple. unfold g_seq. rewrite stable_tuple in S.
    destruct (negb (zip c) && forallb is_atom xs && forallb is_atom ys) eqn:D.
    + destruct Hmode as [Z|I]; [rewrite Z in D; discriminate|]. unfold idx_uniform. apply orb_true_iff. left.
      apply forallb_forall. intros i _. rewrite not_under_snoc, H, (I p i H). reflexivity.
    + clear D. revert S. generalize 0 as i. revert ys.
      induction IH as [|x xs Hx _ IHl]; intros ys i S; [reflexivity|]. destruct ys as [|y ys]; [reflexivity|].
      cbn [st_list] in S. apply andb_true_iff in S as [S1 S2].
      cbn [g_list]. rewrite (IHl _ _ S2), andb_true_r.
      destruct (not_under P (snoc p (PIdx i))) eqn:E0; [apply Hx; assumption|reflexivity].
  - rewrite guard_dict. unfold g_dict. rewrite !keys_x_no_kf. rewrite stable_dict in S.
    apply andb_true_iff in S as [S1 S2]. rewrite S1. cbn [andb]. clear S1.
    destruct (dict_shortcut no_skip c (keys_of c kvs) (keys_of c kvs2) p); [reflexivity|]. cbn [orb] in *.
    revert S2. induction IH as [|[k v1] l Hx _ IHl]; intros S2; [reflexivity|].
    cbn [st_common] in S2. apply andb_true_iff in S2 as [S2 S3]. cbn [g_common]. rewrite (IHl S3), andb_true_r.
    destruct (keep_key c k); [|reflexivity]. destruct (find _ _) as [k'|]; [|reflexivity].
    destruct (assoc _ _) as [v2|]; [|reflexivity]. destruct (not_under P (snoc p (PKey k'))) eqn:E0; [|reflexivity].
    apply Hx; assumption.
Qed.

Lemma stable_xguard t1 t2 : stable E c t1 t2 [] = true -> xguard P E c t1 t2 = true.
Proof.
  intros S. unfold xguard. destruct (P []) eqn:Root; [reflexivity|]. cbn [orb].
  apply stable_guard; [rewrite not_under_nil, Root; reflexivity|exact S].
Qed.
End StableGuard.

(* ------------------------------------------------------------------ *)
(* inclusion                                                           *)
(* ------------------------------------------------------------------ *)
Definition iguard (Q : list path) (c : cfg) (t1 t2 : value) : bool :=
  guard c (skip_this_key (map render Q)) (excl_this []) no_skip (related Q) t1 t2 [].

Theorem include_filter_guard hatom udiff ops c Q t1 t2 :
  Q <> [] -> Forall (fun q => forallb qkey q = true) Q ->
  Forall (fun q => forallb str_key q = true) Q \/ Forall (fun q => forallb nodigit_key q = true) Q ->
  wf t2 = true -> keys_all ok_atom t1 = true -> keys_all ok_atom t2 = true ->
  iguard Q c t1 t2 = true ->
  fst (run_filtered hatom udiff ops no_skip [] (map render Q) c t1 t2) =
  filter (fun e => related Q (ep1 e)) (fst (run_diff hatom udiff ops no_skip no_skip c t1 t2)).
Proof.
  intros NQ HQ HD W O1 O2 S. unfold run_filtered. rewrite add_root_render. change (add_root_to_paths []) with (@nil pystr).
  rewrite <- run_diffx_no_kf.
  apply (run_general_g hatom udiff ops c (skip_this no_skip [] (map render Q)) (skip_this_key (map render Q))
           (excl_this []) no_skip (related Q) (forallb ok_key) ok_atom); try assumption; try reflexivity.
  - intros p a Hp Ha. unfold snoc. rewrite forallb_app, Hp. cbn. rewrite Ha. reflexivity.
  - intros p i Hp. unfold snoc. rewrite forallb_app, Hp. reflexivity.
  - intros p _ H. apply inc_H1; assumption.
  - intros p k Hk. eapply related_up; eassumption.
  - intros p a b Hp Ha Hb H E Hr. eapply inc_Hkey; eassumption.
  - intros p a Hp Ha H E. eapply inc_Hdropk; eassumption.
  - intros p i Hp H E. eapply inc_Hdropi; eassumption.
  - apply related_root. exact NQ.
Qed.

(* ------------------------------------------------------------------ *)
(* the guard is necessary (positional mode / idx_closed predicates)    *)
(* ------------------------------------------------------------------ *)
Lemma ext_snoc_inj p a b q : ext (snoc p a) q -> ext (snoc p b) q -> a = b.
Proof.
  intros [l1 E1] [l2 E2]. rewrite snoc_app in E1, E2. rewrite E1 in E2. apply app_inv_head in E2. congruence.
Qed.
Lemma ext_snoc_strict p a : ~ ext (snoc p a) p.
Proof.
  intros [l E]. rewrite snoc_app in E. apply (f_equal (@length pkey)) in E. rewrite app_length in E. cbn in E. lia.
Qed.
Lemma snoc_ext_eq p a b : ext (snoc p a) (snoc p b) -> a = b.
Proof. intros H. eapply ext_snoc_inj; [exact H|apply ext_refl]. Qed.

Lemma mutual_keeps_value es e : In e es -> ekind e = KValue -> In e (mutual es).
Proof.
  intros H K. rewrite mutual_eq. apply in_flat_map. exists e. split; [exact H|].
  unfold mutual_step. rewrite K. left. reflexivity.
Qed.

Lemma nodup_head_fresh k (l : list (atom * value)) ka v :
  nodup_atoms (k :: map fst l) = true -> In (ka, v) l -> py_eq k ka = false.
Proof.
  cbn. intros N H. apply andb_true_iff in N as [N _]. apply negb_true_iff in N.
  destruct (py_eq k ka) eqn:E; [|reflexivity].
  assert (mem_atom k (map fst l) = true); [|congruence].
  apply mem_atom_In. exists ka. split; [|exact E]. apply (in_map fst) in H. exact H.
Qed.

Lemma same_target k ka k' K2 :
  find (py_eq k) K2 = Some k' -> find (py_eq ka) K2 = Some k' -> py_eq k ka = true.
Proof.
  intros A B. apply find_in in A as [_ A]. apply find_in in B as [_ B].
  eapply py_eq_trans; [exact A|]. rewrite py_eq_sym. exact B.
Qed.

Lemma added_from_low sk ys : forall j p1 p2 e, In e (added_from sk ys j p1 p2) -> exists m, j <= m /\ ep1 e = snoc p1 (PIdx m).
Proof.
  induction ys as [|y ys IH]; cbn [added_from]; intros j p1 p2 e H; [destruct H|].
  apply in_app_or in H as [H|H].
  - apply report_in in H. exists j. split; [lia|exact H].
  - destruct (IH _ _ _ _ H) as (m & L & E0). exists m. split; [lia|exact E0].
Qed.
Lemma removed_from_low sk xs : forall j p1 p2 e, In e (removed_from sk xs j p1 p2) -> exists m, j <= m /\ ep1 e = snoc p1 (PIdx m).
Proof.
  induction xs as [|x xs IH]; cbn [removed_from]; intros j p1 p2 e H; [destruct H|].
  apply in_app_or in H as [H|H].
  - apply report_in in H. exists j. split; [lia|exact H].
  - destruct (IH _ _ _ _ H) as (m & L & E0). exists m. split; [lia|exact E0].
Qed.

Lemma gox_list_low sk (d : value -> value -> path -> path -> RT) p1 p2 :
  (forall x y q1 q2 e, In e (fst (d x y q1 q2)) -> ext q1 (ep1 e)) ->
  forall xs ys i e, In e (fst (gox_list sk d p1 p2 xs ys i)) -> exists m, i <= m /\ ext (snoc p1 (PIdx m)) (ep1 e).
Proof.
  intros D. induction xs as [|x xs IH]; intros ys i e H.
  - cbn in H. apply added_from_low in H as (m & L & E0). exists m. split; [exact L|rewrite E0; apply ext_refl].
  - destruct ys as [|y ys].
    + cbn [gox_list fst] in H. apply (removed_from_low sk (x :: xs)) in H as (m & L & E0).
      exists m. split; [exact L|rewrite E0; apply ext_refl].
    + cbn [gox_list] in H. unfold app2 in H. cbn [fst] in H. apply in_app_or in H as [H|H].
      * exists i. split; [lia|eapply D; exact H].
      * destruct (IH _ _ _ H) as (m & L & X). exists m. split; [lia|exact X].
Qed.

Lemma gox_common_inv kf c (d : value -> value -> path -> path -> RT) kvs2 k2 p1 p2 l e :
  In e (fst (gox_common kf c d kvs2 k2 p1 p2 l)) ->
  exists k v1 k' v2, In (k, v1) l /\ keep_key c k = true /\ find (py_eq k) k2 = Some k' /\ assoc k' kvs2 = Some v2 /\
    In e (fst (d v1 v2 (snoc p1 (PKey k')) (snoc p2 (PKey k')))).
Proof.
  induction l as [|[k v1] l IH]; cbn [gox_common]; intros H; [destruct H|].
  assert (REST : In e (fst (gox_common kf c d kvs2 k2 p1 p2 l)) ->
    exists k0 v0 k' v2, In (k0, v0) ((k, v1) :: l) /\ keep_key c k0 = true /\ find (py_eq k0) k2 = Some k' /\
      assoc k' kvs2 = Some v2 /\ In e (fst (d v0 v2 (snoc p1 (PKey k')) (snoc p2 (PKey k'))))).
  { intros H0. destruct (IH H0) as (k0 & v0 & k' & v2 & A & B). exists k0, v0, k', v2. split; [right; exact A|exact B]. }
  destruct (keep_key c k) eqn:KK; cbn [andb] in H; [|apply REST; exact H].
  destruct (negb (kf p1 k)); [|apply REST; exact H].
  destruct (find (py_eq k) k2) as [k'|] eqn:Fd; [|apply REST; exact H].
  destruct (assoc k' kvs2) as [v2|] eqn:A; [|apply REST; exact H].
  unfold app2 in H. cbn [fst] in H. apply in_app_or in H as [H|H]; [|apply REST; exact H].
  exists k, v1, k', v2. repeat split; try assumption. left; reflexivity.
Qed.

Section Necessary.
Variable hatom : atom -> pystr.
Variable udiff : pystr -> pystr -> pystr.
Variable ops : path -> list value -> list value -> list opcode.
Variable c : cfg.
Variable P E : path -> bool.
Hypothesis Hmode : zip c = true \/ idx_closed P.
Notation R := (not_under P).
Notation dF := (diffx hatom udiff ops P E no_kf c).
Notation d0 := (diffx hatom udiff ops no_skip no_skip no_kf c).
Notation G := (guard c no_kf E no_skip R).

(* an entry of the unrestricted tree that the filter keeps and at whose path the filtered tree reports nothing *)
Definition lost (es0 esF : list entry) (e : entry) : Prop :=
  In e es0 /\ R (ep1 e) = true /\ ekind e = KValue /\ forall e', In e' esF -> ep1 e' <> ep1 e.

Definition Nec (t1 : value) : Prop := forall t2 p1 p2,
  wf t1 = true -> wf t2 = true -> R p1 = true -> G t1 t2 p1 = false ->
  exists e, lost (fst (d0 t1 t2 p1 p2)) (fst (dF t1 t2 p1 p2)) e.

Lemma list_nec p1 p2 xs : Forall Nec xs ->
  forall ys i, forallb wf xs = true -> forallb wf ys = true -> g_list R G p1 xs ys i = false ->
  exists e m, i <= m /\ ext (snoc p1 (PIdx m)) (ep1 e) /\
    lost (fst (gox_list no_skip d0 p1 p2 xs ys i)) (fst (gox_list P dF p1 p2 xs ys i)) e.
Proof.
  induction 1 as [|x xs Hx _ IH]; intros ys i W1 W2 Hs; [discriminate Hs|].
  destruct ys as [|y ys]; [discriminate Hs|].
  cbn [forallb] in W1, W2. apply andb_true_iff in W1 as [Wx W1]. apply andb_true_iff in W2 as [Wy W2].
  cbn [g_list] in Hs. cbn [gox_list]. unfold app2. cbn [fst].
  destruct (R (snoc p1 (PIdx i))) eqn:Ri.
  - destruct (G x y (snoc p1 (PIdx i))) eqn:Gx.
    + cbn [andb] in Hs. destruct (IH ys (S i) W1 W2 Hs) as (e & m & L & X & I0 & Re & K & N).
      exists e, m. split; [lia|]. split; [exact X|]. split; [apply in_or_app; right; exact I0|].
      split; [exact Re|]. split; [exact K|]. intros e' H'. apply in_app_or in H' as [H'|H']; [|apply N; exact H'].
      intros Q. apply diffx_ext in H'. rewrite Q in H'. pose proof (ext_snoc_inj _ _ _ _ H' X) as J. inversion J. lia.
    + destruct (Hx y (snoc p1 (PIdx i)) (snoc p2 (PIdx i)) Wx Wy Ri Gx) as (e & I0 & Re & K & N).
      exists e, i. split; [lia|]. split; [eapply diffx_ext; exact I0|]. split; [apply in_or_app; left; exact I0|].
      split; [exact Re|]. split; [exact K|]. intros e' H'. apply in_app_or in H' as [H'|H']; [apply N; exact H'|].
      intros Q. apply (gox_list_low P dF p1 p2 (diffx_ext hatom udiff ops P E no_kf c)) in H' as (m & L & X).
      rewrite Q in X. apply diffx_ext in I0. pose proof (ext_snoc_inj _ _ _ _ X I0) as J. inversion J. lia.
  - cbn [andb] in Hs. destruct (IH ys (S i) W1 W2 Hs) as (e & m & L & X & I0 & Re & K & N).
    exists e, m. split; [lia|]. split; [exact X|]. split; [apply in_or_app; right; exact I0|].
    split; [exact Re|]. split; [exact K|]. intros e' H'. apply in_app_or in H' as [H'|H']; [|apply N; exact H'].
    intros Q. apply diffx_ext in H'. rewrite Q in H'. pose proof (ext_snoc_inj _ _ _ _ H' X) as J. inversion J. lia.
Qed.

Lemma assoc_wf k kvs2 v2 : forallb (fun kv => wf (snd kv)) kvs2 = true -> assoc k kvs2 = Some v2 -> wf v2 = true.
Proof.
  intros W A. apply assoc_In in A as (k' & Hin & _). rewrite forallb_forall in W. apply (W _ Hin).
Qed.

Lemma common_nec p1 p2 kvs2 l : forallb (fun kv => wf (snd kv)) kvs2 = true ->
  Forall (fun kv => Nec (snd kv)) l ->
  nodup_atoms (map fst l) = true -> forallb (fun kv => wf (snd kv)) l = true ->
  g_common c R G kvs2 p1 l = false ->
  exists e k v1 k', In (k, v1) l /\ keep_key c k = true /\ find (py_eq k) (keys_of c kvs2) = Some k' /\
    ext (snoc p1 (PKey k')) (ep1 e) /\
    lost (fst (gox_common no_kf c d0 kvs2 (keys_of c kvs2) p1 p2 l)) (fst (gox_common no_kf c dF kvs2 (keys_of c kvs2) p1 p2 l)) e.
Proof.
  intros W2. induction 1 as [|[k v1] l Hx _ IH]; intros N W1 Hs; [discriminate Hs|].
  cbn [map fst] in N. pose proof N as N0. cbn [nodup_atoms] in N. apply andb_true_iff in N as [_ Nl].
  cbn [forallb snd] in W1. apply andb_true_iff in W1 as [Wv W1]. cbn [snd] in Hx.
  cbn [g_common] in Hs. cbn [gox_common]. unfold no_kf at 1 3. cbn [negb]. rewrite !andb_true_r.
  (* the witness comes from the rest of the list *)
  assert (REST : g_common c R G kvs2 p1 l = false ->
    forall hd0 hdF : list entry,
    (forall e', In e' hdF -> exists k', find (py_eq k) (keys_of c kvs2) = Some k' /\ ext (snoc p1 (PKey k')) (ep1 e')) ->
    exists e k0 v0 k', In (k0, v0) ((k, v1) :: l) /\ keep_key c k0 = true /\ find (py_eq k0) (keys_of c kvs2) = Some k' /\
      ext (snoc p1 (PKey k')) (ep1 e) /\
      lost (hd0 ++ fst (gox_common no_kf c d0 kvs2 (keys_of c kvs2) p1 p2 l))
           (hdF ++ fst (gox_common no_kf c dF kvs2 (keys_of c kvs2) p1 p2 l)) e).
  { intros Hs' hd0 hdF HF. destruct (IH Nl W1 Hs') as (e & k0 & v0 & k' & I1 & KK & Fd & X & I0 & Re & K & Nn).
    exists e, k0, v0, k'. split; [right; exact I1|]. split; [exact KK|]. split; [exact Fd|]. split; [exact X|].
    split; [apply in_or_app; right; exact I0|]. split; [exact Re|]. split; [exact K|].
    intros e' H'. apply in_app_or in H' as [H'|H']; [|apply Nn; exact H'].
    intros Q. destruct (HF e' H') as (k'' & Fd' & X'). rewrite Q in X'.
    pose proof (ext_snoc_inj _ _ _ _ X' X) as J. inversion J. subst k''.
    pose proof (same_target _ _ _ _ Fd' Fd) as PE. rewrite (nodup_head_fresh k l k0 v0 N0 I1) in PE. discriminate PE. }
  destruct (keep_key c k) eqn:KK.
  2:{ cbn [andb] in Hs. destruct (REST Hs [] []) as (e & k0 & v0 & k' & A); [intros e' []|]. exists e, k0, v0, k'. exact A. }
  destruct (find (py_eq k) (keys_of c kvs2)) as [k'|] eqn:Fd.
  2:{ cbn [andb] in Hs. destruct (REST Hs [] []) as (e & k0 & v0 & k'' & A); [intros e' []|]. exists e, k0, v0, k''. exact A. }
  destruct (assoc k' kvs2) as [v2|] eqn:A.
  2:{ cbn [andb] in Hs. destruct (REST Hs [] []) as (e & k0 & v0 & k'' & B); [intros e' []|]. exists e, k0, v0, k''. exact B. }
  unfold app2. cbn [fst].
  assert (HF : forall e', In e' (fst (dF v1 v2 (snoc p1 (PKey k')) (snoc p2 (PKey k')))) ->
             exists k'', Some k' = Some k'' /\ ext (snoc p1 (PKey k'')) (ep1 e')).
  { intros e' H'. exists k'. split; [reflexivity|eapply diffx_ext; exact H']. }
  destruct (R (snoc p1 (PKey k'))) eqn:Rk.
  - destruct (G v1 v2 (snoc p1 (PKey k'))) eqn:Gv.
    + cbn [andb] in Hs. apply (REST Hs); exact HF.
    + destruct (Hx v2 (snoc p1 (PKey k')) (snoc p2 (PKey k')) Wv (assoc_wf _ _ _ W2 A) Rk Gv) as (e & I0 & Re & K & Nn).
      exists e, k, v1, k'. split; [left; reflexivity|]. split; [exact KK|]. split; [exact Fd|].
      split; [eapply diffx_ext; exact I0|]. split; [apply in_or_app; left; exact I0|]. split; [exact Re|]. split; [exact K|].
      intros e' H'. apply in_app_or in H' as [H'|H']; [apply Nn; exact H'|].
      intros Q. apply gox_common_inv in H' as (ka & va & k'a & v2a & Ia & _ & Fa & _ & H').
      apply diffx_ext in H'. rewrite Q in H'. apply diffx_ext in I0.
      pose proof (ext_snoc_inj _ _ _ _ H' I0) as J. inversion J. subst k'a.
      pose proof (same_target _ _ _ _ Fd Fa) as PE. rewrite (nodup_head_fresh k l ka va N0 Ia) in PE. discriminate PE.
  - cbn [andb] in Hs. apply (REST Hs); exact HF.
Qed.

Lemma keys_of_in kvs k v : In (k, v) kvs -> keep_key c k = true -> In k (keys_of c kvs).
Proof. intros H K. unfold keys_of. apply filter_In. split; [apply (in_map fst) in H; exact H|exact K]. Qed.

Lemma added_x_in sk k1 k2 kvs2 p1 p2 e : In e (added_x sk k1 k2 kvs2 p1 p2) ->
  exists a, In a k2 /\ mem_atom a k1 = false /\ ep1 e = snoc p1 (PKey a).
Proof.
  unfold added_x. intros H. apply in_flat_map in H as (a & Ha & H). destruct (mem_atom a k1) eqn:M; [destruct H|].
  apply report_in in H. exists a. auto.
Qed.
Lemma removed_x_in sk k1 k2 kvs1 p1 p2 e : In e (removed_x sk k1 k2 kvs1 p1 p2) ->
  exists a, In a k1 /\ mem_atom a k2 = false /\ ep1 e = snoc p1 (PKey a).
Proof.
  unfold removed_x. intros H. apply in_flat_map in H as (a & Ha & H). destruct (mem_atom a k2) eqn:M; [destruct H|].
  apply report_in in H. exists a. auto.
Qed.

Lemma dict_nec p1 p2 kvs1 kvs2 : R p1 = true ->
  Forall (fun kv => Nec (snd kv)) kvs1 -> wf (VDict kvs1) = true -> wf (VDict kvs2) = true ->
  g_dict c no_kf E no_skip R G p1 kvs1 kvs2 = false ->
  exists e, lost (fst (dictx_body hatom udiff ops no_skip no_skip no_kf c kvs1 kvs2 p1 p2))
                 (fst (dictx_body hatom udiff ops P E no_kf c kvs1 kvs2 p1 p2)) e.
Proof.
  intros Rp F W1 W2 Hs. cbn [wf] in W1, W2. apply andb_true_iff in W1 as [N1 W1]. apply andb_true_iff in W2 as [N2 W2].
  unfold g_dict in Hs. unfold dictx_body. rewrite !keys_x_no_kf in *.
  destruct (dict_shortcut no_skip c (keys_of c kvs1) (keys_of c kvs2) p1) eqn:SC0;
  destruct (dict_shortcut E c (keys_of c kvs1) (keys_of c kvs2) p1) eqn:SCE;
    try (cbn in Hs; discriminate Hs).
  - (* the flip: the unrestricted run reports the whole dictionary, the filtered one goes deeper *)
    exists (mkEntry KValue p1 p2 (Some (VDict kvs1)) (Some (VDict kvs2)) None).
    split; [cbn; left; reflexivity|]. split; [exact Rp|]. split; [reflexivity|].
    cbn [fst ep1]. intros e' H' Q. apply in_app_or in H' as [H'|H']; [|apply in_app_or in H' as [H'|H']].
    + apply added_x_in in H' as (a & _ & _ & X). rewrite X in Q. apply (ext_snoc_strict p1 (PKey a)). rewrite Q. apply ext_refl.
    + apply removed_x_in in H' as (a & _ & _ & X). rewrite X in Q. apply (ext_snoc_strict p1 (PKey a)). rewrite Q. apply ext_refl.
    + apply gox_common_inv in H' as (k & v1 & k' & v2 & _ & _ & _ & _ & H'). apply diffx_ext in H'. rewrite Q in H'.
      exact (ext_snoc_strict _ _ H').
  - apply (shortcut_monotone E) in SCE. congruence.
  - cbn [Bool.eqb andb orb] in Hs.
    destruct (common_nec p1 p2 kvs2 kvs1 W2 F N1 W1 Hs) as (e & k & v1 & k' & I1 & KK & Fd & X & I0 & Re & K & Nn).
    exists e. cbn [fst]. split; [apply in_or_app; right; apply in_or_app; right; exact I0|].
    split; [exact Re|]. split; [exact K|]. intros e' H' Q.
    destruct (find_in _ _ _ Fd) as [Hin Pk].
    apply in_app_or in H' as [H'|H']; [|apply in_app_or in H' as [H'|H']].
    + apply added_x_in in H' as (a & _ & M & Y). rewrite Q in Y. rewrite Y in X. apply snoc_ext_eq in X. inversion X. subst a.
      assert (mem_atom k' (keys_of c kvs1) = true); [|congruence].
      apply mem_atom_In. exists k. split; [apply (keys_of_in kvs1 k v1 I1 KK)|rewrite py_eq_sym; exact Pk].
    + apply removed_x_in in H' as (a & _ & M & Y). rewrite Q in Y. rewrite Y in X. apply snoc_ext_eq in X. inversion X. subst a.
      assert (mem_atom k' (keys_of c kvs2) = true); [|congruence].
      apply mem_atom_In. exists k'. split; [exact Hin|apply py_eq_refl].
    + exact (Nn e' H' Q).
Qed.

Theorem nec_all t1 : Nec t1.
Proof.
  induction t1 as [a|xs IH|xs IH|kvs IH|xs|xs] using value_ind'; intros t2 p1 p2 W1 W2 Rp Hs;
    destruct t2 as [b|ys|ys|kvs2|ys|ys]; try discriminate Hs;
    pose proof (not_under_self P p1 Rp) as S0.
  - rewrite guard_list in Hs. unfold g_seq in Hs. rewrite !diffx_list by (assumption || reflexivity). unfold seqx_body.
    destruct (negb (zip c) && forallb is_atom xs && forallb is_atom ys) eqn:D.
    + exfalso. destruct Hmode as [Z|I]; [rewrite Z in D; discriminate|].
      assert (idx_uniform R p1 (Nat.max (length xs) (length ys)) = true); [|congruence].
      unfold idx_uniform. apply orb_true_iff. left. apply forallb_forall. intros i _.
      rewrite not_under_snoc, Rp, (I p1 i Rp). reflexivity.
    + cbn [wf] in W1, W2. destruct (list_nec p1 p2 xs IH ys 0 W1 W2 Hs) as (e & m & _ & _ & L). exists e. exact L.
  - rewrite guard_tuple in Hs. unfold g_seq in Hs. rewrite !diffx_tuple by (assumption || reflexivity). unfold seqx_body.
    destruct (negb (zip c) && forallb is_atom xs && forallb is_atom ys) eqn:D.
    + exfalso. destruct Hmode as [Z|I]; [rewrite Z in D; discriminate|].
      assert (idx_uniform R p1 (Nat.max (length xs) (length ys)) = true); [|congruence].
      unfold idx_uniform. apply orb_true_iff. left. apply forallb_forall. intros i _.
      rewrite not_under_snoc, Rp, (I p1 i Rp). reflexivity.
    + cbn [wf] in W1, W2. destruct (list_nec p1 p2 xs IH ys 0 W1 W2 Hs) as (e & m & _ & _ & L). exists e. exact L.
  - rewrite guard_dict in Hs. rewrite !diffx_dict by (assumption || reflexivity). apply dict_nec; assumption.
Qed.

Theorem exclude_guard_necessary t1 t2 : wf t1 = true -> wf t2 = true -> xguard P E c t1 t2 = false ->
  fst (run_diff hatom udiff ops P E c t1 t2) <>
  filter (fun e => R (ep1 e)) (fst (run_diff hatom udiff ops no_skip no_skip c t1 t2)).
Proof.
  intros W1 W2 Hs. unfold xguard in Hs. apply orb_false_iff in Hs as [Root Hs].
  assert (Rp : R [] = true) by (rewrite not_under_nil, Root; reflexivity).
  destruct (nec_all t1 t2 [] [] W1 W2 Rp Hs) as (e & I0 & Re & K & Nn).
  rewrite <- !run_diffx_no_kf. unfold run_diffx.
  destruct (dF t1 t2 [] []) as [esF recF]. destruct (d0 t1 t2 [] []) as [es0 rec0]. cbn [fst] in *.
  intros Q.
  assert (In e (filter (fun e => R (ep1 e)) (mutual es0))).
  { apply filter_In. split; [apply mutual_keeps_value; assumption|exact Re]. }
  rewrite <- Q in H. apply mutual_In_paths in H as (e0 & H0 & E1 & _). exact (Nn e0 H0 (eq_sym E1)).
Qed.
End Necessary.

(* the exact characterisation *)
Theorem exclude_guard_exact hatom udiff ops c P E t1 t2 :
  zip c = true \/ idx_closed P -> wf t1 = true -> wf t2 = true ->
  (fst (run_diff hatom udiff ops P E c t1 t2) =
   filter (fun e => not_under P (ep1 e)) (fst (run_diff hatom udiff ops no_skip no_skip c t1 t2))
   <-> xguard P E c t1 t2 = true).
Proof.
  intros M W1 W2. split.
  - intros Q. destruct (xguard P E c t1 t2) eqn:X; [reflexivity|]. exfalso.
    exact (exclude_guard_necessary hatom udiff ops c P E M t1 t2 W1 W2 X Q).
  - apply exclude_filter_guard. exact W2.
Qed.

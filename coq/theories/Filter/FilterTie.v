(** C13 - the statement-level vocabulary of the SOURCE TIE (round 5).

    [DDGen.FilterGen] is regenerated on every run by harness/translate/skipthis.py from the Python text of
    DeepDiff._skip_this / DeepDiff._skip_this_key (deepdiff/diff.py), DeepHash._skip_this (deepdiff/deephash.py)
    and helper.add_root_to_paths (deepdiff/helper.py); coq/srctie/FilterGenEquiv.v proves the generated
    definitions equal to the hand-written ones of FilterModel.v / FilterModelV.v.  This file holds what one
    Python expression form is translated to (the translator's trusted vocabulary).  Definitions only.

    Representation (as in the hand model):
      self.exclude_paths / self.include_paths   list pystr, [] = None (after __init__ the attribute is None or
                                                a NON-EMPTY set: falsiness and `is None` coincide)
      self.exclude_regex_paths                  list (pystr -> bool): per compiled pattern the truth table of
                                                `pattern.search(s)` being a match
      self.exclude_types_tuple                  list ty, [] = None
      the four callbacks                        option (value -> bool), None = not given; the path argument a
                                                callback receives is dropped; a callback answers False on notpresent
      level                                     the key sequence of the level and its two objects
                                                (None = notpresent); level.path() = [render] (C09's model of the
                                                path printer); the chain level.up, level.up.up, ... = the strict
                                                prefixes of the key sequence, nearest first. *)
From Coq Require Import List ZArith NArith Bool Arith.
Import ListNotations.
From DD Require Import Base.PyStr Base.Value Diff.Tree Path.PathModel Filter.FilterModel Filter.FilterModelV.

Record level := mkLevel { lv_keys : path; lv_t1 : option value; lv_t2 : option value }.
Definition lv_path (l : level) : pystr := render (lv_keys l).                      (* level.path() *)
Definition lv_ups (l : level) : list path := rev (strict_prefixes (lv_keys l)).    (* level.up, level.up.up, ... *)

Definition py_truthy {A} (l : list A) : bool := match l with [] => false | _ :: _ => true end.   (* bool(x) *)
Definition py_is_none {A} (l : list A) : bool := match l with [] => true | _ :: _ => false end.  (* x is None *)
Definition py_given {A} (o : option A) : bool := match o with Some _ => true | None => false end. (* bool(callback) *)
(* callback(obj, path) *)
Definition py_call_cb (f : option (value -> bool)) (o : option value) : bool :=
  match f with Some g => cbv g o | None => false end.

(* the hand model's oracles seen from the representation above *)
Definition rx_of (RXS : list (pystr -> bool)) (p : path) : bool := existsb (fun r : pystr -> bool => r (render p)) RXS.
Definition rxh_of (RXS : list (pystr -> bool)) (p : path) (i : nat) : bool :=
  existsb (fun r : pystr -> bool => r (render p ++ [cLB] ++ p_of_Z (Z.of_nat i) ++ [cRB])) RXS.
Definition cb_of (f : option (value -> bool)) : value -> bool := match f with Some g => g | None => no_cb end.

(* the argument of exclude_paths= / include_paths= as the caller passes it: one bare string, or an iterable of strings *)
Inductive paths_arg := PBare (s : pystr) | PItems (l : list pystr).
Definition py_arg_truthy (a : paths_arg) : bool := match a with PBare s => py_truthy s | PItems l => py_truthy l end.
Definition py_is_str (a : paths_arg) : bool := match a with PBare _ => true | PItems _ => false end.   (* isinstance(items, strings) *)
Definition py_singleton (a : paths_arg) : list pystr := match a with PBare s => [s] | PItems l => l end.   (* {items}; on an iterable: TypeError, not modelled *)
Definition py_items (a : paths_arg) : list pystr := match a with PBare s => map (fun c => [c]) s | PItems l => l end.   (* set(items) *)
(* what the hand model takes as ex_arg / inc_arg (the harness passes every accepted shape) *)
Definition norm_paths_arg (a : paths_arg) : list pystr :=
  match a with PBare [] => [] | PBare s => [s] | PItems l => l end.

(** C13 - the general filter theorem with an INPUT-LEVEL guard instead of the global
    hypotheses "positional mode or index-uniform kept set" and "threshold 0 / no key filter".

    [guard c kf excl excl' R t1 t2 p] walks the pair exactly as the diff does and asks, at the
    levels the FILTERED run reaches (kept by R, not below a whole-dict report):
      - at two dictionaries: the whole-dict shortcut (threshold_to_diff_deeper) is decided alike on
        the filtered key sets with the reduced union and on the full key sets;
      - at two all-atom sequences in the default alignment mode (the difflib pass): the index
        children 0 .. max(len)-1 are kept all together or dropped all together;
    nothing is asked at sequences holding a container (compared pairwise in both modes), below a
    dropped position, or below a dictionary reported as a whole.
    Under the guard the coherent-filter equation holds in EVERY mode at EVERY threshold
    ([run_general_g]); the former global hypotheses imply the guard ([guard_of_global]). *)
From Coq Require Import List ZArith NArith Bool Arith Lia.
Import ListNotations.
From DD Require Import Base.PyStr Base.Value Base.ValueFacts Diff.Tree Diff.DiffModel Diff.DiffFacts
  Path.PathModel Filter.FilterModel Filter.FilterFacts Filter.FilterProofs.

(* ------------------------------------------------------------------ *)
(* leaf functions: only the indexes below the lengths matter           *)
(* ------------------------------------------------------------------ *)
Lemma slice_bound {A} (l : list A) a b k : k < length (slice l a b) -> a + k < length l.
Proof.
  unfold slice. intros H. rewrite firstn_length, skipn_length in H. lia.
Qed.

Section Bounded.
Variable udiff : pystr -> pystr -> pystr.
Variable ops : path -> list value -> list value -> list opcode.
Variable sk : path -> bool.
Variables p1 p2 : path.
Variable n : nat.

Definition inb (l : list value) (j : nat) : Prop := forall k, k < length l -> j + k < n.

Lemma inb_tail x l j : inb (x :: l) j -> inb l (S j).
Proof. intros B k Hk. specialize (B (S k)). cbn in B. lia. Qed.
Lemma inb_head x l j : inb (x :: l) j -> j < n.
Proof. intros B. specialize (B 0). cbn in B. lia. Qed.
Lemma inb_slice l a b : length l <= n -> inb (slice l a b) a.
Proof. intros L k Hk. apply slice_bound in Hk. lia. Qed.
Lemma inb_all l : length l <= n -> inb l 0.
Proof. intros L k Hk. lia. Qed.

(* where the leaf functions report *)
Lemma added_from_in_b ys : forall j e, inb ys j ->
  In e (added_from sk ys j p1 p2) -> exists m, m < n /\ ep1 e = snoc p1 (PIdx m).
Proof.
  induction ys as [|y ys IH]; cbn [added_from]; intros j e B H; [destruct H|].
  apply in_app_or in H as [H|H].
  - apply report_in in H. exists j. split; [eapply inb_head; exact B|exact H].
  - eapply IH; [eapply inb_tail; exact B|exact H].
Qed.
Lemma removed_from_in_b xs : forall j e, inb xs j ->
  In e (removed_from sk xs j p1 p2) -> exists m, m < n /\ ep1 e = snoc p1 (PIdx m).
Proof.
  induction xs as [|x xs IH]; cbn [removed_from]; intros j e B H; [destruct H|].
  apply in_app_or in H as [H|H].
  - apply report_in in H. exists j. split; [eapply inb_head; exact B|exact H].
  - eapply IH; [eapply inb_tail; exact B|exact H].
Qed.
Lemma pairs_leaf_in_b xs : forall ys i j e, inb xs i -> inb ys j ->
  In e (pairs_leaf udiff sk xs ys i j p1 p2) -> exists m, m < n /\ ep1 e = snoc p1 (PIdx m).
Proof.
  induction xs as [|x xs IH]; intros ys i j e Bx By H.
  - cbn in H. eapply added_from_in_b; eassumption.
  - destruct ys as [|y ys].
    + eapply (removed_from_in_b (x :: xs)); eassumption.
    + cbn [pairs_leaf] in H. apply in_app_or in H as [H|H].
      * exists i. split; [eapply inb_head; exact Bx|].
        destruct (negb (i =? j) && py_eq_leaf x y); [apply report_in in H|apply diff_leaf_in in H]; exact H.
      * eapply IH; [eapply inb_tail; exact Bx|eapply inb_tail; exact By|exact H].
Qed.
Lemma by_opcodes_in_b os xs ys e : length xs <= n -> length ys <= n ->
  In e (by_opcodes udiff sk os xs ys p1 p2) -> exists m, m < n /\ ep1 e = snoc p1 (PIdx m).
Proof.
  intros Lx Ly H. unfold by_opcodes in H. apply in_flat_map in H as (o & _ & H).
  destruct (otag o); [destruct H| | |].
  - eapply pairs_leaf_in_b; [apply inb_slice; exact Lx|apply inb_slice; exact Ly|exact H].
  - eapply removed_from_in_b; [apply inb_slice; exact Lx|exact H].
  - eapply added_from_in_b; [apply inb_slice; exact Ly|exact H].
Qed.
Lemma default_leaf_list_in_b xs ys e : length xs <= n -> length ys <= n ->
  In e (fst (default_leaf_list udiff ops sk xs ys p1 p2)) -> exists m, m < n /\ ep1 e = snoc p1 (PIdx m).
Proof.
  intros Lx Ly. unfold default_leaf_list.
  destruct (1 <? length (by_opcodes udiff sk (ops p1 xs ys) xs ys p1 p2)).
  - destruct (length (pairs_leaf udiff sk xs ys 0 0 p1 p2) <=?
              length (by_opcodes udiff sk (ops p1 xs ys) xs ys p1 p2)); cbn [fst].
    + apply pairs_leaf_in_b; apply inb_all; assumption.
    + apply by_opcodes_in_b; assumption.
  - cbn [fst]. apply by_opcodes_in_b; assumption.
Qed.

(* no index child below n is skipped: the skip test is invisible *)
Section Free.
Hypothesis Hfree : forall i, i < n -> sk (snoc p1 (PIdx i)) = false.

Lemma added_from_free_b ys : forall j, inb ys j -> added_from sk ys j p1 p2 = added_from no_skip ys j p1 p2.
Proof.
  induction ys as [|y ys IH]; intros j B; cbn [added_from]; [reflexivity|].
  rewrite (IH _ (inb_tail _ _ _ B)). unfold report, no_skip. rewrite (Hfree _ (inb_head _ _ _ B)). reflexivity.
Qed.
Lemma removed_from_free_b xs : forall j, inb xs j -> removed_from sk xs j p1 p2 = removed_from no_skip xs j p1 p2.
Proof.
  induction xs as [|x xs IH]; intros j B; cbn [removed_from]; [reflexivity|].
  rewrite (IH _ (inb_tail _ _ _ B)). unfold report, no_skip. rewrite (Hfree _ (inb_head _ _ _ B)). reflexivity.
Qed.
Lemma pairs_leaf_free_b xs : forall ys i j, inb xs i -> inb ys j ->
  pairs_leaf udiff sk xs ys i j p1 p2 = pairs_leaf udiff no_skip xs ys i j p1 p2.
Proof.
  induction xs as [|x xs IH]; intros ys i j Bx By.
  - cbn. apply added_from_free_b; exact By.
  - destruct ys as [|y ys]; [apply (removed_from_free_b (x :: xs)); exact Bx|].
    cbn [pairs_leaf]. rewrite (IH _ _ _ (inb_tail _ _ _ Bx) (inb_tail _ _ _ By)). f_equal.
    pose proof (Hfree _ (inb_head _ _ _ Bx)) as F.
    destruct (negb (i =? j) && py_eq_leaf x y).
    + unfold report, no_skip. rewrite F. reflexivity.
    + apply diff_leaf_free. exact F.
Qed.
Lemma by_opcodes_free_b os xs ys : length xs <= n -> length ys <= n ->
  by_opcodes udiff sk os xs ys p1 p2 = by_opcodes udiff no_skip os xs ys p1 p2.
Proof.
  intros Lx Ly. unfold by_opcodes. apply flat_map_ext. intros o. destruct (otag o); [reflexivity| | |].
  - apply pairs_leaf_free_b; apply inb_slice; assumption.
  - apply removed_from_free_b; apply inb_slice; assumption.
  - apply added_from_free_b; apply inb_slice; assumption.
Qed.
Lemma default_leaf_list_free_b xs ys : length xs <= n -> length ys <= n ->
  default_leaf_list udiff ops sk xs ys p1 p2 = default_leaf_list udiff ops no_skip xs ys p1 p2.
Proof.
  intros Lx Ly. unfold default_leaf_list.
  rewrite !(by_opcodes_free_b _ _ _ Lx Ly), !(pairs_leaf_free_b _ _ _ _ (inb_all _ Lx) (inb_all _ Ly)). reflexivity.
Qed.
End Free.

(* every index child below n is skipped: nothing is reported *)
Section All.
Hypothesis Hall : forall i, i < n -> sk (snoc p1 (PIdx i)) = true.

Lemma added_from_all_b ys : forall j, inb ys j -> added_from sk ys j p1 p2 = [].
Proof.
  induction ys as [|y ys IH]; intros j B; cbn [added_from]; [reflexivity|].
  rewrite (IH _ (inb_tail _ _ _ B)). unfold report. rewrite (Hall _ (inb_head _ _ _ B)). reflexivity.
Qed.
Lemma removed_from_all_b xs : forall j, inb xs j -> removed_from sk xs j p1 p2 = [].
Proof.
  induction xs as [|x xs IH]; intros j B; cbn [removed_from]; [reflexivity|].
  rewrite (IH _ (inb_tail _ _ _ B)). unfold report. rewrite (Hall _ (inb_head _ _ _ B)). reflexivity.
Qed.
Lemma pairs_leaf_all_b xs : forall ys i j, inb xs i -> inb ys j -> pairs_leaf udiff sk xs ys i j p1 p2 = [].
Proof.
  induction xs as [|x xs IH]; intros ys i j Bx By.
  - cbn. apply added_from_all_b; exact By.
  - destruct ys as [|y ys]; [apply (removed_from_all_b (x :: xs)); exact Bx|].
    cbn [pairs_leaf]. rewrite (IH _ _ _ (inb_tail _ _ _ Bx) (inb_tail _ _ _ By)), app_nil_r.
    pose proof (Hall _ (inb_head _ _ _ Bx)) as F.
    destruct (negb (i =? j) && py_eq_leaf x y); [unfold report; rewrite F; reflexivity|].
    unfold diff_leaf. destruct x, y; try reflexivity. unfold diff_atom. rewrite F. reflexivity.
Qed.
Lemma by_opcodes_all_b os xs ys : length xs <= n -> length ys <= n -> by_opcodes udiff sk os xs ys p1 p2 = [].
Proof.
  intros Lx Ly. unfold by_opcodes. induction os as [|o os IH]; cbn [flat_map]; [reflexivity|]. rewrite IH, app_nil_r.
  destruct (otag o); [reflexivity| | |].
  - apply pairs_leaf_all_b; apply inb_slice; assumption.
  - apply removed_from_all_b; apply inb_slice; assumption.
  - apply added_from_all_b; apply inb_slice; assumption.
Qed.
Lemma default_leaf_list_all_b xs ys : length xs <= n -> length ys <= n ->
  default_leaf_list udiff ops sk xs ys p1 p2 = ([], false).
Proof. intros Lx Ly. unfold default_leaf_list. rewrite !(by_opcodes_all_b _ _ _ Lx Ly). reflexivity. Qed.
End All.
End Bounded.

(* ------------------------------------------------------------------ *)
(* the guard                                                           *)
(* ------------------------------------------------------------------ *)
Section Guard.
Variable c : cfg.
Variable kf : path -> atom -> bool.
Variable excl excl' : path -> bool.
Variable R : path -> bool.

(* the index children 0 .. n-1 are kept all together or dropped all together *)
Definition idx_uniform (p : path) (n : nat) : bool :=
  forallb (fun i => R (snoc p (PIdx i))) (seq 0 n) || forallb (fun i => negb (R (snoc p (PIdx i)))) (seq 0 n).

Definition g_common (g : value -> value -> path -> bool) (kvs2 : list (atom * value)) (p : path) :=
  fix go (l : list (atom * value)) : bool :=
    match l with
    | [] => true
    | (k, v1) :: r =>
        (if keep_key c k then
           match find (py_eq k) (keys_of c kvs2) with
           | Some k' => match assoc k' kvs2 with
                        | Some v2 => if R (snoc p (PKey k')) then g v1 v2 (snoc p (PKey k')) else true
                        | None => true
                        end
           | None => true
           end
         else true) && go r
    end.
Definition g_list (g : value -> value -> path -> bool) (p : path) :=
  fix go (xs ys : list value) (i : nat) {struct xs} : bool :=
    match xs, ys with
    | x :: xs', y :: ys' => (if R (snoc p (PIdx i)) then g x y (snoc p (PIdx i)) else true) && go xs' ys' (S i)
    | _, _ => true
    end.
Definition g_seq (g : value -> value -> path -> bool) (p : path) (xs ys : list value) : bool :=
  if negb (zip c) && forallb is_atom xs && forallb is_atom ys
  then idx_uniform p (Nat.max (length xs) (length ys))
  else g_list g p xs ys 0.
Definition g_dict (g : value -> value -> path -> bool) (p : path) (kvs1 kvs2 : list (atom * value)) : bool :=
  Bool.eqb (dict_shortcut excl c (keys_x kf c p kvs1) (keys_x kf c p kvs2) p)
           (dict_shortcut excl' c (keys_of c kvs1) (keys_of c kvs2) p) &&
  (dict_shortcut excl' c (keys_of c kvs1) (keys_of c kvs2) p || g_common g kvs2 p kvs1).

Fixpoint guard (t1 t2 : value) (p : path) {struct t1} : bool :=
  match t1, t2 with
  | VDict kvs1, VDict kvs2 =>
      Bool.eqb (dict_shortcut excl c (keys_x kf c p kvs1) (keys_x kf c p kvs2) p)
               (dict_shortcut excl' c (keys_of c kvs1) (keys_of c kvs2) p) &&
      (dict_shortcut excl' c (keys_of c kvs1) (keys_of c kvs2) p ||
       (fix go (l : list (atom * value)) : bool :=
          match l with
          | [] => true
          | (k, v1) :: r =>
              (if keep_key c k then
                 match find (py_eq k) (keys_of c kvs2) with
                 | Some k' => match assoc k' kvs2 with
                              | Some v2 => if R (snoc p (PKey k')) then guard v1 v2 (snoc p (PKey k')) else true
                              | None => true
                              end
                 | None => true
                 end
               else true) && go r
          end) kvs1)
  | VList xs, VList ys | VTuple xs, VTuple ys =>
      if negb (zip c) && forallb is_atom xs && forallb is_atom ys
      then idx_uniform p (Nat.max (length xs) (length ys))
      else
        (fix go (xs ys : list value) (i : nat) {struct xs} : bool :=
           match xs, ys with
           | x :: xs', y :: ys' => (if R (snoc p (PIdx i)) then guard x y (snoc p (PIdx i)) else true) && go xs' ys' (S i)
           | _, _ => true
           end) xs ys 0
  | _, _ => true
  end.

Lemma guard_dict kvs1 kvs2 p : guard (VDict kvs1) (VDict kvs2) p = g_dict guard p kvs1 kvs2.
Proof. reflexivity. Qed.
Lemma guard_list xs ys p : guard (VList xs) (VList ys) p = g_seq guard p xs ys.
Proof. reflexivity. Qed.
Lemma guard_tuple xs ys p : guard (VTuple xs) (VTuple ys) p = g_seq guard p xs ys.
Proof. reflexivity. Qed.

Lemma idx_uniform_cases p n : idx_uniform p n = true ->
  (forall i, i < n -> R (snoc p (PIdx i)) = true) \/ (forall i, i < n -> R (snoc p (PIdx i)) = false).
Proof.
  unfold idx_uniform. intros H. apply orb_true_iff in H as [H|H]; rewrite forallb_forall in H; [left|right];
    intros i Hi; specialize (H i); rewrite in_seq in H.
  - apply H. lia.
  - apply negb_true_iff. apply H. lia.
Qed.
End Guard.

(* ------------------------------------------------------------------ *)
(* the general theorem under the guard                                 *)
(* ------------------------------------------------------------------ *)
Section GeneralG.
Variable hatom : atom -> pystr.
Variable udiff : pystr -> pystr -> pystr.
Variable ops : path -> list value -> list value -> list opcode.
Variable c : cfg.
Variable sk : path -> bool.
Variable kf : path -> atom -> bool.
Variable excl excl' : path -> bool.
Variable R : path -> bool.
Variable okp : path -> bool.
Variable okk : atom -> bool.

Hypothesis HGk : forall p a, okp p = true -> okk a = true -> okp (snoc p (PKey a)) = true.
Hypothesis HGi : forall p i, okp p = true -> okp (snoc p (PIdx i)) = true.
Hypothesis H1 : forall p, okp p = true -> R p = true -> sk p = false.
Hypothesis Hup : forall p k, R (snoc p k) = true -> R p = true.
Hypothesis Hkey : forall p a b, okp p = true -> okk a = true -> okk b = true -> R p = true ->
  py_eq a b = true -> R (snoc p (PKey b)) = true -> kf p a = false.
Hypothesis Hdropk : forall p a, okp p = true -> okk a = true -> R p = true ->
  R (snoc p (PKey a)) = false -> kf p a = true \/ sk (snoc p (PKey a)) = true.
Hypothesis Hdropi : forall p i, okp p = true -> R p = true ->
  R (snoc p (PIdx i)) = false -> sk (snoc p (PIdx i)) = true.

Notation dF := (diffx hatom udiff ops sk excl kf c).
Notation d0 := (diffx hatom udiff ops no_skip excl' no_kf c).
Notation keepR := (keep_entry R).
Notation G := (guard c kf excl excl' R).

Definition MainG (t1 : value) : Prop := forall t2 p1 p2,
  wf t2 = true -> keys_all okk t1 = true -> keys_all okk t2 = true -> okp p1 = true -> R p1 = true ->
  G t1 t2 p1 = true ->
  fst (dF t1 t2 p1 p2) = filter keepR (fst (d0 t1 t2 p1 p2)).

Lemma common_G p1 p2 kvs2 l : okp p1 = true -> R p1 = true ->
  nodup_atoms (map fst kvs2) = true ->
  forallb (fun kv => wf (snd kv)) kvs2 = true ->
  forallb (fun kv => okk (fst kv) && keys_all okk (snd kv)) kvs2 = true ->
  Forall (fun kv => MainG (snd kv)) l ->
  forallb (fun kv => okk (fst kv) && keys_all okk (snd kv)) l = true ->
  g_common c R G kvs2 p1 l = true ->
  fst (gox_common kf c dF kvs2 (keys_x kf c p1 kvs2) p1 p2 l) =
  filter keepR (fst (gox_common no_kf c d0 kvs2 (keys_of c kvs2) p1 p2 l)).
Proof.
  intros Gp H N W O2 F. induction F as [|[k v1] l Hx _ IH]; intros O1 S; [reflexivity|].
  cbn [forallb fst snd] in O1. apply andb_true_iff in O1 as [Ok O1]. apply andb_true_iff in Ok as [Ok Ov].
  cbn [g_common] in S. apply andb_true_iff in S as [S1 S2].
  specialize (IH O1 S2). cbn [snd] in Hx. cbn [gox_common]. unfold no_kf at 1. cbn [negb]. rewrite andb_true_r.
  destruct (keep_key c k) eqn:KK; cbn [andb]; [|exact IH].
  assert (ND : nodup_atoms (keys_of c kvs2) = true) by (apply nodup_filter; exact N).
  destruct (find (py_eq k) (keys_of c kvs2)) as [k'|] eqn:Fd.
  2:{ destruct (negb (kf p1 k)); [|exact IH]. unfold keys_x. rewrite find_filter_none by exact Fd. exact IH. }
  destruct (find_in _ _ _ Fd) as [Hin Pk].
  assert (Ok' : okk k' = true) by (exact (keys_of_ok c okk kvs2 k' O2 Hin)).
  unfold keys_x. rewrite (find_filter_nodup (fun a => negb (kf p1 a)) k _ k' ND Fd).
  destruct (R (snoc p1 (PKey k'))) eqn:E.
  - rewrite (Hkey p1 k k' Gp Ok Ok' H Pk E). rewrite (Hkey p1 k' k' Gp Ok' Ok' H (py_eq_refl _) E). cbn [negb].
    destruct (assoc k' kvs2) as [v2|] eqn:A; [|exact IH].
    destruct (assoc_wf_ok okk _ _ _ W O2 A) as [Wv Ov2].
    unfold app2. cbn [fst]. rewrite filter_app. f_equal; [|exact IH].
    apply Hx; try assumption. apply HGk; assumption.
  - assert (Z : forall v2, filter keepR (fst (d0 v1 v2 (snoc p1 (PKey k')) (snoc p2 (PKey k')))) = []).
    { intros v2. eapply (drop_all R Hup); [exact E|]. intros e He. eapply diffx_ext; exact He. }
    destruct (kf p1 k) eqn:K1; cbn [negb].
    { destruct (assoc k' kvs2) as [v2|]; [|exact IH]. unfold app2. cbn [fst]. rewrite filter_app, Z. exact IH. }
    destruct (kf p1 k') eqn:K2; cbn [negb].
    { destruct (assoc k' kvs2) as [v2|]; [|exact IH]. unfold app2. cbn [fst]. rewrite filter_app, Z. exact IH. }
    destruct (Hdropk p1 k' Gp Ok' H E) as [X|X]; [congruence|].
    destruct (assoc k' kvs2) as [v2|]; [|exact IH].
    rewrite diffx_skip by exact X. unfold app2. cbn [fst app]. rewrite filter_app, Z. exact IH.
Qed.

Lemma list_G p1 p2 xs : okp p1 = true -> R p1 = true ->
  Forall MainG xs ->
  forall ys i, forallb wf ys = true -> forallb (keys_all okk) xs = true -> forallb (keys_all okk) ys = true ->
  g_list R G p1 xs ys i = true ->
  fst (gox_list sk dF p1 p2 xs ys i) = filter keepR (fst (gox_list no_skip d0 p1 p2 xs ys i)).
Proof.
  intros Gp H F. induction F as [|x xs Hx _ IH]; intros ys i W O1 O2 S.
  - cbn. apply (added_from_R sk R okp HGi H1 Hdropi); assumption.
  - destruct ys as [|y ys].
    + cbn [gox_list fst]. apply (removed_from_R sk R okp HGi H1 Hdropi (x :: xs)); assumption.
    + cbn [gox_list]. unfold app2. cbn [fst]. rewrite filter_app.
      cbn [forallb] in W, O1, O2. apply andb_true_iff in W as [Wy W]. apply andb_true_iff in O1 as [Ox O1].
      apply andb_true_iff in O2 as [Oy O2]. cbn [g_list] in S. apply andb_true_iff in S as [S1 S2].
      f_equal; [|apply IH; assumption].
      destruct (R (snoc p1 (PIdx i))) eqn:E.
      * apply Hx; try assumption. apply HGi; exact Gp.
      * rewrite diffx_skip by (apply Hdropi; assumption). symmetry.
        eapply (drop_all R Hup); [exact E|]. intros e He. eapply diffx_ext; exact He.
Qed.

Lemma seq_G p1 p2 xs ys : okp p1 = true -> R p1 = true -> Forall MainG xs ->
  forallb wf ys = true -> forallb (keys_all okk) xs = true -> forallb (keys_all okk) ys = true ->
  g_seq c R G p1 xs ys = true ->
  fst (seqx_body hatom udiff ops sk excl kf c xs ys p1 p2) =
  filter keepR (fst (seqx_body hatom udiff ops no_skip excl' no_kf c xs ys p1 p2)).
Proof.
  intros Gp H F W O1 O2 S. unfold seqx_body. unfold g_seq in S.
  destruct (negb (zip c) && forallb is_atom xs && forallb is_atom ys) eqn:D.
  - set (n := Nat.max (length xs) (length ys)) in *.
    assert (Lx : length xs <= n) by (unfold n; lia). assert (Ly : length ys <= n) by (unfold n; lia).
    pose proof (default_leaf_list_in_b udiff ops no_skip p1 p2 n xs ys) as In_.
    destruct (idx_uniform_cases R p1 n S) as [Hall|Hnone].
    + assert (Fr : forall i, i < n -> sk (snoc p1 (PIdx i)) = false).
      { intros i Hi. apply H1; [apply HGi; exact Gp|apply Hall; exact Hi]. }
      rewrite (default_leaf_list_free_b udiff ops sk p1 p2 n Fr xs ys Lx Ly).
      destruct (default_leaf_list udiff ops no_skip xs ys p1 p2) as [es rec]. cbn [fst] in *.
      symmetry. apply filter_all. intros e He. destruct (In_ e Lx Ly He) as (m & Hm & E). unfold keep_entry. rewrite E.
      apply Hall. exact Hm.
    + assert (Al : forall i, i < n -> sk (snoc p1 (PIdx i)) = true).
      { intros i Hi. apply Hdropi; [exact Gp|exact H|apply Hnone; exact Hi]. }
      rewrite (default_leaf_list_all_b udiff ops sk p1 p2 n Al xs ys Lx Ly). cbn [fst].
      destruct (default_leaf_list udiff ops no_skip xs ys p1 p2) as [es rec]. cbn [fst] in *.
      symmetry. apply filter_none. intros e He. destruct (In_ e Lx Ly He) as (m & Hm & E). unfold keep_entry. rewrite E.
      apply Hnone. exact Hm.
  - apply list_G; assumption.
Qed.

Lemma dict_G p1 p2 kvs1 kvs2 : okp p1 = true -> R p1 = true ->
  Forall (fun kv => MainG (snd kv)) kvs1 ->
  wf (VDict kvs2) = true -> keys_all okk (VDict kvs1) = true -> keys_all okk (VDict kvs2) = true ->
  g_dict c kf excl excl' R G p1 kvs1 kvs2 = true ->
  fst (dictx_body hatom udiff ops sk excl kf c kvs1 kvs2 p1 p2) =
  filter keepR (fst (dictx_body hatom udiff ops no_skip excl' no_kf c kvs1 kvs2 p1 p2)).
Proof.
  intros Gp H F W O1 O2 S. cbn [wf keys_all] in W, O1, O2. apply andb_true_iff in W as [N W].
  unfold g_dict in S. apply andb_true_iff in S as [SC S]. apply Bool.eqb_prop in SC.
  unfold dictx_body. rewrite !keys_x_no_kf. rewrite SC.
  destruct (dict_shortcut excl' c (keys_of c kvs1) (keys_of c kvs2) p1).
  - cbn [fst]. apply (report_R sk R okp H1); assumption.
  - cbn [orb] in S. cbn [fst]. rewrite !filter_app. f_equal; [|f_equal].
    + unfold keys_x. apply (added_R sk kf R okp okk HGk H1 Hkey Hdropk); try assumption; intros a Ha;
        [exact (keys_of_ok c okk kvs1 a O1 Ha)|exact (keys_of_ok c okk kvs2 a O2 Ha)].
    + unfold keys_x. apply (removed_R sk kf R okp okk HGk H1 Hkey Hdropk); try assumption; intros a Ha;
        [exact (keys_of_ok c okk kvs1 a O1 Ha)|exact (keys_of_ok c okk kvs2 a O2 Ha)].
    + apply common_G; assumption.
Qed.

Theorem main_all_g t1 : MainG t1.
Proof.
  induction t1 as [a|xs IH|xs IH|kvs IH|xs|xs] using value_ind'; intros t2 p1 p2 W O1 O2 Gp H S;
  pose proof (H1 p1 Gp H) as S0;
  (match goal with |- fst (diffx _ _ _ _ _ _ _ ?t1 _ _ _) = _ =>
     destruct (ty_eqb (type_of t1) (type_of t2)) eqn:T end;
    [|rewrite !diffx_type by (assumption || reflexivity); cbn [fst]; apply (report_R sk R okp H1); assumption]);
  apply same_type_shape in T; inversion T; subst.
  - rewrite !diffx_atom by (assumption || reflexivity). cbn [fst].
    rewrite diff_atom_free by exact S0. symmetry. eapply keep_at; [exact H|]. intros e He. eapply diff_atom_in; exact He.
  - rewrite !diffx_list by (assumption || reflexivity). rewrite guard_list in S. apply seq_G; assumption.
  - rewrite !diffx_tuple by (assumption || reflexivity). rewrite guard_tuple in S. apply seq_G; assumption.
  - rewrite !diffx_dict by (assumption || reflexivity). rewrite guard_dict in S. apply dict_G; assumption.
  - rewrite !diffx_vset by (assumption || reflexivity). cbn [fst].
    rewrite diff_set_free by exact S0. symmetry. eapply keep_at; [exact H|]. intros e He. eapply diff_set_in; exact He.
  - rewrite !diffx_vfrozen by (assumption || reflexivity). cbn [fst].
    rewrite diff_set_free by exact S0. symmetry. eapply keep_at; [exact H|]. intros e He. eapply diff_set_in; exact He.
Qed.

Theorem run_general_g t1 t2 :
  wf t2 = true -> keys_all okk t1 = true -> keys_all okk t2 = true -> okp [] = true -> R [] = true ->
  G t1 t2 [] = true ->
  fst (run_diffx hatom udiff ops sk excl kf c t1 t2) =
  filter keepR (fst (run_diffx hatom udiff ops no_skip excl' no_kf c t1 t2)).
Proof.
  intros W O1 O2 Gp H S. unfold run_diffx. pose proof (main_all_g t1 t2 [] [] W O1 O2 Gp H S) as M.
  destruct (dF t1 t2 [] []) as [es rec]. destruct (d0 t1 t2 [] []) as [es0 rec0]. cbn [fst] in *.
  subst es. apply (mutual_filter R).
Qed.
End GeneralG.

(* ------------------------------------------------------------------ *)
(* the former global hypotheses imply the guard                        *)
(* ------------------------------------------------------------------ *)
Section OfGlobal.
Variable c : cfg.
Variable kf : path -> atom -> bool.
Variable excl excl' : path -> bool.
Variable R : path -> bool.
Hypothesis Hmode : zip c = true \/
  (forall p, R p = true -> (forall i, R (snoc p (PIdx i)) = true) \/ (forall i, R (snoc p (PIdx i)) = false)).
Hypothesis Hthr : thr_num c = 0 \/ (forall p a, kf p a = false).
Hypothesis Hstab : forall k1 k2 p, dict_shortcut excl c k1 k2 p = dict_shortcut excl' c k1 k2 p.
Notation G := (guard c kf excl excl' R).

Lemma sc_global p kvs1 kvs2 :
  dict_shortcut excl c (keys_x kf c p kvs1) (keys_x kf c p kvs2) p =
  dict_shortcut excl' c (keys_of c kvs1) (keys_of c kvs2) p.
Proof.
  destruct Hthr as [T|T].
  - unfold dict_shortcut. rewrite T. reflexivity.
  - rewrite Hstab. unfold keys_x. rewrite !filter_all; [reflexivity| |]; intros x _; rewrite T; reflexivity.
Qed.

Lemma guard_of_global t1 : forall t2 p, R p = true -> G t1 t2 p = true.
Proof.
  induction t1 as [a|xs IH|xs IH|kvs IH|xs|xs] using value_ind'; intros t2 p H;
    destruct t2 as [b|ys|ys|kvs2|ys|ys]; try reflexivity.
  - rewrite guard_list. unfold g_seq.
    destruct (negb (zip c) && forallb is_atom xs && forallb is_atom ys) eqn:D.
    + destruct Hmode as [Z|Hm]; [rewrite Z in D; discriminate|]. unfold idx_uniform.
      destruct (Hm p H) as [A|A]; apply orb_true_iff; [left|right]; apply forallb_forall; intros i _; rewrite A; reflexivity.
    + clear D. generalize 0 as i. revert ys.
      induction IH as [|x xs Hx _ IHl]; intros ys i; [reflexivity|]. destruct ys as [|y ys]; [reflexivity|].
      cbn [g_list]. rewrite IHl, andb_true_r. destruct (R (snoc p (PIdx i))) eqn:E; [apply Hx; exact E|reflexivity].
  - rewrite guard_tuple. unfold g_seq.
    destruct (negb (zip c) && forallb is_atom xs && forallb is_atom ys) eqn:D.
    + destruct Hmode as [Z|Hm]; [rewrite Z in D; discriminate|]. unfold idx_uniform.
      destruct (Hm p H) as [A|A]; apply orb_true_iff; [left|right]; apply forallb_forall; intros i _; rewrite A; reflexivity.
    + clear D. generalize 0 as i. revert ys.
      induction IH as [|x xs Hx _ IHl]; intros ys i; [reflexivity|]. destruct ys as [|y ys]; [reflexivity|].
      cbn [g_list]. rewrite IHl, andb_true_r. destruct (R (snoc p (PIdx i))) eqn:E; [apply Hx; exact E|reflexivity].
  - rewrite guard_dict. unfold g_dict. rewrite sc_global, Bool.eqb_reflx. cbn [andb].
    destruct (dict_shortcut excl' c (keys_of c kvs) (keys_of c kvs2) p); [reflexivity|]. cbn [orb].
    induction IH as [|[k v1] l Hx _ IHl]; [reflexivity|]. cbn [g_common]. rewrite IHl, andb_true_r.
    destruct (keep_key c k); [|reflexivity]. destruct (find _ _) as [k'|]; [|reflexivity].
    destruct (assoc _ _) as [v2|]; [|reflexivity]. destruct (R (snoc p (PKey k'))) eqn:E; [|reflexivity].
    apply Hx. exact E.
Qed.
End OfGlobal.

(** C13 - the DeepHash side of exclude_paths / exclude_regex_paths (known finding K13c).
    [diffh] = [diffx] + the pseudo-path test on the members of compared sets.  When no
    pseudo-path "<set path>[i]" is hit the two coincide, so every theorem about [diffx]
    / [run_filtered] speaks about [run_filtered_h]; when one is hit the option is not a
    pure filter (witness). *)
From Coq Require Import List ZArith NArith Bool Arith Lia.
Import ListNotations.
From DD Require Import Base.PyStr Base.Value Base.ValueFacts Diff.Tree Diff.DiffModel
  Path.PathModel Filter.FilterModel Filter.FilterFacts Filter.FilterProofs Filter.FilterExclude.

Lemma members_kept_no_hit l : forall i m,
  fst (members_kept (fun _ => false) m l i) = l.
Proof.
  induction l as [|a l IH]; intros i m; cbn; [reflexivity|].
  destruct (mem_atom a m).
  - specialize (IH (S i) m). destruct (members_kept (fun _ => false) m l (S i)) as [k m']. cbn in *. rewrite IH. reflexivity.
  - specialize (IH (S i) (a :: m)). destruct (members_kept (fun _ => false) (a :: m) l (S i)) as [k m']. cbn in *. rewrite IH. reflexivity.
Qed.

Lemma members_kept_ext h h' l : (forall i, h i = h' i) -> forall i m, members_kept h m l i = members_kept h' m l i.
Proof.
  intros H. induction l as [|a l IH]; intros i m; cbn; [reflexivity|]. rewrite H, !IH. reflexivity.
Qed.

Lemma diff_set_h_no_hit hatom skip hit xs ys p1 p2 : (forall i, hit i = false) ->
  diff_set_h hatom skip hit xs ys p1 p2 = diff_set hatom skip xs ys p1 p2.
Proof.
  intros H. unfold diff_set_h.
  rewrite (members_kept_ext hit (fun _ => false) xs H).
  pose proof (members_kept_no_hit xs 0 []) as A.
  destruct (members_kept (fun _ => false) [] xs 0) as [xs' m]. cbn in A. subst xs'.
  rewrite (members_kept_ext hit (fun _ => false) ys H).
  pose proof (members_kept_no_hit ys 0 m) as B.
  destruct (members_kept (fun _ => false) m ys 0) as [ys' m']. cbn in B. subst ys'. reflexivity.
Qed.

Section NoHit.
Variable hatom : atom -> pystr.
Variable udiff : pystr -> pystr -> pystr.
Variable ops : path -> list value -> list value -> list opcode.
Variable skip excl : path -> bool.
Variable kf : path -> atom -> bool.
Variable hit : path -> nat -> bool.
Variable c : cfg.
Hypothesis Hno : forall p i, hit p i = false.
Notation dH := (diffh hatom udiff ops skip excl kf hit c).
Notation dX := (diffx hatom udiff ops skip excl kf c).

Lemma diffh_eq t1 t2 p1 p2 : dH t1 t2 p1 p2 =
  if skip p1 then ([], []) else
  if negb (ty_eqb (type_of t1) (type_of t2))
  then (report skip KType p1 p2 (Some t1) (Some t2) None, [])
  else
  match t1, t2 with
  | VAtom a, VAtom b => (diff_atom udiff skip a b p1 p2, [])
  | VDict kvs1, VDict kvs2 =>
      let k1 := keys_x kf c p1 kvs1 in
      let k2 := keys_x kf c p1 kvs2 in
      if dict_shortcut excl c k1 k2 p1 then (report skip KValue p1 p2 (Some t1) (Some t2) None, [])
      else let common := gox_common kf c dH kvs2 k2 p1 p2 kvs1 in
           (added_x skip k1 k2 kvs2 p1 p2 ++ removed_x skip k1 k2 kvs1 p1 p2 ++ fst common, snd common)
  | VList xs, VList ys | VTuple xs, VTuple ys =>
      if negb (zip c) && forallb is_atom xs && forallb is_atom ys
      then let '(es, rec) := default_leaf_list udiff ops skip xs ys p1 p2 in (es, if rec then [p1] else [])
      else gox_list skip dH p1 p2 xs ys 0
  | VSet xs, VSet ys | VFrozen xs, VFrozen ys => (diff_set_h hatom skip (hit p1) xs ys p1 p2, [])
  | _, _ => ([], [])
  end.
Proof. destruct t1; reflexivity. Qed.

Lemma gox_common_h kvs2 k2 p1 p2 l :
  Forall (fun kv => forall t2 q1 q2, dH (snd kv) t2 q1 q2 = dX (snd kv) t2 q1 q2) l ->
  gox_common kf c dH kvs2 k2 p1 p2 l = gox_common kf c dX kvs2 k2 p1 p2 l.
Proof.
  induction 1 as [|[k v1] l Hx _ IH]; [reflexivity|]. cbn [gox_common]. cbn [snd] in Hx. rewrite IH.
  destruct (keep_key c k && negb (kf p1 k)); [|reflexivity]. destruct (find (py_eq k) k2) as [k'|]; [|reflexivity].
  destruct (assoc k' kvs2) as [v2|]; [|reflexivity]. rewrite Hx. reflexivity.
Qed.

Lemma gox_list_h p1 p2 xs :
  Forall (fun t1 => forall t2 q1 q2, dH t1 t2 q1 q2 = dX t1 t2 q1 q2) xs ->
  forall ys i, gox_list skip dH p1 p2 xs ys i = gox_list skip dX p1 p2 xs ys i.
Proof.
  induction 1 as [|x xs Hx _ IH]; intros ys i; [reflexivity|].
  destruct ys as [|y ys]; [reflexivity|]. cbn [gox_list]. rewrite Hx, IH. reflexivity.
Qed.

Lemma diffh_no_hit t1 : forall t2 p1 p2, dH t1 t2 p1 p2 = dX t1 t2 p1 p2.
Proof.
  induction t1 as [a|xs IH|xs IH|kvs IH|xs|xs] using value_ind'; intros t2 p1 p2; rewrite diffh_eq;
  (destruct (skip p1) eqn:S; [rewrite diffx_skip by exact S; reflexivity|]);
  (match goal with |- context [ty_eqb (type_of ?t1) (type_of t2)] =>
     destruct (ty_eqb (type_of t1) (type_of t2)) eqn:T end; cbn [negb];
    [|rewrite diffx_type by assumption; reflexivity]);
  apply same_type_shape in T; inversion T; subst.
  - rewrite diffx_atom by assumption. reflexivity.
  - rewrite diffx_list by assumption. unfold seqx_body.
    destruct (negb (zip c) && forallb is_atom xs && forallb is_atom ys); [reflexivity|]. apply gox_list_h; exact IH.
  - rewrite diffx_tuple by assumption. unfold seqx_body.
    destruct (negb (zip c) && forallb is_atom xs && forallb is_atom ys); [reflexivity|]. apply gox_list_h; exact IH.
  - rewrite diffx_dict by assumption. unfold dictx_body. cbn zeta.
    destruct (dict_shortcut excl c _ _ p1); [reflexivity|]. rewrite gox_common_h by exact IH. reflexivity.
  - rewrite diffx_vset by assumption. rewrite diff_set_h_no_hit by (intros i; apply Hno). reflexivity.
  - rewrite diffx_vfrozen by assumption. rewrite diff_set_h_no_hit by (intros i; apply Hno). reflexivity.
Qed.

Lemma run_diffh_no_hit t1 t2 :
  run_diffh hatom udiff ops skip excl kf hit c t1 t2 = run_diffx hatom udiff ops skip excl kf c t1 t2.
Proof. unfold run_diffh, run_diffx. rewrite diffh_no_hit. reflexivity. Qed.
End NoHit.

(* no pseudo-path of a set member is hit: the DeepHash side is invisible *)
Theorem run_filtered_h_no_hit hatom udiff ops rx rxh ex inc c t1 t2 :
  (forall p i, hit_this rxh (add_root_to_paths ex) p i = false) ->
  run_filtered_h hatom udiff ops rx rxh ex inc c t1 t2 = run_filtered hatom udiff ops rx ex inc c t1 t2.
Proof. intros H. unfold run_filtered_h, run_filtered. apply run_diffh_no_hit. exact H. Qed.

(* ---- witness (K13c): {1,2} vs {2,3}, a pattern that matches "root[0]" (e.g. r'\[0\]$') and nothing else:
        the member iterated first is dropped from t1 (1) - its removal is lost - while 2, memoised when t1
        was hashed, survives at index 0 of t2 ---- *)
Definition wh_h (a : atom) : pystr := match a with AInt z => p_of_Z z | _ => [] end.
Definition wh_u (_ _ : pystr) : pystr := [].
Definition wh_o (_ : path) (_ _ : list value) : list opcode := [].
Definition wh_rxh (p : path) (i : nat) : bool := match p, i with [], 0 => true | _, _ => false end.
Definition wh_t1 := VSet [AInt 1; AInt 2].
Definition wh_t2 := VSet [AInt 2; AInt 3].
Definition wh_c : cfg := mkCfg true 0 1 true.

Lemma set_member_index_refuted :
  map (fun e => (ekind e, ep1 e, et1 e, et2 e))
      (fst (run_filtered_h wh_h wh_u wh_o no_skip wh_rxh [] [] wh_c wh_t1 wh_t2)) =
    [(KSetAdd, [], None, Some (VAtom (AInt 3)))] /\
  map (fun e => (ekind e, ep1 e, et1 e, et2 e))
      (fst (run_diff wh_h wh_u wh_o no_skip no_skip wh_c wh_t1 wh_t2)) =
    [(KSetAdd, [], None, Some (VAtom (AInt 3))); (KSetRem, [], Some (VAtom (AInt 1)), None)].
Proof. vm_compute. split; reflexivity. Qed.

(** C13 - facts about the model of the WHOLE _skip_this chain (Filter/FilterModelV.v):

    [diffv_path_only]     with a skip test that ignores the objects of the level, [diffv] is [diffh]:
                          every theorem about run_filtered(_h) speaks about [run_full] without object options
                          ([run_full_path_only]);
    [skip_full_include_shadows] / [run_full_include_shadows]
                          the precedence defect behind K13d in general: once include_paths is given, at every
                          level other than the root exclude_regex_paths, exclude_types and the four callbacks
                          are dead code - the run is the run without them;
    [skip_full_exclusions] without include options the verdict is the plain disjunction of the exclusion tests. *)
From Coq Require Import List ZArith NArith Bool Arith Lia.
Import ListNotations.
From DD Require Import Base.PyStr Base.Value Base.ValueFacts Diff.Tree Diff.DiffModel
  Path.PathModel Filter.FilterModel Filter.FilterModelV Filter.FilterFacts Filter.FilterProofs Filter.FilterHash.

(* ------------------------------------------------------------------ *)
(* unfolding                                                           *)
(* ------------------------------------------------------------------ *)
Section UnfoldV.
Variable hatom : atom -> pystr.
Variable udiff : pystr -> pystr -> pystr.
Variable ops : path -> list value -> list value -> list opcode.
Variable sk : vskip.
Variable excl : path -> bool.
Variable kf : path -> atom -> bool.
Variable hit : path -> nat -> bool.
Variable c : cfg.
Notation dV := (diffv hatom udiff ops sk excl kf hit c).

Definition gov_list (d : value -> value -> path -> path -> RT) (p1 p2 : path) :=
  fix go (xs ys : list value) (i : nat) {struct xs} : RT :=
    match xs, ys with
    | [], _ => (added_fromv sk ys i p1 p2, [])
    | _ :: _, [] => (removed_fromv sk xs i p1 p2, [])
    | x :: xs', y :: ys' =>
        app2 (d x y (snoc p1 (PIdx i)) (snoc p2 (PIdx i))) (go xs' ys' (S i))
    end.
Definition added_xv (k1 k2 : list atom) (kvs2 : list (atom * value)) (p1 p2 : path) : list entry :=
  flat_map (fun k => if mem_atom k k1 then []
     else reportv sk KDictAdd (snoc p1 (PKey k)) (snoc p2 (PKey k)) None (assoc k kvs2) None) k2.
Definition removed_xv (k1 k2 : list atom) (kvs1 : list (atom * value)) (p1 p2 : path) : list entry :=
  flat_map (fun k => if mem_atom k k2 then []
     else reportv sk KDictRem (snoc p1 (PKey k)) (snoc p2 (PKey k)) (assoc k kvs1) None None) k1.

Lemma diffv_eq t1 t2 p1 p2 : dV t1 t2 p1 p2 =
  if sk p1 (Some t1) (Some t2) then ([], []) else
  if negb (ty_eqb (type_of t1) (type_of t2))
  then (reportv sk KType p1 p2 (Some t1) (Some t2) None, [])
  else
  match t1, t2 with
  | VAtom a, VAtom b => (diff_atomv udiff sk a b p1 p2, [])
  | VDict kvs1, VDict kvs2 =>
      let k1 := keys_x kf c p1 kvs1 in
      let k2 := keys_x kf c p1 kvs2 in
      if dict_shortcut excl c k1 k2 p1 then (reportv sk KValue p1 p2 (Some t1) (Some t2) None, [])
      else let common := gox_common kf c dV kvs2 k2 p1 p2 kvs1 in
           (added_xv k1 k2 kvs2 p1 p2 ++ removed_xv k1 k2 kvs1 p1 p2 ++ fst common, snd common)
  | VList xs, VList ys | VTuple xs, VTuple ys =>
      if negb (zip c) && forallb is_atom xs && forallb is_atom ys
      then let '(es, rec) := default_leaf_listv udiff ops sk xs ys p1 p2 in (es, if rec then [p1] else [])
      else gov_list dV p1 p2 xs ys 0
  | VSet xs, VSet ys | VFrozen xs, VFrozen ys => (diff_set_hv hatom sk (hit p1) xs ys p1 p2, [])
  | _, _ => ([], [])
  end.
Proof. destruct t1; reflexivity. Qed.
End UnfoldV.

(* ------------------------------------------------------------------ *)
(* a skip test that ignores the objects: diffv = diffh                 *)
(* ------------------------------------------------------------------ *)
Section PathOnly.
Variable hatom : atom -> pystr.
Variable udiff : pystr -> pystr -> pystr.
Variable ops : path -> list value -> list value -> list opcode.
Variable s : path -> bool.
Variable excl : path -> bool.
Variable kf : path -> atom -> bool.
Variable hit : path -> nat -> bool.
Variable c : cfg.
Notation sk := (path_only s).
Notation dV := (diffv hatom udiff ops sk excl kf hit c).
Notation dH := (diffh hatom udiff ops s excl kf hit c).

Lemma removed_fromv_po xs : forall i p1 p2, removed_fromv sk xs i p1 p2 = removed_from s xs i p1 p2.
Proof. induction xs as [|x xs IH]; intros i p1 p2; cbn; [reflexivity|]. rewrite IH. reflexivity. Qed.
Lemma added_fromv_po ys : forall j p1 p2, added_fromv sk ys j p1 p2 = added_from s ys j p1 p2.
Proof. induction ys as [|y ys IH]; intros j p1 p2; cbn; [reflexivity|]. rewrite IH. reflexivity. Qed.
Lemma pairs_leafv_po xs : forall ys i j p1 p2, pairs_leafv udiff sk xs ys i j p1 p2 = pairs_leaf udiff s xs ys i j p1 p2.
Proof.
  induction xs as [|x xs IH]; intros ys i j p1 p2.
  - cbn. apply added_fromv_po.
  - destruct ys as [|y ys]; [apply (removed_fromv_po (x :: xs))|]. cbn [pairs_leafv pairs_leaf]. rewrite IH. reflexivity.
Qed.
Lemma by_opcodesv_po os xs ys p1 p2 : by_opcodesv udiff sk os xs ys p1 p2 = by_opcodes udiff s os xs ys p1 p2.
Proof.
  unfold by_opcodesv, by_opcodes. apply flat_map_ext. intros o. destruct (otag o); [reflexivity| | |].
  - apply pairs_leafv_po.
  - apply removed_fromv_po.
  - apply added_fromv_po.
Qed.
Lemma default_leaf_listv_po xs ys p1 p2 :
  default_leaf_listv udiff ops sk xs ys p1 p2 = default_leaf_list udiff ops s xs ys p1 p2.
Proof. unfold default_leaf_listv, default_leaf_list. rewrite !by_opcodesv_po, !pairs_leafv_po. reflexivity. Qed.

Lemma gov_list_po p1 p2 xs :
  Forall (fun t1 => forall t2 q1 q2, dV t1 t2 q1 q2 = dH t1 t2 q1 q2) xs ->
  forall ys i, gov_list sk dV p1 p2 xs ys i = gox_list s dH p1 p2 xs ys i.
Proof.
  induction 1 as [|x xs Hx _ IH]; intros ys i.
  - cbn. rewrite added_fromv_po. reflexivity.
  - destruct ys as [|y ys].
    + cbn [gov_list gox_list]. rewrite (removed_fromv_po (x :: xs)). reflexivity.
    + cbn [gov_list gox_list]. rewrite Hx, IH. reflexivity.
Qed.
Lemma gox_common_po kvs2 k2 p1 p2 l :
  Forall (fun kv => forall t2 q1 q2, dV (snd kv) t2 q1 q2 = dH (snd kv) t2 q1 q2) l ->
  gox_common kf c dV kvs2 k2 p1 p2 l = gox_common kf c dH kvs2 k2 p1 p2 l.
Proof.
  induction 1 as [|[k v1] l Hx _ IH]; [reflexivity|]. cbn [gox_common]. cbn [snd] in Hx. rewrite IH.
  destruct (keep_key c k && negb (kf p1 k)); [|reflexivity]. destruct (find (py_eq k) k2) as [k'|]; [|reflexivity].
  destruct (assoc k' kvs2) as [v2|]; [|reflexivity]. rewrite Hx. reflexivity.
Qed.

Lemma diffv_path_only t1 : forall t2 p1 p2, dV t1 t2 p1 p2 = dH t1 t2 p1 p2.
Proof.
  induction t1 as [a|xs IH|xs IH|kvs IH|xs|xs] using value_ind'; intros t2 p1 p2; rewrite diffv_eq, diffh_eq;
    unfold path_only at 1; (destruct (s p1); [reflexivity|]);
    (destruct (negb (ty_eqb (type_of _) (type_of t2))); [reflexivity|]);
    destruct t2 as [b|ys|ys|kvs2|ys|ys]; try reflexivity.
Qed.

Lemma run_diffv_path_only t1 t2 :
  run_diffv hatom udiff ops sk excl kf hit c t1 t2 = run_diffh hatom udiff ops s excl kf hit c t1 t2.
Proof. unfold run_diffv, run_diffh. rewrite diffv_path_only. reflexivity. Qed.
End PathOnly.

(* ------------------------------------------------------------------ *)
(* extensionality in the skip test, away from the root                 *)
(* ------------------------------------------------------------------ *)
Definition is_setv (v : value) : bool := match v with VSet _ | VFrozen _ => true | _ => false end.

Lemma snoc_not_nil (p : path) k : snoc p k <> [].
Proof. unfold snoc. destruct p; discriminate. Qed.

Section ExtV.
Variable hatom : atom -> pystr.
Variable udiff : pystr -> pystr -> pystr.
Variable ops : path -> list value -> list value -> list opcode.
Variable sk1 sk2 : vskip.
Variable excl : path -> bool.
Variable kf : path -> atom -> bool.
Variable hit : path -> nat -> bool.
Variable c : cfg.
Variable full : bool.           (* the two tests also agree at the root, for all objects *)
Hypothesis Hsk : forall q a b, q <> [] -> sk1 q a b = sk2 q a b.
Hypothesis Hroot : full = true -> forall a b, sk1 [] a b = sk2 [] a b.
Notation d1 := (diffv hatom udiff ops sk1 excl kf hit c).
Notation d2 := (diffv hatom udiff ops sk2 excl kf hit c).

Lemma reportv_ext k p1 p2 a b d : sk1 p1 a b = sk2 p1 a b -> reportv sk1 k p1 p2 a b d = reportv sk2 k p1 p2 a b d.
Proof. intros H. unfold reportv. rewrite H. reflexivity. Qed.
Lemma diff_atomv_ext a b p1 p2 : sk1 p1 (Some (VAtom a)) (Some (VAtom b)) = sk2 p1 (Some (VAtom a)) (Some (VAtom b)) ->
  diff_atomv udiff sk1 a b p1 p2 = diff_atomv udiff sk2 a b p1 p2.
Proof. intros H. unfold diff_atomv, reportv. rewrite !H. reflexivity. Qed.
Lemma removed_fromv_ext xs : forall i p1 p2, removed_fromv sk1 xs i p1 p2 = removed_fromv sk2 xs i p1 p2.
Proof.
  induction xs as [|x xs IH]; intros i p1 p2; cbn; [reflexivity|]. rewrite IH. f_equal.
  apply reportv_ext. apply Hsk. apply snoc_not_nil.
Qed.
Lemma added_fromv_ext ys : forall j p1 p2, added_fromv sk1 ys j p1 p2 = added_fromv sk2 ys j p1 p2.
Proof.
  induction ys as [|y ys IH]; intros j p1 p2; cbn; [reflexivity|]. rewrite IH. f_equal.
  apply reportv_ext. apply Hsk. apply snoc_not_nil.
Qed.
Lemma pairs_leafv_ext xs : forall ys i j p1 p2, pairs_leafv udiff sk1 xs ys i j p1 p2 = pairs_leafv udiff sk2 xs ys i j p1 p2.
Proof.
  induction xs as [|x xs IH]; intros ys i j p1 p2.
  - cbn. apply added_fromv_ext.
  - destruct ys as [|y ys]; [apply (removed_fromv_ext (x :: xs))|]. cbn [pairs_leafv]. rewrite IH. f_equal.
    destruct (negb (i =? j) && py_eq_leaf x y).
    + apply reportv_ext. apply Hsk. apply snoc_not_nil.
    + unfold diff_leafv. destruct x, y; try reflexivity. apply diff_atomv_ext. apply Hsk. apply snoc_not_nil.
Qed.
Lemma by_opcodesv_ext os xs ys p1 p2 : by_opcodesv udiff sk1 os xs ys p1 p2 = by_opcodesv udiff sk2 os xs ys p1 p2.
Proof.
  unfold by_opcodesv. apply flat_map_ext. intros o. destruct (otag o); [reflexivity| | |].
  - apply pairs_leafv_ext.
  - apply removed_fromv_ext.
  - apply added_fromv_ext.
Qed.
Lemma default_leaf_listv_ext xs ys p1 p2 :
  default_leaf_listv udiff ops sk1 xs ys p1 p2 = default_leaf_listv udiff ops sk2 xs ys p1 p2.
Proof. unfold default_leaf_listv. rewrite !by_opcodesv_ext, !pairs_leafv_ext. reflexivity. Qed.
Lemma agree q a b : q <> [] \/ full = true -> sk1 q a b = sk2 q a b.
Proof. intros [H|H]; [apply Hsk; exact H|]. destruct q; [apply Hroot; exact H|apply Hsk; discriminate]. Qed.
Lemma diff_set_hv_ext h xs ys p1 p2 : p1 <> [] \/ full = true -> diff_set_hv hatom sk1 h xs ys p1 p2 = diff_set_hv hatom sk2 h xs ys p1 p2.
Proof.
  intros NE. unfold diff_set_hv. destruct (members_kept h [] xs 0) as [xs' m]. destruct (members_kept h m ys 0) as [ys' m'].
  unfold diff_setv. f_equal; apply flat_map_ext; intros a; destruct (existsb _ _); try reflexivity;
    unfold report_setv; rewrite (agree _ _ _ NE); reflexivity.
Qed.

Definition ExtAt (t1 : value) : Prop := forall t2 p p2,
  sk1 p (Some t1) (Some t2) = sk2 p (Some t1) (Some t2) -> is_setv t1 = false \/ (p <> [] \/ full = true) ->
  d1 t1 t2 p p2 = d2 t1 t2 p p2.

Lemma gov_list_ext p1 p2 xs : Forall ExtAt xs ->
  forall ys i, gov_list sk1 d1 p1 p2 xs ys i = gov_list sk2 d2 p1 p2 xs ys i.
Proof.
  induction 1 as [|x xs Hx _ IH]; intros ys i.
  - cbn. rewrite added_fromv_ext. reflexivity.
  - destruct ys as [|y ys].
    + cbn [gov_list]. rewrite (removed_fromv_ext (x :: xs)). reflexivity.
    + cbn [gov_list]. rewrite IH. f_equal. apply Hx; [apply Hsk; apply snoc_not_nil|right; left; apply snoc_not_nil].
Qed.
Lemma gox_common_ext_v kvs2 k2 p1 p2 l : Forall (fun kv => ExtAt (snd kv)) l ->
  gox_common kf c d1 kvs2 k2 p1 p2 l = gox_common kf c d2 kvs2 k2 p1 p2 l.
Proof.
  induction 1 as [|[k v1] l Hx _ IH]; [reflexivity|]. cbn [gox_common]. cbn [snd] in Hx. rewrite IH.
  destruct (keep_key c k && negb (kf p1 k)); [|reflexivity]. destruct (find (py_eq k) k2) as [k'|]; [|reflexivity].
  destruct (assoc k' kvs2) as [v2|]; [|reflexivity]. f_equal.
  apply Hx; [apply Hsk; apply snoc_not_nil|right; left; apply snoc_not_nil].
Qed.

Lemma ext_all t1 : ExtAt t1.
Proof.
  induction t1 as [a|xs IH|xs IH|kvs IH|xs|xs] using value_ind'; intros t2 p p2 Hp0 Hs; rewrite !diffv_eq; rewrite Hp0;
    (destruct (sk2 p _ (Some t2)) eqn:E2; [reflexivity|]);
    (match type of Hp0 with ?l = _ => assert (Hp : l = sk2 p (Some _) (Some t2)) by (rewrite E2; exact Hp0) end);
    (destruct (negb (ty_eqb (type_of _) (type_of t2))); [rewrite (reportv_ext _ _ _ _ _ _ Hp); reflexivity|]);
    destruct t2 as [b|ys|ys|kvs2|ys|ys]; try reflexivity.
  - rewrite (diff_atomv_ext _ _ _ _ Hp). reflexivity.
  - destruct (negb (zip c) && forallb is_atom xs && forallb is_atom ys);
      [rewrite default_leaf_listv_ext; reflexivity|apply gov_list_ext; exact IH].
  - destruct (negb (zip c) && forallb is_atom xs && forallb is_atom ys);
      [rewrite default_leaf_listv_ext; reflexivity|apply gov_list_ext; exact IH].
  - cbn zeta. destruct (dict_shortcut excl c _ _ p); [rewrite (reportv_ext _ _ _ _ _ _ Hp); reflexivity|].
    rewrite (gox_common_ext_v _ _ _ _ _ IH). f_equal. f_equal; [|f_equal].
    + unfold added_xv. apply flat_map_ext. intros k. destruct (mem_atom k _); [reflexivity|].
      apply reportv_ext. apply Hsk. apply snoc_not_nil.
    + unfold removed_xv. apply flat_map_ext. intros k. destruct (mem_atom k _); [reflexivity|].
      apply reportv_ext. apply Hsk. apply snoc_not_nil.
  - destruct Hs as [Hs|Hs]; [discriminate Hs|]. rewrite (diff_set_hv_ext _ _ _ _ _ Hs). reflexivity.
  - destruct Hs as [Hs|Hs]; [discriminate Hs|]. rewrite (diff_set_hv_ext _ _ _ _ _ Hs). reflexivity.
Qed.
End ExtV.

(* ------------------------------------------------------------------ *)
(* the chain of _skip_this                                             *)
(* ------------------------------------------------------------------ *)
(* no object-dependent option: the three path options of FilterModel.skip_this *)
Lemma skip_full_path_only rx EX INC p a b :
  skip_full rx EX INC [] no_cb no_cb None None p a b = skip_this rx EX INC p.
Proof.
  unfold skip_full, skip_this.
  assert (T : forall o, ty_hit [] o = false) by (intros [v|]; reflexivity).
  assert (C : forall o, cbv no_cb o = false) by (intros [v|]; reflexivity).
  rewrite !T, !C. cbn [orb andb].
  destruct INC as [|s r]; [destruct (rx p), (mem_str (render p) EX); reflexivity|].
  destruct (is_root p); cbn [negb]; [destruct (rx p), (mem_str (render p) EX); reflexivity|reflexivity].
Qed.

Theorem diffv_ext_full hatom udiff ops sk1 sk2 excl kf hit c :
  (forall q a b, sk1 q a b = sk2 q a b) ->
  forall t1 t2 p p2, diffv hatom udiff ops sk1 excl kf hit c t1 t2 p p2 = diffv hatom udiff ops sk2 excl kf hit c t1 t2 p p2.
Proof.
  intros H t1 t2 p p2.
  apply (ext_all hatom udiff ops sk1 sk2 excl kf hit c true (fun q a b _ => H q a b) (fun _ a b => H [] a b)); [apply H|].
  right. right. reflexivity.
Qed.

Theorem run_full_path_only hatom udiff ops rx rxh ex inc c t1 t2 :
  run_full hatom udiff ops rx rxh ex inc [] no_cb no_cb None None c t1 t2 =
  run_filtered_h hatom udiff ops rx rxh ex inc c t1 t2.
Proof.
  unfold run_full, run_filtered_h. rewrite <- run_diffv_path_only. unfold run_diffv.
  rewrite (diffv_ext_full hatom udiff ops _ (path_only (skip_this rx (add_root_to_paths ex) (add_root_to_paths inc)))); [reflexivity|].
  intros q a b. apply skip_full_path_only.
Qed.

(* ---- precedence: include_paths shadow every other branch away from the root ---- *)
Lemma skip_full_include_shadows rx EX INC TY cb cbs icb icbs p a b :
  INC <> [] -> p <> [] ->
  skip_full rx EX INC TY cb cbs icb icbs p a b = skip_this no_skip EX INC p.
Proof.
  intros NI NP. unfold skip_full, skip_this. destruct INC as [|s r]; [congruence|].
  destruct p as [|k p]; [congruence|]. reflexivity.
Qed.

(* the root level itself is outside the include branch: there the other options still act.  When they do not
   skip the root (and the root is not a set, whose items carry the root path), the run is the run without them *)
Theorem run_full_include_shadows hatom udiff ops rx rxh ex inc TY cb cbs icb icbs c t1 t2 :
  add_root_to_paths inc <> [] -> is_setv t1 = false ->
  skip_full rx (add_root_to_paths ex) (add_root_to_paths inc) TY cb cbs icb icbs [] (Some t1) (Some t2) =
    skip_this no_skip (add_root_to_paths ex) (add_root_to_paths inc) [] ->
  run_full hatom udiff ops rx rxh ex inc TY cb cbs icb icbs c t1 t2 =
  run_filtered_h hatom udiff ops no_skip rxh ex inc c t1 t2.
Proof.
  intros NI NS R0. unfold run_full, run_filtered_h. rewrite <- run_diffv_path_only. unfold run_diffv.
  set (EX := add_root_to_paths ex) in *. set (INC := add_root_to_paths inc) in *.
  rewrite (ext_all hatom udiff ops (skip_full rx EX INC TY cb cbs icb icbs) (path_only (skip_this no_skip EX INC))
             (excl_this EX) (skip_this_key INC) (hit_this rxh EX) c false); [reflexivity| | | |].
  - intros q a b NQ. apply skip_full_include_shadows; assumption.
  - discriminate.
  - exact R0.
  - left. exact NS.
Qed.

(* ---- without include options the verdict is the disjunction of the exclusion tests ---- *)
Lemma skip_full_exclusions rx EX TY cb cbs p a b :
  skip_full rx EX [] TY cb cbs None None p a b =
  mem_str (render p) EX || rx p || (ty_hit TY a || ty_hit TY b) || (cbv cb a || cbv cb b) || (cbv cbs a && cbv cbs b).
Proof.
  unfold skip_full. destruct (rx p), (ty_hit TY a || ty_hit TY b), (cbv cb a || cbv cb b), (cbv cbs a && cbv cbs b),
    (mem_str (render p) EX); reflexivity.
Qed.

(* ---- an include_obj_callback overwrites the verdict of the literal exclude_paths test ---- *)
Lemma skip_full_icb_overrides rx EX TY cb cbs f icbs p a b :
  p <> [] -> rx p = false -> ty_hit TY a || ty_hit TY b = false -> cbv cb a || cbv cb b = false ->
  cbv cbs a && cbv cbs b = false ->
  skip_full rx EX [] TY cb cbs (Some f) icbs p a b = negb (cbv f a || cbv f b).
Proof.
  intros NP R T C S. unfold skip_full. rewrite R, T, C, S. destruct p; [congruence|]. reflexivity.
Qed.

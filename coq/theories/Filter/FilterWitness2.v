(** C13 - examples for the input-level guards of Filter/FilterExact.v (satisfiable by non-trivial inputs,
    strictly weaker than the former guards) and further refutation witnesses (replayed on the
    implementation by harness/props/c13.py). *)
From Coq Require Import List ZArith NArith Bool Arith String.
Import ListNotations.
From DD Require Import Base.PyStr Base.Value Base.ValueFacts Diff.Tree Diff.DiffModel Path.PathModel
  Filter.FilterModel Filter.FilterFacts Filter.FilterProofs Filter.FilterExclude Filter.FilterThreshold
  Filter.FilterInclude Filter.FilterWitness Filter.FilterGuard Filter.FilterExact Filter.FilterModelV Filter.FilterV.
Local Open Scope string_scope.

Definition default33 : cfg := mkCfg false 33 100 true.     (* the default configuration of DeepDiff *)

(* ---- G1: positive threshold, a shortcut flip BELOW an excluded position: [stable] fails, [xguard] holds ---- *)
Definition g1_t1 := VDict [(ks "k", VDict [(ks "a", vi 1); (ks "b", vi 2)]); (ks "z", vi 1); (ks "w", vi 3)].
Definition g1_t2 := VDict [(ks "k", VDict [(ks "a", vi 1); (ks "x", vi 2); (ks "y", vi 3)]); (ks "z", vi 2); (ks "w", vi 3)].
Definition g1_ex := [s2p "root['k']"; s2p "root['k']['y']"].

Example xguard_below_excluded_example :
  let EX := add_root_to_paths g1_ex in
  stable (excl_this EX) positional33 g1_t1 g1_t2 [] = false /\
  xguard (excluded no_skip g1_ex) (excl_this EX) positional33 g1_t1 g1_t2 = true /\
  wf g1_t1 = true /\ wf g1_t2 = true /\
  map (fun e => (ekind e, ep1 e)) (fst (run_filtered h0 u0 o0 no_skip g1_ex [] positional33 g1_t1 g1_t2)) =
    [(KValue, [PKey (ks "z")])].
Proof. vm_compute. repeat split; reflexivity. Qed.

(* ---- G2: default alignment mode, an excluded path ENDING IN AN INDEX of a sequence that holds a container:
        [idx_closed] fails, [xguard] holds (the sequence is compared pairwise in both modes) ---- *)
Definition g2_t1 := VList [VDict [(ks "a", vi 1)]; vi 2; vi 3].
Definition g2_t2 := VList [VDict [(ks "a", vi 2)]; vi 3; vi 4].
Definition g2_ex := [s2p "root[1]"].

Example xguard_default_index_example :
  excluded no_skip g2_ex [PIdx 1] = true /\
  xguard (excluded no_skip g2_ex) (excl_this (add_root_to_paths g2_ex)) default33 g2_t1 g2_t2 = true /\
  wf g2_t1 = true /\ wf g2_t2 = true /\
  map (fun e => (ekind e, ep1 e)) (fst (run_filtered h0 u0 w2_ops no_skip g2_ex [] default33 g2_t1 g2_t2)) =
    [(KValue, [PIdx 0; PKey (ks "a")]); (KValue, [PIdx 2])].
Proof. vm_compute. repeat split; reflexivity. Qed.

(* ... and it fails where it must: the K13a witness, and an excluded index of an all-atom sequence *)
Example xguard_fails_example :
  xguard (excluded no_skip w1_ex) (excl_this (add_root_to_paths w1_ex)) positional33 w1_t1 w1_t2 = false /\
  xguard (excluded no_skip w2_ex) (excl_this (add_root_to_paths w2_ex)) default0 w2_t1 w2_t2 = false.
Proof. vm_compute. split; reflexivity. Qed.

(* ---- G3: include_paths through a list index, default mode, default threshold ---- *)
Definition g3_Q : list path := [[PKey (ks "a"); PIdx 0; PKey (ks "b")]].
Definition g3_t1 := VDict [(ks "a", VList [VDict [(ks "b", vi 1); (ks "c", vi 2)]; vi 7]); (ks "z", vi 1)].
Definition g3_t2 := VDict [(ks "a", VList [VDict [(ks "b", vi 2); (ks "c", vi 3)]; vi 8]); (ks "z", vi 2)].

Example iguard_example :
  iguard g3_Q default33 g3_t1 g3_t2 = true /\ forallb qkey (hd [] g3_Q) = true /\ forallb nodigit_key (hd [] g3_Q) = true /\
  keys_all ok_atom g3_t1 = true /\ keys_all ok_atom g3_t2 = true /\ wf g3_t2 = true /\
  map (fun e => (ekind e, ep1 e)) (fst (run_filtered h0 u0 o0 no_skip [] (map render g3_Q) default33 g3_t1 g3_t2)) =
    [(KValue, [PKey (ks "a"); PIdx 0; PKey (ks "b")])] /\
  List.length (fst (run_diff h0 u0 o0 no_skip no_skip default33 g3_t1 g3_t2)) = 4.
Proof. vm_compute. repeat split; reflexivity. Qed.

(* include_paths at a positive threshold where the guard fails: the key filter shrinks both key sets
   (K13a for include_paths): {'a':1,'b':2,'c':3} -> {'a':2,'x':2,'y':3}, include root['a'] *)
Definition g4_Q : list path := [[PKey (ks "a")]].
Definition g4_t1 := VDict [(ks "a", vi 1); (ks "b", vi 2); (ks "c", vi 3)].
Definition g4_t2 := VDict [(ks "a", vi 2); (ks "x", vi 2); (ks "y", vi 3)].
Lemma include_threshold_refuted :
  iguard g4_Q positional33 g4_t1 g4_t2 = false /\
  map (fun e => (ekind e, ep1 e)) (fst (run_filtered h0 u0 o0 no_skip [] (map render g4_Q) positional33 g4_t1 g4_t2)) =
    [(KValue, [PKey (ks "a")])] /\
  map (fun e => (ekind e, ep1 e)) (fst (run_diff h0 u0 o0 no_skip no_skip positional33 g4_t1 g4_t2)) = [(KValue, [])].
Proof. vm_compute. repeat split; reflexivity. Qed.

(* ---- V1: include_paths shadow exclude_types (K13d in general): {'a':{'b':1,'c':'x'}} -> {'a':{'b':2,'c':'y'}},
        include_paths=["root['a']"], exclude_types=[int]: the int at root['a']['b'] is reported ---- *)
Definition v1_t1 := VDict [(ks "a", VDict [(ks "b", vi 1); (ks "c", VAtom (ks "x"))])].
Definition v1_t2 := VDict [(ks "a", VDict [(ks "b", vi 2); (ks "c", VAtom (ks "y"))])].
Definition v1_inc := [s2p "root['a']"].
Definition no_rxh (_ : path) (_ : nat) : bool := false.
Definition v1_e : entry :=
  mkEntry KValue [PKey (ks "a"); PKey (ks "b")] [PKey (ks "a"); PKey (ks "b")] (Some (vi 1)) (Some (vi 2)) None.
Lemma include_shadows_types_witness :
  map (fun e => (ekind e, ep1 e))
      (fst (run_full h0 u0 o0 no_skip no_rxh [] v1_inc [TInt] no_cb no_cb None None positional0 v1_t1 v1_t2)) =
    [(KValue, [PKey (ks "a"); PKey (ks "b")]); (KValue, [PKey (ks "a"); PKey (ks "c")])] /\
  map (fun e => (ekind e, ep1 e))
      (fst (run_full h0 u0 o0 no_skip no_rxh [] [] [TInt] no_cb no_cb None None positional0 v1_t1 v1_t2)) =
    [(KValue, [PKey (ks "a"); PKey (ks "c")])].
Proof. vm_compute. split; reflexivity. Qed.

(* ---- V2: an include_obj_callback overwrites the literal exclude_paths verdict: {'a':1,'b':'s'} -> {'a':2,'b':'t'},
        exclude_paths=["root['a']"], include_obj_callback = "is an int": root['a'] is reported ---- *)
Definition v2_t1 := VDict [(ks "a", vi 1); (ks "b", VAtom (ks "s"))].
Definition v2_t2 := VDict [(ks "a", vi 2); (ks "b", VAtom (ks "t"))].
Definition v2_cb (v : value) : bool := match v with VAtom (AInt _) => true | _ => false end.
Lemma include_callback_overrides_exclude_witness :
  map (fun e => (ekind e, ep1 e))
      (fst (run_full h0 u0 o0 no_skip no_rxh [s2p "root['a']"] [] [] no_cb no_cb (Some v2_cb) None positional0 v2_t1 v2_t2)) =
    [(KValue, [PKey (ks "a")])].
Proof. vm_compute. reflexivity. Qed.

(* ---- V3: default alignment mode, exclude_types=[int] on [1,'a'] -> ['a','b']: the unrestricted run keeps the
        pairwise pass (type_changes root[0], values_changed root[1]); with the int entries gone the difflib pass has one
        entry left and is kept: iterable_item_added root[1] - an object-dependent exclusion is NOT a pure filter in the
        default mode (positional mode: values_changed root[1], as C13_value_exclusion_is_path_exclusion says) ---- *)
Definition v3_t1 := VList [vi 1; VAtom (ks "a")].
Definition v3_t2 := VList [VAtom (ks "a"); VAtom (ks "b")].
(* difflib.SequenceMatcher([1,'a'],['a','b']).get_opcodes() *)
Definition v3_ops (_ : path) (_ _ : list value) : list opcode :=
  [mkOp ODelete 0 1 0 0; mkOp OEqual 1 2 0 1; mkOp OInsert 2 2 1 2].
Lemma value_exclusion_default_refuted :
  map (fun e => (ekind e, ep1 e))
      (fst (run_full h0 u0 v3_ops no_skip no_rxh [] [] [TInt] no_cb no_cb None None default0 v3_t1 v3_t2)) =
    [(KIterAdd, [PIdx 1])] /\
  map (fun e => (ekind e, ep1 e))
      (fst (run_full h0 u0 v3_ops no_skip no_rxh [] [] [] no_cb no_cb None None default0 v3_t1 v3_t2)) =
    [(KType, [PIdx 0]); (KValue, [PIdx 1])] /\
  map (fun e => (ekind e, ep1 e))
      (fst (run_full h0 u0 v3_ops no_skip no_rxh [] [] [TInt] no_cb no_cb None None positional0 v3_t1 v3_t2)) =
    [(KValue, [PIdx 1])].
Proof. vm_compute. repeat split; reflexivity. Qed.

(** C13 - the object-dependent exclusions on inputs WITH sets (positional mode).  A set item has no position of its
    own: its level carries the path of the set and the objects (item, notpresent) / (notpresent, item).  So the run with an
    object-dependent skip test SK is the run with the path predicate [trace SK t1 t2] (Filter/FilterVPath.v) MINUS the
    set-item entries whose own level SK rejects:

        fst (run_diffv SK ..) = filter (set_item_ok SK) (fst (run_diffh (trace SK t1 t2) ..))

    ([value_exclusion_with_sets]; [setfree] is no longer needed; the DeepHash side of exclude_paths /
    exclude_regex_paths on set members, [hit], is the same on both sides). *)
From Coq Require Import List ZArith NArith Bool Arith Lia.
Import ListNotations.
From DD Require Import Base.PyStr Base.Value Base.ValueFacts Diff.Tree Diff.DiffModel Diff.DiffFacts
  Path.PathModel Filter.FilterModel Filter.FilterModelV Filter.FilterFacts Filter.FilterProofs Filter.FilterExclude
  Filter.FilterHash Filter.FilterV Filter.FilterVPath.

Definition set_item_ok (SK : vskip) (e : entry) : bool :=
  match ekind e with
  | KSetAdd | KSetRem => negb (SK (ep1 e) (et1 e) (et2 e))
  | _ => true
  end.
Definition nonset (k : rkind) : bool := match k with KSetAdd | KSetRem => false | _ => true end.
Definition mapf (f : list entry -> list entry) (r : RT) : RT := (f (fst r), snd r).

Section VSets.
Variable hatom : atom -> pystr.
Variable udiff : pystr -> pystr -> pystr.
Variable ops : path -> list value -> list value -> list opcode.
Variable SK : vskip.
Variable excl : path -> bool.
Variable hit : path -> nat -> bool.
Variable c : cfg.
Hypothesis Hzip : zip c = true.
Notation dV := (diffv hatom udiff ops SK excl no_kf hit c).
Notation dH := (fun Pp => diffh hatom udiff ops Pp excl no_kf hit c).
Notation ok := (set_item_ok SK).
Notation F := (mapf (filter ok)).

Lemma keep_nonset es : (forall e, In e es -> nonset (ekind e) = true) -> filter ok es = es.
Proof.
  intros H. apply filter_all. intros e He. specialize (H e He). unfold set_item_ok. destruct (ekind e); try reflexivity; discriminate H.
Qed.
Lemma report_kind Pp k p1 p2 a b d e : In e (report Pp k p1 p2 a b d) -> ekind e = k.
Proof. unfold report. destruct (Pp p1); [intros []|]. intros [<-|[]]. reflexivity. Qed.
Lemma keep_report Pp k p1 p2 a b d : nonset k = true -> filter ok (report Pp k p1 p2 a b d) = report Pp k p1 p2 a b d.
Proof. intros N. apply keep_nonset. intros e He. rewrite (report_kind _ _ _ _ _ _ _ _ He). exact N. Qed.
Lemma keep_added_from Pp ys : forall j p1 p2, filter ok (added_from Pp ys j p1 p2) = added_from Pp ys j p1 p2.
Proof. induction ys as [|y ys IH]; intros j p1 p2; cbn [added_from]; [reflexivity|]. rewrite filter_app, IH, keep_report; reflexivity. Qed.
Lemma keep_removed_from Pp xs : forall j p1 p2, filter ok (removed_from Pp xs j p1 p2) = removed_from Pp xs j p1 p2.
Proof. induction xs as [|x xs IH]; intros j p1 p2; cbn [removed_from]; [reflexivity|]. rewrite filter_app, IH, keep_report; reflexivity. Qed.
Lemma keep_diff_atom Pp a b p1 p2 : filter ok (diff_atom udiff Pp a b p1 p2) = diff_atom udiff Pp a b p1 p2.
Proof.
  apply keep_nonset. intros e He. unfold diff_atom in He. destruct (Pp p1); [destruct He|].
  destruct (negb (ty_eqb (atom_ty a) (atom_ty b))); [rewrite (report_kind _ _ _ _ _ _ _ _ He); reflexivity|].
  destruct a, b; try (destruct (py_eq _ _); [destruct He|rewrite (report_kind _ _ _ _ _ _ _ _ He); reflexivity]);
    match type of He with context [diff_str udiff ?f ?s ?t] => destruct (diff_str udiff f s t) as [ch d] end;
    (destruct ch; [rewrite (report_kind _ _ _ _ _ _ _ _ He); reflexivity|destruct He]).
Qed.
Lemma keep_added_x Pp k1 k2 kvs2 p1 p2 : filter ok (added_x Pp k1 k2 kvs2 p1 p2) = added_x Pp k1 k2 kvs2 p1 p2.
Proof.
  apply keep_nonset. intros e He. unfold added_x in He. apply in_flat_map in He as (k & _ & He).
  destruct (mem_atom k k1); [destruct He|]. rewrite (report_kind _ _ _ _ _ _ _ _ He). reflexivity.
Qed.
Lemma keep_removed_x Pp k1 k2 kvs1 p1 p2 : filter ok (removed_x Pp k1 k2 kvs1 p1 p2) = removed_x Pp k1 k2 kvs1 p1 p2.
Proof.
  apply keep_nonset. intros e He. unfold removed_x in He. apply in_flat_map in He as (k & _ & He).
  destruct (mem_atom k k2); [destruct He|]. rewrite (report_kind _ _ _ _ _ _ _ _ He). reflexivity.
Qed.
Lemma F_app2 a b : F (app2 a b) = app2 (F a) (F b).
Proof. unfold mapf, app2. cbn [fst snd]. rewrite filter_app. reflexivity. Qed.

(* sets: the level is reached (Pp p = false); each item is judged by SK on its own objects *)
Lemma set_sim Pp h xs ys p p2 : Pp p = false ->
  diff_set_hv hatom SK h xs ys p p2 = filter ok (diff_set_h hatom Pp h xs ys p p2).
Proof.
  intros E0. unfold diff_set_hv, diff_set_h.
  destruct (members_kept h [] xs 0) as [xs' m]. destruct (members_kept h m ys 0) as [ys' m'].
  unfold diff_setv, diff_set. rewrite filter_app, !filter_flat_map. f_equal; apply flat_map_ext; intros a;
    destruct (existsb _ _); try reflexivity; unfold report_setv, report_set; rewrite E0; cbn [filter];
    unfold set_item_ok; cbn [ekind ep1 et1 et2]; destruct (SK p _ _); reflexivity.
Qed.

Definition Sim2 (t1 : value) : Prop := forall t2 p p2 (Pp : path -> bool),
  wf t1 = true -> wf t2 = true ->
  (forall q, Pp (p ++ q) = SK (p ++ q) (sub t1 q) (sub t2 q)) ->
  dV t1 t2 p p2 = F (dH Pp t1 t2 p p2).

Lemma list_sim2 Pp p p2 xs : Forall Sim2 xs ->
  forall ys i, forallb wf xs = true -> forallb wf ys = true -> InvL SK Pp p xs ys i ->
  gov_list SK dV p p2 xs ys i = F (gox_list Pp (dH Pp) p p2 xs ys i).
Proof.
  induction 1 as [|x xs Hx _ IH]; intros ys i W1 W2 H.
  - cbn [gov_list gox_list]. unfold mapf. cbn [fst snd]. rewrite keep_added_from, (added_fromv_sim SK Pp p p2 ys i H). reflexivity.
  - destruct ys as [|y ys].
    + cbn [gov_list gox_list]. unfold mapf. cbn [fst snd].
      rewrite (keep_removed_from Pp (x :: xs)), (removed_fromv_sim SK Pp p p2 (x :: xs) i H). reflexivity.
    + cbn [gov_list gox_list]. cbn [forallb] in W1, W2.
      apply andb_true_iff in W1 as [Wx W1]. apply andb_true_iff in W2 as [Wy W2].
      rewrite F_app2, (IH ys (S i) W1 W2 (InvL_tail _ _ _ _ _ _ _ _ H)). f_equal.
      apply Hx; try assumption. intros q. specialize (H 0 q). rewrite Nat.add_0_r in H. cbn in H.
      unfold snoc. rewrite <- app_assoc. exact H.
Qed.

Lemma common_sim2 Pp p p2 kvs1 kvs2 l :
  nodup_atoms (map fst kvs1) = true -> (forall kv, In kv l -> In kv kvs1) ->
  forallb (fun kv => wf (snd kv)) kvs2 = true ->
  Forall (fun kv => Sim2 (snd kv)) l -> forallb (fun kv => wf (snd kv)) l = true ->
  (forall k q, Pp (p ++ PKey k :: q) = SK (p ++ PKey k :: q) (osub (assoc k kvs1) q) (osub (assoc k kvs2) q)) ->
  gox_common no_kf c dV kvs2 (keys_of c kvs2) p p2 l = F (gox_common no_kf c (dH Pp) kvs2 (keys_of c kvs2) p p2 l).
Proof.
  intros N Sub W2 Fa. induction Fa as [|[k v1] l Hx _ IH]; intros W1 H; [reflexivity|].
  cbn [forallb snd] in W1. apply andb_true_iff in W1 as [Wv W1].
  cbn [gox_common]. pose proof (IH (fun kv Hkv => Sub kv (or_intror Hkv)) W1 H) as IH'. cbn [snd] in Hx.
  destruct (keep_key c k && negb (no_kf p k)); [|exact IH'].
  destruct (find (py_eq k) (keys_of c kvs2)) as [k'|] eqn:Fd; [|exact IH'].
  destruct (assoc k' kvs2) as [v2|] eqn:A; [|exact IH'].
  rewrite F_app2, IH'. f_equal.
  destruct (find_in _ _ _ Fd) as [_ Pk].
  pose proof (assoc_of_in kvs1 k v1 k' N (Sub _ (or_introl eq_refl)) Pk) as A1.
  assert (Wv2 : wf v2 = true).
  { apply assoc_In in A as (k0 & Hin & _). rewrite forallb_forall in W2. apply (W2 _ Hin). }
  apply Hx; try assumption. intros q. specialize (H k' q). rewrite A1, A in H. cbn [osub] in H.
  unfold snoc. rewrite <- app_assoc. exact H.
Qed.

Theorem sim2_all t1 : Sim2 t1.
Proof.
  induction t1 as [a|xs IH|xs IH|kvs IH|xs|xs] using value_ind'; intros t2 p p2 Pp W1 W2 H;
    rewrite diffv_eq, diffh_eq;
    (assert (H0 : Pp p = SK p (Some _) (Some t2)) by (specialize (H []); rewrite app_nil_r in H; exact H));
    rewrite <- H0; (destruct (Pp p) eqn:E0; [reflexivity|]);
    (assert (R0 : forall k d, nonset k = true ->
        (reportv SK k p p2 (Some _) (Some t2) d, @nil path) = F (report Pp k p p2 (Some _) (Some t2) d, []))
       by (intros k d N; unfold mapf; cbn [fst snd]; rewrite (keep_report Pp k p p2 _ _ d N);
           unfold reportv, report; rewrite <- H0, E0; reflexivity));
    (destruct (negb (ty_eqb (type_of _) (type_of t2))); [apply R0; reflexivity|]);
    destruct t2 as [b|ys|ys|kvs2|ys|ys]; try reflexivity.
  - (* atoms *)
    unfold mapf. cbn [fst snd]. rewrite keep_diff_atom. f_equal. unfold diff_atomv, diff_atom. rewrite <- H0, E0.
    assert (R1 : forall k d, reportv SK k p p2 (Some (VAtom a)) (Some (VAtom b)) d = report Pp k p p2 (Some (VAtom a)) (Some (VAtom b)) d)
      by (intros k d; unfold reportv, report; rewrite <- H0, E0; reflexivity).
    destruct (negb (ty_eqb (atom_ty a) (atom_ty b))); [apply R1|].
    destruct a, b; try (destruct (py_eq _ _); [reflexivity|apply R1]);
      match goal with |- context [diff_str udiff ?f ?s ?t] => destruct (diff_str udiff f s t) as [ch d] end;
      (destruct ch; [apply R1|reflexivity]).
  - rewrite Hzip. cbn [negb andb]. cbn [wf] in W1, W2.
    apply list_sim2; try assumption. intros j q. specialize (H (PIdx j :: q)). rewrite !sub_list in H. exact H.
  - rewrite Hzip. cbn [negb andb]. cbn [wf] in W1, W2.
    apply list_sim2; try assumption. intros j q. specialize (H (PIdx j :: q)). rewrite !sub_tuple in H. exact H.
  - cbn zeta. rewrite !keys_x_no_kf. cbn [wf] in W1, W2.
    apply andb_true_iff in W1 as [N1 W1]. apply andb_true_iff in W2 as [N2 W2].
    assert (HK : forall k q, Pp (p ++ PKey k :: q) = SK (p ++ PKey k :: q) (osub (assoc k kvs) q) (osub (assoc k kvs2) q)).
    { intros k q. specialize (H (PKey k :: q)). rewrite !sub_dict in H. exact H. }
    destruct (dict_shortcut excl c (keys_of c kvs) (keys_of c kvs2) p); [apply R0; reflexivity|].
    rewrite (common_sim2 Pp p p2 kvs kvs2 kvs N1 (fun kv Hkv => Hkv) W2 IH W1 HK).
    unfold mapf. cbn [fst snd]. rewrite !filter_app, keep_added_x, keep_removed_x. f_equal. f_equal; [|f_equal].
    + unfold added_xv, added_x. apply flat_map_ext_In. intros k Hk.
      destruct (mem_atom k (keys_of c kvs)) eqn:M; [reflexivity|]. unfold reportv, report.
      specialize (HK k []). rewrite !osub_nil in HK. unfold snoc. rewrite HK.
      assert (KK : keep_key c k = true) by (unfold keys_of in Hk; apply filter_In in Hk as [_ Hk]; exact Hk).
      rewrite (assoc_none_of_mem c k kvs KK M). reflexivity.
    + unfold removed_xv, removed_x. apply flat_map_ext_In. intros k Hk.
      destruct (mem_atom k (keys_of c kvs2)) eqn:M; [reflexivity|]. unfold reportv, report.
      specialize (HK k []). rewrite !osub_nil in HK. unfold snoc. rewrite HK.
      assert (KK : keep_key c k = true) by (unfold keys_of in Hk; apply filter_In in Hk as [_ Hk]; exact Hk).
      rewrite (assoc_none_of_mem c k kvs2 KK M). reflexivity.
  - unfold mapf. cbn [fst snd]. rewrite (set_sim Pp _ _ _ _ _ E0). reflexivity.
  - unfold mapf. cbn [fst snd]. rewrite (set_sim Pp _ _ _ _ _ E0). reflexivity.
Qed.
End VSets.

(* mutual_add_removes only touches iterable_item_added / removed: it commutes with dropping set items *)
Lemma mutual_set_item_ok SK es : mutual (filter (set_item_ok SK) es) = filter (set_item_ok SK) (mutual es).
Proof.
  rewrite !mutual_eq.
  assert (K : forall k, nonset k = true ->
            filter (is_kind k) (filter (set_item_ok SK) es) = filter (is_kind k) es).
  { intros k N. rewrite filter_comm. induction es as [|e es IH]; cbn [filter]; [reflexivity|].
    destruct (is_kind k e) eqn:Ik; cbn [filter]; [|exact IH].
    unfold is_kind in Ik. assert (Ek : ekind e = k) by (destruct (ekind e), k; try discriminate; reflexivity).
    unfold set_item_ok at 1. rewrite Ek. destruct k; try discriminate N; cbn; rewrite IH; reflexivity. }
  rewrite (K KIterAdd eq_refl), (K KIterRem eq_refl).
  apply flat_map_filter_commute; [reflexivity|].
  intros e o Ho. unfold mutual_step in Ho. unfold set_item_ok.
  destruct (ekind e) eqn:Ek;
    try (destruct Ho as [<-|[]]; rewrite Ek; reflexivity).
  - destruct (last_with_path _ _); [destruct Ho|]. destruct Ho as [<-|[]]. rewrite Ek. reflexivity.
  - destruct (last_with_path (ep1 e) (filter (is_kind KIterAdd) es)); [|destruct Ho as [<-|[]]; rewrite Ek; reflexivity].
    destruct (last_with_path (ep1 e) (filter (is_kind KIterRem) es)); destruct Ho as [<-|[]]; [reflexivity|rewrite Ek; reflexivity].
Qed.

Theorem value_exclusion_with_sets hatom udiff ops (SK : vskip) excl hit c t1 t2 :
  zip c = true -> wf t1 = true -> wf t2 = true ->
  fst (run_diffv hatom udiff ops SK excl no_kf hit c t1 t2) =
  filter (set_item_ok SK) (fst (run_diffh hatom udiff ops (trace SK t1 t2) excl no_kf hit c t1 t2)).
Proof.
  intros Z W1 W2. unfold run_diffv, run_diffh.
  rewrite (sim2_all hatom udiff ops SK excl hit c Z t1 t2 [] [] (trace SK t1 t2) W1 W2); [|intros q; reflexivity].
  destruct (diffh hatom udiff ops (trace SK t1 t2) excl no_kf hit c t1 t2 [] []) as [es rec]. unfold mapf. cbn [fst snd].
  apply mutual_set_item_ok.
Qed.

(* exclude_types=[int] on two sets: the int members are not reported, the set level is not a skipped position *)
Example set_items_example :
  let SK := skip_full no_skip [] [] [TInt] no_cb no_cb None None in
  let t1 := VSet [AInt 1; AStr [97%N]] in let t2 := VSet [AInt 2; AStr [98%N]] in
  trace SK t1 t2 [] = false /\
  map (fun e => (ekind e, et1 e, et2 e))
    (fst (run_diffv (fun a => match a with AInt z => [105%N; N.of_nat (Z.to_nat z)] | AStr s => 115%N :: s | _ => [] end)
            (fun _ _ => []) (fun _ _ _ => []) SK no_skip no_kf (fun _ _ => false) (mkCfg true 0 1 true) t1 t2)) =
    [(KSetAdd, None, Some (VAtom (AStr [98%N]))); (KSetRem, Some (VAtom (AStr [97%N])), None)].
Proof. vm_compute. split; reflexivity. Qed.

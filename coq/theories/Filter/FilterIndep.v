(** C13 - "content under an excluded path never causes or suppresses an entry
    elsewhere".  [prune P [] t] replaces every sub-value at a skipped position by
    None (the position itself stays: dict keys and list lengths are kept).  In
    positional mode, at EVERY threshold, the filtered run reports the same
    (kind, path, path) entries on the pruned inputs: nothing at or below a
    skipped position is ever looked at.  Consequently two input pairs with the
    same prunings have the same filtered result.
    (What does matter at a positive threshold is the PRESENCE of an excluded key:
    C13_exclude_independence_threshold_refuted.) *)
From Coq Require Import List ZArith NArith Bool Arith Lia.
Import ListNotations.
From DD Require Import Base.PyStr Base.Value Base.ValueFacts Diff.Tree Diff.DiffModel
  Path.PathModel Filter.FilterModel Filter.FilterFacts Filter.FilterProofs Filter.FilterExclude.

Definition proj (e : entry) : rkind * path * path := (ekind e, ep1 e, ep2 e).
Notation projs := (map proj).

(* dictionary keys that have no ==-alias of another type: no bool, no float *)
Definition key_plain (a : atom) : bool :=
  match a with ABool _ | AHalf _ => false | _ => true end.

Lemma py_eq_plain a b : key_plain a = true -> key_plain b = true -> py_eq a b = true -> a = b.
Proof.
  intros A B E. destruct a, b; cbn [key_plain] in *; try discriminate; try reflexivity;
    unfold py_eq in E; cbn -[Z.mul] in E; try discriminate.
  - apply Z.eqb_eq in E. f_equal. lia.
  - apply pystr_eqb_eq in E. congruence.
  - apply pystr_eqb_eq in E. congruence.
Qed.

(* ------------------------------------------------------------------ *)
(* prune                                                               *)
(* ------------------------------------------------------------------ *)
Fixpoint prune (del : bool) (P : path -> bool) (p : path) (t : value) {struct t} : value :=
  if P p then VAtom ANone else
  match t with
  | VList xs =>
      VList ((fix go (l : list value) (i : nat) : list value :=
                match l with [] => [] | x :: r => prune del P (snoc p (PIdx i)) x :: go r (S i) end) xs 0)
  | VTuple xs =>
      VTuple ((fix go (l : list value) (i : nat) : list value :=
                 match l with [] => [] | x :: r => prune del P (snoc p (PIdx i)) x :: go r (S i) end) xs 0)
  | VDict kvs =>
      VDict ((fix go (l : list (atom * value)) : list (atom * value) :=
                match l with
                | [] => []
                | (k, v) :: r => if del && P (snoc p (PKey k)) then go r
                                 else (k, prune del P (snoc p (PKey k)) v) :: go r
                end) kvs)
  | _ => t
  end.

Definition pl (f : path -> value -> value) (p : path) :=
  fix go (l : list value) (i : nat) : list value :=
    match l with [] => [] | x :: r => f (snoc p (PIdx i)) x :: go r (S i) end.
Definition pd (del : bool) (P : path -> bool) (f : path -> value -> value) (p : path) :=
  fix go (l : list (atom * value)) : list (atom * value) :=
    match l with
    | [] => []
    | (k, v) :: r => if del && P (snoc p (PKey k)) then go r else (k, f (snoc p (PKey k)) v) :: go r
    end.

Section Prune.
Variable del : bool.
Variable P : path -> bool.
Notation prune := (prune del P).
Definition dropped (p : path) (k : atom) : bool := del && P (snoc p (PKey k)).

Lemma prune_skip p t : P p = true -> prune p t = VAtom ANone.
Proof. intros H. destruct t; cbn; rewrite H; reflexivity. Qed.
Lemma prune_atom p a : P p = false -> prune p (VAtom a) = VAtom a.
Proof. intros H. cbn. rewrite H. reflexivity. Qed.
Lemma prune_list p xs : P p = false -> prune p (VList xs) = VList (pl prune p xs 0).
Proof. intros H. cbn. rewrite H. reflexivity. Qed.
Lemma prune_tuple p xs : P p = false -> prune p (VTuple xs) = VTuple (pl prune p xs 0).
Proof. intros H. cbn. rewrite H. reflexivity. Qed.
Lemma prune_dict p kvs : P p = false -> prune p (VDict kvs) = VDict (pd del P prune p kvs).
Proof. intros H. cbn. rewrite H. reflexivity. Qed.
Lemma prune_set p xs : P p = false -> prune p (VSet xs) = VSet xs.
Proof. intros H. cbn. rewrite H. reflexivity. Qed.
Lemma prune_frozen p xs : P p = false -> prune p (VFrozen xs) = VFrozen xs.
Proof. intros H. cbn. rewrite H. reflexivity. Qed.

Lemma prune_type p t : P p = false -> type_of (prune p t) = type_of t.
Proof. intros H. destruct t; cbn; rewrite H; reflexivity. Qed.

Lemma prune_is_atom p t : P p = false -> is_atom (prune p t) = is_atom t.
Proof. intros H. destruct t; cbn; rewrite H; reflexivity. Qed.

Lemma pl_length f p l : forall i, length (pl f p l i) = length l.
Proof. induction l as [|x l IH]; intros i; cbn; [reflexivity|]. rewrite IH. reflexivity. Qed.

(* a list of atoms none of whose positions is skipped is left alone *)
Lemma pl_atoms p l : (forall i, P (snoc p (PIdx i)) = false) -> forallb is_atom l = true ->
  forall i, pl prune p l i = l.
Proof.
  intros F. induction l as [|x l IH]; intros A i; cbn; [reflexivity|]. cbn in A. apply andb_true_iff in A as [Ax A].
  rewrite (IH A). destruct x; try discriminate. rewrite prune_atom by apply F. reflexivity.
Qed.
Lemma pl_is_atom p l : (forall i, P (snoc p (PIdx i)) = false) ->
  forall i, forallb is_atom (pl prune p l i) = forallb is_atom l.
Proof.
  intros F. induction l as [|x l IH]; intros i; cbn; [reflexivity|]. rewrite IH, prune_is_atom by apply F. reflexivity.
Qed.

Lemma pd_keys f p l : map fst (pd del P f p l) = filter (fun k => negb (dropped p k)) (map fst l).
Proof.
  induction l as [|[k v] l IH]; cbn; [reflexivity|]. unfold dropped at 1.
  destruct (del && P (snoc p (PKey k))); cbn; rewrite IH; reflexivity.
Qed.

Lemma keys_of_pd c f p l :
  keys_of c (pd del P f p l) = filter (fun k => negb (dropped p k)) (keys_of c l).
Proof. unfold keys_of. rewrite pd_keys. apply filter_comm. Qed.

Lemma assoc_pd f p k l :
  key_plain k = true -> forallb (fun kv => key_plain (fst kv)) l = true -> dropped p k = false ->
  assoc k (pd del P f p l) = option_map (f (snoc p (PKey k))) (assoc k l).
Proof.
  intros Hk. induction l as [|[k0 v] l IH]; cbn; [reflexivity|]. intros H D.
  apply andb_true_iff in H as [H0 H]. destruct (py_eq k0 k) eqn:E.
  - apply (py_eq_plain k0 k H0 Hk) in E. subst k0. unfold dropped in D. rewrite D. cbn. rewrite py_eq_refl. reflexivity.
  - destruct (del && P (snoc p (PKey k0))); [apply IH; assumption|]. cbn. rewrite E. apply IH; assumption.
Qed.
End Prune.

(* ------------------------------------------------------------------ *)
(* projections of the leaf functions do not depend on the values        *)
(* ------------------------------------------------------------------ *)
Section Proj.
Variable sk : path -> bool.

Lemma projs_report k p1 p2 a b d a' b' d' :
  projs (report sk k p1 p2 a b d) = projs (report sk k p1 p2 a' b' d').
Proof. unfold report. destruct (sk p1); reflexivity. Qed.

Lemma projs_added_from ys : forall ys' j p1 p2, length ys = length ys' ->
  projs (added_from sk ys j p1 p2) = projs (added_from sk ys' j p1 p2).
Proof.
  induction ys as [|y ys IH]; intros [|y' ys'] j p1 p2 L; try discriminate; [reflexivity|].
  cbn [added_from]. rewrite !map_app. f_equal; [apply projs_report|]. apply IH. cbn in L. lia.
Qed.

Lemma projs_removed_from xs : forall xs' j p1 p2, length xs = length xs' ->
  projs (removed_from sk xs j p1 p2) = projs (removed_from sk xs' j p1 p2).
Proof.
  induction xs as [|x xs IH]; intros [|x' xs'] j p1 p2 L; try discriminate; [reflexivity|].
  cbn [removed_from]. rewrite !map_app. f_equal; [apply projs_report|]. apply IH. cbn in L. lia.
Qed.

Lemma projs_added_x k1 k2 kvs kvs' p1 p2 :
  projs (added_x sk k1 k2 kvs p1 p2) = projs (added_x sk k1 k2 kvs' p1 p2).
Proof.
  unfold added_x. induction k2 as [|k k2 IH]; cbn [flat_map]; [reflexivity|].
  rewrite !map_app, IH. f_equal. destruct (mem_atom k k1); [reflexivity|apply projs_report].
Qed.

Lemma projs_removed_x k1 k2 kvs kvs' p1 p2 :
  projs (removed_x sk k1 k2 kvs p1 p2) = projs (removed_x sk k1 k2 kvs' p1 p2).
Proof.
  unfold removed_x. induction k1 as [|k k1 IH]; cbn [flat_map]; [reflexivity|].
  rewrite !map_app, IH. f_equal. destruct (mem_atom k k2); [reflexivity|apply projs_report].
Qed.
End Proj.

(* ------------------------------------------------------------------ *)
(* mutual_add_removes on projections                                   *)
(* ------------------------------------------------------------------ *)
Definition pkind (x : rkind * path * path) : rkind := fst (fst x).
Definition pp1 (x : rkind * path * path) : path := snd (fst x).

Definition has_path (p : path) (l : list (rkind * path * path)) : bool :=
  existsb (fun x => path_eqb (pp1 x) p) l.

Definition stepp (PA PR : list (rkind * path * path)) (x : rkind * path * path) : list (rkind * path * path) :=
  match pkind x with
  | KIterRem => if has_path (pp1 x) PA
                then (if has_path (pp1 x) PR then [(KValue, pp1 x, snd x)] else [x])
                else [x]
  | KIterAdd => if has_path (pp1 x) PR then [] else [x]
  | _ => [x]
  end.

Definition mutualp (xs : list (rkind * path * path)) : list (rkind * path * path) :=
  flat_map (stepp (filter (fun x => rkind_eqb (pkind x) KIterAdd) xs)
                  (filter (fun x => rkind_eqb (pkind x) KIterRem) xs)) xs.

Lemma last_with_path_some p l :
  (exists e, last_with_path p l = Some e) <-> existsb (fun e => path_eqb (ep1 e) p) l = true.
Proof.
  unfold last_with_path.
  assert (G : forall acc, (exists e, fold_left (fun acc e => if path_eqb (ep1 e) p then Some e else acc) l acc = Some e) <->
                          (existsb (fun e => path_eqb (ep1 e) p) l = true \/ exists e, acc = Some e)).
  { induction l as [|x l IH]; intros acc; cbn.
    - split; [intros H; right; exact H|intros [H|H]; [discriminate|exact H]].
    - rewrite IH. destruct (path_eqb (ep1 x) p); cbn.
      + split; [intros _; left; reflexivity|intros _; right; eauto].
      + reflexivity. }
  rewrite G. split; [intros [H|[e H]]; [exact H|discriminate]|intros H; left; exact H].
Qed.

Lemma lwp_dec p l :
  match last_with_path p l with Some _ => true | None => false end =
  existsb (fun e => path_eqb (ep1 e) p) l.
Proof.
  destruct (last_with_path p l) eqn:L.
  - symmetry. apply last_with_path_some. eauto.
  - destruct (existsb _ l) eqn:X; [|reflexivity]. apply last_with_path_some in X as [e X]. congruence.
Qed.

Lemma has_path_projs p l : has_path p (projs l) = existsb (fun e => path_eqb (ep1 e) p) l.
Proof. unfold has_path. induction l as [|e l IH]; cbn; [reflexivity|]. rewrite IH. reflexivity. Qed.

Lemma filter_projs k l :
  filter (fun x => rkind_eqb (pkind x) k) (projs l) = projs (filter (is_kind k) l).
Proof.
  induction l as [|e l IH]; cbn [map filter]; [reflexivity|].
  change (rkind_eqb (pkind (proj e)) k) with (is_kind k e).
  destruct (is_kind k e); cbn [map]; rewrite IH; reflexivity.
Qed.

Lemma projs_step A Rm e : projs (mutual_step A Rm e) = stepp (projs A) (projs Rm) (proj e).
Proof.
  unfold mutual_step, stepp, pkind, pp1. cbn [proj fst snd]. rewrite !has_path_projs, <- !lwp_dec.
  destruct (ekind e); try reflexivity.
  - destruct (last_with_path (ep1 e) Rm); reflexivity.
  - destruct (last_with_path (ep1 e) A); [|reflexivity]. destruct (last_with_path (ep1 e) Rm); reflexivity.
Qed.

Lemma projs_mutual es : projs (mutual es) = mutualp (projs es).
Proof.
  rewrite mutual_eq. unfold mutualp. rewrite !filter_projs.
  generalize (filter (is_kind KIterAdd) es) as A. generalize (filter (is_kind KIterRem) es) as Rm. intros Rm A.
  induction es as [|e es IH]; [reflexivity|]. cbn [flat_map map]. rewrite map_app, IH, projs_step. reflexivity.
Qed.

(* ------------------------------------------------------------------ *)
(* the filtered run never looks under a skipped position               *)
(* ------------------------------------------------------------------ *)
Section Indep.
Variable hatom : atom -> pystr.
Variable udiff : pystr -> pystr -> pystr.
Variable ops : path -> list value -> list value -> list opcode.
Variable P E : path -> bool.
Variable c : cfg.
Variable del : bool.
Hypothesis Hmode : zip c = true \/ idx_closed P.
Hypothesis Hdel : del = false \/ thr_num c = 0.
Notation dX := (diffx hatom udiff ops P E no_kf c).
Notation kp := (keys_all key_plain).
Notation prune := (prune del P).

(* the level is skipped itself, or no ancestor is *)
Definition live (p : path) : Prop := P p = true \/ not_under P p = true.

Lemma live_child p k : not_under P p = true -> live (snoc p k).
Proof.
  intros H. unfold live. rewrite not_under_snoc, H. destruct (P (snoc p k)); [left|right]; reflexivity.
Qed.

Definition Ind (t1 : value) : Prop := forall t2 p1 p2, live p1 -> kp t1 = true -> kp t2 = true ->
  projs (fst (dX t1 t2 p1 p2)) = projs (fst (dX (prune p1 t1) (prune p1 t2) p1 p2)).

Lemma ind_skipped t1 t2 p1 p2 : P p1 = true ->
  projs (fst (dX t1 t2 p1 p2)) = projs (fst (dX (prune p1 t1) (prune p1 t2) p1 p2)).
Proof. intros H. rewrite !diffx_skip by exact H. reflexivity. Qed.

Lemma list_ind p1 p2 xs : not_under P p1 = true -> Forall Ind xs ->
  forall ys i, forallb kp xs = true -> forallb kp ys = true ->
  projs (fst (gox_list P dX p1 p2 xs ys i)) =
  projs (fst (gox_list P dX p1 p2 (pl prune p1 xs i) (pl prune p1 ys i) i)).
Proof.
  intros NU. induction 1 as [|x xs Hx _ IH]; intros ys i K1 K2.
  - cbn [pl gox_list fst]. apply projs_added_from. rewrite pl_length. reflexivity.
  - destruct ys as [|y ys].
    + cbn [pl gox_list fst]. apply (projs_removed_from P (x :: xs) (prune (snoc p1 (PIdx i)) x :: pl prune p1 xs (S i))).
      cbn. rewrite pl_length. reflexivity.
    + cbn [pl gox_list]. unfold app2. cbn [fst]. rewrite !map_app.
      cbn [forallb] in K1, K2. apply andb_true_iff in K1 as [Kx K1]. apply andb_true_iff in K2 as [Ky K2].
      f_equal; [apply Hx; [apply live_child; exact NU|assumption|assumption]|apply IH; assumption].
Qed.

Lemma assoc_kp k kvs v : forallb (fun kv => key_plain (fst kv) && kp (snd kv)) kvs = true ->
  assoc k kvs = Some v -> kp v = true.
Proof.
  intros F A. apply assoc_In in A as (k' & Hin & _). rewrite forallb_forall in F. apply F in Hin.
  cbn in Hin. apply andb_true_iff in Hin as [_ H]. exact H.
Qed.

Lemma keys_plain_of kvs : forallb (fun kv => key_plain (fst kv) && kp (snd kv)) kvs = true ->
  forallb (fun kv => key_plain (fst kv)) kvs = true.
Proof.
  intros F. apply forallb_forall. intros x Hx. rewrite forallb_forall in F. apply F in Hx.
  apply andb_true_iff in Hx as [H _]. exact H.
Qed.

Lemma keys_of_plain kvs a : forallb (fun kv => key_plain (fst kv) && kp (snd kv)) kvs = true ->
  In a (keys_of c kvs) -> key_plain a = true.
Proof.
  intros F Ha. unfold keys_of in Ha. apply filter_In in Ha as [Ha _]. apply in_map_iff in Ha as ([k v] & <- & Hin).
  rewrite forallb_forall in F. apply F in Hin. cbn in Hin. apply andb_true_iff in Hin as [H _]. exact H.
Qed.

Notation keepk p := (fun k => negb (dropped del P p k)).

(* membership in a plain key list does not see the dropped keys of another name *)
Lemma mem_keepk p k K : key_plain k = true -> (forall a, In a K -> key_plain a = true) ->
  dropped del P p k = false -> mem_atom k (filter (keepk p) K) = mem_atom k K.
Proof.
  intros Hk HK D. unfold mem_atom. induction K as [|a K IH]; cbn; [reflexivity|].
  assert (IH' := IH (fun x Hx => HK x (or_intror Hx))).
  destruct (py_eq k a) eqn:Eq.
  - apply (py_eq_plain k a Hk (HK a (or_introl eq_refl))) in Eq. subst a. rewrite D. cbn. rewrite py_eq_refl. reflexivity.
  - destruct (negb (dropped del P p a)); cbn; [rewrite Eq|]; exact IH'.
Qed.

Lemma added_ind p1 p2 K1 K2 kvs kvs' :
  (forall a, In a K1 -> key_plain a = true) -> (forall a, In a K2 -> key_plain a = true) ->
  projs (added_x P K1 K2 kvs p1 p2) =
  projs (added_x P (filter (keepk p1) K1) (filter (keepk p1) K2) kvs' p1 p2).
Proof.
  intros H1 H2. unfold added_x. induction K2 as [|k K2 IH]; [reflexivity|].
  assert (IH' := IH (fun x Hx => H2 x (or_intror Hx))). cbn [flat_map filter]. rewrite map_app, IH'.
  destruct (dropped del P p1 k) eqn:D; cbn [negb].
  - unfold dropped in D. apply andb_true_iff in D as [_ D].
    destruct (mem_atom k K1); [reflexivity|]. unfold report. rewrite D. reflexivity.
  - cbn [flat_map]. rewrite map_app. f_equal.
    rewrite (mem_keepk p1 k K1 (H2 k (or_introl eq_refl)) H1 D). destruct (mem_atom k K1); [reflexivity|apply projs_report].
Qed.

Lemma removed_ind p1 p2 K1 K2 kvs kvs' :
  (forall a, In a K1 -> key_plain a = true) -> (forall a, In a K2 -> key_plain a = true) ->
  projs (removed_x P K1 K2 kvs p1 p2) =
  projs (removed_x P (filter (keepk p1) K1) (filter (keepk p1) K2) kvs' p1 p2).
Proof.
  intros H1 H2. unfold removed_x. induction K1 as [|k K1 IH]; [reflexivity|].
  assert (IH' := IH (fun x Hx => H1 x (or_intror Hx))). cbn [flat_map filter]. rewrite map_app, IH'.
  destruct (dropped del P p1 k) eqn:D; cbn [negb].
  - unfold dropped in D. apply andb_true_iff in D as [_ D].
    destruct (mem_atom k K2); [reflexivity|]. unfold report. rewrite D. reflexivity.
  - cbn [flat_map]. rewrite map_app. f_equal.
    rewrite (mem_keepk p1 k K2 (H1 k (or_introl eq_refl)) H2 D). destruct (mem_atom k K2); [reflexivity|apply projs_report].
Qed.

Lemma common_ind p1 p2 kvs2 l : not_under P p1 = true ->
  forallb (fun kv => key_plain (fst kv) && kp (snd kv)) kvs2 = true ->
  Forall (fun kv => Ind (snd kv)) l ->
  forallb (fun kv => key_plain (fst kv) && kp (snd kv)) l = true ->
  projs (fst (gox_common no_kf c dX kvs2 (keys_of c kvs2) p1 p2 l)) =
  projs (fst (gox_common no_kf c dX (pd del P prune p1 kvs2) (filter (keepk p1) (keys_of c kvs2)) p1 p2
                (pd del P prune p1 l))).
Proof.
  intros NU K2 F. induction F as [|[k v1] l Hx _ IH]; intros K1; [reflexivity|].
  cbn [forallb fst snd] in K1. apply andb_true_iff in K1 as [Kk K1]. apply andb_true_iff in Kk as [Kk Kv].
  specialize (IH K1). cbn [snd] in Hx. cbn [pd]. fold (dropped del P p1 k).
  destruct (dropped del P p1 k) eqn:D.
  - (* the pair is deleted on the right; on the left its level is skipped *)
    unfold dropped in D. apply andb_true_iff in D as [_ D]. cbn [gox_common].
    destruct (keep_key c k && negb (no_kf p1 k)); [|exact IH].
    destruct (find (py_eq k) (keys_of c kvs2)) as [k'|] eqn:Fd; [|exact IH].
    destruct (find_in _ _ _ Fd) as [Hin Pk].
    assert (k = k') by (apply py_eq_plain; [exact Kk|exact (keys_of_plain kvs2 k' K2 Hin)|exact Pk]). subst k'.
    destruct (assoc k kvs2) as [v2|]; [|exact IH].
    rewrite diffx_skip by exact D. unfold app2. cbn [fst app]. exact IH.
  - cbn [gox_common].
    destruct (keep_key c k && negb (no_kf p1 k)); [|exact IH].
    destruct (find (py_eq k) (keys_of c kvs2)) as [k'|] eqn:Fd.
    2:{ rewrite find_filter_none by exact Fd. exact IH. }
    destruct (find_in _ _ _ Fd) as [Hin Pk].
    assert (k = k') by (apply py_eq_plain; [exact Kk|exact (keys_of_plain kvs2 k' K2 Hin)|exact Pk]). subst k'.
    rewrite (find_filter_keep (py_eq k) (keepk p1) _ k Fd) by (rewrite D; reflexivity).
    rewrite (assoc_pd del P prune p1 k kvs2 Kk (keys_plain_of kvs2 K2) D).
    destruct (assoc k kvs2) as [v2|] eqn:A; cbn [option_map]; [|exact IH].
    unfold app2. cbn [fst]. rewrite !map_app. f_equal; [|exact IH].
    apply Hx; [apply live_child; exact NU|exact Kv|exact (assoc_kp k kvs2 v2 K2 A)].
Qed.

Theorem ind_all t1 : Ind t1.
Proof.
  induction t1 as [a|xs IH|xs IH|kvs IH|xs|xs] using value_ind'; intros t2 p1 p2 L K1 K2;
  (destruct (P p1) eqn:S; [apply ind_skipped; exact S|]);
  (assert (NU : not_under P p1 = true) by (destruct L as [L|L]; [congruence|exact L]));
  (match goal with |- projs (fst (diffx _ _ _ _ _ _ _ ?t1 _ _ _)) = _ =>
     destruct (ty_eqb (type_of t1) (type_of t2)) eqn:T end;
    [|rewrite !diffx_type by (rewrite ?prune_type by exact S; assumption); cbn [fst]; apply projs_report]);
  apply same_type_shape in T; inversion T; subst.
  - rewrite !prune_atom by exact S. reflexivity.
  - rewrite !prune_list by exact S. rewrite !diffx_list by exact S. unfold seqx_body.
    cbn [keys_all] in K1, K2.
    destruct Hmode as [Z|I].
    + rewrite Z. cbn [negb andb]. apply list_ind; assumption.
    + assert (Fr : forall i, P (snoc p1 (PIdx i)) = false) by (intros i; apply I; exact NU).
      rewrite !(pl_is_atom del P p1 _ Fr).
      destruct (negb (zip c) && forallb is_atom xs && forallb is_atom ys) eqn:D; [|apply list_ind; assumption].
      apply andb_true_iff in D as [D Ay]. apply andb_true_iff in D as [_ Ax].
      rewrite !(pl_atoms del P p1 _ Fr) by assumption. reflexivity.
  - rewrite !prune_tuple by exact S. rewrite !diffx_tuple by exact S. unfold seqx_body.
    cbn [keys_all] in K1, K2.
    destruct Hmode as [Z|I].
    + rewrite Z. cbn [negb andb]. apply list_ind; assumption.
    + assert (Fr : forall i, P (snoc p1 (PIdx i)) = false) by (intros i; apply I; exact NU).
      rewrite !(pl_is_atom del P p1 _ Fr).
      destruct (negb (zip c) && forallb is_atom xs && forallb is_atom ys) eqn:D; [|apply list_ind; assumption].
      apply andb_true_iff in D as [D Ay]. apply andb_true_iff in D as [_ Ax].
      rewrite !(pl_atoms del P p1 _ Fr) by assumption. reflexivity.
  - rewrite !prune_dict by exact S. rewrite !diffx_dict by exact S. unfold dictx_body.
    rewrite !keys_x_no_kf, !keys_of_pd. cbn [keys_all] in K1, K2.
    assert (SC : dict_shortcut E c (filter (keepk p1) (keys_of c kvs)) (filter (keepk p1) (keys_of c ys)) p1 =
                 dict_shortcut E c (keys_of c kvs) (keys_of c ys) p1).
    { destruct Hdel as [D|T0].
      - unfold dropped. rewrite D. cbn [andb negb]. rewrite !filter_true. reflexivity.
      - rewrite !shortcut_thr0 by exact T0. reflexivity. }
    rewrite SC. destruct (dict_shortcut E c (keys_of c kvs) (keys_of c ys) p1).
    + cbn [fst]. apply projs_report.
    + cbn [fst]. rewrite !map_app. f_equal; [|f_equal].
      * apply added_ind; intros a Ha; [exact (keys_of_plain kvs a K1 Ha)|exact (keys_of_plain ys a K2 Ha)].
      * apply removed_ind; intros a Ha; [exact (keys_of_plain kvs a K1 Ha)|exact (keys_of_plain ys a K2 Ha)].
      * apply common_ind; assumption.
  - rewrite !prune_set by exact S. reflexivity.
  - rewrite !prune_frozen by exact S. reflexivity.
Qed.
End Indep.

(* DeepDiff(t1, t2, <exclusion P>): positional mode, or default mode with no skipped path ending in an index;
   any threshold when keys are kept (del = false), threshold 0 when the skipped dict items are deleted *)
Theorem exclude_independent hatom udiff ops P E c del t1 t2 :
  zip c = true \/ idx_closed P -> del = false \/ thr_num c = 0 ->
  keys_all key_plain t1 = true -> keys_all key_plain t2 = true ->
  projs (fst (run_diff hatom udiff ops P E c t1 t2)) =
  projs (fst (run_diff hatom udiff ops P E c (prune del P [] t1) (prune del P [] t2))).
Proof.
  intros M D K1 K2. rewrite <- !run_diffx_no_kf. unfold run_diffx.
  assert (L : live P []) by (unfold live; rewrite not_under_nil; destruct (P []); [left|right]; reflexivity).
  pose proof (ind_all hatom udiff ops P E c del M D t1 t2 [] [] L K1 K2) as H.
  destruct (diffx hatom udiff ops P E no_kf c t1 t2 [] []) as [es rec].
  destruct (diffx hatom udiff ops P E no_kf c (prune del P [] t1) (prune del P [] t2) [] []) as [es' rec'].
  cbn [fst] in *. rewrite !projs_mutual, H. reflexivity.
Qed.

Corollary exclude_agree hatom udiff ops P E c del t1 t2 t1' t2' :
  zip c = true \/ idx_closed P -> del = false \/ thr_num c = 0 ->
  keys_all key_plain t1 = true -> keys_all key_plain t2 = true ->
  keys_all key_plain t1' = true -> keys_all key_plain t2' = true ->
  prune del P [] t1 = prune del P [] t1' -> prune del P [] t2 = prune del P [] t2' ->
  projs (fst (run_diff hatom udiff ops P E c t1 t2)) = projs (fst (run_diff hatom udiff ops P E c t1' t2')).
Proof.
  intros M D K1 K2 K1' K2' E1 E2.
  rewrite (exclude_independent hatom udiff ops P E c del t1 t2 M D K1 K2).
  rewrite (exclude_independent hatom udiff ops P E c del t1' t2' M D K1' K2'). rewrite E1, E2. reflexivity.
Qed.

(* ---- the guard key_plain cannot be dropped: 1 == True is one dictionary key, the level path takes
        the spelling of t2, so exclude_paths=['root[1]'] does not cover the content of t1 under its key 1 ---- *)
Definition w8_h (_ : atom) : pystr := [].
Definition w8_u (_ _ : pystr) : pystr := [].
Definition w8_o (_ : path) (_ _ : list value) : list opcode := [].
Definition w8_x : atom := AStr [120%N].
Definition w8_P (p : path) : bool := path_eqb p [PKey (AInt 1)].
Definition w8_t1 := VDict [(AInt 1, VDict [(w8_x, VAtom (AInt 1))])].
Definition w8_t1' := VDict [(AInt 1, VAtom (AInt 7))].
Definition w8_t2 := VDict [(ABool true, VDict [(w8_x, VAtom (AInt 2))])].
Definition w8_c : cfg := mkCfg true 0 1 true.

Lemma exclude_independent_alias_refuted :
  prune false w8_P [] w8_t1 = prune false w8_P [] w8_t1' /\
  projs (fst (run_diff w8_h w8_u w8_o w8_P no_skip w8_c w8_t1 w8_t2)) = [(KValue, [PKey (ABool true); PKey w8_x], [PKey (ABool true); PKey w8_x])] /\
  projs (fst (run_diff w8_h w8_u w8_o w8_P no_skip w8_c w8_t1' w8_t2)) = [(KType, [PKey (ABool true)], [PKey (ABool true)])].
Proof. vm_compute. repeat split; reflexivity. Qed.

(* the guard is met by a non-trivial input, and prune really removes content *)
Example independent_guard_example :
  let t := VDict [(AStr [97%N], VList [VAtom (AInt 1); VDict [(AInt 3, VAtom ANone)]]); (ANone, VAtom (AInt 2))] in
  keys_all key_plain t = true /\
  prune false (fun p => path_eqb p [PKey (AStr [97%N]); PIdx 1]) [] t =
    VDict [(AStr [97%N], VList [VAtom (AInt 1); VAtom ANone]); (ANone, VAtom (AInt 2))] /\
  prune true (fun p => path_eqb p [PKey ANone]) [] t =
    VDict [(AStr [97%N], VList [VAtom (AInt 1); VDict [(AInt 3, VAtom ANone)]])].
Proof. vm_compute. repeat split; reflexivity. Qed.

(** C13 - refutations of the full-strength statements on the faithful model
    (each witness is replayed on the implementation by harness/props/c13.py)
    and examples showing that the guards of the partial theorems are met by
    non-trivial inputs. *)
From Coq Require Import List ZArith NArith Bool Arith String.
Import ListNotations.
From DD Require Import Base.PyStr Base.Value Base.ValueFacts Diff.Tree Diff.DiffModel Path.PathModel Path.PathProofs
  Filter.FilterModel Filter.FilterFacts Filter.FilterProofs Filter.FilterExclude Filter.FilterThreshold Filter.FilterInclude.

Lemma existsb_map_compat {A B} (f : B -> bool) (g : A -> B) l : existsb f (map g l) = existsb (fun x => f (g x)) l.
Proof. induction l as [|a l IH]; cbn; [reflexivity|]. rewrite IH. reflexivity. Qed.
Local Open Scope string_scope.

(* no oracle is consulted by the witnesses (no sets, no multi-line strings, no default-mode list except W3) *)
Definition h0 (_ : atom) : pystr := [].
Definition u0 (_ _ : pystr) : pystr := [].
Definition o0 (_ : path) (_ _ : list value) : list opcode := [].
Definition ks (s : string) : atom := AStr (s2p s).
Definition vi (z : Z) : value := VAtom (AInt z).
Definition positional0 : cfg := mkCfg true 0 1 true.
Definition positional33 : cfg := mkCfg true 33 100 true.     (* the default threshold_to_diff_deeper *)
Definition default0 : cfg := mkCfg false 0 1 true.

(* the predicate of _skip_this for exclude_paths = ex *)
Definition excluded (rx : path -> bool) (ex : list pystr) : path -> bool :=
  skip_this rx (add_root_to_paths ex) [].

(* ---- W1: threshold > 0: excluding root['y'] makes entries for its siblings appear ---- *)
Definition w1_t1 := VDict [(ks "a", vi 1); (ks "b", vi 2)].
Definition w1_t2 := VDict [(ks "a", vi 1); (ks "x", vi 2); (ks "y", vi 3)].
Definition w1_ex := [s2p "root['y']"].

Lemma exclude_threshold_refuted :
  zip positional33 = true /\ wf w1_t2 = true /\
  fst (run_filtered h0 u0 o0 no_skip w1_ex [] positional33 w1_t1 w1_t2) <>
  filter (fun e => not_under (excluded no_skip w1_ex) (ep1 e))
         (fst (run_diff h0 u0 o0 no_skip no_skip positional33 w1_t1 w1_t2)).
Proof. split; [reflexivity|split; [reflexivity|]]. intros H. vm_compute in H. discriminate H. Qed.

(* what the two runs report *)
Lemma w1_reports :
  map (fun e => (ekind e, ep1 e)) (fst (run_filtered h0 u0 o0 no_skip w1_ex [] positional33 w1_t1 w1_t2)) =
    [(KDictAdd, [PKey (ks "x")]); (KDictRem, [PKey (ks "b")])] /\
  map (fun e => (ekind e, ep1 e)) (fst (run_diff h0 u0 o0 no_skip no_skip positional33 w1_t1 w1_t2)) =
    [(KValue, [])].
Proof. split; vm_compute; reflexivity. Qed.

(* the guard of the partial theorem with a positive threshold and an excluded key inside a compared dict *)
Definition w1b_t1 := VDict [(ks "a", vi 1); (ks "b", vi 2); (ks "c", VList [vi 3])].
Definition w1b_t2 := VDict [(ks "a", vi 1); (ks "b", vi 5); (ks "y", vi 3)].
Example stable_guard_example :
  stable (excl_this (add_root_to_paths w1_ex)) positional33 w1b_t1 w1b_t2 [] = true /\
  thr_num positional33 = 33 /\ excl_this (add_root_to_paths w1_ex) [PKey (ks "y")] = true /\
  wf w1b_t2 = true /\
  List.length (fst (run_filtered h0 u0 o0 no_skip w1_ex [] positional33 w1b_t1 w1b_t2)) = 2.
Proof. vm_compute. auto. Qed.

(* ---- W2: default alignment, an excluded LIST INDEX changes which pass is kept ---- *)
Definition w2_t1 := VList [vi 1; vi 2].
Definition w2_t2 := VList [vi 2; vi 3].
Definition w2_ex := [s2p "root[0]"].
(* difflib.SequenceMatcher([1,2],[2,3]).get_opcodes() *)
Definition w2_ops (_ : path) (_ _ : list value) : list opcode :=
  [mkOp ODelete 0 1 0 0; mkOp OEqual 1 2 0 1; mkOp OInsert 2 2 1 2].

Lemma exclude_default_index_refuted :
  zip default0 = false /\ thr_num default0 = 0 /\ wf w2_t2 = true /\
  fst (run_filtered h0 u0 w2_ops no_skip w2_ex [] default0 w2_t1 w2_t2) <>
  filter (fun e => not_under (excluded no_skip w2_ex) (ep1 e))
         (fst (run_diff h0 u0 w2_ops no_skip no_skip default0 w2_t1 w2_t2)).
Proof. repeat (split; [reflexivity|]). intros H. vm_compute in H. discriminate H. Qed.

Lemma w2_reports :
  map (fun e => (ekind e, ep1 e)) (fst (run_filtered h0 u0 w2_ops no_skip w2_ex [] default0 w2_t1 w2_t2)) =
    [(KIterAdd, [PIdx 1])] /\
  map (fun e => (ekind e, ep1 e)) (fst (run_diff h0 u0 w2_ops no_skip no_skip default0 w2_t1 w2_t2)) =
    [(KValue, [PIdx 0]); (KValue, [PIdx 1])].
Proof. split; vm_compute; reflexivity. Qed.

(* ---- W3 (K10): include_paths through a non-str dictionary key selects nothing ---- *)
Definition w3_t1 := VDict [(AInt 1, vi 5); (ks "a", vi 1)].
Definition w3_t2 := VDict [(AInt 1, vi 6); (ks "a", vi 2)].
Definition w3_Q : list path := [[PKey (AInt 1)]].

Lemma include_nonstring_refuted :
  map render w3_Q = [s2p "root[1]"] /\ zip positional0 = true /\ thr_num positional0 = 0 /\ wf w3_t2 = true /\
  fst (run_filtered h0 u0 o0 no_skip [] (map render w3_Q) positional0 w3_t1 w3_t2) = [] /\
  map (fun e => (ekind e, ep1 e))
      (filter (fun e => related w3_Q (ep1 e)) (fst (run_diff h0 u0 o0 no_skip no_skip positional0 w3_t1 w3_t2))) =
    [(KValue, [PKey (AInt 1)])].
Proof. vm_compute. repeat split; reflexivity. Qed.

(* ---- W4: substring matching over-includes: a str key that embeds the text of a path ---- *)
Definition w4_t1 := VList [VDict [(ks "xroot[1]", vi 1)]; vi 5].
Definition w4_t2 := VList [VDict [(ks "xroot[1]", vi 2)]; vi 6].
Definition w4_Q : list path := [[PIdx 0; PKey (ks "xroot[1]")]].

Lemma include_substring_refuted :
  map render w4_Q = [s2p "root[0]['xroot[1]']"] /\ zip positional0 = true /\ thr_num positional0 = 0 /\
  wf w4_t2 = true /\
  map (fun e => (ekind e, ep1 e)) (fst (run_filtered h0 u0 o0 no_skip [] (map render w4_Q) positional0 w4_t1 w4_t2)) =
    [(KValue, [PIdx 0; PKey (ks "xroot[1]")]); (KValue, [PIdx 1])] /\
  related w4_Q [PIdx 1] = false.
Proof. vm_compute. repeat split; reflexivity. Qed.

(* a str key that embeds the text of a SIBLING's path: the sibling is reported, the key itself is not *)
Definition w5_t1 := VDict [(ks "xroot['a']", vi 1); (ks "a", vi 1); (ks "b", vi 1)].
Definition w5_t2 := VDict [(ks "xroot['a']", vi 2); (ks "a", vi 2); (ks "b", vi 2)].
Definition w5_Q : list path := [[PKey (ks "xroot['a']")]].

Lemma include_substring_sibling_refuted :
  zip positional0 = true /\ thr_num positional0 = 0 /\ wf w5_t2 = true /\
  map (fun e => (ekind e, ep1 e)) (fst (run_filtered h0 u0 o0 no_skip [] (map render w5_Q) positional0 w5_t1 w5_t2)) =
    [(KValue, [PKey (ks "a")])] /\
  related w5_Q [PKey (ks "a")] = false /\ related w5_Q [PKey (ks "xroot['a']")] = true.
Proof. vm_compute. repeat split; reflexivity. Qed.

(* ---- the guard idx_closed is met by a non-trivial predicate: one dictionary-key path ---- *)
Example idx_closed_example : idx_closed (fun p => path_eqb p [PKey (ks "a")]).
Proof.
  intros p i _. unfold snoc. destruct p as [|k [|k' p]]; cbn [app path_eqb].
  - reflexivity.
  - rewrite andb_false_r. reflexivity.
  - destruct (pkey_eqb k (PKey (ks "a"))); reflexivity.
Qed.

(* ---- literal exclusion of existing positions = equality of key sequences
        (up to the identification of the int key i with the index i, which print alike) ---- *)
Lemma excluded_literal (Q : list path) (p : path) :
  path_ok p = true -> Forall (fun q => path_ok q = true) Q ->
  excluded no_skip (map render Q) p = existsb (fun q => path_eqb (norm p) (norm q)) Q.
Proof.
  intros Hp HQ. unfold excluded. rewrite add_root_render. unfold skip_this. cbn [no_skip].
  rewrite orb_false_r. unfold mem_str. rewrite existsb_map_compat.
  induction HQ as [|q Q Hq _ IH]; cbn [existsb]; [reflexivity|]. rewrite IH. f_equal.
  destruct (pystr_eqb (render p) (render q)) eqn:E.
  - apply ValueFacts.pystr_eqb_eq in E. apply (PathProofs.render_inj p q Hp Hq) in E. rewrite E.
    symmetry. apply FilterFacts.path_eqb_refl.
  - destruct (path_eqb (norm p) (norm q)) eqn:N; [|reflexivity].
    apply FilterFacts.path_eqb_eq in N.
    assert (render p = render q) by (rewrite <- (PathProofs.render_norm p), <- (PathProofs.render_norm q), N; reflexivity).
    rewrite H in E. rewrite ValueFacts.pystr_eqb_refl in E. discriminate E.
Qed.

(* ---- W6 (K13d): exclude_paths and include_paths together: the include branch of _skip_this
        overwrites the exclude verdict, the excluded root['a']['b'] is reported ---- *)
Definition w6_t1 := VDict [(ks "a", VDict [(ks "b", vi 1); (ks "c", vi 2)])].
Definition w6_t2 := VDict [(ks "a", VDict [(ks "b", vi 2); (ks "c", vi 3)])].

Lemma exclude_under_include_witness :
  map (fun e => (ekind e, ep1 e))
      (fst (run_filtered h0 u0 o0 no_skip [s2p "root['a']['b']"] [s2p "root['a']"] positional0 w6_t1 w6_t2)) =
    [(KValue, [PKey (ks "a"); PKey (ks "b")]); (KValue, [PKey (ks "a"); PKey (ks "c")])].
Proof. vm_compute. reflexivity. Qed.

(* ---- W7: threshold > 0: the mere PRESENCE of an excluded key on both sides decides what is
        reported for its siblings (the intersection is not reduced) ---- *)
Definition w7_key : atom := ks "a".
Definition w7_rest1 := [(ks "b", vi 2)].
Definition w7_rest2 := [(ks "c", vi 2)].
Definition w7_ex := [s2p "root['a']"].

Lemma exclude_independence_threshold_refuted :
  excluded no_skip w7_ex [PKey w7_key] = true /\
  map (fun e => (ekind e, ep1 e))
      (fst (run_filtered h0 u0 o0 no_skip w7_ex [] positional33
              (VDict ((w7_key, vi 1) :: w7_rest1)) (VDict ((w7_key, vi 1) :: w7_rest2)))) =
    [(KDictAdd, [PKey (ks "c")]); (KDictRem, [PKey (ks "b")])] /\
  map (fun e => (ekind e, ep1 e))
      (fst (run_filtered h0 u0 o0 no_skip w7_ex [] positional33 (VDict w7_rest1) (VDict w7_rest2))) =
    [(KValue, [])].
Proof. vm_compute. repeat split; reflexivity. Qed.

(* ---- W9: default alignment, an include path ending in a LIST INDEX of a leaf list: the pass choice
        counts the filtered entries ---- *)
Definition w9_Q : list path := [[PIdx 1]].
Lemma include_default_index_refuted :
  map render w9_Q = [s2p "root[1]"] /\ zip default0 = false /\ thr_num default0 = 0 /\ wf w2_t2 = true /\
  map (fun e => (ekind e, ep1 e)) (fst (run_filtered h0 u0 w2_ops no_skip [] (map render w9_Q) default0 w2_t1 w2_t2)) =
    [(KIterAdd, [PIdx 1])] /\
  map (fun e => (ekind e, ep1 e))
      (filter (fun e => related w9_Q (ep1 e)) (fst (run_diff h0 u0 w2_ops no_skip no_skip default0 w2_t1 w2_t2))) =
    [(KValue, [PIdx 1])].
Proof. vm_compute. repeat split; reflexivity. Qed.

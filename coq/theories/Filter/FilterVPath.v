(** C13 - the object-dependent exclusions (exclude_types, exclude_obj_callback(_strict)) ARE path exclusions:
    in positional mode, on set-free well-formed inputs, the run with ANY object-dependent skip test SK is the run
    with the path predicate "SK at the two objects the inputs hold at that position"

        trace SK t1 t2 q  =  SK q (sub t1 q) (sub t2 q)            (sub = the sub-value at a key sequence)

    so every theorem about exclusion by a path predicate (pure filter, exact threshold characterisation,
    independence) applies to them ([value_exclusion_is_path_exclusion], [value_exclusion_is_filter]).
    Sets are left out because a set item has no position of its own (its level carries the path of the set);
    the default alignment mode because a moved item is compared with an item at another index. *)
From Coq Require Import List ZArith NArith Bool Arith Lia.
Import ListNotations.
From DD Require Import Base.PyStr Base.Value Base.ValueFacts Diff.Tree Diff.DiffModel Diff.DiffFacts
  Path.PathModel Filter.FilterModel Filter.FilterModelV Filter.FilterFacts Filter.FilterProofs Filter.FilterExclude
  Filter.FilterInclude Filter.FilterV Filter.FilterGuard Filter.FilterExact.

Fixpoint sub (v : value) (q : path) {struct q} : option value :=
  match q with
  | [] => Some v
  | PKey k :: r =>
      match v with
      | VDict kvs => match assoc k kvs with Some x => sub x r | None => None end
      | _ => None
      end
  | PIdx i :: r =>
      match v with
      | VList xs | VTuple xs => match nth_error xs i with Some x => sub x r | None => None end
      | _ => None
      end
  end.
Definition osub (o : option value) (q : path) : option value := match o with Some x => sub x q | None => None end.

Fixpoint setfree (v : value) : bool :=
  match v with
  | VAtom _ => true
  | VList xs | VTuple xs => forallb setfree xs
  | VDict kvs => forallb (fun kv => setfree (snd kv)) kvs
  | VSet _ | VFrozen _ => false
  end.

Definition trace (SK : vskip) (t1 t2 : value) (q : path) : bool := SK q (sub t1 q) (sub t2 q).

Lemma osub_nil o : osub o [] = o.
Proof. destruct o; reflexivity. Qed.
Lemma sub_dict kvs k q : sub (VDict kvs) (PKey k :: q) = osub (assoc k kvs) q.
Proof. reflexivity. Qed.
Lemma sub_list xs i q : sub (VList xs) (PIdx i :: q) = osub (nth_error xs i) q.
Proof. reflexivity. Qed.
Lemma sub_tuple xs i q : sub (VTuple xs) (PIdx i :: q) = osub (nth_error xs i) q.
Proof. reflexivity. Qed.

Lemma flat_map_ext_In {A B} (f g : A -> list B) l : (forall a, In a l -> f a = g a) -> flat_map f l = flat_map g l.
Proof.
  induction l as [|a l IH]; intros H; cbn; [reflexivity|].
  rewrite (H a (or_introl eq_refl)), IH; [reflexivity|]. intros x Hx. apply H. right. exact Hx.
Qed.

Lemma keep_key_py_eq c a b : py_eq a b = true -> keep_key c a = keep_key c b.
Proof.
  intros E. unfold keep_key. destruct (ignore_private c); [|reflexivity]. cbn [andb]. f_equal.
  destruct b as [| | | |s|]; try (destruct a; cbn in *; try discriminate; reflexivity).
  apply py_eq_str in E. subst a. reflexivity.
Qed.

Lemma assoc_none_of_mem c k (kvs : list (atom * value)) :
  keep_key c k = true -> mem_atom k (keys_of c kvs) = false -> assoc k kvs = None.
Proof.
  intros K M. destruct (assoc k kvs) as [v|] eqn:A; [|reflexivity]. exfalso.
  apply assoc_In in A as (k' & Hin & E).
  assert (mem_atom k (keys_of c kvs) = true); [|congruence].
  apply mem_atom_In. exists k'. split; [|rewrite py_eq_sym; exact E].
  unfold keys_of. apply filter_In. split; [apply (in_map fst) in Hin; exact Hin|].
  rewrite (keep_key_py_eq c k' k E). exact K.
Qed.

Lemma assoc_of_in (l : list (atom * value)) k v k' :
  nodup_atoms (map fst l) = true -> In (k, v) l -> py_eq k k' = true -> assoc k' l = Some v.
Proof.
  induction l as [|[a x] l IH]; cbn; intros N H E; [destruct H|].
  apply andb_true_iff in N as [Na Nl]. apply negb_true_iff in Na.
  destruct H as [H|H].
  - inversion H; subst. rewrite E. reflexivity.
  - destruct (py_eq a k') eqn:E2; [|apply IH; assumption]. exfalso.
    assert (mem_atom a (map fst l) = true); [|congruence].
    apply mem_atom_In. exists k. split; [apply (in_map fst) in H; exact H|].
    eapply py_eq_trans; [exact E2|]. rewrite py_eq_sym. exact E.
Qed.

Section VPath.
Variable hatom : atom -> pystr.
Variable udiff : pystr -> pystr -> pystr.
Variable ops : path -> list value -> list value -> list opcode.
Variable SK : vskip.
Variable excl : path -> bool.
Variable hit : path -> nat -> bool.
Variable c : cfg.
Hypothesis Hzip : zip c = true.
Notation dV := (diffv hatom udiff ops SK excl no_kf hit c).
Notation dX := (fun Pp => diffx hatom udiff ops Pp excl no_kf c).

Lemma diffx_eq Pp t1 t2 p1 p2 : dX Pp t1 t2 p1 p2 =
  if Pp p1 then ([], []) else
  if negb (ty_eqb (type_of t1) (type_of t2))
  then (report Pp KType p1 p2 (Some t1) (Some t2) None, [])
  else
  match t1, t2 with
  | VAtom a, VAtom b => (diff_atom udiff Pp a b p1 p2, [])
  | VDict kvs1, VDict kvs2 =>
      let k1 := keys_x no_kf c p1 kvs1 in
      let k2 := keys_x no_kf c p1 kvs2 in
      if dict_shortcut excl c k1 k2 p1 then (report Pp KValue p1 p2 (Some t1) (Some t2) None, [])
      else let common := gox_common no_kf c (dX Pp) kvs2 k2 p1 p2 kvs1 in
           (added_x Pp k1 k2 kvs2 p1 p2 ++ removed_x Pp k1 k2 kvs1 p1 p2 ++ fst common, snd common)
  | VList xs, VList ys | VTuple xs, VTuple ys =>
      if negb (zip c) && forallb is_atom xs && forallb is_atom ys
      then let '(es, rec) := default_leaf_list udiff ops Pp xs ys p1 p2 in (es, if rec then [p1] else [])
      else gox_list Pp (dX Pp) p1 p2 xs ys 0
  | VSet xs, VSet ys | VFrozen xs, VFrozen ys => (diff_set hatom Pp xs ys p1 p2, [])
  | _, _ => ([], [])
  end.
Proof. destruct t1; reflexivity. Qed.

Definition Sim (t1 : value) : Prop := forall t2 p p2 (Pp : path -> bool),
  wf t1 = true -> wf t2 = true -> setfree t1 = true -> setfree t2 = true ->
  (forall q, Pp (p ++ q) = SK (p ++ q) (sub t1 q) (sub t2 q)) ->
  dV t1 t2 p p2 = dX Pp t1 t2 p p2.

(* the loop over two sequences, from index i *)
Definition InvL (Pp : path -> bool) (p : path) (xs ys : list value) (i : nat) : Prop :=
  forall j q, Pp (p ++ PIdx (i + j) :: q) = SK (p ++ PIdx (i + j) :: q) (osub (nth_error xs j) q) (osub (nth_error ys j) q).

Lemma InvL_tail Pp p x xs y ys i : InvL Pp p (x :: xs) (y :: ys) i -> InvL Pp p xs ys (S i).
Proof. intros H j q. specialize (H (S j) q). rewrite Nat.add_succ_r in H. exact H. Qed.
Lemma InvL_tail_l Pp p x xs i : InvL Pp p (x :: xs) [] i -> InvL Pp p xs [] (S i).
Proof. intros H j q. specialize (H (S j) q). rewrite Nat.add_succ_r in H. cbn in H. destruct j; exact H. Qed.
Lemma InvL_tail_r Pp p y ys i : InvL Pp p [] (y :: ys) i -> InvL Pp p [] ys (S i).
Proof. intros H j q. specialize (H (S j) q). rewrite Nat.add_succ_r in H. cbn in H. destruct j; exact H. Qed.

Lemma added_fromv_sim Pp p p2 ys : forall i, InvL Pp p [] ys i -> added_fromv SK ys i p p2 = added_from Pp ys i p p2.
Proof.
  induction ys as [|y ys IH]; intros i H; cbn [added_fromv added_from]; [reflexivity|].
  rewrite (IH _ (InvL_tail_r _ _ _ _ _ H)). f_equal. unfold reportv, report.
  specialize (H 0 []). rewrite Nat.add_0_r in H. cbn in H. unfold snoc. rewrite H. reflexivity.
Qed.
Lemma removed_fromv_sim Pp p p2 xs : forall i, InvL Pp p xs [] i -> removed_fromv SK xs i p p2 = removed_from Pp xs i p p2.
Proof.
  induction xs as [|x xs IH]; intros i H; cbn [removed_fromv removed_from]; [reflexivity|].
  rewrite (IH _ (InvL_tail_l _ _ _ _ _ H)). f_equal. unfold reportv, report.
  specialize (H 0 []). rewrite Nat.add_0_r in H. cbn in H. unfold snoc. rewrite H. reflexivity.
Qed.

Lemma list_sim Pp p p2 xs : Forall Sim xs ->
  forall ys i, forallb wf xs = true -> forallb wf ys = true -> forallb setfree xs = true -> forallb setfree ys = true ->
  InvL Pp p xs ys i ->
  gov_list SK dV p p2 xs ys i = gox_list Pp (dX Pp) p p2 xs ys i.
Proof.
  induction 1 as [|x xs Hx _ IH]; intros ys i W1 W2 F1 F2 H.
  - cbn [gov_list gox_list]. rewrite (added_fromv_sim Pp p p2 ys i H). reflexivity.
  - destruct ys as [|y ys].
    + cbn [gov_list gox_list]. rewrite (removed_fromv_sim Pp p p2 (x :: xs) i H). reflexivity.
    + cbn [gov_list gox_list]. cbn [forallb] in W1, W2, F1, F2.
      apply andb_true_iff in W1 as [Wx W1]. apply andb_true_iff in W2 as [Wy W2].
      apply andb_true_iff in F1 as [Fx F1]. apply andb_true_iff in F2 as [Fy F2].
      rewrite (IH ys (S i) W1 W2 F1 F2 (InvL_tail _ _ _ _ _ _ _ H)). f_equal.
      apply Hx; try assumption. intros q. specialize (H 0 q). rewrite Nat.add_0_r in H. cbn in H.
      unfold snoc. rewrite <- app_assoc. exact H.
Qed.

Lemma common_sim Pp p p2 kvs1 kvs2 l :
  nodup_atoms (map fst kvs1) = true -> (forall kv, In kv l -> In kv kvs1) ->
  forallb (fun kv => wf (snd kv)) kvs2 = true -> forallb (fun kv => setfree (snd kv)) kvs2 = true ->
  Forall (fun kv => Sim (snd kv)) l ->
  forallb (fun kv => wf (snd kv)) l = true -> forallb (fun kv => setfree (snd kv)) l = true ->
  (forall k q, Pp (p ++ PKey k :: q) = SK (p ++ PKey k :: q) (osub (assoc k kvs1) q) (osub (assoc k kvs2) q)) ->
  gox_common no_kf c dV kvs2 (keys_of c kvs2) p p2 l = gox_common no_kf c (dX Pp) kvs2 (keys_of c kvs2) p p2 l.
Proof.
  intros N Sub W2 F2 F. induction F as [|[k v1] l Hx _ IH]; intros W1 F1 H; [reflexivity|].
  cbn [forallb snd] in W1, F1. apply andb_true_iff in W1 as [Wv W1]. apply andb_true_iff in F1 as [Fv F1].
  cbn [gox_common]. rewrite (IH (fun kv Hkv => Sub kv (or_intror Hkv)) W1 F1 H). cbn [snd] in Hx.
  destruct (keep_key c k && negb (no_kf p k)); [|reflexivity].
  destruct (find (py_eq k) (keys_of c kvs2)) as [k'|] eqn:Fd; [|reflexivity].
  destruct (assoc k' kvs2) as [v2|] eqn:A; [|reflexivity]. f_equal.
  destruct (find_in _ _ _ Fd) as [_ Pk].
  pose proof (assoc_of_in kvs1 k v1 k' N (Sub _ (or_introl eq_refl)) Pk) as A1.
  assert (Wv2 : wf v2 = true).
  { apply assoc_In in A as (k0 & Hin & _). rewrite forallb_forall in W2. apply (W2 _ Hin). }
  assert (Fv2 : setfree v2 = true).
  { apply assoc_In in A as (k0 & Hin & _). rewrite forallb_forall in F2. apply (F2 _ Hin). }
  apply Hx; try assumption. intros q. specialize (H k' q). rewrite A1, A in H. cbn [osub] in H.
  unfold snoc. rewrite <- app_assoc. exact H.
Qed.

Theorem sim_all t1 : Sim t1.
Proof.
  induction t1 as [a|xs IH|xs IH|kvs IH|xs|xs] using value_ind'; intros t2 p p2 Pp W1 W2 F1 F2 H;
    try discriminate F1;
    rewrite diffv_eq, diffx_eq;
    (assert (H0 : Pp p = SK p (Some _) (Some t2)) by (specialize (H []); rewrite app_nil_r in H; exact H));
    rewrite <- H0; (destruct (Pp p) eqn:E0; [reflexivity|]);
    (assert (R0 : forall k d, reportv SK k p p2 (Some _) (Some t2) d = report Pp k p p2 (Some _) (Some t2) d)
       by (intros k d; unfold reportv, report; rewrite <- H0, E0; reflexivity));
    (destruct (negb (ty_eqb (type_of _) (type_of t2))); [rewrite R0; reflexivity|]);
    destruct t2 as [b|ys|ys|kvs2|ys|ys]; try reflexivity; try discriminate F2.
  - (* atoms *)
    f_equal. unfold diff_atomv, diff_atom. rewrite <- H0, E0.
    destruct (negb (ty_eqb (atom_ty a) (atom_ty b))); [apply R0|].
    destruct a, b; try (destruct (py_eq _ _); [reflexivity|apply R0]);
      match goal with |- context [diff_str udiff ?f ?s ?t] => destruct (diff_str udiff f s t) as [ch d] end;
      (destruct ch; [apply R0|reflexivity]).
  - (* lists *)
    rewrite Hzip. cbn [negb andb]. cbn [wf setfree] in W1, W2, F1, F2.
    apply list_sim; try assumption. intros j q. specialize (H (PIdx j :: q)). rewrite !sub_list in H. exact H.
  - (* tuples *)
    rewrite Hzip. cbn [negb andb]. cbn [wf setfree] in W1, W2, F1, F2.
    apply list_sim; try assumption. intros j q. specialize (H (PIdx j :: q)). rewrite !sub_tuple in H. exact H.
  - (* dicts *)
    cbn zeta. rewrite !keys_x_no_kf. cbn [wf setfree] in W1, W2, F1, F2.
    apply andb_true_iff in W1 as [N1 W1]. apply andb_true_iff in W2 as [N2 W2].
    assert (HK : forall k q, Pp (p ++ PKey k :: q) = SK (p ++ PKey k :: q) (osub (assoc k kvs) q) (osub (assoc k kvs2) q)).
    { intros k q. specialize (H (PKey k :: q)). rewrite !sub_dict in H. exact H. }
    destruct (dict_shortcut excl c (keys_of c kvs) (keys_of c kvs2) p); [rewrite R0; reflexivity|].
    rewrite (common_sim Pp p p2 kvs kvs2 kvs N1 (fun kv Hkv => Hkv) W2 F2 IH W1 F1 HK). f_equal. f_equal; [|f_equal].
    + unfold added_xv, added_x. apply flat_map_ext_In. intros k Hk.
      destruct (mem_atom k (keys_of c kvs)) eqn:M; [reflexivity|]. unfold reportv, report.
      specialize (HK k []). rewrite !osub_nil in HK. unfold snoc. rewrite HK.
      assert (KK : keep_key c k = true) by (unfold keys_of in Hk; apply filter_In in Hk as [_ Hk]; exact Hk).
      rewrite (assoc_none_of_mem c k kvs KK M). reflexivity.
    + unfold removed_xv, removed_x. apply flat_map_ext_In. intros k Hk.
      destruct (mem_atom k (keys_of c kvs2)) eqn:M; [reflexivity|]. unfold reportv, report.
      specialize (HK k []). rewrite !osub_nil in HK. unfold snoc. rewrite HK.
      assert (KK : keep_key c k = true) by (unfold keys_of in Hk; apply filter_In in Hk as [_ Hk]; exact Hk).
      rewrite (assoc_none_of_mem c k kvs2 KK M). reflexivity.
Qed.
End VPath.

(* the run *)
Theorem value_exclusion_is_path_exclusion hatom udiff ops (SK : vskip) excl hit c t1 t2 :
  zip c = true -> wf t1 = true -> wf t2 = true -> setfree t1 = true -> setfree t2 = true ->
  run_diffv hatom udiff ops SK excl no_kf hit c t1 t2 =
  run_diff hatom udiff ops (trace SK t1 t2) excl c t1 t2.
Proof.
  intros Z W1 W2 F1 F2. rewrite <- run_diffx_no_kf. unfold run_diffv, run_diffx.
  rewrite (sim_all hatom udiff ops SK excl hit c Z t1 t2 [] [] (trace SK t1 t2) W1 W2 F1 F2); [reflexivity|].
  intros q. reflexivity.
Qed.

(* exclude_paths / exclude_regex_paths / exclude_types / exclude_obj_callback(_strict) together, positional mode:
   the result is the unrestricted result minus the entries at or below a position that is excluded literally, matched,
   or where either input holds an object of an excluded type / accepted by the callback(s) - in every mode-independent
   respect a path exclusion, so the exact threshold characterisation applies as well *)
Theorem value_exclusion_is_filter hatom udiff ops rx rxh ex TY cb cbs c t1 t2 :
  zip c = true -> wf t1 = true -> wf t2 = true -> setfree t1 = true -> setfree t2 = true ->
  let SK := skip_full rx (add_root_to_paths ex) [] TY cb cbs None None in
  (fst (run_full hatom udiff ops rx rxh ex [] TY cb cbs None None c t1 t2) =
   filter (fun e => not_under (trace SK t1 t2) (ep1 e)) (fst (run_diff hatom udiff ops no_skip no_skip c t1 t2))
   <-> xguard (trace SK t1 t2) (excl_this (add_root_to_paths ex)) c t1 t2 = true).
Proof.
  intros Z W1 W2 F1 F2 SK. unfold run_full. change (add_root_to_paths []) with (@nil pystr).
  assert (KF : skip_this_key [] = no_kf) by reflexivity. rewrite KF.
  rewrite (value_exclusion_is_path_exclusion hatom udiff ops SK _ _ c t1 t2 Z W1 W2 F1 F2).
  apply exclude_guard_exact; [left; exact Z|exact W1|exact W2].
Qed.

Example setfree_example :
  setfree (VDict [(AStr [97%N], VList [VAtom (AInt 1); VTuple [VAtom ANone]])]) = true /\
  sub (VDict [(AInt 1, VList [VAtom (AInt 5); VAtom (AInt 6)])]) [PKey (ABool true); PIdx 1] = Some (VAtom (AInt 6)).
Proof. vm_compute. split; reflexivity. Qed.

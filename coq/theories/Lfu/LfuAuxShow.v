(** Correspondence-side rendering for LfuAuxModel.v (no theorem depends on this file). *)
From Coq Require Import List ZArith Bool Arith String.
Import ListNotations.
From DD Require Import Base.Sx Lfu.LfuModel Lfu.LfuRtModel Lfu.LfuHeapModel Lfu.LfuShow Lfu.LfuHeapShow
  Lfu.LfuRtShow Lfu.LfuAuxModel.
Local Open Scope string_scope.

(** * get_sorted_cache_keys / get_average_frequency after every step of a plain trace *)
Definition sx_kf (l : list (key * nat)) : sx := sx_list (fun x => SL [SZ (fst x); sx_nat (snd x)]) l.
Definition sx_avg (p : nat * nat) : sx :=
  match snd p with
  | O => SA "StatisticsError"
  | _ => let g := Nat.gcd (fst p) (snd p) in SL [sx_nat (Nat.div (fst p) g); sx_nat (Nat.div (snd p) g)]
  end.
Definition sx_aux (h : heap Z) : sx :=
  SL [match h_sorted_keys h with Some l => sx_kf l | None => SA "error" end;
      match h_avg_freq h with Some p => sx_avg p | None => SA "error" end].
Fixpoint aux_steps (h : heap Z) (ops : list op) : list sx :=
  match ops with
  | [] => []
  | o :: r => match hstep h o with
              | Some (h1, _) => sx_aux h1 :: aux_steps h1 r
              | None => [SA "error"]
              end
  end.
Definition aux_sx (c : nat) (ops : list op) : sx := SL (sx_aux (hempty c) :: aux_steps (hempty c) ops).

(** * report-type traces on the heap: outputs, and the pointer graph after every step with
      each content replaced by a checksum *)
From Coq Require Import Uint63.
Local Open Scope Z_scope.
(* checksums in primitive 63-bit integers (LfuShow.mix; Python: "& (2**63-1)") *)
Definition content_code (c : content) : Z :=
  to_Z (match c with
        | CVal v => mix 1 (of_Z (v + 50))
        | CRep d => fold_left (fun a p => mix (fold_left (fun b v => mix b (of_Z (v + 100))) (snd p) (mix a (of_Z (fst p + 10)))) 7) d 2%uint63
        end).
Definition code_heap (h : heap content) : heap Z :=
  mkH (map (fun ic => (fst ic, mkC (ckey (snd ic)) (content_code (ccont (snd ic))) (cfn (snd ic)) (cpre (snd ic)) (cnxt (snd ic)))) (cns h))
      (fns h) (dict h) (hhead h) (hcap h) (nextc h) (nextf h).
Definition graph_code (h : heap content) : Z := to_Z (ghash 0 (graph_ints (code_heap h))).

Fixpoint rt_hsteps (h : heap content) (ops : list rop) : option (list rout * list Z * heap content) :=
  match ops with
  | [] => Some ([], [], h)
  | o :: r =>
      match hrstep h o with
      | None => None
      | Some (h1, out) =>
          match rt_hsteps h1 r with
          | None => None
          | Some (outs, gs, hf) => Some (out :: outs, graph_code h1 :: gs, hf)
          end
      end
  end.
Definition rt_heap_sx (c : nat) (ops : list rop) : sx :=
  match rt_hsteps (hempty c) ops with
  | None => SA "error"
  | Some (outs, gs, hf) => SL [sx_list sx_rout outs; sx_list SZ gs; sx_list SZ (graph_ints (code_heap hf))]
  end.

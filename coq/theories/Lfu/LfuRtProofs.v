(** C18, report_type extension: a trace of get / set(key, report_type, value)
    operations on the model of LfuRtModel.v IS a trace of the generic model
    (LfuModel.v at [val := content]) on the lowered operations; so every C18
    theorem (generic in [val]) applies to it. *)
From Coq Require Import List ZArith Bool Arith Lia Sorted.
Import ListNotations.
From DD Require Import Lfu.LfuModel Lfu.LfuSpec Lfu.LfuInv Lfu.LfuSpecProps Lfu.LfuProofs Lfu.LfuRtModel.

Definition rstate_of (c : nat) (ops : list rop) : lfu content := fst (rrun (empty c) ops).

(** [set] with a report type = generic [set] of the lowered content, or a raise
    that leaves the cache untouched *)
Lemma set_rt_lower s k rt v :
  set_rt s k rt v =
  match lower s k rt v with Some c => (set s k c, false) | None => (s, true) end.
Proof.
  unfold set_rt, lower, set, contains. destruct (find_key k (buckets s)) as [[u c]|]; [|reflexivity].
  destruct (upd_content c rt v); reflexivity.
Qed.

Lemma rrun_lowers ops : forall s,
  fst (rrun s ops) = fst (run s (lower_ops s ops)) /\
  get_outs (snd (rrun s ops)) = snd (run s (lower_ops s ops)).
Proof.
  induction ops as [|o r IH]; intros s; [split; reflexivity|].
  cbn [rrun fst snd]. destruct o as [k|k rt v]; cbn [rstep lower_ops fst snd].
  - rewrite run_cons. cbn [fst snd step]. destruct (IH (fst (get s k))) as [I1 I2].
    split; [exact I1|]. destruct (snd (get s k)); cbn [get_outs]; rewrite I2; reflexivity.
  - rewrite set_rt_lower. destruct (lower s k rt v) as [c|]; cbn [fst snd get_outs].
    + rewrite run_cons. cbn [step fst snd]. exact (IH (set s k c)).
    + exact (IH s).
Qed.

Lemma rrun_app s ops1 ops2 :
  rrun s (ops1 ++ ops2) =
  (fst (rrun (fst (rrun s ops1)) ops2), snd (rrun s ops1) ++ snd (rrun (fst (rrun s ops1)) ops2)).
Proof.
  revert s. induction ops1 as [|o r IH]; intros s.
  - cbn [app rrun fst snd]. destruct (rrun s ops2); reflexivity.
  - cbn [app rrun]. rewrite IH. cbn [fst snd]. reflexivity.
Qed.

Theorem rt_lowers c ops :
  rstate_of c ops = state_of c (lower_ops (empty c) ops) /\
  get_outs (snd (rrun (empty c) ops)) = snd (run (empty c) (lower_ops (empty c) ops)).
Proof. exact (rrun_lowers ops (empty c)). Qed.

(** the structural invariant after every get / set / set-with-report-type sequence *)
Theorem rt_inv c ops : 1 <= c ->
  let s := rstate_of c ops in
  StronglySorted lt (map freq (buckets s)) /\
  Forall (fun b => items b <> []) (buckets s) /\
  NoDup (map fst (flat_map items (buckets s))) /\
  size s <= cap s /\ cap s = c.
Proof. intros Hc. rewrite (proj1 (rt_lowers c ops)). exact (lfu_inv c _ Hc). Qed.

(** get outputs = those of the abstract bounded-LFU spec on the lowered trace *)
Theorem rt_refines_spec c ops : 1 <= c ->
  get_outs (snd (rrun (empty c) ops)) = snd (srun (sempty c) (lower_ops (empty c) ops)) /\
  R (rstate_of c ops) (fst (srun (sempty c) (lower_ops (empty c) ops))).
Proof.
  intros Hc. destruct (rt_lowers c ops) as [E1 E2]. rewrite E1, E2.
  exact (lfu_refines_spec c _ Hc).
Qed.

(** exactly when a set raises, and that it then changes nothing *)
Theorem rt_raises_iff s k rt v :
  snd (set_rt s k rt v) = true <->
  exists r u x, rt = Some r /\ find_key k (buckets s) = Some (u, CVal x).
Proof.
  unfold set_rt. destruct (find_key k (buckets s)) as [[u c]|].
  - destruct rt as [r|]; destruct c as [x|d]; cbn [upd_content snd].
    + split; [|reflexivity]. intros _. exists r, u, x. split; reflexivity.
    + split; [discriminate|]. intros (r' & u' & x' & _ & E). discriminate E.
    + split; [discriminate|]. intros (r' & u' & x' & E & _). discriminate E.
    + split; [discriminate|]. intros (r' & u' & x' & E & _). discriminate E.
  - cbn [snd]. split; [discriminate|]. intros (r & u & x & _ & E). discriminate E.
Qed.

Theorem rt_raise_keeps_state s k rt v : snd (set_rt s k rt v) = true -> fst (set_rt s k rt v) = s.
Proof. rewrite set_rt_lower. destruct (lower s k rt v); [discriminate|reflexivity]. Qed.

(** after a set that does not raise, the key is linked with the lowered content:
    a fresh node's content for an absent key, the updated content otherwise *)
Theorem rt_set_then_find c ops k rt v cnt : 1 <= c ->
  lower (rstate_of c ops) k rt v = Some cnt ->
  exists u, find_key k (buckets (rstate_of c (ops ++ [RSet k rt v]))) = Some (u, cnt).
Proof.
  intros Hc HL. unfold rstate_of in *. rewrite rrun_app. cbn [fst rrun rstep].
  rewrite set_rt_lower, HL. cbn [fst].
  rewrite (proj1 (rrun_lowers ops (empty c))).
  destruct (lfu_set_then_find c (lower_ops (empty c) ops) k cnt Hc) as (u & FK).
  exists u. unfold state_of in FK. rewrite run_app in FK. cbn [fst] in FK.
  rewrite run_cons in FK. cbn [step fst run] in FK. exact FK.
Qed.

(** the content operations: defaultdict(SetOrdered) *)
Definition rep_get (r : rtype) (d : list (rtype * list Z)) : list Z :=
  match find (fun p => Z.eqb (fst p) r) d with Some p => snd p | None => [] end.

Lemma add_rep_same r v d :
  rep_get r (add_rep r v d) =
  if existsb (Z.eqb v) (rep_get r d) then rep_get r d else rep_get r d ++ [v].
Proof.
  unfold rep_get. induction d as [|[r0 vs] t IH]; cbn [add_rep find fst snd].
  - rewrite Z.eqb_refl. reflexivity.
  - destruct (Z.eqb r0 r) eqn:E; cbn [find fst snd]; rewrite E; [|exact IH].
    destruct (existsb (Z.eqb v) vs); reflexivity.
Qed.

Lemma add_rep_other r r' v d : r' <> r -> rep_get r' (add_rep r v d) = rep_get r' d.
Proof.
  intros NE. unfold rep_get. induction d as [|[r0 vs] t IH]; cbn [add_rep find fst snd].
  - rewrite (proj2 (Z.eqb_neq r r') (not_eq_sym NE)). reflexivity.
  - destruct (Z.eqb_spec r0 r) as [E|NE0]; cbn [find fst snd].
    + subst r0. rewrite (proj2 (Z.eqb_neq r r') (not_eq_sym NE)). reflexivity.
    + destruct (Z.eqb r0 r'); [reflexivity|exact IH].
Qed.

Lemma add_rep_keys r v d :
  map fst (add_rep r v d) = if existsb (Z.eqb r) (map fst d) then map fst d else map fst d ++ [r].
Proof.
  induction d as [|[r0 vs] t IH]; cbn [add_rep map fst existsb]; [reflexivity|].
  rewrite (Z.eqb_sym r r0). destruct (Z.eqb r0 r); cbn [map fst orb]; [reflexivity|].
  rewrite IH. destruct (existsb (Z.eqb r) (map fst t)); reflexivity.
Qed.

(* ------------------------------------------------------------------ *)
(** Non-vacuity *)
Local Open Scope Z_scope.

Example ex_rt :
  snd (rrun (empty 2) [RSet 1 (Some 7) 10; RSet 1 (Some 8) 11; RSet 1 (Some 7) 12; RSet 1 (Some 7) 10;
                       RSet 2 None 5; RSet 2 (Some 7) 6; RGet 1; RSet 3 None 9; RGet 2; RSet 1 None 4; RGet 1]) =
  [RDone; RDone; RDone; RDone; RDone; RRaised; RContent (CRep [(7, [10; 12]); (8, [11])]);
   RDone; RNotFound; RDone; RContent (CVal 4)].
Proof. vm_compute. reflexivity. Qed.

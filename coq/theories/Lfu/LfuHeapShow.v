(** Correspondence-side functions for the pointer-level model (no theorem
    depends on this file): the FULL pointer graph reachable from
    freq_link_head, with node ids renamed canonically in walk order, as a flat
    list of integers; mirrored by harness/props/c18.py [graph_ints]. *)
From Coq Require Import List ZArith NArith Bool Arith String.
Import ListNotations.
From Coq Require Import Uint63.
From DD Require Import Base.Sx Lfu.LfuModel Lfu.LfuHeapModel Lfu.LfuShow.

Notation heapZ := (heap Z) (only parsing).

(* follow a next-pointer chain, at most [fuel] nodes *)
Fixpoint chain {N} (m : list (id * N)) (nx : N -> option id) (fuel : nat) (cur : option id) : list id :=
  match fuel, cur with
  | S fu, Some i => i :: match mget m i with Some x => chain m nx fu (nx x) | None => [] end
  | _, _ => []
  end.

Fixpoint index_of (i : id) (l : list id) (n : Z) : Z :=
  match l with
  | [] => (-2)%Z                                   (* pointer to an object outside the walk *)
  | j :: r => if Nat.eqb j i then n else index_of i r (n + 1)%Z
  end.
Definition ref (l : list id) (x : option id) : Z :=
  match x with None => (-1)%Z | Some i => index_of i l 0%Z end.

Definition graph_ints (h : heapZ) : list Z :=
  let fids := chain (fns h) (@fnxt) (S (nextf h)) (hhead h) in
  let per_f := map (fun fi => match mget (fns h) fi with
                              | Some f => chain (cns h) (@cnxt Z) (S (nextc h)) (fhead f)
                              | None => [] end) fids in
  let cids := List.concat per_f in
  [ref fids (hhead h); Z.of_nat (List.length fids); Z.of_nat (List.length (dict h))] ++
  List.concat (map (fun '(fi, cs) =>
     match mget (fns h) fi with
     | None => [(-3)%Z]
     | Some f =>
         [Z.of_nat (ffreq f); ref fids (fpre f); ref fids (fnxt f); ref cids (fhead f); ref cids (ftail f);
          Z.of_nat (List.length cs)] ++
         List.concat (map (fun ci => match mget (cns h) ci with
                                | None => [(-3)%Z]
                                | Some c => [ckey c; ccont c; ref fids (cfn c); ref cids (cpre c); ref cids (cnxt c);
                                             ref cids (lookup (ckey c) (dict h))]
                                end) cs)
     end) (combine fids per_f)).

Local Open Scope uint63_scope.
Definition ghash (h0 : int) (l : list Z) : int := fold_left (fun a z => mix a (of_Z z)) l h0.

(* per-step chained hashes of (output, full graph); then outputs and the final graph in full *)
Fixpoint htrace (h : heapZ) (a : int) (ops : list op) : option (list int * list (option Z) * heapZ) :=
  match ops with
  | [] => Some ([], [], h)
  | o :: r =>
      match hstep h o with
      | None => None
      | Some (h1, out) =>
          let a1 := ghash (mix_out a out) (graph_ints h1) in
          match htrace h1 a1 r with
          | None => None
          | Some (hs, outs, hf) =>
              Some (a1 :: hs, match o with OGet _ => out :: outs | OSet _ _ => outs end, hf)
          end
      end
  end.

Definition heap_trace_sx (c : nat) (ops : list op) : sx :=
  match htrace (hempty c) 0 ops with
  | None => SA "error"
  | Some (hs, outs, hf) =>
      SL [sx_list (fun x => SZ (to_Z x)) hs; sx_list sx_out outs; sx_list SZ (graph_ints hf)]
  end.

(* exhaustive exploration, mirroring LfuShow.explore/group/all_groups: the sum
   over all sequences extending the current one of the final chained hash *)
Fixpoint hexplore (nkeys : nat) (d : nat) (h : heapZ) (a : int) (t : Z) : int :=
  match d with
  | O => a
  | S d' =>
      fold_left (fun acc k =>
         let kz := Z.of_nat k in
         acc + (match hstep h (OGet kz) with
                | Some (h1, o1) => hexplore nkeys d' h1 (ghash (mix_out a o1) (graph_ints h1)) (t + 1)%Z
                | None => 0 end)
             + (match hstep h (OSet kz t) with
                | Some (h2, o2) => hexplore nkeys d' h2 (ghash (mix_out a o2) (graph_ints h2)) (t + 1)%Z
                | None => 0 end))
        (seq 0 nkeys) a
  end.

Definition hgroup (nkeys d c : nat) (first : op) : int :=
  match hstep (hempty c) first with
  | Some (h1, o1) => hexplore nkeys d h1 (ghash (mix_out 0 o1) (graph_ints h1)) 2%Z
  | None => 0
  end.

Definition all_hgroups (nkeys d c : nat) : list int :=
  flat_map (fun k => let kz := Z.of_nat k in
                     [hgroup nkeys d c (OGet kz); hgroup nkeys d c (OSet kz 1%Z)]) (seq 0 nkeys).

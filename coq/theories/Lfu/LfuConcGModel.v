(** The interleaving semantics of LfuConcModel.v once more, generic in the type [O] of calls
    and [R] of results, so that ALL entry points of LFUCache are calls:
      [CGet k]            get(key)                       - with self.lock
      [CSet k rt v]       set(key, report_type, value)   - with self.lock (rt = None: the plain form)
      [CContains k]       key in cache                   - LOCK-FREE: one dict lookup, no lock
    over the heap with report-type contents ([heap content]).  A call [o] with [reader o = true]
    is not logged (it never takes the lock); its results are collected in [gobs], the results
    of the locking calls in [gouts].  Definitions only. *)
From Coq Require Import List ZArith Bool Arith.
Import ListNotations.
From DD Require Import Lfu.LfuModel Lfu.LfuRtModel Lfu.LfuHeapModel Lfu.LfuConcModel Lfu.LfuAuxModel.

Set Implicit Arguments.
Section G.
Variables (val O R : Type).

Inductive gcode : Type :=
| GDone (r : R)
| GFail
| GAct (B : Type) (p : prim val B) (k : B -> gcode)
| GAcq (k : gcode)
| GRel (k : gcode).

Fixpoint gembed {A} (p : prog val A) (f : A -> gcode) : gcode :=
  match p with
  | @Ret _ _ a => f a
  | @Fail _ _ => GFail
  | @Act _ _ _ pr k => GAct pr (fun b => gembed (k b) f)
  end.
Definition gfin (r : R) : gcode := GRel (GDone r).
Definition glocked (p : prog val R) : gcode := GAcq (gembed p gfin).

Record gthread := mkGT {
  gtodo : list O; gcur : option (O * gcode);
  gouts : list R;                       (* results of the locking calls *)
  gobs : list R;                        (* results of the lock-free calls *)
  gcrashed : bool }.
Record gconfig := mkGC { gheap : heap val; glock : option tid; gthreads : list gthread; glog : list (tid * O) }.

Definition ginit (h : heap val) (progs : list (list O)) : gconfig :=
  mkGC h None (map (fun p => mkGT p None [] [] false) progs) [].
Definition gwith_thread (cfg : gconfig) (t : tid) (th : gthread) : gconfig :=
  mkGC (gheap cfg) (glock cfg) (upd (gthreads cfg) t th) (glog cfg).

Variable reader : O -> bool.
Variable impl : O -> gcode.

Definition gtstep (cfg : gconfig) (t : tid) : option gconfig :=
  match nth_error (gthreads cfg) t with
  | None => None
  | Some th =>
      match gcur th with
      | None =>
          match gtodo th with
          | [] => None
          | o :: r => Some (gwith_thread cfg t (mkGT r (Some (o, impl o)) (gouts th) (gobs th) false))
          end
      | Some (o, c) =>
          let crash := mkGC (gheap cfg) (release_if (glock cfg) t)
                            (upd (gthreads cfg) t (mkGT [] None (gouts th) (gobs th) true)) (glog cfg) in
          match c with
          | GDone r =>
              Some (gwith_thread cfg t
                      (if reader o then mkGT (gtodo th) None (gouts th) (gobs th ++ [r]) false
                       else mkGT (gtodo th) None (gouts th ++ [r]) (gobs th) false))
          | GFail => Some crash
          | GAct p k =>
              match sem p (gheap cfg) with
              | Some (h1, b) => Some (mkGC h1 (glock cfg) (upd (gthreads cfg) t (mkGT (gtodo th) (Some (o, k b)) (gouts th) (gobs th) false)) (glog cfg))
              | None => Some crash
              end
          | GAcq k =>
              match glock cfg with
              | Some _ => None
              | None => Some (mkGC (gheap cfg) (Some t) (upd (gthreads cfg) t (mkGT (gtodo th) (Some (o, k)) (gouts th) (gobs th) false))
                                   (glog cfg ++ [(t, o)]))
              end
          | GRel k =>
              Some (mkGC (gheap cfg) (release_if (glock cfg) t)
                         (upd (gthreads cfg) t (mkGT (gtodo th) (Some (o, k)) (gouts th) (gobs th) false)) (glog cfg))
          end
      end
  end.

Fixpoint gexec (cfg : gconfig) (sch : list tid) : option gconfig :=
  match sch with
  | [] => Some cfg
  | t :: r => match gtstep cfg t with Some cfg1 => gexec cfg1 r | None => None end
  end.
Fixpoint gexec_skip (cfg : gconfig) (sch : list tid) : gconfig :=
  match sch with
  | [] => cfg
  | t :: r => gexec_skip (match gtstep cfg t with Some cfg1 => cfg1 | None => cfg end) r
  end.

Definition gthread_done (th : gthread) : bool := match gcur th, gtodo th with None, [] => true | _, _ => false end.
Definition gall_done (cfg : gconfig) : bool := forallb gthread_done (gthreads cfg).
Definition gany_crashed (cfg : gconfig) : bool := existsb gcrashed (gthreads cfg).

(** sequential reference *)
Variable sstep : heap val -> O -> option (heap val * R).
Fixpoint glrun (h : heap val) (l : list (tid * O)) : option (heap val * list (tid * R)) :=
  match l with
  | [] => Some (h, [])
  | (t, o) :: r =>
      do so <- sstep h o;
      do rr <- glrun (fst so) r;
      Some (fst rr, (t, snd so) :: snd rr)
  end.
Definition lk_ops (l : list O) : list O := filter (fun o => negb (reader o)) l.
End G.

(* ------------------------------------------------------------------ *)
(** * The calls of LFUCache *)
Inductive call := CGet (k : key) | CSet (k : key) (rt : option rtype) (v : Z) | CContains (k : key).
Inductive cres := XContent (c : content) | XNotFound | XDone | XRaised | XBool (b : bool).

Definition is_reader (o : call) : bool := match o with CContains _ => true | _ => false end.

(* set(key, report_type, value) as a program: LfuAuxModel.hset_rt statement for statement *)
Definition hset_rt_p (k : key) (rt : option rtype) (v : Z) : prog content bool :=
  pbind (lookup_p k) (fun r =>
  match r with
  | Some nid =>
      match rt with
      | Some rr =>
          pbind (getc_p (Some nid)) (fun c =>
          match ccont c with
          | CRep d => pbind (putc_p (Some nid) (with_ccont (CRep (add_rep rr v d)))) (fun _ => Ret content false)
          | CVal _ => Ret content true
          end)
      | None => pbind (putc_p (Some nid) (with_ccont (CVal v))) (fun _ => Ret content false)
      end
  | None =>
      pbind cap_p (fun c => pbind dictlen_p (fun n =>
      pbind (if Nat.leb c n then dump_cache_p else skip) (fun _ =>
      pbind (create_cache_node_p k (new_content rt v)) (fun _ => Ret content false))))
  end).

Definition call_body (o : call) : prog content cres :=
  match o with
  | CGet k => pbind (hget_p k) (fun r => Ret content (match r with Some c => XContent c | None => XNotFound end))
  | CSet k rt v => pbind (hset_rt_p k rt v) (fun b => Ret content (if b then XRaised else XDone))
  | CContains k => pbind (lookup_p k) (fun r => Ret content (XBool (match r with Some _ => true | None => false end)))
  end.

(* lfucache.py: get / set under the lock, __contains__ without *)
Definition call_impl (o : call) : gcode content cres :=
  match o with
  | CContains k => GAct (PLookup content k) (fun r => GDone content (XBool (match r with Some _ => true | None => false end)))
  | _ => glocked (call_body o)
  end.

(* the sequential meaning of a call *)
Definition call_step (h : heap content) (o : call) : option (heap content * cres) :=
  match o with
  | CGet k => do r <- hget h k; Some (fst r, match snd r with Some c => XContent c | None => XNotFound end)
  | CSet k rt v => do r <- hset_rt h k rt v; Some (fst r, if snd r then XRaised else XDone)
  | CContains k => Some (h, XBool (match lookup k (dict h) with Some _ => true | None => false end))
  end.

(* the get / set calls of a log as a trace of LfuRtModel.v *)
Fixpoint rops_of (l : list (tid * call)) : list rop :=
  match l with
  | [] => []
  | (_, CGet k) :: r => RGet k :: rops_of r
  | (_, CSet k rt v) :: r => RSet k rt v :: rops_of r
  | (_, CContains _) :: r => rops_of r
  end.

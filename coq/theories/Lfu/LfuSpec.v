(** The abstract specification C18 is stated against: a bounded map in which
    every entry carries its number of uses, kept in ONE list ordered by the
    time at which each entry reached its current count (oldest first).
    - get of a present key returns its value, counts one use and (having just
      reached a new count) moves the entry to the end;
    - set of a present key replaces the value and nothing else;
    - set of an absent key on a full map first evicts the victim: the first
      entry (= the one that has had its count longest) among those with the
      fewest uses; the new entry starts with 0 uses at the end.
    Definitions only. *)
From Coq Require Import List ZArith Bool Arith.
Import ListNotations.
From DD Require Import Lfu.LfuModel.

(* generic in the content type [val], like the model *)
Set Implicit Arguments.
Set Maximal Implicit Insertion.
Section Gen.
Variable val : Type.
Local Notation bucket := (bucket val).
Local Notation op := (op val).

Record entry := mkE { ekey : key; evalue : val; euses : nat }.
Record spec := mkS { scap : nat; entries : list entry }.

Definition sempty (c : nat) : spec := mkS c [].

Definition sfind (k : key) (l : list entry) : option entry :=
  find (fun e => Z.eqb (ekey e) k) l.
Definition sremove (k : key) (l : list entry) : list entry :=
  filter (fun e => negb (Z.eqb (ekey e) k)) l.
Fixpoint sreplace (k : key) (v : val) (l : list entry) : list entry :=
  match l with
  | [] => []
  | e :: r => if Z.eqb (ekey e) k then mkE (ekey e) v (euses e) :: r
              else e :: sreplace k v r
  end.

Fixpoint min_uses (l : list entry) : nat :=
  match l with
  | [] => 0
  | [e] => euses e
  | e :: r => Nat.min (euses e) (min_uses r)
  end.
Definition victim (l : list entry) : option entry :=
  find (fun e => Nat.eqb (euses e) (min_uses l)) l.
Definition evict (l : list entry) : list entry :=
  match victim l with
  | Some e => sremove (ekey e) l
  | None => l
  end.

Definition sget (s : spec) (k : key) : spec * option val :=
  match sfind k (entries s) with
  | Some e => (mkS (scap s) (sremove k (entries s) ++ [mkE k (evalue e) (S (euses e))]),
               Some (evalue e))
  | None => (s, None)
  end.

Definition sset (s : spec) (k : key) (v : val) : spec :=
  match sfind k (entries s) with
  | Some _ => mkS (scap s) (sreplace k v (entries s))
  | None =>
      let l := if Nat.leb (scap s) (length (entries s)) then evict (entries s) else entries s in
      mkS (scap s) (l ++ [mkE k v 0])
  end.

Definition sstep (s : spec) (o : op) : spec * option val :=
  match o with
  | OGet k => sget s k
  | OSet k v => (sset s k v, None)
  end.

Fixpoint srun (s : spec) (ops : list op) : spec * list (option val) :=
  match ops with
  | [] => (s, [])
  | o :: r => let '(s1, out) := sstep s o in
              let '(s2, outs) := srun s1 r in
              (s2, match o with OGet _ => out :: outs | OSet _ _ => outs end)
  end.

(** The refinement relation: bucket [f] of the concrete state holds exactly
    the entries with [f] uses, in the spec's order. *)
Definition of_uses (f : nat) (l : list entry) : list (key * val) :=
  map (fun e => (ekey e, evalue e)) (filter (fun e => Nat.eqb (euses e) f) l).
Fixpoint bucket_items (f : nat) (bs : list bucket) : list (key * val) :=
  match bs with
  | [] => []
  | b :: r => if Nat.eqb (freq b) f then items b else bucket_items f r
  end.

End Gen.
Arguments sempty {val} c.

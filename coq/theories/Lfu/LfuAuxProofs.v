(** C18: the remaining methods of lfucache.py at the pointer level (LfuAuxModel.v):
    - the report-type form of [set] on the heap refines [set_rt] of LfuRtModel.v
      ([hset_rt_refines], [rt_heap_refines]);
    - [get_sorted_cache_keys] returns every (key, frequency of its bucket) exactly once,
      in descending frequency, ties in dict order ([sorted_keys_spec], [sort_desc_stable]);
    - [get_average_frequency] is (sum of all frequencies, number of keys) ([avg_freq_spec]). *)
From Coq Require Import List ZArith Bool Arith Lia Permutation Sorted.
Import ListNotations.
From DD Require Import Lfu.LfuModel Lfu.LfuSpec Lfu.LfuInv Lfu.LfuSpecProps Lfu.LfuProofs.
From DD Require Import Lfu.LfuRtModel Lfu.LfuRtProofs Lfu.LfuHeapModel Lfu.LfuHeapProofs Lfu.LfuAuxModel.

Lemma dseg_in {A} (idof : A -> id) (P : A -> option id -> option id -> Prop) l : forall p n a,
  dseg idof P p l n -> In a l -> exists p' n', P a p' n'.
Proof.
  induction l as [|x r IH]; intros p n a H Hin; [destruct Hin|].
  cbn [dseg] in H. destruct H as [Hx Hr]. destruct Hin as [->|Hin]; [eauto|]. exact (IH _ _ _ Hr Hin).
Qed.

(* ------------------------------------------------------------------ *)
(** * The stable descending sort *)
Definition desc (a b : key * nat) : Prop := snd b <= snd a.

Lemma ins_desc_perm x l : Permutation (ins_desc x l) (x :: l).
Proof.
  induction l as [|y r IH]; cbn [ins_desc]; [apply Permutation_refl|].
  destruct (Nat.leb (snd y) (snd x)); [apply Permutation_refl|].
  apply perm_trans with (y :: x :: r); [apply perm_skip; exact IH|apply perm_swap].
Qed.
Lemma sort_desc_perm l : Permutation (sort_desc l) l.
Proof.
  induction l as [|x r IH]; cbn [sort_desc fold_right]; [constructor|].
  apply perm_trans with (x :: sort_desc r); [apply ins_desc_perm|apply perm_skip; exact IH].
Qed.

Lemma ins_desc_sorted x l : StronglySorted desc l -> StronglySorted desc (ins_desc x l).
Proof.
  induction l as [|y r IH]; intros H; cbn [ins_desc]; [repeat constructor|].
  inversion H as [|? ? Hr Hy]; subst.
  destruct (Nat.leb_spec (snd y) (snd x)) as [Hle|Hgt].
  - constructor; [exact H|]. constructor; [exact Hle|].
    rewrite Forall_forall in *. intros z Hz. specialize (Hy z Hz). unfold desc in *. lia.
  - constructor; [exact (IH Hr)|].
    rewrite Forall_forall in *. intros z Hz.
    apply (Permutation_in _ (ins_desc_perm x r)) in Hz. destruct Hz as [<-|Hz]; [unfold desc; lia|exact (Hy z Hz)].
Qed.
Lemma sort_desc_sorted l : StronglySorted desc (sort_desc l).
Proof. induction l as [|x r IH]; cbn [sort_desc fold_right]; [constructor|apply ins_desc_sorted; exact IH]. Qed.

(** stability: the entries of any one frequency keep their original relative order *)
Lemma ins_desc_stable n x l :
  filter (fun y => Nat.eqb (snd y) n) (ins_desc x l) = filter (fun y => Nat.eqb (snd y) n) (x :: l).
Proof.
  induction l as [|y r IH]; cbn [ins_desc]; [reflexivity|].
  destruct (Nat.leb_spec (snd y) (snd x)) as [Hle|Hgt]; [reflexivity|].
  cbn [filter] in *. rewrite IH.
  destruct (Nat.eqb_spec (snd y) n) as [E1|N1]; destruct (Nat.eqb_spec (snd x) n) as [E2|N2]; try reflexivity.
  lia.
Qed.
Theorem sort_desc_stable n l :
  filter (fun y => Nat.eqb (snd y) n) (sort_desc l) = filter (fun y => Nat.eqb (snd y) n) l.
Proof.
  induction l as [|x r IH]; cbn [sort_desc fold_right]; [reflexivity|].
  fold (sort_desc r). rewrite ins_desc_stable. cbn [filter]. rewrite IH. reflexivity.
Qed.

Lemma sum_freqs_perm l l' : Permutation l l' -> sum_freqs l = sum_freqs l'.
Proof. induction 1; unfold sum_freqs in *; cbn [fold_right] in *; lia. Qed.

Section Gen.
Variable val : Type.
Local Notation heap := (heap val).
Local Notation lfu := (lfu val).
Local Notation bucket := (bucket val).

(* ------------------------------------------------------------------ *)
(** * A key's node and its frequency node, from the representation *)
Lemma node_freq_wf (h : heap) sh e (a : centry val) :
  wf h sh -> In e sh -> In a (fits val e) -> node_freq h (cid a) = Some (ffr val e).
Proof.
  intros (HF & _) He Ha. unfold flist in HF.
  destruct (dseg_in (fid val) (fP val h) sh None None e HF He) as (p & n & [Hf Hc]).
  unfold clist in Hc. destruct (dseg_in cid (cP val h (fid val e)) (fits val e) None None a Hc Ha) as (p' & n' & Hca).
  unfold cP in Hca. unfold node_freq. rewrite getc_some, Hca. cbn [bind cfn]. rewrite getf_some, Hf. reflexivity.
Qed.

Definition G (h : heap) (kn : key * id) : key * nat :=
  (fst kn, match node_freq h (snd kn) with Some f => f | None => 0 end).

Lemma key_freqs_map (h : heap) d :
  (forall kn, In kn d -> node_freq h (snd kn) <> None) -> key_freqs h d = Some (map (G h) d).
Proof.
  induction d as [|[k nid] r IH]; intros H; [reflexivity|]. cbn [key_freqs map].
  assert (H0 := H (k, nid) (or_introl eq_refl)). cbn [snd] in H0. unfold G at 1. cbn [fst snd].
  destruct (node_freq h nid) as [f|]; [|congruence]. cbn [bind].
  rewrite IH by (intros kn Hin; apply H; right; exact Hin). reflexivity.
Qed.

(* the decorated bucket list: (key, frequency of the bucket) in walk order *)
Definition kf_sh (sh : list (fentry val)) : list (key * nat) :=
  flat_map (fun e => map (fun a => (akey a, ffr val e)) (fits val e)) sh.

Lemma kf_sh_erase sh : key_freqs_of (erase sh) = kf_sh sh.
Proof.
  unfold key_freqs_of, kf_sh, erase. induction sh as [|e r IH]; [reflexivity|].
  cbn [map flat_map]. rewrite IH. f_equal. cbn [erase_f items freq]. rewrite map_map. reflexivity.
Qed.

Lemma map_G_pairs (h : heap) sh : wf h sh -> map (G h) (pairs val sh) = kf_sh sh.
Proof.
  intros W. unfold pairs, kf_sh, all_c. rewrite map_map.
  assert (Q : forall s, (forall e, In e s -> In e sh) ->
              map (fun a => G h (akey a, cid a)) (flat_map (fits val) s) =
              flat_map (fun e => map (fun a => (akey a, ffr val e)) (fits val e)) s).
  { induction s as [|e r IH]; intros Hs; [reflexivity|]. cbn [flat_map]. rewrite map_app.
    rewrite IH by (intros x Hx; apply Hs; right; exact Hx). f_equal.
    apply map_ext_in. intros a Ha. unfold G. cbn [fst snd].
    rewrite (node_freq_wf h sh e a W (Hs e (or_introl eq_refl)) Ha). reflexivity. }
  apply Q. auto.
Qed.

Lemma key_freqs_repr (h : heap) (s : lfu) : heap_repr h s ->
  exists l, key_freqs h (dict h) = Some l /\ Permutation l (key_freqs_of (buckets s)).
Proof.
  intros (sh & W & E & _). exists (map (G h) (dict h)). split.
  - apply key_freqs_map. intros [k nid] Hin. pose proof W as (_ & _ & _ & _ & HD & _).
    apply (Permutation_in _ HD) in Hin. unfold pairs in Hin. apply in_map_iff in Hin.
    destruct Hin as (a & Ea & Ha). inversion Ea; subst k nid. cbn [snd].
    unfold all_c in Ha. apply in_flat_map in Ha. destruct Ha as (e & He & Hae).
    rewrite (node_freq_wf h sh e a W He Hae). discriminate.
  - rewrite <- E, kf_sh_erase, <- (map_G_pairs h sh W). apply Permutation_map.
    destruct W as (_ & _ & _ & _ & HD & _). exact HD.
Qed.

Lemma key_freqs_of_length (bs : list bucket) : length (key_freqs_of bs) = length (all_items bs).
Proof.
  unfold key_freqs_of, all_items. induction bs as [|b r IH]; [reflexivity|].
  cbn [flat_map]. rewrite !app_length, map_length, IH. reflexivity.
Qed.

(** get_sorted_cache_keys on a heap representing [s]: every (key, frequency of its bucket)
    exactly once (a permutation), descending by frequency *)
Theorem sorted_keys_spec (h : heap) (s : lfu) : heap_repr h s ->
  exists l, h_sorted_keys h = Some l /\
            Permutation l (key_freqs_of (buckets s)) /\ StronglySorted desc l.
Proof.
  intros HR. destruct (key_freqs_repr h s HR) as (l0 & E & P). exists (sort_desc l0).
  unfold h_sorted_keys. rewrite E. cbn [bind]. split; [reflexivity|].
  split; [exact (perm_trans (sort_desc_perm l0) P)|apply sort_desc_sorted].
Qed.

(** get_average_frequency: (sum of the frequencies of all keys, number of keys) *)
Theorem avg_freq_spec (h : heap) (s : lfu) : heap_repr h s ->
  h_avg_freq h = Some (sum_freqs (key_freqs_of (buckets s)), size s).
Proof.
  intros HR. destruct (key_freqs_repr h s HR) as (l0 & E & P).
  unfold h_avg_freq. rewrite E. cbn [bind]. rewrite (sum_freqs_perm _ _ P), (Permutation_length P).
  rewrite key_freqs_of_length, size_all_items. reflexivity.
Qed.

(** the node of a key and its content, from the representation *)
Lemma repr_find (h : heap) (s : lfu) k : heap_repr h s ->
  match find_key k (buckets s) with
  | Some (u, v) => exists nid c, lookup k (dict h) = Some nid /\ getc h (Some nid) = Some c /\ ccont c = v
  | None => lookup k (dict h) = None
  end.
Proof.
  intros (sh & W & E & _). rewrite <- E.
  destruct (find_key k (erase sh)) as [[u v]|] eqn:FK.
  - destruct (find_key_split val k sh u v FK) as (s1 & fi & f & l1 & a & l2 & s2 & Es & Ek & Ev & Eu & Fn & Ln).
    subst sh. pose proof W as (HS & _).
    assert (Hina : In a (all_c (s1 ++ (fi, (f, l1 ++ a :: l2)) :: s2))).
    { rewrite all_c_app, all_c_cons. apply in_or_app. right. apply in_or_app. left. cbn [fits snd]. apply in_or_app. right. left. reflexivity. }
    pose proof (dict_lookup val h _ a W Hina) as Lk. rewrite Ek in Lk.
    unfold flist in HS. apply dseg_app in HS. destruct HS as [_ HS2]. cbn [dseg] in HS2.
    destruct HS2 as ([_ HL] & _). cbn [fid fits fst snd] in HL. unfold clist in HL. apply dseg_app in HL.
    destruct HL as [_ HL2]. cbn [dseg] in HL2. destruct HL2 as [Ha _]. unfold cP in Ha.
    eexists _, _. split; [exact Lk|]. rewrite getc_some. split; [exact Ha|]. cbn [ccont]. exact Ev.
  - exact (dict_lookup_none val h sh k W (find_key_none_keys val k sh FK)).
Qed.

End Gen.

(* ------------------------------------------------------------------ *)
(** * set(key, report_type, value) at the pointer level *)
Theorem hset_rt_refines (h : heap content) (s : lfu content) k rt v :
  1 <= cap s -> nonempty (buckets s) -> heap_repr h s ->
  exists h', hset_rt h k rt v = Some (h', snd (set_rt s k rt v)) /\
             heap_repr h' (fst (set_rt s k rt v)).
Proof.
  intros Hc Hne HR. rewrite set_rt_lower. pose proof (repr_find content h s k HR) as F.
  unfold lower, hset_rt. destruct (find_key k (buckets s)) as [[u c0]|].
  - destruct F as (nid & cn & Lk & Gc & Ec). rewrite Lk.
    assert (SET : forall c', exists h', putc h (Some nid) (with_ccont c') = Some h' /\ heap_repr h' (set s k c')).
    { intros c'. destruct (hset_refines content h s k c' Hc Hne HR) as (h' & E' & R').
      unfold hset in E'. rewrite Lk in E'. eauto. }
    destruct rt as [r|]; cbn [upd_content].
    + rewrite Gc. cbn [bind]. rewrite Ec. destruct c0 as [x|d].
      * exists h. cbn [fst snd]. split; [reflexivity|exact HR].
      * destruct (SET (CRep (add_rep r v d))) as (h' & E' & R'). rewrite E'. cbn [bind fst snd]. eauto.
    + destruct (SET (CVal v)) as (h' & E' & R'). rewrite E'. cbn [bind fst snd]. eauto.
  - rewrite F. destruct (hset_refines content h s k (new_content rt v) Hc Hne HR) as (h' & E' & R').
    unfold hset in E'. rewrite F in E'.
    destruct (if Nat.leb (hcap h) (length (dict h)) then dump_cache h else Some h) as [h1|]; cbn [bind] in *; [|discriminate].
    rewrite E'. cbn [bind fst snd]. eauto.
Qed.

Lemma rstep_cap (s : lfu content) o : cap (fst (rstep s o)) = cap s.
Proof.
  destruct o as [k|k rt v]; cbn [rstep fst].
  - exact (step_cap s (OGet k)).
  - rewrite set_rt_lower. destruct (lower s k rt v) as [c|]; cbn [fst]; [exact (step_cap s (OSet k c))|reflexivity].
Qed.
Lemma rstep_inv (s : lfu content) o : 1 <= cap s -> inv s -> inv (fst (rstep s o)).
Proof.
  intros Hc Hi. destruct o as [k|k rt v]; cbn [rstep fst].
  - exact (step_inv s (OGet k) Hc Hi).
  - rewrite set_rt_lower. destruct (lower s k rt v) as [c|]; cbn [fst]; [exact (step_inv s (OSet k c) Hc Hi)|exact Hi].
Qed.

Theorem hrstep_refines (h : heap content) (s : lfu content) o :
  1 <= cap s -> nonempty (buckets s) -> heap_repr h s ->
  exists h', hrstep h o = Some (h', snd (rstep s o)) /\ heap_repr h' (fst (rstep s o)).
Proof.
  intros Hc Hne HR. destruct o as [k|k rt v]; cbn [hrstep rstep fst snd].
  - destruct (hget_refines content h s k HR) as (h' & E' & R'). rewrite E'. cbn [bind fst snd]. eauto.
  - destruct (hset_rt_refines h s k rt v Hc Hne HR) as (h' & E' & R'). rewrite E'. cbn [bind fst snd]. eauto.
Qed.

Theorem hrrun_refines ops : forall (h : heap content) (s : lfu content),
  1 <= cap s -> inv s -> heap_repr h s ->
  exists h', hrrun h ops = Some (h', snd (rrun s ops)) /\ heap_repr h' (fst (rrun s ops)).
Proof.
  induction ops as [|o r IH]; intros h s Hc Hi HR.
  - exists h. split; [reflexivity|exact HR].
  - destruct (hrstep_refines h s o Hc (proj1 (proj2 Hi)) HR) as (h1 & E1 & R1).
    destruct (IH h1 (fst (rstep s o))) as (h' & E' & R').
    + rewrite rstep_cap. exact Hc.
    + exact (rstep_inv s o Hc Hi).
    + exact R1.
    + exists h'. cbn [hrrun rrun fst snd]. rewrite E1. cbn [bind fst snd]. rewrite E'. cbn [bind fst snd].
      split; [reflexivity|exact R'].
Qed.

(** all traces of get / set / set-with-report-type from the empty cache: the pointer-level
    model never hits the error value, produces every output of LfuRtModel.v (contents,
    not_found, done, raised) and ends in a heap representing its final state *)
Theorem rt_heap_refines c ops : 1 <= c ->
  exists h', hrrun (hempty c) ops = Some (h', snd (rrun (empty c) ops)) /\ heap_repr h' (rstate_of c ops).
Proof. intros Hc. exact (hrrun_refines ops (hempty c) (empty c) Hc (empty_inv c) (hempty_repr content c)). Qed.

Local Open Scope Z_scope.
Example ex_rt_heap :
  option_map snd (hrrun (hempty 2) [RSet 1 (Some 7) 10; RSet 1 (Some 8) 11; RSet 1 (Some 7) 12; RSet 2 None 5; RSet 2 (Some 7) 6;
                                    RGet 1; RSet 3 None 9; RGet 2]) =
  Some [RDone; RDone; RDone; RDone; RRaised; RContent (CRep [(7, [10; 12]); (8, [11])]); RDone; RNotFound].
Proof. vm_compute. reflexivity. Qed.

Example ex_sorted_keys :
  match hrun (hempty 3) [OSet 1 10; OSet 2 20; OGet 2; OSet 3 30; OGet 2; OGet 1; OSet 1 11] with
  | Some (h, _) => (h_sorted_keys h, h_avg_freq h)
  | None => (None, None)
  end = (Some [(2, 2%nat); (1, 1%nat); (3, 0%nat)], Some (3%nat, 3%nat)).
Proof. vm_compute. reflexivity. Qed.

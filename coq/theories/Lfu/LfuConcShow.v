(** Correspondence-side rendering for the interleaving semantics of
    LfuConcModel.v (no theorem depends on this file): the configuration reached
    by a schedule given as blocks (see [run_block]); a scheduled thread that is
    not enabled (finished, or waiting for the lock) is skipped. *)
From Coq Require Import List ZArith Bool Arith String.
Import ListNotations.
From DD Require Import Base.Sx Lfu.LfuModel Lfu.LfuHeapModel Lfu.LfuShow Lfu.LfuHeapShow Lfu.LfuConcModel.
Local Open Scope string_scope.

(* schedule blocks: (t, 0, n) = n steps of thread t (skipped while t is not enabled);
   (t, 1, n) = thread t runs until it has returned from n more calls (or is not enabled) *)
Definition nouts (cfg : config Z) (t : nat) : nat :=
  match nth_error (threads cfg) t with Some th => List.length (outs th) | None => 0 end.
Fixpoint run_call (impl : op -> cprog Z) (cfg : config Z) (t : nat) (fuel : nat) : config Z :=
  match fuel with
  | O => cfg
  | S f => match tstep impl cfg t with
           | None => cfg
           | Some c1 => if Nat.ltb (nouts cfg t) (nouts c1 t) then c1 else run_call impl c1 t f
           end
  end.
Fixpoint run_calls (impl : op -> cprog Z) (cfg : config Z) (t n : nat) : config Z :=
  match n with O => cfg | S m => run_calls impl (run_call impl cfg t 5000) t m end.
Definition run_block (impl : op -> cprog Z) (cfg : config Z) (b : nat * nat * nat) : config Z :=
  let '(t, kind, n) := b in
  match kind with
  | O => exec_skip impl cfg (repeat t n)
  | _ => run_calls impl cfg t n
  end.

Definition sx_op (o : op) : sx :=
  match o with
  | OGet k => SL [SA "get"; SZ k; SZ 0]
  | OSet k v => SL [SA "set"; SZ k; SZ v]
  end.

(* [all threads finished; some call raised; calls in lock-acquisition order;
    values returned per thread; full pointer graph of the shared heap] *)
Definition conc_sx (readfirst : bool) (c : nat) (progs : list (list op)) (sch : list (nat * nat * nat)) : sx :=
  let cfg := fold_left (run_block (if readfirst then @impl_readfirst Z else @impl_locked Z)) sch
                       (init (hempty c) progs) in
  SL [sx_bool (all_done cfg); sx_bool (any_crashed cfg);
      sx_list (fun x => SL [sx_nat (fst x); sx_op (snd x)]) (clog cfg);
      sx_list (fun th => sx_list sx_out (outs th)) (threads cfg);
      sx_list SZ (graph_ints (cheap cfg))].

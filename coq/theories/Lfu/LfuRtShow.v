(** Correspondence-side rendering for the report_type extension (no theorem
    depends on this file). *)
From Coq Require Import List ZArith Bool Arith String.
Import ListNotations.
From DD Require Import Base.Sx Lfu.LfuModel Lfu.LfuRtModel.
Local Open Scope string_scope.

Definition sx_content (c : content) : sx :=
  match c with
  | CVal v => SL [SA "val"; SZ v]
  | CRep d => SL [SA "rep"; sx_list (fun p => SL [SZ (fst p); sx_list SZ (snd p)]) d]
  end.
Definition sx_rout (o : rout) : sx :=
  match o with
  | RContent c => SL [SA "got"; sx_content c]
  | RNotFound => SA "not_found"
  | RDone => SA "done"
  | RRaised => SA "raised"
  end.
Definition sx_rstate (s : lfu content) : sx :=
  sx_list (fun b => SL [sx_nat (freq b); sx_list (fun kv => SL [SZ (fst kv); sx_content (snd kv)]) (items b)]) (buckets s).

(* all outputs, then the structure after every step *)
Fixpoint rstates (s : lfu content) (ops : list rop) : list sx :=
  match ops with
  | [] => []
  | o :: r => let s1 := fst (rstep s o) in sx_rstate s1 :: rstates s1 r
  end.
(* kept small per case (a mismatch is rendered as text): outputs + final
   structure in one case, the structures after steps 10j .. 10j+9 in another *)
Definition rt_outs_sx (c : nat) (ops : list rop) : sx :=
  let r := rrun (empty c) ops in
  SL [sx_list sx_rout (snd r); sx_rstate (fst r)].
Definition rt_states_sx (c : nat) (ops : list rop) (j : nat) : sx :=
  SL (firstn 10 (skipn (10 * j) (rstates (empty c) ops))).

(** Model of deepdiff/lfucache.py (LFUCache with plain values: the only form
    deepdiff itself uses, [set(key, value=v)]; the report_type form is layered
    on top in LfuRt.v).

    The two doubly linked lists (frequency nodes, cache nodes under each) are
    represented by their abstract content: an ascending list of buckets, each a
    FIFO list (head = cache_head = oldest).  Every function follows the case
    analysis of the Python method of the same name.  Definitions only. *)
From Coq Require Import List ZArith Bool Arith.
Import ListNotations.

Definition key := Z.

(* The cache never inspects the stored content: everything below is generic in
   its type [val] (implicit argument after the section).  The correspondence
   check and LfuShow.v instantiate it with Z; LfuRt.v with the content type of
   the report_type form of [set]. *)
Set Implicit Arguments.
Set Maximal Implicit Insertion.
Section Gen.
Variable val : Type.

Record bucket := mkB { freq : nat; items : list (key * val) }.
Record lfu := mkL { cap : nat; buckets : list bucket }.   (* head = freq_link_head *)

Definition empty (c : nat) : lfu := mkL c [].

Definition has_key (k : key) (l : list (key * val)) : bool :=
  existsb (fun kv => Z.eqb (fst kv) k) l.
Fixpoint lookup (k : key) (l : list (key * val)) : option val :=
  match l with
  | [] => None
  | (k', v) :: r => if Z.eqb k' k then Some v else lookup k r
  end.
Definition remove_key (k : key) (l : list (key * val)) : list (key * val) :=
  filter (fun kv => negb (Z.eqb (fst kv) k)) l.
Fixpoint replace_val (k : key) (v : val) (l : list (key * val)) : list (key * val) :=
  match l with
  | [] => []
  | (k', v') :: r => if Z.eqb k' k then (k', v) :: r else (k', v') :: replace_val k v r
  end.

(* self.cache : key -> node; here: search all buckets *)
Fixpoint find_key (k : key) (bs : list bucket) : option (nat * val) :=
  match bs with
  | [] => None
  | b :: r => match lookup k (items b) with
              | Some v => Some (freq b, v)
              | None => find_key k r
              end
  end.
Definition contains (s : lfu) (k : key) : bool :=
  match find_key k (buckets s) with Some _ => true | None => false end.
Definition size (s : lfu) : nat :=
  fold_right (fun b n => length (items b) + n) 0 (buckets s).

(* move_forward: the node (k,v) leaves its bucket [b] and is appended to the
   tail of the bucket of frequency [freq b + 1], which is the next one if it
   has that frequency and a fresh one inserted after [b] otherwise; [b] is
   unlinked if it became empty. *)
Fixpoint move_forward (k : key) (bs : list bucket) : list bucket :=
  match bs with
  | [] => []
  | b :: r =>
      match lookup k (items b) with
      | None => b :: move_forward k r
      | Some v =>
          let rest := remove_key k (items b) in
          let r' := match r with
                    | n :: r2 => if Nat.eqb (freq n) (S (freq b))
                                 then mkB (freq n) (items n ++ [(k, v)]) :: r2
                                 else mkB (S (freq b)) [(k, v)] :: r
                    | [] => [mkB (S (freq b)) [(k, v)]]
                    end in
          match rest with
          | [] => r'
          | _ => mkB (freq b) rest :: r'
          end
      end
  end.

Definition get (s : lfu) (k : key) : lfu * option val :=
  match find_key k (buckets s) with
  | Some (_, v) => (mkL (cap s) (move_forward k (buckets s)), Some v)
  | None => (s, None)                       (* not_found *)
  end.

(* dump_cache: pop the head cache node of the head frequency node *)
Definition dump_cache (bs : list bucket) : list bucket :=
  match bs with
  | [] => []                                 (* unreachable: capacity >= 1 *)
  | b :: r => match items b with
              | [] => r                      (* unreachable: no empty bucket *)
              | [_] => r
              | _ :: it => mkB (freq b) it :: r
              end
  end.

(* create_cache_node *)
Definition create_node (k : key) (v : val) (bs : list bucket) : list bucket :=
  match bs with
  | b :: r => if Nat.eqb (freq b) 0 then mkB 0 (items b ++ [(k, v)]) :: r
              else mkB 0 [(k, v)] :: bs
  | [] => [mkB 0 [(k, v)]]
  end.

Fixpoint set_present (k : key) (v : val) (bs : list bucket) : list bucket :=
  match bs with
  | [] => []
  | b :: r => if has_key k (items b) then mkB (freq b) (replace_val k v (items b)) :: r
              else b :: set_present k v r
  end.

Definition set (s : lfu) (k : key) (v : val) : lfu :=
  if contains s k then mkL (cap s) (set_present k v (buckets s))
  else
    let bs := if Nat.leb (cap s) (size s) then dump_cache (buckets s) else buckets s in
    mkL (cap s) (create_node k v bs).

Inductive op := OGet (k : key) | OSet (k : key) (v : val).

Definition step (s : lfu) (o : op) : lfu * option val :=
  match o with
  | OGet k => get s k
  | OSet k v => (set s k v, None)
  end.

(* run a sequence, collecting the outputs of the gets *)
Fixpoint run (s : lfu) (ops : list op) : lfu * list (option val) :=
  match ops with
  | [] => (s, [])
  | o :: r => let '(s1, out) := step s o in
              let '(s2, outs) := run s1 r in
              (s2, match o with OGet _ => out :: outs | OSet _ _ => outs end)
  end.

Definition state_of (c : nat) (ops : list op) : lfu := fst (run (empty c) ops).

End Gen.
Arguments empty {val} c.
Arguments OGet {val} k.
Arguments state_of {val} c ops.

(** Concurrent use of the LFU cache: a small-step interleaving semantics of n
    threads over ONE shared heap (LfuHeapModel.v) and ONE lock.

    Layer 1 - programs.  [prim B] is ONE access to the shared heap (read a node
    record through an optional pointer, write one field, allocate one node, one
    dict operation, read / write freq_link_head, read capacity) returning a [B];
    [prog A] is a tree of such accesses.  Every method of LfuHeapModel.v is
    transcribed once more, statement for statement, with the heap left implicit:
    [do x <- getc h p; ...] becomes [bnd x <-- getc_p p;; ...].  LfuConcProofs.v
    proves [interp (op_prog o) h = hstep h o]: run without interruption the
    program IS the heap model.

    Layer 2 - threads.  A call of get / set is a [cprog]: heap accesses plus
    [CAcq] / [CRel] of the cache's lock.  [locked p] = acquire; p; release is
    [with self.lock: p] - what lfucache.py does; [readfirst] is the regression
    "dict lookup before taking the lock".  A thread executes its list of
    operations; [tstep impl cfg t] is one step of thread [t] ([None]: not
    enabled - finished, or waiting for the lock); a schedule is any list of
    thread ids, [exec] runs it.  An exception inside the critical section
    releases the lock (the [with] statement) and ends the thread ([crashed]).
    The ghost field [log] records (thread, operation) at each lock acquisition.

    Definitions only. *)
From Coq Require Import List ZArith Bool Arith.
Import ListNotations.
From DD Require Import Lfu.LfuModel Lfu.LfuHeapModel.

Set Implicit Arguments.
Set Maximal Implicit Insertion.
Section Gen.
Variable val : Type.
Local Notation cnode := (cnode val).
Local Notation heap := (heap val).
Local Notation op := (op val).

(* ------------------------------------------------------------------ *)
(** * One access to the shared heap *)
Inductive prim : Type -> Type :=
| PGetC (x : option id) : prim cnode                        (* the CacheNode behind x (AttributeError on None) *)
| PGetF (x : option id) : prim fnode                        (* the FreqNode behind x *)
| PPutC (x : option id) (g : cnode -> cnode) : prim unit    (* x.<field> = ... *)
| PPutF (x : option id) (g : fnode -> fnode) : prim unit
| PNewC (k : key) (v : val) : prim id                       (* CacheNode(key, None, value, None, None, None) *)
| PNewF (f : nat) : prim id                                 (* FreqNode(freq, None, None) *)
| PHead : prim (option id)                                  (* self.freq_link_head *)
| PSetHead (x : option id) : prim unit                      (* self.freq_link_head = x *)
| PLookup (k : key) : prim (option id)                      (* key in self.cache / self.cache[key] *)
| PDictPop (k : key) : prim unit                            (* self.cache.pop(key) *)
| PDictSet (k : key) (i : id) : prim unit                   (* self.cache[key] = node *)
| PDictLen : prim nat                                       (* len(self.cache) *)
| PCap : prim nat.                                          (* self.capacity *)

Definition sem {B} (p : prim B) (h : heap) : option (heap * B) :=
  match p in prim B return option (heap * B) with
  | PGetC x => do c <- getc h x; Some (h, c)
  | PGetF x => do f <- getf h x; Some (h, f)
  | PPutC x g => do h1 <- putc h x g; Some (h1, tt)
  | PPutF x g => do h1 <- putf h x g; Some (h1, tt)
  | PNewC k v => Some (new_cnode h k v)
  | PNewF f => Some (new_fnode h f)
  | PHead => Some (h, hhead h)
  | PSetHead x => Some (set_hhead h x, tt)
  | PLookup k => Some (h, lookup k (dict h))
  | PDictPop k => do d <- dict_pop (dict h) k; Some (set_dict h d, tt)
  | PDictSet k i => Some (set_dict h (dict_set (dict h) k i), tt)
  | PDictLen => Some (h, length (dict h))
  | PCap => Some (h, hcap h)
  end.

(* ------------------------------------------------------------------ *)
(** * Programs: trees of heap accesses *)
Inductive prog (A : Type) : Type :=
| Ret (a : A)
| Fail                                             (* an exception raised without touching the heap *)
| Act (B : Type) (p : prim B) (k : B -> prog A).
Arguments Fail {A}.

Fixpoint pbind {A C} (p : prog A) (f : A -> prog C) : prog C :=
  match p with
  | Ret a => f a
  | Fail => Fail
  | Act pr k => Act pr (fun b => pbind (k b) f)
  end.

(** uninterrupted execution *)
Fixpoint interp {A} (p : prog A) (h : heap) : option (heap * A) :=
  match p with
  | Ret a => Some (h, a)
  | Fail => None
  | Act pr k => match sem pr h with Some (h1, b) => interp (k b) h1 | None => None end
  end.

Notation "'bnd' x <-- e ;; k" := (pbind e (fun x => k))
  (at level 200, x name, e at level 100, k at level 200, right associativity).

Definition getc_p (x : option id) : prog cnode := Act (PGetC x) (@Ret _).
Definition getf_p (x : option id) : prog fnode := Act (PGetF x) (@Ret _).
Definition putc_p (x : option id) (g : cnode -> cnode) : prog unit := Act (PPutC x g) (@Ret _).
Definition putf_p (x : option id) (g : fnode -> fnode) : prog unit := Act (PPutF x g) (@Ret _).
Definition newc_p (k : key) (v : val) : prog id := Act (PNewC k v) (@Ret _).
Definition newf_p (f : nat) : prog id := Act (PNewF f) (@Ret _).
Definition head_p : prog (option id) := Act PHead (@Ret _).
Definition sethead_p (x : option id) : prog unit := Act (PSetHead x) (@Ret _).
Definition lookup_p (k : key) : prog (option id) := Act (PLookup k) (@Ret _).
Definition dictpop_p (k : key) : prog unit := Act (PDictPop k) (@Ret _).
Definition dictset_p (k : key) (i : id) : prog unit := Act (PDictSet k i) (@Ret _).
Definition dictlen_p : prog nat := Act PDictLen (@Ret _).
Definition cap_p : prog nat := Act PCap (@Ret _).
Definition skip : prog unit := Ret tt.

(* ---------------- CacheNode.free_myself ---------------- *)
Definition free_myself_p (self : id) : prog unit :=
  let me := Some self in
  bnd c <-- getc_p me;;
  bnd f <-- getf_p (cfn c);;
  bnd _ <-- (if oid_eqb (fhead f) (ftail f) then
     bnd _ <-- putf_p (cfn c) (with_fhead None);;
     putf_p (cfn c) (with_ftail None)
   else if oid_eqb (fhead f) me then
     bnd _ <-- putc_p (cnxt c) (with_cpre None);;
     bnd c1 <-- getc_p me;;
     putf_p (cfn c1) (with_fhead (cnxt c1))
   else if oid_eqb (ftail f) me then
     bnd _ <-- putc_p (cpre c) (with_cnxt None);;
     bnd c1 <-- getc_p me;;
     putf_p (cfn c1) (with_ftail (cpre c1))
   else
     bnd _ <-- putc_p (cpre c) (with_cnxt (cnxt c));;
     bnd c1 <-- getc_p me;;
     putc_p (cnxt c1) (with_cpre (cpre c1)));;
  bnd _ <-- putc_p me (with_cpre None);;
  bnd _ <-- putc_p me (with_cnxt None);;
  putc_p me (with_cfn None).

(* ---------------- FreqNode ---------------- *)
Definition count_caches_p (self : id) : prog nat :=
  bnd f <-- getf_p (Some self);;
  Ret (match fhead f, ftail f with
       | None, None => 0
       | _, _ => if oid_eqb (fhead f) (ftail f) then 1 else 2
       end).

Definition fremove_p (self : id) : prog unit :=
  let me := Some self in
  bnd f <-- getf_p me;;
  bnd _ <-- (match fpre f with
   | Some _ => putf_p (fpre f) (with_fnxt (fnxt f))
   | None => skip end);;
  bnd f1 <-- getf_p me;;
  bnd _ <-- (match fnxt f1 with
   | Some _ => putf_p (fnxt f1) (with_fpre (fpre f1))
   | None => skip end);;
  bnd _ <-- putf_p me (with_fpre None);;
  bnd _ <-- putf_p me (with_fnxt None);;
  bnd _ <-- putf_p me (with_fhead None);;
  putf_p me (with_ftail None).

Definition pop_head_cache_p (self : id) : prog unit :=
  let me := Some self in
  bnd f <-- getf_p me;;
  match fhead f, ftail f with
  | None, None => skip
  | _, _ =>
      if oid_eqb (fhead f) (ftail f) then
        bnd _ <-- putf_p me (with_fhead None);;
        putf_p me (with_ftail None)
      else
        bnd hc <-- getc_p (fhead f);;
        bnd _ <-- putc_p (cnxt hc) (with_cpre None);;
        bnd f1 <-- getf_p me;;
        bnd hc1 <-- getc_p (fhead f1);;
        putf_p me (with_fhead (cnxt hc1))
  end.

Definition append_cache_to_tail_p (self : id) (node : id) : prog unit :=
  let me := Some self in
  bnd _ <-- putc_p (Some node) (with_cfn me);;
  bnd f <-- getf_p me;;
  match fhead f, ftail f with
  | None, None =>
      bnd _ <-- putf_p me (with_fhead (Some node));;
      putf_p me (with_ftail (Some node))
  | _, _ =>
      bnd _ <-- putc_p (Some node) (with_cpre (ftail f));;
      bnd _ <-- putc_p (Some node) (with_cnxt None);;
      bnd f3 <-- getf_p me;;
      bnd _ <-- putc_p (ftail f3) (with_cnxt (Some node));;
      putf_p me (with_ftail (Some node))
  end.

Definition insert_after_me_p (self : id) (fnd : id) : prog unit :=
  let me := Some self in
  bnd _ <-- putf_p (Some fnd) (with_fpre me);;
  bnd f1 <-- getf_p me;;
  bnd _ <-- putf_p (Some fnd) (with_fnxt (fnxt f1));;
  bnd f2 <-- getf_p me;;
  bnd _ <-- (match fnxt f2 with
   | Some _ => putf_p (fnxt f2) (with_fpre (Some fnd))
   | None => skip end);;
  putf_p me (with_fnxt (Some fnd)).

Definition insert_before_me_p (self : id) (fnd : id) : prog unit :=
  let me := Some self in
  bnd f <-- getf_p me;;
  bnd _ <-- (match fpre f with
   | Some _ => putf_p (fpre f) (with_fnxt (Some fnd))
   | None => skip end);;
  bnd f1 <-- getf_p me;;
  bnd _ <-- putf_p (Some fnd) (with_fpre (fpre f1));;
  bnd _ <-- putf_p (Some fnd) (with_fnxt me);;
  putf_p me (with_fpre (Some fnd)).

(* ---------------- LFUCache ---------------- *)
Definition move_forward_p (cache_node freq_node : id) : prog unit :=
  bnd f <-- getf_p (Some freq_node);;
  bnd tgt <-- (match fnxt f with
           | None => bnd t <-- newf_p (ffreq f + 1);; Ret (t, true)
           | Some nx =>
               bnd fx <-- getf_p (Some nx);;
               if negb (Nat.eqb (ffreq fx) (ffreq f + 1))
               then bnd t <-- newf_p (ffreq f + 1);; Ret (t, true)
               else Ret (nx, false)
           end);;
  let target := fst tgt in
  let target_empty := snd tgt in
  bnd _ <-- free_myself_p cache_node;;
  bnd _ <-- append_cache_to_tail_p target cache_node;;
  bnd _ <-- (if target_empty then insert_after_me_p freq_node target else skip);;
  bnd n <-- count_caches_p freq_node;;
  if Nat.eqb n 0 then
    bnd hd <-- head_p;;
    bnd _ <-- (if oid_eqb hd (Some freq_node) then sethead_p (Some target) else skip);;
    fremove_p freq_node
  else skip.

Definition dump_cache_p : prog unit :=
  bnd ohf <-- head_p;;
  match ohf with
  | None => Fail
  | Some hfid =>
      bnd hf <-- getf_p (Some hfid);;
      bnd hc <-- getc_p (fhead hf);;
      bnd _ <-- dictpop_p (ckey hc);;
      bnd _ <-- pop_head_cache_p hfid;;
      bnd n <-- count_caches_p hfid;;
      if Nat.eqb n 0 then
        bnd f2 <-- getf_p (Some hfid);;
        bnd _ <-- sethead_p (fnxt f2);;
        fremove_p hfid
      else skip
  end.

Definition create_cache_node_p (k : key) (v : val) : prog unit :=
  bnd cnid <-- newc_p k v;;
  bnd _ <-- dictset_p k cnid;;
  let fresh :=
    bnd nf <-- newf_p 0;;
    bnd _ <-- append_cache_to_tail_p nf cnid;;
    bnd ohd <-- head_p;;
    bnd _ <-- (match ohd with
     | Some hd => insert_before_me_p hd nf
     | None => skip end);;
    sethead_p (Some nf) in
  bnd ohd <-- head_p;;
  match ohd with
  | None => fresh
  | Some hd =>
      bnd f <-- getf_p (Some hd);;
      if negb (Nat.eqb (ffreq f) 0) then fresh
      else append_cache_to_tail_p hd cnid
  end.

(** get / set after the dict lookup returned [r] *)
Definition hget_rest (r : option id) : prog (option val) :=
  match r with
  | Some nid =>
      bnd c <-- getc_p (Some nid);;
      match cfn c with
      | None => Fail
      | Some fid => bnd _ <-- move_forward_p nid fid;; Ret (Some (ccont c))
      end
  | None => Ret None
  end.

Definition hset_rest (r : option id) (k : key) (v : val) : prog unit :=
  match r with
  | Some nid => putc_p (Some nid) (with_ccont v)
  | None =>
      bnd c <-- cap_p;;
      bnd n <-- dictlen_p;;
      bnd _ <-- (if Nat.leb c n then dump_cache_p else skip);;
      create_cache_node_p k v
  end.

Definition hget_p (k : key) : prog (option val) := bnd r <-- lookup_p k;; hget_rest r.
Definition hset_p (k : key) (v : val) : prog unit := bnd r <-- lookup_p k;; hset_rest r k v.

(** the body of one call, returning what [hstep] returns *)
Definition op_prog (o : op) : prog (option val) :=
  match o with
  | OGet k => hget_p k
  | OSet k v => bnd _ <-- hset_p k v;; Ret None
  end.

(* ------------------------------------------------------------------ *)
(** * Threads *)
Definition tid := nat.

(** the code of one call: heap accesses and lock operations *)
Inductive cprog : Type :=
| CDone (r : option val)                               (* return r *)
| CFail                                                (* raise *)
| CAct (B : Type) (p : prim B) (k : B -> cprog)
| CAcq (k : cprog)                                     (* self.lock.acquire() *)
| CRel (k : cprog).                                    (* self.lock.release() *)

Fixpoint embed {A} (p : prog A) (f : A -> cprog) : cprog :=
  match p with
  | Ret a => f a
  | Fail => CFail
  | Act pr k => CAct pr (fun b => embed (k b) f)
  end.

Definition fin (r : option val) : cprog := CRel (CDone r).
(** [with self.lock: p] *)
Definition locked (p : prog (option val)) : cprog := CAcq (embed p fin).

(** lfucache.py: get and set are [with self.lock: <body>] *)
Definition impl_locked (o : op) : cprog := locked (op_prog o).

(** the regression: the dict lookup happens BEFORE the lock is taken *)
Definition impl_readfirst (o : op) : cprog :=
  match o with
  | OGet k => CAct (PLookup k) (fun r => locked (hget_rest r))
  | OSet k v => CAct (PLookup k) (fun r => locked (bnd _ <-- hset_rest r k v;; Ret None))
  end.

Record thread := mkT {
  todo : list op;                      (* calls still to make *)
  cur : option (op * cprog);           (* the call in progress and what is left of it *)
  outs : list (option val);            (* values returned so far (None for a set / not_found) *)
  crashed : bool }.                    (* ended by an exception *)

Record config := mkCfg {
  cheap : heap;
  clock : option tid;                  (* who holds the lock *)
  threads : list thread;
  clog : list (tid * op) }.            (* ghost: calls in lock-acquisition order *)

Fixpoint upd {X} (l : list X) (n : nat) (x : X) : list X :=
  match l, n with
  | [], _ => []
  | _ :: r, O => x :: r
  | y :: r, S m => y :: upd r m x
  end.

Definition init (h : heap) (progs : list (list op)) : config :=
  mkCfg h None (map (fun p => mkT p None [] false) progs) [].

Definition with_thread (cfg : config) (t : tid) (th : thread) : config :=
  mkCfg (cheap cfg) (clock cfg) (upd (threads cfg) t th) (clog cfg).

Definition release_if (l : option tid) (t : tid) : option tid :=
  match l with Some u => if Nat.eqb u t then None else l | None => None end.

(** one step of thread [t]; None = [t] has no enabled step *)
Definition tstep (impl : op -> cprog) (cfg : config) (t : tid) : option config :=
  match nth_error (threads cfg) t with
  | None => None
  | Some th =>
      match cur th with
      | None =>
          match todo th with
          | [] => None                                                   (* finished (or crashed) *)
          | o :: r => Some (with_thread cfg t (mkT r (Some (o, impl o)) (outs th) false))   (* call *)
          end
      | Some (o, c) =>
          let crash := mkCfg (cheap cfg) (release_if (clock cfg) t)
                             (upd (threads cfg) t (mkT [] None (outs th) true)) (clog cfg) in
          match c with
          | CDone r => Some (with_thread cfg t (mkT (todo th) None (outs th ++ [r]) false))  (* return *)
          | CFail => Some crash
          | CAct p k =>
              match sem p (cheap cfg) with
              | Some (h1, b) => Some (mkCfg h1 (clock cfg) (upd (threads cfg) t (mkT (todo th) (Some (o, k b)) (outs th) false)) (clog cfg))
              | None => Some crash
              end
          | CAcq k =>
              match clock cfg with
              | Some _ => None                                            (* waiting for the lock *)
              | None => Some (mkCfg (cheap cfg) (Some t) (upd (threads cfg) t (mkT (todo th) (Some (o, k)) (outs th) false))
                                    (clog cfg ++ [(t, o)]))
              end
          | CRel k =>
              Some (mkCfg (cheap cfg) (release_if (clock cfg) t)
                          (upd (threads cfg) t (mkT (todo th) (Some (o, k)) (outs th) false)) (clog cfg))
          end
      end
  end.

(** run a schedule: every scheduled thread must be enabled *)
Fixpoint exec (impl : op -> cprog) (cfg : config) (sch : list tid) : option config :=
  match sch with
  | [] => Some cfg
  | t :: r => match tstep impl cfg t with Some cfg1 => exec impl cfg1 r | None => None end
  end.

(** lenient variant for the correspondence: a scheduled thread that is not enabled is skipped *)
Fixpoint exec_skip (impl : op -> cprog) (cfg : config) (sch : list tid) : config :=
  match sch with
  | [] => cfg
  | t :: r => exec_skip impl (match tstep impl cfg t with Some cfg1 => cfg1 | None => cfg end) r
  end.

Definition thread_done (th : thread) : bool :=
  match cur th, todo th with None, [] => true | _, _ => false end.
Definition all_done (cfg : config) : bool := forallb thread_done (threads cfg).
Definition any_crashed (cfg : config) : bool := existsb crashed (threads cfg).

(* ------------------------------------------------------------------ *)
(** * The sequential reference: the logged calls, one after the other *)
Fixpoint lrun (h : heap) (l : list (tid * op)) : option (heap * list (tid * option val)) :=
  match l with
  | [] => Some (h, [])
  | (t, o) :: r =>
      do so <- hstep h o;
      do rr <- lrun (fst so) r;
      Some (fst rr, (t, snd so) :: snd rr)
  end.

(** what belongs to thread [t] in a list labelled with thread ids *)
Definition proj {X} (t : tid) (l : list (tid * X)) : list X :=
  map snd (filter (fun x => Nat.eqb (fst x) t) l).

End Gen.
Arguments Fail {val A}.
Arguments PHead {val}.
Arguments PDictLen {val}.
Arguments PCap {val}.
Arguments head_p {val}.
Arguments dictlen_p {val}.
Arguments cap_p {val}.
Arguments skip {val}.
Arguments dump_cache_p {val}.
Arguments CFail {val}.
Arguments getc_p {val} x.
Arguments getf_p {val} x.
Arguments putc_p {val} x g.
Arguments putf_p {val} x g.
Arguments newc_p {val} k v.
Arguments newf_p {val} f.
Arguments sethead_p {val} x.
Arguments lookup_p {val} k.
Arguments dictpop_p {val} k.
Arguments dictset_p {val} k i.
Arguments free_myself_p {val} self.
Arguments count_caches_p {val} self.
Arguments fremove_p {val} self.
Arguments pop_head_cache_p {val} self.
Arguments append_cache_to_tail_p {val} self node.
Arguments insert_after_me_p {val} self fnd.
Arguments insert_before_me_p {val} self fnd.
Arguments move_forward_p {val} cache_node freq_node.
Arguments create_cache_node_p {val} k v.
Arguments hget_rest {val} r.
Arguments hset_rest {val} r k v.
Arguments hget_p {val} k.
Arguments hset_p {val} k v.
Arguments op_prog {val} o.
Arguments impl_locked {val} o.
Arguments impl_readfirst {val} o.

(** Correspondence-side functions for C18 (no theorem depends on this file):
    observation checksums over the exhaustive op-sequence space, and sx
    renderings of traces. *)
From Coq Require Import List ZArith NArith Bool Arith String.
Import ListNotations.
From Coq Require Import Uint63.
From DD Require Import Base.Sx Lfu.LfuModel Lfu.LfuSpec.

(* checksums use primitive 63-bit integers (wrap-around arithmetic mod 2^63;
   mirrored in Python with "& (2**63-1)"): binary N arithmetic with a modulus
   was 100x slower under vm_compute. *)
Local Open Scope uint63_scope.
Notation H := int.
Definition mix (h x : H) : H := h * 1000003 + x.
Definition zN (z : Z) : H := of_Z (z + 1).

Notation val := Z (only parsing).
Notation lfu := (lfu Z) (only parsing).
Notation op := (op Z) (only parsing).

Definition mix_items (h : H) (l : list (key * val)) : H :=
  fold_left (fun h kv => mix (mix h (zN (fst kv))) (zN (snd kv))) l h.
Definition mix_state (h : H) (s : lfu) : H :=
  fold_left (fun h b => mix_items (mix h (of_Z (Z.of_nat (freq b)) + 7)) (items b)) (buckets s) (mix h 3).
Definition mix_out (h : H) (o : option val) : H :=
  match o with None => mix h 1 | Some v => mix h (zN v + 2) end.

(* observation of one step: output (gets), then the walked structure *)
Definition obs (h : H) (o : op) (out : option val) (s : lfu) : H :=
  mix_state (match o with
             | OGet k => mix_out (mix h (zN k + 11)) out
             | OSet k v => mix (mix h (zN k + 5)) (zN v)
             end) s.

(* sum over all sequences of length <= d extending the current one of the
   final running checksum; the value written by the t-th op is t *)
Fixpoint explore (nkeys : nat) (d : nat) (s : lfu) (h : H) (t : Z) : H :=
  match d with
  | O => h
  | S d' =>
      fold_left (fun acc k =>
         let kz := Z.of_nat k in
         let '(s1, o1) := step s (OGet kz) in
         let '(s2, o2) := step s (OSet kz t) in
         (acc + explore nkeys d' s1 (obs h (OGet kz) o1 s1) (t + 1)%Z
              + explore nkeys d' s2 (obs h (OSet kz t) o2 s2) (t + 1)%Z))
        (seq 0 nkeys) h
  end.

(* one group = one first operation *)
Definition group (nkeys d c : nat) (first : op) : H :=
  let s0 := empty c in
  let '(s1, o1) := step s0 first in
  explore nkeys d s1 (obs 0 first o1 s1) 2%Z.

Definition all_groups (nkeys d c : nat) : list H :=
  flat_map (fun k => let kz := Z.of_nat k in
                     [group nkeys d c (OGet kz); group nkeys d c (OSet kz 1%Z)]) (seq 0 nkeys).

Fixpoint show_Hs (l : list H) : string :=
  match l with [] => ""%string | x :: r => (show_Z (to_Z x) ++ nl ++ show_Hs r)%string end.

(* full trace rendering for random long sequences *)
Definition sx_items (l : list (key * val)) : sx := sx_list (fun kv => SL [SZ (fst kv); SZ (snd kv)]) l.
Definition sx_state (s : lfu) : sx := sx_list (fun b => SL [sx_nat (freq b); sx_items (items b)]) (buckets s).
Definition sx_out (o : option val) : sx := sx_opt SZ o.
Fixpoint trace_hashes (s : lfu) (h : H) (ops : list op) : list H :=
  match ops with
  | [] => []
  | o :: r => let '(s1, out) := step s o in
              let h1 := obs h o out s1 in
              h1 :: trace_hashes s1 h1 r
  end.
Definition trace_sx (c : nat) (ops : list op) : sx :=
  let '(s, outs) := run (empty c) ops in
  SL [sx_list sx_out outs; sx_state s; sx_list (fun h => SZ (to_Z h)) (trace_hashes (empty c) 0 ops)].

(* the spec run on the same ops: outputs and final (key,value,uses) in order *)
Definition spec_sx (c : nat) (ops : list op) : sx :=
  let '(s, outs) := srun (sempty c) ops in
  SL [sx_list sx_out outs;
      sx_list (fun e => SL [SZ (ekey e); SZ (evalue e); sx_nat (euses e)]) (entries s)].

(* per-key view of the final state of the model: (key, value, uses), sorted; the
   observable of a threaded run whose result does not depend on the interleaving
   (disjoint keys per thread, no eviction possible) *)
Definition keyview_sx (c : nat) (ops : list op) : sx :=
  let s := state_of c ops in
  sx_sorted_list (fun x => x)
    (flat_map (fun b => map (fun kv => SL [SZ (fst kv); SZ (snd kv); sx_nat (freq b)]) (items b)) (buckets s)).

(** Correspondence-side rendering for LfuConcGModel.v (no theorem depends on this file). *)
From Coq Require Import List ZArith Bool Arith String.
Import ListNotations.
From DD Require Import Base.Sx Lfu.LfuModel Lfu.LfuRtModel Lfu.LfuHeapModel Lfu.LfuShow Lfu.LfuHeapShow Lfu.LfuRtShow
  Lfu.LfuAuxModel Lfu.LfuAuxShow Lfu.LfuConcModel Lfu.LfuConcGModel.
Local Open Scope string_scope.

Definition sx_call (o : call) : sx :=
  match o with
  | CGet k => SL [SA "get"; SZ k]
  | CSet k rt v => SL [SA "set"; SZ k; sx_opt SZ rt; SZ v]
  | CContains k => SL [SA "contains"; SZ k]
  end.
Definition sx_cres (r : cres) : sx :=
  match r with
  | XContent c => SL [SA "got"; sx_content c]
  | XNotFound => SA "not_found"
  | XDone => SA "done"
  | XRaised => SA "raised"
  | XBool b => sx_bool b
  end.

(* blocks (t, n): n steps of thread t, skipped while t is not enabled *)
Definition gconc_sx (c : nat) (progs : list (list call)) (sch : list (nat * nat)) : sx :=
  let cfg := gexec_skip is_reader call_impl (ginit cres (hempty c) progs)
                        (flat_map (fun p => repeat (fst p) (snd p)) sch) in
  SL [sx_bool (gall_done cfg); sx_bool (gany_crashed cfg);
      sx_list (fun x => SL [sx_nat (fst x); sx_call (snd x)]) (glog cfg);
      sx_list (fun th => sx_list sx_cres (gouts th)) (gthreads cfg);
      sx_list (fun th => sx_list sx_cres (gobs th)) (gthreads cfg);
      sx_list SZ (graph_ints (code_heap (gheap cfg)))].

(** Correspondence-side rendering for LfuConcGModel.v (no theorem depends on this file). *)
From Coq Require Import List ZArith Bool Arith String.
Import ListNotations.
From DD Require Import Base.Sx Lfu.LfuModel Lfu.LfuRtModel Lfu.LfuHeapModel Lfu.LfuShow Lfu.LfuHeapShow Lfu.LfuRtShow
  Lfu.LfuAuxModel Lfu.LfuAuxShow Lfu.LfuConcModel Lfu.LfuConcGModel.
Local Open Scope string_scope.

Definition sx_call (o : call) : sx :=
  match o with
  | CGet k => SL [SA "get"; SZ k]
  | CSet k rt v => SL [SA "set"; SZ k; sx_opt SZ rt; SZ v]
  | CContains k => SL [SA "contains"; SZ k]
  end.
Definition sx_cres (r : cres) : sx :=
  match r with
  | XContent c => SL [SA "got"; sx_content c]
  | XNotFound => SA "not_found"
  | XDone => SA "done"
  | XRaised => SA "raised"
  | XBool b => sx_bool b
  end.

(* blocks (t, n): n steps of thread t, skipped while t is not enabled *)
Definition gconc_sx (c : nat) (progs : list (list call)) (sch : list (nat * nat)) : sx :=
  let cfg := gexec_skip is_reader call_impl (ginit cres (hempty c) progs)
                        (flat_map (fun p => repeat (fst p) (snd p)) sch) in
  SL [sx_bool (gall_done cfg); sx_bool (gany_crashed cfg);
      sx_list (fun x => SL [sx_nat (fst x); sx_call (snd x)]) (glog cfg);
      sx_list (fun th => sx_list sx_cres (gouts th)) (gthreads cfg);
      sx_list (fun th => sx_list sx_cres (gobs th)) (gthreads cfg);
      sx_list SZ (graph_ints (code_heap (gheap cfg)))].

(* the same with blocks (t, kind, n) as in LfuConcShow.conc_sx: kind 0 = n raw steps of thread t (skipped while t
   is not enabled); kind 1 = thread t runs until n more of its LOCKING calls have returned (lock-free calls that
   precede them in program order run on the way) or it is not enabled - so that a schedule can follow an observed
   lock-acquisition order call by call *)
Definition gnouts (cfg : gconfig content call cres) (t : nat) : nat :=
  match nth_error (gthreads cfg) t with Some th => List.length (gouts th) | None => 0 end.
Fixpoint grun_call (cfg : gconfig content call cres) (t : nat) (fuel : nat) : gconfig content call cres :=
  match fuel with
  | O => cfg
  | S f => match gtstep is_reader call_impl cfg t with
           | None => cfg
           | Some c1 => if Nat.ltb (gnouts cfg t) (gnouts c1 t) then c1 else grun_call c1 t f
           end
  end.
Fixpoint grun_calls (cfg : gconfig content call cres) (t n : nat) : gconfig content call cres :=
  match n with O => cfg | S m => grun_calls (grun_call cfg t 5000) t m end.
Definition grun_block (cfg : gconfig content call cres) (b : nat * nat * nat) : gconfig content call cres :=
  let '(t, kind, n) := b in
  match kind with
  | O => gexec_skip is_reader call_impl cfg (repeat t n)
  | _ => grun_calls cfg t n
  end.
Definition gconc3_sx (c : nat) (progs : list (list call)) (sch : list (nat * nat * nat)) : sx :=
  let cfg := fold_left grun_block sch (ginit cres (hempty c) progs) in
  SL [sx_bool (gall_done cfg); sx_bool (gany_crashed cfg);
      sx_list (fun x => SL [sx_nat (fst x); sx_call (snd x)]) (glog cfg);
      sx_list (fun th => sx_list sx_cres (gouts th)) (gthreads cfg);
      sx_list (fun th => sx_list sx_cres (gobs th)) (gthreads cfg);
      sx_list SZ (graph_ints (code_heap (gheap cfg)))].

(** C18: the cache only COMPARES keys.  For every injective renaming [f] of the keys, running
    the renamed operations from the renamed state gives the renamed state and the same
    outputs.  Hence the behaviour on keys of any type is determined by the behaviour of the
    model on any injective numbering of the (finitely many) keys of a trace - which is how
    the harness runs arbitrary hashable keys against the model (equality-class indices). *)
From Coq Require Import List ZArith Bool Arith Lia.
Import ListNotations.
From DD Require Import Lfu.LfuModel.

Section Ren.
Variable val : Type.
Variable f : key -> key.
Hypothesis f_inj : forall a b, f a = f b -> a = b.
Local Notation bucket := (bucket val).
Local Notation lfu := (lfu val).
Local Notation op := (op val).

Definition ren_items (l : list (key * val)) : list (key * val) := map (fun kv => (f (fst kv), snd kv)) l.
Definition ren_b (b : bucket) : bucket := mkB (freq b) (ren_items (items b)).
Definition ren_bs (bs : list bucket) : list bucket := map ren_b bs.
Definition ren_state (s : lfu) : lfu := mkL (cap s) (ren_bs (buckets s)).
Definition ren_op (o : op) : op := match o with OGet k => OGet (f k) | OSet k v => OSet (f k) v end.

Lemma eqb_f a b : Z.eqb (f a) (f b) = Z.eqb a b.
Proof.
  destruct (Z.eqb_spec a b) as [->|N]; [apply Z.eqb_refl|].
  apply Z.eqb_neq. intros E. apply N, f_inj, E.
Qed.

Lemma ren_lookup k l : lookup (f k) (ren_items l) = lookup k l.
Proof. induction l as [|[k' v] r IH]; [reflexivity|]. cbn [ren_items map lookup fst snd]. rewrite eqb_f. fold (ren_items r). rewrite IH. reflexivity. Qed.
Lemma ren_has_key k l : has_key (f k) (ren_items l) = has_key k l.
Proof. unfold has_key. induction l as [|[k' v] r IH]; [reflexivity|]. cbn [ren_items map existsb fst snd]. rewrite eqb_f. fold (ren_items r). rewrite IH. reflexivity. Qed.
Lemma ren_remove_key k l : remove_key (f k) (ren_items l) = ren_items (remove_key k l).
Proof.
  unfold remove_key. induction l as [|[k' v] r IH]; [reflexivity|]. cbn [ren_items map filter fst snd]. rewrite eqb_f.
  fold (ren_items r). rewrite IH. destruct (Z.eqb k' k); reflexivity.
Qed.
Lemma ren_replace_val k v l : replace_val (f k) v (ren_items l) = ren_items (replace_val k v l).
Proof.
  induction l as [|[k' v'] r IH]; [reflexivity|]. cbn [ren_items map replace_val fst snd]. rewrite eqb_f.
  fold (ren_items r). rewrite IH. destruct (Z.eqb k' k); reflexivity.
Qed.
Lemma ren_items_app l1 l2 : ren_items (l1 ++ l2) = ren_items l1 ++ ren_items l2.
Proof. apply map_app. Qed.
Lemma ren_items_nil l : ren_items l = [] <-> l = [].
Proof. destruct l; cbn; split; congruence. Qed.

Lemma ren_find_key k bs : find_key (f k) (ren_bs bs) = find_key k bs.
Proof.
  induction bs as [|b r IH]; [reflexivity|]. cbn [ren_bs map find_key]. cbn [ren_b items freq]. rewrite ren_lookup.
  fold (ren_bs r). rewrite IH. reflexivity.
Qed.

Lemma ren_move_forward k bs : move_forward (f k) (ren_bs bs) = ren_bs (move_forward k bs).
Proof.
  induction bs as [|b r IH]; [reflexivity|]. cbn [ren_bs map move_forward]. fold (ren_bs r). cbn [ren_b items freq].
  rewrite ren_lookup. destruct (lookup k (items b)) as [v|].
  - rewrite ren_remove_key.
    assert (E : match ren_bs r with
                | n :: r2 => if Nat.eqb (freq n) (S (freq b)) then mkB (freq n) (items n ++ [(f k, v)]) :: r2
                             else mkB (S (freq b)) [(f k, v)] :: ren_bs r
                | [] => [mkB (S (freq b)) [(f k, v)]]
                end =
                ren_bs (match r with
                        | n :: r2 => if Nat.eqb (freq n) (S (freq b)) then mkB (freq n) (items n ++ [(k, v)]) :: r2
                                     else mkB (S (freq b)) [(k, v)] :: r
                        | [] => [mkB (S (freq b)) [(k, v)]]
                        end)).
    { destruct r as [|n r2]; [reflexivity|]. cbn [ren_bs map]. cbn [ren_b freq items].
      destruct (Nat.eqb (freq n) (S (freq b))); unfold ren_bs; cbn [map]; unfold ren_b; cbn [freq items]; [|reflexivity].
      rewrite ren_items_app. reflexivity. }
    rewrite E. destruct (remove_key k (items b)) as [|x y]; [reflexivity|]. reflexivity.
  - rewrite IH. reflexivity.
Qed.

Lemma ren_dump_cache bs : dump_cache (ren_bs bs) = ren_bs (dump_cache bs).
Proof.
  destruct bs as [|b r]; [reflexivity|]. cbn [ren_bs map dump_cache]. cbn [ren_b items freq].
  destruct (items b) as [|x [|y it]]; reflexivity.
Qed.

Lemma ren_create_node k v bs : create_node (f k) v (ren_bs bs) = ren_bs (create_node k v bs).
Proof.
  destruct bs as [|b r]; [reflexivity|]. cbn [ren_bs map create_node]. cbn [ren_b freq items].
  destruct (Nat.eqb (freq b) 0); unfold ren_bs; cbn [map]; unfold ren_b; cbn [freq items]; [|reflexivity]. rewrite ren_items_app. reflexivity.
Qed.

Lemma ren_set_present k v bs : set_present (f k) v (ren_bs bs) = ren_bs (set_present k v bs).
Proof.
  induction bs as [|b r IH]; [reflexivity|]. cbn [ren_bs map set_present]. fold (ren_bs r). cbn [ren_b items freq].
  rewrite ren_has_key. destruct (has_key k (items b)); cbn [map ren_b freq items].
  - rewrite ren_replace_val. reflexivity.
  - rewrite IH. reflexivity.
Qed.

Lemma ren_size s : size (ren_state s) = size s.
Proof.
  unfold size, ren_state. cbn [buckets]. induction (buckets s) as [|b r IH]; [reflexivity|].
  cbn [ren_bs map fold_right]. cbn [ren_b items]. unfold ren_items at 1. rewrite map_length. fold (ren_bs r). rewrite IH. reflexivity.
Qed.

Theorem ren_step s o :
  step (ren_state s) (ren_op o) = (ren_state (fst (step s o)), snd (step s o)).
Proof.
  destruct o as [k|k v]; cbn [ren_op step].
  - unfold get. cbn [ren_state buckets cap]. rewrite ren_find_key.
    destruct (find_key k (buckets s)) as [[u v]|]; cbn [fst snd]; [|reflexivity].
    rewrite ren_move_forward. reflexivity.
  - cbn [fst snd]. f_equal. unfold set, contains. rewrite ren_size. cbn [ren_state buckets cap]. rewrite ren_find_key.
    destruct (find_key k (buckets s)) as [[u v0]|].
    + rewrite ren_set_present. reflexivity.
    + destruct (Nat.leb (cap s) (size s)).
      * rewrite ren_dump_cache, ren_create_node. reflexivity.
      * rewrite ren_create_node. reflexivity.
Qed.

Theorem ren_run ops : forall s,
  run (ren_state s) (map ren_op ops) = (ren_state (fst (run s ops)), snd (run s ops)).
Proof.
  induction ops as [|o r IH]; intros s; [reflexivity|]. cbn [map run].
  rewrite ren_step. destruct (step s o) as [s1 out] eqn:E. cbn [fst snd]. rewrite IH.
  destruct (run s1 r) as [s2 outs]. cbn [fst snd]. destruct o; reflexivity.
Qed.

End Ren.

(** from the empty cache: outputs are invariant under injective renaming of the keys, and the
    final state is the renamed final state *)
Theorem keys_only_compared (val : Type) (f : key -> key) (c : nat) (ops : list (op val)) :
  (forall a b, f a = f b -> a = b) ->
  snd (run (empty c) (map (ren_op val f) ops)) = snd (run (empty c) ops) /\
  state_of c (map (ren_op val f) ops) = ren_state val f (state_of c ops).
Proof.
  intros Hf. pose proof (ren_run val f Hf ops (empty c)) as E. unfold ren_state at 1 in E. cbn [cap buckets empty ren_bs map] in E.
  change (mkL c []) with (@empty val c) in E. unfold state_of. rewrite E. split; reflexivity.
Qed.

(** C18, concurrency: (1) the statement-level programs of LfuConcModel.v, run
    without interruption, ARE the heap model of LfuHeapModel.v
    ([op_prog_interp]); (2) for every schedule of n threads whose calls are
    [with lock: body], every reachable configuration is explained by the
    SEQUENTIAL execution of the logged calls in lock-acquisition order
    ([conc_invariant], [conc_linearizable], [conc_final]); (3) what that needs
    from the code: every heap access happens while the lock is held
    ([conc_accesses_under_lock]); (4) with the dict lookup before the acquire
    there are schedules that raise / leave a heap that represents no cache
    state at all ([readfirst_get_refuted], [readfirst_set_refuted]). *)
From Coq Require Import List ZArith Bool Arith Lia Permutation.
Import ListNotations.
From DD Require Import Lfu.LfuModel Lfu.LfuSpec Lfu.LfuInv Lfu.LfuSpecProps Lfu.LfuProofs.
From DD Require Import Lfu.LfuHeapModel Lfu.LfuHeapProofs Lfu.LfuConcModel.

Section Gen.
Variable val : Type.
Local Notation cnode := (cnode val).
Local Notation heap := (heap val).
Local Notation op := (op val).
Local Notation prog := (prog val).
Local Notation cprog := (cprog val).
Local Notation thread := (thread val).
Local Notation config := (config val).

(* ------------------------------------------------------------------ *)
(** * Part 1: uninterrupted programs = the heap model *)

Lemma interp_bind A C (p : prog A) (f : A -> prog C) (h : heap) :
  interp (pbind p f) h = match interp p h with Some (h1, a) => interp (f a) h1 | None => None end.
Proof.
  revert h. induction p as [a| |B pr k IH]; intros h; cbn [pbind interp]; try reflexivity.
  destruct (sem pr h) as [[h1 b]|]; [apply IH|reflexivity].
Qed.

Lemma interp_seq C (p : prog unit) (F : heap -> option heap) (K : prog C) (h : heap) :
  (forall h0, interp p h0 = do h1 <- F h0; Some (h1, tt)) ->
  interp (pbind p (fun _ => K)) h = do h1 <- F h; interp K h1.
Proof. intros E. rewrite interp_bind, E. destruct (F h); reflexivity. Qed.

(* primitives followed by a continuation *)
Lemma getc_bind x C (K : cnode -> prog C) (h : heap) :
  interp (pbind (getc_p x) K) h = do c <- getc h x; interp (K c) h.
Proof. cbn [pbind getc_p interp sem]. destruct (getc h x); reflexivity. Qed.
Lemma getf_bind x C (K : fnode -> prog C) (h : heap) :
  interp (pbind (getf_p x) K) h = do f <- getf h x; interp (K f) h.
Proof. cbn [pbind getf_p interp sem]. destruct (getf h x); reflexivity. Qed.
Lemma putc_bind x g C (K : unit -> prog C) (h : heap) :
  interp (pbind (putc_p x g) K) h = do h1 <- putc h x g; interp (K tt) h1.
Proof. cbn [pbind putc_p interp sem]. destruct (putc h x g); reflexivity. Qed.
Lemma putf_bind x g C (K : unit -> prog C) (h : heap) :
  interp (pbind (putf_p x g) K) h = do h1 <- putf h x g; interp (K tt) h1.
Proof. cbn [pbind putf_p interp sem]. destruct (putf h x g); reflexivity. Qed.
Lemma newc_bind k v C (K : id -> prog C) (h : heap) :
  interp (pbind (newc_p k v) K) h = interp (K (snd (new_cnode h k v))) (fst (new_cnode h k v)).
Proof. reflexivity. Qed.
Lemma newf_bind f C (K : id -> prog C) (h : heap) :
  interp (pbind (newf_p f) K) h = interp (K (snd (new_fnode h f))) (fst (new_fnode h f)).
Proof. reflexivity. Qed.
Lemma head_bind C (K : option id -> prog C) (h : heap) :
  interp (pbind head_p K) h = interp (K (hhead h)) h.
Proof. reflexivity. Qed.
Lemma sethead_bind x C (K : unit -> prog C) (h : heap) :
  interp (pbind (sethead_p x) K) h = interp (K tt) (set_hhead h x).
Proof. reflexivity. Qed.
Lemma lookup_bind k C (K : option id -> prog C) (h : heap) :
  interp (pbind (lookup_p k) K) h = interp (K (lookup k (dict h))) h.
Proof. reflexivity. Qed.
Lemma dictpop_bind k C (K : unit -> prog C) (h : heap) :
  interp (pbind (dictpop_p k) K) h = do d <- dict_pop (dict h) k; interp (K tt) (set_dict h d).
Proof. cbn [pbind dictpop_p interp sem]. destruct (dict_pop (dict h) k); reflexivity. Qed.
Lemma dictset_bind k i C (K : unit -> prog C) (h : heap) :
  interp (pbind (dictset_p k i) K) h = interp (K tt) (set_dict h (dict_set (dict h) k i)).
Proof. reflexivity. Qed.
Lemma dictlen_bind C (K : nat -> prog C) (h : heap) :
  interp (pbind dictlen_p K) h = interp (K (length (dict h))) h.
Proof. reflexivity. Qed.
Lemma cap_bind C (K : nat -> prog C) (h : heap) :
  interp (pbind cap_p K) h = interp (K (hcap h)) h.
Proof. reflexivity. Qed.
Lemma skip_bind C (K : unit -> prog C) (h : heap) : interp (pbind skip K) h = interp (K tt) h.
Proof. reflexivity. Qed.
(* primitives in last position *)
Lemma putc_last x g (h : heap) : interp (putc_p x g) h = do h1 <- putc h x g; Some (h1, tt).
Proof. cbn [putc_p interp sem]. destruct (putc h x g); reflexivity. Qed.
Lemma putf_last x g (h : heap) : interp (putf_p x g) h = do h1 <- putf h x g; Some (h1, tt).
Proof. cbn [putf_p interp sem]. destruct (putf h x g); reflexivity. Qed.

Lemma sethead_last x (h : heap) : interp (sethead_p x) h = Some (set_hhead h x, tt).
Proof. reflexivity. Qed.
Lemma skip_last (h : heap) : interp skip h = Some (h, tt).
Proof. reflexivity. Qed.

Ltac prim :=
  first [ rewrite getc_bind | rewrite getf_bind | rewrite putc_bind | rewrite putf_bind
        | rewrite newc_bind | rewrite newf_bind | rewrite head_bind | rewrite sethead_bind
        | rewrite lookup_bind | rewrite dictpop_bind | rewrite dictset_bind | rewrite dictlen_bind
        | rewrite cap_bind | rewrite skip_bind | rewrite putc_last | rewrite putf_last
        | rewrite sethead_last | rewrite skip_last ].

Ltac split_opt :=
  match goal with
  | |- context [bind ?o _] =>
      lazymatch o with
      | Some _ => fail
      | None => fail
      | bind _ _ => fail
      | (if _ then _ else _) => fail
      | (match _ with Some _ => _ | None => _ end) => fail
      | _ => destruct o eqn:?
      end
  end.

Ltac go :=
  repeat (cbn [bind fst snd new_fnode new_cnode interp skip];
          first [ reflexivity
                | prim
                | rewrite interp_bind
                | match goal with |- context [if ?b then _ else _] => destruct b eqn:? end
                | match goal with |- context [match ?x with Some _ => _ | None => _ end] =>
                    lazymatch x with
                    | bind _ _ => fail
                    | interp _ _ => fail
                    | _ => destruct x eqn:?
                    end
                  end
                | split_opt ]).

Lemma free_myself_ok self (h : heap) :
  interp (free_myself_p self) h = do h1 <- free_myself h self; Some (h1, tt).
Proof. unfold free_myself_p, free_myself. go. Qed.
Lemma free_myself_seq self C (K : prog C) (h : heap) :
  interp (pbind (free_myself_p self) (fun _ => K)) h = do h1 <- free_myself h self; interp K h1.
Proof. apply (interp_seq C _ (fun h0 => free_myself h0 self)). intros h0. apply free_myself_ok. Qed.

Lemma count_caches_bind self C (K : nat -> prog C) (h : heap) :
  interp (pbind (count_caches_p self) K) h = do n <- count_caches h self; interp (K n) h.
Proof. unfold count_caches_p, count_caches. rewrite interp_bind. go. Qed.

Lemma fremove_ok self (h : heap) :
  interp (fremove_p self) h = do h1 <- fremove h self; Some (h1, tt).
Proof. unfold fremove_p, fremove. go. Qed.
Lemma fremove_seq self C (K : prog C) (h : heap) :
  interp (pbind (fremove_p self) (fun _ => K)) h = do h1 <- fremove h self; interp K h1.
Proof. apply (interp_seq C _ (fun h0 => fremove h0 self)). intros h0. apply fremove_ok. Qed.

Lemma pop_head_cache_ok self (h : heap) :
  interp (pop_head_cache_p self) h = do h1 <- pop_head_cache h self; Some (h1, tt).
Proof. unfold pop_head_cache_p, pop_head_cache. go. Qed.
Lemma pop_head_cache_seq self C (K : prog C) (h : heap) :
  interp (pbind (pop_head_cache_p self) (fun _ => K)) h = do h1 <- pop_head_cache h self; interp K h1.
Proof. apply (interp_seq C _ (fun h0 => pop_head_cache h0 self)). intros h0. apply pop_head_cache_ok. Qed.

Lemma append_ok self node (h : heap) :
  interp (append_cache_to_tail_p self node) h = do h1 <- append_cache_to_tail h self node; Some (h1, tt).
Proof. unfold append_cache_to_tail_p, append_cache_to_tail. go. Qed.
Lemma append_seq self node C (K : prog C) (h : heap) :
  interp (pbind (append_cache_to_tail_p self node) (fun _ => K)) h =
  do h1 <- append_cache_to_tail h self node; interp K h1.
Proof. apply (interp_seq C _ (fun h0 => append_cache_to_tail h0 self node)). intros h0. apply append_ok. Qed.

Lemma insert_after_ok self fnd (h : heap) :
  interp (insert_after_me_p self fnd) h = do h1 <- insert_after_me h self fnd; Some (h1, tt).
Proof. unfold insert_after_me_p, insert_after_me. go. Qed.
Lemma insert_after_seq self fnd C (K : prog C) (h : heap) :
  interp (pbind (insert_after_me_p self fnd) (fun _ => K)) h = do h1 <- insert_after_me h self fnd; interp K h1.
Proof. apply (interp_seq C _ (fun h0 => insert_after_me h0 self fnd)). intros h0. apply insert_after_ok. Qed.

Lemma insert_before_ok self fnd (h : heap) :
  interp (insert_before_me_p self fnd) h = do h1 <- insert_before_me h self fnd; Some (h1, tt).
Proof. unfold insert_before_me_p, insert_before_me. go. Qed.
Lemma insert_before_seq self fnd C (K : prog C) (h : heap) :
  interp (pbind (insert_before_me_p self fnd) (fun _ => K)) h = do h1 <- insert_before_me h self fnd; interp K h1.
Proof. apply (interp_seq C _ (fun h0 => insert_before_me h0 self fnd)). intros h0. apply insert_before_ok. Qed.

Ltac meth :=
  first [ rewrite free_myself_seq | rewrite fremove_seq | rewrite pop_head_cache_seq | rewrite append_seq
        | rewrite insert_after_seq | rewrite insert_before_seq | rewrite count_caches_bind
        | rewrite fremove_ok | rewrite append_ok | rewrite insert_after_ok | rewrite insert_before_ok ].

Ltac go2 :=
  repeat (cbn [bind fst snd new_fnode new_cnode interp skip];
          first [ reflexivity
                | meth
                | prim
                | rewrite interp_bind
                | match goal with |- context [if ?b then _ else _] => destruct b eqn:? end
                | match goal with |- context [match ?x with Some _ => _ | None => _ end] =>
                    lazymatch x with
                    | bind _ _ => fail
                    | interp _ _ => fail
                    | _ => destruct x eqn:?
                    end
                  end
                | split_opt ]).

Lemma move_forward_ok cn fn (h : heap) :
  interp (move_forward_p cn fn) h = do h1 <- move_forward h cn fn; Some (h1, tt).
Proof. unfold move_forward_p, move_forward. go2; try (cbn [bind] in *; congruence). Qed.
Lemma move_forward_seq cn fn C (K : prog C) (h : heap) :
  interp (pbind (move_forward_p cn fn) (fun _ => K)) h = do h1 <- move_forward h cn fn; interp K h1.
Proof. apply (interp_seq C _ (fun h0 => move_forward h0 cn fn)). intros h0. apply move_forward_ok. Qed.

Lemma dump_cache_ok (h : heap) :
  interp dump_cache_p h = do h1 <- dump_cache h; Some (h1, tt).
Proof. unfold dump_cache_p, dump_cache. go2; try (cbn [bind] in *; congruence). Qed.
Lemma dump_cache_seq C (K : prog C) (h : heap) :
  interp (pbind dump_cache_p (fun _ => K)) h = do h1 <- dump_cache h; interp K h1.
Proof. apply (interp_seq C _ (fun h0 => dump_cache h0)). intros h0. apply dump_cache_ok. Qed.

Lemma create_ok k v (h : heap) :
  interp (create_cache_node_p k v) h = do h1 <- create_cache_node h k v; Some (h1, tt).
Proof. unfold create_cache_node_p, create_cache_node. go2; try (cbn [bind] in *; congruence). Qed.

(** after the dict lookup *)
Lemma hget_rest_ok (h : heap) (k : key) :
  interp (hget_rest (lookup k (dict h))) h = hget h k.
Proof.
  unfold hget_rest, hget. destruct (lookup k (dict h)) as [nid|]; [|reflexivity].
  rewrite getc_bind. destruct (getc h (Some nid)) as [c|]; [|reflexivity]. cbn [bind].
  destruct (cfn c) as [fid|]; [|reflexivity]. cbn [bind].
  rewrite move_forward_seq. destruct (move_forward h nid fid); reflexivity.
Qed.

Lemma hset_rest_ok (h : heap) (k : key) (v : val) :
  interp (hset_rest (lookup k (dict h)) k v) h = do h1 <- hset h k v; Some (h1, tt).
Proof.
  unfold hset_rest, hset. destruct (lookup k (dict h)) as [nid|]; [apply putc_last|].
  rewrite cap_bind, dictlen_bind.
  destruct (Nat.leb (hcap h) (length (dict h))).
  - rewrite dump_cache_seq. destruct (dump_cache h) as [h1|]; [|reflexivity]. cbn [bind]. apply create_ok.
  - rewrite skip_bind. cbn [bind]. apply create_ok.
Qed.

(** the program of a call, run without interruption, is the heap model's step *)
Theorem op_prog_interp (o : op) (h : heap) : interp (op_prog o) h = hstep h o.
Proof.
  destruct o as [k|k v]; cbn [op_prog hstep].
  - unfold hget_p. rewrite lookup_bind. apply hget_rest_ok.
  - rewrite interp_bind. unfold hset_p. rewrite lookup_bind, hset_rest_ok.
    destruct (hset h k v); reflexivity.
Qed.

End Gen.

(** C18, part 1: the structural invariant of the concrete model (LfuModel.v)
    and, for every operation, how the content of "the bucket of frequency f"
    changes.  Nothing here mentions the specification's operations (LfuSpec.v
    is imported only for the definition of [bucket_items]). *)
From Coq Require Import List ZArith Bool Arith Lia Permutation Sorted.
Import ListNotations.
From DD Require Import Lfu.LfuModel Lfu.LfuSpec.

Notation keys l := (map fst l).

(* ------------------------------------------------------------------ *)
(** * Generic list facts *)

Lemma NoDup_app_inv {A} (l l' : list A) :
  NoDup (l ++ l') -> NoDup l /\ NoDup l' /\ (forall x, In x l -> ~ In x l').
Proof.
  induction l as [|a l IH]; cbn [app]; intros H.
  - split; [constructor|]. split; [exact H|]. intros x [].
  - apply NoDup_cons_iff in H. destruct H as [Hna Hnd].
    destruct (IH Hnd) as (H1 & H2 & H3).
    split.
    + constructor; [|exact H1]. intros C. apply Hna. apply in_or_app. left. exact C.
    + split; [exact H2|]. intros x [E|Hin].
      * subst x. intros C. apply Hna. apply in_or_app. right. exact C.
      * apply H3. exact Hin.
Qed.

Lemma NoDup_app_intro {A} (l l' : list A) :
  NoDup l -> NoDup l' -> (forall x, In x l -> ~ In x l') -> NoDup (l ++ l').
Proof.
  induction l as [|a l IH]; cbn [app]; intros H1 H2 H3.
  - exact H2.
  - apply NoDup_cons_iff in H1. destruct H1 as [Hna Hnd].
    constructor.
    + intros C. apply in_app_or in C. destruct C as [C|C].
      * exact (Hna C).
      * exact (H3 a (or_introl eq_refl) C).
    + apply IH; [exact Hnd|exact H2|]. intros x Hx. apply H3. right. exact Hx.
Qed.

Section Gen.
Variable val : Type.
Local Notation bucket := (bucket val).
Local Notation lfu := (lfu val).
Local Notation op := (op val).
Implicit Types (v vv : val) (l it : list (key * val)) (b n : bucket) (bs r : list bucket)
  (s : lfu) (o : op) (ops : list op).

(* ------------------------------------------------------------------ *)
(** * Association lists: lookup / has_key / remove_key / replace_val *)

Lemma lookup_none_iff k l : lookup k l = None <-> ~ In k (keys l).
Proof.
  induction l as [|[k' v'] r IH]; cbn [lookup map fst In].
  - tauto.
  - destruct (Z.eqb_spec k' k) as [E|NE].
    + split; [discriminate | intros H; exfalso; apply H; left; exact E].
    + rewrite IH. split; intros H.
      * intros [C|C]; [exact (NE C) | exact (H C)].
      * intros C. apply H. right. exact C.
Qed.

Lemma lookup_some_in k v l : lookup k l = Some v -> In (k, v) l.
Proof.
  induction l as [|[k' v'] r IH]; cbn [lookup In]; [discriminate|].
  destruct (Z.eqb_spec k' k) as [E|NE]; intros H.
  - left. congruence.
  - right. exact (IH H).
Qed.

Lemma lookup_some_key k v l : lookup k l = Some v -> In k (keys l).
Proof.
  intros H. apply lookup_some_in in H. apply in_map_iff. exists (k, v). split; [reflexivity|exact H].
Qed.

Lemma lookup_in_nodup k v l : NoDup (keys l) -> In (k, v) l -> lookup k l = Some v.
Proof.
  induction l as [|[k' v'] r IH]; cbn [lookup map fst In]; intros Hnd Hin; [destruct Hin|].
  apply NoDup_cons_iff in Hnd. destruct Hnd as [Hna Hnd].
  destruct Hin as [E|Hin].
  - inversion E; subst. rewrite Z.eqb_refl. reflexivity.
  - destruct (Z.eqb_spec k' k) as [E|NE].
    + subst k'. exfalso. apply Hna. apply in_map_iff. exists (k, v). split; [reflexivity|exact Hin].
    + exact (IH Hnd Hin).
Qed.

Lemma has_key_lookup k l :
  has_key k l = match lookup k l with Some _ => true | None => false end.
Proof.
  unfold has_key. induction l as [|[k' v'] r IH]; cbn [existsb lookup fst]; [reflexivity|].
  destruct (Z.eqb k' k); cbn [orb]; [reflexivity|exact IH].
Qed.

Lemma remove_key_notin k l : ~ In k (keys l) -> remove_key k l = l.
Proof.
  unfold remove_key. induction l as [|[k' v'] r IH]; cbn [filter map fst In]; intros H; [reflexivity|].
  destruct (Z.eqb_spec k' k) as [E|NE]; cbn [negb].
  - exfalso. apply H. left. exact E.
  - f_equal. apply IH. intros C. apply H. right. exact C.
Qed.

Lemma remove_key_keys k k' l : In k' (keys (remove_key k l)) <-> k' <> k /\ In k' (keys l).
Proof.
  unfold remove_key. induction l as [|[k0 v0] r IH]; cbn [filter map fst In].
  - tauto.
  - destruct (Z.eqb_spec k0 k) as [E|NE]; cbn [negb map fst In].
    + rewrite IH. subst k0. split; [intros [H1 H2]; split; [exact H1|right; exact H2]|].
      intros [H1 [H2|H2]]; [congruence|split; assumption].
    + rewrite IH. split.
      * intros [E|[H1 H2]]; [subst k0; split; [exact NE|left; reflexivity]|split; [exact H1|right; exact H2]].
      * intros [H1 [H2|H2]]; [left; exact H2|right; split; assumption].
Qed.

Lemma remove_key_app k l l' : remove_key k (l ++ l') = remove_key k l ++ remove_key k l'.
Proof. unfold remove_key. apply filter_app. Qed.

Lemma remove_key_nodup k l : NoDup (keys l) -> NoDup (keys (remove_key k l)).
Proof.
  unfold remove_key. induction l as [|[k0 v0] r IH]; cbn [filter map fst]; intros H; [constructor|].
  apply NoDup_cons_iff in H. destruct H as [Hna Hnd].
  destruct (Z.eqb k0 k); cbn [negb map fst].
  - exact (IH Hnd).
  - constructor; [|exact (IH Hnd)]. intros C. apply Hna.
    apply (remove_key_keys k k0 r) in C. exact (proj2 C).
Qed.

Lemma remove_key_perm k v l :
  NoDup (keys l) -> lookup k l = Some v -> Permutation l ((k, v) :: remove_key k l).
Proof.
  induction l as [|[k' v'] r IH]; cbn [lookup map fst]; intros Hnd H; [discriminate|].
  apply NoDup_cons_iff in Hnd. destruct Hnd as [Hna Hnd].
  unfold remove_key. cbn [filter fst]. fold (remove_key k r).
  destruct (Z.eqb_spec k' k) as [E|NE]; cbn [negb].
  - subst k'. inversion H; subst v'. rewrite (remove_key_notin k r Hna). apply Permutation_refl.
  - eapply perm_trans; [apply perm_skip; exact (IH Hnd H)|]. apply perm_swap.
Qed.

Lemma remove_key_head k v l : ~ In k (keys l) -> remove_key k ((k, v) :: l) = l.
Proof.
  intros H. unfold remove_key. cbn [filter fst]. rewrite Z.eqb_refl. cbn [negb].
  exact (remove_key_notin k l H).
Qed.

Lemma replace_val_keys k v l : keys (replace_val k v l) = keys l.
Proof.
  induction l as [|[k' v'] r IH]; cbn [replace_val map fst]; [reflexivity|].
  destruct (Z.eqb k' k); cbn [map fst]; [reflexivity|]. f_equal. exact IH.
Qed.

Lemma replace_val_notin k v l : ~ In k (keys l) -> replace_val k v l = l.
Proof.
  induction l as [|[k' v'] r IH]; cbn [replace_val map fst In]; intros H; [reflexivity|].
  destruct (Z.eqb_spec k' k) as [E|NE].
  - exfalso. apply H. left. exact E.
  - f_equal. apply IH. intros C. apply H. right. exact C.
Qed.

Lemma replace_val_nonnil k v l : l <> [] -> replace_val k v l <> [].
Proof.
  destruct l as [|[k' v'] r]; cbn [replace_val]; intros H; [exact H|].
  destruct (Z.eqb k' k); discriminate.
Qed.

(* ------------------------------------------------------------------ *)
(** * The invariant *)

Definition all_items (bs : list bucket) : list (key * val) := flat_map items bs.

(** head frequency above a bound / strictly ascending frequencies *)
Definition hd_gt (m : nat) (bs : list bucket) : Prop :=
  match bs with [] => True | b :: _ => m < freq b end.
Fixpoint asc (bs : list bucket) : Prop :=
  match bs with [] => True | b :: r => hd_gt (freq b) r /\ asc r end.
Definition all_gt (m : nat) (bs : list bucket) : Prop := Forall (fun n => m < freq n) bs.
Definition nonempty (bs : list bucket) : Prop := Forall (fun b => items b <> []) bs.

Definition inv (s : lfu) : Prop :=
  asc (buckets s) /\ nonempty (buckets s) /\ NoDup (keys (all_items (buckets s))) /\ size s <= cap s.

Lemma all_gt_weaken m m' bs : m' <= m -> all_gt m bs -> all_gt m' bs.
Proof. intros Hle H. eapply Forall_impl; [|exact H]. cbn beta. intros n Hn. lia. Qed.

Lemma asc_all_gt b r : asc (b :: r) -> all_gt (freq b) r.
Proof.
  revert b. induction r as [|n r IH]; intros b H; [constructor|].
  cbn [asc hd_gt] in H. destruct H as [Hbn Hr].
  constructor; [exact Hbn|].
  apply (all_gt_weaken (freq n)); [lia|]. apply IH. exact Hr.
Qed.

Lemma asc_strongly_sorted bs : asc bs -> StronglySorted lt (map freq bs).
Proof.
  induction bs as [|b r IH]; cbn [map]; intros H; [constructor|].
  constructor; [apply IH; exact (proj2 H)|].
  apply asc_all_gt in H. unfold all_gt in H. rewrite Forall_forall in *.
  intros x Hx. apply in_map_iff in Hx. destruct Hx as (n & E & Hn). subst x. exact (H n Hn).
Qed.

Lemma all_items_cons b r : all_items (b :: r) = items b ++ all_items r.
Proof. reflexivity. Qed.

Lemma size_all_items s : size s = length (all_items (buckets s)).
Proof.
  unfold size. induction (buckets s) as [|b r IH]; [reflexivity|].
  rewrite all_items_cons, app_length. cbn [fold_right]. rewrite IH. reflexivity.
Qed.

(* ------------------------------------------------------------------ *)
(** * The bucket of frequency [f] *)

Lemma bucket_items_all_gt f m bs : all_gt m bs -> f <= m -> bucket_items f bs = [].
Proof.
  induction bs as [|b r IH]; intros H Hle; [reflexivity|].
  inversion H as [|? ? Hb Hr]; subst. cbn [bucket_items].
  destruct (Nat.eqb_spec (freq b) f) as [E|NE]; [lia|]. exact (IH Hr Hle).
Qed.

Lemma bucket_items_incl f bs : incl (bucket_items f bs) (all_items bs).
Proof.
  induction bs as [|b r IH]; [intros x []|].
  cbn [bucket_items]. rewrite all_items_cons. intros x Hx. apply in_or_app.
  destruct (Nat.eqb (freq b) f); [left; exact Hx|right; exact (IH x Hx)].
Qed.

Lemma bucket_items_notin k f bs : ~ In k (keys (all_items bs)) -> ~ In k (keys (bucket_items f bs)).
Proof.
  intros H C. apply H. apply in_map_iff in C. destruct C as (x & E & Hx).
  apply in_map_iff. exists x. split; [exact E|]. exact (bucket_items_incl f bs x Hx).
Qed.

Lemma bucket_items_nonnil f bs : bucket_items f bs <> [] -> exists b, In b bs /\ freq b = f.
Proof.
  induction bs as [|b r IH]; cbn [bucket_items]; intros H; [congruence|].
  destruct (Nat.eqb_spec (freq b) f) as [E|NE].
  - exists b. split; [left; reflexivity|exact E].
  - destruct (IH H) as (n & Hn & En). exists n. split; [right; exact Hn|exact En].
Qed.

Lemma bucket_items_in b bs : asc bs -> In b bs -> bucket_items (freq b) bs = items b.
Proof.
  induction bs as [|a r IH]; intros Hasc Hin; [destruct Hin|].
  cbn [bucket_items]. destruct Hin as [E|Hin].
  - subst a. rewrite Nat.eqb_refl. reflexivity.
  - pose proof (asc_all_gt a r Hasc) as Hgt. unfold all_gt in Hgt. rewrite Forall_forall in Hgt.
    specialize (Hgt b Hin).
    destruct (Nat.eqb_spec (freq a) (freq b)) as [E|NE]; [lia|]. apply IH; [exact (proj2 Hasc)|exact Hin].
Qed.

(* ------------------------------------------------------------------ *)
(** * find_key *)

Lemma keys_all_items_cons b r : keys (all_items (b :: r)) = keys (items b) ++ keys (all_items r).
Proof. rewrite all_items_cons. apply map_app. Qed.

Lemma find_key_none_iff k bs : find_key k bs = None <-> ~ In k (keys (all_items bs)).
Proof.
  induction bs as [|b r IH]; cbn [find_key].
  - cbn. tauto.
  - rewrite keys_all_items_cons. destruct (lookup k (items b)) as [v|] eqn:L.
    + split; [discriminate|]. intros H. exfalso. apply H. apply in_or_app. left.
      exact (lookup_some_key k v _ L).
    + rewrite IH. apply lookup_none_iff in L. split.
      * intros H C. apply in_app_or in C. destruct C as [C|C]; [exact (L C)|exact (H C)].
      * intros H C. apply H. apply in_or_app. right. exact C.
Qed.

(** a hit of [find_key] is a hit in the bucket of the reported frequency *)
Lemma find_key_some k u v bs :
  asc bs -> find_key k bs = Some (u, v) -> lookup k (bucket_items u bs) = Some v.
Proof.
  induction bs as [|b r IH]; cbn [find_key]; intros Hasc H; [discriminate|].
  cbn [bucket_items]. destruct (lookup k (items b)) as [v'|] eqn:L.
  - inversion H; subst. rewrite Nat.eqb_refl. exact L.
  - specialize (IH (proj2 Hasc) H).
    destruct (Nat.eqb_spec (freq b) u) as [E|NE]; [|exact IH].
    rewrite (bucket_items_all_gt u (freq b) r (asc_all_gt b r Hasc)) in IH by lia.
    discriminate.
Qed.

(** the frequency reported for a key in the tail is above the head's *)
Lemma find_key_freq_gt k u v b r :
  asc (b :: r) -> find_key k r = Some (u, v) -> freq b < u.
Proof.
  intros Hasc H. pose proof (find_key_some k u v r (proj2 Hasc) H) as L.
  destruct (Nat.le_gt_cases u (freq b)) as [Hle|Hgt]; [|exact Hgt].
  rewrite (bucket_items_all_gt u (freq b) r (asc_all_gt b r Hasc) Hle) in L. discriminate.
Qed.

(* ------------------------------------------------------------------ *)
(** * move_forward *)

Definition push_next (fb : nat) (k : key) (v : val) (r : list bucket) : list bucket :=
  match r with
  | n :: r2 => if Nat.eqb (freq n) (S fb)
               then mkB (freq n) (items n ++ [(k, v)]) :: r2
               else mkB (S fb) [(k, v)] :: r
  | [] => [mkB (S fb) [(k, v)]]
  end.

Lemma move_forward_hit k v b r :
  lookup k (items b) = Some v ->
  move_forward k (b :: r) =
    match remove_key k (items b) with
    | [] => push_next (freq b) k v r
    | _ => mkB (freq b) (remove_key k (items b)) :: push_next (freq b) k v r
    end.
Proof. intros H. cbn [move_forward]. rewrite H. reflexivity. Qed.

Lemma move_forward_miss k b r :
  lookup k (items b) = None -> move_forward k (b :: r) = b :: move_forward k r.
Proof. intros H. cbn [move_forward]. rewrite H. reflexivity. Qed.

Lemma push_next_asc fb k v r :
  hd_gt fb r -> asc r -> asc (push_next fb k v r) /\ hd_gt fb (push_next fb k v r).
Proof.
  unfold push_next. destruct r as [|n r2]; cbn [hd_gt asc]; intros Hhd Hasc.
  - cbn. lia.
  - destruct (Nat.eqb_spec (freq n) (S fb)) as [E|NE]; cbn [asc hd_gt freq].
    + split; [exact Hasc|lia].
    + split; [|lia]. split; [lia|exact Hasc].
Qed.

Lemma push_next_nonempty fb k v r : nonempty r -> nonempty (push_next fb k v r).
Proof.
  unfold push_next, nonempty. destruct r as [|n r2]; intros H.
  - constructor; [cbn; discriminate|constructor].
  - inversion H as [|? ? Hn Hr]; subst.
    destruct (Nat.eqb (freq n) (S fb)).
    + constructor; [cbn [items]; intros C; apply app_eq_nil in C; destruct C; discriminate|exact Hr].
    + constructor; [cbn; discriminate|exact H].
Qed.

Lemma push_next_perm fb k v r : Permutation (all_items (push_next fb k v r)) ((k, v) :: all_items r).
Proof.
  unfold push_next. destruct r as [|n r2].
  - cbn. apply Permutation_refl.
  - destruct (Nat.eqb (freq n) (S fb)).
    + rewrite !all_items_cons. cbn [items]. rewrite <- app_assoc. cbn [app].
      apply Permutation_sym. apply Permutation_middle.
    + rewrite all_items_cons. cbn [items app]. apply Permutation_refl.
Qed.

Lemma push_next_bucket_items fb k v r f :
  hd_gt fb r -> asc r ->
  bucket_items f (push_next fb k v r) =
  bucket_items f r ++ (if Nat.eqb (S fb) f then [(k, v)] else []).
Proof.
  unfold push_next. destruct r as [|n r2]; intros Hhd Hasc.
  - cbn [bucket_items freq items app]. destruct (Nat.eqb (S fb) f); reflexivity.
  - cbn [hd_gt] in Hhd.
    destruct (Nat.eqb_spec (freq n) (S fb)) as [E|NE]; cbn [bucket_items freq items].
    + destruct (Nat.eqb_spec (freq n) f) as [E2|NE2].
      * replace (Nat.eqb (S fb) f) with true by (symmetry; apply Nat.eqb_eq; lia). reflexivity.
      * replace (Nat.eqb (S fb) f) with false by (symmetry; apply Nat.eqb_neq; lia).
        rewrite app_nil_r. reflexivity.
    + destruct (Nat.eqb_spec (S fb) f) as [E2|NE2].
      * destruct (Nat.eqb_spec (freq n) f) as [E3|NE3]; [lia|].
        rewrite (bucket_items_all_gt f (freq n) r2 (asc_all_gt n r2 Hasc)) by lia. reflexivity.
      * rewrite app_nil_r. reflexivity.
Qed.

Lemma move_forward_asc k bs :
  asc bs -> asc (move_forward k bs) /\ (forall m, hd_gt m bs -> hd_gt m (move_forward k bs)).
Proof.
  induction bs as [|b r IH]; intros Hasc; [split; [exact I|intros m H; exact H]|].
  destruct Hasc as [Hhd Hr]. destruct (IH Hr) as [IH1 IH2].
  destruct (lookup k (items b)) as [v|] eqn:L.
  - rewrite (move_forward_hit k v b r L).
    destruct (push_next_asc (freq b) k v r Hhd Hr) as [P1 P2].
    destruct (remove_key k (items b)) as [|x rest].
    + split; [exact P1|]. intros m Hm. cbn [hd_gt] in Hm.
      destruct (push_next (freq b) k v r) as [|p ps]; cbn [hd_gt] in *; [exact I|lia].
    + split; [split; [exact P2|exact P1]|]. intros m Hm. exact Hm.
  - rewrite (move_forward_miss k b r L). split.
    + split; [apply IH2; exact Hhd|exact IH1].
    + intros m Hm. exact Hm.
Qed.

Lemma move_forward_nonempty k bs : nonempty bs -> nonempty (move_forward k bs).
Proof.
  unfold nonempty. induction bs as [|b r IH]; intros H; [constructor|].
  inversion H as [|? ? Hb Hr]; subst.
  destruct (lookup k (items b)) as [v|] eqn:L.
  - rewrite (move_forward_hit k v b r L).
    pose proof (push_next_nonempty (freq b) k v r Hr) as P.
    destruct (remove_key k (items b)) as [|x rest] eqn:R; [exact P|].
    constructor; [cbn [items]; discriminate|exact P].
  - rewrite (move_forward_miss k b r L). constructor; [exact Hb|exact (IH Hr)].
Qed.

Lemma all_items_move_forward_hit k v b r :
  lookup k (items b) = Some v ->
  all_items (move_forward k (b :: r)) =
  remove_key k (items b) ++ all_items (push_next (freq b) k v r).
Proof.
  intros L. rewrite (move_forward_hit k v b r L).
  destruct (remove_key k (items b)) as [|x rest]; reflexivity.
Qed.

Lemma move_forward_perm k bs :
  NoDup (keys (all_items bs)) -> Permutation (all_items (move_forward k bs)) (all_items bs).
Proof.
  induction bs as [|b r IH]; intros Hnd; [apply Permutation_refl|].
  rewrite keys_all_items_cons in Hnd. destruct (NoDup_app_inv _ _ Hnd) as (Hb & Hr & _).
  destruct (lookup k (items b)) as [v|] eqn:L.
  - rewrite (all_items_move_forward_hit k v b r L), all_items_cons.
    eapply perm_trans; [apply Permutation_app_head; apply push_next_perm|].
    eapply perm_trans; [apply Permutation_sym; apply Permutation_middle|].
    change ((k, v) :: remove_key k (items b) ++ all_items r)
      with (((k, v) :: remove_key k (items b)) ++ all_items r).
    apply Permutation_app_tail.
    apply Permutation_sym. exact (remove_key_perm k v (items b) Hb L).
  - rewrite (move_forward_miss k b r L), !all_items_cons.
    apply Permutation_app_head. exact (IH Hr).
Qed.

Lemma move_forward_bucket_items k u v bs f :
  asc bs -> NoDup (keys (all_items bs)) -> find_key k bs = Some (u, v) ->
  bucket_items f (move_forward k bs) =
  remove_key k (bucket_items f bs) ++ (if Nat.eqb (S u) f then [(k, v)] else []).
Proof.
  induction bs as [|b r IH]; intros Hasc Hnd Hf; [discriminate|].
  pose proof Hasc as [Hhd Hr].
  rewrite keys_all_items_cons in Hnd. destruct (NoDup_app_inv _ _ Hnd) as (Hb & Hndr & Hdisj).
  cbn [find_key] in Hf. destruct (lookup k (items b)) as [v'|] eqn:L.
  - inversion Hf; subst u v'. clear Hf.
    assert (Hkr : ~ In k (keys (all_items r))) by (apply Hdisj; exact (lookup_some_key k v _ L)).
    pose proof (push_next_bucket_items (freq b) k v r f Hhd Hr) as P.
    pose proof (push_next_asc (freq b) k v r Hhd Hr) as [_ P2].
    rewrite (move_forward_hit k v b r L). cbn [bucket_items].
    destruct (Nat.eqb_spec (freq b) f) as [E|NE].
    + (* the source bucket *)
      replace (Nat.eqb (S (freq b)) f) with false by (symmetry; apply Nat.eqb_neq; lia).
      rewrite app_nil_r.
      destruct (remove_key k (items b)) as [|x rest].
      * rewrite P. replace (Nat.eqb (S (freq b)) f) with false by (symmetry; apply Nat.eqb_neq; lia).
        rewrite app_nil_r. apply (bucket_items_all_gt f (freq b) r (asc_all_gt b r Hasc)). lia.
      * cbn [bucket_items freq items]. rewrite (proj2 (Nat.eqb_eq _ _) E). reflexivity.
    + rewrite (remove_key_notin k (bucket_items f r) (bucket_items_notin k f r Hkr)).
      destruct (remove_key k (items b)) as [|x rest].
      * exact P.
      * cbn [bucket_items freq]. rewrite (proj2 (Nat.eqb_neq _ _) NE). exact P.
  - rewrite (move_forward_miss k b r L). cbn [bucket_items].
    pose proof (find_key_freq_gt k u v b r Hasc Hf) as Hgt.
    destruct (Nat.eqb_spec (freq b) f) as [E|NE].
    + replace (Nat.eqb (S u) f) with false by (symmetry; apply Nat.eqb_neq; lia).
      rewrite app_nil_r. symmetry. apply remove_key_notin. apply lookup_none_iff. exact L.
    + exact (IH Hr Hndr Hf).
Qed.

(* ------------------------------------------------------------------ *)
(** * dump_cache *)

Lemma dump_cache_asc bs : asc bs -> asc (dump_cache bs).
Proof.
  destruct bs as [|b r]; intros H; [exact I|].
  unfold dump_cache. destruct (items b) as [|x [|y it]]; try exact (proj2 H).
  exact H.
Qed.

Lemma dump_cache_nonempty bs : nonempty bs -> nonempty (dump_cache bs).
Proof.
  unfold nonempty. destruct bs as [|b r]; intros H; [constructor|].
  inversion H as [|? ? Hb Hr]; subst.
  unfold dump_cache. destruct (items b) as [|x [|y it]]; try exact Hr.
  constructor; [cbn; discriminate|exact Hr].
Qed.

Lemma dump_cache_all_items bs : nonempty bs -> all_items (dump_cache bs) = tl (all_items bs).
Proof.
  destruct bs as [|b r]; intros H; [reflexivity|].
  inversion H as [|? ? Hb Hr]; subst.
  unfold dump_cache. rewrite all_items_cons.
  destruct (items b) as [|x [|y it]]; [congruence|reflexivity|reflexivity].
Qed.

Lemma dump_cache_bucket_items b r kk vv it f :
  asc (b :: r) -> NoDup (keys (all_items (b :: r))) -> items b = (kk, vv) :: it ->
  bucket_items f (dump_cache (b :: r)) = remove_key kk (bucket_items f (b :: r)).
Proof.
  intros Hasc Hnd Hit.
  rewrite keys_all_items_cons, Hit in Hnd. destruct (NoDup_app_inv _ _ Hnd) as (Hb & _ & Hdisj).
  cbn [map fst] in Hb. apply NoDup_cons_iff in Hb. destruct Hb as [Hkit _].
  assert (Hkr : ~ In kk (keys (all_items r))) by (apply Hdisj; left; reflexivity).
  unfold dump_cache. cbn [bucket_items]. rewrite Hit.
  destruct (Nat.eqb_spec (freq b) f) as [E|NE].
  - rewrite (remove_key_head kk vv it Hkit).
    destruct it as [|y it']; cbn [bucket_items freq items].
    + apply (bucket_items_all_gt f (freq b) r (asc_all_gt b r Hasc)). lia.
    + rewrite (proj2 (Nat.eqb_eq _ _) E). reflexivity.
  - rewrite (remove_key_notin kk _ (bucket_items_notin kk f r Hkr)).
    destruct it as [|y it']; cbn [bucket_items freq items]; [reflexivity|].
    rewrite (proj2 (Nat.eqb_neq _ _) NE). reflexivity.
Qed.

(* ------------------------------------------------------------------ *)
(** * create_node *)

Lemma create_node_asc k v bs : asc bs -> asc (create_node k v bs).
Proof.
  unfold create_node. destruct bs as [|b r]; intros H; [cbn; tauto|].
  destruct (Nat.eqb_spec (freq b) 0) as [E|NE].
  - destruct H as [Hhd Hr]. split; [|exact Hr]. cbn [freq]. rewrite <- E. exact Hhd.
  - split; [cbn [hd_gt freq]; lia|exact H].
Qed.

Lemma create_node_nonempty k v bs : nonempty bs -> nonempty (create_node k v bs).
Proof.
  unfold create_node, nonempty. destruct bs as [|b r]; intros H.
  - constructor; [cbn; discriminate|constructor].
  - destruct (Nat.eqb (freq b) 0).
    + inversion H as [|? ? Hb Hr]; subst.
      constructor; [cbn [items]; intros C; apply app_eq_nil in C; destruct C; discriminate|exact Hr].
    + constructor; [cbn; discriminate|exact H].
Qed.

Lemma create_node_perm k v bs : Permutation (all_items (create_node k v bs)) ((k, v) :: all_items bs).
Proof.
  unfold create_node. destruct bs as [|b r]; [apply Permutation_refl|].
  destruct (Nat.eqb (freq b) 0).
  - rewrite !all_items_cons. cbn [items]. rewrite <- app_assoc. cbn [app].
    apply Permutation_sym. apply Permutation_middle.
  - rewrite all_items_cons. cbn [items app]. apply Permutation_refl.
Qed.

Lemma create_node_bucket_items k v bs f :
  asc bs ->
  bucket_items f (create_node k v bs) =
  bucket_items f bs ++ (if Nat.eqb 0 f then [(k, v)] else []).
Proof.
  unfold create_node. destruct bs as [|b r]; intros Hasc.
  - cbn [bucket_items freq items app]. destruct (Nat.eqb 0 f); reflexivity.
  - destruct (Nat.eqb_spec (freq b) 0) as [E|NE]; cbn [bucket_items freq items].
    + rewrite E. destruct (Nat.eqb 0 f); [reflexivity|rewrite app_nil_r; reflexivity].
    + destruct (Nat.eqb_spec 0 f) as [E2|NE2]; [|rewrite app_nil_r; reflexivity].
      subst f. destruct (Nat.eqb_spec (freq b) 0) as [E3|_]; [lia|].
      rewrite (bucket_items_all_gt 0 (freq b) r (asc_all_gt b r Hasc)) by lia. reflexivity.
Qed.

(* ------------------------------------------------------------------ *)
(** * set_present *)

Lemma set_present_asc k v bs :
  asc bs -> asc (set_present k v bs) /\ (forall m, hd_gt m bs -> hd_gt m (set_present k v bs)).
Proof.
  induction bs as [|b r IH]; intros H; [split; [exact I|intros m Hm; exact Hm]|].
  destruct H as [Hhd Hr]. destruct (IH Hr) as [IH1 IH2]. cbn [set_present].
  destruct (has_key k (items b)).
  - split; [split; [exact Hhd|exact Hr]|intros m Hm; exact Hm].
  - split; [split; [apply IH2; exact Hhd|exact IH1]|intros m Hm; exact Hm].
Qed.

Lemma set_present_nonempty k v bs : nonempty bs -> nonempty (set_present k v bs).
Proof.
  unfold nonempty. induction bs as [|b r IH]; intros H; [constructor|].
  inversion H as [|? ? Hb Hr]; subst. cbn [set_present].
  destruct (has_key k (items b)).
  - constructor; [cbn [items]; apply replace_val_nonnil; exact Hb|exact Hr].
  - constructor; [exact Hb|exact (IH Hr)].
Qed.

Lemma set_present_keys k v bs : keys (all_items (set_present k v bs)) = keys (all_items bs).
Proof.
  induction bs as [|b r IH]; [reflexivity|]. cbn [set_present].
  destruct (has_key k (items b)).
  - rewrite !keys_all_items_cons. cbn [items]. rewrite replace_val_keys. reflexivity.
  - rewrite !keys_all_items_cons, IH. reflexivity.
Qed.

Lemma set_present_bucket_items k v bs f :
  NoDup (keys (all_items bs)) ->
  bucket_items f (set_present k v bs) = replace_val k v (bucket_items f bs).
Proof.
  induction bs as [|b r IH]; intros Hnd; [reflexivity|].
  rewrite keys_all_items_cons in Hnd. destruct (NoDup_app_inv _ _ Hnd) as (_ & Hr & Hdisj).
  cbn [set_present]. rewrite has_key_lookup. destruct (lookup k (items b)) as [v'|] eqn:L.
  - assert (Hkr : ~ In k (keys (all_items r))) by (apply Hdisj; exact (lookup_some_key k v' _ L)).
    cbn [bucket_items freq items]. destruct (Nat.eqb (freq b) f); [reflexivity|].
    symmetry. apply replace_val_notin. exact (bucket_items_notin k f r Hkr).
  - cbn [bucket_items]. destruct (Nat.eqb (freq b) f); [|exact (IH Hr)].
    symmetry. apply replace_val_notin. apply lookup_none_iff. exact L.
Qed.

(* ------------------------------------------------------------------ *)
(** * Every operation preserves the invariant *)

Lemma empty_inv c : inv (empty c).
Proof. unfold inv, empty. cbn. repeat split; try constructor. lia. Qed.

Lemma get_cap s k : cap (fst (get s k)) = cap s.
Proof. unfold get. destruct (find_key k (buckets s)) as [[u v]|]; reflexivity. Qed.

Lemma get_inv s k : inv s -> inv (fst (get s k)).
Proof.
  intros (Hasc & Hne & Hnd & Hsz). unfold get.
  destruct (find_key k (buckets s)) as [[u v]|]; [|exact (conj Hasc (conj Hne (conj Hnd Hsz)))].
  cbn [fst]. pose proof (move_forward_perm k (buckets s) Hnd) as P.
  unfold inv. cbn [buckets cap]. split; [exact (proj1 (move_forward_asc k _ Hasc))|].
  split; [exact (move_forward_nonempty k _ Hne)|]. split.
  - eapply Permutation_NoDup; [apply Permutation_map; apply Permutation_sym; exact P|exact Hnd].
  - rewrite size_all_items in *. cbn [buckets]. rewrite (Permutation_length P). exact Hsz.
Qed.

Lemma set_cap s k v : cap (set s k v) = cap s.
Proof. unfold set. destruct (contains s k); reflexivity. Qed.

Lemma contains_false s k : contains s k = false -> ~ In k (keys (all_items (buckets s))).
Proof.
  unfold contains. destruct (find_key k (buckets s)) eqn:F; [discriminate|].
  intros _. apply find_key_none_iff. exact F.
Qed.

Lemma set_inv s k v : 1 <= cap s -> inv s -> inv (set s k v).
Proof.
  intros Hcap (Hasc & Hne & Hnd & Hsz). unfold set.
  destruct (contains s k) eqn:C.
  - unfold inv. cbn [buckets cap]. split; [exact (proj1 (set_present_asc k v _ Hasc))|].
    split; [exact (set_present_nonempty k v _ Hne)|]. split.
    + rewrite set_present_keys. exact Hnd.
    + rewrite size_all_items in *. cbn [buckets].
      rewrite <- (map_length fst), set_present_keys, map_length. exact Hsz.
  - pose proof (contains_false s k C) as Hk.
    set (bs := if Nat.leb (cap s) (size s) then dump_cache (buckets s) else buckets s).
    assert (Hbs : asc bs /\ nonempty bs /\ NoDup (keys (all_items bs)) /\
                  ~ In k (keys (all_items bs)) /\ S (length (all_items bs)) <= cap s).
    { subst bs. rewrite size_all_items in *. destruct (Nat.leb_spec (cap s) (length (all_items (buckets s)))) as [Hfull|Hroom].
      - rewrite (dump_cache_all_items _ Hne).
        destruct (all_items (buckets s)) as [|x its] eqn:A; [cbn [length] in Hfull; lia|].
        cbn [tl map fst length] in *. apply NoDup_cons_iff in Hnd.
        split; [exact (dump_cache_asc _ Hasc)|]. split; [exact (dump_cache_nonempty _ Hne)|].
        split; [exact (proj2 Hnd)|]. split; [|lia]. intros C2. apply Hk. right. exact C2.
      - split; [exact Hasc|]. split; [exact Hne|]. split; [exact Hnd|]. split; [exact Hk|lia]. }
    clearbody bs. destruct Hbs as (Ha & Hn & Hd & Hkk & Hl).
    pose proof (create_node_perm k v bs) as P.
    unfold inv. cbn [buckets cap]. split; [exact (create_node_asc k v bs Ha)|].
    split; [exact (create_node_nonempty k v bs Hn)|]. split.
    + eapply Permutation_NoDup; [apply Permutation_map; apply Permutation_sym; exact P|].
      cbn [map fst]. constructor; [exact Hkk|exact Hd].
    + rewrite size_all_items. cbn [buckets]. rewrite (Permutation_length P). cbn [length]. exact Hl.
Qed.

Lemma step_cap s o : cap (fst (step s o)) = cap s.
Proof. destruct o as [k|k v]; [apply get_cap|apply set_cap]. Qed.

Lemma step_inv s o : 1 <= cap s -> inv s -> inv (fst (step s o)).
Proof. intros Hc H. destruct o as [k|k v]; [exact (get_inv s k H)|exact (set_inv s k v Hc H)]. Qed.

Lemma run_cons s o (r : list op) :
  run s (o :: r) =
  (fst (run (fst (step s o)) r),
   match o with OGet _ => snd (step s o) :: snd (run (fst (step s o)) r)
              | OSet _ _ => snd (run (fst (step s o)) r) end).
Proof.
  cbn [run]. destruct (step s o) as [s1 out]. cbn [fst snd].
  destruct (run s1 r) as [s2 outs]. reflexivity.
Qed.

Lemma run_inv ops : forall s, 1 <= cap s -> inv s ->
  inv (fst (run s ops)) /\ cap (fst (run s ops)) = cap s.
Proof.
  induction ops as [|o r IH]; intros s Hc H; [split; [exact H|reflexivity]|].
  rewrite run_cons. cbn [fst].
  destruct (IH (fst (step s o))) as [I1 I2].
  - rewrite step_cap. exact Hc.
  - exact (step_inv s o Hc H).
  - split; [exact I1|]. rewrite I2. apply step_cap.
Qed.

End Gen.
Arguments lookup_none_iff {val}.
Arguments lookup_some_in {val}.
Arguments lookup_some_key {val}.
Arguments lookup_in_nodup {val}.
Arguments has_key_lookup {val}.
Arguments remove_key_notin {val}.
Arguments remove_key_keys {val}.
Arguments remove_key_app {val}.
Arguments remove_key_nodup {val}.
Arguments remove_key_perm {val}.
Arguments remove_key_head {val}.
Arguments replace_val_keys {val}.
Arguments replace_val_notin {val}.
Arguments replace_val_nonnil {val}.
Arguments all_items {val}.
Arguments hd_gt {val}.
Arguments asc {val}.
Arguments all_gt {val}.
Arguments nonempty {val}.
Arguments inv {val}.
Arguments all_gt_weaken {val}.
Arguments asc_all_gt {val}.
Arguments asc_strongly_sorted {val}.
Arguments all_items_cons {val}.
Arguments size_all_items {val}.
Arguments bucket_items_all_gt {val}.
Arguments bucket_items_incl {val}.
Arguments bucket_items_notin {val}.
Arguments bucket_items_nonnil {val}.
Arguments bucket_items_in {val}.
Arguments keys_all_items_cons {val}.
Arguments find_key_none_iff {val}.
Arguments find_key_some {val}.
Arguments find_key_freq_gt {val}.
Arguments push_next {val}.
Arguments move_forward_hit {val}.
Arguments move_forward_miss {val}.
Arguments push_next_asc {val}.
Arguments push_next_nonempty {val}.
Arguments push_next_perm {val}.
Arguments push_next_bucket_items {val}.
Arguments move_forward_asc {val}.
Arguments move_forward_nonempty {val}.
Arguments all_items_move_forward_hit {val}.
Arguments move_forward_perm {val}.
Arguments move_forward_bucket_items {val}.
Arguments dump_cache_asc {val}.
Arguments dump_cache_nonempty {val}.
Arguments dump_cache_all_items {val}.
Arguments dump_cache_bucket_items {val}.
Arguments create_node_asc {val}.
Arguments create_node_nonempty {val}.
Arguments create_node_perm {val}.
Arguments create_node_bucket_items {val}.
Arguments set_present_asc {val}.
Arguments set_present_nonempty {val}.
Arguments set_present_keys {val}.
Arguments set_present_bucket_items {val}.
Arguments empty_inv {val}.
Arguments get_cap {val}.
Arguments get_inv {val}.
Arguments set_cap {val}.
Arguments contains_false {val}.
Arguments set_inv {val}.
Arguments step_cap {val}.
Arguments step_inv {val}.
Arguments run_cons {val}.
Arguments run_inv {val}.


(** The rest of deepdiff/lfucache.py at the POINTER level (LfuHeapModel.v):
    - [hset_rt]: [LFUCache.set(key, report_type, value)] - the report-type form, with the
      node content [defaultdict(SetOrdered)] of LfuRtModel.v stored in the CacheNode;
    - [h_sorted_keys]: [get_sorted_cache_keys] - (key, frequency of its node's FreqNode) for
      the dict items IN DICT ORDER (the association list [dict] keeps Python's insertion
      order: a new key is appended, an overwritten key keeps its place, a popped key
      leaves), stably sorted by descending frequency;
    - [h_avg_freq]: [get_average_frequency] as the exact pair (sum, count); count 0 is
      statistics.mean's StatisticsError;
    - [dummy_step]: [DummyLFU] - get and set do nothing and return None, nothing is ever
      contained.
    Definitions only. *)
From Coq Require Import List ZArith Bool Arith.
Import ListNotations.
From DD Require Import Lfu.LfuModel Lfu.LfuRtModel Lfu.LfuHeapModel.

(** * set(key, report_type, value) on the heap; the boolean says "raised TypeError" *)
Definition hset_rt (h : heap content) (k : key) (rt : option rtype) (v : Z) : option (heap content * bool) :=
  match lookup k (dict h) with
  | Some nid =>                                             (* key in self.cache *)
      match rt with
      | Some r =>                                           (* cache_node.content[report_type].add(value) *)
          do c <- getc h (Some nid);
          match ccont c with
          | CRep d => do h1 <- putc h (Some nid) (with_ccont (CRep (add_rep r v d))); Some (h1, false)
          | CVal _ => Some (h, true)                        (* 'int' object is not subscriptable *)
          end
      | None => do h1 <- putc h (Some nid) (with_ccont (CVal v)); Some (h1, false)   (* cache_node.content = value *)
      end
  | None =>
      do h1 <- (if Nat.leb (hcap h) (length (dict h)) then dump_cache h else Some h);
      do h2 <- create_cache_node h1 k (new_content rt v);  (* CacheNode.__init__ builds the content *)
      Some (h2, false)
  end.

Definition hrstep (h : heap content) (o : rop) : option (heap content * rout) :=
  match o with
  | RGet k => do r <- hget h k;
              Some (fst r, match snd r with Some c => RContent c | None => RNotFound end)
  | RSet k rt v => do r <- hset_rt h k rt v;
                   Some (fst r, if snd r then RRaised else RDone)
  end.

Fixpoint hrrun (h : heap content) (ops : list rop) : option (heap content * list rout) :=
  match ops with
  | [] => Some (h, [])
  | o :: r =>
      do so <- hrstep h o;
      do rr <- hrrun (fst so) r;
      Some (fst rr, snd so :: snd rr)
  end.

Set Implicit Arguments.
Set Maximal Implicit Insertion.
Section Gen.
Variable val : Type.

(** * get_sorted_cache_keys / get_average_frequency *)
(* freq.freq_node.freq for one dict value *)
Definition node_freq (h : heap val) (nid : id) : option nat :=
  do c <- getc h (Some nid);
  do f <- getf h (cfn c);
  Some (ffreq f).

(* [(i, freq.freq_node.freq) for i, freq in self.cache.items()] *)
Fixpoint key_freqs (h : heap val) (d : list (key * id)) : option (list (key * nat)) :=
  match d with
  | [] => Some []
  | (k, nid) :: r =>
      do f <- node_freq h nid;
      do l <- key_freqs h r;
      Some ((k, f) :: l)
  end.

(* result.sort(key=lambda x: -x[1]): stable, descending *)
Fixpoint ins_desc (x : key * nat) (l : list (key * nat)) : list (key * nat) :=
  match l with
  | [] => [x]
  | y :: r => if Nat.leb (snd y) (snd x) then x :: l else y :: ins_desc x r
  end.
Definition sort_desc (l : list (key * nat)) : list (key * nat) := fold_right ins_desc [] l.

Definition h_sorted_keys (h : heap val) : option (list (key * nat)) :=
  do l <- key_freqs h (dict h); Some (sort_desc l).

Definition sum_freqs (l : list (key * nat)) : nat := fold_right (fun x a => snd x + a) 0 l.
(* mean(freq.freq_node.freq for freq in self.cache.values()) = sum / count *)
Definition h_avg_freq (h : heap val) : option (nat * nat) :=
  do l <- key_freqs h (dict h); Some (sum_freqs l, length l).

(** the same two observers on the bucket-list model: every key with the frequency of its bucket *)
Definition key_freqs_of (bs : list (bucket val)) : list (key * nat) :=
  flat_map (fun b => map (fun kv => (fst kv, freq b)) (items b)) bs.

(** * DummyLFU: [set = get = __init__] (returns None), [__contains__] is False *)
Definition dummy_step (o : op val) : option val := None.
Definition dummy_contains (k : key) : bool := false.

End Gen.

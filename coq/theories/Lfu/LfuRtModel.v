(** Extension of the model to the report_type form of [LFUCache.set]:
      set(key, report_type, value)
    where the node content is a [defaultdict(SetOrdered)]: an insertion-ordered
    map  report_type -> insertion-ordered set of values.  The cache structure
    (LfuModel.v, generic in the content type) is reused unchanged with
    [val := content]; this file adds what CacheNode.__init__ and the
    "key in self.cache" branch of [set] do to the content.
    A report type is truthy in Python (non-empty string): [Some r]; a falsy one
    (None, "") is [None].  Plain values are integers, so
    [cache_node.content[report_type]] on a plain content raises TypeError
    ('int' object is not subscriptable) before anything is modified.
    Definitions only. *)
From Coq Require Import List ZArith Bool Arith.
Import ListNotations.
From DD Require Import Lfu.LfuModel.

Definition rtype := Z.
Inductive content := CVal (v : Z) | CRep (d : list (rtype * list Z)).

(* content[rt].add(v): the defaultdict creates a missing key at the end; a
   SetOrdered ignores a value it already holds *)
Fixpoint add_rep (rt : rtype) (v : Z) (d : list (rtype * list Z)) : list (rtype * list Z) :=
  match d with
  | [] => [(rt, [v])]
  | (r, vs) :: t =>
      if Z.eqb r rt
      then (r, if existsb (Z.eqb v) vs then vs else vs ++ [v]) :: t
      else (r, vs) :: add_rep rt v t
  end.

(* CacheNode.__init__ *)
Definition new_content (rt : option rtype) (v : Z) : content :=
  match rt with Some r => CRep [(r, [v])] | None => CVal v end.

(* the "key in self.cache" branch; None = TypeError *)
Definition upd_content (c : content) (rt : option rtype) (v : Z) : option content :=
  match rt, c with
  | None, _ => Some (CVal v)
  | Some r, CRep d => Some (CRep (add_rep r v d))
  | Some _, CVal _ => None
  end.

(* LFUCache.set(key, report_type, value); the boolean says "raised" *)
Definition set_rt (s : lfu content) (k : key) (rt : option rtype) (v : Z) : lfu content * bool :=
  match find_key k (buckets s) with
  | Some (_, c) =>
      match upd_content c rt v with
      | Some c' => (mkL (cap s) (set_present k c' (buckets s)), false)
      | None => (s, true)
      end
  | None =>
      let bs := if Nat.leb (cap s) (size s) then dump_cache (buckets s) else buckets s in
      (mkL (cap s) (create_node k (new_content rt v) bs), false)
  end.

Inductive rop := RGet (k : key) | RSet (k : key) (rt : option rtype) (v : Z).
Inductive rout := RContent (c : content) | RNotFound | RDone | RRaised.

Definition rstep (s : lfu content) (o : rop) : lfu content * rout :=
  match o with
  | RGet k => let r := get s k in
              (fst r, match snd r with Some c => RContent c | None => RNotFound end)
  | RSet k rt v => let r := set_rt s k rt v in
                   (fst r, if snd r then RRaised else RDone)
  end.

Fixpoint rrun (s : lfu content) (ops : list rop) : lfu content * list rout :=
  match ops with
  | [] => (s, [])
  | o :: r => let so := rstep s o in
              let rr := rrun (fst so) r in
              (fst rr, snd so :: snd rr)
  end.

(** Lowering to the generic operations: the content a [set] stores (None: it
    raises and stores nothing), and the generic trace of a report-type trace. *)
Definition lower (s : lfu content) (k : key) (rt : option rtype) (v : Z) : option content :=
  match find_key k (buckets s) with
  | Some (_, c) => upd_content c rt v
  | None => Some (new_content rt v)
  end.

Fixpoint lower_ops (s : lfu content) (ops : list rop) : list (op content) :=
  match ops with
  | [] => []
  | RGet k :: r => OGet k :: lower_ops (fst (get s k)) r
  | RSet k rt v :: r =>
      match lower s k rt v with
      | Some c => OSet k c :: lower_ops (set s k c) r
      | None => lower_ops s r
      end
  end.

(* the outputs of the gets *)
Fixpoint get_outs (l : list rout) : list (option content) :=
  match l with
  | [] => []
  | RContent c :: r => Some c :: get_outs r
  | RNotFound :: r => None :: get_outs r
  | _ :: r => get_outs r
  end.
